import Juniper.Generated.SkeletonPar
/-!
# Control-skeleton ties for `parallel.Do` / `DoContext` / `Map` / `MapContext` (C13)

Split off `Proofs/SkeletonPar.lean` (which imports this file and keeps the MapIterator / MapStream ties;
same namespace, so nothing changes for its users): the C13 proofs import only this file, so an edit of a
MapIterator / MapStream skeleton no longer stops the C13 build at a misleading location (audit C13 F6).

`Juniper.Gen.SkeletonPar.pskel…` is the sequence of statement kinds of a body as it is in the source now
(identifiers and expressions normalised away, see `tools/gofacts/sites_skeleton_par.go`), the right-hand
sides are the skeletons the model `Juniper.Model.ParDo` / `Juniper.Model.ParWrap` was written against.
The soundness tactics `pardo_sound` (`Proofs/ParDoBasic.lean`) and `wrapper_sound` (`Proofs/ParWrap.lean`), which
every property theorem of `Props/C13*.lean` runs, prove `Code.Sound` / `Wrapper.Sound` `under` these ties.
-/
namespace Juniper.Proofs.SkeletonPar
open Juniper.Gen.SkeletonPar

/-- `p`, claimed only for a source whose control skeleton is as the tie `k` says. Conclusions about
the code "as it is in the source now" go through this lemma so that they depend on the tie. -/
theorem under {k p : Prop} (_tie : k) (h : p) : p := h

/-! ### parallel.Do -/

/-- `Do`: clamp low, clamp high, sequential fast path (`for …; return`), counter, wait group,
`wg.Add`, spawn loop of `go` statements, `wg.Wait()`, `return`. -/
theorem pskelDo_tie : pskelDo =
    ["if{assign}", "if{assign}", "if{for{..};return}", "define", "decl", "mcall", "for{go{..}}", "mcall",
     "return"] := by
  decide

/-- sequential path of `Do`: `for … { f(i) }; return` -/
theorem pskelDoSeq_tie : pskelDoSeq =
    ["for{call}", "return"] := by decide

/-- worker of `Do`: `defer wg.Done()`, then forever: fetch, `if … { return }`, `f(i)` -/
theorem pskelDoWorker_tie : pskelDoWorker =
    ["defer", "forever{define;if{return};call}"] := by decide

/-- the three bodies of `parallel.Do` the LTS hard-wires -/
theorem pskelDo_ties :
    pskelDo =
    ["if{assign}", "if{assign}", "if{for{..};return}", "define", "decl", "mcall", "for{go{..}}", "mcall",
     "return"]
    ∧ pskelDoSeq =
    ["for{call}", "return"]
    ∧ pskelDoWorker =
    ["defer", "forever{define;if{return};call}"] :=
  ⟨pskelDo_tie, pskelDoSeq_tie, pskelDoWorker_tie⟩

/-! ### parallel.DoContext -/

/-- `DoContext`: clamp low, clamp high, sequential fast path, counter, errgroup, spawn loop of
`eg.Go(func …)`, `return eg.Wait()`. -/
theorem pskelDoContext_tie : pskelDoContext =
    ["if{assign}", "if{assign}", "if{for{..};return}", "define", "define", "for{mcall{..}}", "return"] := by
  decide

/-- sequential path of `DoContext`: `for … { err := f(ctx, i); if err != nil { return err } }; return nil` -/
theorem pskelDoContextSeq_tie : pskelDoContextSeq =
    ["for{define;if{return}}", "return"] := by decide

/-- worker of `DoContext`: forever: fetch, done?, cancelled?, call, failed? -/
theorem pskelDoContextWorker_tie : pskelDoContextWorker =
    ["forever{define;if{return};if{return};define;if{return}}"] := by decide

theorem pskelDoContext_ties :
    pskelDoContext =
    ["if{assign}", "if{assign}", "if{for{..};return}", "define", "define", "for{mcall{..}}", "return"]
    ∧ pskelDoContextSeq =
    ["for{define;if{return}}", "return"]
    ∧ pskelDoContextWorker =
    ["forever{define;if{return};if{return};define;if{return}}"] :=
  ⟨pskelDoContext_tie, pskelDoContextSeq_tie, pskelDoContextWorker_tie⟩

/-! ### Map / MapContext -/

/-- `Map`: allocate, `Do(…, func(i) { out[i] = f(in[i]) })`, `return out` -/
theorem pskelMap_tie : pskelMap =
    ["define", "call{assign}", "return"] := by decide

/-- `MapContext`: allocate, `err := DoContext(…, func … { var err error; out[i], err = …; return err })`,
`if err != nil { return nil, err }`, `return out, nil` -/
theorem pskelMapContext_tie : pskelMapContext =
    ["define", "define{decl;assign;return}", "if{return}", "return"] := by decide

end Juniper.Proofs.SkeletonPar
