import Juniper.Proofs.CondFine
/-!
# Attributed counting for C16: "m Signal calls wake at least min(k, m) **of them**"

`nWokenOfThem s s'` counts the waiters that had entered in `s` and are woken in `s'` (by index: one index
= one `Wait` call). In a run without `start` / `release` / `cancel` / `broadcast` every waiter newly woken
is one of them (`quiet_woken_of_them`), which lets `signal_wakes_min_…_partial` be stated with the
attributed count. With late entrants the two counts differ — that is the second refutation of the clause
(`Props.C16.signal_wakes_min_late_entrant_false`).
-/
namespace Juniper.Proofs.Cond
open Juniper.Model.Cond Juniper.Proofs.CondFine

def isEntered (w : Waiter) : Bool := isUnparked w || isParked w

/-- number of waiters that had entered in `s` (released the lock, not yet woken) and are woken in `s'` -/
def nWokenOfThem (s s' : State) : Nat := (s.ws.zip s'.ws).countP fun p => isEntered p.1 && isWoken p.2

/-- number of waiters that had entered in `s` and have returned their context's error in `s'` -/
def nErrOfThem (s s' : State) : Nat := (s.ws.zip s'.ws).countP fun p => isEntered p.1 && decide (p.2.pc = .doneErr)

theorem countP_zip_le {α : Type} (q p : α → Bool) (r : α × α → Bool) : ∀ (l l' : List α), l.length = l'.length →
    (∀ x ∈ l.zip l', q x.2 = true → p x.1 = true ∨ r x = true) →
    l'.countP q ≤ l.countP p + (l.zip l').countP r
  | [], [], _, _ => by simp
  | [], _ :: _, h, _ => by simp at h
  | _ :: _, [], h, _ => by simp at h
  | a :: l, a' :: l', h, hx => by
    have ih := countP_zip_le q p r l l' (by simpa using h) (fun x hm => hx x (by simp [hm]))
    have h0 := hx (a, a') (by simp)
    simp only [List.zip_cons_cons, List.countP_cons]
    by_cases hq : q a' = true
    · rcases h0 hq with h1 | h1 <;> simp [hq, h1] <;> omega
    · simp [hq]; omega

/-- a waiter that has not called `Wait`, is still before `c.L.Unlock()`, or has returned the error -/
def outside : Pc → Bool
  | .idle => true | .held _ => true | .doneErr => true | _ => false

/-- Signals and the waiters' own progress do not touch a waiter that is outside -/
theorem quiet_step_outside {s s' : State} {l : Label} {i : Nat} {w : Waiter} (h : step Cfg.std s l = some s')
    (hl : progressOnly l = true) (hw : s.ws[i]? = some w) (ho : outside w.pc = true) : s'.ws[i]? = some w := by
  have viaSet : ∀ (t : State) (j : Nat) (p : Pc), t.ws = s.ws → (∀ wj, s.ws[j]? = some wj → outside wj.pc = false) →
      (setPc t j p).ws[i]? = some w := by
    intro t j p hws hj
    by_cases hji : i = j
    · subst hji
      have := hj w hw
      rw [ho] at this; cases this
    · rw [setPc_frame _ _ _ _ hji, hws]; exact hw
  cases l with
  | start j => simp [progressOnly] at hl
  | release j => simp [progressOnly] at hl
  | broadcast => simp [progressOnly] at hl
  | cancel j => simp [progressOnly] at hl
  | hunlock => obtain ⟨_, _, _, rfl⟩ := step_hunlock h; exact hw
  | relock j =>
    obtain ⟨e, hpc, _, rfl⟩ := step_relock h
    obtain ⟨wj, hwj, hp⟩ := pcOf_some.mp hpc
    exact viaSet s j _ rfl (fun x hx => by rw [hwj] at hx; cases hx; rw [hp]; rfl)
  | arrive j c =>
    obtain ⟨wj, ch0, hwj, hp, hcase⟩ := step_arrive h
    have hj : ∀ x, s.ws[j]? = some x → outside x.pc = false := fun x hx => by rw [hwj] at hx; cases hx; rw [hp]; rfl
    rcases hcase with ⟨_, _, rfl⟩ | ⟨_, _, rfl⟩ | ⟨_, _, _, _, rfl⟩
    · unfold recvState
      exact viaSet _ j _ (by split <;> rfl) hj
    · exact viaSet s j _ rfl hj
    · exact viaSet s j _ rfl hj
  | signal to =>
    cases to with
    | some j =>
      obtain ⟨_, hpc, rfl⟩ := step_signal_some h
      obtain ⟨wj, hwj, hp⟩ := pcOf_some.mp hpc
      exact viaSet s j _ rfl (fun x hx => by rw [hwj] at hx; cases hx; rw [hp]; rfl)
    | none =>
      obtain ⟨_, _, hcase⟩ := step_signal_none h
      rcases hcase with ⟨_, rfl⟩ | ⟨_, rfl⟩ <;> exact hw

theorem quiet_run_outside {ls : List Label} : ∀ {s s' : State} {i : Nat} {w : Waiter}, run Cfg.std s ls = some s' →
    (∀ l ∈ ls, progressOnly l = true) → s.ws[i]? = some w → outside w.pc = true → s'.ws[i]? = some w := by
  induction ls with
  | nil => intro s s' i w h _ hw _; simp only [run, Option.some.injEq] at h; subst h; exact hw
  | cons l ls ih =>
    intro s s' i w h hl hw ho
    simp only [run] at h
    split at h
    · rename_i s1 h1
      exact ih h (fun l' hl' => hl l' (by simp [hl'])) (quiet_step_outside h1 (hl l (by simp)) hw ho) ho
    · cases h

theorem run_ws_length {ls : List Label} : ∀ {s s' : State}, run Cfg.std s ls = some s' → s'.ws.length = s.ws.length := by
  induction ls with
  | nil => intro s s' h; simp only [run, Option.some.injEq] at h; subst h; rfl
  | cons l ls ih =>
    intro s s' h
    simp only [run] at h
    split at h
    · rename_i s1 h1; rw [ih h, step_ws_length h1]
    · cases h

/-- **In a run of Signals and waiter progress every newly woken waiter is one of those that had entered**:
the unattributed count of wake-ups is at most the attributed one. -/
theorem quiet_woken_of_them {s s' : State} {ls : List Label} (h : run Cfg.std s ls = some s')
    (hl : ∀ l ∈ ls, progressOnly l = true) : nWoken s' ≤ nWoken s + nWokenOfThem s s' := by
  unfold nWoken nWokenOfThem
  apply countP_zip_le isWoken isWoken _ s.ws s'.ws (run_ws_length h).symm
  intro x hx hq
  obtain ⟨i, hi⟩ := List.mem_iff_getElem?.mp hx
  rw [List.getElem?_zip_eq_some] at hi
  obtain ⟨h1, h2⟩ := hi
  obtain ⟨a, b⟩ := x
  simp only at h1 h2 hq ⊢
  by_cases ho : outside a.pc = true
  · have := quiet_run_outside h hl h1 ho
    rw [h2] at this
    have hab : b = a := Option.some.inj this
    subst hab
    -- an outside waiter is not woken
    exfalso
    revert ho hq
    unfold outside isWoken
    cases b.pc <;> simp
  · have hq' : isWoken b = true := hq
    revert ho
    unfold outside isEntered isUnparked isParked
    cases hp : a.pc <;> simp [hq']
    all_goals (unfold isWoken; rw [hp])

end Juniper.Proofs.Cond
