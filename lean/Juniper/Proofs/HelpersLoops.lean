import Juniper.Proofs.HelpersMaps
import Juniper.Model.HelpersMore
/-! The small loops of `xslices` (`All`, `CountFunc`, `Count`, `Fill`, `Clear`, `Group`, `Join`,
`LastIndex`, `LastIndexFunc`, `Map`, `Reduce`, `Repeat`) and the `xmaps.Set` helpers (C19). -/
namespace Juniper.Proofs.Helpers
open Juniper.Gen.Helpers Juniper.Model.Helpers Juniper.Spec.Helpers

variable {α β κ : Type}

theorem all_iff (f : α → Bool) (s : List α) : all f s = true ↔ ∀ x ∈ s, f x = true := by
  induction s with
  | nil => simp [all, allEndVal]
  | cons x xs ih =>
    simp only [all, allStops, allStopVal, List.mem_cons, forall_eq_or_imp]
    cases h : f x <;> simp [ih]

theorem countFuncLoop_eq (f : α → Bool) (s : List α) (n : Int) :
    countFuncLoop f s n = n + (s.countP f : Int) := by
  induction s generalizing n with
  | nil => simp [countFuncLoop]
  | cons x xs ih =>
    simp only [countFuncLoop, cfTakes, cfIncs, ih, List.countP_cons]
    cases h : f x <;> simp <;> omega

theorem countFunc_eq (f : α → Bool) (s : List α) : countFunc f s = (s.countP f : Int) := by
  simp [countFunc, cfRet, cfInit, countFuncLoop_eq]

theorem count_eq [DecidableEq α] (s : List α) (x : α) : count s x = (s.count x : Int) := by
  show countFunc (fun y => x == y) s = _
  rw [countFunc_eq, List.count]
  congr 2
  funext y
  rw [Bool.eq_iff_iff, beq_iff_eq, beq_iff_eq]
  exact eq_comm

theorem fill_eq (s : List α) (x : α) : fill s x = List.replicate s.length x := by
  simp [fill, fillBody, List.map_const']

theorem clear_eq (zero : α) (s : List α) : clear zero s = List.replicate s.length zero := by
  show fill s zero = _
  exact fill_eq s zero

theorem reduceLoop_eq (f : β → α → β) (s : List α) (b : β) : reduceLoop f s b = s.foldl f b := by
  induction s generalizing b with
  | nil => rfl
  | cons x xs ih => simp [reduceLoop, reduceBody, ih]

theorem reduce_eq (zero : β) (s : List α) (b : β) (f : β → α → β) : reduce zero s b f = s.foldl f b := by
  simp [reduce, reduceStartsAtInitial, reduceLoop_eq]

theorem map_eq (zero : β) (f : α → β) (s : List α) : map zero f s = some (s.map f) := by
  simp [map, mapMake, mapBody]

/-- `Repeat(x, n)`: `make([]T, n)` panics for a negative `n` and for more elements than can be allocated
(`Stdlib.allocLimit`); otherwise `n` copies of `x` -/
theorem repeatN_eq (zero x : α) (n : Int) :
    repeatN zero x n = if n < 0 then none else if n > Model.Stdlib.allocLimit then none else some (List.replicate n.toNat x) := by
  simp [repeatN, repeatMake, repeatBody]

/-! ## Group -/

theorem filter_eq_nil_of_any_false (p : α → Bool) (l : List α) (h : l.any p = false) : l.filter p = [] := by
  induction l with
  | nil => rfl
  | cons x xs ih =>
    simp only [List.any_cons, Bool.or_eq_false_iff] at h
    simp [h.1, ih h.2]

theorem groupLoop_get [DecidableEq κ] (f : α → κ) (s : List α) (m : List (κ × List α)) (u : κ) :
    mget (groupLoop f s m) u =
      if s.any (fun x => decide (f x = u)) then some ((mget m u).getD [] ++ s.filter (fun x => decide (f x = u)))
      else mget m u := by
  induction s generalizing m with
  | nil => simp [groupLoop]
  | cons x xs ih =>
    simp only [groupLoop, groupBody, ↓reduceIte]
    rw [ih, mget_mput]
    by_cases hx : f x = u
    · subst hx
      simp only [↓reduceIte, Option.getD_some, List.any_cons, decide_true, Bool.true_or, List.filter_cons,
        List.append_assoc, List.singleton_append]
      by_cases ha : xs.any (fun y => decide (f y = f x)) = true
      · simp [ha]
      · have ha' : xs.any (fun y => decide (f y = f x)) = false := by simpa using ha
        simp [ha', filter_eq_nil_of_any_false _ _ ha']
    · have hx' : ¬ u = f x := fun e => hx e.symm
      simp [hx, hx']

theorem group_get [DecidableEq κ] (f : α → κ) (s : List α) (u : κ) :
    mget (group f s) u =
      if s.any (fun x => decide (f x = u)) then some (s.filter (fun x => decide (f x = u))) else none := by
  simp [group, groupLoop_get, mget_nil]

/-! ## Join -/

theorem joinSum_eq (ins : List (List α)) (n : Int) : joinSum ins n = n + (ins.flatten.length : Int) := by
  induction ins generalizing n with
  | nil => simp [joinSum]
  | cons l ls ih =>
    simp only [joinSum, joinSumBody, ↓reduceIte, ih, List.flatten_cons, List.length_append]
    omega

theorem joinAppend_eq (ins : List (List α)) (out : List α) (c : Int)
    (h : (out.length : Int) + ins.flatten.length ≤ c) :
    joinAppend ins (out, some c) = (out ++ ins.flatten, some c) := by
  induction ins generalizing out with
  | nil => simp [joinAppend]
  | cons l ls ih =>
    simp only [List.flatten_cons, List.length_append] at h
    simp only [joinAppend, joinAppendBody, ↓reduceIte, appendTo]
    have h1 : ((out ++ l).length : Int) ≤ c := by simp only [List.length_append]; omega
    rw [if_pos h1, ih (out ++ l) (by simp only [List.length_append]; omega)]
    simp

theorem join_eq (zero : α) (ins : List (List α)) :
    join zero ins = some (ins.flatten, some (ins.flatten.length : Int)) := by
  simp only [join, joinSum_eq, joinN0, joinMakeLen, joinMakeCap]
  simp [joinAppend_eq]

/-! ## LastIndex / LastIndexFunc -/

theorem lastIdxLoop_spec (hit : α → Bool) (s : List α) (fuel : Nat) (i : Int)
    (hi : -1 ≤ i) (hlen : i < s.length) (hf : i + 2 ≤ fuel)
    (hafter : ∀ j : Nat, i < j → ∀ y, s[j]? = some y → hit y = false) :
    ∃ r : Int, lastIdxLoop (fun i => decide (i ≥ 0)) hit (fun i => i) (-1) 1 s fuel i = some r ∧
      -1 ≤ r ∧ r < s.length ∧
      (r = -1 → ∀ y ∈ s, hit y = false) ∧
      (0 ≤ r → (∃ y, s[r.toNat]? = some y ∧ hit y = true) ∧ ∀ j : Nat, r < j → ∀ y, s[j]? = some y → hit y = false) := by
  induction fuel generalizing i with
  | zero => omega
  | succ fuel ih =>
    unfold lastIdxLoop
    by_cases hc : i ≥ 0
    · simp only [hc, decide_true, ↓reduceIte]
      obtain ⟨n, rfl⟩ := Int.eq_ofNat_of_zero_le hc
      have hn : n < s.length := by omega
      rw [getI_of_lt s n hn]
      by_cases hh : hit s[n] = true
      · simp only [hh, ↓reduceIte, Option.some.injEq, exists_eq_left']
        refine ⟨by omega, by omega, by omega, fun _ => ⟨⟨s[n], by simp [hn], hh⟩, hafter⟩⟩
      · simp only [hh, Bool.false_eq_true, ↓reduceIte]
        apply ih ((n : Int) - ((1 : Nat) : Int)) (by omega) (by omega) (by omega)
        intro j hj y hy
        by_cases hjn : j = n
        · subst hjn
          rw [List.getElem?_eq_getElem hn] at hy
          cases hy; simpa using hh
        · exact hafter j (by omega) y hy
    · simp only [hc, decide_false, Bool.false_eq_true, ↓reduceIte, Option.some.injEq, exists_eq_left']
      have : i = -1 := by omega
      subst this
      refine ⟨by omega, by omega, fun _ y hy => ?_, by omega⟩
      obtain ⟨j, hj, rfl⟩ := List.getElem_of_mem hy
      exact hafter j (by omega) _ (by simp [hj])

/-- `len(s) - 1` (the start of both `LastIndex` loops) is exact for a length that fits in an `int` -/
theorem liStart_nat (n : Nat) (hn : n ≤ 9223372036854775807) :
    liStart (n : Int) = (n : Int) - 1 ∧ lifStart (n : Int) = (n : Int) - 1 := by
  unfold liStart lifStart
  exact ⟨wrap64_of_range (by omega) (by omega), wrap64_of_range (by omega) (by omega)⟩

theorem lastIndexFunc_spec (s : List α) (f : α → Bool) (hl64 : s.length ≤ 9223372036854775807) :
    ∃ r : Int, lastIndexFunc s f = some r ∧ -1 ≤ r ∧ r < s.length ∧
      (r = -1 → ∀ y ∈ s, f y = false) ∧
      (0 ≤ r → (∃ y, s[r.toNat]? = some y ∧ f y = true) ∧ ∀ j : Nat, r < j → ∀ y, s[j]? = some y → f y = false) := by
  have := lastIdxLoop_spec f s (s.length + 1) ((s.length : Int) - 1) (by omega) (by omega) (by omega)
    (fun j hj y hy => by
      have : j < s.length := (List.getElem?_eq_some_iff.mp hy).1
      omega)
  have e : lastIndexFunc s f = lastIdxLoop (fun i => decide (i ≥ 0)) f (fun i => i) (-1) 1 s (s.length + 1) ((s.length : Int) - 1) := by
    unfold lastIndexFunc
    rw [(liStart_nat s.length hl64).2]
    rfl
  rw [e]
  exact this

theorem lastIndex_spec [DecidableEq α] (s : List α) (x : α) (hl64 : s.length ≤ 9223372036854775807) :
    ∃ r : Int, lastIndex s x = some r ∧ -1 ≤ r ∧ r < s.length ∧
      (r = -1 → x ∉ s) ∧
      (0 ≤ r → s[r.toNat]? = some x ∧ ∀ j : Nat, r < j → s[j]? ≠ some x) := by
  obtain ⟨r, h1, h2, h3, h4, h5⟩ := lastIdxLoop_spec (fun y => decide (y = x)) s (s.length + 1) ((s.length : Int) - 1)
    (by omega) (by omega) (by omega)
    (fun j hj y hy => by
      have : j < s.length := (List.getElem?_eq_some_iff.mp hy).1
      omega)
  have e : lastIndex s x = lastIdxLoop (fun i => decide (i ≥ 0)) (fun y => decide (y = x)) (fun i => i) (-1) 1 s (s.length + 1) ((s.length : Int) - 1) := by
    unfold lastIndex
    rw [(liStart_nat s.length hl64).1]
    rfl
  rw [e]
  refine ⟨r, h1, h2, h3, ?_, ?_⟩
  · intro hr hx
    simpa using h4 hr x hx
  · intro hr
    obtain ⟨⟨y, hy, hyx⟩, hj⟩ := h5 hr
    have : y = x := by simpa using hyx
    subst this
    refine ⟨hy, fun j hjr hjx => ?_⟩
    simpa using hj j hjr y hjx

/-! ## xmaps.Set -/

theorem mem_setAdd [DecidableEq κ] (s : List κ) (x y : κ) : y ∈ setAdd s x ↔ y = x ∨ y ∈ s := by
  simp only [setAdd, setAddBody, ↓reduceIte]
  by_cases h : x ∈ s
  · simp only [h, ↓reduceIte]
    constructor
    · exact Or.inr
    · rintro (rfl | h') <;> assumption
  · simp [h, or_comm]

theorem nodup_setAdd [DecidableEq κ] (s : List κ) (x : κ) (h : s.Nodup) : (setAdd s x).Nodup := by
  simp only [setAdd, setAddBody, ↓reduceIte]
  by_cases hx : x ∈ s
  · simpa [hx] using h
  · simp only [hx, ↓reduceIte]
    rw [List.nodup_append]
    refine ⟨h, by simp, ?_⟩
    intro a ha b hb
    simp only [List.mem_singleton] at hb
    subst hb
    intro e; subst e; exact hx ha

theorem mem_setRemove [DecidableEq κ] (s : List κ) (x y : κ) : y ∈ setRemove s x ↔ y ∈ s ∧ y ≠ x := by
  simp [setRemove, setRemoveBody]

theorem setContains_iff [DecidableEq κ] (s : List κ) (x : κ) : setContains s x = true ↔ x ∈ s := by
  simp [setContains, setContainsBody]

theorem setFromSlice_aux [DecidableEq κ] (items r : List κ) (hr : r.Nodup) :
    (∀ y, y ∈ items.foldl (fun r k => if k ∈ r then r else r ++ [k]) r ↔ y ∈ r ∨ y ∈ items) ∧
    (items.foldl (fun r k => if k ∈ r then r else r ++ [k]) r).Nodup := by
  induction items generalizing r with
  | nil => simp [hr]
  | cons k ks ih =>
    simp only [List.foldl_cons]
    have h1 := mem_setAdd r k
    have h2 := nodup_setAdd r k hr
    simp only [setAdd, setAddBody, ↓reduceIte] at h1 h2
    obtain ⟨ha, hb⟩ := ih _ h2
    refine ⟨fun y => ?_, hb⟩
    rw [ha, h1, List.mem_cons]
    constructor
    · rintro ((h | h) | h)
      · exact Or.inr (Or.inl h)
      · exact Or.inl h
      · exact Or.inr (Or.inr h)
    · rintro (h | h | h)
      · exact Or.inl (Or.inr h)
      · exact Or.inl (Or.inl h)
      · exact Or.inr h

theorem setFromSlice_spec [DecidableEq κ] (items : List κ) :
    (∀ y, y ∈ setFromSlice items ↔ y ∈ items) ∧ (setFromSlice items).Nodup := by
  have := setFromSlice_aux items [] List.nodup_nil
  simpa [setFromSlice, sfsBody] using this

end Juniper.Proofs.Helpers
