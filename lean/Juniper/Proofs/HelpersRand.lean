import Juniper.Proofs.HelpersBasic
import Juniper.Model.HelpersMisc
namespace Juniper.Proofs.Helpers
open Juniper.Model.Helpers Juniper.Spec.Helpers Juniper.Gen.Helpers
variable {α : Type}

/-- the swaps are what `r.Shuffle(n, swap)` may ask for: indices in `[0, n)`, `n` the generated first
argument of the call (`shuffleN (len a)`) -/
theorem shuffle_perm (a : List α) (swaps : List (Int × Int))
    (h : ∀ p ∈ swaps, 0 ≤ p.1 ∧ p.1 < shuffleN a.length ∧ 0 ≤ p.2 ∧ p.2 < shuffleN a.length) :
    ∃ a', applySwaps swaps a = some a' ∧ a'.Perm a := by
  replace h : ∀ p ∈ swaps, 0 ≤ p.1 ∧ p.1 < a.length ∧ 0 ≤ p.2 ∧ p.2 < a.length := by
    intro p hp
    have := h p hp
    simp only [shuffleN] at this     -- `r.Shuffle(len(a), …)`
    omega
  induction swaps generalizing a with
  | nil => exact ⟨a, rfl, List.Perm.refl _⟩
  | cons p rest ih =>
    obtain ⟨i, j⟩ := p
    have hp := h (i, j) (by simp)
    simp only at hp
    obtain ⟨i', rfl⟩ := Int.eq_ofNat_of_zero_le hp.1
    obtain ⟨j', rfl⟩ := Int.eq_ofNat_of_zero_le hp.2.2.1
    have hi : i' < a.length := by omega
    have hj : j' < a.length := by omega
    obtain ⟨a', h1, h2⟩ := ih (swapNat a i' j' hi hj) (by
      intro p hp'
      rw [length_swapNat]
      exact h p (List.mem_cons_of_mem _ hp'))
    refine ⟨a', ?_, h2.trans (swapNat_perm a i' j' hi hj)⟩
    simp only [applySwaps, shuffleSwaps, if_true, swapI_nat a i' j' hi hj]
    exact h1

/-- recursive form of the sampler contract: `j` = index of the head decision, `lb` = lower bound
for its `next` -/
def SampRest (k n : Int) : Nat → Int → List (Int × Int) → Prop
  | _, _, [] => True
  | j, lb, d :: ds => lb ≤ d.1 ∧ ((j : Int) < k → d = ((j : Int), (j : Int))) ∧
      (k ≤ (j : Int) → k ≤ d.1 ∧ ((0 ≤ d.2 ∧ d.2 < k) ∨ n ≤ d.1)) ∧ SampRest k n (j + 1) (d.1 + 1) ds

theorem sampRest_of_index (k n : Int) : ∀ (l : List (Int × Int)) (j : Nat) (lb : Int),
    (∀ i (h : i < l.length), ((j + i : Nat) : Int) < k →
      l[i] = (((j + i : Nat) : Int), ((j + i : Nat) : Int))) →
    (∀ i (h : i < l.length), k ≤ ((j + i : Nat) : Int) →
      k ≤ l[i].1 ∧ ((0 ≤ l[i].2 ∧ l[i].2 < k) ∨ n ≤ l[i].1)) →
    (∀ i (h : i + 1 < l.length), (l[i]'(Nat.lt_of_succ_lt h)).1 < (l[i + 1]'h).1) →
    (∀ h : 0 < l.length, lb ≤ (l[0]'h).1) → SampRest k n j lb l
  | [], _, _, _, _, _, _ => trivial
  | d :: t, j, lb, h1, h2, h3, h4 => by
    refine ⟨h4 (by simp), ?_, ?_, sampRest_of_index k n t (j+1) (d.1+1) ?_ ?_ ?_ ?_⟩
    · intro hj; have := h1 0 (by simp) (by simpa using hj); simpa using this
    · intro hj; have := h2 0 (by simp) (by simpa using hj); simpa using this
    · intro i h hi
      have e : j + (i + 1) = j + 1 + i := by omega
      have := h1 (i+1) (by simpa using h) (by rw [e]; exact hi)
      rw [e] at this
      simpa using this
    · intro i h hi
      have e : j + (i + 1) = j + 1 + i := by omega
      have := h2 (i+1) (by simpa using h) (by rw [e]; exact hi)
      simpa using this
    · intro i h
      have := h3 (i+1) (by simpa using h)
      simpa using this
    · intro h
      have := h3 0 (by simpa using h)
      simp at this
      omega

theorem index_of_sampRest (k n : Int) : ∀ (l : List (Int × Int)) (j : Nat) (lb : Int), SampRest k n j lb l →
    (∀ i (h : i < l.length), ((j + i : Nat) : Int) < k →
      l[i] = (((j + i : Nat) : Int), ((j + i : Nat) : Int))) ∧
    (∀ i (h : i < l.length), k ≤ ((j + i : Nat) : Int) →
      k ≤ l[i].1 ∧ ((0 ≤ l[i].2 ∧ l[i].2 < k) ∨ n ≤ l[i].1)) ∧
    (∀ i (h : i + 1 < l.length), (l[i]'(Nat.lt_of_succ_lt h)).1 < (l[i + 1]'h).1) ∧
    (∀ h : 0 < l.length, lb ≤ (l[0]'h).1)
  | [], _, _, _ => by simp
  | d :: t, j, lb, ⟨r1, r2, r3, r4⟩ => by
    obtain ⟨h1, h2, h3, h4⟩ := index_of_sampRest k n t (j+1) (d.1+1) r4
    refine ⟨?_, ?_, ?_, fun _ => r1⟩
    · intro i h hi
      cases i with
      | zero => simpa using r2 (by simpa using hi)
      | succ i =>
        have e : j + (i + 1) = j + 1 + i := by omega
        rw [e] at hi ⊢
        simpa using h1 i (by simpa using h) hi
    · intro i h hi
      cases i with
      | zero => simpa using r3 (by simpa using hi)
      | succ i =>
        have e : j + (i + 1) = j + 1 + i := by omega
        rw [e] at hi
        simpa using h2 i (by simpa using h) hi
    · intro i h
      cases i with
      | zero =>
        have := h4 (by simpa using h)
        simp
        omega
      | succ i => simpa using h3 i (by simpa using h)

theorem sampRest_of_contract (k n : Int) (ds : List (Int × Int)) (hc : SamplerContract k n ds) (lb : Int)
    (hlb : ∀ h : 0 < ds.length, lb ≤ (ds[0]'h).1) : SampRest k n 0 lb ds := by
  obtain ⟨h1, h2, h3⟩ := hc
  apply sampRest_of_index k n ds 0 lb
  · intro i h hi; simpa using h1 i h (by simpa using hi)
  · intro i h hi; simpa using h2 i h (by simpa using hi)
  · exact h3
  · exact hlb

theorem contract_of_sampRest (k n : Int) (ds : List (Int × Int)) (lb : Int) (h : SampRest k n 0 lb ds) :
    SamplerContract k n ds := by
  obtain ⟨h1, h2, h3, _⟩ := index_of_sampRest k n ds 0 lb h
  refine ⟨?_, ?_, h3⟩
  · intro i h hi; simpa using h1 i h (by simpa using hi)
  · intro i h hi; simpa using h2 i h (by simpa using hi)


theorem rand_nodup_set_fresh : ∀ (l : List Int) (r : Nat) (v : Int), l.Nodup → v ∉ l → (l.set r v).Nodup
  | [], _, _, _, _ => by simp
  | x :: t, 0, v, h, hv => by
    simp only [List.set_cons_zero, List.nodup_cons, List.mem_cons, not_or] at *
    exact ⟨hv.2, h.2⟩
  | x :: t, r + 1, v, h, hv => by
    simp only [List.set_cons_succ, List.nodup_cons, List.mem_cons, not_or] at *
    refine ⟨fun hm => ?_, rand_nodup_set_fresh t r v h.2 hv.2⟩
    rcases List.mem_or_eq_of_mem_set hm with hm | hm
    · exact h.1 hm
    · exact hv.1 hm.symm

/-- invariant of the reservoir: `filled` = the slots already written after `j` decisions -/
structure ResvInv (k n : Int) (j : Nat) (lb : Int) (filled : List Int) : Prop where
  len : filled.length = min j k.toNat
  le : (filled.length : Int) ≤ n
  nd : filled.Nodup
  mem : ∀ p ∈ filled, 0 ≤ p ∧ p < n ∧ p < lb

/-- the reservoir: written slots followed by untouched slots -/
def randResv (k f : Int) (filled : List Int) : List Int :=
  filled ++ List.replicate (k.toNat - filled.length) f

theorem resvInv_mono {k n : Int} {j : Nat} {lb lb' : Int} {filled : List Int} (h : ResvInv k n j lb filled)
    (hl : lb ≤ lb') : ResvInv k n j lb' filled :=
  ⟨h.len, h.le, h.nd, fun p hp => by have := h.mem p hp; omega⟩

theorem resvInv_step (k n f : Int) (j : Nat) (lb : Int) (d : Int × Int) (filled : List Int)
    (inv : ResvInv k n j lb filled) (hlb : lb ≤ d.1)
    (h1 : (j : Int) < k → d = ((j : Int), (j : Int)))
    (h2 : k ≤ (j : Int) → k ≤ d.1 ∧ ((0 ≤ d.2 ∧ d.2 < k) ∨ n ≤ d.1))
    (hns : d.1 < n) :
    ∃ filled', setI (randResv k f filled) d.2 d.1 = some (randResv k f filled') ∧
      ResvInv k n (j + 1) (d.1 + 1) filled' := by
  obtain ⟨nx, rp⟩ := d
  simp only at *
  have hlen := inv.len
  have hle := inv.le
  by_cases hj : (j : Int) < k
  · have := h1 hj
    simp only [Prod.mk.injEq] at this
    obtain ⟨rfl, rfl⟩ := this
    have hl : filled.length = j := by omega
    refine ⟨filled ++ [(j : Int)], ?_, ?_⟩
    · rw [setI_nat _ j _ (by simp [randResv]; omega)]
      congr 1
      unfold randResv
      obtain ⟨m, hm⟩ : ∃ m, k.toNat - filled.length = m + 1 := ⟨k.toNat - filled.length - 1, by omega⟩
      have hm' : k.toNat - (filled ++ [(j : Int)]).length = m := by simp; omega
      rw [hm, hm', List.set_append, if_neg (by omega), hl, Nat.sub_self, List.replicate_succ,
        List.set_cons_zero, List.append_assoc]
      rfl
    · refine ⟨by simp; omega, by simp; omega, ?_, ?_⟩
      · rw [List.nodup_append]
        refine ⟨inv.nd, by simp, ?_⟩
        intro a ha b hb
        simp only [List.mem_singleton] at hb
        have := inv.mem a ha
        omega
      · intro p hp
        simp only [List.mem_append, List.mem_singleton] at hp
        rcases hp with hp | rfl
        · have := inv.mem p hp; omega
        · omega
  · have hkj : k ≤ (j : Int) := by omega
    obtain ⟨hkn, hr⟩ := h2 hkj
    have hr : 0 ≤ rp ∧ rp < k := by omega
    obtain ⟨r, rfl⟩ := Int.eq_ofNat_of_zero_le hr.1
    have hl : filled.length = k.toNat := by omega
    refine ⟨filled.set r nx, ?_, ?_⟩
    · rw [setI_nat _ r _ (by simp [randResv]; omega)]
      congr 1
      unfold randResv
      rw [List.set_append, if_pos (by omega), List.length_set]
    · refine ⟨by simp; omega, by simp; omega, ?_, ?_⟩
      · apply rand_nodup_set_fresh _ _ _ inv.nd
        intro hm
        have := inv.mem nx hm
        omega
      · intro p hp
        rcases List.mem_or_eq_of_mem_set hp with hp | rfl
        · have := inv.mem p hp; omega
        · omega

/-- at a stopping decision exactly `min k n` slots have been written -/
theorem resvInv_final (k n : Int) (hk : 0 ≤ k) (j : Nat) (lb : Int) (d : Int × Int) (filled : List Int)
    (inv : ResvInv k n j lb filled)
    (h1 : (j : Int) < k → d = ((j : Int), (j : Int)))
    (hs : n ≤ d.1) : (filled.length : Int) = min k n := by
  have hlen := inv.len
  have hle := inv.le
  by_cases hj : (j : Int) < k
  · have := h1 hj
    subst this
    simp only at hs
    omega
  · omega

/-- the final truncation of the reservoir -/
theorem randResv_trunc (k n f : Int) (hn : 0 ≤ n) (filled : List Int) (hl : (filled.length : Int) = min k n) :
    (if decide (n < k) then
      (if sliceOk 0 n (randResv k f filled).length then some ((randResv k f filled).take n.toNat) else none)
     else some (randResv k f filled)) = some filled := by
  by_cases hnk : n < k
  · have hs : sliceOk 0 n (randResv k f filled).length = true := by
      rw [sliceOk_iff]; simp [randResv]; omega
    simp only [hnk, decide_true, if_true, hs]
    congr 1
    unfold randResv
    rw [List.take_append_of_le_length (by omega), List.take_of_length_le (by omega)]
  · simp only [hnk, decide_false, Bool.false_eq_true, if_false]
    congr 1
    unfold randResv
    rw [show k.toNat - filled.length = 0 by omega]
    simp

theorem reservoirLoop_spec (k n f : Int) (hk : 0 ≤ k) : ∀ (ds : List (Int × Int)) (j : Nat) (lb : Int)
    (filled : List Int), SampRest k n j lb ds → (∃ d ∈ ds, n ≤ d.1) → ResvInv k n j lb filled →
    ∃ filled', reservoirLoop (fun next => decide (next ≥ n)) true ds (randResv k f filled) = some (randResv k f filled') ∧
      (filled'.length : Int) = min k n ∧ filled'.Nodup ∧ ∀ p ∈ filled', 0 ≤ p ∧ p < n
  | [], _, _, _, _, hstop, _ => by simp at hstop
  | d :: t, j, lb, filled, ⟨r1, r2, r3, r4⟩, hstop, inv => by
    by_cases hs : n ≤ d.1
    · refine ⟨filled, ?_, resvInv_final k n hk j lb d filled inv r2 hs, inv.nd, ?_⟩
      · obtain ⟨nx, rp⟩ := d
        simp only [reservoirLoop, ge_iff_le]
        simp only at hs
        simp [hs]
      · intro p hp; have := inv.mem p hp; omega
    · obtain ⟨filled', e, inv'⟩ := resvInv_step k n f j lb d filled inv r1 r2 r3 (by omega)
      have hstop' : ∃ d ∈ t, n ≤ d.1 := by
        obtain ⟨d', hd', hn'⟩ := hstop
        rcases List.mem_cons.mp hd' with rfl | hd'
        · exact absurd hn' hs
        · exact ⟨d', hd', hn'⟩
      obtain ⟨out, e2, rest⟩ := reservoirLoop_spec k n f hk t (j+1) (d.1+1) filled' r4 hstop' inv'
      refine ⟨out, ?_, rest⟩
      obtain ⟨nx, rp⟩ := d
      simp only [reservoirLoop, ge_iff_le]
      simp only at hs e
      simp only [hs, decide_false, Bool.false_eq_true, if_false, if_true, e]
      exact e2

theorem resvInv_init (k n : Int) (hn : 0 ≤ n) (lb : Int) : ResvInv k n 0 lb [] :=
  ⟨by simp, by simpa using hn, by simp, by simp⟩

theorem sample_count_distinct_positions (n k : Int) (hk : 0 ≤ k) (hn : 0 ≤ n) (ds : List (Int × Int))
    (hc : SamplerContract k n ds) (hstop : ∃ d ∈ ds, n ≤ d.1) :
    ∃ out, rSample n k ds = some out ∧ (out.length : Int) = min k n ∧ out.Nodup ∧ ∀ p ∈ out, 0 ≤ p ∧ p < n := by
  have hr : SampRest k n 0 (match ds with | [] => 0 | d :: _ => d.1) ds := by
    apply sampRest_of_contract k n ds hc
    intro h
    cases ds with
    | nil => simp at h
    | cons d t => simp
  obtain ⟨out, e, h1, h2, h3⟩ := reservoirLoop_spec k n 0 hk ds 0 _ [] hr hstop (resvInv_init k n hn _)
  refine ⟨out, ?_, h1, h2, h3⟩
  unfold rSample
  rw [if_neg (show ¬ rsMake n k < 0 by simp only [rsMake]; omega)]
  simp only [rsMake, rsStop, rsStores, rsTrunc, rsTruncHi]
  have e0 : List.replicate k.toNat (0 : Int) = randResv k 0 [] := by simp [randResv]
  rw [e0, e]
  exact randResv_trunc k n 0 hn out h1

theorem sampleSlice_count_distinct_positions (n k : Int) (hk : 0 ≤ k) (hn : 0 ≤ n) (ds : List (Int × Int))
    (hc : SamplerContract k n ds) (hstop : ∃ d ∈ ds, n ≤ d.1) :
    ∃ out, rSampleSlicePos n k ds = some out ∧ (out.length : Int) = min k n ∧ out.Nodup ∧ ∀ p ∈ out, 0 ≤ p ∧ p < n := by
  have hr : SampRest k n 0 (match ds with | [] => 0 | d :: _ => d.1) ds := by
    apply sampRest_of_contract k n ds hc
    intro h
    cases ds with
    | nil => simp at h
    | cons d t => simp
  obtain ⟨out, e, h1, h2, h3⟩ := reservoirLoop_spec k n (-1) hk ds 0 _ [] hr hstop (resvInv_init k n hn _)
  refine ⟨out, ?_, h1, h2, h3⟩
  unfold rSampleSlicePos
  simp only [rssStop, rssStores, rssTrunc, rssTruncHi]
  rw [if_neg (by omega)]
  have e0 : List.replicate k.toNat (-1 : Int) = randResv k (-1) [] := by simp [randResv]
  rw [e0, e]
  exact randResv_trunc k n (-1) hn out h1

theorem pullLoop_spec (k n f : Int) (hk : 0 ≤ k) (take : Int → Int → Bool)
    (ht : ∀ i nx, take i nx = decide (i = nx)) :
    ∀ (fuel : Nat) (ds : List (Int × Int)) (i : Int) (j : Nat) (filled : List Int),
    SampRest k n j i ds → (∃ d ∈ ds, n ≤ d.1) → ResvInv k n j i filled → i ≤ n →
    (n - i).toNat + ds.length < fuel →
    ∃ filled', pullLoop take true 2 n fuel ds i (randResv k f filled) = some (randResv k f filled', n) ∧
      (filled'.length : Int) = min k n ∧ filled'.Nodup ∧ ∀ p ∈ filled', 0 ≤ p ∧ p < n
  | 0, _, _, _, _, _, _, _, _, hf => by omega
  | _ + 1, [], _, _, _, _, hstop, _, _, _ => by simp at hstop
  | fuel + 1, d :: t, i, j, filled, ⟨r1, r2, r3, r4⟩, hstop, inv, hin, hf => by
    by_cases hi : i ≥ n
    · have hi' : i = n := by omega
      subst hi'
      refine ⟨filled, ?_, resvInv_final k i hk j i d filled inv r2 r1, inv.nd, ?_⟩
      · obtain ⟨nx, rp⟩ := d
        simp [pullLoop]
      · intro p hp; have := inv.mem p hp; omega
    · by_cases he : i = d.1
      · have hns : d.1 < n := by omega
        obtain ⟨filled', e, inv'⟩ := resvInv_step k n f j i d filled inv r1 r2 r3 hns
        have hstop' : ∃ d ∈ t, n ≤ d.1 := by
          obtain ⟨d', hd', hn'⟩ := hstop
          rcases List.mem_cons.mp hd' with rfl | hd'
          · omega
          · exact ⟨d', hd', hn'⟩
        obtain ⟨out, e2, rest⟩ := pullLoop_spec k n f hk take ht fuel t (d.1 + 1) (j + 1) filled' r4 hstop'
          inv' (by omega) (by simp only [List.length_cons] at hf; omega)
        refine ⟨out, ?_, rest⟩
        obtain ⟨nx, rp⟩ := d
        simp only at he e e2
        subst he
        simp only [pullLoop, ht, hi, decide_true, ne_eq, not_true_eq_false, if_true, if_false, e]
        exact e2
      · have hlt : i + 1 ≤ d.1 := by omega
        obtain ⟨out, e2, rest⟩ := pullLoop_spec k n f hk take ht fuel (d :: t) (i + 1) j filled
          ⟨hlt, r2, r3, r4⟩ hstop (resvInv_mono inv (by omega)) (by omega) (by omega)
        refine ⟨out, ?_, rest⟩
        obtain ⟨nx, rp⟩ := d
        simp only at he
        simp only [pullLoop, ht, hi, he, decide_false, ne_eq, not_true_eq_false, Bool.false_eq_true, if_false]
        exact e2

theorem sampleIter_count_distinct_positions (stream : Bool) (n k : Int) (hk : 0 ≤ k) (hn : 0 ≤ n) (ds : List (Int × Int))
    (hc : SamplerContract k n ds) (hstop : ∃ d ∈ ds, n ≤ d.1) :
    ∃ out, rSampleIterPos stream n k ds = some out ∧ (out.length : Int) = min k n ∧ out.Nodup ∧ ∀ p ∈ out, 0 ≤ p ∧ p < n := by
  have hr : SampRest k n 0 0 ds := by
    apply sampRest_of_contract k n ds hc
    intro h
    by_cases h0 : (0 : Int) < k
    · have := hc.1 0 h (by simpa using h0)
      rw [this]; simp
    · have := (hc.2.1 0 h (by simp; omega)).1
      omega
  obtain ⟨out, e, h1, h2, h3⟩ := pullLoop_spec k n (-1) hk
    (fun i next => if stream then rstTake i next else rsiTake i next)
    (by intro i nx; cases stream <;> simp [rstTake, rsiTake])
    (n.toNat + ds.length + 1) ds 0 0 [] hr hstop (resvInv_init k n hn _) hn (by omega)
  refine ⟨out, ?_, h1, h2, h3⟩
  unfold rSampleIterPos
  rw [if_neg (by omega)]
  have e0 : List.replicate k.toNat (-1 : Int) = randResv k (-1) [] := by simp [randResv]
  -- the stores `out[replace] = item` and the two `i++` of `rSampleIterator` / `rSampleStream`
  have hst : (if stream then rstStores else rsiStores) = true := by cases stream <;> simp [rstStores, rsiStores]
  have hin : (if stream then rstIncs else rsiIncs) = 2 := by cases stream <;> simp [rstIncs, rsiIncs]
  simp only [hst, hin, e0, e]
  have := randResv_trunc k n (-1) hn out h1
  cases stream <;> simpa [rstTrunc, rstTruncHi, rsiTrunc, rsiTruncHi] using this

theorem samp_next_fill (i k : Int) (first : Bool) (skip : Option Int) (rnd maxInt : Int) (h : i < k) :
    Samp.next ⟨i, first, k⟩ skip rnd maxInt = ((i, i), ⟨i + 1, first, k⟩) := by
  simp [Samp.next, sampFill, sampFillJ, sampFillNext, sampFillReplace, sampFillIncs, h]

/-- `int(skip) + 1` is exact for a skip below `MaxInt64` -/
theorem sampAdvance_exact (sk : Int) (h0 : 0 ≤ sk) (h1 : sk < 9223372036854775807) : sampAdvance sk = sk + 1 := by
  unfold sampAdvance; exact wrap64_of_range (by omega) (by omega)

theorem samp_next_first (k sk rnd maxInt : Int) (h0 : 0 ≤ sk) (h1 : sk < 9223372036854775807) :
    Samp.next ⟨k, true, k⟩ (some sk) rnd maxInt = ((k - 1 + (sk + 1), rnd), ⟨k - 1 + (sk + 1), false, k⟩) := by
  simp [Samp.next, sampAdvance_exact sk h0 h1, sampFill, sampFirst, sampFirstDecs, sampFirstClears, sampBad, sampAdvanceAdds,
    sampNext, sampReplace]

theorem samp_next_later (i k sk rnd maxInt : Int) (h : k ≤ i) (h0 : 0 ≤ sk) (h1 : sk < 9223372036854775807) :
    Samp.next ⟨i, false, k⟩ (some sk) rnd maxInt = ((i + (sk + 1), rnd), ⟨i + (sk + 1), false, k⟩) := by
  have h' : ¬ i < k := by omega
  simp [Samp.next, sampAdvance_exact sk h0 h1, sampFill, sampFirst, sampBad, sampAdvanceAdds,
    sampNext, sampReplace, h']

theorem samplerRun_sampRest (k n maxInt : Int) : ∀ (m : Nat) (s : Samp) (script : List (Option Int × Int))
    (idx : Nat) (lb : Int), s.k = k →
    (∀ e ∈ script, ∃ sk, e.1 = some sk ∧ 0 ≤ sk ∧ sk < 9223372036854775807 ∧ 0 ≤ e.2 ∧ e.2 < k) →
    ((s.first = true ∧ s.i = idx ∧ (idx : Int) ≤ k ∧ lb ≤ idx) ∨
      (s.first = false ∧ k ≤ s.i ∧ k ≤ (idx : Int) ∧ lb ≤ s.i + 1)) →
    SampRest k n idx lb (samplerRun maxInt m s script)
  | 0, _, _, _, _, _, _, _ => trivial
  | m + 1, ⟨i, first, k'⟩, script, idx, lb, hk', hs, hst => by
    simp only at hk' hst
    subst hk'
    by_cases hf : i < k'
    · -- fill phase
      have hA : first = true ∧ i = idx ∧ (idx : Int) ≤ k' ∧ lb ≤ idx := by
        rcases hst with h | h
        · exact h
        · omega
      obtain ⟨rfl, rfl, _, hlb⟩ := hA
      have hfill : Samp.filling ⟨(idx : Int), true, k'⟩ = true := by simp [Samp.filling, sampFill, hf]
      simp only [samplerRun, hfill, if_true, samp_next_fill _ _ _ _ _ _ hf]
      refine ⟨hlb, fun _ => rfl, fun h => by omega, ?_⟩
      exact samplerRun_sampRest k' n maxInt m _ script (idx + 1) _ rfl hs
        (Or.inl ⟨rfl, by simp, by omega, by omega⟩)
    · have hfill : Samp.filling ⟨i, first, k'⟩ = false := by simp [Samp.filling, sampFill, hf]
      cases script with
      | nil => simp only [samplerRun, hfill]; trivial
      | cons e rest =>
        obtain ⟨skip, rnd⟩ := e
        obtain ⟨sk, hsk, hsk0, hsk1, hr0, hrk⟩ := hs (skip, rnd) (by simp)
        simp only at hsk hr0 hrk
        subst hsk
        have hs' : ∀ e ∈ rest, ∃ sk, e.1 = some sk ∧ 0 ≤ sk ∧ sk < 9223372036854775807 ∧ 0 ≤ e.2 ∧ e.2 < k' :=
          fun e he => hs e (List.mem_cons_of_mem _ he)
        rcases hst with ⟨rfl, hi, hik, hlb⟩ | ⟨rfl, hi, hik, hlb⟩
        · have : i = k' := by omega
          subst this
          simp only [samplerRun, hfill, samp_next_first _ _ _ _ hsk0 hsk1]
          refine ⟨by omega, fun h => by omega, fun _ => ⟨by omega, Or.inl ⟨hr0, hrk⟩⟩, ?_⟩
          exact samplerRun_sampRest i n maxInt m _ rest (idx + 1) _ rfl hs'
            (Or.inr ⟨rfl, by simp only; omega, by omega, by simp only; omega⟩)
        · simp only [samplerRun, hfill, samp_next_later _ _ _ _ _ hi hsk0 hsk1]
          refine ⟨by omega, fun h => by omega, fun _ => ⟨by omega, Or.inl ⟨hr0, hrk⟩⟩, ?_⟩
          exact samplerRun_sampRest k' n maxInt m _ rest (idx + 1) _ rfl hs'
            (Or.inr ⟨rfl, by simp only; omega, by omega, by simp only; omega⟩)

theorem sampler_decisions_contract (k n maxInt : Int) (hk : 0 ≤ k) (m : Nat) (script : List (Option Int × Int))
    (hs : ∀ e ∈ script, ∃ sk, e.1 = some sk ∧ 0 ≤ sk ∧ sk < 9223372036854775807 ∧ 0 ≤ e.2 ∧ e.2 < k) :
    SamplerContract k n (samplerRun maxInt m (newSamp k) script) :=
  contract_of_sampRest k n _ 0 (samplerRun_sampRest k n maxInt m (newSamp k) script 0 0 rfl hs
    (Or.inl ⟨rfl, rfl, by simpa using hk, by simp⟩))
end Juniper.Proofs.Helpers
