import Juniper.Proofs.PipeResult
/-!
Stickiness of the end **with `TrySend` calls started after the report** (fix8b, seeded/C10-m10).

`settled_step` / `settled_run` (PipeNoLoss) keep the pipe settled as long as neither a `Send` nor a
`TrySend` is started. For `Send` that restriction is needed (its data arm and its `senderDone` arm are both
ready after the sender's `Close`). For `TrySend` it is not: once the sender is closed, a `TrySend` at its
first `select` finds the `senderDone` arm ready, so `default` cannot be taken, every arm that can fire
returns, and the second `select` — the only place where `TrySend` touches the data channel — is never
reached. That is a statement about the regenerated first arm table and its arm bodies (`TryGateFacts`).
-/
namespace Juniper.Proofs.Pipe
open Juniper.Facts Juniper.Gen.Pipe Juniper.Model.Pipe

/-- What the argument needs of the regenerated first `select` of `TrySend`: it has a `senderDone` arm,
it has no arm that sends, and every receive arm has a body that returns (does not fall through to the
second `select`). -/
def TryGateFacts : Prop :=
  trySendArms1.contains (.recv chSenderDone) = true ∧
  trySendArms1.all (fun a => match a with
    | .recv _ => !(trySendBodies1.lookup a == some [])
    | .send _ => false
    | .dflt => true) = true

instance : Decidable TryGateFacts := by unfold TryGateFacts; infer_instance

/-- Every call of a sender that is in flight is a `TrySend` at its first `select`. -/
def OnlyTry1 (st : State) : Prop := ∀ sd ∈ st.senders, sd.pc = .idle ∨ ∃ m, sd.pc = .try1 m

/-- The sender is closed, the channel is empty, and nothing but `TrySend`s at their first `select` is in
flight. -/
def SettledT (st : State) : Prop := st.senderDone = true ∧ st.buf = [] ∧ OnlyTry1 st

/-- The label starts a `Send` (a `TrySend` does not count). -/
def startsRealSend : Label → Bool
  | .startSend .. => true
  | _ => false

theorem settledT_of_settled {st : State} (h : Settled st) : SettledT st :=
  ⟨h.1, h.2.1, fun sd hsd => Or.inl (h.2.2 sd hsd)⟩

theorem onlyTry1_set {st : State} {i : Nat} {sd : Sender} (h : OnlyTry1 st)
    (hsd : sd.pc = .idle ∨ ∃ m, sd.pc = .try1 m) : OnlyTry1 (st.setSender i sd) := by
  intro x hx
  simp only [State.setSender] at hx
  rcases List.mem_or_eq_of_mem_set hx with hx | rfl
  · exact h x hx
  · exact hsd

theorem onlyTry1_pc {st : State} {i : Nat} {sd : Sender} {m : Msg} (h : OnlyTry1 st)
    (hsd : st.senders[i]? = some sd) (hm : sd.pc.msg? = some m) : sd.pc = .try1 m := by
  rcases h sd (List.mem_of_getElem? hsd) with hpc | ⟨m', hpc⟩
  · rw [hpc] at hm; simp [SPc.msg?] at hm
  · rw [hpc] at hm; simp only [SPc.msg?, Option.some.injEq] at hm; rw [hpc, hm]

/-- At the first `select` of `TrySend`: no arm sends, and a receive arm returns. -/
theorem try1_arm {a : Arm} {m : Msg} (hF : TryGateFacts) (ha : (tableOf (.try1 m)).contains a = true) :
    (∀ ch, a ≠ .send ch) ∧ (∀ ch, a = .recv ch → (SPc.try1 m).after a = .idle) := by
  have hall := hF.2
  rw [List.all_eq_true] at hall
  have hmem : a ∈ trySendArms1 := by simpa [tableOf] using ha
  have := hall a hmem
  constructor
  · intro ch hch; subst hch; simp at this
  · intro ch hch; subst hch
    simp only [Bool.not_eq_true', beq_eq_false_iff_ne, ne_eq] at this
    simp [SPc.after, bodiesOf, this]

/-- With the sender closed, the `default` of the first `select` of `TrySend` is not enabled. -/
theorem try1_no_default {st : State} {sd : Sender} {m : Msg} (hF : TryGateFacts) (hsd : st.senderDone = true)
    (hpc : sd.pc = .try1 m) : sDefaultReady st sd = false := by
  have hc : (.recv chSenderDone : Arm) ∈ trySendArms1 := by simpa using hF.1
  have hr : sReady st sd (.recv chSenderDone) = true := by simp [sReady, hsd]
  cases hd : sDefaultReady st sd with
  | false => rfl
  | true =>
    exfalso
    simp only [sDefaultReady, Bool.and_eq_true, List.all_eq_true] at hd
    have := hd.1 (.recv chSenderDone) (by rw [hpc]; simpa [tableOf] using hc)
    simp [hr] at this

/-- `TrySend` at its first `select` offers nothing on the data channel. -/
theorem try1_no_offer {sd : Sender} {m : Msg} (hF : TryGateFacts) (hpc : sd.pc = .try1 m) : offers sd = false := by
  cases ho : offers sd with
  | false => rfl
  | true =>
    exfalso
    rw [offers, hpc] at ho
    exact (try1_arm (m := m) hF ho).1 chData rfl

/-- In such a state no step hands a value to the receiver. -/
theorem settledT_no_delivery {st : State} {l : Label} (hF : TryGateFacts) (h : SettledT st)
    (hl : deliversValue l = true) : step st l = none := by
  obtain ⟨_, hbuf, hq⟩ := h
  cases hst : step st l with
  | none => rfl
  | some st' =>
    exfalso
    cases l with
    | handoff i =>
      obtain ⟨sd, m, hsd, hm, hc, _⟩ := step_handoff hst
      have hpc := onlyTry1_pc hq hsd hm
      simp [canHandoff, try1_no_offer hF hpc] at hc
    | recv a =>
      obtain ⟨_, hcase⟩ := step_recv hst
      rcases hcase with ⟨m, rest, _, hb, _⟩ | ⟨rfl, _⟩ | ⟨rfl, _⟩ | ⟨ch, rfl, hne, _⟩ | ⟨rfl, _⟩
      · rw [hbuf] at hb; simp at hb
      · simp [deliversValue, chData, chSenderDone] at hl
      · simp [deliversValue, chData, chSenderDone] at hl
      · simp [deliversValue] at hl; exact hne hl
      · simp [deliversValue] at hl
    | _ => simp [deliversValue] at hl

/-- The state stays that way as long as no new **`Send`** is started — `TrySend`s may be started, may
have their contexts expire and may run to completion — and it keeps reporting the same thing. -/
theorem settledT_step {st st' : State} {l : Label} (hF : TryGateFacts) (h : SettledT st)
    (hl : startsRealSend l = false) (hs : step st l = some st') :
    SettledT st' ∧ st'.senderErr = st.senderErr := by
  obtain ⟨hsd, hbuf, hq⟩ := h
  cases l with
  | startSend i v c => simp [startsRealSend] at hl
  | startTry i v c =>
    simp only [step] at hs
    obtain ⟨sd, _, _, rfl⟩ := step_startCall hs
    exact ⟨⟨hsd, hbuf, onlyTry1_set hq (Or.inr ⟨_, rfl⟩)⟩, rfl⟩
  | startNext c =>
    simp only [step] at hs; split at hs
    · simp at hs; subst hs; exact ⟨⟨hsd, hbuf, hq⟩, rfl⟩
    · simp at hs
  | cancelSender i =>
    obtain ⟨sd, hsdi, rfl⟩ := step_cancelSender hs
    exact ⟨⟨hsd, hbuf, onlyTry1_set hq (hq sd (List.mem_of_getElem? hsdi))⟩, rfl⟩
  | cancelNext =>
    simp only [step] at hs; split at hs
    · simp at hs
    · simp at hs; subst hs; exact ⟨⟨hsd, hbuf, hq⟩, rfl⟩
  | closeSender e =>
    simp only [step] at hs; split at hs
    · simp at hs
    · rename_i hn; exact absurd hsd hn
  | closeRecv =>
    simp only [step] at hs; split at hs
    · simp at hs; subst hs; exact ⟨⟨hsd, hbuf, hq⟩, rfl⟩
    · simp at hs
  | sender i a =>
    obtain ⟨sd, m, hsdi, hm, htab, hcase⟩ := step_sender hs
    have hpc := onlyTry1_pc hq hsdi hm
    rw [hpc] at htab
    obtain ⟨hns, hret⟩ := try1_arm hF htab
    rcases hcase with ⟨rfl, ⟨ch, rfl, _⟩ | ⟨rfl, hd⟩⟩ | ⟨ch, rfl, _⟩
    · refine ⟨⟨hsd, hbuf, onlyTry1_set hq (Or.inl ?_)⟩, rfl⟩
      show sd.pc.after (.recv ch) = .idle
      rw [hpc]; exact hret ch rfl
    · rw [try1_no_default hF hsd hpc] at hd; simp at hd
    · exact absurd rfl (hns ch)
  | handoff i =>
    exfalso
    obtain ⟨sd, m, hsdi, hm, hc, _⟩ := step_handoff hs
    have hpc := onlyTry1_pc hq hsdi hm
    simp [canHandoff, try1_no_offer hF hpc] at hc
  | park i =>
    exfalso
    obtain ⟨sd, m, hsdi, hpc, _⟩ := step_park hs
    have := onlyTry1_pc hq hsdi (m := m) (by rw [hpc]; rfl)
    rw [hpc] at this; simp at this
  | parkRecv =>
    obtain ⟨_, _, rfl⟩ := step_parkRecv hs
    exact ⟨⟨hsd, hbuf, hq⟩, rfl⟩
  | recv a =>
    obtain ⟨_, hcase⟩ := step_recv hs
    rcases hcase with ⟨m, rest, _, hb, _⟩ | ⟨_, _, _, _, rfl⟩ | ⟨_, _, _, rfl⟩ | ⟨ch, _, _, _, rfl⟩ | ⟨_, _, _, rfl⟩
    · rw [hbuf] at hb; simp at hb
    · exact ⟨⟨hsd, hbuf, hq⟩, rfl⟩
    · exact ⟨⟨hsd, hbuf, hq⟩, rfl⟩
    · exact ⟨⟨hsd, hbuf, hq⟩, rfl⟩
    · exact ⟨⟨hsd, hbuf, hq⟩, rfl⟩

theorem settledT_run {st st' : State} {ls : List Label} (hF : TryGateFacts) (h : SettledT st)
    (hl : ∀ l ∈ ls, startsRealSend l = false) (hr : run st ls = some st') :
    SettledT st' ∧ st'.senderErr = st.senderErr := by
  induction ls generalizing st with
  | nil => simp [run] at hr; subst hr; exact ⟨h, rfl⟩
  | cons l ls ih =>
    simp only [run] at hr
    split at hr
    · simp at hr
    · rename_i s1 hs1
      obtain ⟨h1, he1⟩ := settledT_step hF h (hl l (by simp)) hs1
      obtain ⟨h2, he2⟩ := ih h1 (fun x hx => hl x (by simp [hx])) hr
      exact ⟨h2, he2.trans he1⟩

/-- In such a state whatever `Next` returns is its context's error or the report. -/
theorem settledT_results {st st' : State} {l : Label} (hF : TryGateFacts) (hB : Bodies) (h : SettledT st)
    (hs : step st l = some st') :
    ∀ r, (Who.recv, r) ∈ completions st l → r = .ctx ∨ r = endRes st := by
  intro r hr
  rcases step_delivery_results hB hs with ⟨m, _, hdel, _⟩ | ⟨_, hres⟩
  · rw [settledT_no_delivery hF h hdel] at hs; cases hs
  · rcases hres r hr with h1 | ⟨h1, _⟩
    · exact Or.inl h1
    · exact Or.inr h1

theorem settledT_run_results {ls : List Label} (hF : TryGateFacts) (hB : Bodies) : ∀ {st st' : State}, SettledT st →
    (∀ l ∈ ls, startsRealSend l = false) → run st ls = some st' →
    ∀ r, (Who.recv, r) ∈ runCompletions st ls → r = .ctx ∨ r = endRes st := by
  induction ls with
  | nil => intro st st' _ _ _ r hr; simp [runCompletions] at hr
  | cons l ls ih =>
    intro st st' h hl hrun r hr
    simp only [run] at hrun
    split at hrun
    · simp at hrun
    · next s1 hs1 =>
      simp only [runCompletions, hs1, List.mem_append] at hr
      rcases hr with hr | hr
      · exact settledT_results hF hB h hs1 r hr
      · obtain ⟨h1, he1⟩ := settledT_step hF h (hl l (by simp)) hs1
        have := ih h1 (fun x hx => hl x (by simp [hx])) hrun r hr
        simpa [endRes, he1] using this

end Juniper.Proofs.Pipe
