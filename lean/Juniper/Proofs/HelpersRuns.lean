import Juniper.Proofs.HelpersBasic
/-! `xslices.Runs` (C19, group C): the runs concatenate to the input, are non-empty, each run is
adjacent-`same`, and neighbouring runs are separated by a non-`same` boundary (maximality). -/
namespace Juniper.Proofs.Helpers
open Juniper.Model.Helpers Juniper.Spec.Helpers Juniper.Gen.Helpers
variable {α : Type}

/-- the relation between neighbouring runs in `runs_spec` -/
def RunsBoundary (same : α → α → Bool) (s : List α) (r1 r2 : Int × Int) : Prop :=
  r1.2 = r2.1 ∧ ∀ a b, getI s (r1.2 - 1) = some a → getI s r2.1 = some b → same a b = false

/-- positions `lo .. hi-1` of `s` are pairwise adjacent-`same` -/
def RunsAdj (same : α → α → Bool) (s : List α) (lo hi : Nat) : Prop :=
  ∀ p, lo ≤ p → p + 1 < hi → ∀ a b, s[p]? = some a → s[p + 1]? = some b → same a b = true

/-- `s[b-1]` and `s[b]` are not `same` (when there is a previous run) -/
def RunsCut (same : α → α → Bool) (s : List α) (rs : List (Int × Int)) (b : Nat) : Prop :=
  rs ≠ [] → ∀ x y, s[b - 1]? = some x → s[b]? = some y → same x y = false

/-- `rs` is a correct list of maximal runs covering `s[0:b]` -/
structure RunsGood (same : α → α → Bool) (s : List α) (rs : List (Int × Int)) (b : Nat) : Prop where
  flat : (rs.map (fun r => slice s r.1 r.2)).flatten = s.take b
  rng : ∀ r ∈ rs, 0 ≤ r.1 ∧ r.1 < r.2 ∧ r.2 ≤ (b : Int)
  adj : ∀ r ∈ rs, AdjAll (fun a b => same a b = true) (slice s r.1 r.2)
  bnd : AdjAll (RunsBoundary same s) rs
  last : ∀ r, rs.getLast? = some r → r.2 = (b : Int)
  nil : rs = [] → b = 0

theorem adjAll_concat {β : Type} (R : β → β → Prop) (l : List β) (x : β) (h : AdjAll R l)
    (hl : ∀ y, l.getLast? = some y → R y x) : AdjAll R (l ++ [x]) := by
  intro i hi
  simp only [List.length_append, List.length_cons, List.length_nil] at hi
  by_cases h1 : i + 1 < l.length
  · rw [List.getElem_append_left (by omega), List.getElem_append_left h1]
    exact h i h1
  · have h2 : i + 1 = l.length := by omega
    rw [List.getElem_append_left (by omega), List.getElem_append_right (by omega)]
    have h3 : l.getLast? = some (l[i]'(by omega)) := by
      rw [List.getLast?_eq_getElem?]
      have : l.length - 1 = i := by omega
      rw [this]
      exact List.getElem?_eq_getElem (by omega)
    simpa [h2] using hl _ h3

theorem runsGood_nil (same : α → α → Bool) (s : List α) : RunsGood same s [] 0 where
  flat := by simp
  rng := by simp
  adj := by simp
  bnd := by intro i hi; simp at hi
  last := by simp
  nil := by simp

/-- closing the current run `[start, e)` -/
theorem runsGood_snoc (same : α → α → Bool) (s : List α) (rs : List (Int × Int)) (start e : Nat)
    (hg : RunsGood same s rs start) (hse : start < e) (hen : e ≤ s.length)
    (ha : RunsAdj same s start e) (hc : RunsCut same s rs start) :
    RunsGood same s (rs ++ [((start : Int), (e : Int))]) e where
  flat := by
    rw [List.map_append, List.flatten_append, hg.flat]
    simp only [List.map_cons, List.map_nil, List.flatten_cons, List.flatten_nil, List.append_nil]
    rw [slice_nat]
    have : e = start + (e - start) := by omega
    conv => rhs; rw [this, List.take_add]
  rng := by
    intro r hr
    rw [List.mem_append] at hr
    rcases hr with hr | hr
    · have := hg.rng r hr
      omega
    · simp only [List.mem_singleton] at hr
      subst hr
      simp only
      omega
  adj := by
    intro r hr
    rw [List.mem_append] at hr
    rcases hr with hr | hr
    · exact hg.adj r hr
    · simp only [List.mem_singleton] at hr
      subst hr
      simp only
      rw [slice_nat]
      intro j hj
      simp only [List.length_take, List.length_drop] at hj
      simp only [List.getElem_take, List.getElem_drop]
      refine ha (start + j) (by omega) (by omega) _ _ ?_ ?_
      · exact List.getElem?_eq_getElem (by omega)
      · exact List.getElem?_eq_getElem (by omega)
  bnd := by
    apply adjAll_concat _ _ _ hg.bnd
    intro y hy
    have hy2 := hg.last y hy
    have hne : rs ≠ [] := by intro h0; subst h0; simp at hy
    have hym : y ∈ rs := List.mem_of_getLast? hy
    have hr := hg.rng y hym
    refine ⟨hy2, ?_⟩
    simp only
    intro a b h1 h2
    have h3 : y.2 - 1 = ((start - 1 : Nat) : Int) := by omega
    rw [h3, getI_nat] at h1
    rw [getI_nat] at h2
    exact hc hne a b h1 h2
  last := by
    intro r hr
    simp at hr
    subst hr
    rfl
  nil := by simp

seal Juniper.Facts.wrap64

/-- `i + 1` for `i < len(s) ≤ MaxInt64` is exact in 64-bit arithmetic -/
theorem runsEndSame_nat (i : Nat) (h : i < 9223372036854775807) : runsEndSame (i : Int) = ((i + 1 : Nat) : Int) := by
  unfold runsEndSame; rw [wrap64_of_range (by omega) (by omega)]; omega

theorem runsEndNew_nat (i : Nat) (h : i < 9223372036854775807) : runsEndNew (i : Int) = ((i + 1 : Nat) : Int) := by
  unfold runsEndNew; rw [wrap64_of_range (by omega) (by omega)]; omega

theorem runsLoop_inv (same : α → α → Bool) (s : List α) (hl64 : s.length ≤ 9223372036854775807) :
    ∀ (fuel i start : Nat) (acc : List (Int × Int)), s.length - i ≤ fuel → start < i → i ≤ s.length →
      RunsGood same s acc start → RunsAdj same s start i → RunsCut same s acc start →
      ∃ (acc' : List (Int × Int)) (start' : Nat),
        runsLoop same s fuel (i : Int) (start : Int) (i : Int) acc =
          some (acc', (start' : Int), (s.length : Int)) ∧
        RunsGood same s acc' start' ∧ start' < s.length ∧ RunsAdj same s start' s.length ∧
        RunsCut same s acc' start' := by
  intro fuel
  induction fuel with
  | zero =>
    intro i start acc hf hsi hin hg ha hc
    have : i = s.length := by omega
    subst this
    exact ⟨acc, start, rfl, hg, hsi, ha, hc⟩
  | succ fuel ih =>
    intro i start acc hf hsi hin hg ha hc
    unfold runsLoop
    by_cases hlt : i < s.length
    · have hcond : runsCond (i : Int) (s.length : Int) = true := by
        simp only [runsCond, decide_eq_true_eq]; omega
      have h1 : (i : Int) - 1 = ((i - 1 : Nat) : Int) := by omega
      have hga : getI s ((i : Int) - 1) = some (s[i - 1]'(by omega)) := by
        rw [h1]; exact getI_of_lt s (i - 1) (by omega)
      have hgb : getI s (i : Int) = some s[i] := getI_of_lt s i hlt
      simp only [hcond, if_true, hga, hgb, runsSame, runsEndSame_nat i (by omega), runsCutLo, runsCutHi,
        runsStartNew, runsEndNew_nat i (by omega)]
      have hcast : (i : Int) + 1 = ((i + 1 : Nat) : Int) := by omega
      rw [hcast]
      by_cases hsame : same (s[i - 1]'(by omega)) s[i] = true
      · simp only [hsame, if_true]
        apply ih (i + 1) start acc (by omega) (by omega) (by omega) hg ?_ hc
        intro p hp1 hp2 a b hpa hpb
        by_cases hp3 : p + 1 < i
        · exact ha p hp1 hp3 a b hpa hpb
        · have hp4 : p = i - 1 := by omega
          subst hp4
          have e1 : i - 1 + 1 = i := by omega
          rw [e1] at hpb
          rw [List.getElem?_eq_getElem (by omega)] at hpa hpb
          cases hpa; cases hpb
          exact hsame
      · have hok : sliceOk (start : Int) (i : Int) (s.length : Int) = true := by
          rw [sliceOk_iff]; omega
        simp only [hsame, hok, if_true]
        apply ih (i + 1) i (acc ++ [((start : Int), (i : Int))]) (by omega) (by omega) (by omega)
          (runsGood_snoc same s acc start i hg hsi (by omega) ha hc)
        · intro p hp1 hp2
          omega
        · intro _ x y hx hy
          rw [List.getElem?_eq_getElem (by omega)] at hx hy
          cases hx; cases hy
          simpa using hsame
    · have hcond : runsCond (i : Int) (s.length : Int) = false := by
        simp only [runsCond, decide_eq_false_iff_not]; omega
      have : i = s.length := by omega
      subst this
      simp only [hcond]
      exact ⟨acc, start, by simp, hg, hsi, ha, hc⟩

theorem runs_spec (same : α → α → Bool) (s : List α) (hl64 : s.length ≤ 9223372036854775807) :
    ∃ rs, runs same s = some rs ∧
      (rs.map (fun r => slice s r.1 r.2)).flatten = s ∧
      (∀ r ∈ rs, 0 ≤ r.1 ∧ r.1 < r.2 ∧ r.2 ≤ s.length) ∧
      (∀ r ∈ rs, AdjAll (fun a b => same a b = true) (slice s r.1 r.2)) ∧
      AdjAll (fun (r1 r2 : Int × Int) => r1.2 = r2.1 ∧
        ∀ a b, getI s (r1.2 - 1) = some a → getI s r2.1 = some b → same a b = false) rs := by
  by_cases hn : s.length = 0
  · have hs : s = [] := List.eq_nil_of_length_eq_zero hn
    subst hs
    refine ⟨[], ?_, by simp, by simp, by simp, ?_⟩
    · simp [runs, runsLoop, runsFinal, runsNonEmpty, runsEnd0]
    · intro i hi; simp at hi
  · have hpos : 0 < s.length := by omega
    obtain ⟨acc', start', hloop, hg, hsl, ha, hc⟩ :=
      runsLoop_inv same s hl64 s.length 1 0 [] (by omega) (by omega) (by omega)
        (runsGood_nil same s) (by intro p _ hp; omega) (by intro h; exact absurd rfl h)
    have hfin := runsGood_snoc same s acc' start' s.length hg hsl (Nat.le_refl _) ha hc
    refine ⟨acc' ++ [((start' : Int), (s.length : Int))], ?_, ?_, hfin.rng, hfin.adj, hfin.bnd⟩
    · unfold runs
      have hne : runsNonEmpty (s.length : Int) = true := by
        simp only [runsNonEmpty, decide_eq_true_eq]; omega
      simp only [hne, if_true, runsEnd1, runsI0, runsStart0]
      have h : runsLoop same s s.length 1 0 1 [] =
          some (acc', (start' : Int), (s.length : Int)) := hloop
      rw [h]
      have hf : runsFinal (s.length : Int) = true := by
        simp only [runsFinal, decide_eq_true_eq]; omega
      have hok : sliceOk (start' : Int) (s.length : Int) (s.length : Int) = true := by
        rw [sliceOk_iff]; omega
      simp only [hf, if_true, runsLastLo, runsLastHi, hok]
    · rw [hfin.flat, List.take_length]

theorem adjAll_all_pairs (same : α → α → Bool) (hr : ∀ a, same a a = true)
    (ht : ∀ a b c, same a b = true → same b c = true → same a c = true) (l : List α)
    (h : AdjAll (fun a b => same a b = true) l) :
    ∀ i j (hi : i < l.length) (hj : j < l.length), i ≤ j → same l[i] l[j] = true := by
  intro i j hi hj hij
  obtain ⟨d, rfl⟩ : ∃ d, j = i + d := ⟨j - i, by omega⟩
  clear hij
  induction d with
  | zero => exact hr _
  | succ d ih =>
    have h1 : i + d < l.length := by omega
    exact ht _ _ _ (ih h1) (h (i + d) hj)

end Juniper.Proofs.Helpers
