import Juniper.Proofs.BatchBase
/-!
C11 helper lemmas, invariant 0: for the code the proofs are about (`good`: `bgCtx` comes from
`context.WithCancel(context.Background())` and `bgCancel` is called by `Close` only) the background
context never ends of its own accord, `out.err` never holds the background context's error, and no
`Next` ever reports it.
-/
namespace Juniper.Proofs.Batch
open Juniper.Model.Batch

structure Inv0 (s : State) : Prop where
  x1 : s.bgExpired = false
  x2 : s.errBg = false
  x3 : Res.bgErr ∉ s.results
  /-- the batcher's deferred `close(out.batchC)` has run once the batcher is gone -/
  x4 : s.bpc = .done → s.batchCClosed = true

theorem inv0_init : Inv0 init := by
  constructor <;> simp [init]

theorem inv0_step {cfg : Cfg} {s s' : State} {l : Label} (hi : Inv0 s)
    (h : step good cfg s l = some s') : Inv0 s' := by
  obtain ⟨x1, x2, x3, x4⟩ := hi
  cases l <;> unfold_step at h <;> (repeat' split at h) <;> cases h <;>
    (constructor <;> (try dsimp only) <;> first | assumption | (simp_all; done) | grind)

theorem inv0_reach {cfg : Cfg} {s : State} (h : Reach good cfg s) : Inv0 s := by
  induction h with
  | init => exact inv0_init
  | step l _ hs ih => exact inv0_step ih hs

/-- the background context is done exactly when `Close` has been called -/
theorem bgDone_iff_close {cfg : Cfg} {s : State} (_h : Reach good cfg s) : bgDone good s = s.bgCancelled := by
  simp [bgDone, Code.bgMayEnd, good]

end Juniper.Proofs.Batch
