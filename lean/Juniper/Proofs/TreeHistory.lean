import Juniper.Proofs.TreeIds
import Juniper.Proofs.TreeGet
/-!
# Histories: every sequence of operations from the empty tree (C01, C03)
-/
namespace Juniper.Proofs.Tree
open Juniper.Model.BTree Juniper.Gen.Tree

variable {K V : Type} {cmp : K → K → Int}

/-- the invariant of every reachable tree -/
structure Inv (cmp : K → K → Int) (t : Tree K V) : Prop where
  wf : WF cmp t
  ids : IdsOK t

theorem inv_empty (cmp : K → K → Int) : Inv cmp (Tree.empty : Tree K V) :=
  ⟨wf_empty cmp, by simp [IdsOK, Tree.empty, ids]⟩

theorem inv_put (hc : StrictWeak cmp) (t : Tree K V) (k : K) (v : V) (hi : Inv cmp t) :
    ∃ t', put cmp t k v = some t' ∧ Inv cmp t' ∧ toList t'.root = sput cmp k v (toList t.root) := by
  obtain ⟨t', h1, h2, h3⟩ := put_refines_wf hc t k v hi.wf
  exact ⟨t', h1, ⟨h2, idsOK_put cmp t t' k v hi.wf.bal hi.ids h1⟩, h3⟩

theorem inv_delete (hc : StrictWeak cmp) (t : Tree K V) (k : K) (hi : Inv cmp t) :
    ∃ t', delete cmp t k = some t' ∧ Inv cmp t' ∧ toList t'.root = serase cmp k (toList t.root) := by
  obtain ⟨t', h1, h2, h3⟩ := delete_refines_wf hc t k hi.wf hi.ids.1
  exact ⟨t', h1, ⟨h2, idsOK_delete cmp t t' k hi.ids h1⟩, h3⟩

/-- mutating operations -/
inductive Mut (K V : Type) where
  | put (k : K) (v : V)
  | del (k : K)

def applyMut (cmp : K → K → Int) (t : Tree K V) : Mut K V → Option (Tree K V)
  | .put k v => put cmp t k v
  | .del k => delete cmp t k

def specMut (cmp : K → K → Int) (l : List (K × V)) : Mut K V → List (K × V)
  | .put k v => sput cmp k v l
  | .del k => serase cmp k l

def runMuts (cmp : K → K → Int) : Tree K V → List (Mut K V) → Option (Tree K V)
  | t, [] => some t
  | t, m :: ms => match applyMut cmp t m with
    | none => none
    | some t' => runMuts cmp t' ms

theorem inv_runMuts (hc : StrictWeak cmp) (ms : List (Mut K V)) :
    ∀ t : Tree K V, Inv cmp t →
      ∃ t', runMuts cmp t ms = some t' ∧ Inv cmp t' ∧ toList t'.root = ms.foldl (specMut cmp) (toList t.root) := by
  induction ms with
  | nil => intro t hi; exact ⟨t, rfl, hi, rfl⟩
  | cons m ms ih =>
    intro t hi
    have step : ∃ t1, applyMut cmp t m = some t1 ∧ Inv cmp t1 ∧ toList t1.root = specMut cmp (toList t.root) m := by
      cases m with
      | put k v => exact inv_put hc t k v hi
      | del k => exact inv_delete hc t k hi
    obtain ⟨t1, h1, h2, h3⟩ := step
    obtain ⟨t', h4, h5, h6⟩ := ih t1 h2
    refine ⟨t', ?_, h5, ?_⟩
    · simp only [runMuts, h1]; exact h4
    · simp only [List.foldl_cons]; rw [← h3]; exact h6

end Juniper.Proofs.Tree
