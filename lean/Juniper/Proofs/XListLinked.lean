import Juniper.Proofs.XListSpec
import Juniper.Proofs.XListStore
/-!
# The linked-list invariant in pointwise form, and how the five link surgeries preserve it

`Linked l h`: the heap `h` represents the sequence `l` — pointwise: every node of `l` is allocated,
its `prev` is its predecessor in `l` and its `next` its successor, `front`/`back` are the ends.
The lemmas `linked_*` take a *pointwise description* of the new heap (what every record's
`prev`/`next` is in terms of the old one) and conclude `Linked` for the new sequence; the
per-program lemmas in `XListOps.lean` compute such descriptions by running the interpreter.
-/
namespace Juniper.Proofs.XList
open Juniper.Spec.XList Juniper.Model.XList

structure Linked (l : List Nat) (h : Heap) : Prop where
  nodup : l.Nodup
  front : h.front = l.head?
  back : h.back = l.getLast?
  live : ∀ x ∈ l, (h.nodes.get x).isSome
  prev : ∀ x ∈ l, (h.nodes.recOf x).prev = prevIn l x
  next : ∀ x ∈ l, (h.nodes.recOf x).next = nextIn l x

theorem linked_nil {h : Heap} (hf : h.front = none) (hb : h.back = none) : Linked [] h :=
  ⟨List.nodup_nil, by simp [hf], by simp [hb], by simp, by simp, by simp⟩

theorem mem_erase_nodup {l : List Nat} (hl : l.Nodup) {x n : Nat} : x ∈ l.erase n ↔ x ∈ l ∧ x ≠ n := by
  rw [List.Nodup.mem_erase_iff hl]; exact And.comm

theorem linked_erase {l : List Nat} {h h' : Heap} (hL : Linked l h) {n : Nat} (hn : n ∈ l)
    (hf : h'.front = if prevIn l n = none then nextIn l n else h.front)
    (hb : h'.back = if nextIn l n = none then prevIn l n else h.back)
    (hp : ∀ x, x ≠ n → (h'.nodes.recOf x).prev =
      if nextIn l n = some x then prevIn l n else (h.nodes.recOf x).prev)
    (hx : ∀ x, x ≠ n → (h'.nodes.recOf x).next =
      if prevIn l n = some x then nextIn l n else (h.nodes.recOf x).next)
    (hlive : ∀ x ∈ l, (h'.nodes.get x).isSome) : Linked (l.erase n) h' := by
  obtain ⟨hnd, hfront, hback, hlv, hprev, hnext⟩ := hL
  have hp0 := prevIn_eq_none_iff hnd hn
  have hq0 := nextIn_eq_none_iff hnd hn
  refine ⟨hnd.erase n, ?_, ?_, ?_, ?_, ?_⟩
  · rw [hf, head?_erase hnd, hfront]; grind
  · rw [hb, getLast?_erase hnd, hback]; grind
  · intro x hx; exact hlive x ((mem_erase_nodup hnd).1 hx).1
  · intro x hxe
    obtain ⟨hxl, hxn⟩ := (mem_erase_nodup hnd).1 hxe
    rw [hp x hxn, prevIn_erase hnd hxn, hprev x hxl]
  · intro x hxe
    obtain ⟨hxl, hxn⟩ := (mem_erase_nodup hnd).1 hxe
    rw [hx x hxn, nextIn_erase hnd hxn, hnext x hxl]

theorem linked_insBefore {k : List Nat} {h h' : Heap} (hL : Linked k h) {m n : Nat} (hm : m ∈ k)
    (hn : n ∉ k)
    (hf : h'.front = if prevIn k m = none then some n else h.front)
    (hb : h'.back = h.back)
    (hp : ∀ x, (h'.nodes.recOf x).prev =
      if x = n then prevIn k m else if x = m then some n else (h.nodes.recOf x).prev)
    (hx : ∀ x, (h'.nodes.recOf x).next =
      if x = n then some m else if prevIn k m = some x then some n else (h.nodes.recOf x).next)
    (hlive : ∀ x, x = n ∨ x ∈ k → (h'.nodes.get x).isSome) : Linked (insBefore k m n) h' := by
  obtain ⟨hnd, hfront, hback, hlv, hprev, hnext⟩ := hL
  have hp0 := prevIn_eq_none_iff hnd hm
  refine ⟨nodup_insBefore hnd hm hn, ?_, ?_, ?_, ?_, ?_⟩
  · rw [hf, head?_insBefore, hfront]; grind
  · rw [hb, getLast?_insBefore, hback]
  · intro x hx; exact hlive x ((mem_insBefore hm x).1 hx)
  · intro x hxe
    rw [hp x, prevIn_insBefore hnd hm hn]
    have := hprev x
    have := (mem_insBefore (n := n) hm x).1 hxe
    grind
  · intro x hxe
    rw [hx x, nextIn_insBefore hnd hm hn]
    have := hnext x
    have := (mem_insBefore (n := n) hm x).1 hxe
    grind

theorem linked_insAfter {k : List Nat} {h h' : Heap} (hL : Linked k h) {m n : Nat} (hm : m ∈ k)
    (hn : n ∉ k)
    (hf : h'.front = h.front)
    (hb : h'.back = if nextIn k m = none then some n else h.back)
    (hp : ∀ x, (h'.nodes.recOf x).prev =
      if x = n then some m else if nextIn k m = some x then some n else (h.nodes.recOf x).prev)
    (hx : ∀ x, (h'.nodes.recOf x).next =
      if x = n then nextIn k m else if x = m then some n else (h.nodes.recOf x).next)
    (hlive : ∀ x, x = n ∨ x ∈ k → (h'.nodes.get x).isSome) : Linked (insAfter k m n) h' := by
  obtain ⟨hnd, hfront, hback, hlv, hprev, hnext⟩ := hL
  have hq0 := nextIn_eq_none_iff hnd hm
  refine ⟨nodup_insAfter hnd hm hn, ?_, ?_, ?_, ?_, ?_⟩
  · rw [hf, head?_insAfter, hfront]
  · rw [hb, getLast?_insAfter hnd, hback]; grind
  · intro x hx; exact hlive x ((mem_insAfter hm x).1 hx)
  · intro x hxe
    rw [hp x, prevIn_insAfter hnd hm hn]
    have := hprev x
    have := (mem_insAfter (n := n) hm x).1 hxe
    grind
  · intro x hxe
    rw [hx x, nextIn_insAfter hnd hm hn]
    have := hnext x
    have := (mem_insAfter (n := n) hm x).1 hxe
    grind

theorem linked_cons {l : List Nat} {h h' : Heap} (hL : Linked l h) {n : Nat} (hn : n ∉ l)
    (hf : h'.front = some n)
    (hb : h'.back = if h.back = none then some n else h.back)
    (hp : ∀ x, (h'.nodes.recOf x).prev =
      if x = n then none else if h.front = some x then some n else (h.nodes.recOf x).prev)
    (hx : ∀ x, (h'.nodes.recOf x).next = if x = n then h.front else (h.nodes.recOf x).next)
    (hlive : ∀ x, x = n ∨ x ∈ l → (h'.nodes.get x).isSome) : Linked (n :: l) h' := by
  obtain ⟨hnd, hfront, hback, hlv, hprev, hnext⟩ := hL
  refine ⟨List.nodup_cons.2 ⟨hn, hnd⟩, ?_, ?_, ?_, ?_, ?_⟩
  · simp [hf]
  · rw [hb, hback, getLast?_cons']
    cases l <;> simp
  · intro x hx; exact hlive x (by simpa using hx)
  · intro x hxe
    rw [hp x, prevIn_cons, hfront]
    have := hprev x
    have := @prevIn_not_mem l n hn
    have := @mem_of_head? l
    grind
  · intro x hxe
    rw [hx x, nextIn_cons, hfront]
    have := hnext x
    grind

theorem linked_snoc {l : List Nat} {h h' : Heap} (hL : Linked l h) {n : Nat} (hn : n ∉ l)
    (hf : h'.front = if h.front = none then some n else h.front)
    (hb : h'.back = some n)
    (hp : ∀ x, (h'.nodes.recOf x).prev = if x = n then h.back else (h.nodes.recOf x).prev)
    (hx : ∀ x, (h'.nodes.recOf x).next =
      if x = n then none else if h.back = some x then some n else (h.nodes.recOf x).next)
    (hlive : ∀ x, x = n ∨ x ∈ l → (h'.nodes.get x).isSome) : Linked (l ++ [n]) h' := by
  obtain ⟨hnd, hfront, hback, hlv, hprev, hnext⟩ := hL
  refine ⟨?_, ?_, ?_, ?_, ?_, ?_⟩
  · have : ∀ a ∈ l, a ≠ n := fun a ha h => hn (h ▸ ha)
    simpa [List.nodup_append, hnd] using this
  · rw [hf, hfront]
    cases l <;> simp
  · simp [hb]
  · intro x hx; exact hlive x (by simpa [or_comm] using hx)
  · intro x hxe
    rw [hp x, prevIn_append_single hnd hn, hback]
    have := hprev x
    grind
  · intro x hxe
    rw [hx x, nextIn_append_single hnd hn, hback]
    have := hnext x
    grind

end Juniper.Proofs.XList
