import Juniper.Proofs.ParMapStreamE
/-! Deadlock freedom of the MapStream LTS: enabledness lemmas for every internal step and the case
analysis showing that a consumer inside `Next` or `Close` never faces a state in which nothing can move
and nothing is owed by the environment. -/
set_option linter.unusedSimpArgs false
set_option linter.unusedVariables false

namespace Juniper.Proofs.ParMap.S
open Juniper.Gen Juniper.Facts Juniper.Model.ParMap Juniper.Model.ParMap.Stream Juniper.Proofs.ParMap

def cNextWait : CPc → Bool
  | .nextWait => true
  | _ => false

/-- two more shutdown facts -/
structure InvG (cfg : Cfg) (s : St) : Prop where
  IC2 : dClosedIn s.disp = true → s.inClosed = true
  NW : cNextWait s.cons = true → s.cClosed = true

theorem invG_init (cfg : Cfg) : InvG cfg (Stream.init cfg) := by
  refine ⟨?_, ?_⟩ <;> simp [Stream.init, dClosedIn, cNextWait]

theorem invG_step {cfg : Cfg} (hs : cfg.code.Sound) {s s' : St} {l : Label} (hi : InvG cfg s)
    (h : Stream.step cfg s l = some s') : InvG cfg s' := by
  have ⟨i1, i2⟩ := hi
  cases l
  all_goals
    stream_cases h =>
      (refine ⟨?_, ?_⟩ <;> simp [egRecord, dClosedIn, cNextWait, hs.closesIn, hs.closesSource] at * <;> grind [dClosedIn, cNextWait])

theorem invG {cfg : Cfg} (hs : cfg.code.Sound) {s : St} (h : Reach cfg s) : InvG cfg s := by
  induction h with
  | init => exact invG_init cfg
  | step _ hstep ih => exact invG_step hs ih hstep


/-! ### enabledness of the internal steps -/

def En (cfg : Cfg) (s : St) (l : Label) : Prop := (Stream.step cfg s l).isSome = true

section
variable {cfg : Cfg} (hs : cfg.code.Sound) {s : St}
set_option linter.unusedSectionVars false
include hs

theorem en_dPull (h : s.disp = .pull) : En cfg s .dPull := by simp [En, Stream.step, h]
theorem en_dTakeToken {v} (h : s.disp = .waitReady v) (hr : 0 < s.ready) : En cfg s .dTakeToken := by
  have := hs.waitHasReady
  simp [En, Stream.step, h, this, hr]
theorem en_dWaitCtx {v} (h : s.disp = .waitReady v) (hc : s.ctxCause ≠ none) : En cfg s .dWaitCtx := by
  have := hs.waitHasCtx
  simp [En, Stream.step, h, this, ctxDone, Option.isSome_iff_ne_none, hc]
theorem en_dSend {v w} (h : s.disp = .sendIn v) (hw : s.ws[w]? = some .idle) (hc : s.inClosed = false) :
    En cfg s (.dSend w) := by
  have := hs.sendHasIn
  simp [En, Stream.step, h, hw, this, hc]
theorem en_dSendCtx {v} (h : s.disp = .sendIn v) (hc : s.ctxCause ≠ none) : En cfg s .dSendCtx := by
  have := hs.sendHasCtx
  simp [En, Stream.step, h, this, ctxDone, Option.isSome_iff_ne_none, hc]
theorem en_dCloseIn {r} (h : s.disp = .exiting r) : En cfg s .dCloseIn := by
  simp [En, Stream.step, h, hs.closesSource]
theorem en_dEgDone {r} (h : s.disp = .egRet r) : En cfg s .dEgDone := by simp [En, Stream.step, h]
theorem en_wSendC {w k v} (hw : s.ws[w]? = some (.sendC k v)) (hc : s.c.length < cCap cfg) (hcl : s.cClosed = false) :
    En cfg s (.wSendC w) := by
  have := hs.workerHasC
  simp [En, Stream.step, hw, this, hc, hcl]
theorem en_wSendCtx {w k v} (hw : s.ws[w]? = some (.sendC k v)) (hc : s.ctxCause ≠ none) : En cfg s (.wSendCtx w) := by
  have := hs.workerHasCtx
  simp [En, Stream.step, hw, this, ctxDone, Option.isSome_iff_ne_none, hc]
theorem en_wExitIdle {w} (hw : s.ws[w]? = some .idle) (hc : s.inClosed = true) : En cfg s (.wExitIdle w) := by
  simp [En, Stream.step, hw, hc]
theorem en_wDefer {w r} (hw : s.ws[w]? = some (.exiting r)) : En cfg s (.wDefer w) := by simp [En, Stream.step, hw]
theorem en_wEgDone {w r} (hw : s.ws[w]? = some (.egRet r)) : En cfg s (.wEgDone w) := by simp [En, Stream.step, hw]
theorem en_cRelease {k v} (h : s.cons = .releasing k v) (hr : s.ready < readyCap cfg) : En cfg s .cRelease := by
  simp [En, Stream.step, h, hs.releases, hr]
theorem en_cRecv {live kv rest} (h : s.cons = .next live) (hc : s.c = kv :: rest) (hy : canYield cfg s = false) :
    En cfg s .cRecv := by
  have := hs.nextHasC
  simp [En, Stream.step, h, hc, hy, this]
theorem en_cRecvClosed {live} (h : s.cons = .next live) (hc : s.c = []) (hy : canYield cfg s = false)
    (hcl : s.cClosed = true) : En cfg s .cRecvClosed := by
  have := hs.nextHasC
  simp [En, Stream.step, h, hc, hy, this, hcl, hs.nextClosed]
theorem en_cCtx (h : s.cons = .next false) (hy : canYield cfg s = false) : En cfg s .cCtx := by
  have := hs.nextHasCtx
  simp [En, Stream.step, h, hy, this]
theorem en_cWaitDone (h : s.cons = .nextWait) (he : s.egLive = 0) : En cfg s .cWaitDone := by
  simp only [En, Stream.step, h, he]
  cases s.egErr <;> simp
  split <;> simp
theorem en_cCloseDone (h : s.cons = .closeWait) (he : s.egLive = 0) : En cfg s .cCloseDone := by
  simp [En, Stream.step, h, he]

/-- the heap entry for the minimum index exists whenever the consumer's guard holds -/
theorem en_cYield {live} (h : s.cons = .next live) (hy : canYield cfg s = true) : En cfg s .cYield := by
  simp only [canYield, hs.nextReady, Bool.and_eq_true, decide_eq_true_eq] at hy
  have hne : s.heap ≠ [] := by intro h0; simp [h0] at hy
  obtain ⟨m, hm⟩ : ∃ m, heapMin s.heap = some m := by
    unfold heapMin
    cases hmin : (s.heap.map (·.1)).min? with
    | some m => exact ⟨m, rfl⟩
    | none => simp [List.min?_eq_none_iff] at hmin; exact absurd hmin hne
  have hmem : m ∈ s.heap.map (·.1) := by
    unfold heapMin at hm
    exact (List.min?_eq_some_iff.1 hm).1
  obtain ⟨⟨k, v⟩, hkv, hk⟩ := List.mem_map.1 hmem
  simp at hk; subst hk
  have hfind : (s.heap.find? (fun kv => kv.1 == (heapMin s.heap).getD 0)).isSome = true := by
    rw [List.find?_isSome]; exact ⟨(k, v), hkv, by simp [hm]⟩
  obtain ⟨⟨k', v'⟩, hf⟩ := Option.isSome_iff_exists.1 hfind
  have hy' : canYield cfg s = true := by
    simp only [canYield, hs.nextReady, Bool.and_eq_true, decide_eq_true_eq]; exact hy
  simp [En, Stream.step, h, hy', hf]
end


def wActive : WPc → Bool
  | .inF _ => true
  | .sendC _ _ => true
  | .exiting _ => true
  | .egRet _ => true
  | _ => false
def wIdle : WPc → Bool
  | .idle => true
  | _ => false

def consBusy : CPc → Bool
  | .next _ => true
  | .releasing _ _ => true
  | .nextWait => true
  | .closeWait => true
  | _ => false

/-- some internal step is enabled, or a call of `f` / of the source is in progress -/
def Progress (cfg : Cfg) (s : St) : Prop :=
  (∃ l, l.isEnv = false ∧ En cfg s l) ∨ 0 < fRunning s ∨ srcBusy s = true

theorem fRunning_pos_of {s : St} {w k : Nat} (hw : s.ws[w]? = some (WPc.inF k)) : 0 < fRunning s := by
  unfold fRunning
  exact List.countP_pos_iff.2 ⟨WPc.inF k, List.mem_of_getElem? hw, rfl⟩

/-- an active worker can move (or is inside `f`), provided a pending result can be sent or the context is done -/
theorem progress_of_active {cfg : Cfg} (hs : cfg.code.Sound) {s : St} {w : Nat} {pc : WPc}
    (hw : s.ws[w]? = some pc) (hact : wActive pc = true)
    (hsend : (s.c.length < cCap cfg ∧ s.cClosed = false) ∨ s.ctxCause ≠ none) : Progress cfg s := by
  cases pc with
  | inF k => exact Or.inr (Or.inl (fRunning_pos_of hw))
  | sendC k v =>
    rcases hsend with ⟨h1, h2⟩ | h
    · exact Or.inl ⟨.wSendC w, rfl, en_wSendC hs hw h1 h2⟩
    · exact Or.inl ⟨.wSendCtx w, rfl, en_wSendCtx hs hw h⟩
  | exiting r => exact Or.inl ⟨.wDefer w, rfl, en_wDefer hs hw⟩
  | egRet r => exact Or.inl ⟨.wEgDone w, rfl, en_wEgDone hs hw⟩
  | idle => simp [wActive] at hact
  | done => simp [wActive] at hact

theorem all_idle_or_done {ws : List WPc} (h : cnt wActive ws = 0) : ∀ x ∈ ws, x = .idle ∨ x = .done := by
  intro x hx
  have := cnt_eq_zero h x hx
  cases x <;> simp_all [wActive]


theorem caps {cfg : Cfg} (hs : cfg.code.Sound) (hg : 1 ≤ cfg.gmp) :
    1 ≤ numTokens cfg ∧ readyCap cfg = numTokens cfg ∧ cCap cfg = numTokens cfg := by
  have hp := par_pos hs hg
  have hb := buf_eq hs
  rw [numTokens_eq hs]
  refine ⟨by omega, ?_, ?_⟩
  · simp [readyCap, hs.readyCap]
  · simp [cCap, hs.cCap]

/-- the dispatcher can move, or is inside a source call, unless it is done or waits for something -/
theorem disp_progress {cfg : Cfg} (hs : cfg.code.Sound) {s : St}
    (hd : s.disp ≠ .done)
    (hwait : ∀ v, s.disp = .waitReady v → 0 < s.ready ∨ s.ctxCause ≠ none)
    (hsend : ∀ v, s.disp = .sendIn v → (∃ w : Nat, s.ws[w]? = some WPc.idle ∧ s.inClosed = false) ∨ s.ctxCause ≠ none) :
    Progress cfg s := by
  cases hdp : s.disp with
  | pull => exact Or.inl ⟨.dPull, rfl, en_dPull hs hdp⟩
  | inNext => exact Or.inr (Or.inr (by simp [srcBusy, hdp]))
  | waitReady v =>
    rcases hwait v hdp with h | h
    · exact Or.inl ⟨.dTakeToken, rfl, en_dTakeToken hs hdp h⟩
    · exact Or.inl ⟨.dWaitCtx, rfl, en_dWaitCtx hs hdp h⟩
  | sendIn v =>
    rcases hsend v hdp with ⟨w, hw, hc⟩ | h
    · exact Or.inl ⟨.dSend w, rfl, en_dSend hs hdp hw hc⟩
    · exact Or.inl ⟨.dSendCtx, rfl, en_dSendCtx hs hdp h⟩
  | exiting r => exact Or.inl ⟨.dCloseIn, rfl, en_dCloseIn hs hdp⟩
  | srcClosing r => exact Or.inr (Or.inr (by simp [srcBusy, hdp]))
  | egRet r => exact Or.inl ⟨.dEgDone, rfl, en_dEgDone hs hdp⟩
  | done => exact absurd hdp hd


theorem canYield_of {cfg : Cfg} (hs : cfg.code.Sound) {s : St} (hmem : ∃ v, (s.i, v) ∈ s.heap)
    (hge : ∀ k v, (k, v) ∈ s.heap → s.i ≤ k) : canYield cfg s = true := by
  obtain ⟨v, hv⟩ := hmem
  have hmin : heapMin s.heap = some s.i := by
    unfold heapMin
    apply List.min?_eq_some_iff.2
    refine ⟨List.mem_map.2 ⟨(s.i, v), hv, rfl⟩, ?_⟩
    intro b hb
    obtain ⟨⟨k, v'⟩, hkv, rfl⟩ := List.mem_map.1 hb
    exact hge k v' hkv
  have hlen : 0 < s.heap.length := List.length_pos_of_mem hv
  simp [canYield, hs.nextReady, hmin]; omega

theorem idle_or_all_done {ws : List WPc} (h : cnt wActive ws = 0) :
    (∃ w : Nat, ws[w]? = some WPc.idle) ∨ cnt wDone ws = ws.length := by
  by_cases hi : 0 < cnt wIdle ws
  · obtain ⟨w, x, hw, hx⟩ := exists_index_of_cnt_pos hi
    cases x <;> simp [wIdle] at hx
    exact Or.inl ⟨w, hw⟩
  · right
    apply cnt_eq_length
    intro x hx
    have h1 := all_idle_or_done h x hx
    have h2 := cnt_eq_zero (by omega : cnt wIdle ws = 0) x hx
    rcases h1 with rfl | rfl <;> simp_all [wIdle, wDone]

theorem wDone_le_wPastDefer (ws : List WPc) : cnt wDone ws ≤ cnt wPastDefer ws := by
  apply cnt_mono; intro x hx; cases x <;> simp_all [wDone, wPastDefer]
theorem wHolds_le_wActive (k : Nat) (ws : List WPc) : cnt (wHolds k) ws ≤ cnt wActive ws := by
  apply cnt_mono; intro x hx; cases x <;> simp_all [wHolds, wActive]
theorem wExited_le (ws : List WPc) : cnt wExited ws ≤ cnt wActive ws + cnt wDone ws := by
  unfold cnt
  induction ws with
  | nil => simp
  | cons x xs ih => cases x <;> simp [List.countP_cons, wExited, wActive, wDone] <;> omega
theorem wNotDone_le (ws : List WPc) : cnt wNotDone ws ≤ cnt wActive ws + cnt wIdle ws := by
  unfold cnt
  induction ws with
  | nil => simp
  | cons x xs ih => cases x <;> simp [List.countP_cons, wNotDone, wActive, wIdle] <;> omega


/-- the heart of deadlock freedom: a consumer waiting in `Next` on an empty, open result channel -/
theorem progress_waiting {cfg : Cfg} (hs : cfg.code.Sound) (hg : 1 ≤ cfg.gmp) {s : St} (h : Reach cfg s)
    {live : Bool} (hcons : s.cons = .next live) (hy : canYield cfg s = false) (hc : s.c = [])
    (hcl : s.cClosed = false) : Progress cfg s := by
  have hA := invA hs h
  have hB := invB hs hg h
  have hC := invC h
  have hP := invP hs h
  have hG := invG hs h
  have ⟨hnwc, hnw⟩ := numWorkers_cast hs hg
  have ⟨htok, hrc, hcc⟩ := caps hs hg
  by_cases hact : 0 < cnt wActive s.ws
  · obtain ⟨w, pc, hw, hpc⟩ := exists_index_of_cnt_pos hact
    exact progress_of_active hs hw hpc (Or.inl ⟨by simp [hc]; omega, hcl⟩)
  have hact0 : cnt wActive s.ws = 0 := by omega
  by_cases hd : s.disp = .done
  · have hin := hG.IC2 (by simp [hd, dClosedIn])
    rcases idle_or_all_done hact0 with ⟨w, hw⟩ | hall
    · exact Or.inl ⟨.wExitIdle w, rfl, en_wExitIdle hs hw hin⟩
    · exfalso
      have h1 := wDone_le_wPastDefer s.ws
      have h2 := cnt_le_length wPastDefer s.ws
      have h3 := hA.len
      have : s.nDone = numWorkers cfg := by rw [hB.ND]; omega
      have := hB.CC.2 this
      simp [hcl] at this
  · apply disp_progress hs hd
    · intro v hdv
      by_cases hr : 0 < s.ready
      · exact Or.inl hr
      right
      intro hctx
      -- nothing is done, nothing was dropped, no token was lost
      have hnd : cnt wDone s.ws = 0 := by
        by_cases hp : 0 < cnt wDone s.ws
        · rcases hC.W1 hp with hin | hcx
          · have := hA.IC hin; simp [hdv, dClosedIn] at this
          · exact absurd hctx hcx
        · omega
      have hex : cnt wExited s.ws = 0 := by have := wExited_le s.ws; omega
      have hdr : s.dropped = [] := by
        cases hdd : s.dropped with
        | nil => rfl
        | cons a l => have := hC.Dr (by simp [hdd]); omega
      have hlost : s.lost = 0 := by have := hA.L; simp [hdv, dExited, b2n] at this; exact this
      have hT := hA.T
      have hY := hA.Y
      simp [hdv, dSendIn, b2n, hcons, cReleasing, hlost] at hT hY
      have hlt : s.i < s.dispI := by omega
      have hPi := hP.P s.i
      have hh := wHolds_le_wActive s.i s.ws
      simp [b2n, hlt, hc, hdr] at hPi
      have hmem : ∃ v, (s.i, v) ∈ s.heap := mem_of_icnt_pos (by omega)
      have hge : ∀ k v, (k, v) ∈ s.heap → s.i ≤ k := by
        intro k v hkv
        by_cases hk : k < s.i
        · have hPk := hP.P k
          have := icnt_pos_of_mem hkv
          have hkd : k < s.dispI := by omega
          simp [b2n, hk, hkd] at hPk
          omega
        · omega
      have := canYield_of hs hmem hge
      simp [hy] at this
    · intro v hdv
      have hin : s.inClosed = false := by
        cases hi : s.inClosed with
        | false => rfl
        | true => have := hA.IC hi; simp [hdv, dClosedIn] at this
      rcases idle_or_all_done hact0 with ⟨w, hw⟩ | hall
      · exact Or.inl ⟨w, hw, hin⟩
      · right
        have h3 := hA.len
        rcases hC.W1 (by omega) with hi | hcx
        · simp [hin] at hi
        · exact hcx


/-- goroutines still to finish while somebody waits in `eg.Wait()` with the context done or `c` closed -/
theorem progress_shutdown {cfg : Cfg} (hs : cfg.code.Sound) (hg : 1 ≤ cfg.gmp) {s : St} (h : Reach cfg s)
    (hlive : 0 < s.egLive) (hcase : s.ctxCause ≠ none ∨ s.cClosed = true) : Progress cfg s := by
  have hA := invA hs h
  have hB := invB hs hg h
  have hC := invC h
  have hG := invG hs h
  have ⟨hnwc, hnw⟩ := numWorkers_cast hs hg
  -- an active worker can always move here: with the context done it may drop its result, and with `c`
  -- closed every worker is already past its deferred function
  by_cases hact : 0 < cnt wActive s.ws
  · obtain ⟨w, pc, hw, hpc⟩ := exists_index_of_cnt_pos hact
    rcases hcase with hctx | hcl
    · exact progress_of_active hs hw hpc (Or.inr hctx)
    · -- all workers are past the deferred function: `pc` is `egRet`
      have hnd := hB.CC.1 hcl
      have h1 := hB.ND
      have h3 := hA.len
      have hall : cnt wPastDefer s.ws = s.ws.length := by omega
      have hx : wPastDefer pc = true := by
        by_cases hx : wPastDefer pc = true
        · exact hx
        · have := cnt_add_one_le (p := wPastDefer) hw (by simpa using hx); omega
      cases pc <;> simp [wPastDefer, wActive] at hx hpc
      exact Or.inl ⟨.wEgDone w, rfl, en_wEgDone hs hw⟩
  have hact0 : cnt wActive s.ws = 0 := by omega
  by_cases hd : s.disp = .done
  · -- the dispatcher is done, so `in` is closed and idle workers leave
    have hin := hG.IC2 (by simp [hd, dClosedIn])
    rcases idle_or_all_done hact0 with ⟨w, hw⟩ | hall
    · exact Or.inl ⟨.wExitIdle w, rfl, en_wExitIdle hs hw hin⟩
    · exfalso
      have hEL := hB.EL
      have : cnt wNotDone s.ws = 0 := by
        have h1 := cnt_add_cnt_not wDone s.ws
        have h2 : cnt (fun x => !wDone x) s.ws = cnt wNotDone s.ws := by
          unfold cnt; congr 1; funext x; cases x <;> simp [wDone, wNotDone]
        omega
      simp [hd, dNotDone, b2n, this] at hEL
      omega
  · apply disp_progress hs hd
    · intro v hdv
      by_cases hr : 0 < s.ready
      · exact Or.inl hr
      right
      rcases hcase with hctx | hcl
      · exact hctx
      · -- `c` closed: every worker is done (none is active), hence the context is done
        have hnd := hB.CC.1 hcl
        have h1 := hB.ND
        have h3 := hA.len
        rcases idle_or_all_done hact0 with ⟨w, hw⟩ | hall
        · have := cnt_add_one_le (p := wPastDefer) hw (by simp [wPastDefer]); omega
        · rcases hC.W1 (by omega) with hi | hcx
          · have := hA.IC hi; simp [hdv, dClosedIn] at this
          · exact hcx
    · intro v hdv
      have hin : s.inClosed = false := by
        cases hi : s.inClosed with
        | false => rfl
        | true => have := hA.IC hi; simp [hdv, dClosedIn] at this
      rcases idle_or_all_done hact0 with ⟨w, hw⟩ | hall
      · exact Or.inl ⟨w, hw, hin⟩
      · right
        have h3 := hA.len
        rcases hC.W1 (by omega) with hi | hcx
        · simp [hin] at hi
        · exact hcx

/-- **Deadlock freedom of MapStream**: whenever the consumer is inside `Next` or `Close`, some internal
step is enabled, or a call of `f` or of the source is in progress. -/
theorem progress {cfg : Cfg} (hs : cfg.code.Sound) (hg : 1 ≤ cfg.gmp) {s : St} (h : Reach cfg s)
    (hb : consBusy s.cons = true) : Progress cfg s := by
  have hA := invA hs h
  have hB := invB hs hg h
  have hP := invP hs h
  have hG := invG hs h
  have ⟨htok, hrc, hcc⟩ := caps hs hg
  cases hcons : s.cons with
  | idle => simp [hcons, consBusy] at hb
  | closed => simp [hcons, consBusy] at hb
  | next live =>
    by_cases hy : canYield cfg s = true
    · exact Or.inl ⟨.cYield, rfl, en_cYield hs hcons hy⟩
    have hy' : canYield cfg s = false := by simpa using hy
    cases hc : s.c with
    | cons kv rest => exact Or.inl ⟨.cRecv, rfl, en_cRecv hs hcons hc hy'⟩
    | nil =>
      cases hcl : s.cClosed with
      | true => exact Or.inl ⟨.cRecvClosed, rfl, en_cRecvClosed hs hcons hc hy' hcl⟩
      | false => exact progress_waiting hs hg h hcons hy' hc hcl
  | releasing k v =>
    refine Or.inl ⟨.cRelease, rfl, en_cRelease hs hcons ?_⟩
    have hT := hA.T
    have hY := hA.Y
    simp [hcons, cReleasing, b2n] at hY
    have hPi := hP.P (s.i - 1)
    have hlt : s.i - 1 < s.i := by omega
    have hd : s.i - 1 < s.dispI := by
      by_cases hd : s.i - 1 < s.dispI
      · exact hd
      · simp [b2n, hlt, hd] at hPi
    rw [hrc]; omega
  | nextWait =>
    by_cases he : s.egLive = 0
    · exact Or.inl ⟨.cWaitDone, rfl, en_cWaitDone hs hcons he⟩
    · exact progress_shutdown hs hg h (by omega) (Or.inr (hG.NW (by simp [hcons, cNextWait])))
  | closeWait =>
    by_cases he : s.egLive = 0
    · exact Or.inl ⟨.cCloseDone, rfl, en_cCloseDone hs hcons he⟩
    · have hcc := hB.CL
      have : s.closeCalled = true := hcc.1.2 (by simp [hcons, cClosing])
      exact progress_shutdown hs hg h (by omega) (Or.inl (hcc.2 this))

end Juniper.Proofs.ParMap.S
