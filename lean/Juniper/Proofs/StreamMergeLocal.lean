import Juniper.Proofs.StreamMergeStep
/-! Helper lemmas for C12 (stream.Merge LTS), part 2: local transitions of one goroutine, the local
invariant (shapes of the deferred-call lists, input closed once, no Next after Close) and the
conservation of items. -/
set_option linter.unusedSectionVars false
set_option linter.unusedSimpArgs false
set_option linter.unusedVariables false
namespace Juniper.Proofs.StreamMerge
open Juniper.Model.StreamMerge
variable {V : Type}

abbrev E0 : List ExitStep := [.markDone, .closeInput, .wgDone]

/-- What one step can do to the goroutine it moves. -/
inductive Trans : G V → G V → Prop
  | item (g : G V) (v : V) : g.pc = .next → Trans g { g with pc := .send v, items := g.items ++ [v] }
  | ended (g : G V) : g.pc = .next → Trans g { g with pc := .exiting E0, why := some .ended }
  | err (g : G V) (e : Err) : g.pc = .next → Trans g { g with pc := .gotErr e }
  | casWin (g : G V) (e : Err) : g.pc = .gotErr e → Trans g { g with pc := .won e [.cancel, .closeErr] }
  | casLose (g : G V) (e : Err) : g.pc = .gotErr e → Trans g { g with pc := .exiting E0, why := some .lostCas }
  | winStep (g : G V) (e : Err) (x : WinStep) (rest : List WinStep) : g.pc = .won e (x :: rest) →
      Trans g { g with pc := .won e rest }
  | winDone (g : G V) (e : Err) : g.pc = .won e [] → Trans g { g with pc := .exiting E0, why := some .wonCas }
  | sendOk (g : G V) (v : V) : g.pc = .send v → Trans g (again g)
  | sendFail (g : G V) (v : V) : g.pc = .send v →
      Trans g { g with pc := .exiting E0, dropped := g.dropped ++ [v], why := some .sendFailed }
  | mark (g : G V) (d : Nat) (rest : List ExitStep) : g.pc = .exiting (.markDone :: rest) →
      Trans g { g with pc := .exiting (.checkLast d :: rest) }
  | check (g : G V) (d : Nat) (rest : List ExitStep) : g.pc = .exiting (.checkLast d :: rest) →
      Trans g { g with pc := .exiting rest }
  | closeIn (g : G V) (rest : List ExitStep) : g.pc = .exiting (.closeInput :: rest) →
      Trans g { g with pc := .exiting rest, closes := g.closes + 1 }
  | wgDone (g : G V) (rest : List ExitStep) : g.pc = .exiting (.wgDone :: rest) →
      Trans g { g with pc := .exiting rest }
  | fin (g : G V) : g.pc = .exiting [] → Trans g { g with pc := .finished }

/-- Every step either leaves all goroutines and `out` alone, or moves exactly one goroutine by a
local transition; only `sendOk` extends `out`. -/
theorem step_local {s s' : St V} {l : Label V} (h : step s l = some s') :
    s'.k = s.k ∧
    ((s'.gs = s.gs ∧ s'.out = s.out) ∨
     (∃ i g g', s.gs[i]? = some g ∧ Trans g g' ∧ s'.gs = s.gs.set i g' ∧
        ((s'.out = s.out ∧ ∀ v, g.pc = .send v → g' ≠ again g) ∨
         (∃ v, g.pc = .send v ∧ g' = again g ∧ s'.out = s.out ++ [(i, v)])))) := by
  cases l with
  | inItem i v => obtain ⟨g, hg, hp, rfl⟩ := step_inItem h
                  exact ⟨rfl, .inr ⟨i, g, _, hg, .item g v hp, rfl, .inl ⟨rfl, fun w hw => by rw [hp] at hw; cases hw⟩⟩⟩
  | inEnd i => obtain ⟨g, hg, hp, rfl⟩ := step_inEnd h
               exact ⟨rfl, .inr ⟨i, g, _, hg, .ended g hp, rfl, .inl ⟨rfl, fun w hw => by rw [hp] at hw; cases hw⟩⟩⟩
  | inErr i e => obtain ⟨g, hg, hp, rfl⟩ := step_inErr h
                 exact ⟨rfl, .inr ⟨i, g, _, hg, .err g _ hp, rfl, .inl ⟨rfl, fun w hw => by rw [hp] at hw; cases hw⟩⟩⟩
  | inCtx i => obtain ⟨g, hg, hp, _, rfl⟩ := step_inCtx h
               exact ⟨rfl, .inr ⟨i, g, _, hg, .err g _ hp, rfl, .inl ⟨rfl, fun w hw => by rw [hp] at hw; cases hw⟩⟩⟩
  | cas i =>
    obtain ⟨g, e, hg, hp, hc⟩ := step_cas h
    rcases hc with ⟨_, rfl⟩ | ⟨_, rfl⟩
    · exact ⟨rfl, .inr ⟨i, g, _, hg, .casWin g e hp, rfl, .inl ⟨rfl, fun w hw => by rw [hp] at hw; cases hw⟩⟩⟩
    · exact ⟨rfl, .inr ⟨i, g, _, hg, .casLose g e hp, rfl, .inl ⟨rfl, fun w hw => by rw [hp] at hw; cases hw⟩⟩⟩
  | win i =>
    obtain ⟨g, e, hg, hc⟩ := step_win h
    rcases hc with ⟨rest, hp, rfl⟩ | ⟨rest, hp, rfl⟩ | ⟨hp, rfl⟩
    · exact ⟨rfl, .inr ⟨i, g, _, hg, .winStep g e _ rest hp, rfl, .inl ⟨rfl, fun w hw => by rw [hp] at hw; cases hw⟩⟩⟩
    · exact ⟨rfl, .inr ⟨i, g, _, hg, .winStep g e _ rest hp, rfl, .inl ⟨rfl, fun w hw => by rw [hp] at hw; cases hw⟩⟩⟩
    · exact ⟨rfl, .inr ⟨i, g, _, hg, .winDone g e hp, rfl, .inl ⟨rfl, fun w hw => by rw [hp] at hw; cases hw⟩⟩⟩
  | sendOk i =>
    obtain ⟨g, v, live, hg, hp, _, rfl⟩ := step_sendOk h
    exact ⟨rfl, .inr ⟨i, g, _, hg, .sendOk g v hp, rfl, .inr ⟨v, hp, rfl, rfl⟩⟩⟩
  | sendFail i =>
    obtain ⟨g, v, hg, hp, _, rfl⟩ := step_sendFail h
    refine ⟨rfl, .inr ⟨i, g, _, hg, .sendFail g v hp, rfl, .inl ⟨rfl, fun w hw => ?_⟩⟩⟩
    intro hh
    have := congrArg G.pc hh
    simp [again] at this
  | exitStep i =>
    obtain ⟨g, hg, hc⟩ := step_exitStep h
    rcases hc with ⟨rest, hp, rfl⟩ | ⟨d, rest, hp, _, _, rfl⟩ | ⟨d, rest, hp, _, rfl⟩ | ⟨rest, hp, rfl⟩ |
      ⟨rest, hp, rfl⟩ | ⟨hp, rfl⟩
    · exact ⟨rfl, .inr ⟨i, g, _, hg, .mark g _ rest hp, rfl, .inl ⟨rfl, fun w hw => by rw [hp] at hw; cases hw⟩⟩⟩
    · exact ⟨rfl, .inr ⟨i, g, _, hg, .check g d rest hp, rfl, .inl ⟨rfl, fun w hw => by rw [hp] at hw; cases hw⟩⟩⟩
    · exact ⟨rfl, .inr ⟨i, g, _, hg, .check g d rest hp, rfl, .inl ⟨rfl, fun w hw => by rw [hp] at hw; cases hw⟩⟩⟩
    · exact ⟨rfl, .inr ⟨i, g, _, hg, .closeIn g rest hp, rfl, .inl ⟨rfl, fun w hw => by rw [hp] at hw; cases hw⟩⟩⟩
    · exact ⟨rfl, .inr ⟨i, g, _, hg, .wgDone g rest hp, rfl, .inl ⟨rfl, fun w hw => by rw [hp] at hw; cases hw⟩⟩⟩
    · exact ⟨rfl, .inr ⟨i, g, _, hg, .fin g hp, rfl, .inl ⟨rfl, fun w hw => by rw [hp] at hw; cases hw⟩⟩⟩
  | cCall live => obtain ⟨_, rfl⟩ := step_cCall h; exact ⟨rfl, .inl ⟨rfl, rfl⟩⟩
  | cEnd => obtain ⟨_, _, _, rfl⟩ := step_cEnd h; exact ⟨rfl, .inl ⟨rfl, rfl⟩⟩
  | cCtx => obtain ⟨_, rfl⟩ := step_cCtx h; exact ⟨rfl, .inl ⟨rfl, rfl⟩⟩
  | cClose => obtain ⟨_, rfl⟩ := step_cClose h; exact ⟨rfl, .inl ⟨rfl, rfl⟩⟩
  | cCloseStep =>
    rcases step_cCloseStep h with ⟨_, _, rfl⟩ | ⟨_, _, rfl⟩ | ⟨_, _, _, rfl⟩ <;> exact ⟨rfl, .inl ⟨rfl, rfl⟩⟩
  | ctxEnds => obtain ⟨_, _, rfl⟩ := step_ctxEnds h; exact ⟨rfl, .inl ⟨rfl, rfl⟩⟩
  | cExpire => obtain ⟨_, rfl⟩ := step_cExpire h; exact ⟨rfl, .inl ⟨rfl, rfl⟩⟩

/-- no step changes where the context comes from -/
theorem step_origin {s s' : St V} {l : Label V} (h : step s l = some s') : s'.origin = s.origin := by
  cases l with
  | inItem i v => obtain ⟨g, _, _, rfl⟩ := step_inItem h; rfl
  | inEnd i => obtain ⟨g, _, _, rfl⟩ := step_inEnd h; rfl
  | inErr i e => obtain ⟨g, _, _, rfl⟩ := step_inErr h; rfl
  | inCtx i => obtain ⟨g, _, _, _, rfl⟩ := step_inCtx h; rfl
  | ctxEnds => obtain ⟨_, _, rfl⟩ := step_ctxEnds h; rfl
  | cas i => obtain ⟨g, e, _, _, hc⟩ := step_cas h; rcases hc with ⟨_, rfl⟩ | ⟨_, rfl⟩ <;> rfl
  | win i =>
    obtain ⟨g, e, _, hc⟩ := step_win h
    rcases hc with ⟨rest, _, rfl⟩ | ⟨rest, _, rfl⟩ | ⟨_, rfl⟩ <;> rfl
  | sendOk i => obtain ⟨g, v, live, _, _, _, rfl⟩ := step_sendOk h; rfl
  | sendFail i => obtain ⟨g, v, _, _, _, rfl⟩ := step_sendFail h; rfl
  | exitStep i =>
    obtain ⟨g, _, hc⟩ := step_exitStep h
    rcases hc with ⟨rest, _, rfl⟩ | ⟨d, rest, _, _, _, rfl⟩ | ⟨d, rest, _, _, rfl⟩ | ⟨rest, _, rfl⟩ |
      ⟨rest, _, rfl⟩ | ⟨_, rfl⟩ <;> rfl
  | cCall live => obtain ⟨_, rfl⟩ := step_cCall h; rfl
  | cEnd => obtain ⟨_, _, _, rfl⟩ := step_cEnd h; rfl
  | cCtx => obtain ⟨_, rfl⟩ := step_cCtx h; rfl
  | cExpire => obtain ⟨_, rfl⟩ := step_cExpire h; rfl
  | cClose => obtain ⟨_, rfl⟩ := step_cClose h; rfl
  | cCloseStep => rcases step_cCloseStep h with ⟨_, _, rfl⟩ | ⟨_, _, rfl⟩ | ⟨_, _, _, rfl⟩ <;> rfl


/-! ### the local invariant -/

/-- The possible remainders of the deferred-call list / of the CAS winner's statements. -/
def Shape : GPc V → Prop
  | .exiting rest => rest = E0 ∨ (∃ d, rest = [.checkLast d, .closeInput, .wgDone]) ∨
      rest = [.closeInput, .wgDone] ∨ rest = [.wgDone] ∨ rest = []
  | .won _ rest => rest = [.cancel, .closeErr] ∨ rest = [.closeErr] ∨ rest = []
  | _ => True

/-- The goroutine has executed `in[i].Close()`. -/
def closedStage : GPc V → Bool
  | .exiting [.wgDone] => true
  | .exiting [] => true
  | .finished => true
  | _ => false

/-- The goroutine is still in its loop. -/
def inLoop : GPc V → Bool
  | .next => true
  | .gotErr _ => true
  | .won _ _ => true
  | .send _ => true
  | _ => false

structure LocalOK (g : G V) : Prop where
  shape : Shape g.pc
  closes : g.closes = if closedStage g.pc then 1 else 0
  nac : g.nextAfterClose = false
  why : g.why = none ↔ inLoop g.pc = true
  dropped : inLoop g.pc = true → g.dropped = []

theorem localOK_init : LocalOK ({} : G V) :=
  ⟨trivial, rfl, rfl, by simp [inLoop], fun _ => rfl⟩

theorem trans_localOK {g g' : G V} (t : Trans g g') (h : LocalOK g) : LocalOK g' := by
  obtain ⟨hs, hc, hn, hw, hd⟩ := h
  cases t with
  | item v hp => rw [hp] at hs hc hw hd; exact ⟨trivial, by simpa [closedStage] using hc, hn, by simpa [inLoop] using hw, by simpa [inLoop] using hd⟩
  | ended hp => rw [hp] at hs hc hw hd; exact ⟨.inl rfl, by simpa [closedStage] using hc, hn, by simp [inLoop], by simp [inLoop]⟩
  | err e hp => rw [hp] at hs hc hw hd; exact ⟨trivial, by simpa [closedStage] using hc, hn, by simpa [inLoop] using hw, by simpa [inLoop] using hd⟩
  | casWin e hp => rw [hp] at hs hc hw hd; exact ⟨.inl rfl, by simpa [closedStage] using hc, hn, by simpa [inLoop] using hw, by simpa [inLoop] using hd⟩
  | casLose e hp => rw [hp] at hs hc hw hd; exact ⟨.inl rfl, by simpa [closedStage] using hc, hn, by simp [inLoop], by simp [inLoop]⟩
  | winStep e x rest hp =>
    rw [hp] at hs hc hw hd
    refine ⟨?_, by simpa [closedStage] using hc, hn, by simpa [inLoop] using hw, by simpa [inLoop] using hd⟩
    simp only [Shape] at hs ⊢
    rcases hs with hs | hs | hs
    · simp at hs; right; left; exact hs.2
    · simp at hs; right; right; exact hs.2
    · cases hs
  | winDone e hp => rw [hp] at hs hc hw hd; exact ⟨.inl rfl, by simpa [closedStage] using hc, hn, by simp [inLoop], by simp [inLoop]⟩
  | sendOk v hp =>
    rw [hp] at hs hc hw hd
    have hc0 : g.closes = 0 := by simpa [closedStage] using hc
    exact ⟨trivial, by simp [again, closedStage, hc0], by simp [again, hn, hc0], by simpa [again, inLoop] using hw,
      by simpa [again, inLoop] using hd⟩
  | sendFail v hp => rw [hp] at hs hc hw hd; exact ⟨.inl rfl, by simpa [closedStage] using hc, hn, by simp [inLoop], by simp [inLoop]⟩
  | mark d rest hp =>
    rw [hp] at hs hc hw hd
    simp only [Shape, E0] at hs
    rcases hs with hs | ⟨d', hs⟩ | hs | hs | hs <;> simp at hs
    subst hs
    exact ⟨.inr (.inl ⟨d, rfl⟩), by simpa [closedStage] using hc, hn, by simpa [inLoop] using hw, by simp [inLoop]⟩
  | check d rest hp =>
    rw [hp] at hs hc hw hd
    simp only [Shape, E0] at hs
    rcases hs with hs | ⟨d', hs⟩ | hs | hs | hs <;> simp at hs
    obtain ⟨_, rfl⟩ := hs
    exact ⟨.inr (.inr (.inl rfl)), by simpa [closedStage] using hc, hn, by simpa [inLoop] using hw, by simp [inLoop]⟩
  | closeIn rest hp =>
    rw [hp] at hs hc hw hd
    simp only [Shape, E0] at hs
    rcases hs with hs | ⟨d', hs⟩ | hs | hs | hs <;> simp at hs
    subst hs
    have hc0 : g.closes = 0 := by simpa [closedStage] using hc
    exact ⟨.inr (.inr (.inr (.inl rfl))), by simp [closedStage, hc0], hn, by simpa [inLoop] using hw, by simp [inLoop]⟩
  | wgDone rest hp =>
    rw [hp] at hs hc hw hd
    simp only [Shape, E0] at hs
    rcases hs with hs | ⟨d', hs⟩ | hs | hs | hs <;> simp at hs
    subst hs
    exact ⟨.inr (.inr (.inr (.inr rfl))), by simpa [closedStage] using hc, hn, by simpa [inLoop] using hw, by simp [inLoop]⟩
  | fin hp =>
    rw [hp] at hs hc hw hd
    exact ⟨trivial, by simpa [closedStage] using hc, hn, by simpa [inLoop] using hw, by simp [inLoop]⟩

/-- First group of invariants: sizes and the local invariant of every goroutine. -/
structure InvA (k : Nat) (s : St V) : Prop where
  hk : s.k = k
  org : s.origin = ctxOrigin
  len : s.gs.length = k
  loc : ∀ g, g ∈ s.gs → LocalOK g

theorem invA_init (k : Nat) : InvA k (init V k) := by
  refine ⟨rfl, rfl, by simp [init], ?_⟩
  intro g hg
  simp [init] at hg
  rw [hg.2]; exact localOK_init

theorem invA_step {k : Nat} {s s' : St V} {l : Label V} (hi : InvA k s) (h : step s l = some s') :
    InvA k s' := by
  obtain ⟨hk, hcase⟩ := step_local h
  have ho : s'.origin = ctxOrigin := (step_origin h).trans hi.org
  rcases hcase with ⟨hgs, _⟩ | ⟨i, g, g', hg, t, hgs, _⟩
  · exact ⟨hk ▸ hi.hk, ho, hgs ▸ hi.len, hgs ▸ hi.loc⟩
  · refine ⟨hk ▸ hi.hk, ho, by rw [hgs]; simpa using hi.len, ?_⟩
    intro x hx
    rw [hgs] at hx
    rcases List.mem_or_eq_of_mem_set hx with hx | rfl
    · exact hi.loc x hx
    · exact trans_localOK t (hi.loc g (List.mem_of_getElem? hg))

theorem reach_invA {k : Nat} {s : St V} (h : Reach (init V k) s) : InvA k s := by
  induction h with
  | refl => exact invA_init k
  | step l _ hs ih => exact invA_step ih hs

/-! ### conservation of items -/

theorem proj_append_same (i : Nat) (out : List (Nat × V)) (v : V) :
    proj i (out ++ [(i, v)]) = proj i out ++ [v] := by
  simp [proj, List.filter_append]

theorem proj_append_ne {i j : Nat} (h : j ≠ i) (out : List (Nat × V)) (v : V) :
    proj i (out ++ [(j, v)]) = proj i out := by
  simp [proj, List.filter_append, h]

theorem trans_conserve {g g' : G V} (t : Trans g g') (h : LocalOK g)
    (hn : ∀ v, g.pc = .send v → g' ≠ again g) (X : List V)
    (hx : X ++ heldG g.pc ++ g.dropped = g.items) : X ++ heldG g'.pc ++ g'.dropped = g'.items := by
  have hd := h.dropped
  cases t with
  | item v hp => rw [hp] at hx hd; simp [heldG, inLoop] at hx hd ⊢; rw [hd] at hx ⊢; simp at hx ⊢; exact hx
  | ended hp => rw [hp] at hx; simpa [heldG] using hx
  | err e hp => rw [hp] at hx; simpa [heldG] using hx
  | casWin e hp => rw [hp] at hx; simpa [heldG] using hx
  | casLose e hp => rw [hp] at hx; simpa [heldG] using hx
  | winStep e x rest hp => rw [hp] at hx; simpa [heldG] using hx
  | winDone e hp => rw [hp] at hx; simpa [heldG] using hx
  | sendOk v hp => exact absurd rfl (hn v hp)
  | sendFail v hp =>
    rw [hp] at hx hd; simp [heldG, inLoop] at hx hd ⊢; rw [hd] at hx ⊢; simpa using hx
  | mark d rest hp => rw [hp] at hx; simpa [heldG] using hx
  | check d rest hp => rw [hp] at hx; simpa [heldG] using hx
  | closeIn rest hp => rw [hp] at hx; simpa [heldG] using hx
  | wgDone rest hp => rw [hp] at hx; simpa [heldG] using hx
  | fin hp => rw [hp] at hx; simpa [heldG] using hx

/-- Second group: what the consumer received from input `i`, then the item goroutine `i` is trying
to send, then the item whose send failed, is exactly what `in[i].Next` returned. -/
structure InvB (k : Nat) (s : St V) : Prop where
  conserve : ∀ i g, s.gs[i]? = some g → proj i s.out ++ heldG g.pc ++ g.dropped = g.items
  tags : ∀ p, p ∈ s.out → p.1 < k

theorem invB_init (k : Nat) : InvB k (init V k) := by
  refine ⟨?_, by simp [init]⟩
  intro i g hg
  simp [init, List.getElem?_replicate] at hg
  obtain ⟨_, rfl⟩ := hg
  simp [init, proj, heldG]

theorem invB_step {k : Nat} {s s' : St V} {l : Label V} (ha : InvA k s) (hi : InvB k s)
    (h : step s l = some s') : InvB k s' := by
  obtain ⟨_, hcase⟩ := step_local h
  rcases hcase with ⟨hgs, hout⟩ | ⟨i, g, g', hg, t, hgs, hout⟩
  · exact ⟨by rw [hgs, hout]; exact hi.conserve, by rw [hout]; exact hi.tags⟩
  · have hloc := ha.loc g (List.mem_of_getElem? hg)
    have hilt : i < k := by
      have := (List.getElem?_eq_some_iff.mp hg).1
      rw [ha.len] at this; exact this
    rcases hout with ⟨hout, hne⟩ | ⟨v, hp, rfl, hout⟩
    · refine ⟨?_, by rw [hout]; exact hi.tags⟩
      intro j x hx
      rw [hgs] at hx
      rw [hout]
      by_cases hij : i = j
      · subst hij
        have hlt := (List.getElem?_eq_some_iff.mp hg).1
        simp [List.getElem?_set, hlt] at hx
        subst hx
        exact trans_conserve t hloc hne _ (hi.conserve i g hg)
      · simp [List.getElem?_set, hij] at hx
        exact hi.conserve j x hx
    · refine ⟨?_, ?_⟩
      · intro j x hx
        rw [hgs] at hx
        rw [hout]
        by_cases hij : i = j
        · subst hij
          have hlt := (List.getElem?_eq_some_iff.mp hg).1
          simp [List.getElem?_set, hlt] at hx
          subst hx
          have := hi.conserve i g hg
          rw [hp] at this
          simp [heldG] at this
          simp [proj_append_same, again, heldG, ← this]
        · simp [List.getElem?_set, hij] at hx
          rw [proj_append_ne hij]
          exact hi.conserve j x hx
      · intro p hp'
        rw [hout] at hp'
        simp at hp'
        rcases hp' with hp' | rfl
        · exact hi.tags p hp'
        · exact hilt

end Juniper.Proofs.StreamMerge
