import Juniper.Proofs.ParDoState
/-! Inductive invariants of the `parallel.Do` / `DoContext` LTS, part 4: failure tracking (a failed call
or a skipped index leaves a trace until the return), the `parallelism - 1` bound on calls that begin
with a cancelled context (the positional result slice of `Map` / `MapContext`: `Proofs/ParWrap.lean`). -/
set_option linter.unusedSimpArgs false
set_option linter.unusedVariables false

namespace Juniper.Proofs.ParDo
open Juniper.Gen Juniper.Model.ParDo

/-- some call of `f` has returned an error -/
def hasFail (s : St) : Bool := s.ended.any (·.2.isErr)

theorem noFailure_iff (s : St) : noFailure s ↔ hasFail s = false := by
  simp [noFailure, hasFail]

/-- failure tracking: a failed call or a skipped index leaves a trace until the return; without
them no worker stops before the counter has passed `n` -/
structure Inv4 (cfg : Cfg) (s : St) : Prop where
  F1 : (hasFail s = true ∨ s.skipped ≠ []) → s.egErr ≠ none ∨ 0 < cnt isRetErr s.ws ∨ (∃ e, s.ret = some (some e))
  F2 : (hasFail s = false ∧ s.skipped = []) → cnt isRetErr s.ws = 0 ∧ s.egErr = none ∧ (0 < cnt isDone s.ws → (cfg.n : Int) ≤ s.x)

theorem inv4_init (cfg : Cfg) (hs : cfg.code.Sound) : Inv4 cfg (init cfg) := by
  unfold init
  split <;> refine ⟨?_, ?_⟩ <;> simp [hasFail, hs.seqLoop, hs.seqInit, hs.seqPost, effN_eq hs]
  · split <;> simp [isRetErr, isDone]; omega
  · simp [isRetErr, isDone]

syntax "inv4_worker " ident ident ident : tactic
macro_rules
  | `(tactic| inv4_worker $hi:ident $h2:ident $hs:ident) =>
    `(tactic| (
         have hw := ‹_[_]? = some _›
         have hR := cnt_ge isRetErr hw
         have hDn := cnt_ge isDone hw
         have ⟨f1, f2⟩ := $hi
         have ⟨iD, iM, iS, iG, iR, iE⟩ := $h2
         refine ⟨?_, ?_⟩ <;>
           simp [Option.isSome_iff_ne_none, Res.isErr, hasFail, cnt_set hw, isDone, isRetErr, ($hs).workerCancelled,
             ($hs).workerFailed, ($hs).seqStops, ($hs).seqLoop, ($hs).seqInit, ($hs).seqPost, effN_eq $hs, ($hs).workerDone, ($hs).fetch, ($hs).counterDelta] at * <;> grind))

theorem inv4_step {cfg : Cfg} (hs : cfg.code.Sound) {s s' : St} {l : Label} (h2 : Inv2 cfg s) (hi : Inv4 cfg s)
    (h : step cfg s l = some s') : Inv4 cfg s' := by
  cases l with
  | fetch w => pardo_cases h => inv4_worker hi h2 hs
  | check w => pardo_cases h => inv4_worker hi h2 hs
  | begin w => pardo_cases h => inv4_worker hi h2 hs
  | fEnd w r => pardo_cases h => inv4_worker hi h2 hs
  | egDone w => pardo_cases h => inv4_worker hi h2 hs
  | callerCancel =>
    pardo_cases h =>
      (have ⟨f1, f2⟩ := hi
       refine ⟨?_, ?_⟩ <;> simp [hasFail] at * <;> grind)
  | ret =>
    pardo_cases h =>
      (have ⟨f1, f2⟩ := hi
       have ⟨iD, iM, iS, iG, iR, iE⟩ := h2
       refine ⟨?_, ?_⟩ <;> simp [hasFail, isRetErr, isDone, *] at * <;> grind)


theorem cnt_add_cnt_not (p : Pc → Bool) (ws : List Pc) : cnt p ws + cnt (fun x => !p x) ws = ws.length := by
  unfold cnt
  induction ws with
  | nil => simp
  | cons x xs ih => simp only [List.countP_cons, List.length_cons]; cases h : p x <;> simp <;> omega

theorem cnt_add_one_le {p : Pc → Bool} {ws : List Pc} {w : Nat} {b : Pc} (hw : ws[w]? = some b)
    (hb : p b = false) : cnt p ws + 1 ≤ ws.length := by
  have h1 := cnt_add_cnt_not p ws
  have h2 := cnt_ge (fun x => !p x) hw
  simp [hb] at h2
  omega

/-- number of begun calls recorded as started with a cancelled context (kept opaque to `simp`) -/
def bcnt (l : List Begun) : Nat := l.countP (·.cancelled)
@[simp] theorem bcnt_nil : bcnt [] = 0 := rfl
@[simp] theorem bcnt_snoc (l : List Begun) (b : Begun) : bcnt (l ++ [b]) = bcnt l + if b.cancelled then 1 else 0 := by
  simp [bcnt, List.countP_append, List.countP_cons]
theorem startedCancelled_eq (s : St) : startedCancelled s = bcnt s.begun := rfl

/-- while the caller's context is live: no call begins cancelled before the errgroup cancels, and
afterwards only the workers that were already past their `ctx.Err()` test can still begin one -/
structure Inv5 (cfg : Cfg) (s : St) : Prop where
  H : s.callerCancelled = false →
        (s.dCause = none → startedCancelled s = 0) ∧
        (s.dCause ≠ none → startedCancelled s + cnt isCall s.ws + 1 ≤ s.ws.length)

theorem inv5_init (cfg : Cfg) : Inv5 cfg (init cfg) := by
  unfold init
  split <;> refine ⟨?_⟩ <;> simp [startedCancelled_eq]

syntax "inv5_worker " ident ident ident : tactic
macro_rules
  | `(tactic| inv5_worker $hi:ident $h2:ident $hs:ident) =>
    `(tactic| (
         have hw := ‹_[_]? = some _›
         have hC := cnt_ge isCall hw
         have hL := fun hb => cnt_add_one_le (p := isCall) hw hb
         have ⟨hH⟩ := $hi
         have ⟨iD, iM, iS, iG, iR, iE⟩ := $h2
         refine ⟨?_⟩ <;>
           simp [Option.isSome_iff_ne_none, startedCancelled_eq, ctxCancelled, cnt_set hw, isCall, ($hs).workerCancelled,
             ($hs).workerFailed, ($hs).seqStops, ($hs).seqLoop, ($hs).seqInit, ($hs).seqPost, effN_eq $hs] at * <;> grind))

theorem inv5_step {cfg : Cfg} (hs : cfg.code.Sound) {s s' : St} {l : Label} (h2 : Inv2 cfg s) (hi : Inv5 cfg s)
    (h : step cfg s l = some s') : Inv5 cfg s' := by
  cases l with
  | fetch w => pardo_cases h => inv5_worker hi h2 hs
  | check w => pardo_cases h => inv5_worker hi h2 hs
  | begin w => pardo_cases h => inv5_worker hi h2 hs
  | fEnd w r => pardo_cases h => inv5_worker hi h2 hs
  | egDone w => pardo_cases h => inv5_worker hi h2 hs
  | callerCancel =>
    pardo_cases h =>
      (have ⟨hH⟩ := hi
       refine ⟨?_⟩ <;> simp [startedCancelled_eq] at * <;> grind)
  | ret =>
    pardo_cases h =>
      (have ⟨hH⟩ := hi
       have ⟨iD, iM, iS, iG, iR, iE⟩ := h2
       refine ⟨?_⟩ <;> simp [startedCancelled_eq, isCall, *] at * <;> grind)


theorem endedCount_pos_of_mem {s : St} {i : Nat} {r : Res} (h : (i, r) ∈ s.ended) : 0 < endedCount s i := by
  unfold endedCount
  apply List.countP_pos_iff.2
  exact ⟨(i, r), h, by simp⟩

/-- a call in progress has an index below `n` and has not ended before -/
theorem running_call_fresh {cfg : Cfg} {s : St} (h1 : Inv1 cfg s) {w i : Nat} (hw : s.ws[w]? = some (Pc.inF i)) :
    i < cfg.n ∧ ∀ r', (i, r') ∉ s.ended := by
  have hA := h1.A i
  have hB := h1.B i
  have hr : 1 ≤ runC s i := by
    have h := countP_ge_of (isRun i) hw
    have e : isRun i (Pc.inF i) = true := by simp [isRun]
    rw [e] at h; exact h
  have hb : 0 < begunCount s i := by omega
  constructor
  · by_cases hc : ((i : Int) ≤ s.x ∧ i < cfg.n)
    · exact hc.2
    · rw [if_neg hc] at hA; omega
  · intro r' hm
    have := endedCount_pos_of_mem hm
    have : begunCount s i ≤ 1 := by
      by_cases hc : ((i : Int) ≤ s.x ∧ i < cfg.n)
      · rw [if_pos hc] at hA; omega
      · rw [if_neg hc] at hA; omega
    omega

/-- a call about to begin has an index below `n` -/
theorem pending_call_lt {cfg : Cfg} {s : St} (h1 : Inv1 cfg s) {w i : Nat} (hw : s.ws[w]? = some (Pc.call i)) :
    i < cfg.n := by
  have hA := h1.A i
  have hp : 1 ≤ pendC s i := by
    have h := countP_ge_of (isPend i) hw
    have e : isPend i (Pc.call i) = true := by simp [isPend]
    rw [e] at h; exact h
  by_cases hc : ((i : Int) ≤ s.x ∧ i < cfg.n)
  · exact hc.2
  · rw [if_neg hc] at hA; omega

theorem inv4 {cfg : Cfg} (hs : cfg.code.Sound) {s : St} (h : Reach cfg s) : Inv4 cfg s := by
  induction h with
  | init => exact inv4_init cfg hs
  | step hr hstep ih => exact inv4_step hs (inv2 hs hr) ih hstep

theorem inv5 {cfg : Cfg} (hs : cfg.code.Sound) {s : St} (h : Reach cfg s) : Inv5 cfg s := by
  induction h with
  | init => exact inv5_init cfg
  | step hr hstep ih => exact inv5_step hs (inv2 hs hr) ih hstep

end Juniper.Proofs.ParDo
