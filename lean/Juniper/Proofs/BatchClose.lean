import Juniper.Proofs.BatchEnd
/-!
C11 helper lemmas: `Close` returns. After `bgCancel()` every step of a goroutine or of the runtime
strictly decreases a measure over the producer, the batcher and the timer, and a state in which no
such step is enabled has both goroutines finished and `wg.Wait()` returned. The environment can raise
the measure again — only by letting the source hand out one more item (`srcRet (.item _)`, +4: a source
need not look at its context before answering) —, so the run-level statement is
`measure (end) + #internal steps ≤ measure (start) + 4 · #items handed out along the run`
(`close_run_bound`).
-/
namespace Juniper.Proofs.Batch
open Juniper.Model.Batch

def rankP : PPc → Nat
  | .next => 3
  | .send _ => 7
  | .closeC => 2
  | .closeSrc => 1
  | .done => 0

def rankB : BPc → Nat
  | .sel => 3
  | .inFull => 6
  | .flush _ => 2
  | .exit => 1
  | .done => 0

def rankT : Timer → Nat
  | .idle => 0
  | .fired => 1
  | .armed _ => 2

/-- Work left for the background goroutines once the background context is cancelled. -/
def measure (s : State) : Nat :=
  rankP s.ppc + rankB s.bpc + rankT s.timer + (if s.closeReturned then 0 else 1)

theorem rankT_le (t : Timer) : rankT t ≤ 2 := by cases t <;> simp [rankT]

macro "close_meas" : tactic => `(tactic| (
  simp_all [measure, rankP, rankB, rankT] <;> (try split) <;> (try omega)))


/-- Once `bgCancel()` has run it stays so, no consumer is inside `Next`, and every internal step
decreases the measure. -/
theorem measure_decreases {cfg : Cfg} {s s' : State} {l : Label} (h1 : Inv1 cfg s)
    (hc : s.bgCancelled = true) (hl : l.internal = true)
    (h : step good cfg s l = some s') : s'.bgCancelled = true ∧ measure s' < measure s := by
  have hidle := h1.c1 hc
  have ht := rankT_le s.timer
  cases l with
  | srcRet ev => cases hl
  | srcCancelErr w => cases hl
  | nextCall live => cases hl
  | ctxExpire => cases hl
  | tick d => cases hl
  | close => cases hl
  | bgEnds => cases hl
  | prodCancelled =>
    unfold_step at h <;> (repeat' split at h) <;> cases h <;> close_meas
  | prodSend =>
    unfold_step at h <;> (repeat' split at h) <;> cases h <;> close_meas
  | prodSendCancel =>
    unfold_step at h <;> (repeat' split at h) <;> cases h <;> close_meas
  | prodCloseC =>
    unfold_step at h <;> (repeat' split at h) <;> cases h <;> close_meas
  | prodCloseSrc =>
    unfold_step at h <;> (repeat' split at h) <;> cases h <;> close_meas
  | fullRet b =>
    unfold_step at h <;> (repeat' split at h) <;> cases h <;> close_meas
  | recvCClosed =>
    unfold_step at h <;> (repeat' split at h) <;> cases h <;> close_meas
  | recvTimer =>
    unfold_step at h <;> (repeat' split at h) <;> cases h <;> close_meas
  | flushAbort =>
    unfold_step at h <;> (repeat' split at h) <;> cases h <;> close_meas
  | batchExit =>
    unfold_step at h <;> (repeat' split at h) <;> cases h <;> close_meas
  | announce =>
    unfold_step at h <;> (repeat' split at h) <;> cases h <;> close_meas
  | deliver =>
    unfold_step at h <;> (repeat' split at h) <;> cases h <;> close_meas
  | consClosed =>
    unfold_step at h <;> (repeat' split at h) <;> cases h <;> close_meas
  | consCtx =>
    unfold_step at h <;> (repeat' split at h) <;> cases h <;> close_meas
  | timerExpire =>
    unfold_step at h <;> (repeat' split at h) <;> cases h <;> close_meas
  | closeReturn =>
    unfold_step at h <;> (repeat' split at h) <;> cases h <;> close_meas

/-- With the background context cancelled, a state in which no goroutine can move has both
goroutines finished and `Close` returned. `hfull`: the user's `full` callback returns. -/
theorem quiescent_closed {cfg : Cfg} {s : State} (h3 : Inv3 cfg s)
    (hfull : ∃ b, cfg.fullOK s.batch b = true) (hc : s.bgCancelled = true)
    (hq : Quiescent good cfg s) : s.ppc = .done ∧ s.bpc = .done ∧ s.closeReturned = true := by
  have hp : s.ppc = .done := by
    cases hp : s.ppc with
    | next => have := hq .prodCancelled rfl; simp [step, hp, hc, good, bgDone, Code.bgMayEnd] at this
    | send v => have := hq .prodSendCancel rfl; simp [step, hp, hc, good, bgDone, Code.bgMayEnd] at this
    | closeC => have := hq .prodCloseC rfl; simp [step, hp] at this
    | closeSrc => have := hq .prodCloseSrc rfl; simp [step, hp] at this
    | done => rfl
  have hcc : s.cClosed = true := h3.e2 (Or.inr hp)
  have hb : s.bpc = .done := by
    cases hb : s.bpc with
    | sel =>
      have := hq .recvCClosed rfl
      simp only [step, hb, hcc, good, and_self, if_true] at this
      split at this <;> cases this
    | inFull =>
      obtain ⟨b, hb'⟩ := hfull
      have := hq (.fullRet b) rfl
      simp only [step, hb, hb', and_self, if_true] at this
      split at this <;> cases this
    | flush r => have := hq .flushAbort rfl; simp [step, hb, hc, good, bgDone, Code.bgMayEnd] at this
    | exit => have := hq .batchExit rfl; simp [step, hb] at this
    | done => rfl
  refine ⟨hp, hb, ?_⟩
  have := hq .closeReturn rfl
  simp [step, hp, hb, hc] at this
  exact this

/-! ## Run-level bound: what the environment can add after `Close` -/

/-- items the source hands out along a run -/
def itemCount : List Label → Nat
  | [] => 0
  | .srcRet (.item _) :: ls => itemCount ls + 1
  | _ :: ls => itemCount ls

/-- steps of the goroutines / the runtime along a run -/
def internalCount : List Label → Nat
  | [] => 0
  | l :: ls => (if l.internal then 1 else 0) + internalCount ls

/-- what an environment label can add to the measure: 4 for an item, nothing otherwise -/
def envCost : Label → Nat
  | .srcRet (.item _) => 4
  | _ => 0

theorem measure_env {cfg : Cfg} {s s' : State} {l : Label} (h1 : Inv1 cfg s)
    (hc : s.bgCancelled = true) (hl : l.internal = false)
    (h : step good cfg s l = some s') : s'.bgCancelled = true ∧ measure s' ≤ measure s + envCost l := by
  have hidle := h1.c1 hc
  cases l with
  | srcRet ev =>
    cases ev <;> unfold_step at h <;> (repeat' split at h) <;> cases h <;> simp_all [measure, rankP, envCost] <;> omega
  | srcCancelErr w =>
    unfold_step at h <;> (repeat' split at h) <;> cases h <;> simp_all [measure, rankP, envCost] <;> omega
  | nextCall live => unfold_step at h <;> (repeat' split at h) <;> cases h <;> simp_all
  | ctxExpire => unfold_step at h <;> (repeat' split at h) <;> cases h <;> simp_all
  | tick d => unfold_step at h <;> cases h <;> simp_all [measure, envCost]
  | close => unfold_step at h <;> (repeat' split at h) <;> cases h <;> simp_all
  | bgEnds => unfold_step at h <;> cases h
  | prodCancelled => cases hl
  | prodSend => cases hl
  | prodSendCancel => cases hl
  | prodCloseC => cases hl
  | prodCloseSrc => cases hl
  | fullRet b => cases hl
  | recvCClosed => cases hl
  | recvTimer => cases hl
  | flushAbort => cases hl
  | batchExit => cases hl
  | announce => cases hl
  | deliver => cases hl
  | consClosed => cases hl
  | consCtx => cases hl
  | timerExpire => cases hl
  | closeReturn => cases hl


/-- **Run-level bound after `Close`.** Along any run from a reachable state in which `bgCancel()` has
run, the background context stays cancelled and
`measure (end) + #internal steps ≤ measure (start) + 4 · #items the source hands out along the run`. -/
theorem close_run_bound {cfg : Cfg} {s : State} (h : Reach good cfg s) (hc : s.bgCancelled = true) :
    ∀ (ls : List Label) (s' : State), run good cfg s ls = some s' →
      s'.bgCancelled = true ∧ measure s' + internalCount ls ≤ measure s + 4 * itemCount ls := by
  intro ls
  induction ls generalizing s with
  | nil =>
    intro s' hr
    simp only [run, Option.some.injEq] at hr
    subst hr
    exact ⟨hc, by simp [internalCount, itemCount]⟩
  | cons l ls ih =>
    intro s' hr
    simp only [run] at hr
    split at hr
    · rename_i s1 hstep
      have h1 := inv1_reach h
      have hr1 := Reach.step l h hstep
      cases hl : l.internal with
      | true =>
        have hd := measure_decreases h1 hc hl hstep
        have := ih hr1 hd.1 s' hr
        refine ⟨this.1, ?_⟩
        have hic : itemCount ls ≤ itemCount (l :: ls) := by
          cases l with
          | srcRet ev => cases ev <;> simp [itemCount]
          | _ => simp [itemCount]
        simp only [internalCount, hl, if_true]
        have := this.2
        omega
      | false =>
        have hd := measure_env h1 hc hl hstep
        have := ih hr1 hd.1 s' hr
        refine ⟨this.1, ?_⟩
        have hic : 4 * itemCount ls + envCost l ≤ 4 * itemCount (l :: ls) := by
          cases l with
          | srcRet ev => cases ev <;> simp [itemCount, envCost] <;> omega
          | _ => simp [itemCount, envCost]
        simp only [internalCount, hl, Bool.false_eq_true, if_false]
        have := this.2
        have := hd.2
        omega
    · cases hr

theorem measure_le (s : State) : measure s ≤ 16 := by
  have := rankT_le s.timer
  cases hp : s.ppc <;> cases hb : s.bpc <;> simp [measure, rankP, rankB, hp, hb] <;> split <;> omega


end Juniper.Proofs.Batch
