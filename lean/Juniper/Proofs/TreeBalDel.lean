import Juniper.Proofs.TreeBal
/-!
# Balance and occupancy of the B-tree model are preserved by `Delete` (C03)

`rotateLeftAt`, `rotateRightAt`, `mergeAt` (the Go `rotateLeft`, `rotateRight`, `mergeTwo`), then
`fixChild` (`steal` + `merge`), `finish`, `removeMax` and `del`.
-/
namespace Juniper.Proofs.Tree
open Juniper.Model.BTree Juniper.Gen.Tree

variable {K V : Type} {α : Type}

theorem bal_cases {h id : Nat} {kvs : List (K × V)} {kids : List (Node K V)} :
    Bal h (.mk id kvs kids) ↔
      (h = 0 ∧ kids = []) ∨
      (∃ h', h = h' + 1 ∧ kids.length = kvs.length + 1 ∧ ∀ c ∈ kids, Bal h' c ∧ Occ c) := by
  cases h with
  | zero => simp [Bal]
  | succ h => simp [Bal]

theorem mem_take_mono {l : List α} {a j : Nat} {x : α} (h : x ∈ l.take a) (haj : a ≤ j) : x ∈ l.take j := by
  have : l.take a = (l.take j).take a := by rw [List.take_take]; congr 1; omega
  rw [this] at h
  exact List.mem_of_mem_take h

theorem mem_drop_mono {l : List α} {b j : Nat} {x : α} (h : x ∈ l.drop b) (hjb : j ≤ b) : x ∈ l.drop j := by
  have : l.drop b = (l.drop j).drop (b - j) := by rw [List.drop_drop]; congr 1; omega
  rw [this] at h
  exact List.mem_of_mem_drop h

/-- two adjacent elements of a list -/
theorem drop_two {l : List α} {a : Nat} {x y : α} (hx : l[a]? = some x) (hy : l[a + 1]? = some y) :
    l.drop a = x :: y :: l.drop (a + 2) := by
  have h1 := List.getElem?_eq_some_iff.mp hx
  have h2 := List.getElem?_eq_some_iff.mp hy
  rw [List.drop_eq_getElem_cons h1.1, h1.2, List.drop_eq_getElem_cons h2.1, h2.2]

theorem drop_one {l : List α} {a : Nat} {x : α} (hx : l[a]? = some x) :
    l.drop a = x :: l.drop (a + 1) := by
  have h1 := List.getElem?_eq_some_iff.mp hx
  rw [List.drop_eq_getElem_cons h1.1, h1.2]

/-- structural outcome of a rotation or merge on children `a`, `a+1` of a node -/
structure PairFix (h : Nat) (kvs : List (K × V)) (kids : List (Node K V)) (a : Nat)
    (kvs' : List (K × V)) (kids' : List (Node K V)) (L R L' R' : Node K V) : Prop where
  kvsLen : kvs'.length = kvs.length
  kidsEq : kids' = kids.take a ++ L' :: R' :: kids.drop (a + 2)
  balL : Bal h L'
  balR : Bal h R'

theorem rotateLeftAt_spec {h : Nat} {kvs : List (K × V)} {kids : List (Node K V)} {a : Nat}
    {L R : Node K V} (hlen : kids.length = kvs.length + 1)
    (hL : kids[a]? = some L) (hR : kids[a + 1]? = some R)
    (hbL : Bal h L) (hbR : Bal h R) (hRn : 1 ≤ R.n) :
    ∃ kvs' kids' L' R', rotateLeftAt kvs kids a = some (kvs', kids') ∧
      PairFix h kvs kids a kvs' kids' L R L' R' ∧ L'.n = L.n + 1 ∧ R'.n = R.n - 1 := by
  have ha : a + 1 < kids.length := (List.getElem?_eq_some_iff.mp hR).1
  have hs : (rotateLeftSepIdx ((a : Int) + 1)).toNat = a := by simp [rotateLeftSepIdx]
  have hsl : a < kvs.length := by omega
  obtain ⟨li, lkvs, lkids⟩ := L
  obtain ⟨ri, rkvs, rkids⟩ := R
  cases rkvs with
  | nil => simp [node_n] at hRn
  | cons rk rkvs =>
    have hsep : kvs.drop a = kvs[a] :: kvs.drop (a + 1) := List.drop_eq_getElem_cons hsl
    refine ⟨kvs.take a ++ rk :: kvs.drop (a + 1),
      kids.take a ++ .mk li (lkvs ++ [kvs[a]]) (lkids ++ rkids.take 1) :: .mk ri rkvs (rkids.drop 1) :: kids.drop (a + 2),
      _, _, ?_, ⟨?_, rfl, ?_, ?_⟩, ?_, ?_⟩
    · simp only [rotateLeftAt, hs, drop_two hL hR, hsep]
    · simp; omega
    · rcases bal_cases.mp hbL with ⟨rfl, rfl⟩ | ⟨h', rfl, hl, hc⟩
      · have := bal_zero.mp hbR; subst this; exact bal_zero.mpr (by simp)
      · obtain ⟨hrl, hrc⟩ := bal_succ.mp hbR
        refine bal_succ.mpr ⟨by simp at hrl ⊢; omega, ?_⟩
        intro c hcm
        rcases List.mem_append.mp hcm with hcm | hcm
        · exact hc c hcm
        · exact hrc c (List.mem_of_mem_take hcm)
    · rcases bal_cases.mp hbR with ⟨rfl, rfl⟩ | ⟨h', rfl, hl, hc⟩
      · exact bal_zero.mpr (by simp)
      · refine bal_succ.mpr ⟨by simp at hl ⊢; omega, ?_⟩
        intro c hcm
        exact hc c (List.mem_of_mem_drop hcm)
    · simp [node_n]
    · simp [node_n]

theorem rotateRightAt_spec {h : Nat} {kvs : List (K × V)} {kids : List (Node K V)} {a : Nat}
    {L R : Node K V} (hlen : kids.length = kvs.length + 1)
    (hL : kids[a]? = some L) (hR : kids[a + 1]? = some R)
    (hbL : Bal h L) (hbR : Bal h R) (hLn : 1 ≤ L.n) :
    ∃ kvs' kids' L' R', rotateRightAt kvs kids a = some (kvs', kids') ∧
      PairFix h kvs kids a kvs' kids' L R L' R' ∧ L'.n = L.n - 1 ∧ R'.n = R.n + 1 := by
  have ha : a + 1 < kids.length := (List.getElem?_eq_some_iff.mp hR).1
  have hs : (rotateRightSepIdx (a : Int)).toNat = a := by simp [rotateRightSepIdx]
  have hsl : a < kvs.length := by omega
  obtain ⟨li, lkvs, lkids⟩ := L
  obtain ⟨ri, rkvs, rkids⟩ := R
  have hne : lkvs ≠ [] := by
    intro h0; subst h0; simp [node_n] at hLn
  obtain ⟨lk, hlk⟩ : ∃ lk, lkvs.getLast? = some lk := by
    cases hh : lkvs.getLast? with
    | none => exact absurd (List.getLast?_eq_none_iff.mp hh) hne
    | some lk => exact ⟨lk, rfl⟩
  have hsep : kvs.drop a = kvs[a] :: kvs.drop (a + 1) := List.drop_eq_getElem_cons hsl
  have hlpos : 0 < lkvs.length := List.length_pos_iff.mpr hne
  refine ⟨kvs.take a ++ lk :: kvs.drop (a + 1),
    kids.take a ++ .mk li lkvs.dropLast (lkids.take (lkvs.length - 1 + 1)) ::
      .mk ri (kvs[a] :: rkvs) ((lkids.drop (lkvs.length - 1 + 1)).take 1 ++ rkids) :: kids.drop (a + 2),
    _, _, ?_, ⟨?_, rfl, ?_, ?_⟩, ?_, ?_⟩
  · simp only [rotateRightAt, hs, drop_two hL hR, hsep, hlk]
  · simp; omega
  · rcases bal_cases.mp hbL with ⟨rfl, rfl⟩ | ⟨h', rfl, hl, hc⟩
    · exact bal_zero.mpr (by simp)
    · refine bal_succ.mpr ⟨by simp; omega, ?_⟩
      intro c hcm
      exact hc c (List.mem_of_mem_take hcm)
  · rcases bal_cases.mp hbL with ⟨rfl, rfl⟩ | ⟨h', rfl, hl, hc⟩
    · have := bal_zero.mp hbR; subst this; exact bal_zero.mpr (by simp)
    · obtain ⟨hrl, hrc⟩ := bal_succ.mp hbR
      refine bal_succ.mpr ⟨by simp at hrl ⊢; omega, ?_⟩
      intro c hcm
      rcases List.mem_append.mp hcm with hcm | hcm
      · exact hc c (List.mem_of_mem_drop (List.mem_of_mem_take hcm))
      · exact hrc c hcm
  · simp [node_n]; omega
  · simp [node_n]

theorem mergeAt_spec {h : Nat} {kvs : List (K × V)} {kids : List (Node K V)} {a : Nat}
    {L R : Node K V} (hlen : kids.length = kvs.length + 1)
    (hL : kids[a]? = some L) (hR : kids[a + 1]? = some R)
    (hbL : Bal h L) (hbR : Bal h R) :
    ∃ kvs' kids' L', mergeAt kvs kids a = some (kvs', kids') ∧
      kvs'.length + 1 = kvs.length ∧ kids' = kids.take a ++ L' :: kids.drop (a + 2) ∧
      Bal h L' ∧ L'.n = L.n + 1 + R.n := by
  have ha : a + 1 < kids.length := (List.getElem?_eq_some_iff.mp hR).1
  have hsl : a < kvs.length := by omega
  obtain ⟨li, lkvs, lkids⟩ := L
  obtain ⟨ri, rkvs, rkids⟩ := R
  have hsep : kvs.drop a = kvs[a] :: kvs.drop (a + 1) := List.drop_eq_getElem_cons hsl
  refine ⟨kvs.take a ++ kvs.drop (a + 1),
    kids.take a ++ .mk li (lkvs ++ kvs[a] :: rkvs) (lkids ++ rkids) :: kids.drop (a + 2), _, ?_, ?_, rfl, ?_, ?_⟩
  · simp only [mergeAt, drop_two hL hR, hsep]
  · simp; omega
  · rcases bal_cases.mp hbL with ⟨rfl, rfl⟩ | ⟨h', rfl, hl, hc⟩
    · have := bal_zero.mp hbR; subst this; exact bal_zero.mpr (by simp)
    · obtain ⟨hrl, hrc⟩ := bal_succ.mp hbR
      refine bal_succ.mpr ⟨by simp; omega, ?_⟩
      intro c hcm
      rcases List.mem_append.mp hcm with hcm | hcm
      · exact hc c hcm
      · exact hrc c hcm
  · simp [node_n]; omega

theorem fixChild_eq (kvs : List (K × V)) (kids : List (Node K V)) (j : Nat) :
    fixChild kvs kids j =
      (let left? : Option (Node K V) := if 0 < j then kids[j - 1]? else none
       let right? : Option (Node K V) := if j < kvs.length then kids[j + 1]? else none
       let ln : Int := match left? with | some l => l.n | none => 0
       let rn : Int := match right? with | some r => r.n | none => 0
       if right?.isSome ∧ rn > minKVs then (rotateLeftAt kvs kids j).map fun r => (r.1, r.2, none)
       else if left?.isSome ∧ ln > minKVs then (rotateRightAt kvs kids (j - 1)).map fun r => (r.1, r.2, none)
       else if left?.isSome ∧ ln ≤ minKVs then (mergeAt kvs kids (j - 1)).map fun r => (r.1, r.2, some (j - 1))
       else match right? with
         | none => none
         | some _ => (mergeAt kvs kids j).map fun r => (r.1, r.2, some j)) := by
  have e1 : ((j : Int) - 1).toNat = j - 1 := by omega
  have e2 : ((j : Int) + 1).toNat = j + 1 := by omega
  by_cases hj : 0 < j
  · simp only [fixChild, repairCall_stealRight, repairCall_stealLeft _ _ hj, repairCall_mergeLeft _ _ hj,
      repairCall_mergeRight, hasLeftSibling, hasRightSibling, leftSiblingIdx, rightSiblingIdx, stealRight, stealLeft,
      mergeIntoLeft, e1, e2, Bool.and_eq_true, decide_eq_true_eq, Int.natCast_pos, Int.ofNat_lt, gt_iff_lt]
    rfl
  · have hj0 : j = 0 := by omega
    subst hj0
    simp only [fixChild, repairCall_stealRight, repairCall_mergeRight, hasLeftSibling, hasRightSibling, leftSiblingIdx,
      rightSiblingIdx, stealRight, stealLeft, mergeIntoLeft, e2, Bool.and_eq_true, decide_eq_true_eq, Int.ofNat_lt,
      gt_iff_lt, Int.natCast_pos, Nat.lt_irrefl, if_false, Option.isSome_none, Bool.false_eq_true, false_and,
      decide_false]
    rfl

/-- postcondition of `fixChild` -/
structure FixOK (h : Nat) (kvs : List (K × V)) (kvs' : List (K × V)) (kids' : List (Node K V)) (m : Option Nat) : Prop where
  len : kids'.length = kvs'.length + 1
  all : ∀ c ∈ kids', Bal h c ∧ Occ c
  keep : m = none → kvs'.length = kvs.length
  merged : ∀ a, m = some a → kvs'.length + 1 = kvs.length ∧ ∃ Lm, kids'[a]? = some Lm

theorem pair_members {kids : List (Node K V)} {a : Nat} {P : Node K V → Prop} {L' R' : Node K V}
    (hpre : ∀ c ∈ kids.take a, P c) (hpost : ∀ c ∈ kids.drop (a + 2), P c) (hL : P L') (hR : P R') :
    ∀ c ∈ kids.take a ++ L' :: R' :: kids.drop (a + 2), P c := by
  intro c hc
  simp only [List.mem_append, List.mem_cons] at hc
  rcases hc with hc | rfl | rfl | hc
  · exact hpre c hc
  · exact hL
  · exact hR
  · exact hpost c hc

theorem fixChild_bal {h : Nat} {kvs : List (K × V)} {kids : List (Node K V)} {j : Nat} {X : Node K V}
    (hlen : kids.length = kvs.length + 1) (hX : kids[j]? = some X)
    (hbal : ∀ c ∈ kids, Bal h c)
    (hpre : ∀ c ∈ kids.take j, Occ c) (hpost : ∀ c ∈ kids.drop (j + 1), Occ c)
    (hXn : X.n + 1 = minKVs) (hkv : 1 ≤ kvs.length) :
    ∃ kvs' kids' m, fixChild kvs kids j = some (kvs', kids', m) ∧ FixOK h kvs kvs' kids' m := by
  obtain ⟨c1, c2, c3, c4, c5, c6, c7, c8, c9, c10⟩ := consts
  have hj : j < kids.length := (List.getElem?_eq_some_iff.mp hX).1
  have hbX := hbal X (List.mem_of_getElem? hX)
  rw [fixChild_eq]
  -- what happens with a left sibling `L` at `j-1` once the evaluation `hev` has chosen that branch
  have left_steal : ∀ {L : Node K V} {res}, kids[j - 1]? = some L → kids[j - 1 + 1]? = some X → Bal h L → Occ L →
      L.n > minKVs →
      (res = (rotateRightAt kvs kids (j - 1)).map fun r => (r.1, r.2, (none : Option Nat))) →
      ∃ kvs' kids' m, res = some (kvs', kids', m) ∧ FixOK h kvs kvs' kids' m := by
    intro L res hL hX' hbL hoL hln hev
    obtain ⟨kvs', kids', L', R', he, hp, hn1, hn2⟩ := rotateRightAt_spec hlen hL hX' hbL hbX (by omega)
    refine ⟨kvs', kids', none, by rw [hev, he]; rfl, ?_⟩
    refine ⟨by rw [hp.kidsEq, hp.kvsLen]; simp; omega, ?_, fun _ => hp.kvsLen, by intro a ha; cases ha⟩
    rw [hp.kidsEq]
    refine pair_members (P := fun c => Bal h c ∧ Occ c) ?_ ?_ ⟨hp.balL, ?_⟩ ⟨hp.balR, ?_⟩
    · intro c hc; exact ⟨hbal c (List.mem_of_mem_take hc), hpre c (mem_take_mono hc (by omega))⟩
    · intro c hc; exact ⟨hbal c (List.mem_of_mem_drop hc), hpost c (mem_drop_mono hc (by omega))⟩
    · simp only [Occ] at hoL ⊢; omega
    · simp only [Occ] at hoL ⊢; omega
  have left_merge : ∀ {L : Node K V} {res}, kids[j - 1]? = some L → kids[j - 1 + 1]? = some X → Bal h L → Occ L →
      ¬ L.n > minKVs →
      (res = (mergeAt kvs kids (j - 1)).map fun r => (r.1, r.2, some (j - 1))) →
      ∃ kvs' kids' m, res = some (kvs', kids', m) ∧ FixOK h kvs kvs' kids' m := by
    intro L res hL hX' hbL hoL hln hev
    obtain ⟨kvs', kids', L', he, hkl, hke, hbl, hn⟩ := mergeAt_spec hlen hL hX' hbL hbX
    refine ⟨kvs', kids', some (j - 1), by rw [hev, he]; rfl, ?_⟩
    refine ⟨by rw [hke]; simp; omega, ?_, (by intro hh; cases hh), ?_⟩
    · rw [hke]; intro c hc
      simp only [List.mem_append, List.mem_cons] at hc
      rcases hc with hc | rfl | hc
      · exact ⟨hbal c (List.mem_of_mem_take hc), hpre c (mem_take_mono hc (by omega))⟩
      · exact ⟨hbl, by simp only [Occ] at hoL ⊢; omega⟩
      · exact ⟨hbal c (List.mem_of_mem_drop hc), hpost c (mem_drop_mono hc (by omega))⟩
    · intro a ha; cases ha
      refine ⟨hkl, L', ?_⟩
      have htl : (kids.take (j - 1)).length = j - 1 := by simp; omega
      rw [hke, List.getElem?_append_right (by omega), htl]
      simp
  -- the right sibling, if any
  by_cases hr : j < kvs.length
  · obtain ⟨R, hR⟩ : ∃ R, kids[j + 1]? = some R := ⟨kids[j + 1], List.getElem?_eq_getElem (by omega)⟩
    have hbR := hbal R (List.mem_of_getElem? hR)
    have hoR : Occ R := hpost R (by rw [drop_one hR]; exact List.mem_cons_self)
    by_cases hrn : R.n > minKVs
    · -- steal from the right sibling
      obtain ⟨kvs', kids', L', R', he, hp, hn1, hn2⟩ := rotateLeftAt_spec hlen hX hR hbX hbR (by omega)
      refine ⟨kvs', kids', none, ?_, ?_⟩
      · simp [hr, hR, hrn, he]
      · refine ⟨by rw [hp.kidsEq, hp.kvsLen]; simp; omega, ?_, fun _ => hp.kvsLen, by intro a ha; cases ha⟩
        rw [hp.kidsEq]
        refine pair_members (P := fun c => Bal h c ∧ Occ c) ?_ ?_ ⟨hp.balL, ?_⟩ ⟨hp.balR, ?_⟩
        · intro c hc; exact ⟨hbal c (List.mem_of_mem_take hc), hpre c hc⟩
        · intro c hc; exact ⟨hbal c (List.mem_of_mem_drop hc), hpost c (mem_drop_mono hc (by omega))⟩
        · simp only [Occ] at hoR ⊢; omega
        · simp only [Occ] at hoR ⊢; omega
    · -- the right sibling cannot spare an entry
      have hRn : R.n = minKVs := by simp only [Occ] at hoR; omega
      by_cases hl : 0 < j
      · obtain ⟨L, hL⟩ : ∃ L, kids[j - 1]? = some L := ⟨kids[j - 1], List.getElem?_eq_getElem (by omega)⟩
        have hbL := hbal L (List.mem_of_getElem? hL)
        have hoL : Occ L := hpre L (by
          apply List.mem_of_getElem? (i := j - 1); rw [List.getElem?_take]; simp [hL]; omega)
        have hX' : kids[j - 1 + 1]? = some X := by rw [Nat.sub_add_cancel hl]; exact hX
        have hdrop : kids.drop (j - 1 + 2) = kids.drop (j + 1) := by congr 1; omega
        by_cases hln : L.n > minKVs
        · exact left_steal hL hX' hbL hoL hln (by simp [hr, hR, hrn, hl, hL, hln])
        · exact left_merge hL hX' hbL hoL hln (by simp [hr, hR, hrn, hl, hL, hln])
      · -- leftmost child: merge with the right sibling
        have hj0 : j = 0 := by omega
        subst hj0
        obtain ⟨kvs', kids', L', he, hkl, hke, hbl, hn⟩ := mergeAt_spec hlen hX hR hbX hbR
        refine ⟨kvs', kids', some 0, ?_, ?_⟩
        · simp [hr, hR, hrn, he]
        · refine ⟨by rw [hke]; simp; omega, ?_, (by intro hh; cases hh), ?_⟩
          · rw [hke]; intro c hc
            simp only [List.take_zero, List.nil_append, List.mem_cons] at hc
            rcases hc with rfl | hc
            · exact ⟨hbl, by simp only [Occ]; omega⟩
            · exact ⟨hbal c (List.mem_of_mem_drop hc), hpost c (mem_drop_mono hc (by omega))⟩
          · intro a ha; cases ha
            exact ⟨hkl, L', by rw [hke]; simp⟩
  · -- rightmost child: there is a left sibling
    have hl : 0 < j := by omega
    obtain ⟨L, hL⟩ : ∃ L, kids[j - 1]? = some L := ⟨kids[j - 1], List.getElem?_eq_getElem (by omega)⟩
    have hbL := hbal L (List.mem_of_getElem? hL)
    have hoL : Occ L := hpre L (by
      apply List.mem_of_getElem? (i := j - 1); rw [List.getElem?_take]; simp [hL]; omega)
    have hX' : kids[j - 1 + 1]? = some X := by rw [Nat.sub_add_cancel hl]; exact hX
    by_cases hln : L.n > minKVs
    · exact left_steal hL hX' hbL hoL hln (by simp [hr, hl, hL, hln])
    · exact left_merge hL hX' hbL hoL hln (by simp [hr, hl, hL, hln])
theorem replaceAt_getElem? {l : List α} {i : Nat} (x : α) (h : i < l.length) : (replaceAt l i x)[i]? = some x := by
  have : (l.take i).length = i := by simp; omega
  unfold replaceAt
  rw [List.getElem?_append_right (by omega), this]; simp

theorem replaceAt_take {l : List α} {i : Nat} (x : α) (h : i < l.length) : (replaceAt l i x).take i = l.take i := by
  have : (l.take i).length = i := by simp; omega
  unfold replaceAt
  rw [List.take_append_of_le_length (by omega)]
  simp [List.take_take]

theorem replaceAt_drop {l : List α} {i : Nat} (x : α) (h : i < l.length) :
    (replaceAt l i x).drop (i + 1) = l.drop (i + 1) := by
  have : (l.take i).length = i := by simp; omega
  unfold replaceAt
  rw [List.drop_append, this]
  have h1 : List.drop (i + 1) (List.take i l) = [] := by simp; omega
  have h2 : i + 1 - i = 1 := by omega
  simp [h1, h2]


/-- `r` is not the identity of any node of the subtree -/
def NoId (r : Nat) (x : Node K V) : Prop := r ∉ ids x

theorem noId_mk {r id : Nat} {kvs : List (K × V)} {kids : List (Node K V)} :
    NoId r (.mk id kvs kids) ↔ id ≠ r ∧ ∀ c ∈ kids, NoId r c := by
  simp only [NoId, ids, List.mem_cons, List.mem_flatten, List.mem_map]
  constructor
  · intro h
    exact ⟨fun e => h (Or.inl e.symm), fun c hc hr => h (Or.inr ⟨ids c, ⟨c, hc, rfl⟩, hr⟩)⟩
  · rintro ⟨h1, h2⟩ (e | ⟨l, ⟨c, hc, rfl⟩, hr⟩)
    · exact h1 e.symm
    · exact h2 c hc hr

/-- outcome for a subtree that is not the root: still balanced, at most one entry short -/
def SubOK (h : Nat) (x' : Node K V) (u : Bool) : Prop :=
  Bal h x' ∧ x'.n ≤ maxKVs ∧ (u = false → minKVs ≤ x'.n) ∧ (u = true → x'.n + 1 = minKVs)

/-- outcome for the root -/
def RootOK (x' : Node K V) : Prop := ∃ h, Bal h x' ∧ x'.n ≤ maxKVs ∧ (0 < h → 1 ≤ x'.n)

/-- preconditions of `fixChild` for child `j` of a node whose other children are fine -/
structure NeedsFix (h : Nat) (kvs : List (K × V)) (kids : List (Node K V)) (j : Nat) : Prop where
  len : kids.length = kvs.length + 1
  bal : ∀ c ∈ kids, Bal h c
  pre : ∀ c ∈ kids.take j, Occ c
  post : ∀ c ∈ kids.drop (j + 1), Occ c
  under : ∃ X, kids[j]? = some X ∧ X.n + 1 = minKVs

theorem needsFix_replace {h id : Nat} {kvs : List (K × V)} {kids : List (Node K V)} {j : Nat} {c c' : Node K V}
    (hb : Bal (h + 1) (.mk id kvs kids)) (hc : kids[j]? = some c) (hb' : Bal h c') (hn : c'.n + 1 = minKVs) :
    NeedsFix h kvs (replaceAt kids j c') j := by
  obtain ⟨hlen, hall⟩ := bal_succ.mp hb
  have hj : j < kids.length := (List.getElem?_eq_some_iff.mp hc).1
  refine ⟨by rw [length_replaceAt _ _ _ hj]; exact hlen, ?_, ?_, ?_, c', replaceAt_getElem? c' hj, hn⟩
  · intro d hd
    rcases mem_replaceAt hd with rfl | hd
    · exact hb'
    · exact (hall d hd).1
  · rw [replaceAt_take c' hj]; intro d hd; exact (hall d (List.mem_of_mem_take hd)).2
  · rw [replaceAt_drop c' hj]; intro d hd; exact (hall d (List.mem_of_mem_drop hd)).2

theorem finish_sub {h rootId id : Nat} {kvs : List (K × V)} {kids : List (Node K V)} {j : Nat}
    (hf : NeedsFix h kvs kids j) (hid : id ≠ rootId) (hlo : minKVs ≤ (kvs.length : Int))
    (hhi : (kvs.length : Int) ≤ maxKVs) :
    ∃ x' u, finish rootId id kvs kids j = .done x' u ∧ SubOK (h + 1) x' u := by
  obtain ⟨c1, c2, c3, c4, c5, c6, c7, c8, c9, c10⟩ := consts
  obtain ⟨X, hX, hXn⟩ := hf.under
  obtain ⟨kvs', kids', m, he, hok⟩ := fixChild_bal hf.len hX hf.bal hf.pre hf.post hXn (by omega)
  cases m with
  | none =>
    refine ⟨.mk id kvs' kids', false, by simp [finish, he], bal_succ.mpr ⟨hok.len, hok.all⟩, ?_, ?_, by simp⟩
    · have := hok.keep rfl; simp only [node_n]; omega
    · intro _; have := hok.keep rfl; simp only [node_n]; omega
  | some a =>
    obtain ⟨hl, _⟩ := hok.merged a rfl
    refine ⟨.mk id kvs' kids', mergeCascades kvs'.length false, ?_, bal_succ.mpr ⟨hok.len, hok.all⟩, ?_, ?_, ?_⟩
    · have hid' : ¬ ((id : Int) = (rootId : Int)) := by omega
      simp [finish, he, mergeRootCheck, hid']
    · simp only [node_n]; omega
    · simp only [mergeCascades, node_n]; simp <;> omega
    · simp only [mergeCascades, node_n]; simp <;> omega

theorem finish_root {h rootId : Nat} {kvs : List (K × V)} {kids : List (Node K V)} {j : Nat}
    (hf : NeedsFix h kvs kids j) (hlo : 1 ≤ kvs.length) (hhi : (kvs.length : Int) ≤ maxKVs) :
    ∃ x' u, finish rootId rootId kvs kids j = .done x' u ∧ RootOK x' := by
  obtain ⟨c1, c2, c3, c4, c5, c6, c7, c8, c9, c10⟩ := consts
  obtain ⟨X, hX, hXn⟩ := hf.under
  obtain ⟨kvs', kids', m, he, hok⟩ := fixChild_bal hf.len hX hf.bal hf.pre hf.post hXn hlo
  cases m with
  | none =>
    refine ⟨.mk rootId kvs' kids', false, by simp [finish, he], h + 1, bal_succ.mpr ⟨hok.len, hok.all⟩, ?_, ?_⟩
    · have := hok.keep rfl; simp only [node_n]; omega
    · intro _; have := hok.keep rfl; simp only [node_n]; omega
  | some a =>
    obtain ⟨hl, Lm, hLm⟩ := hok.merged a rfl
    by_cases h0 : kvs'.length = 0
    · refine ⟨Lm, false, by simp [finish, he, mergeRootCheck, mergeRootEmpty, mergeCollapseSetsRoot, h0, hLm], h, ?_⟩
      have := hok.all Lm (List.mem_of_getElem? hLm)
      refine ⟨this.1, this.2.2, ?_⟩
      intro _; have := this.2.1; omega
    · refine ⟨.mk rootId kvs' kids', false, ?_, h + 1, bal_succ.mpr ⟨hok.len, hok.all⟩, ?_, ?_⟩
      · simp [finish, he, mergeRootCheck, mergeRootEmpty, h0]
      · simp only [node_n]; omega
      · intro _; simp only [node_n]; omega

theorem removeMax_bal (rootId : Nat) (x : Node K V) :
    ∀ h, Bal h x → Occ x → NoId rootId x →
      ∃ kv x' u, removeMax rootId x = some (kv, x', u) ∧ SubOK h x' u := by
  obtain ⟨c1, c2, c3, c4, c5, c6, c7, c8, c9, c10⟩ := consts
  fun_induction removeMax rootId x with
  | case1 id kvs kids hleaf hnone =>
    intro h hb ho hni
    simp only [Occ, node_n] at ho
    have : kvs = [] := List.getLast?_eq_none_iff.mp hnone
    subst this; simp at ho; omega
  | case2 id kvs kids hleaf kv hkv kvs' =>
    intro h hb ho hni
    have hk : kids = [] := List.isEmpty_iff.mp hleaf
    subst hk
    have h0 := bal_leaf_iff.mp hb
    subst h0
    have hid := (noId_mk.mp hni).1
    have hlen : kvs'.length = kvs.length - 1 := by simp [kvs']
    simp only [Occ, node_n] at ho
    refine ⟨kv, _, _, rfl, bal_zero.mpr rfl, ?_, ?_, ?_⟩
    · simp only [node_n]; omega
    · simp only [node_n, deleteInnerDone, removeRightmostUnder, deleteMerges]
      simp; omega
    · simp only [node_n, deleteInnerDone, removeRightmostUnder, deleteMerges]
      simp; omega
  | case3 id kvs kids hinner hnone =>
    intro h hb ho hni
    have hne : kids ≠ [] := by simpa using hinner
    obtain ⟨h', rfl, hlen, hall⟩ := bal_inner hne hb
    simp at hnone; omega
  | case4 id kvs kids hinner c hc hres ih =>
    intro h hb ho hni
    have hne : kids ≠ [] := by simpa using hinner
    obtain ⟨h', rfl, hlen, hall⟩ := bal_inner hne hb
    have hcm := List.mem_of_getElem? hc
    obtain ⟨kv, x', u, he, _⟩ := ih h' (hall c hcm).1 (hall c hcm).2 ((noId_mk.mp hni).2 c hcm)
    rw [he] at hres; cases hres
  | case5 id kvs kids hinner c hc kv c' under hres kids1 hu ih =>
    intro h hb ho hni
    have hne : kids ≠ [] := by simpa using hinner
    obtain ⟨h', rfl, hlen, hall⟩ := bal_inner hne hb
    have hcm := List.mem_of_getElem? hc
    obtain ⟨kv2, x2, u2, he, hs⟩ := ih h' (hall c hcm).1 (hall c hcm).2 ((noId_mk.mp hni).2 c hcm)
    rw [he] at hres; cases hres
    have hu' : under = false := by simpa using hu
    subst hu'
    obtain ⟨hb', hmx, hmn, _⟩ := hs
    refine ⟨kv, _, false, rfl, bal_replace_child hb hc hb' ⟨hmn rfl, hmx⟩, ?_, ?_, by simp⟩
    · simp only [Occ, node_n] at ho ⊢; omega
    · intro _; simp only [Occ, node_n] at ho ⊢; omega
  | case6 id kvs kids hinner c hc kv c' under hres kids1 hu x' u hfin ih =>
    intro h hb ho hni
    have hne : kids ≠ [] := by simpa using hinner
    obtain ⟨h', rfl, hlen, hall⟩ := bal_inner hne hb
    have hcm := List.mem_of_getElem? hc
    obtain ⟨kv2, x2, u2, he, hs⟩ := ih h' (hall c hcm).1 (hall c hcm).2 ((noId_mk.mp hni).2 c hcm)
    rw [he] at hres; cases hres
    have hu' : under = true := by simpa using hu
    subst hu'
    obtain ⟨hb', hmx, _, hmn⟩ := hs
    simp only [Occ, node_n] at ho
    obtain ⟨x3, u3, hf3, hs3⟩ := finish_sub (rootId := rootId) (id := id) (needsFix_replace hb hc hb' (hmn rfl))
      (noId_mk.mp hni).1 ho.1 ho.2
    have hk1 : kids1 = replaceAt kids kvs.length c' := rfl
    rw [hk1, hf3] at hfin
    cases hfin
    exact ⟨kv, _, _, rfl, hs3⟩
  | case7 id kvs kids hinner c hc kv c' under hres kids1 hu hfin ih =>
    intro h hb ho hni
    have hne : kids ≠ [] := by simpa using hinner
    obtain ⟨h', rfl, hlen, hall⟩ := bal_inner hne hb
    have hcm := List.mem_of_getElem? hc
    obtain ⟨kv2, x2, u2, he, hs⟩ := ih h' (hall c hcm).1 (hall c hcm).2 ((noId_mk.mp hni).2 c hcm)
    rw [he] at hres; cases hres
    have hu' : under = true := by simpa using hu
    subst hu'
    obtain ⟨hb', hmx, _, hmn⟩ := hs
    simp only [Occ, node_n] at ho
    obtain ⟨x3, u3, hf3, hs3⟩ := finish_sub (rootId := rootId) (id := id) (needsFix_replace hb hc hb' (hmn rfl))
      (noId_mk.mp hni).1 ho.1 ho.2
    have hk1 : kids1 = replaceAt kids kvs.length c' := rfl
    exact absurd hf3 (by rw [← hk1]; exact hfin _ _)

def DelOK (h : Nat) (isRoot : Bool) : DelRes K V → Prop
  | .absent => True
  | .crash => False
  | .done x' u => if isRoot then RootOK x' else SubOK h x' u

structure DelPre (rootId h : Nat) (isRoot : Bool) (x : Node K V) : Prop where
  bal : Bal h x
  hi : x.n ≤ maxKVs
  kidsNoId : ∀ c ∈ x.kids, NoId rootId c
  rootCase : isRoot = true → x.id = rootId ∧ (0 < h → 1 ≤ x.n)
  subCase : isRoot = false → x.id ≠ rootId ∧ minKVs ≤ x.n

/-- the common ending of the inner cases of `del`: child `i` came back as `c'` -/
theorem del_finish {rootId h id : Nat} {isRoot : Bool} {kvs kvs1 : List (K × V)} {kids : List (Node K V)} {i : Nat}
    {c c' : Node K V} {under : Bool}
    (hp : DelPre rootId (h + 1) isRoot (.mk id kvs kids)) (hlen1 : kvs1.length = kvs.length)
    (hc : kids[i]? = some c) (hs : SubOK h c' under) :
    (under = false → DelOK (h + 1) isRoot (.done (.mk id kvs1 (replaceAt kids i c')) false)) ∧
    (under = true → DelOK (h + 1) isRoot (finish rootId id kvs1 (replaceAt kids i c') i)) := by
  obtain ⟨c1, c2, c3, c4, c5, c6, c7, c8, c9, c10⟩ := consts
  obtain ⟨hb', hmx, hmn, hmu⟩ := hs
  have hb1 : Bal (h + 1) (.mk id kvs1 kids) := by
    have := bal_succ.mp hp.bal
    exact bal_succ.mpr ⟨by rw [hlen1]; exact this.1, this.2⟩
  have hhi := hp.hi
  simp only [node_n] at hhi
  constructor
  · intro hu
    have hbn := bal_replace_child hb1 hc hb' ⟨hmn hu, hmx⟩
    cases isRoot with
    | true =>
      have := (hp.rootCase rfl).2
      simp only [node_n] at this
      exact ⟨h + 1, hbn, by simp only [node_n]; omega, by intro _; simp only [node_n]; omega⟩
    | false =>
      have := (hp.subCase rfl).2
      simp only [node_n] at this
      exact ⟨hbn, by simp only [node_n]; omega, by intro _; simp only [node_n]; omega, by simp⟩
  · intro hu
    have hnf := needsFix_replace hb1 hc hb' (hmu hu)
    cases isRoot with
    | true =>
      obtain ⟨hid, hn1⟩ := hp.rootCase rfl
      simp only [Node.id] at hid
      subst hid
      simp only [node_n] at hn1
      obtain ⟨x', u, hf, hr⟩ := finish_root (rootId := id) hnf (by omega) (by omega)
      rw [hf]; exact hr
    | false =>
      obtain ⟨hid, hn1⟩ := hp.subCase rfl
      simp only [Node.id] at hid
      simp only [node_n] at hn1
      obtain ⟨x', u, hf, hr⟩ := finish_sub (rootId := rootId) (id := id) hnf hid (by omega) (by omega)
      rw [hf]; exact hr

theorem delPre_inner {rootId h id : Nat} {isRoot : Bool} {kvs : List (K × V)} {kids : List (Node K V)}
    (hne : kids ≠ []) (hp : DelPre rootId h isRoot (.mk id kvs kids)) :
    ∃ h', h = h' + 1 ∧ kids.length = kvs.length + 1 ∧ (∀ c ∈ kids, Bal h' c ∧ Occ c) ∧
      ∀ c ∈ kids, DelPre rootId h' false c ∧ NoId rootId c := by
  obtain ⟨h', rfl, hlen, hall⟩ := bal_inner hne hp.bal
  refine ⟨h', rfl, hlen, hall, ?_⟩
  intro c hc
  have hn := hp.kidsNoId c hc
  refine ⟨⟨(hall c hc).1, (hall c hc).2.2, ?_, (by intro h; cases h), ?_⟩, hn⟩
  · obtain ⟨cid, ckvs, ckids⟩ := c
    intro d hd; exact (noId_mk.mp hn).2 d hd
  · intro _
    obtain ⟨cid, ckvs, ckids⟩ := c
    exact ⟨(noId_mk.mp hn).1, (hall _ hc).2.1⟩

theorem del_bal (cmp : K → K → Int) (k : K) (rootId : Nat) (x : Node K V) :
    ∀ h isRoot, DelPre rootId h isRoot x → DelOK h isRoot (del cmp k rootId x) := by
  obtain ⟨c1, c2, c3, c4, c5, c6, c7, c8, c9, c10⟩ := consts
  fun_induction del cmp k rootId x with
  | case1 id kvs kids i hs hleaf kvs' =>
    intro h isRoot hp
    have hk : kids = [] := List.isEmpty_iff.mp hleaf
    subst hk
    have h0 := bal_leaf_iff.mp hp.bal
    subst h0
    have hi : i < kvs.length := by
      have := searchNode_found_lt cmp k kvs (by rw [hs]); rw [hs] at this; exact this
    have hlen : kvs'.length = kvs.length - 1 := length_removeAt kvs i hi
    have hhi := hp.hi
    simp only [node_n] at hhi
    cases isRoot with
    | true =>
      exact ⟨0, bal_zero.mpr rfl, by simp only [node_n]; omega, by intro h; omega⟩
    | false =>
      obtain ⟨hid, hn1⟩ := hp.subCase rfl
      simp only [Node.id] at hid
      simp only [node_n] at hn1
      refine ⟨bal_zero.mpr rfl, by simp only [node_n]; omega, ?_, ?_⟩
      · simp only [node_n, deleteLeafDone, deleteMerges]; simp; omega
      · simp only [node_n, deleteLeafDone, deleteMerges]; simp; omega
  | case2 id kvs kids i hs hinner hnone =>
    intro h isRoot hp
    have hne : kids ≠ [] := by simpa using hinner
    obtain ⟨h', rfl, hlen, hall, hpre⟩ := delPre_inner hne hp
    have hi : i < kvs.length := by
      have := searchNode_found_lt cmp k kvs (by rw [hs]); rw [hs] at this; exact this
    simp at hnone; omega
  | case3 id kvs kids i hs hinner c hc hnone =>
    intro h isRoot hp
    have hne : kids ≠ [] := by simpa using hinner
    obtain ⟨h', rfl, hlen, hall, hpre⟩ := delPre_inner hne hp
    have hcm := List.mem_of_getElem? hc
    obtain ⟨kv, x', u, he, _⟩ := removeMax_bal rootId c h' (hall c hcm).1 (hall c hcm).2 (hpre c hcm).2
    rw [he] at hnone; cases hnone
  | case4 id kvs kids i hs hinner c hc kv c' under hres kvs1 kids1 hu =>
    intro h isRoot hp
    have hne : kids ≠ [] := by simpa using hinner
    obtain ⟨h', rfl, hlen, hall, hpre⟩ := delPre_inner hne hp
    have hcm := List.mem_of_getElem? hc
    have hi : i < kvs.length := by
      have := searchNode_found_lt cmp k kvs (by rw [hs]); rw [hs] at this; exact this
    obtain ⟨kv2, x2, u2, he, hs2⟩ := removeMax_bal rootId c h' (hall c hcm).1 (hall c hcm).2 (hpre c hcm).2
    rw [he] at hres; cases hres
    have hu' : under = false := by simpa using hu
    exact (del_finish hp (length_replaceAt kvs i kv hi) hc hs2).1 hu'
  | case5 id kvs kids i hs hinner c hc kv c' under hres kvs1 kids1 hu =>
    intro h isRoot hp
    have hne : kids ≠ [] := by simpa using hinner
    obtain ⟨h', rfl, hlen, hall, hpre⟩ := delPre_inner hne hp
    have hcm := List.mem_of_getElem? hc
    have hi : i < kvs.length := by
      have := searchNode_found_lt cmp k kvs (by rw [hs]); rw [hs] at this; exact this
    obtain ⟨kv2, x2, u2, he, hs2⟩ := removeMax_bal rootId c h' (hall c hcm).1 (hall c hcm).2 (hpre c hcm).2
    rw [he] at hres; cases hres
    have hu' : under = true := by simpa using hu
    exact (del_finish hp (length_replaceAt kvs i kv hi) hc hs2).2 hu'
  | case6 id kvs kids i hs hleaf =>
    intro h isRoot hp; trivial
  | case7 id kvs kids i hs hinner hnone =>
    intro h isRoot hp
    have hne : kids ≠ [] := by simpa using hinner
    obtain ⟨h', rfl, hlen, hall, hpre⟩ := delPre_inner hne hp
    have := searchNode_le cmp k kvs
    rw [hs] at this
    simp at hnone this; omega
  | case8 id kvs kids i hs hinner c hc hres ih =>
    intro h isRoot hp; trivial
  | case9 id kvs kids i hs hinner c hc hres ih =>
    intro h isRoot hp
    have hne : kids ≠ [] := by simpa using hinner
    obtain ⟨h', rfl, hlen, hall, hpre⟩ := delPre_inner hne hp
    have := ih h' false (hpre c (List.mem_of_getElem? hc)).1
    rw [hres] at this; exact this.elim
  | case10 id kvs kids i hs hinner c hc c' under hres kids1 hu ih =>
    intro h isRoot hp
    have hne : kids ≠ [] := by simpa using hinner
    obtain ⟨h', rfl, hlen, hall, hpre⟩ := delPre_inner hne hp
    have := ih h' false (hpre c (List.mem_of_getElem? hc)).1
    rw [hres] at this
    have hu' : under = false := by simpa using hu
    exact (del_finish hp rfl hc this).1 hu'
  | case11 id kvs kids i hs hinner c hc c' under hres kids1 hu ih =>
    intro h isRoot hp
    have hne : kids ≠ [] := by simpa using hinner
    obtain ⟨h', rfl, hlen, hall, hpre⟩ := delPre_inner hne hp
    have := ih h' false (hpre c (List.mem_of_getElem? hc)).1
    rw [hres] at this
    have hu' : under = true := by simpa using hu
    exact (del_finish hp rfl hc this).2 hu'


/-- the identities of the tree are pairwise distinct and below the allocation counter -/
def IdsOK (t : Tree K V) : Prop := (ids t.root).Nodup ∧ ∀ i ∈ ids t.root, i < t.nextId

theorem bal_delete (cmp : K → K → Int) (t : Tree K V) (k : K) (hb : BalTree t) (hid : (ids t.root).Nodup) :
    ∃ t', delete cmp t k = some t' ∧ BalTree t' := by
  obtain ⟨h, hbal, hmax, hroot⟩ := hb
  have hpre : DelPre t.root.id h true t.root := by
    refine ⟨hbal, hmax, ?_, fun _ => ⟨rfl, hroot⟩, (by intro h; cases h)⟩
    obtain ⟨⟨id, kvs, kids⟩, size, gen, nextId⟩ := t
    intro c hc
    simp only [ids, List.nodup_cons] at hid
    simp only [Node.id, NoId]
    intro hm
    exact hid.1 (List.mem_flatten.mpr ⟨ids c, List.mem_map.mpr ⟨c, hc, rfl⟩, hm⟩)
  have := del_bal cmp k t.root.id t.root h true hpre
  unfold delete
  cases hres : del cmp k t.root.id t.root with
  | absent => exact ⟨t, rfl, h, hbal, hmax, hroot⟩
  | crash => rw [hres] at this; exact this.elim
  | done r u =>
    rw [hres] at this
    exact ⟨_, rfl, this⟩

end Juniper.Proofs.Tree
