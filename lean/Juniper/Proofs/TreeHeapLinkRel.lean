import Juniper.Proofs.TreeHeapLinkIns
/-!
# Linking the two B-tree models (C03): the whole-tree relation, `Put`

`Rel h t`: the heap `h` and the functional tree `t` describe the same tree — same root identity, same
allocation counter, same `size` / `gen`, the functional tree is in the store below parent pointer
`nil` (`Sub`), and the node identities are pairwise distinct and allocated (`IdsOK`).
-/
namespace Juniper.Proofs.TreeHeapLink
open Juniper Juniper.Model.BTree Juniper.Model.BTreeSlotsOps Juniper.Proofs.Tree Juniper.Proofs.TreeSlotsOps

variable {K V : Type}

structure Rel (h : Heap K V) (t : Tree K V) : Prop where
  root : h.root = t.root.id
  next : t.nextId = h.nodes.length
  size : h.size = t.size
  gen : h.gen = (t.gen : Int)
  sub : Sub h.get none t.root
  ids : IdsOK t

theorem rel_empty : Rel (Heap.empty : Heap K V) (Tree.empty : Tree K V) := by
  refine ⟨rfl, rfl, rfl, rfl, ?_, by simp [IdsOK, Tree.empty, ids]⟩
  refine sub_mk.mpr ⟨SNode.fresh, rfl, rfl, ?_, by simp⟩
  exact ⟨by simp [SNode.fresh], by simpa [SNode.fresh] using rep_nil keysCap,
    by simpa [SNode.fresh] using rep_nil valuesCap, by simpa [SNode.fresh] using rep_nil childrenCap, Or.inl rfl⟩

theorem Rel.cnt_le {h : Heap K V} {t : Tree K V} (hr : Rel h t) : ∀ j, cnt j t.root ≤ 1 :=
  (nodup_iff_count_le_one _).mp hr.ids.1

theorem Rel.cnt_lt {h : Heap K V} {t : Tree K V} (hr : Rel h t) : ∀ j, 0 < cnt j t.root → j < h.nodes.length := by
  intro j hj
  rw [← hr.next]
  exact hr.ids.2 j (mem_ids_iff_cnt.mpr hj)

/-! ## the height is below the number of allocated objects -/

theorem pigeon : ∀ (n : Nat) (l : List Nat), l.Nodup → (∀ i ∈ l, i < n) → l.length ≤ n
  | 0, l, _, hlt => by
    cases l with
    | nil => simp
    | cons a l => have := hlt a List.mem_cons_self; omega
  | n + 1, l, hnd, hlt => by
    have h1 : (l.erase n).length ≤ n := by
      refine pigeon n (l.erase n) (hnd.erase n) ?_
      intro i hi
      have := (hnd.mem_erase_iff).mp hi
      have := hlt i this.2
      omega
    have h2 := List.length_erase (a := n) (l := l)
    split at h2 <;> omega

theorem length_ids_child {kids : List (Node K V)} {c : Node K V} (hc : c ∈ kids) :
    (ids c).length ≤ ((kids.map ids).flatten).length := by
  induction kids with
  | nil => cases hc
  | cons d ds ih =>
    simp only [List.map_cons, List.flatten_cons, List.length_append]
    rcases List.mem_cons.mp hc with rfl | hc'
    · omega
    · have := ih hc'; omega

theorem height_lt_ids : ∀ (ht : Nat) (x : Node K V), Bal ht x → ht + 1 ≤ (ids x).length
  | 0, .mk id kvs kids, _ => by simp [ids]
  | ht + 1, .mk id kvs kids, hb => by
    obtain ⟨hlen, hall⟩ := bal_succ.mp hb
    cases kids with
    | nil => simp at hlen
    | cons c cs =>
      have := height_lt_ids ht c (hall c List.mem_cons_self).1
      simp only [ids, List.map_cons, List.flatten_cons, List.length_cons, List.length_append]
      omega

theorem Rel.height_le {h : Heap K V} {t : Tree K V} (hr : Rel h t) {ht : Nat} (hb : Bal ht t.root) :
    ht + 1 ≤ h.nodes.length := by
  have h1 := height_lt_ids ht t.root hb
  have h2 := pigeon t.nextId (Juniper.Proofs.Tree.ids t.root) hr.ids.1 hr.ids.2
  rw [hr.next] at h2
  omega

/-! ## `Put` -/

theorem put_unfold (cmp : K → K → Int) (h : Heap K V) (k : K) (v : V) {curr idx : Nat} {found : Bool} {xs : SNode K V Nat}
    (hd : Heap.descend cmp k h (h.nodes.length + 1) h.root = some (curr, idx, found)) (hx : h.get curr = some xs) :
    h.put cmp k v =
      if found then h.step (.setValue curr idx v) [curr]
      else (putLeaf cmp (h.nodes.length + 1) h curr xs k v).map fun h' =>
        { h' with gen := bumpIf Gen.Tree.putBumpsGen h'.gen 1, size := bumpIf Gen.Tree.putBumpsSize h'.size 1 } := by
  unfold Heap.put
  simp only [bind, pure, hd, hx, Option.bind_some]
  cases found with
  | true => simp
  | false =>
    simp only [Bool.false_eq_true, if_false]
    unfold putLeaf
    cases hh : (if Gen.Tree.putInsertsDirect (Gen.Tree.full xs.n) = true then
        (toIdx xs.n).bind fun n => (Heap.lowerFrom Gen.Tree.insertLess cmp k xs.keys n 0).bind fun i =>
          h.step (NodeOp.leafInsert curr i k v) [curr]
      else Heap.overfill cmp (h.nodes.length + 1) h curr k v none) <;> rfl

theorem root_kids_noid {t : Tree K V} (hcnt : ∀ j, cnt j t.root ≤ 1) : ∀ c ∈ t.root.kids, cnt t.root.id c = 0 := by
  obtain ⟨⟨id, kvs, kids⟩, size, gen, nextId⟩ := t
  intro c hc
  exact cnt_id_child hcnt hc

/-- `Put` on related states: the heap model does not crash and the results are related again -/
theorem put_sim (cmp : K → K → Int) {h : Heap K V} {t : Tree K V} (hrel : Rel h t) (hb : BalTree t) (k : K) (v : V) :
    ∃ h' t', put cmp t k v = some t' ∧ h.put cmp k v = some h' ∧ Rel h' t' := by
  obtain ⟨ht, hbal, hmax, hroot⟩ := hb
  have hcnt := hrel.cnt_le
  have hlt := hrel.cnt_lt
  have hfuel := hrel.height_le hbal
  have hnoid : ∀ c ∈ t.root.kids, cnt h.root c = 0 := by rw [hrel.root]; exact root_kids_noid hcnt
  have hsim := ins_sim cmp k v t.root t.nextId ht h none hbal hmax hcnt hlt hnoid hrel.next hrel.sub
  have hsh := ins_shape cmp k v t.root t.nextId
  have hids := ins_ids cmp k v t.root t.nextId ht hbal hmax
  obtain ⟨tp, hput, _⟩ := bal_put cmp t k v ⟨ht, hbal, hmax, hroot⟩
  have hidsOK := idsOK_put cmp t tp k v ⟨ht, hbal, hmax, hroot⟩ hrel.ids hput
  suffices hsuff : ∃ h', h.put cmp k v = some h' ∧ Rel h' tp by
    obtain ⟨h', h1, h2⟩ := hsuff
    exact ⟨h', tp, hput, h1, h2⟩
  unfold put at hput
  rcases hres : ins cmp k v t.root t.nextId with ⟨res, f⟩
  rw [hres] at hsim hsh hids hput
  cases res with
  | crash => exact hsim.elim
  | found x' =>
    simp only [InsSim] at hsim hsh
    obtain ⟨curr, idx, xs, h', hdesc, hxs, hstep, hsub, hfr, hlen⟩ := hsim
    simp only [Option.some.injEq] at hput
    subst hput
    refine ⟨h', ?_, ?_⟩
    · rw [put_unfold cmp h k v (by rw [hrel.root]; exact hdesc _ (by omega)) hxs, if_pos rfl]
      exact hstep
    · exact ⟨by rw [hfr.root, hrel.root]; exact hsh.symm, by rw [hlen]; exact hrel.next,
        by rw [hfr.size]; exact hrel.size, by rw [hfr.gen]; exact hrel.gen, hsub, hidsOK⟩
  | one x' =>
    simp only [InsSim] at hsim hsh
    obtain ⟨curr, idx, xs, h', hdesc, hxs, hpl, hsub, hfr, hlen⟩ := hsim
    simp only [Option.some.injEq] at hput
    subst hput
    refine ⟨{ h' with gen := bumpIf Gen.Tree.putBumpsGen h'.gen 1, size := bumpIf Gen.Tree.putBumpsSize h'.size 1 }, ?_, ?_⟩
    · rw [put_unfold cmp h k v (by rw [hrel.root]; exact hdesc _ (by omega)) hxs, if_neg (by simp),
        hpl _ (by omega)]
      rfl
    · refine ⟨?_, ?_, ?_, ?_, hsub, hidsOK⟩
      · show h'.root = x'.id
        rw [hfr.root, hrel.root]; exact hsh.symm
      · exact hlen.symm
      · show bumpIf Gen.Tree.putBumpsSize h'.size 1 = _
        rw [hfr.size, hrel.size]; rfl
      · show bumpIf Gen.Tree.putBumpsGen h'.gen 1 = _
        rw [hfr.gen, hrel.gen]
        simp only [bumpIf, bump]
        split <;> simp
  | split l sep r =>
    simp only [InsSim] at hsim hsh
    obtain ⟨curr, idx, xs, h1, hdesc, hxs, hpl, hsubl, hsubr, hfr, hlen⟩ := hsim
    obtain ⟨hlid, hrid1, hrid2⟩ := hsh
    obtain ⟨hff, hcr0⟩ := hids
    simp only [Option.some.injEq] at hput
    subst hput
    have hcr : ∀ j, cnt j l + cnt j r = cnt j t.root + isNew t.nextId f j := by
      intro j
      rcases hcr0 j with h' | h'
      · exact h'
      · cases h'
    obtain ⟨sl, hsl, hslp, _⟩ := hsubl.root
    obtain ⟨sr, hsr, hsrp, _⟩ := hsubr.root
    have hnext := hrel.next
    have hne : l.id ≠ r.id := by rw [hlid]; have := hlt _ (cnt_self t.root); omega
    obtain ⟨h3, x2, hup, hroot3, hsize3, hgen3, hlen3, hr2, hp2, hg3⟩ :=
      up_root cmp sep.1 sep.2 (by rw [hfr.root, hrel.root, hlid]) hsl hsr hne
    have hself := hcnt t.root.id
    have hself' := cnt_self t.root
    have hl1 := cnt_self l
    have hr1 := cnt_self r
    have hcrl := hcr l.id
    have hcrr := hcr r.id
    have hrold : cnt r.id t.root = 0 := by
      rcases Nat.eq_zero_or_pos (cnt r.id t.root) with h0 | hp
      · exact h0
      · have := hlt _ hp; omega
    simp only [isNew] at hcrl hcrr
    have hlr : cnt l.id r = 0 ∧ cnt l.id l ≤ 1 ∧ cnt r.id l = 0 ∧ cnt r.id r ≤ 1 := by
      rw [hlid] at hcrl hl1 ⊢
      have : ¬ (t.nextId ≤ t.root.id ∧ t.root.id < f) := by have := hlt _ (cnt_self t.root); omega
      split at hcrl <;> split at hcrr <;> omega
    obtain ⟨hlr1, hlr2, hlr3, hlr4⟩ := hlr
    refine ⟨{ h3 with gen := bumpIf Gen.Tree.putBumpsGen h3.gen 1, size := bumpIf Gen.Tree.putBumpsSize h3.size 1 }, ?_, ?_⟩
    · rw [put_unfold cmp h k v (by rw [hrel.root]; exact hdesc _ (by omega)) hxs, if_neg (by simp)]
      have := hpl (h.nodes.length - ht)
      rw [show h.nodes.length - ht + ht + 1 = h.nodes.length + 1 by omega] at this
      rw [this, ← hlid, hup]
      rfl
    · refine ⟨?_, ?_, ?_, ?_, ?_, hidsOK⟩
      · show h3.root = f
        rw [hroot3, hlen]
      · show f + 1 = h3.nodes.length
        rw [hlen3, hlen]
      · show bumpIf Gen.Tree.putBumpsSize h3.size 1 = _
        rw [hsize3, hfr.size, hrel.size]; rfl
      · show bumpIf Gen.Tree.putBumpsGen h3.gen 1 = _
        rw [hgen3, hfr.gen, hrel.gen]
        simp only [bumpIf, bump]
        split <;> simp
      · show Sub h3.get none (Node.mk f [sep] [l, r])
        have hfl : f ≠ l.id := by have := get_lt hsl; omega
        have hfr' : f ≠ r.id := by omega
        refine sub_mk.mpr ⟨x2, ?_, hp2, hr2, ?_⟩
        · rw [hg3, hlen]; simp [hfl, hfr']
        · intro d hd
          simp only [List.mem_cons, List.not_mem_nil, or_false] at hd
          rcases hd with rfl | rfl
          · refine Sub.reparent hsubl hlr2 ?_ ?_
            · rw [hg3, hlen]; simp [hsl]
            · intro j hj hjl
              obtain ⟨y, hy⟩ := Option.isSome_iff_exists.mp (Sub.present _ hsubl j hj)
              have h1' : j ≠ h1.nodes.length := by have := get_lt hy; omega
              have h2' : j ≠ r.id := by intro e; subst e; omega
              rw [hg3]; simp [hjl, h1', h2']
          · refine Sub.reparent hsubr hlr4 ?_ ?_
            · rw [hg3, hlen]; simp [hsr, hne.symm]
            · intro j hj hjr
              obtain ⟨y, hy⟩ := Option.isSome_iff_exists.mp (Sub.present _ hsubr j hj)
              have h1' : j ≠ h1.nodes.length := by have := get_lt hy; omega
              have h2' : j ≠ l.id := by intro e; subst e; omega
              rw [hg3]; simp [hjr, h1', h2']

end Juniper.Proofs.TreeHeapLink
