import Juniper.Proofs.ParMapIterA
/-! The MapIterator LTS, part 2: values and order, deadlock freedom, completeness at the end. -/
set_option linter.unusedSimpArgs false
set_option linter.unusedVariables false

namespace Juniper.Proofs.ParMap.I
open Juniper.Gen Juniper.Facts Juniper.Model.ParMap Juniper.Model.ParMap.Iter Juniper.Proofs.ParMap
open Juniper.Proofs.ParMap.S (b2n icnt icnt_nil icnt_snoc icnt_cons icnt_pos_of_mem mem_of_icnt_pos icnt_eraseP_of_find mem_set_cases getElem?_snoc_of_some)

def valIdx : NextRes → Option Nat
  | .val k _ => some k
  | _ => none

/-- values: results are `f` of the source items, in order -/
structure InvV (cfg : Cfg) (s : St) : Prop where
  Vw : ∀ k v, WPc.sendCh k v ∈ s.ws → (k, v) ∈ s.fEnded
  Vh : ∀ k v, (k, v) ∈ s.heap → (k, v) ∈ s.fEnded
  Vres : ∀ k v, NextRes.val k v ∈ s.results → (k, v) ∈ s.fEnded
  RV : s.results.filterMap valIdx = List.range (cnt isVal s.results)
  HV : ∀ v, (s.disp = .acquire v ∨ s.disp = .checked v ∨ s.disp = .parked v ∨ s.disp = .sendIn v) → s.srcItems[s.dispI]? = some v
  BG : ∀ k a, (k, a) ∈ s.fBegun → s.srcItems[k]? = some a

theorem invV_init (cfg : Cfg) : InvV cfg (Iter.init cfg) := by
  refine ⟨?_, ?_, ?_, ?_, ?_, ?_⟩ <;> simp [Iter.init]

set_option maxHeartbeats 1600000 in
theorem invV_step {cfg : Cfg} (hs : cfg.code.Sound) {s s' : St} {l : Label} (ha : InvA cfg s) (hi : InvV cfg s)
    (h : Iter.step cfg s l = some s') : InvV cfg s' := by
  have ⟨iVw, iVh, iVres, iRV, iHV, iBG⟩ := hi
  cases l with
  | dSend w | fRet w v | wHandOff w | wExitIdle w =>
    iter_cases h =>
      (have hw := ‹_[_]? = some _›
       have hmem := List.mem_of_getElem? hw
       refine ⟨?_, ?_, ?_, ?_, ?_, ?_⟩
       · intro k v hm
         rcases mem_set_cases hm with h | h <;> simp at * <;> grind
       · intro k v hm; simp at * <;> grind
       · intro k v hm; simp at * <;> grind
       · first | exact iRV | (simp at * <;> grind)
       · intro v hm; simp at * <;> grind
       · intro k a hm; simp at * <;> grind)
  | srcRet r =>
    iter_cases h =>
      (have hS := ha.S
       refine ⟨iVw, iVh, iVres, iRV, ?_, ?_⟩
       · intro v hm; simp [b2n, dHolding] at * <;> grind
       · intro k a hm
         first
         | exact iBG k a hm
         | exact getElem?_snoc_of_some (iBG k a hm))
  | cYield =>
    iter_cases h =>
      (have hf := ‹List.find? _ s.heap = some _›
       have hcy := ‹canYield cfg s = true›
       have ⟨hk, hmem, hcount⟩ := icnt_eraseP_of_find hf
       simp [canYield, hs.nextReady] at hcy
       have hY := ha.Y
       have hki : (heapMin s.heap).getD 0 = s.i := by have := hcy.2; omega
       refine ⟨iVw, ?_, ?_, ?_, ?_, iBG⟩
       · intro k v hm; exact iVh k v (List.mem_of_mem_eraseP hm)
       · intro k v hm; simp at hm; rcases hm with hm | ⟨rfl, rfl⟩
         · exact iVres k v hm
         · exact iVh _ _ hmem
       · rw [List.filterMap_append, iRV]
         simp [List.filterMap_cons, valIdx, isVal, List.range_succ]
         omega
       · intro v hm
         apply iHV v
         cases hd : s.disp <;> simp_all <;> (split at hm <;> simp_all))
  | _ =>
    iter_cases h =>
      (first
       | exact ⟨iVw, iVh, iVres, iRV, iHV, iBG⟩
       | (refine ⟨iVw, iVh, ?_, ?_, ?_, iBG⟩
          · intro k v hm; first | exact iVres k v hm | (simp at hm; exact iVres k v hm)
          · first | exact iRV | (rw [List.filterMap_append, iRV]; simp [List.filterMap_cons, valIdx, isVal])
          · intro v hm; first | exact iHV v hm | (simp at hm; done) | (simp at hm; apply iHV; simp_all)))

theorem invV {cfg : Cfg} (hs : cfg.code.Sound) (hg : 1 ≤ cfg.gmp) {s : St} (h : Reach cfg s) : InvV cfg s := by
  induction h with
  | init => exact invV_init cfg
  | step hr hstep ih => exact invV_step hs (invA hs hg hr) ih hstep


theorem wHolds_le_wActive (k : Nat) (ws : List WPc) : cnt (wHolds k) ws ≤ cnt wActive ws := by
  apply cnt_mono; intro x hx; cases x <;> simp_all [wHolds, wActive]

theorem canYield_of {cfg : Cfg} (hs : cfg.code.Sound) {s : St} (hmem : ∃ v, (s.i, v) ∈ s.heap)
    (hge : ∀ k v, (k, v) ∈ s.heap → s.i ≤ k) : canYield cfg s = true := by
  obtain ⟨v, hv⟩ := hmem
  have hmin : heapMin s.heap = some s.i := by
    unfold heapMin
    apply List.min?_eq_some_iff.2
    refine ⟨List.mem_map.2 ⟨(s.i, v), hv, rfl⟩, ?_⟩
    intro b hb
    obtain ⟨⟨k, v'⟩, hkv, rfl⟩ := List.mem_map.1 hb
    exact hge k v' hkv
  have hlen : 0 < s.heap.length := List.length_pos_of_mem hv
  simp [canYield, hs.nextReady, hmin]; omega

/-- with nothing held by a worker, the reorder buffer holds exactly the indices `i … dispI-1`: if that
range is non-empty the consumer's guard holds -/
theorem canYield_of_gap {cfg : Cfg} (hs : cfg.code.Sound) {s : St} (hP : InvP cfg s)
    (hact : cnt wActive s.ws = 0) (hlt : s.i < s.dispI) : canYield cfg s = true := by
  have hPi := hP.P s.i
  have hh := wHolds_le_wActive s.i s.ws
  simp [b2n, hlt] at hPi
  have hmem : ∃ v, (s.i, v) ∈ s.heap := mem_of_icnt_pos (by omega)
  have hge : ∀ k v, (k, v) ∈ s.heap → s.i ≤ k := by
    intro k v hkv
    by_cases hk : k < s.i
    · have hPk := hP.P k
      have := icnt_pos_of_mem hkv
      have hkd : k < s.dispI := by omega
      simp [b2n, hk, hkd] at hPk
      omega
    · omega
  exact canYield_of hs hmem hge

theorem i_le_dispI {cfg : Cfg} {s : St} (hP : InvP cfg s) : s.i ≤ s.dispI := by
  by_cases hle : s.i ≤ s.dispI
  · exact hle
  · have hPi := hP.P s.dispI
    simp [b2n, (by omega : s.dispI < s.i)] at hPi

def En (cfg : Cfg) (s : St) (l : Label) : Prop := (Iter.step cfg s l).isSome = true

/-- some internal step is enabled, or a call of `f` / of the source iterator is in progress -/
def Progress (cfg : Cfg) (s : St) : Prop :=
  (∃ l, l.isEnv = false ∧ En cfg s l) ∨ 0 < fRunning s ∨ s.disp = .inNext

theorem en_cYield {cfg : Cfg} (hs : cfg.code.Sound) {s : St} (h : s.cons = .next) (hy : canYield cfg s = true) :
    En cfg s .cYield := by
  have hy0 := hy
  simp only [canYield, hs.nextReady, Bool.and_eq_true, decide_eq_true_eq] at hy
  have hne : s.heap ≠ [] := by intro h0; simp [h0] at hy
  obtain ⟨m, hm⟩ : ∃ m, heapMin s.heap = some m := by
    unfold heapMin
    cases hmin : (s.heap.map (·.1)).min? with
    | some m => exact ⟨m, rfl⟩
    | none => simp [List.min?_eq_none_iff] at hmin; exact absurd hmin hne
  have hmem : m ∈ s.heap.map (·.1) := by
    unfold heapMin at hm
    exact (List.min?_eq_some_iff.1 hm).1
  obtain ⟨⟨k, v⟩, hkv, hk⟩ := List.mem_map.1 hmem
  simp at hk; subst hk
  have hfind : (s.heap.find? (fun kv => kv.1 == (heapMin s.heap).getD 0)).isSome = true := by
    rw [List.find?_isSome]; exact ⟨(k, v), hkv, by simp [hm]⟩
  obtain ⟨⟨k', v'⟩, hf⟩ := Option.isSome_iff_exists.1 hfind
  simp [En, Iter.step, h, hy0, hf]

theorem idle_or_all_done {ws : List WPc} (h : cnt wActive ws = 0) :
    (∃ w : Nat, ws[w]? = some WPc.idle) ∨ cnt wDone ws = ws.length := by
  by_cases hi : 0 < cnt wIdle ws
  · obtain ⟨w, x, hw, hx⟩ := exists_index_of_cnt_pos hi
    cases x <;> simp [wIdle] at hx
    exact Or.inl ⟨w, hw⟩
  · right
    apply cnt_eq_length
    intro x hx
    have h1 := cnt_eq_zero h x hx
    have h2 := cnt_eq_zero (by omega : cnt wIdle ws = 0) x hx
    cases x <;> simp_all [wIdle, wDone, wActive]

/-- **Deadlock freedom of MapIterator**: whenever the consumer is inside `Next`, some internal step is
enabled, or a call of `f` or of the source iterator is in progress. -/
theorem progress {cfg : Cfg} (hs : cfg.code.Sound) (hg : 1 ≤ cfg.gmp) {s : St} (h : Reach cfg s)
    (hcons : s.cons = .next) : Progress cfg s := by
  have hA := invA hs hg h
  have hP := invP hs h
  have ⟨hnwc, hnw⟩ := numWorkers_cast hs hg
  have hbuf := buf_pos hs hg
  by_cases hy : canYield cfg s = true
  · exact Or.inl ⟨.cYield, rfl, en_cYield hs hcons hy⟩
  have hy' : canYield cfg s = false := by simpa using hy
  cases hcl : s.chClosed with
  | true => exact Or.inl ⟨.cRecvClosed, rfl, by simp [En, Iter.step, hcons, hy', hcl, hs.nextClosed]⟩
  | false =>
  by_cases hact : 0 < cnt wActive s.ws
  · obtain ⟨w, pc, hw, hpc⟩ := exists_index_of_cnt_pos hact
    cases pc with
    | inF k =>
      refine Or.inr (Or.inl ?_)
      unfold fRunning
      exact List.countP_pos_iff.2 ⟨WPc.inF k, List.mem_of_getElem? hw, rfl⟩
    | sendCh k v => exact Or.inl ⟨.wHandOff w, rfl, by simp [En, Iter.step, hcons, hw, hy', hcl]⟩
    | idle => simp [wActive] at hpc
    | done => simp [wActive] at hpc
  have hact0 : cnt wActive s.ws = 0 := by omega
  have hle := i_le_dispI hP
  cases hd : s.disp with
  | pull => exact Or.inl ⟨.dPull, rfl, by simp [En, Iter.step, hd]⟩
  | inNext => exact Or.inr (Or.inr hd)
  | acquire v =>
    refine Or.inl ⟨.dAcquire, rfl, ?_⟩
    simp only [En, Iter.step, hd, hs.waits, hs.sectionsAtomic]
    split <;> simp
  | checked v =>
    -- the lock sections are atomic: there is no state between the dispatcher's check and its parking
    exfalso
    have := hA.NC
    simp [hd, dChecked] at this
  | parked v =>
    exfalso
    have hpk := hA.PK (by simp [hd, dParked])
    have hT := hA.T
    simp [hd, dSendIn, b2n] at hT
    have := canYield_of_gap hs hP hact0 (by omega)
    simp [hy'] at this
  | sendIn v =>
    rcases idle_or_all_done hact0 with ⟨w, hw⟩ | hall
    · exact Or.inl ⟨.dSend w, rfl, by simp [En, Iter.step, hd, hw]⟩
    · exfalso
      have h3 := hA.len
      have := hA.WD (by omega)
      have h4 := hA.IC
      simp [hd, dDone, this] at h4
  | done =>
    have hin : s.inClosed = true := by have := hA.IC; simp [hd, dDone] at this; exact this
    rcases idle_or_all_done hact0 with ⟨w, hw⟩ | hall
    · exact Or.inl ⟨.wExitIdle w, rfl, by simp [En, Iter.step, hw, hin]⟩
    · exfalso
      have h3 := hA.len
      have : s.nDone = numWorkers cfg := by rw [hA.ND]; omega
      have := hA.CC.2 this
      simp [hcl] at this


/-- once the end has been reported, everything taken from the source has been yielded -/
structure InvEnd (cfg : Cfg) (s : St) : Prop where
  END : 0 < cnt isEnd s.results →
        s.i = s.dispI ∧ s.srcItems.length = s.dispI ∧ s.srcEnded = true ∧ dDone s.disp = true ∧
        cnt wActive s.ws = 0

theorem invEnd_init (cfg : Cfg) : InvEnd cfg (Iter.init cfg) := ⟨by simp [Iter.init, isEnd]⟩

set_option maxHeartbeats 1600000 in
theorem invEnd_step {cfg : Cfg} (hs : cfg.code.Sound) (hg : 1 ≤ cfg.gmp) {s s' : St} {l : Label} (hA : InvA cfg s)
    (hP : InvP cfg s) (hi : InvEnd cfg s) (h : Iter.step cfg s l = some s') : InvEnd cfg s' := by
  have iE := hi.END
  have ⟨hnwc, hnw⟩ := numWorkers_cast hs hg
  cases l with
  | cRecvClosed =>
    iter_cases h =>
      (refine ⟨fun _ => ?_⟩
       have hcond := ‹(!canYield cfg s && s.chClosed && cfg.code.nextClosed false) = true›
       simp at hcond
       obtain ⟨⟨hy, hcl⟩, _⟩ := hcond
       have hnd := hA.CC.1 hcl
       have hlen := hA.len
       have hall : cnt wDone s.ws = s.ws.length := by rw [← hA.ND]; omega
       have hin := hA.WD (by omega)
       have hdd : dDone s.disp = true := by rw [← hA.IC]; exact hin
       have hact : cnt wActive s.ws = 0 := by
         have h1 := cnt_add_cnt_not wDone s.ws
         have h2 : cnt wActive s.ws ≤ cnt (fun x => !wDone x) s.ws := by
           apply cnt_mono; intro x hx; cases x <;> simp_all [wActive, wDone]
         omega
       have hS := hA.S
       have hhold : dHolding s.disp = false := by cases hd : s.disp <;> simp_all [dDone, dHolding]
       have hle := i_le_dispI hP
       have hi' : s.i = s.dispI := by
         by_cases hlt : s.i < s.dispI
         · have := canYield_of_gap hs hP hact hlt; simp [hy] at this
         · omega
       exact ⟨hi', by simp [hhold, b2n] at hS; exact hS, by rw [hA.SE]; exact hdd, hdd, hact⟩)
  | dSend w | fRet w v | wHandOff w | wExitIdle w =>
    iter_cases h =>
      (have hw := ‹_[_]? = some _›
       have g := cnt_ge wActive hw
       refine ⟨?_⟩
       simp [cnt_set hw, wActive, dDone] at * <;> grind [dDone])
  | cYield =>
    iter_cases h =>
      (refine ⟨?_⟩
       intro hpos
       simp [isEnd] at hpos
       have ⟨h1, h2, h3, h4, h5⟩ := iE hpos
       exfalso
       have hf := ‹List.find? _ s.heap = some _›
       have hcy := ‹canYield cfg s = true›
       have ⟨hk, hmem, hcount⟩ := icnt_eraseP_of_find hf
       simp [canYield, hs.nextReady] at hcy
       have hki : (heapMin s.heap).getD 0 = s.i := by have := hcy.2; omega
       have hp := hP.P s.i
       have hm := icnt_pos_of_mem hmem
       rw [hk, hki] at hm
       have hnl : ¬ s.i < s.dispI := by omega
       simp [b2n, hnl] at hp
       omega)
  | _ =>
    iter_cases h =>
      (refine ⟨?_⟩
       first
       | exact iE
       | (simp [isEnd, dDone] at * <;> grind [dDone]))

theorem invEnd {cfg : Cfg} (hs : cfg.code.Sound) (hg : 1 ≤ cfg.gmp) {s : St} (h : Reach cfg s) : InvEnd cfg s := by
  induction h with
  | init => exact invEnd_init cfg
  | step hr hstep ih => exact invEnd_step hs hg (invA hs hg hr) (invP hs hr) ih hstep

end Juniper.Proofs.ParMap.I
