import Juniper.Proofs.Agree
/-!
# `stream.WithPeek` under any interleaving of `Peek` and `Next`, any per-call contexts (C07 laziness, C08)

Over a fault-free scripted source. The abstract state is `(j, has)`: `j` items consumed by `Next`, an
item buffered or not. A call with an expired context and nothing buffered changes nothing and answers
the context error; with an item buffered it is served from the buffer (as the Go code does).
-/
namespace Juniper.Proofs.StreamDen
open Juniper.Model Juniper.Model.Stream Juniper.Gen.Comb
open Juniper.Proofs.IterDen (PeekOp peekTrack peekNexts peekTrack_closed)
variable {α : Type}

inductive SPeekOp where
  | next (c : Bool)
  | peek (c : Bool)
  deriving DecidableEq, Repr

def speekOp {σ : Type} (m : SM σ α) : SPeekOp → Stream.PeekSt σ α → SStep α × Stream.PeekSt σ α
  | .next c, p => Stream.peekNext m p c
  | .peek c, p => Stream.peekPeek m p c

def speekRun {σ : Type} (m : SM σ α) : List SPeekOp → Stream.PeekSt σ α → List (SStep α) × Stream.PeekSt σ α
  | [], p => ([], p)
  | o :: ops, p =>
    let (r, p') := speekOp m o p
    let (rs, p'') := speekRun m ops p'
    (r :: rs, p'')

def SPeekOp.ctx : SPeekOp → Bool
  | .next c => c
  | .peek c => c

/-- one call on the abstract state -/
def speekStep (len : Nat) : SPeekOp → Nat × Bool → Nat × Bool
  | .next c, (j, has) => if has || (c && decide (j < len)) then (j + 1, false) else (j, false)
  | .peek c, (j, has) => (j, has || (c && decide (j < len)))

def speekTrack (len : Nat) : List SPeekOp → Nat × Bool → Nat × Bool
  | [], x => x
  | o :: ops, x => speekTrack len ops (speekStep len o x)

/-- the answer of one call in the abstract state -/
def speekAnswer (l : List α) (o : SPeekOp) (x : Nat × Bool) : SStep α :=
  if x.2 || o.ctx then (match l[x.1]? with | some a => .item a | none => .end_) else .err .ctx

def speekAnswers (l : List α) : List SPeekOp → Nat × Bool → List (SStep α)
  | [], _ => []
  | o :: ops, x => speekAnswer l o x :: speekAnswers l ops (speekStep l.length o x)

def SPeekRel (l : List α) (j : Nat) (has : Bool) (st : Stream.PeekSt (Stream.Src α) α) : Prop :=
  j ≤ l.length ∧ (has = true → j < l.length) ∧
  st.inner.script = (l.drop (j + has.toNat)).map Ev.item ∧ st.inner.pulled = j + has.toNat ∧
  st.inner.closes = 0 ∧ st.curr = if has then l[j]? else none

theorem ssrc_step_cons (a : α) (r : List (Ev α)) (c p af : Nat) :
    (Stream.src (α := α)).step ⟨.item a :: r, c, p, 0, af⟩ true = (.item a, ⟨r, c + 1, p + 1, 0, af⟩) := by
  simp [Stream.src, Stream.srcStep]

theorem ssrc_step_nil (c p af : Nat) :
    (Stream.src (α := α)).step ⟨[], c, p, 0, af⟩ true = (.end_, ⟨[], c + 1, p, 0, af⟩) := by
  simp [Stream.src, Stream.srcStep]

theorem ssrc_step_dead (sc : List (Ev α)) (c p af : Nat) :
    (Stream.src (α := α)).step ⟨sc, c, p, 0, af⟩ false = (.err .ctx, ⟨sc, c, p, 0, af⟩) := by
  simp [Stream.src, Stream.srcStep]

theorem speekRun_src (l : List α) (ops : List SPeekOp) : ∀ (j : Nat) (has : Bool) (st : Stream.PeekSt (Stream.Src α) α),
    SPeekRel l j has st →
    (speekRun Stream.src ops st).1 = speekAnswers l ops (j, has) ∧
      SPeekRel l (speekTrack l.length ops (j, has)).1 (speekTrack l.length ops (j, has)).2 (speekRun Stream.src ops st).2 := by
  have _tie := Skeleton.Tie.stPeek
  induction ops with
  | nil => intro j has st h; exact ⟨rfl, h⟩
  | cons o ops ih =>
    intro j has st h
    obtain ⟨⟨sc, calls, pulled, cl, af⟩, curr⟩ := st
    obtain ⟨hj, hh, hsc, hp, hcl, hc⟩ := h
    simp only at hsc hp hcl hc
    subst hcl
    -- it suffices to show one call
    suffices hone : ∃ st', speekOp Stream.src o ⟨⟨sc, calls, pulled, 0, af⟩, curr⟩ = (speekAnswer l o (j, has), st') ∧
        SPeekRel l (speekStep l.length o (j, has)).1 (speekStep l.length o (j, has)).2 st' by
      obtain ⟨st', h1, h2⟩ := hone
      have := ih _ _ st' h2
      simp only [speekRun, h1, speekAnswers, speekTrack]
      exact ⟨by rw [this.1], this.2⟩
    cases has with
    | true =>
      have hjl : j < l.length := hh rfl
      have hcur : curr = some l[j] := by rw [hc]; simp [hjl]
      subst hcur
      cases o with
      | next c =>
        refine ⟨⟨⟨sc, calls, pulled, 0, af⟩, none⟩, ?_, ?_⟩
        · simp [speekOp, Stream.peekNext, stPeekNextHas, stPeekNextClearsHas, speekAnswer, hjl]
        · exact ⟨by simp [speekStep]; omega, by simp [speekStep], by simpa [speekStep] using hsc,
            by simpa [speekStep] using hp, rfl, by simp [speekStep]⟩
      | peek c =>
        refine ⟨⟨⟨sc, calls, pulled, 0, af⟩, some l[j]⟩, ?_, ?_⟩
        · simp [speekOp, Stream.peekPeek, stPeekPulls, speekAnswer, hjl]
        · exact ⟨by simpa [speekStep] using hj, by simp [speekStep, hjl], by simpa [speekStep] using hsc,
            by simpa [speekStep] using hp, rfl, by simp [speekStep, hjl]⟩
    | false =>
      simp only [Bool.toNat_false, Nat.add_zero, Bool.false_eq_true, if_false] at hsc hp hc
      subst hc
      have hp' := hp.symm
      subst hp'
      have hctx : o.ctx = false → ∃ st', speekOp Stream.src o ⟨⟨sc, calls, j, 0, af⟩, none⟩ = (speekAnswer l o (j, false), st') ∧
          SPeekRel l (speekStep l.length o (j, false)).1 (speekStep l.length o (j, false)).2 st' := by
        intro hdead
        cases o with
        | next c =>
          simp only [SPeekOp.ctx] at hdead
          subst hdead
          refine ⟨⟨⟨sc, calls, j, 0, af⟩, none⟩, ?_, ?_⟩
          · simp [speekOp, Stream.peekNext, stPeekNextHas, ssrc_step_dead, speekAnswer, SPeekOp.ctx]
          · exact ⟨by simpa [speekStep] using hj, by simp [speekStep], by simpa [speekStep] using hsc, by simp [speekStep], rfl,
              by simp [speekStep]⟩
        | peek c =>
          simp only [SPeekOp.ctx] at hdead
          subst hdead
          refine ⟨⟨⟨sc, calls, j, 0, af⟩, none⟩, ?_, ?_⟩
          · simp [speekOp, Stream.peekPeek, stPeekPulls, ssrc_step_dead, speekAnswer, SPeekOp.ctx]
          · exact ⟨by simpa [speekStep] using hj, by simp [speekStep], by simpa [speekStep] using hsc, by simp [speekStep], rfl,
              by simp [speekStep]⟩
      by_cases hlive : o.ctx = true
      · by_cases hjl : j < l.length
        · have hr : sc = .item l[j] :: (l.drop (j + 1)).map Ev.item := by
            rw [hsc, List.drop_eq_getElem_cons hjl]; rfl
          subst hr
          cases o with
          | next c =>
            simp only [SPeekOp.ctx] at hlive
            subst hlive
            refine ⟨⟨⟨(l.drop (j + 1)).map Ev.item, calls + 1, j + 1, 0, af⟩, none⟩, ?_, ?_⟩
            · simp only [speekOp, Stream.peekNext, stPeekNextHas, ssrc_step_cons]
              simp [speekAnswer, SPeekOp.ctx, hjl]
            · exact ⟨by simp [speekStep, hjl]; omega, by simp [speekStep, hjl], by simp [speekStep, hjl],
                by simp [speekStep, hjl], rfl, by simp [speekStep, hjl]⟩
          | peek c =>
            simp only [SPeekOp.ctx] at hlive
            subst hlive
            refine ⟨⟨⟨(l.drop (j + 1)).map Ev.item, calls + 1, j + 1, 0, af⟩, some l[j]⟩, ?_, ?_⟩
            · simp only [speekOp, Stream.peekPeek, stPeekPulls, ssrc_step_cons]
              simp [speekAnswer, SPeekOp.ctx, hjl, stPeekSetsHas]
            · exact ⟨by simpa [speekStep] using hj, by simp [speekStep, hjl], by simp [speekStep, hjl],
                by simp [speekStep, hjl], rfl, by simp [speekStep, hjl]⟩
        · have hr : sc = [] := by rw [hsc, List.drop_of_length_le (by omega)]; rfl
          subst hr
          have hn : l[j]? = none := List.getElem?_eq_none (by omega)
          cases o with
          | next c =>
            simp only [SPeekOp.ctx] at hlive
            subst hlive
            refine ⟨⟨⟨[], calls + 1, j, 0, af⟩, none⟩, ?_, ?_⟩
            · simp only [speekOp, Stream.peekNext, stPeekNextHas, ssrc_step_nil]
              simp [speekAnswer, SPeekOp.ctx, hn]
            · exact ⟨by simpa [speekStep, hjl] using hj, by simp [speekStep, hjl], by simpa [speekStep, hjl] using hsc,
                by simp [speekStep, hjl], rfl, by simp [speekStep, hjl]⟩
          | peek c =>
            simp only [SPeekOp.ctx] at hlive
            subst hlive
            refine ⟨⟨⟨[], calls + 1, j, 0, af⟩, none⟩, ?_, ?_⟩
            · simp only [speekOp, Stream.peekPeek, stPeekPulls, ssrc_step_nil]
              simp [speekAnswer, SPeekOp.ctx, hn]
            · exact ⟨by simpa [speekStep, hjl] using hj, by simp [speekStep, hjl], by simpa [speekStep, hjl] using hsc,
                by simp [speekStep, hjl], rfl, by simp [speekStep, hjl]⟩
      · exact hctx (by simpa using hlive)

/-- with live contexts the abstract state evolves as for the iterator's `peekable` -/
def liveOp : PeekOp → SPeekOp
  | .next => .next true
  | .peek => .peek true

theorem speekTrack_live (len : Nat) (ops : List PeekOp) : ∀ (j : Nat) (has : Bool), (has = true → j < len) →
    speekTrack len (ops.map liveOp) (j, has) = peekTrack len ops (j, has) := by
  induction ops with
  | nil => intro j has _; rfl
  | cons o ops ih =>
    intro j has hh
    cases o with
    | next =>
      simp only [List.map_cons, liveOp, speekTrack, speekStep, peekTrack, Bool.true_and]
      by_cases hjl : j < len
      · simp only [hjl, decide_true, Bool.or_true, if_true]
        exact ih (j + 1) false (by simp)
      · have hf : has = false := by cases has; rfl; exact absurd (hh rfl) hjl
        subst hf
        simp only [hjl, decide_false, Bool.or_false, Bool.false_eq_true, if_false]
        exact ih j false (by simp)
    | peek =>
      simp only [List.map_cons, liveOp, speekTrack, speekStep, peekTrack, Bool.true_and]
      by_cases hjl : j < len
      · simp only [hjl, decide_true, Bool.or_true]
        exact ih j true (fun _ => hjl)
      · have hf : has = false := by cases has; rfl; exact absurd (hh rfl) hjl
        subst hf
        simp only [hjl, decide_false, Bool.or_false]
        exact ih j false (by simp)

/-- **`stream.WithPeek`, any interleaving, any contexts** (fault-free source): the answers are those of
the abstract machine — every call answers the item after those consumed by the earlier `Next`s, or the
context error when its context has expired and nothing is buffered — and the number of items pulled is
`j + [an item is buffered]`. -/
theorem s_peek_interleave' (l : List α) (ops : List SPeekOp) :
    (speekRun Stream.src ops ⟨ofList l, none⟩).1 = speekAnswers l ops (0, false) ∧
    (speekRun Stream.src ops ⟨ofList l, none⟩).2.inner.pulled =
      (speekTrack l.length ops (0, false)).1 + (speekTrack l.length ops (0, false)).2.toNat := by
  have h := speekRun_src l ops 0 false ⟨ofList l, none⟩
    ⟨by omega, by simp, by simp [ofList, Stream.Src.of], by simp [ofList, Stream.Src.of], by simp [ofList, Stream.Src.of], by simp⟩
  exact ⟨h.1, h.2.2.2.2.1⟩

/-- … with live contexts: `min len (#Next + [the last call was a Peek])`, exactly as for the iterator. -/
theorem s_peek_interleave_live' (l : List α) (ops : List PeekOp) :
    (speekRun Stream.src (ops.map liveOp) ⟨ofList l, none⟩).2.inner.pulled =
      min l.length (peekNexts ops + if ops.getLast? = some .peek then 1 else 0) := by
  rw [(s_peek_interleave' l (ops.map liveOp)).2, speekTrack_live l.length ops 0 false (by simp),
    peekTrack_closed l.length ops 0 false (by omega)]
  simp only [Nat.zero_add]
  cases ops with
  | nil => simp [peekNexts]
  | cons o ops =>
    simp only [reduceCtorEq, if_false]
    by_cases hl : (o :: ops).getLast? = some PeekOp.peek
    · by_cases hn : peekNexts (o :: ops) < l.length
      · simp [hl, hn]; omega
      · simp [hl, hn]; omega
    · simp [hl]; exact Nat.min_comm _ _

end Juniper.Proofs.StreamDen
