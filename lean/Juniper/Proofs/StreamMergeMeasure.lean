import Juniper.Proofs.StreamMergeProgress
/-! Progress measure of the stream.Merge LTS valid in **all** states (`Proofs/StreamMergeClose.nu` is
used only after `Close` was requested, `Proofs/StreamMergeProgress.nu2` only once every input has ended).

`nuU s = Σ rank (goroutine) + cRankU (consumer)` is strictly decreased by every step except the two
labels by which the consumer starts a call (`cCall`, `cClose`): by all goroutine steps (CAS, winner's
statements, `Send` outcomes, deferred calls), by the consumer's `select` arms and the statements of
`Close`, *and* by every return of an input's `Next` (item, end, error, context error). A goroutine goes
round its loop only by handing an item to a consumer that is inside `Next` (`sendOk`), which ends that
`Next`. In reachable states `nuU ≤ 10·k + 6`. -/
set_option linter.unusedSectionVars false
set_option linter.unusedSimpArgs false
set_option linter.unusedVariables false
namespace Juniper.Proofs.StreamMerge
open Juniper.Model.StreamMerge
variable {V : Type}

def cRankU : CPc → Nat
  | .closing rest => rest.length
  | .inNext live => if live then 6 else 5
  | .idle => 0

def nuU (s : St V) : Nat := sumBy (fun g => rank g.pc) s.gs + cRankU s.cpc

def isCall : Label V → Bool
  | .cCall _ => true
  | .cClose => true
  | _ => false

theorem nuU_set {s : St V} {i : Nat} {g g' : G V} (hg : s.gs[i]? = some g) (c : CPc) :
    sumBy (fun g => rank g.pc) (s.gs.set i g') + cRankU c + rank g.pc =
      sumBy (fun g => rank g.pc) s.gs + cRankU c + rank g'.pc := by
  have := sumBy_set (fun g => rank g.pc) s.gs i g' g hg
  omega

/-- **Every step other than a new consumer call strictly decreases `nuU`.** -/
theorem nuU_decreases {s s' : St V} {l : Label V} (ho : s.origin = .plainCancel) (h : step s l = some s')
    (hl : isCall l = false) : nuU s' < nuU s := by
  cases l with
  | ctxEnds => exact (no_ctxEnds ho h).elim
  | cCall live => simp [isCall] at hl
  | cClose => simp [isCall] at hl
  | inItem i v =>
    obtain ⟨g, hg, hp, rfl⟩ := step_inItem h
    have := nuU_set (g' := { g with pc := .send v, items := g.items ++ [v] }) hg s.cpc
    simp only [nuU, hp, rank] at *; omega
  | inEnd i =>
    obtain ⟨g, hg, hp, rfl⟩ := step_inEnd h
    have := nuU_set (g' := { g with pc := .exiting [.markDone, .closeInput, .wgDone], why := some .ended }) hg s.cpc
    simp [nuU, hp, rank, wE] at *; omega
  | inErr i e =>
    obtain ⟨g, hg, hp, rfl⟩ := step_inErr h
    have := nuU_set (g' := { g with pc := .gotErr (.inj e) }) hg s.cpc
    simp only [nuU, hp, rank] at *; omega
  | inCtx i =>
    obtain ⟨g, hg, hp, _, rfl⟩ := step_inCtx h
    have := nuU_set (g' := { g with pc := .gotErr .ctx }) hg s.cpc
    simp only [nuU, hp, rank] at *; omega
  | cas i =>
    obtain ⟨g, e, hg, hp, hc⟩ := step_cas h
    rcases hc with ⟨_, rfl⟩ | ⟨_, rfl⟩
    · have := nuU_set (g' := { g with pc := .won e [.cancel, .closeErr] }) hg s.cpc
      simp [nuU, hp, rank] at *; omega
    · have := nuU_set (g' := { g with pc := .exiting [.markDone, .closeInput, .wgDone], why := some .lostCas }) hg s.cpc
      simp [nuU, hp, rank, wE] at *; omega
  | win i =>
    obtain ⟨g, e, hg, hc⟩ := step_win h
    rcases hc with ⟨rest, hp, rfl⟩ | ⟨rest, hp, rfl⟩ | ⟨hp, rfl⟩
    · have := nuU_set (g' := { g with pc := .won e rest }) hg s.cpc
      simp [nuU, hp, rank] at *; omega
    · have := nuU_set (g' := { g with pc := .won e rest }) hg s.cpc
      simp [nuU, hp, rank] at *; omega
    · have := nuU_set (g' := { g with pc := .exiting [.markDone, .closeInput, .wgDone], why := some .wonCas }) hg s.cpc
      simp [nuU, hp, rank, wE] at *; omega
  | sendOk i =>
    obtain ⟨g, v, live, hg, hp, hc, rfl⟩ := step_sendOk h
    have := nuU_set (g' := again g) hg CPc.idle
    cases live <;> (simp [nuU, hp, hc, rank, again, cRankU] at *; omega)
  | sendFail i =>
    obtain ⟨g, v, hg, hp, _, rfl⟩ := step_sendFail h
    have := nuU_set (g' := { g with pc := .exiting [.markDone, .closeInput, .wgDone],
                                    dropped := g.dropped ++ [v], why := some .sendFailed }) hg s.cpc
    simp [nuU, hp, rank, wE] at *; omega
  | exitStep i =>
    obtain ⟨g, hg, hc⟩ := step_exitStep h
    rcases hc with ⟨rest, hp, rfl⟩ | ⟨d, rest, hp, _, _, rfl⟩ | ⟨d, rest, hp, _, rfl⟩ | ⟨rest, hp, rfl⟩ |
      ⟨rest, hp, rfl⟩ | ⟨hp, rfl⟩
    · have := nuU_set (g' := { g with pc := .exiting (.checkLast (s.nDone + 1) :: rest) }) hg s.cpc
      simp [nuU, hp, rank, wE] at *; omega
    · have := nuU_set (g' := { g with pc := .exiting rest }) hg s.cpc
      simp [nuU, hp, rank, wE] at *; omega
    · have := nuU_set (g' := { g with pc := .exiting rest }) hg s.cpc
      simp [nuU, hp, rank, wE] at *; omega
    · have := nuU_set (g' := { g with pc := .exiting rest, closes := g.closes + 1 }) hg s.cpc
      simp [nuU, hp, rank, wE] at *; omega
    · have := nuU_set (g' := { g with pc := .exiting rest }) hg s.cpc
      simp [nuU, hp, rank, wE] at *; omega
    · have := nuU_set (g' := { g with pc := .finished }) hg s.cpc
      simp [nuU, hp, rank, wE] at *; omega
  | cEnd =>
    obtain ⟨live, hc, _, rfl⟩ := step_cEnd h
    cases live <;> simp [nuU, hc, cRankU]
  | cCtx =>
    obtain ⟨hc, rfl⟩ := step_cCtx h
    simp [nuU, hc, cRankU]
  | cExpire =>
    obtain ⟨hc, rfl⟩ := step_cExpire h
    simp [nuU, hc, cRankU]
  | cCloseStep =>
    rcases step_cCloseStep h with ⟨rest, hc, rfl⟩ | ⟨rest, hc, rfl⟩ | ⟨rest, hc, _, rfl⟩ <;>
      simp [nuU, hc, cRankU]

/-! ## runs -/

theorem run_nuU {ls : List (Label V)} : ∀ {s s' : St V}, s.origin = .plainCancel → run s ls = some s' →
    (∀ l ∈ ls, isCall l = false) → ls.length + nuU s' ≤ nuU s := by
  induction ls with
  | nil => intro s s' _ h _; simp [run] at h; subst h; simp
  | cons l ls ih =>
    intro s s' ho h hl
    simp only [run] at h
    split at h
    · next s1 hs1 =>
      have h1 := nuU_decreases ho hs1 (hl l (by simp))
      have h2 := ih ((step_origin hs1).trans ho) h (fun x hx => hl x (by simp [hx]))
      simp only [List.length_cons]; omega
    · simp at h

theorem rank_le {g : G V} (h : LocalOK g) : rank g.pc ≤ 10 := by
  have hs := h.shape
  cases hp : g.pc with
  | next => simp [rank]
  | gotErr e => simp [rank]
  | send v => simp [rank]
  | finished => simp [rank]
  | won e r =>
    rw [hp] at hs; simp only [Shape] at hs
    rcases hs with rfl | rfl | rfl <;> simp [rank]
  | exiting r =>
    rw [hp] at hs; simp only [Shape, E0] at hs
    rcases hs with rfl | ⟨d, rfl⟩ | rfl | rfl | rfl <;> simp [rank, wE]

theorem sumBy_le {α : Type} (f : α → Nat) (c : Nat) : ∀ (l : List α), (∀ x ∈ l, f x ≤ c) → sumBy f l ≤ c * l.length
  | [], _ => by simp [sumBy]
  | a :: l, h => by
    have h1 := h a (by simp)
    have h2 := sumBy_le f c l (fun x hx => h x (by simp [hx]))
    simp only [sumBy, List.map_cons, List.sum_cons, List.length_cons] at *
    rw [Nat.mul_succ]; omega

theorem nuU_le {k : Nat} {s : St V} (ha : InvA k s) (hd : InvD s) : nuU s ≤ 10 * k + 6 := by
  have h1 := sumBy_le (fun g : G V => rank g.pc) 10 s.gs (fun g hg => rank_le (ha.loc g hg))
  rw [ha.len] at h1
  have h2 : cRankU s.cpc ≤ 6 := by
    cases hc : s.cpc with
    | idle => simp [cRankU]
    | inNext live => cases live <;> simp [cRankU]
    | closing rest =>
      rcases hd.shape rest hc with rfl | ⟨rfl, _⟩ | ⟨rfl, _⟩ | ⟨rfl, _⟩ <;> simp [cRankU]
  unfold nuU; omega

/-! ## quiescence: a pending `Next` waits for an input, never for the library -/

/-- no step that needs no further input is enabled -/
def QuiescentM (s : St V) : Prop := ∀ l, l ∈ internalLabels s → step s l = none

/-- a goroutine that is neither finished nor inside a (not cancelled) `in[i].Next` can take a step while
the consumer is inside `Next` -/
theorem goroutine_can_move_next {s : St V} {i : Nat} {g : G V} {live : Bool} (hik : i < s.k) (hg : s.gs[i]? = some g)
    (hloc : LocalOK g) (hc : s.cpc = .inNext live) (hnf : g.pc ≠ .finished)
    (hnn : g.pc = .next → s.cancelled = true) :
    ∃ l, l ∈ internalLabels s ∧ ∃ s', step s l = some s' := by
  have hs := hloc.shape
  have ex : ∀ l, (step s l).isSome = true → ∃ s', step s l = some s' := fun l h =>
    Option.isSome_iff_exists.mp h
  cases hp : g.pc with
  | next =>
    have hcan := hnn hp
    exact ⟨.inCtx i, mem_internal_of_lt hik .inCtx (by simp), ex _ (by simp [step, hg, hp, hcan, nextUsesCtx_eq])⟩
  | gotErr e =>
    refine ⟨.cas i, mem_internal_of_lt hik .cas (by simp), ex _ ?_⟩
    cases hco : s.closeOnce <;> simp [step, hg, hp, hco, casGuards_eq]
  | won e r =>
    refine ⟨.win i, mem_internal_of_lt hik .win (by simp), ex _ ?_⟩
    rw [hp] at hs
    simp only [Shape] at hs
    rcases hs with rfl | rfl | rfl <;> simp [step, hg, hp, errReturns_eq]
  | send v =>
    exact ⟨.sendOk i, mem_internal_of_lt hik .sendOk (by simp), ex _
      (by simp [step, hg, hp, hc, sendArmC_eq, nextArmC_eq, consumerNextIsPipeNext_eq, pipeBuf_eq])⟩
  | exiting r =>
    refine ⟨.exitStep i, mem_internal_of_lt hik .exitStep (by simp), ex _ ?_⟩
    rw [hp] at hs
    simp only [Shape, E0] at hs
    rcases hs with rfl | ⟨d, rfl⟩ | rfl | rfl | rfl
    · simp [step, hg, hp]
    · simp only [step, hg, hp]
      split <;> split <;> simp
    · simp [step, hg, hp]
    · simp [step, hg, hp]
    · simp [step, hg, hp]
  | finished => exact absurd hp hnf

/-- once every goroutine has finished the sender is closed -/
theorem sender_closed_of_all_finished {k : Nat} {s : St V} (hc : InvC k s) (hl : InvL k s)
    (hall : ∀ g, g ∈ s.gs → g.pc = .finished) : 0 < s.senderCloses := by
  rcases Nat.eq_zero_or_pos k with hk | hk
  · have := (hc.z hk).1; omega
  · cases hco : s.closeOnce with
    | false =>
      apply hl.l hco hk
      have : ∀ g ∈ s.gs, mayNilInd k g = 0 := by
        intro g hg; simp [mayNilInd, hall g hg, marked, pendingD]
      have hle := sumBy_le (mayNilInd k) 0 s.gs (fun g hg => by rw [this g hg]; exact Nat.le_refl _)
      omega
    | true =>
      obtain ⟨g, hg, hw⟩ := hl.w5 hco
      apply hl.r6 g hg
      rcases hw with ⟨e, r, hp⟩ | hw
      · rw [hall g hg] at hp; cases hp
      · exact Or.inr hw

/-- **A pending `Next` of the merged stream never waits on the library.** In a state satisfying the
invariants in which the consumer is inside `Next` and no step needing no further input is enabled, some
input's `Next` is in progress and its context has not been cancelled: the environment owes its return. -/
theorem quiescent_next_waits_for_input {k : Nat} {s : St V} {live : Bool} (ha : InvA k s) (hc : InvC k s)
    (hl : InvL k s) (hcp : s.cpc = .inNext live) (hq : QuiescentM s) :
    ∃ (i : Nat) (g : G V), s.gs[i]? = some g ∧ g.pc = GPc.next ∧ s.cancelled = false := by
  have hlen : s.gs.length = s.k := by rw [ha.len, ha.hk]
  by_cases hall : ∀ g, g ∈ s.gs → g.pc = .finished
  · exfalso
    have hpos := sender_closed_of_all_finished hc hl hall
    obtain ⟨s', hs', _⟩ := cEnd_enabled hcp hpos
    have := hq .cEnd (by simp [internalLabels])
    rw [this] at hs'; cases hs'
  · obtain ⟨g, hgn⟩ := Classical.not_forall.1 hall
    obtain ⟨hg, hnf⟩ := Classical.not_imp.1 hgn
    obtain ⟨i, hi, hgi'⟩ := List.getElem_of_mem hg
    have hg' : s.gs[i]? = some g := by rw [List.getElem?_eq_getElem hi, hgi']
    by_cases hnn : g.pc = .next → s.cancelled = true
    · exfalso
      obtain ⟨l, hl', s', hs'⟩ := goroutine_can_move_next (by rw [← hlen]; exact hi) hg' (ha.loc g hg) hcp hnf hnn
      rw [hq l hl'] at hs'; cases hs'
    · obtain ⟨hp, hcan⟩ := Classical.not_imp.1 hnn
      exact ⟨i, g, hg', hp, by simpa using hcan⟩

/-! ## a pending `Next` -/

def NextOutcome (s0 s : St V) : Prop :=
  ((∃ live, s.cpc = .inNext live) ∧ s.results = s0.results) ∨ (s.cpc = .idle ∧ ∃ r, s.results = s0.results ++ [r])

/-- what a step does to the consumer: nothing, or it ends the pending `Next` with one result, or it is a
call / a statement of `Close` -/
theorem step_consumer {s s' : St V} {l : Label V} (h : step s l = some s') :
    ((s'.cpc = s.cpc ∨ (s.cpc = .inNext true ∧ s'.cpc = .inNext false)) ∧ s'.results = s.results) ∨
    ((∃ live, s.cpc = .inNext live) ∧ s'.cpc = .idle ∧ ∃ r, s'.results = s.results ++ [r]) ∨
    (isCall l = true) ∨ (∃ x rest, s.cpc = .closing (x :: rest)) := by
  cases l with
  | cCall live => exact .inr (.inr (.inl rfl))
  | cClose => exact .inr (.inr (.inl rfl))
  | inItem i v => obtain ⟨g, _, _, rfl⟩ := step_inItem h; exact .inl ⟨.inl rfl, rfl⟩
  | inEnd i => obtain ⟨g, _, _, rfl⟩ := step_inEnd h; exact .inl ⟨.inl rfl, rfl⟩
  | inErr i e => obtain ⟨g, _, _, rfl⟩ := step_inErr h; exact .inl ⟨.inl rfl, rfl⟩
  | inCtx i => obtain ⟨g, _, _, _, rfl⟩ := step_inCtx h; exact .inl ⟨.inl rfl, rfl⟩
  | ctxEnds => obtain ⟨_, _, rfl⟩ := step_ctxEnds h; exact .inl ⟨.inl rfl, rfl⟩
  | cas i =>
    obtain ⟨g, e, _, _, hc⟩ := step_cas h
    rcases hc with ⟨_, rfl⟩ | ⟨_, rfl⟩ <;> exact .inl ⟨.inl rfl, rfl⟩
  | win i =>
    obtain ⟨g, e, _, hc⟩ := step_win h
    rcases hc with ⟨rest, _, rfl⟩ | ⟨rest, _, rfl⟩ | ⟨_, rfl⟩ <;> exact .inl ⟨.inl rfl, rfl⟩
  | sendOk i =>
    obtain ⟨g, v, live, _, _, hc, rfl⟩ := step_sendOk h
    exact .inr (.inl ⟨⟨live, hc⟩, rfl, _, rfl⟩)
  | sendFail i => obtain ⟨g, v, _, _, _, rfl⟩ := step_sendFail h; exact .inl ⟨.inl rfl, rfl⟩
  | exitStep i =>
    obtain ⟨g, _, hc⟩ := step_exitStep h
    rcases hc with ⟨rest, _, rfl⟩ | ⟨d, rest, _, _, _, rfl⟩ | ⟨d, rest, _, _, rfl⟩ | ⟨rest, _, rfl⟩ |
      ⟨rest, _, rfl⟩ | ⟨_, rfl⟩ <;> exact .inl ⟨.inl rfl, rfl⟩
  | cEnd =>
    obtain ⟨live, hc, _, rfl⟩ := step_cEnd h
    exact .inr (.inl ⟨⟨live, hc⟩, rfl, _, rfl⟩)
  | cCtx =>
    obtain ⟨hc, rfl⟩ := step_cCtx h
    exact .inr (.inl ⟨⟨false, hc⟩, rfl, _, rfl⟩)
  | cExpire =>
    obtain ⟨hc, rfl⟩ := step_cExpire h
    exact .inl ⟨.inr ⟨hc, rfl⟩, rfl⟩
  | cCloseStep =>
    rcases step_cCloseStep h with ⟨rest, hc, _⟩ | ⟨rest, hc, _⟩ | ⟨rest, hc, _, _⟩ <;>
      exact .inr (.inr (.inr ⟨_, rest, hc⟩))

theorem nextOutcome_step {s0 s s' : St V} {l : Label V} (hp : NextOutcome s0 s) (hl : isCall l = false)
    (h : step s l = some s') : NextOutcome s0 s' := by
  rcases step_consumer h with ⟨h1, h2⟩ | ⟨⟨live, h1⟩, h2, r, h3⟩ | hcall | ⟨x, rest, hc⟩
  · rcases h1 with h1 | ⟨h0, h1⟩
    · rcases hp with ⟨⟨live, hp⟩, hr⟩ | ⟨hp, r, hr⟩
      · exact .inl ⟨⟨live, by rw [h1, hp]⟩, by rw [h2, hr]⟩
      · exact .inr ⟨by rw [h1, hp], r, by rw [h2, hr]⟩
    · rcases hp with ⟨_, hr⟩ | ⟨hp, _⟩
      · exact .inl ⟨⟨false, h1⟩, by rw [h2, hr]⟩
      · rw [hp] at h0; cases h0
  · rcases hp with ⟨_, hr⟩ | ⟨hp, _⟩
    · exact .inr ⟨h2, r, by rw [h3, hr]⟩
    · rw [hp] at h1; cases h1
  · rw [hl] at hcall; cases hcall
  · rcases hp with ⟨⟨live, hp⟩, _⟩ | ⟨hp, _⟩ <;> (rw [hp] at hc; cases hc)

theorem nextOutcome_run {s0 : St V} {ls : List (Label V)} : ∀ {s s' : St V}, NextOutcome s0 s →
    (∀ l ∈ ls, isCall l = false) → run s ls = some s' → NextOutcome s0 s' := by
  induction ls with
  | nil => intro s s' hp _ h; simp [run] at h; subst h; exact hp
  | cons l ls ih =>
    intro s s' hp hl h
    simp only [run] at h
    split at h
    · next s1 hs1 =>
      exact ih (nextOutcome_step hp (hl l (by simp)) hs1) (fun x hx => hl x (by simp [hx])) h
    · simp at h

theorem isCall_of_internal {s : St V} {l : Label V} (h : l ∈ internalLabels s) : isCall l = false := by
  simp only [internalLabels, List.mem_append, List.mem_cons, List.mem_flatMap, List.mem_range] at h
  rcases h with h | ⟨i, _, h⟩
  · rcases h with rfl | rfl | rfl | h <;> first | rfl | simp at h
  · rcases h with rfl | rfl | rfl | rfl | rfl | rfl | h <;> first | rfl | simp at h

/-- the labels by which an input's `Next` returns -/
def isInputReturn : Label V → Bool
  | .inItem _ _ => true
  | .inEnd _ => true
  | .inErr _ _ => true
  | _ => false

theorem isCall_of_inputReturn {l : Label V} (h : isInputReturn l = true) : isCall l = false := by
  cases l <;> simp_all [isInputReturn, isCall]

/-- in a reachable state with the consumer inside `Next`, a step needing no further input or a return of
an input's pending `Next` is enabled -/
theorem exists_service_step {k : Nat} {s : St V} {live : Bool} (ha : InvA k s) (hc : InvC k s) (hl : InvL k s)
    (hcp : s.cpc = .inNext live) :
    ∃ l s', (l ∈ internalLabels s ∨ isInputReturn l = true) ∧ step s l = some s' := by
  by_cases hq : QuiescentM s
  · obtain ⟨i, g, hg, hp, _⟩ := quiescent_next_waits_for_input ha hc hl hcp hq
    obtain ⟨s', hs'⟩ := Option.isSome_iff_exists.mp
      (show (step s (.inEnd i)).isSome = true by simp [step, hg, hp, endReturns_eq])
    exact ⟨_, s', .inr rfl, hs'⟩
  · obtain ⟨l, hln⟩ := Classical.not_forall.1 hq
    obtain ⟨hmem, hne⟩ := Classical.not_imp.1 hln
    cases hst : step s l with
    | none => exact absurd hst hne
    | some s' => exact ⟨l, s', .inl hmem, hst⟩

/-- **`Next` of the merged stream completes**, provided the inputs' pending `Next` calls return. -/
theorem exists_next_run {k : Nat} (ho : ctxOrigin = .plainCancel) (s0 : St V) :
    ∀ (n : Nat) (s : St V), Reach (init V k) s → NextOutcome s0 s →
    nuU s ≤ n →
    ∃ ls s', (∀ l ∈ ls, isCall l = false) ∧ run s ls = some s' ∧ s'.cpc = .idle ∧ ∃ r, s'.results = s0.results ++ [r] := by
  intro n
  induction n with
  | zero =>
    intro s h hp hn
    rcases hp with ⟨⟨live, hp⟩, hr⟩ | ⟨hp, hr⟩
    · obtain ⟨l, s1, hl, hst⟩ := exists_service_step (reach_invA h) (reach_invC h) (reach_invL h) hp
      have hcall : isCall l = false := by
        rcases hl with hl | hl
        · exact isCall_of_internal hl
        · exact isCall_of_inputReturn hl
      have := nuU_decreases ((reach_invA h).org.trans ho) hst hcall; omega
    · exact ⟨[], s, by simp, rfl, hp, hr⟩
  | succ n ih =>
    intro s h hp hn
    rcases hp with ⟨⟨live, hp⟩, hr⟩ | ⟨hp, hr⟩
    · obtain ⟨l, s1, hl, hst⟩ := exists_service_step (reach_invA h) (reach_invC h) (reach_invL h) hp
      have hcall : isCall l = false := by
        rcases hl with hl | hl
        · exact isCall_of_internal hl
        · exact isCall_of_inputReturn hl
      have hd := nuU_decreases ((reach_invA h).org.trans ho) hst hcall
      have hp1 := nextOutcome_step (Or.inl ⟨⟨live, hp⟩, hr⟩) hcall hst
      obtain ⟨ls, s', h1, h2, h3⟩ := ih s1 (.step l h hst) hp1 (by omega)
      refine ⟨l :: ls, s', ?_, by simp [run, hst, h2], h3⟩
      intro x hx
      rcases List.mem_cons.1 hx with rfl | hx
      · exact hcall
      · exact h1 x hx
    · exact ⟨[], s, by simp, rfl, hp, hr⟩

end Juniper.Proofs.StreamMerge
