import Juniper.Proofs.TreeAccessBase
/-!
# Access-level model (C01, concurrent clause): one goroutine

`Good cmp t op pc`: the private state `pc` of a goroutine executing `op` is on the descent that
`lookup` / `slotOf` prescribe for its key in the tree `t`. `good_next`: a step on ANY memory that still
holds `t`'s structure (and, if the step reads a value slot, `t`'s value there) leads to a `Good` state;
`access_class`: what a `Good` state accesses next; `write_step`: the only write is the `Put`'s single
value-slot write, after which it has returned.

The plans (`putPlan_eq` …) are where the generated statement order of `btree.go` enters: they are
re-proved by `decide` against the source as it is now.
-/
namespace Juniper.Proofs.TreeAccess
open Juniper.Gen.Tree Juniper.Model.BTree Juniper.Model.BTreeAccess Juniper.Proofs.Tree

variable {K V : Type} {cmp : K → K → Int}

/-! ## the generated statement order -/

/-- `Put`: before the loop only `curr := t.root`; the overwrite branch is the single write
`curr.values[idx] = v` followed by `return`; `t.gen++; t.size++` come after the insertion. -/
theorem putPlan_eq : putPlan = some ⟨[.readRoot], [.writeVal], .unit, [.readGen, .writeGen, .readSize, .writeSize]⟩ := by
  decide

theorem getPlan_eq : getPlan = some ⟨[.readRoot], [.readVal], .value, []⟩ := by decide

theorem containsPlan_eq : containsPlan = some ⟨[.readRoot], [], .true_, []⟩ := by decide

/-- every function on the path of a range reader (`forwardIterator.Next`, `backwardIterator.Next`, `lost`,
`valueUnchecked`, `Key`, `cursor.Next`, `Prev`, `seek`, `find`, the six `Seek*`, `leftmostLeaf`, `rightmostLeaf`,
`leaf`, `btree.Cursor`) has, statement for statement, the text the machine `itNext` implements — in particular
the in-range test on the key stands before `v := iter.c.valueUnchecked()`, and `cursor.Next` / `Prev` read no
value slot. -/
theorem scanShape_eq : scanShape = true := by decide

def _root_.Juniper.Model.BTreeAccess.Op.isSearch : Op K V → Bool
  | .scan _ _ _ _ _ => false
  | _ => true

theorem start_search (op : Op K V) (h : op.isSearch = true) : start op = .run [.readRoot] true Regs.init .unit := by
  cases op <;> simp [Op.isSearch] at h <;> simp [start, planOf, getPlan_eq, containsPlan_eq, putPlan_eq, mk]

theorem start_scan (fwd : Bool) (sk : SeekKind) (skey : K) (stop : Option (CmpOp × K)) (limit : Nat) :
    start (.scan fwd sk skey stop limit : Op K V) = .it .sRoot1 (ItSt.init limit) := by
  simp [start, scanShape_eq]

theorem foundAt_get (k : K) (x idx : Nat) :
    foundAt (.get k : Op K V) x idx = .run [.readVal] false { (Regs.init : Regs K V) with curr := some x, idx := idx } (.val none) := by
  simp [foundAt, planOf, getPlan_eq, mk, retRes]

theorem foundAt_put (k : K) (v : V) (x idx : Nat) :
    foundAt (.put k v : Op K V) x idx = .run [.writeVal] false { (Regs.init : Regs K V) with curr := some x, idx := idx } .unit := by
  simp [foundAt, planOf, putPlan_eq, mk, retRes]

theorem foundAt_contains (k : K) (x idx : Nat) : foundAt (.contains k : Op K V) x idx = .done (.bool true) := by
  simp [foundAt, planOf, containsPlan_eq, mk, retRes]

/-! ## value positions -/

/-- `(a, i)` is a live value slot of the tree whose key is equivalent to `k` -/
def ValPos (cmp : K → K → Int) (R : Node K V) (k : K) (a i : Nat) : Prop :=
  ∃ y, Sub R y ∧ y.id = a ∧ ∃ h : i < y.kvs.length, cmp k y.kvs[i].1 = 0

theorem valPos_of_slot {R : Node K V} {k : K} {a i : Nat} (h : slotOf cmp k R = some (a, i)) :
    ValPos cmp R k a i := by
  obtain ⟨y, hs, hid, hsn, _⟩ := slotOf_spec cmp k R a i h
  exact ⟨y, hs, hid, searchNode_found_key hsn⟩

/-- two keys that own the same value slot are equivalent -/
theorem valPos_inj (hc : StrictWeak cmp) {R : Node K V} (hn : (ids R).Nodup) {k k' : K} {a i : Nat}
    (h : ValPos cmp R k a i) (h' : ValPos cmp R k' a i) : cmp k k' = 0 := by
  obtain ⟨y, hs, hid, hi, he⟩ := h
  obtain ⟨y', hs', hid', hi', he'⟩ := h'
  have := sub_id_inj hn hs hs' (hid.trans hid'.symm)
  subst this
  exact hc.eq_trans he (hc.eq_symm he')

theorem findNode_of_sub {R y : Node K V} (hn : (ids R).Nodup) (h : Sub R y) : findNode y.id R = some y := by
  have hone : ∀ i, cnt i R ≤ 1 := (nodup_iff_count_le_one (ids R)).mp hn
  obtain ⟨up, hz⟩ := h.zip
  simp [findNode, pathTo_unique y.id R up y hz hone rfl]

/-! ## the thread invariant -/

/-- `y` is on the descent for `k` -/
structure OnPath (cmp : K → K → Int) (R : Node K V) (k : K) (y : Node K V) : Prop where
  sub : Sub R y
  slot : slotOf cmp k y = slotOf cmp k R
  look : lookup cmp k y = lookup cmp k R

/-- what the operation returns when run alone on `t` -/
def expected (cmp : K → K → Int) (t : Tree K V) : Op K V → Res V
  | .get k => .val (get cmp t k)
  | .contains k => .bool (contains cmp t k)
  | .put _ _ => .unit
  | .scan _ _ _ _ _ => .unit

/-- IF `(x, i)` is a live slot of the tree, it holds the key `k` -/
def KeyAt (t : Tree K V) (x : Nat) (i : Int) (k : K) : Prop :=
  ∀ y, Sub t.root y → y.id = x → ∀ h : i.toNat < y.kvs.length, y.kvs[i.toNat].1 = k

/-- the cursor fields of a range reader belong together: the remembered key `c.k` was read from
`c.curr.keys[c.i]` (they are only ever assigned together, by `c.k = c.curr.keys[c.i]`) -/
def Settled (t : Tree K V) (st : ItSt K V) : Prop :=
  ∀ x, st.curr = some x → ∃ k, st.k = some k ∧ KeyAt t x st.i k

def Good (cmp : K → K → Int) (t : Tree K V) (op : Op K V) : PC K V → Prop
  | .run ops cont rg r =>
    (op.isSearch = true ∧ ops = [.readRoot] ∧ cont = true) ∨
    (∃ x, cont = false ∧ rg.curr = some x ∧ slotOf cmp op.key t.root = some (x, rg.idx) ∧
      ((∃ k, op = .get k ∧ ops = [.readVal]) ∨ (∃ k v, op = .put k v ∧ ops = [.writeVal] ∧ r = .unit)))
  | .test x i => op.isSearch = true ∧ ∃ y, OnPath cmp t.root op.key y ∧ y.id = x ∧ i ≤ (searchNode cmp op.key y.kvs).1
  | .key x i => op.isSearch = true ∧
      ∃ y, OnPath cmp t.root op.key y ∧ y.id = x ∧ i ≤ (searchNode cmp op.key y.kvs).1 ∧ i < y.kvs.length
  | .retn x => op.isSearch = true ∧
      ∃ y, OnPath cmp t.root op.key y ∧ y.id = x ∧ searchNode cmp op.key y.kvs = (y.kvs.length, false)
  | .leaf x idx => op.isPut = true ∧
      ∃ y, OnPath cmp t.root op.key y ∧ y.id = x ∧ searchNode cmp op.key y.kvs = (idx, false)
  | .child x idx => op.isSearch = true ∧
      ∃ y, OnPath cmp t.root op.key y ∧ y.id = x ∧ searchNode cmp op.key y.kvs = (idx, false)
  | .full _ => False
  | .itest _ _ => False
  | .ikey _ _ => False
  | .it ph st => op.isSearch = false ∧ Settled t st ∧
      (ph = .nVal → ∃ x k, st.curr = some x ∧ st.k = some k ∧ inRangeOf cmp op k = true)
  | .done r => op.isSearch = true → r = expected cmp t op

/-- side condition on one goroutine: a `Put`'s key is present -/
structure OpOK (cmp : K → K → Int) (t : Tree K V) (op : Op K V) : Prop where
  present : ∀ k v, op = .put k v → (slotOf cmp k t.root).isSome = true

theorem good_start (t : Tree K V) (op : Op K V) : Good cmp t op (start op) := by
  cases op with
  | scan fwd sk skey stop limit =>
    rw [start_scan]
    exact ⟨rfl, fun x h => by simp [ItSt.init] at h, fun h => by cases h⟩
  | get k => rw [start_search _ rfl]; exact Or.inl ⟨rfl, rfl, rfl⟩
  | contains k => rw [start_search _ rfl]; exact Or.inl ⟨rfl, rfl, rfl⟩
  | put k v => rw [start_search _ rfl]; exact Or.inl ⟨rfl, rfl, rfl⟩

theorem start_not_done (op : Op K V) : (start op).isDone = false := by
  cases op with
  | scan fwd sk skey stop limit => rw [start_scan]; rfl
  | get k => rw [start_search _ rfl]; rfl
  | contains k => rw [start_search _ rfl]; rfl
  | put k v => rw [start_search _ rfl]; rfl

/-- the memory still holds the skeleton of `t` -/
structure Frozen (m : Mem K V) (t : Tree K V) : Prop where
  root : m.root = some t.root.id
  struct : ∀ y, Sub t.root y → NodeS m y

/-- the value slot read by the next step (if any) holds what `t` holds there -/
def ReadsOriginal (m : Mem K V) (t : Tree K V) (pc : PC K V) : Prop :=
  ∀ a i, accessOf pc = some ⟨.node a (.val i), false⟩ →
    ∀ y, Sub t.root y → y.id = a → ∀ h : i < y.kvs.length, m.val a i = some y.kvs[i].2

theorem notFoundAt_good {t : Tree K V} {op : Op K V} (hsr : op.isSearch = true) {y : Node K V} {idx : Nat}
    (hp : OnPath cmp t.root op.key y) (hs : searchNode cmp op.key y.kvs = (idx, false)) :
    Good cmp t op (notFoundAt op y.id idx) := by
  unfold notFoundAt
  by_cases hput : op.isPut = true
  · simp only [hput, if_true]; exact ⟨hput, y, hp, rfl, hs⟩
  · simp only [hput]; exact ⟨hsr, y, hp, rfl, hs⟩

theorem foundAt_good {t : Tree K V} {op : Op K V} (hsr : op.isSearch = true) {y : Node K V} {idx : Nat}
    (hp : OnPath cmp t.root op.key y) (hs : searchNode cmp op.key y.kvs = (idx, true)) :
    Good cmp t op (foundAt op y.id idx) := by
  obtain ⟨id, kvs, kids⟩ := y
  have hslot : slotOf cmp op.key t.root = some (id, idx) := by rw [← hp.slot]; exact slotOf_found hs
  have hlook : lookup cmp op.key t.root = kvs[idx]? := by rw [← hp.look]; exact lookup_found hs
  cases op with
  | scan fwd sk skey stop limit => simp [Op.isSearch] at hsr
  | get k => rw [foundAt_get]; exact Or.inr ⟨id, rfl, rfl, hslot, Or.inl ⟨k, rfl, rfl⟩⟩
  | put k v => rw [foundAt_put]; exact Or.inr ⟨id, rfl, rfl, hslot, Or.inr ⟨k, v, rfl, rfl, rfl⟩⟩
  | contains k =>
    rw [foundAt_contains]
    obtain ⟨hi, _⟩ := searchNode_found_key hs
    intro _
    simp only [expected, contains]
    simp only [Op.key] at hlook
    simp only [Node.kvs] at hi
    rw [hlook, List.getElem?_eq_getElem hi]; rfl

/-! ## the range reader: one step -/

theorem good_it_of {t : Tree K V} {op : Op K V} (hns : op.isSearch = false) {st : ItSt K V} (hst : Settled t st)
    {ph : Ph} (hph : ph ≠ .nVal) : Good cmp t op (.it ph st) :=
  ⟨hns, hst, fun h => absurd h hph⟩

theorem good_done_of {t : Tree K V} {op : Op K V} (hns : op.isSearch = false) (r : Res V) : Good cmp t op (.done r) := by
  intro h; rw [hns] at h; cases h

theorem good_iterTop {t : Tree K V} {op : Op K V} (hns : op.isSearch = false) {st : ItSt K V} (hst : Settled t st) :
    Good cmp t op (iterTop st) := by
  unfold iterTop
  split
  · exact good_it_of hns hst (by intro h; cases h)
  · exact good_it_of hns (fun x h => hst x h) (by intro h; cases h)

theorem settled_none {t : Tree K V} (st : ItSt K V) : Settled t { st with curr := none } := by
  intro x h; cases h

/-- the cut-off test `iter.inRange != nil && !iter.inRange(k)` (regenerated, both directions) failing means the key is
in range -/
theorem inRange_of_not_stops (op : Op K V) (k : K)
    (h : iterStops (opFwd op) (hasPred op) (inRangeOf cmp op k) = false) : inRangeOf cmp op k = true := by
  have g : ∀ f r, iterStops f true r = !r := by intro f r; cases f <;> cases r <;> decide
  cases op with
  | scan fwd sk skey stop limit =>
    cases stop with
    | none => rfl
    | some s =>
      obtain ⟨o, key⟩ := s
      simp only [hasPred, Option.isSome_some, g] at h
      simpa using h
  | _ => rfl

/-- a step of a range reader on a memory that still holds `t`'s skeleton: the cursor fields stay together, and
the value slot is only approached with a key that passed the in-range test -/
theorem itGood_next {t : Tree K V} {op : Op K V} {m : Mem K V} (hf : Frozen m t) {ph : Ph} {st : ItSt K V}
    (hg : Good cmp t op (.it ph st)) : Good cmp t op (itNext cmp op m ph st) := by
  obtain ⟨hns, hst, hv⟩ := hg
  have D : ∀ r, Good cmp t op (.done r) := good_done_of hns
  have I : ∀ ph', ph' ≠ Ph.nVal → Good cmp t op (.it ph' st) := fun ph' h => good_it_of hns hst h
  have T : Good cmp t op (iterTop st) := good_iterTop hns hst
  have S0 : Settled t { st with curr := none } := settled_none st
  cases ph with
  | rdK x i =>
    simp only [itNext]
    by_cases hi0 : i < 0
    · simp only [hi0, if_true]; exact D _
    · simp only [hi0, if_false]
      cases hk : m.key x i.toNat with
      | none => exact D _
      | some k' =>
        have hset : Settled t { st with curr := some x, i := i, k := some k' } := by
          intro x' hx'
          simp only [Option.some.injEq] at hx'
          subst hx'
          refine ⟨k', rfl, ?_⟩
          intro y hy hid hlt
          have := (hf.struct y hy).2.1 i.toNat hlt
          rw [hid, hk] at this
          exact (Option.some.inj this).symm
        simp only
        split
        · exact good_it_of hns hset (by intro h; cases h)
        · exact good_iterTop hns hset
  | sgen =>
    simp only [itNext]
    repeat' split
    all_goals first
      | exact D _
      | exact good_it_of hns (fun x h => hst x h) (by intro h; cases h)
      | exact good_iterTop hns (fun x h => hst x h)
  | nGen =>
    simp only [itNext]
    cases hc : st.curr with
    | none => exact I _ (by intro h; cases h)
    | some x =>
      simp only
      by_cases hgen : st.cgen = m.gen
      · simp only [hgen, if_true]
        cases hk : st.k with
        | none => exact D _
        | some k =>
          simp only
          by_cases hstop : iterStops (opFwd op) (hasPred op) (inRangeOf cmp op k) = true
          · simp only [hstop, if_true]; exact I _ (by intro h; cases h)
          · simp only [hstop]
            exact ⟨hns, hst, fun _ => ⟨x, k, hc, hk, inRange_of_not_stops op k (by simpa using hstop)⟩⟩
      · simp only [hgen, if_false]; exact D _
  | nVal =>
    simp only [itNext]
    repeat' split
    all_goals first
      | exact D _
      | exact good_it_of hns (fun x h => hst x h) (by intro h; cases h)
  | _ =>
    simp only [itNext]
    repeat' split
    all_goals first
      | exact D _
      | exact T
      | exact good_iterTop hns S0
      | exact I _ (by intro h; cases h)

/-! ## one step -/

/-- a step from a `Good` state on a memory that still holds `t`'s skeleton leads to a `Good` state -/
theorem good_next {t : Tree K V} (hn : (ids t.root).Nodup) {op : Op K V} (hok : OpOK cmp t op) {m : Mem K V}
    (hf : Frozen m t) {pc : PC K V} (hg : Good cmp t op pc) (hv : ReadsOriginal m t pc) :
    Good cmp t op (next cmp op m pc).2 := by
  cases pc with
  | done r => exact hg
  | full x => exact hg.elim
  | itest x j => exact hg.elim
  | ikey x j => exact hg.elim
  | run ops cont rg r =>
    rcases hg with ⟨hsr, rfl, rfl⟩ | ⟨x, rfl, hcurr, hslot, ⟨k, rfl, rfl⟩ | ⟨k, v, rfl, rfl, rfl⟩⟩
    · -- `curr := t.root`
      simp only [next, mopExec, List.append_nil, mk, hf.root, enter]
      exact ⟨hsr, t.root, ⟨.refl _, rfl, rfl⟩, rfl, Nat.zero_le _⟩
    · -- `return curr.values[idx]`
      simp only [next, mopExec, hcurr, List.append_nil, mk]
      obtain ⟨y, hs, hid, hsn, hl⟩ := slotOf_spec cmp k t.root x rg.idx hslot
      obtain ⟨hi, _⟩ := searchNode_found_key hsn
      have := hv x rg.idx (by simp [accessOf, mopAccess, hcurr, rd]) y hs hid hi
      simp only [Good, expected, Juniper.Model.BTree.get, Bool.false_eq_true, if_false]
      rw [this, hl, List.getElem?_eq_getElem hi]; intro _; rfl
    · -- `curr.values[idx] = v; return`
      simp only [next, mopExec, hcurr, List.append_nil, mk]
      simp [Good, expected]
  | test x i =>
    obtain ⟨hsr, y, hp, rfl, hi⟩ := hg
    have hN := (hf.struct y hp.sub).1
    simp only [next, hN]
    by_cases hlt : i < y.kvs.length
    · have : (i : Int) < (y.kvs.length : Int) := by omega
      simp only [this, if_true]
      exact ⟨hsr, y, hp, rfl, hi, hlt⟩
    · have : ¬ (i : Int) < (y.kvs.length : Int) := by omega
      simp only [this, if_false]
      exact ⟨hsr, y, hp, rfl, ((searchNode_at cmp op.key y.kvs i hi).2 (by omega))⟩
  | key x i =>
    obtain ⟨hsr, y, hp, rfl, hi, hlt⟩ := hg
    have hK := (hf.struct y hp.sub).2.1 i hlt
    obtain ⟨a1, a2, a3⟩ := (searchNode_at cmp op.key y.kvs i hi).1 hlt
    simp only [next, hK]
    by_cases h1 : searchLess (cmp op.key y.kvs[i].1) = true
    · simp only [h1, if_true]
      exact notFoundAt_good hsr hp (a1 h1)
    · simp only [h1]
      have h1' : searchLess (cmp op.key y.kvs[i].1) = false := by simpa using h1
      by_cases h2 : searchEq (cmp op.key y.kvs[i].1) = true
      · simp only [h2, if_true, Bool.false_eq_true, if_false]
        exact foundAt_good hsr hp (a2 h1' h2)
      · have h2' : searchEq (cmp op.key y.kvs[i].1) = false := by simpa using h2
        simp only [h2', Bool.false_eq_true, if_false]
        exact ⟨hsr, y, hp, rfl, a3 h1' h2'⟩
  | retn x =>
    obtain ⟨hsr, y, hp, rfl, hs⟩ := hg
    have hN := (hf.struct y hp.sub).1
    simp only [next, hN, Int.toNat_natCast]
    exact notFoundAt_good hsr hp hs
  | leaf x idx =>
    obtain ⟨hput, y, hp, rfl, hs⟩ := hg
    obtain ⟨id, kvs, kids⟩ := y
    have hC := (hf.struct _ hp.sub).2.2 0 (Nat.zero_le _)
    cases op with
    | get k => simp [Op.isPut] at hput
    | contains k => simp [Op.isPut] at hput
    | scan fwd sk skey stop limit => simp [Op.isPut] at hput
    | put k v =>
      have hpres := hok.present k v rfl
      have hsl := hp.slot
      simp only [Op.key, Node.kvs] at hs hsl
      cases hk : kids[idx]? with
      | none => rw [slotOf_nochild hs hk] at hsl; rw [← hsl] at hpres; cases hpres
      | some c =>
        have h0 : ∃ c0, kids[0]? = some c0 := by
          cases kids with
          | nil => simp at hk
          | cons c0 cs => exact ⟨c0, rfl⟩
        obtain ⟨c0, hc0⟩ := h0
        simp only [Node.id, Node.kids, hc0, Option.map_some] at hC
        simp only [next, Node.id, hC]
        exact ⟨rfl, _, hp, rfl, hs⟩
  | child x idx =>
    obtain ⟨hsr, y, hp, rfl, hs⟩ := hg
    obtain ⟨id, kvs, kids⟩ := y
    have hle : idx ≤ kvs.length := by
      have := searchNode_le cmp op.key kvs
      simp only [Node.kvs] at hs
      rw [hs] at this; exact this
    have hC := (hf.struct _ hp.sub).2.2 idx hle
    simp only [Node.id, Node.kids] at hC
    simp only [Node.kvs] at hs
    cases hk : kids[idx]? with
    | none =>
      rw [hk] at hC
      simp only [Option.map_none] at hC
      simp only [next, Node.id, hC]
      have hl : lookup cmp op.key t.root = none := by rw [← hp.look]; exact lookup_nochild hs hk
      have hsl : slotOf cmp op.key t.root = none := by rw [← hp.slot]; exact slotOf_nochild hs hk
      cases op with
      | scan fwd sk skey stop limit => simp [Op.isSearch] at hsr
      | get k => simp only [Op.key] at hl; simp [Good, nilRes, expected, Juniper.Model.BTree.get, hl]
      | contains k => simp only [Op.key] at hl; simp [Good, nilRes, expected, contains, hl]
      | put k v =>
        have hpres := hok.present k v rfl
        simp only [Op.key] at hsl
        rw [hsl] at hpres; cases hpres
    | some c =>
      rw [hk] at hC
      simp only [Option.map_some] at hC
      simp only [next, Node.id, hC]
      refine ⟨hsr, c, ⟨hp.sub.snoc (List.mem_of_getElem? hk), ?_, ?_⟩, rfl, Nat.zero_le _⟩
      · rw [← hp.slot]; exact (slotOf_child hs hk).symm
      · rw [← hp.look]; exact (lookup_child hs hk).symm
  | it ph st => exact itGood_next hf hg

/-- a `Put` of a present key never runs into a nil child on its descent -/
theorem put_child_exists {t : Tree K V} {k : K} {v : V} (hok : OpOK cmp t (.put k v)) {y : Node K V} {idx : Nat}
    (hp : OnPath cmp t.root k y) (hs : searchNode cmp k y.kvs = (idx, false)) :
    ∃ c c0, y.kids[idx]? = some c ∧ y.kids[0]? = some c0 := by
  obtain ⟨id, kvs, kids⟩ := y
  have hpres := hok.present k v rfl
  have hsl := hp.slot
  simp only [Node.kvs, Node.kids] at hs ⊢
  cases hk : kids[idx]? with
  | none => rw [slotOf_nochild hs hk] at hsl; rw [← hsl] at hpres; cases hpres
  | some c =>
    cases kids with
    | nil => simp at hk
    | cons c0 cs => exact ⟨c, c0, rfl, rfl⟩

/-- a `Put` of a present key returns only through its write -/
theorem put_not_done {t : Tree K V} {k : K} {v : V} (hok : OpOK cmp t (.put k v)) {m : Mem K V}
    (hf : Frozen m t) {pc : PC K V} (hg : Good cmp t (.put k v) pc) (hnd : pc.isDone = false)
    (hr : ∀ a, accessOf pc = some a → a.write = false) :
    (next cmp (.put k v) m pc).2.isDone = false := by
  cases pc with
  | done r => simp [PC.isDone] at hnd
  | full x => exact hg.elim
  | itest x j => exact hg.elim
  | ikey x j => exact hg.elim
  | it ph st => obtain ⟨h, _⟩ := hg; cases h
  | run ops cont rg r =>
    rcases hg with ⟨hsr, rfl, rfl⟩ | ⟨x, rfl, hcurr, hslot, ⟨k', h, _⟩ | ⟨k', v', _, rfl, rfl⟩⟩
    · simp [next, mopExec, mk, hf.root, enter, PC.isDone]
    · cases h
    · have := hr _ (by simp [accessOf, mopAccess, hcurr, wr]; rfl)
      simp at this
  | test x i => simp only [next]; split <;> rfl
  | key x i =>
    obtain ⟨hsr, y, hp, rfl, hi, hlt⟩ := hg
    have hK := (hf.struct y hp.sub).2.1 i hlt
    simp only [next, hK]
    split
    · simp [notFoundAt, Op.isPut, PC.isDone]
    · split
      · rw [foundAt_put]; rfl
      · rfl
  | retn x => simp [next, notFoundAt, Op.isPut, PC.isDone]
  | leaf x idx =>
    obtain ⟨_, y, hp, rfl, hs⟩ := hg
    obtain ⟨c, c0, hc, hc0⟩ := put_child_exists hok hp hs
    have hC := (hf.struct _ hp.sub).2.2 0 (Nat.zero_le _)
    rw [hc0] at hC
    simp only [Option.map_some] at hC
    simp [next, hC, PC.isDone]
  | child x idx =>
    obtain ⟨_, y, hp, rfl, hs⟩ := hg
    obtain ⟨c, c0, hc, hc0⟩ := put_child_exists hok hp hs
    have hle : idx ≤ y.kvs.length := by
      have := searchNode_le cmp k y.kvs
      simp only [Op.key] at hs
      rw [hs] at this; exact this
    have hC := (hf.struct _ hp.sub).2.2 idx hle
    rw [hc] at hC
    simp only [Option.map_some] at hC
    simp [next, hC, PC.isDone]

/-- whose value slot `(x, i)` is, for the operation that approaches it: a search operation's (`Get`, `Contains`,
`Put`) own key lives there; for a range reader, IF it is a live slot of the tree, the key stored there is in range -/
def SlotKey (cmp : K → K → Int) (t : Tree K V) (op : Op K V) (x i : Nat) : Prop :=
  (op.isSearch = true ∧ ValPos cmp t.root op.key x i) ∨
  (op.isSearch = false ∧ ∀ y, Sub t.root y → y.id = x → ∀ h : i < y.kvs.length, inRangeOf cmp op y.kvs[i].1 = true)

theorem _root_.Juniper.Model.BTreeAccess.Op.isPut_of_not_search {op : Op K V} (h : op.isSearch = false) : op.isPut = false := by
  cases op <;> simp [Op.isSearch] at h <;> rfl

/-- what a `Good` state accesses next: a read outside the value slots, or the value slot its own key
owns (written iff the operation is a `Put`) resp. — a range reader — a value slot whose key is in range -/
theorem access_class {t : Tree K V} {op : Op K V} (hok : OpOK cmp t op) {pc : PC K V} (hg : Good cmp t op pc)
    {a : Access} (ha : accessOf pc = some a) :
    (a.write = false ∧ ∀ x i, a.loc ≠ .node x (.val i)) ∨
    (∃ x i, a.loc = .node x (.val i) ∧ SlotKey cmp t op x i ∧ a.write = op.isPut) := by
  cases pc with
  | done r => simp [accessOf] at ha
  | full x => exact hg.elim
  | itest x j => exact hg.elim
  | ikey x j => exact hg.elim
  | run ops cont rg r =>
    rcases hg with ⟨hsr, rfl, rfl⟩ | ⟨x, rfl, hcurr, hslot, ⟨k, rfl, rfl⟩ | ⟨k, v, rfl, rfl, rfl⟩⟩
    · simp only [accessOf, mopAccess, rd, Option.some.injEq] at ha; subst ha
      exact Or.inl ⟨rfl, by intro x i h; cases h⟩
    · simp only [accessOf, mopAccess, hcurr, rd, Option.some.injEq] at ha; subst ha
      exact Or.inr ⟨x, rg.idx, rfl, Or.inl ⟨rfl, valPos_of_slot hslot⟩, rfl⟩
    · simp only [accessOf, mopAccess, hcurr, wr, Option.some.injEq] at ha; subst ha
      exact Or.inr ⟨x, rg.idx, rfl, Or.inl ⟨rfl, valPos_of_slot hslot⟩, rfl⟩
  | test x i =>
    simp only [accessOf, rd, Option.some.injEq] at ha; subst ha
    exact Or.inl ⟨rfl, by intro x i h; cases h⟩
  | key x i =>
    simp only [accessOf, rd, Option.some.injEq] at ha; subst ha
    exact Or.inl ⟨rfl, by intro x i h; cases h⟩
  | retn x =>
    simp only [accessOf, rd, Option.some.injEq] at ha; subst ha
    exact Or.inl ⟨rfl, by intro x i h; cases h⟩
  | leaf x idx =>
    simp only [accessOf, rd, Option.some.injEq] at ha; subst ha
    exact Or.inl ⟨rfl, by intro x i h; cases h⟩
  | child x idx =>
    simp only [accessOf, rd, Option.some.injEq] at ha; subst ha
    exact Or.inl ⟨rfl, by intro x i h; cases h⟩
  | it ph st =>
    obtain ⟨hns, hst, hv⟩ := hg
    by_cases hph : ph = .nVal
    · subst hph
      obtain ⟨x, k, hx, hk, hin⟩ := hv rfl
      simp only [accessOf, itAccess, hx, rd, Option.some.injEq] at ha
      subst ha
      refine Or.inr ⟨x, st.i.toNat, rfl, ?_, by simp [Op.isPut_of_not_search hns]⟩
      right
      refine ⟨hns, fun y hy hid hlt => ?_⟩
      obtain ⟨k', hk', hka⟩ := hst x hx
      rw [hk] at hk'
      cases hk'
      rw [hka y hy hid hlt]
      exact hin
    · left
      cases ph <;> first
        | exact absurd rfl hph
        | (simp only [accessOf, itAccess, rd, Option.some.injEq] at ha
           subst ha
           exact ⟨rfl, by intro x i h; cases h⟩)
        | (simp [accessOf, itAccess] at ha)

/-- the only write of a `Good` state is the `Put`'s value-slot write, after which it has returned -/
theorem write_step {t : Tree K V} {op : Op K V} {pc : PC K V} (hg : Good cmp t op pc) (m : Mem K V) {l : Loc}
    (ha : accessOf pc = some ⟨l, true⟩) :
    ∃ k v x i, op = .put k v ∧ l = .node x (.val i) ∧ slotOf cmp k t.root = some (x, i) ∧
      next cmp op m pc = (m.setVal x i (some v), .done .unit) := by
  cases pc with
  | run ops cont rg r =>
    rcases hg with ⟨hsr, rfl, rfl⟩ | ⟨x, rfl, hcurr, hslot, ⟨k, rfl, rfl⟩ | ⟨k, v, rfl, rfl, rfl⟩⟩
    · simp [accessOf, mopAccess, rd] at ha
    · simp [accessOf, mopAccess, hcurr, rd] at ha
    · simp only [accessOf, mopAccess, hcurr, wr, Option.some.injEq, Access.mk.injEq, and_true] at ha
      exact ⟨k, v, x, rg.idx, rfl, ha.symm, hslot, by simp [next, mopExec, hcurr, mk]⟩
  | done r => simp [accessOf] at ha
  | full x => exact hg.elim
  | itest x j => exact hg.elim
  | ikey x j => exact hg.elim
  | test x i => simp [accessOf, rd] at ha
  | key x i => simp [accessOf, rd] at ha
  | retn x => simp [accessOf, rd] at ha
  | leaf x idx => simp [accessOf, rd] at ha
  | child x idx => simp [accessOf, rd] at ha
  | it ph st =>
    have : ∀ a, itAccess ph st = some a → a.write = false := by
      intro a h
      cases ph <;> simp only [itAccess, rd] at h <;> (try split at h) <;> simp at h <;> (subst h; rfl)
    have := this _ (by simpa [accessOf] using ha)
    cases this

/-- a step that is not a write leaves the memory alone -/
theorem read_step_mem {t : Tree K V} {op : Op K V} {pc : PC K V} (hg : Good cmp t op pc) (m : Mem K V)
    (hr : ∀ a, accessOf pc = some a → a.write = false) : (next cmp op m pc).1 = m := by
  cases pc with
  | run ops cont rg r =>
    rcases hg with ⟨hsr, rfl, rfl⟩ | ⟨x, rfl, hcurr, hslot, ⟨k, rfl, rfl⟩ | ⟨k, v, rfl, rfl, rfl⟩⟩
    · simp [next, mopExec]
    · simp [next, mopExec, hcurr]
    · have := hr _ (by simp [accessOf, mopAccess, hcurr, wr]; rfl)
      simp at this
  | done r => rfl
  | full x => exact hg.elim
  | itest x j => exact hg.elim
  | ikey x j => exact hg.elim
  | test x i => rfl
  | key x i => simp only [next]; split <;> rfl
  | retn x => rfl
  | leaf x idx => simp only [next]; split <;> rfl
  | child x idx => simp only [next]; split <;> rfl
  | it ph st => rfl

end Juniper.Proofs.TreeAccess
