import Juniper.Proofs.PipeInv
/-! Consequences of the invariant for what the receiver sees: only sent values, at most once, each
sender's values in the order of its calls. -/
namespace Juniper.Proofs.Pipe
open Juniper.Facts Juniper.Gen.Pipe Juniper.Model.Pipe

theorem nodup_of_map {α β : Type} (f : α → β) {l : List α} (h : (l.map f).Nodup) : l.Nodup := by
  induction l with
  | nil => exact List.nodup_nil
  | cons a t ih =>
    simp only [List.map_cons, List.nodup_cons] at h ⊢
    exact ⟨fun hm => h.1 (List.mem_map_of_mem hm), ih h.2⟩

/-- A list of tagged messages has no duplicates if none of its per-sender projections has. -/
theorem nodup_of_ofSender {l : List Msg} (h : ∀ i, (ofSender i l).Nodup) : l.Nodup := by
  induction l with
  | nil => exact List.nodup_nil
  | cons a t ih =>
    rw [List.nodup_cons]
    constructor
    · intro hmem
      have := h a.sender
      simp only [ofSender, List.filter_cons, beq_self_eq_true, if_true, List.nodup_cons] at this
      exact this.1 (List.mem_filter.mpr ⟨hmem, by simp⟩)
    · apply ih
      intro i
      have := h i
      simp only [ofSender, List.filter_cons] at this
      split at this
      · exact (List.nodup_cons.mp this).2
      · exact this

theorem sent_nodup {L : List Msg} {i : Nat} {sd : Sender} (h : SInv L i sd) : sd.sent.Nodup := by
  apply nodup_of_map (·.seq)
  rw [h.seqs]
  exact List.nodup_range

theorem fifo_of_inv {st : State} (h : Inv st) :
    (∀ m ∈ st.delivered ++ st.buf, ∃ sd, st.senders[m.sender]? = some sd ∧ m ∈ sd.sent) ∧
    (st.delivered ++ st.buf).Nodup ∧
    (∀ i sd, st.senders[i]? = some sd → (ofSender i (st.delivered ++ st.buf)).Sublist sd.sent) := by
  have hsub : ∀ i sd, st.senders[i]? = some sd → (ofSender i (st.delivered ++ st.buf)).Sublist sd.sent :=
    fun i sd hsd => (List.sublist_append_left _ _).trans (h.snd i sd hsd).sub
  refine ⟨?_, ?_, hsub⟩
  · intro m hm
    have hlt := h.rng m hm
    have hsd : st.senders[m.sender]? = some st.senders[m.sender] := List.getElem?_eq_getElem hlt
    refine ⟨_, hsd, (hsub _ _ hsd).subset ?_⟩
    exact List.mem_filter.mpr ⟨hm, by simp⟩
  · apply nodup_of_ofSender
    intro i
    by_cases hlt : i < st.senders.length
    · have hsd : st.senders[i]? = some st.senders[i] := List.getElem?_eq_getElem hlt
      exact (hsub _ _ hsd).nodup (sent_nodup (h.snd i _ hsd))
    · have : ofSender i (st.delivered ++ st.buf) = [] := by
        simp only [ofSender, List.filter_eq_nil_iff]
        intro m hm
        have := h.rng m hm
        simp; omega
      rw [this]; exact List.nodup_nil

/-- The capacity of the data channel never changes. -/
theorem cap_step {st st' : State} {l : Label} (hs : step st l = some st') : st'.cap = st.cap := by
  cases l with
  | startSend i v c => obtain ⟨sd, _, _, rfl⟩ := step_startCall (by simpa [step] using hs); rfl
  | startTry i v c => obtain ⟨sd, _, _, rfl⟩ := step_startCall (by simpa [step] using hs); rfl
  | startNext c =>
    simp only [step] at hs; split at hs
    · simp at hs; subst hs; rfl
    · simp at hs
  | cancelSender i => obtain ⟨sd, _, rfl⟩ := step_cancelSender hs; rfl
  | cancelNext =>
    simp only [step] at hs; split at hs
    · simp at hs
    · simp at hs; subst hs; rfl
  | closeSender e =>
    simp only [step] at hs; split at hs
    · simp at hs
    · simp at hs; subst hs; rfl
  | closeRecv =>
    simp only [step] at hs; split at hs
    · simp at hs; subst hs; rfl
    · simp at hs
  | sender i a =>
    obtain ⟨sd, m, _, _, _, hcase⟩ := step_sender hs
    rcases hcase with ⟨rfl, _⟩ | ⟨ch, rfl, _, rfl⟩ <;> rfl
  | handoff i => obtain ⟨sd, m, _, _, _, rfl⟩ := step_handoff hs; rfl
  | park i => obtain ⟨sd, m, _, _, _, rfl⟩ := step_park hs; rfl
  | parkRecv => obtain ⟨_, _, rfl⟩ := step_parkRecv hs; rfl
  | recv a =>
    obtain ⟨_, hcase⟩ := step_recv hs
    rcases hcase with ⟨m, rest, _, _, rfl⟩ | ⟨_, _, _, _, rfl⟩ | ⟨_, _, _, rfl⟩ | ⟨ch, _, _, _, rfl⟩ | ⟨_, _, _, rfl⟩ <;> rfl

theorem reach_of_run {s0 st : State} {ls : List Label} (h : run s0 ls = some st) : Reach s0 st := by
  have key : ∀ (ls : List Label) (s : State), Reach s0 s → run s ls = some st → Reach s0 st := by
    intro ls
    induction ls with
    | nil => intro s hr h; simp [run] at h; subst h; exact hr
    | cons l ls ih =>
      intro s hr h
      simp only [run] at h
      split at h
      · simp at h
      · rename_i s1 hs1
        exact ih s1 (Reach.step hr hs1) h
  exact key ls s0 .refl h

/-- The state a list of labels leads to (for concrete witnesses; `d` when the run is not possible). -/
def after (s0 : State) (ls : List Label) (d : State := s0) : State := (run s0 ls).getD d

theorem reach_after {s0 : State} {ls : List Label} (h : (run s0 ls).isSome = true) :
    Reach s0 (after s0 ls) := by
  unfold after
  cases hr : run s0 ls with
  | none => rw [hr] at h; simp at h
  | some st => exact reach_of_run hr

theorem reach_trans {s0 s1 s2 : State} (h1 : Reach s0 s1) (h2 : Reach s1 s2) : Reach s0 s2 := by
  induction h2 with
  | refl => exact h1
  | step _ hs ih => exact .step ih hs

end Juniper.Proofs.Pipe
