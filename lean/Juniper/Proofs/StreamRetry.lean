import Juniper.Proofs.StreamPipe
import Juniper.Proofs.StreamReduce
/-!
# A failed `Next` costs nothing — stated exactly (C08, retry clause)

`Conforms (hard soft R) L t` (the reading used by `sden_next`) erases the failed calls: a machine that
answers the context error for ever satisfies it, and the identity of the transient errors is lost. This
file states the retry clause without erasing anything.

* `sden_call` — **one call, any machine that denotes `(L, t)`**: the call delivers the next item / the
  end / the hard failure itself, *or* it fails softly — with the context error only if its own context had
  expired — **and then the machine is in a state that denotes the same remaining `(L, t)`**: nothing
  lost, nothing duplicated, whatever the combinator buffers.
* `drive_sden` (`Proofs/StreamReduce.lean`) — **progress**: on a derivation without soft failures (the
  source has recovered: no transient failure ahead) a call under a live context returns exactly the next item.
* `SoftThru src M proj` — the machine `M` hands the soft failures of its source through, unchanged
  and only those: a step of `M` answers the soft error `e` iff that step pulled the source and the
  source answered `e`. Compositional (`SoftThru.comp`); proved for every single-source combinator.
* `retry_exact` — **the whole run, nothing erased** (`ExactE`): for a machine over a scripted source,
  under any contexts, every call answers
  - the context error, and then its context had expired; or
  - *the next* transient error of the script (`transientsOf`, in order, each at most once), under a
    live context; or
  - the next item of the fault-free run; or the end (again and again); or the fatal error itself.
  So the number of failed live calls is at most the number of transient faults in the script, a live
  call never answers the context error, and a machine that stops delivering does not satisfy it.
-/
namespace Juniper.Proofs.StreamDen
open Juniper.Model Juniper.Model.Stream Juniper.Spec Juniper.Gen.Comb
universe u v w x
variable {σ : Type u} {σ' : Type w} {α β : Type v} {γ : Type x}

/-! ## one call -/

section call
variable {soft : Err → Bool}

/-- what one consumer-level `Next` may do on a state that denotes `(L, t)` -/
def CallOk (soft : Err → Bool) (m : SM σ α) (cost : σ → Nat) (c : Bool) (r : Option (SStep α)) (s' : σ)
    (L : List (α × Nat)) (t : Term) : Prop :=
  (∃ e, r = some (.err e) ∧ (soft e = true ∨ (e = .ctx ∧ c = false)) ∧ SDen soft m cost s' L t) ∨
  (∃ a L', L = (a, cost s') :: L' ∧ r = some (.item a) ∧ SDen soft m cost s' L' t) ∨
  (L = [] ∧ ∃ e, t = .end_ e ∧ r = some .end_ ∧ SEnded m s') ∨
  (L = [] ∧ ∃ err, t = .fail err ∧ r = some (.err err))

/-- **One call on a denoting state.** Either it delivers what is due — the next item, the end, the hard
failure itself — or it fails softly (the context error only under an expired context) and leaves the
machine in a state that denotes the *same* remaining sequence. -/
theorem sden_call {m : SM σ α} {cost : σ → Nat} {s : σ} {L : List (α × Nat)} {t : Term}
    (h : SDen soft m cost s L t) :
    ∃ F, ∀ fuel, F ≤ fuel → ∀ c, CallOk soft m cost c (drive m c fuel s).1 (drive m c fuel s).2 L t := by
  induction h with
  | @skip s s' L t hc hs h' ih =>
    obtain ⟨F, hF⟩ := ih
    refine ⟨F + 1, fun fuel hf c => ?_⟩
    obtain ⟨g, rfl⟩ : ∃ g, fuel = g + 1 := ⟨fuel - 1, by omega⟩
    have live : m.step s c = m.step s true → CallOk soft m cost c (drive m c (g + 1) s).1 (drive m c (g + 1) s).2 L t := by
      intro hk
      have hd : drive m c (g + 1) s = drive m c g s' := by rw [drive_succ, hk, hs]
      rw [hd]; exact hF g (by omega) c
    cases c with
    | true => exact live rfl
    | false =>
      rcases hc with hk | hk
      · have hd : drive m false (g + 1) s = (some (.err .ctx), s) := by rw [drive_succ, hk]
        rw [hd]; exact Or.inl ⟨.ctx, rfl, Or.inr ⟨rfl, rfl⟩, .skip (Or.inl hk) hs h'⟩
      · exact live hk
  | @soft s s' e L t hc hs he h' _ =>
    refine ⟨1, fun fuel hf c => ?_⟩
    obtain ⟨g, rfl⟩ : ∃ g, fuel = g + 1 := ⟨fuel - 1, by omega⟩
    have live : m.step s c = m.step s true → CallOk soft m cost c (drive m c (g + 1) s).1 (drive m c (g + 1) s).2 L t := by
      intro hk
      have hd : drive m c (g + 1) s = (some (.err e), s') := by rw [drive_succ, hk, hs]
      rw [hd]; exact Or.inl ⟨e, rfl, Or.inl he, h'⟩
    cases c with
    | true => exact live rfl
    | false =>
      rcases hc with hk | hk
      · have hd : drive m false (g + 1) s = (some (.err .ctx), s) := by rw [drive_succ, hk]
        rw [hd]; exact Or.inl ⟨.ctx, rfl, Or.inr ⟨rfl, rfl⟩, .soft (Or.inl hk) hs he h'⟩
      · exact live hk
  | @item s s' a L t hc hs h' _ =>
    refine ⟨1, fun fuel hf c => ?_⟩
    obtain ⟨g, rfl⟩ : ∃ g, fuel = g + 1 := ⟨fuel - 1, by omega⟩
    have live : m.step s c = m.step s true →
        CallOk soft m cost c (drive m c (g + 1) s).1 (drive m c (g + 1) s).2 ((a, cost s') :: L) t := by
      intro hk
      have hd : drive m c (g + 1) s = (some (.item a), s') := by rw [drive_succ, hk, hs]
      rw [hd]; exact Or.inr (Or.inl ⟨a, L, rfl, rfl, h'⟩)
    cases c with
    | true => exact live rfl
    | false =>
      rcases hc with hk | hk
      · have hd : drive m false (g + 1) s = (some (.err .ctx), s) := by rw [drive_succ, hk]
        rw [hd]; exact Or.inl ⟨.ctx, rfl, Or.inr ⟨rfl, rfl⟩, .item (Or.inl hk) hs h'⟩
      · exact live hk
  | @fail s s' e hc hs he =>
    refine ⟨1, fun fuel hf c => ?_⟩
    obtain ⟨g, rfl⟩ : ∃ g, fuel = g + 1 := ⟨fuel - 1, by omega⟩
    have live : m.step s c = m.step s true →
        CallOk soft m cost c (drive m c (g + 1) s).1 (drive m c (g + 1) s).2 [] (.fail e) := by
      intro hk
      have hd : drive m c (g + 1) s = (some (.err e), s') := by rw [drive_succ, hk, hs]
      rw [hd]; exact Or.inr (Or.inr (Or.inr ⟨rfl, e, rfl, rfl⟩))
    cases c with
    | true => exact live rfl
    | false =>
      rcases hc with hk | hk
      · have hd : drive m false (g + 1) s = (some (.err .ctx), s) := by rw [drive_succ, hk]
        rw [hd]; exact Or.inl ⟨.ctx, rfl, Or.inr ⟨rfl, rfl⟩, .fail (Or.inl hk) hs he⟩
      · exact live hk
  | @done s s' hc hs he hk' =>
    refine ⟨1, fun fuel hf c => ?_⟩
    obtain ⟨g, rfl⟩ : ∃ g, fuel = g + 1 := ⟨fuel - 1, by omega⟩
    have live : m.step s c = m.step s true →
        CallOk soft m cost c (drive m c (g + 1) s).1 (drive m c (g + 1) s).2 [] (.end_ (cost s')) := by
      intro hk
      have hd : drive m c (g + 1) s = (some .end_, s') := by rw [drive_succ, hk, hs]
      rw [hd]; exact Or.inr (Or.inr (Or.inl ⟨rfl, cost s', rfl, rfl, he⟩))
    cases c with
    | true => exact live rfl
    | false =>
      rcases hc with hk | hk
      · have hd : drive m false (g + 1) s = (some (.err .ctx), s) := by rw [drive_succ, hk]
        rw [hd]; exact Or.inl ⟨.ctx, rfl, Or.inr ⟨rfl, rfl⟩, .done (Or.inl hk) hs he hk'⟩
      · exact live hk

end call

/-! ## the transient failures ahead of a scripted source -/

/-- the transient failures of a script, in order -/
def transientsOf : List (Ev α) → List Nat
  | [] => []
  | .transient n :: r => n :: transientsOf r
  | _ :: r => transientsOf r

/-- … still ahead of a source -/
def pendingT (s : Src α) : List Nat := transientsOf s.script

/-- a soft answer of the scripted source: the context error iff the context had expired (nothing
consumed), else *the next* transient failure of its script, which is thereby consumed -/
theorem src_soft_answer (s : Src α) (c : Bool) (e : Err) (h : (srcStep s c).1 = .err e) (he : Err.soft e = true) :
    (e = .ctx ∧ c = false ∧ pendingT (srcStep s c).2 = pendingT s) ∨
    (∃ n, e = .transient n ∧ c = true ∧ pendingT s = n :: pendingT (srcStep s c).2) := by
  obtain ⟨sc, ca, p, cl, a⟩ := s
  cases c with
  | false =>
    simp only [srcStep, Bool.not_false, if_true, SStep.err.injEq] at h
    exact Or.inl ⟨h.symm, rfl, rfl⟩
  | true =>
    cases sc with
    | nil => simp [srcStep] at h
    | cons ev r =>
      cases ev with
      | item x => simp [srcStep] at h
      | transient n =>
        simp only [srcStep, Bool.not_true, Bool.false_eq_true, if_false, SStep.err.injEq] at h
        exact Or.inr ⟨n, h.symm, rfl, rfl⟩
      | fatal n =>
        simp only [srcStep, Bool.not_true, Bool.false_eq_true, if_false, SStep.err.injEq] at h
        subst h
        cases he

/-- any other answer of the source leaves the transient failures ahead as they were -/
theorem src_other_answer (s : Src α) (c : Bool) (h : ∀ e, (srcStep s c).1 = .err e → Err.soft e = false) :
    pendingT (srcStep s c).2 = pendingT s := by
  obtain ⟨sc, ca, p, cl, a⟩ := s
  cases c with
  | false => rfl
  | true =>
    cases sc with
    | nil => rfl
    | cons ev r =>
      cases ev with
      | item x => rfl
      | transient n => have := h (.transient n) (by simp [srcStep]); cases this
      | fatal n => rfl

/-! ## handing soft failures through -/

/-- `m'` hands the soft failures of `m` through: a step of `m'` either leaves the inner state alone and
does not answer a soft error, or makes the inner step under the same context and answers the soft error
`e` exactly when the inner step does. -/
structure SoftThru (m : SM σ α) (m' : SM σ' γ) (proj : σ' → σ) : Prop where
  step : ∀ t c,
    (proj (m'.step t c).2 = proj t ∧ ∀ e, (m'.step t c).1 = .err e → Err.soft e = false) ∨
    (proj (m'.step t c).2 = (m.step (proj t) c).2 ∧
      ∀ e, Err.soft e = true → ((m'.step t c).1 = .err e ↔ (m.step (proj t) c).1 = .err e))

theorem SoftThru.refl (m : SM σ α) : SoftThru m m id := ⟨fun _ _ => Or.inr ⟨rfl, fun _ _ => Iff.rfl⟩⟩

theorem SoftThru.comp {σ'' : Type x} {δ : Type v} {m : SM σ α} {m' : SM σ' γ} {m'' : SM σ'' δ} {p : σ' → σ} {q : σ'' → σ'}
    (h1 : SoftThru m m' p) (h2 : SoftThru m' m'' q) : SoftThru m m'' (p ∘ q) where
  step := by
    intro t c
    simp only [Function.comp]
    rcases h2.step t c with ⟨hq, hn⟩ | ⟨hq, hiff⟩
    · exact Or.inl ⟨by rw [hq], hn⟩
    · rcases h1.step (q t) c with ⟨hp, hn⟩ | ⟨hp, hiff'⟩
      · refine Or.inl ⟨by rw [hq, hp], fun e he => ?_⟩
        cases hs : Err.soft e with
        | false => rfl
        | true => have := hn e ((hiff e hs).mp he); rw [hs] at this; cases this
      · exact Or.inr ⟨by rw [hq, hp], fun e hs => (hiff e hs).trans (hiff' e hs)⟩

/-- what a step over the scripted source does to the transient failures ahead -/
theorem SoftThru.step_pending {M : SM σ' γ} {proj : σ' → Src α} (h : SoftThru src M proj) (t : σ') (c : Bool) :
    (∀ e, (M.step t c).1 = .err e → Err.soft e = true →
      (e = .ctx ∧ c = false ∧ pendingT (proj (M.step t c).2) = pendingT (proj t)) ∨
      (∃ n, e = .transient n ∧ c = true ∧ pendingT (proj t) = n :: pendingT (proj (M.step t c).2))) ∧
    ((∀ e, (M.step t c).1 = .err e → Err.soft e = false) → pendingT (proj (M.step t c).2) = pendingT (proj t)) := by
  rcases h.step t c with ⟨hp, hn⟩ | ⟨hp, hiff⟩
  · refine ⟨fun e he hs => ?_, fun _ => by rw [hp]⟩
    rw [hn e he] at hs; cases hs
  · refine ⟨fun e he hs => ?_, fun hn => ?_⟩
    · rw [hp]; exact src_soft_answer (proj t) c e ((hiff e hs).mp he) hs
    · rw [hp]
      refine src_other_answer (proj t) c (fun e he => ?_)
      cases hs : Err.soft e with
      | false => rfl
      | true => have := hn e ((hiff e hs).mpr he); rw [hs] at this; cases this

/-- … and a whole consumer-level call -/
theorem SoftThru.drive_pending {M : SM σ' γ} {proj : σ' → Src α} (h : SoftThru src M proj) (c : Bool) (fuel : Nat) (t : σ') :
    (∀ e, (drive M c fuel t).1 = some (.err e) → Err.soft e = true →
      (e = .ctx ∧ c = false ∧ pendingT (proj (drive M c fuel t).2) = pendingT (proj t)) ∨
      (∃ n, e = .transient n ∧ c = true ∧ pendingT (proj t) = n :: pendingT (proj (drive M c fuel t).2))) ∧
    ((∀ e, (drive M c fuel t).1 = some (.err e) → Err.soft e = false) →
      pendingT (proj (drive M c fuel t).2) = pendingT (proj t)) := by
  induction fuel generalizing t with
  | zero => exact ⟨fun e he _ => by simp [drive] at he, fun _ => rfl⟩
  | succ g ih =>
    have hs := h.step_pending t c
    rw [drive_succ]
    rcases hx : M.step t c with ⟨r, t'⟩
    rw [hx] at hs
    simp only at hs
    cases r with
    | skip =>
      simp only
      have e0 : pendingT (proj t') = pendingT (proj t) := hs.2 (fun e he => by cases he)
      have := ih t'
      rw [e0] at this
      exact this
    | item a =>
      exact ⟨fun e he _ => (by cases he), fun _ => hs.2 (fun e he => by cases he)⟩
    | end_ =>
      exact ⟨fun e he _ => (by cases he), fun _ => hs.2 (fun e he => by cases he)⟩
    | err e0 =>
      refine ⟨fun e he hsoft => ?_, fun hn => hs.2 (fun e he => ?_)⟩
      · simp only [Option.some.injEq, SStep.err.injEq] at he
        subst he
        exact hs.1 e0 rfl hsoft
      · simp only [SStep.err.injEq] at he
        subst he
        exact hn e0 rfl

/-! ## every single-source combinator hands soft failures through -/

theorem withPeek_softThru (m : SM σ α) : SoftThru m (withPeek m) (fun p => p.inner) where
  step := by
    intro t c
    obtain ⟨s, curr⟩ := t
    cases curr with
    | some a => left; simp [withPeek, peekNext, stPeekNextHas]
    | none =>
      right
      simp [withPeek, peekNext, stPeekNextHas]

theorem chunk_softThru (size : Int) (m : SM σ α) : SoftThru m (chunk size m) (fun st => st.inner) where
  step := by
    intro t c
    right
    rcases hy : m.step t.inner c with ⟨r, u⟩
    cases r with
    | skip => simp [chunk, hy]
    | err e => simp [chunk, hy]
    | item a => simp only [chunk, hy, chunkOn_item]; split <;> simp
    | end_ => simp only [chunk, hy, chunkOn_end]; split <;> simp

theorem compact_softThru (eq : α → α → Bool) (m : SM σ α) : SoftThru m (compact eq m) (fun st => st.inner) where
  step := by
    intro t c
    right
    rcases hy : m.step t.inner c with ⟨r, u⟩
    cases r with
    | skip => simp [compact, hy]
    | err e => simp [compact, hy]
    | end_ => simp [compact, hy]
    | item a =>
      simp only [compact, hy, compactOn_item]
      split
      · simp
      · split
        · split <;> simp
        · simp

theorem filter_softThru (keep : α → Except Err Bool) (hf : ∀ a e, keep a = .error e → Err.soft e = false) (m : SM σ α) :
    SoftThru m (filter keep m) (fun st => st.inner) where
  step := by
    intro t c
    right
    rcases hy : m.step t.inner c with ⟨r, u⟩
    cases r with
    | skip => simp [filter, hy]
    | err e => simp [filter, hy]
    | end_ => simp [filter, hy]
    | item a =>
      simp only [filter, hy, filterOn_item]
      cases hk : keep a with
      | error e0 =>
        refine ⟨rfl, fun e hs => ⟨fun he => ?_, fun he => by cases he⟩⟩
        simp only [SStep.err.injEq] at he
        subst he
        rw [hf a e0 hk] at hs; cases hs
      | ok b => cases b <;> simp

theorem map_softThru (f : α → Except Err β) (hf : ∀ a e, f a = .error e → Err.soft e = false) (m : SM σ α) :
    SoftThru m (map f m) (fun st => st.inner) where
  step := by
    intro t c
    right
    rcases hy : m.step t.inner c with ⟨r, u⟩
    cases r with
    | skip => simp [map, hy]
    | err e => simp [map, hy]
    | end_ => simp [map, hy]
    | item a =>
      simp only [map, hy, mapOn_item]
      cases hk : f a with
      | error e0 =>
        refine ⟨rfl, fun e hs => ⟨fun he => ?_, fun he => by cases he⟩⟩
        simp only [SStep.err.injEq] at he
        subst he
        rw [hf a e0 hk] at hs; cases hs
      | ok b => simp

theorem first_softThru (m : SM σ α) : SoftThru m (first m) (fun st => st.inner) where
  step := by
    intro t c
    by_cases hd : stFirstDone t.x = true
    · left; simp [first, hd]
    · right
      rcases hy : m.step t.inner c with ⟨r, u⟩
      cases r <;> simp [first, hd, hy]

theorem while_softThru (f : α → Except Err Bool) (hf : ∀ a e, f a = .error e → Err.soft e = false) (m : SM σ α) :
    SoftThru m (while_ f m) (fun st => st.inner) where
  step := by
    intro t c
    have heval : ∀ (st : WhileSt σ α) (a : α), (whileEval f st a).2.inner = st.inner ∧
        ∀ e, (whileEval f st a).1 = .err e → Err.soft e = false := by
      intro st a
      rw [whileEval_eq]
      cases hk : f a with
      | error e0 =>
        refine ⟨rfl, fun e he => ?_⟩
        simp only [SStep.err.injEq] at he
        subst he
        exact hf a e0 hk
      | ok b => cases b <;> exact ⟨rfl, fun e he => by cases he⟩
    by_cases hd : stWhileDone t.done = true
    · left; simp [while_, hd]
    · by_cases hp : stWhilePulls t.held.isSome = true
      · right
        rcases hy : m.step t.inner c with ⟨r, u⟩
        cases r with
        | skip => simp [while_, hd, hp, hy]
        | err e => simp [while_, hd, hp, hy]
        | end_ => simp [while_, hd, hp, hy]
        | item a =>
          simp only [while_, hd, hp, hy, whileOn_item, Bool.false_eq_true, if_false, if_true]
          have := heval { t with inner := u, held := if stWhileSetsHas then some a else none } a
          refine ⟨this.1, fun e hs => ⟨fun he => ?_, fun he => by cases he⟩⟩
          rw [this.2 e he] at hs; cases hs
      · left
        simp only [while_, hd, hp, Bool.false_eq_true, if_false]
        cases hh : t.held with
        | none => simp
        | some a => exact heval t a

theorem flattenSlices_softThru (m : SM σ (List α)) : SoftThru m (flattenSlices m) (fun st => st.inner) where
  step := by
    intro t c
    obtain ⟨s, buf⟩ := t
    cases buf with
    | cons a r => left; simp [flattenSlices]
    | nil =>
      right
      rcases hy : m.step s c with ⟨r, u⟩
      cases r <;> simp [flattenSlices, hy]

/-- every `SPipe` pipeline hands the soft failures of its base stream through (callbacks fail hard) -/
theorem spipe_softThru {α : Type} {σ0 : Type} (base : SM σ0 α) (p : SPipe α) :
    SoftThru base (p.machine base).m (p.machine base).proj := by
  induction p with
  | src => exact SoftThru.refl base
  | filter keep p ih => exact ih.comp (filter_softThru (liftCb keep) (liftCb_hard keep) _)
  | map f p ih => exact ih.comp (map_softThru (liftCb f) (liftCb_hard f) _)
  | first n p ih => exact ih.comp (first_softThru _)
  | while_ f p ih => exact ih.comp (while_softThru (liftCb f) (liftCb_hard f) _)
  | compact eq p ih => exact ih.comp (compact_softThru eq _)
  | peek p ih => exact ih.comp (withPeek_softThru _)
  | chunkFlat n p ih => exact (ih.comp (chunk_softThru (n : Int) _)).comp (flattenSlices_softThru _)

/-! ## the whole run, nothing erased -/

/-- **What a consumer of a machine over a scripted source sees, call by call** (`E` = the transient
failures still ahead in the script, `l` = the items still to come, `t` = how the stream terminates): a
call answers the context error only if its context had expired; a transient error only under a live
context and only *the next one* of the script, which is thereby used up; otherwise the next item, the
end (again and again), or the hard failure itself. -/
def ExactE : List (Bool × Option (SStep β)) → List Nat → List β → Term → Prop
  | [], _, _, _ => True
  | (c, r) :: R, E, l, t =>
    (c = false ∧ r = some (.err .ctx) ∧ ExactE R E l t) ∨
    (∃ n E', c = true ∧ E = n :: E' ∧ r = some (.err (.transient n)) ∧ ExactE R E' l t) ∨
    (∃ a l', l = a :: l' ∧ r = some (.item a) ∧ ExactE R E l' t) ∨
    (l = [] ∧ (∃ e, t = .end_ e) ∧ r = some .end_ ∧ ExactE R E [] t) ∨
    (l = [] ∧ ∃ err, t = .fail err ∧ Err.soft err = false ∧ r = some (.err err))

theorem snextsF_cons (m : SM σ α) (c : Bool) (f : Nat) (cs : List (Bool × Nat)) (s : σ) :
    snextsF m ((c, f) :: cs) s = (drive m c f s).1 :: snextsF m cs (drive m c f s).2 := rfl

/-- from the erased reading (`Conforms ∘ hard`) and the hand-through property to the exact one -/
theorem exact_of_conforms {M : SM σ' β} {proj : σ' → Src α} (hthru : SoftThru src M proj)
    (fuel : Nat) (cs : List Bool) (st : σ') (l : List β) (t : Term) (ht : ∀ e, t = .fail e → Err.soft e = false)
    (h : Conforms (hard Err.soft (snexts M fuel cs st)) l t) :
    ExactE (cs.zip (snexts M fuel cs st)) (pendingT (proj st)) l t := by
  induction cs generalizing st l with
  | nil => simp [ExactE]
  | cons c cs ih =>
    have hp := hthru.drive_pending c fuel st
    have e0 : snexts M fuel (c :: cs) st = (drive M c fuel st).1 :: snexts M fuel cs (drive M c fuel st).2 := rfl
    rw [e0] at h ⊢
    simp only [List.zip_cons_cons, ExactE]
    rcases hd : drive M c fuel st with ⟨r, st'⟩
    rw [hd] at h hp
    simp only at h hp
    -- soft failure?
    by_cases hsoft : ∃ e, r = some (.err e) ∧ Err.soft e = true
    · obtain ⟨e, rfl, he⟩ := hsoft
      rw [hard_cons_soft e he] at h
      rcases hp.1 e rfl he with ⟨rfl, rfl, hE⟩ | ⟨n, rfl, rfl, hE⟩
      · exact Or.inl ⟨rfl, rfl, by rw [← hE]; exact ih st' l h⟩
      · exact Or.inr (Or.inl ⟨n, pendingT (proj st'), rfl, hE, rfl, ih st' l h⟩)
    · have hns : ∀ e, r = some (.err e) → Err.soft e = false := by
        intro e he
        cases hs : Err.soft e with
        | false => rfl
        | true => exact absurd ⟨e, he, hs⟩ hsoft
      have hE := hp.2 hns
      have hhard : hard Err.soft (r :: snexts M fuel cs st') = r :: hard Err.soft (snexts M fuel cs st') := by
        cases r with
        | none => rfl
        | some x =>
          cases x with
          | err e => exact hard_cons_hard e (hns e rfl) _
          | item a => rfl
          | skip => rfl
          | end_ => rfl
      rw [hhard] at h
      right; right
      cases l with
      | cons a l' =>
        simp only [Conforms] at h
        exact Or.inl ⟨a, l', rfl, h.1, by rw [← hE]; exact ih st' l' h.2⟩
      | nil =>
        right
        cases t with
        | end_ e =>
          simp only [Conforms] at h
          exact Or.inl ⟨rfl, ⟨e, rfl⟩, h.1, by rw [← hE]; exact ih st' [] h.2⟩
        | fail err =>
          simp only [Conforms] at h
          exact Or.inr ⟨rfl, err, rfl, ht err rfl, h⟩

theorem sden_term_hard {soft : Err → Bool} {m : SM σ α} {cost : σ → Nat} {s : σ} {L : List (α × Nat)} {t : Term}
    (h : SDen soft m cost s L t) : ∀ e, t = .fail e → soft e = false := by
  induction h with
  | skip _ _ _ ih => exact ih
  | soft _ _ _ _ ih => exact ih
  | item _ _ _ ih => exact ih
  | fail _ _ he => intro e h; cases h; exact he
  | done _ _ _ _ => intro e h; cases h

/-- **The retry clause, exactly** — any machine that denotes `(L, t)` and hands the soft failures of its
scripted source through: under any per-call contexts the run is `ExactE` from the transient failures of
the script: no item lost or duplicated, every failed call accounted for by an expired context or by
*the next* transient failure of the script (returned as it is), the fatal failure itself at the end. -/
theorem retry_exact {M : SM σ' β} {proj : σ' → Src α} {cost : σ' → Nat} {st : σ'} {L : List (β × Nat)} {t : Term}
    (hthru : SoftThru src M proj) (h : SDen Err.soft M cost st L t) :
    ∃ F, ∀ fuel, F ≤ fuel → ∀ cs : List Bool,
      ExactE (cs.zip (snexts M fuel cs st)) (pendingT (proj st)) (L.map Prod.fst) t := by
  obtain ⟨F, hF⟩ := sden_conforms (soft := Err.soft) rfl h
  exact ⟨F, fun fuel hf cs => exact_of_conforms hthru fuel cs st _ t (sden_term_hard h) (hF fuel hf cs)⟩

/-- a machine that answers the context error to every call — the one that satisfies every
`Conforms ∘ hard` statement — does not satisfy `ExactE` under a live context -/
theorem stuck_not_exact (E : List Nat) (l : List β) (t : Term) (R : List (Bool × Option (SStep β))) :
    ¬ ExactE ((true, some (.err .ctx)) :: R) E l t := by
  intro h
  simp only [ExactE] at h
  rcases h with ⟨h, _⟩ | ⟨n, E', _, _, h, _⟩ | ⟨a, l', _, h, _⟩ | ⟨_, _, h, _⟩ | ⟨_, err, rfl, hs, h⟩
  · cases h
  · cases h
  · cases h
  · cases h
  · simp only [Option.some.injEq, SStep.err.injEq] at h
    subst h
    cases hs

end Juniper.Proofs.StreamDen

/-! ## `Runs` (documented protocol) hands soft failures through as well -/

namespace Juniper.Proofs.StreamDen
open Juniper.Model Juniper.Model.Stream Juniper.Gen.Comb
universe u v x y
variable {σ : Type u} {α : Type v}

/-- a port of `Runs` either leaves the source alone and answers no error, or makes one source step and
answers an error exactly when that step did (the same error) -/
def PortThru (m : SM σ α) (s : σ) (c : Bool) {ρ : Type x} (r : SStep ρ) (s' : σ) : Prop :=
  (s' = s ∧ ∀ e, r ≠ .err e) ∨ (s' = (m.step s c).2 ∧ ∀ e, (r = .err e ↔ (m.step s c).1 = .err e))

theorem portThru_conv (m : SM σ α) (s : σ) (c : Bool) {ρ : Type x} {ρ' : Type v} (r : SStep ρ) (r' : SStep ρ') (s' : σ)
    (h : PortThru m s c r s') (hrr : ∀ e, r' = .err e ↔ r = .err e) :
    (s' = s ∧ ∀ e, r' = .err e → Err.soft e = false) ∨
    (s' = (m.step s c).2 ∧ ∀ e, Err.soft e = true → (r' = .err e ↔ (m.step s c).1 = .err e)) := by
  rcases h with ⟨h1, h2⟩ | ⟨h1, h2⟩
  · exact Or.inl ⟨h1, fun e he => absurd ((hrr e).mp he) (h2 e)⟩
  · exact Or.inr ⟨h1, fun e _ => (hrr e).trans (h2 e)⟩

theorem peekPeek_thru (m : SM σ α) (p : PeekSt σ α) (c : Bool) :
    PortThru m p.inner c (peekPeek m p c).1 (peekPeek m p c).2.inner := by
  obtain ⟨s, curr⟩ := p
  cases curr with
  | some a => left; simp [peekPeek, stPeekPulls]
  | none =>
    right
    rcases hy : m.step s c with ⟨r, u⟩
    cases r <;> simp [peekPeek, stPeekPulls, hy]

theorem runsInner_thru (same : α → α → Bool) (m : SM σ α) (g : Nat) (st : RunsSt σ α) (c : Bool) :
    PortThru m st.pk.inner c (runsInner same m g st c).1 (runsInner same m g st c).2.pk.inner := by
  obtain ⟨⟨s, curr⟩, gen, live⟩ := st
  cases live with
  | none => left; simp [runsInner]
  | some l =>
    obtain ⟨g', prev, det⟩ := l
    by_cases hg1 : g' = g
    case neg => left; simp [runsInner, hg1]
    subst hg1
    cases det with
    | true => left; simp [runsInner]
    | false =>
      cases curr with
      | some a =>
        left
        by_cases hb : same prev a = true
        · simp [runsInner, peekPeek, stPeekPulls, hb, peekNext, stPeekNextHas]
        · simp [runsInner, peekPeek, stPeekPulls, hb]
      | none =>
        right
        rcases hy : m.step s c with ⟨r, u⟩
        cases r with
        | item a =>
          by_cases hb : same prev a = true
          · simp [runsInner, peekPeek, stPeekPulls, hy, stPeekSetsHas, hb, peekNext, stPeekNextHas]
          · simp [runsInner, peekPeek, stPeekPulls, hy, stPeekSetsHas, hb]
        | skip => simp [runsInner, peekPeek, stPeekPulls, hy]
        | end_ => simp [runsInner, peekPeek, stPeekPulls, hy]
        | err e => simp [runsInner, peekPeek, stPeekPulls, hy]

theorem PortThru.conv {m : SM σ α} {s : σ} {c : Bool} {ρ : Type x} {ρ' : Type y} {r : SStep ρ} {r' : SStep ρ'} {s' : σ}
    (h : PortThru m s c r s') (hrr : ∀ e, r' = .err e ↔ r = .err e) : PortThru m s c r' s' := by
  rcases h with ⟨h1, h2⟩ | ⟨h1, h2⟩
  · exact Or.inl ⟨h1, fun e he => h2 e ((hrr e).mp he)⟩
  · exact Or.inr ⟨h1, fun e => (hrr e).trans (h2 e)⟩

theorem runsOuter_thru (same : α → α → Bool) (m : SM σ α) (st : RunsSt σ α) (c : Bool) :
    PortThru m st.pk.inner c (runsOuter same m st c).1 (runsOuter same m st c).2.pk.inner := by
  obtain ⟨⟨s, curr⟩, gen, live⟩ := st
  cases live with
  | some l =>
    obtain ⟨g, prev, det⟩ := l
    have h := runsInner_thru same m g ⟨⟨s, curr⟩, gen, some (g, prev, det)⟩ c
    simp only [runsOuter]
    rcases hr : runsInner same m g ⟨⟨s, curr⟩, gen, some (g, prev, det)⟩ c with ⟨r, st'⟩
    rw [hr] at h
    simp only at h
    have e : ∀ x : RunsSt σ α, (if stRunsClosesCurr = true then runsInnerClose g x else x).pk = x.pk := by
      intro x; split
      · exact runsInnerClose_inner g x
      · rfl
    cases r with
    | end_ =>
      simp only [runsDrainOn_end]
      rw [e]
      exact h.conv (fun e => ⟨fun he => (by cases he), fun he => (by cases he)⟩)
    | err e0 =>
      simp only [runsDrainOn_err]
      exact h.conv (fun e => ⟨fun he => (by cases he; rfl), fun he => (by cases he; rfl)⟩)
    | item a =>
      simp only [runsDrainOn_item]
      exact h.conv (fun e => ⟨fun he => (by cases he), fun he => (by cases he)⟩)
    | skip =>
      simp only
      exact h.conv (fun e => ⟨fun he => (by cases he), fun he => (by cases he)⟩)
  | none =>
    have h := peekPeek_thru m ⟨s, curr⟩ c
    simp only [runsOuter]
    rcases hr : peekPeek m ⟨s, curr⟩ c with ⟨r, pk'⟩
    rw [hr] at h
    simp only at h
    cases r with
    | skip =>
      simp only
      exact h.conv (fun e => ⟨fun he => (by cases he), fun he => (by cases he)⟩)
    | item a =>
      simp only [runsPeekOn_item]
      exact h.conv (fun e => ⟨fun he => (by cases he), fun he => (by cases he)⟩)
    | end_ =>
      simp only [runsPeekOn_end]
      exact h.conv (fun e => ⟨fun he => (by cases he), fun he => (by cases he)⟩)
    | err e0 =>
      simp only [runsPeekOn_err]
      exact h.conv (fun e => ⟨fun he => (by cases he; rfl), fun he => (by cases he; rfl)⟩)

/-- `Runs` used through the documented protocol hands the soft failures of its source through -/
theorem runsProto_softThru (same : α → α → Bool) (take : Option Nat) (cl : Bool) (m : SM σ α) :
    SoftThru m (runsProto same take cl m) (fun st => st.rs.pk.inner) where
  step := by
    intro t c
    obtain ⟨rs, cur⟩ := t
    cases cur with
    | none =>
      have h := runsOuter_thru same m rs c
      simp only [runsProto]
      rcases hr : runsOuter same m rs c with ⟨r, rs'⟩
      rw [hr] at h
      simp only at h
      cases r with
      | item g => exact portThru_conv m _ c _ _ _ h (fun e => ⟨fun he => (by cases he), fun he => (by cases he)⟩)
      | skip => exact portThru_conv m _ c _ _ _ h (fun e => ⟨fun he => (by cases he), fun he => (by cases he)⟩)
      | end_ => exact portThru_conv m _ c _ _ _ h (fun e => ⟨fun he => (by cases he), fun he => (by cases he)⟩)
      | err e0 => exact portThru_conv m _ c _ _ _ h (fun e => ⟨fun he => (by cases he; rfl), fun he => (by cases he; rfl)⟩)
    | some x =>
      obtain ⟨g, acc, k⟩ := x
      simp only [runsProto]
      by_cases ht : Juniper.Model.Iter.takeReached take k = true
      · left; simp [ht]
      · have ht' : Juniper.Model.Iter.takeReached take k = false := by simpa using ht
        have h := runsInner_thru same m g rs c
        rcases hr : runsInner same m g rs c with ⟨r, rs'⟩
        rw [hr] at h
        simp only at h
        simp only [ht', Bool.false_eq_true, if_false]
        cases r with
        | end_ =>
          simp only
          have e : (if cl = true then runsInnerClose g rs' else rs').pk = rs'.pk := by
            cases cl with
            | true => simp only [if_true]; exact runsInnerClose_inner g rs'
            | false => rfl
          rw [e]
          exact portThru_conv m _ c _ _ _ h (fun e => ⟨fun he => (by cases he), fun he => (by cases he)⟩)
        | item a => exact portThru_conv m _ c _ _ _ h (fun e => ⟨fun he => (by cases he), fun he => (by cases he)⟩)
        | skip => exact portThru_conv m _ c _ _ _ h (fun e => ⟨fun he => (by cases he), fun he => (by cases he)⟩)
        | err e0 => exact portThru_conv m _ c _ _ _ h (fun e => ⟨fun he => (by cases he; rfl), fun he => (by cases he; rfl)⟩)

end Juniper.Proofs.StreamDen
