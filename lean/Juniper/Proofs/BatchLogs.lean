import Juniper.Proofs.BatchBase
/-!
C11 helper lemmas, second invariant: the ghost logs (what was pulled from the source, what was handed
to consumers, with clock values and reasons) against the batcher's state.
-/
namespace Juniper.Proofs.Batch
open Juniper.Model.Batch

/-- Concatenation of the batches handed out so far. -/
def flat (d : List Delivered) : List Nat := (d.map (·.items)).flatten

/-- The item the producer holds while blocked at the hand-off to the batcher. -/
def inTransit (s : State) : List Nat :=
  match s.ppc with
  | .send v => [v]
  | _ => []

/-- The batches among the results of the `Next` calls, failed calls erased. -/
def batchesOf (rs : List Res) : List (List Nat) :=
  rs.filterMap fun r => match r with | .batch b => some b | _ => none

@[simp] theorem flat_nil : flat [] = [] := rfl
@[simp] theorem flat_append (a b : List Delivered) : flat (a ++ b) = flat a ++ flat b := by
  simp [flat]
@[simp] theorem flat_single (d : Delivered) : flat [d] = d.items := by simp [flat]
@[simp] theorem batchesOf_nil : batchesOf [] = [] := rfl
@[simp] theorem batchesOf_append (a b : List Res) : batchesOf (a ++ b) = batchesOf a ++ batchesOf b := by
  simp [batchesOf]
@[simp] theorem batchesOf_batch (b : List Nat) : batchesOf [.batch b] = [b] := rfl
@[simp] theorem batchesOf_ctx : batchesOf [.ctxErr] = [] := rfl
@[simp] theorem batchesOf_end : batchesOf [.endOK] = [] := rfl
@[simp] theorem batchesOf_err : batchesOf [.srcErr] = [] := rfl

structure Inv2 (cfg : Cfg) (s : State) : Prop where
  a1 : s.bgCancelled = false → flat s.delivered ++ s.batch ++ inTransit s = s.pulled
  a2 : flat s.delivered <+: s.pulled
  g1 : batchesOf s.results = s.delivered.map (·.items)
  d_ne : ∀ d ∈ s.delivered, 0 < d.items.length
  d_wait : ∀ d ∈ s.delivered, (d.reason = .timer ∨ d.reason = .waiter) →
    d.start + cfg.maxWait ≤ d.time ∧ d.firstAt ≤ d.start
  d_full : ∀ d ∈ s.delivered, d.reason = .full → cfg.fullOK d.items true = true
  d_end : ∀ d ∈ s.delivered, d.reason = .srcEnd → s.cClosed = true
  u2 : (s.bpc = .sel ∨ s.bpc = .flush .timer ∨ s.bpc = .flush .waiter ∨ (s.bpc = .inFull ∧ 2 ≤ s.batch.length)) →
    0 < s.batch.length → s.firstAt ≤ s.batchStart
  u4 : s.bpc = .flush .full → cfg.fullOK s.batch true = true
  u5 : s.bpc = .flush .srcEnd → s.cClosed = true

theorem inv2_init (cfg : Cfg) : Inv2 cfg init := by
  constructor <;> simp [init, inTransit]

macro "close_inv2" : tactic => `(tactic| (constructor <;> (try dsimp only) <;>
  first | grind [inTransit] | ((try simp_all [inTransit]) <;> grind [inTransit])))

theorem inv2_srcRet {cfg : Cfg} {s s' : State} (ev : _) (h1 : Inv1 cfg s) (hi : Inv2 cfg s)
    (h : step good cfg s (.srcRet ev) = some s') : Inv2 cfg s' := by
  obtain ⟨c1, t1a, t_set, t_ne, t_len, t_armed, t_fired, n1, n2, u0, u3, u1⟩ := h1
  obtain ⟨a1, a2, g1, d_ne, d_wait, d_full, d_end, u2, u4, u5⟩ := hi
  unfold_step at h <;> (repeat' split at h) <;> cases h <;> close_inv2

theorem inv2_srcCancelErr {cfg : Cfg} {s s' : State} (w : _) (h1 : Inv1 cfg s) (hi : Inv2 cfg s)
    (h : step good cfg s (.srcCancelErr w) = some s') : Inv2 cfg s' := by
  obtain ⟨c1, t1a, t_set, t_ne, t_len, t_armed, t_fired, n1, n2, u0, u3, u1⟩ := h1
  obtain ⟨a1, a2, g1, d_ne, d_wait, d_full, d_end, u2, u4, u5⟩ := hi
  unfold_step at h <;> (repeat' split at h) <;> cases h <;> close_inv2

theorem inv2_nextCall {cfg : Cfg} {s s' : State} (live : _) (h1 : Inv1 cfg s) (hi : Inv2 cfg s)
    (h : step good cfg s (.nextCall live) = some s') : Inv2 cfg s' := by
  obtain ⟨c1, t1a, t_set, t_ne, t_len, t_armed, t_fired, n1, n2, u0, u3, u1⟩ := h1
  obtain ⟨a1, a2, g1, d_ne, d_wait, d_full, d_end, u2, u4, u5⟩ := hi
  unfold_step at h <;> (repeat' split at h) <;> cases h <;> close_inv2

theorem inv2_ctxExpire {cfg : Cfg} {s s' : State} (h1 : Inv1 cfg s) (hi : Inv2 cfg s)
    (h : step good cfg s (.ctxExpire) = some s') : Inv2 cfg s' := by
  obtain ⟨c1, t1a, t_set, t_ne, t_len, t_armed, t_fired, n1, n2, u0, u3, u1⟩ := h1
  obtain ⟨a1, a2, g1, d_ne, d_wait, d_full, d_end, u2, u4, u5⟩ := hi
  unfold_step at h <;> (repeat' split at h) <;> cases h <;> close_inv2

theorem inv2_tick {cfg : Cfg} {s s' : State} (d : _) (h1 : Inv1 cfg s) (hi : Inv2 cfg s)
    (h : step good cfg s (.tick d) = some s') : Inv2 cfg s' := by
  obtain ⟨c1, t1a, t_set, t_ne, t_len, t_armed, t_fired, n1, n2, u0, u3, u1⟩ := h1
  obtain ⟨a1, a2, g1, d_ne, d_wait, d_full, d_end, u2, u4, u5⟩ := hi
  unfold_step at h <;> (repeat' split at h) <;> cases h <;> close_inv2

theorem inv2_close {cfg : Cfg} {s s' : State} (h1 : Inv1 cfg s) (hi : Inv2 cfg s)
    (h : step good cfg s (.close) = some s') : Inv2 cfg s' := by
  obtain ⟨c1, t1a, t_set, t_ne, t_len, t_armed, t_fired, n1, n2, u0, u3, u1⟩ := h1
  obtain ⟨a1, a2, g1, d_ne, d_wait, d_full, d_end, u2, u4, u5⟩ := hi
  unfold_step at h <;> (repeat' split at h) <;> cases h <;> close_inv2

theorem inv2_bgEnds {cfg : Cfg} {s s' : State} (h1 : Inv1 cfg s) (hi : Inv2 cfg s)
    (h : step good cfg s (.bgEnds) = some s') : Inv2 cfg s' := by
  obtain ⟨c1, t1a, t_set, t_ne, t_len, t_armed, t_fired, n1, n2, u0, u3, u1⟩ := h1
  obtain ⟨a1, a2, g1, d_ne, d_wait, d_full, d_end, u2, u4, u5⟩ := hi
  unfold_step at h <;> (repeat' split at h) <;> cases h <;> close_inv2

theorem inv2_prodCancelled {cfg : Cfg} {s s' : State} (h1 : Inv1 cfg s) (hi : Inv2 cfg s)
    (h : step good cfg s (.prodCancelled) = some s') : Inv2 cfg s' := by
  obtain ⟨c1, t1a, t_set, t_ne, t_len, t_armed, t_fired, n1, n2, u0, u3, u1⟩ := h1
  obtain ⟨a1, a2, g1, d_ne, d_wait, d_full, d_end, u2, u4, u5⟩ := hi
  unfold_step at h <;> (repeat' split at h) <;> cases h <;> close_inv2

theorem inv2_prodSend {cfg : Cfg} {s s' : State} (h1 : Inv1 cfg s) (hi : Inv2 cfg s)
    (h : step good cfg s (.prodSend) = some s') : Inv2 cfg s' := by
  obtain ⟨c1, t1a, t_set, t_ne, t_len, t_armed, t_fired, n1, n2, u0, u3, u1⟩ := h1
  obtain ⟨a1, a2, g1, d_ne, d_wait, d_full, d_end, u2, u4, u5⟩ := hi
  unfold_step at h <;> (repeat' split at h) <;> cases h <;> close_inv2

theorem inv2_prodSendCancel {cfg : Cfg} {s s' : State} (h1 : Inv1 cfg s) (hi : Inv2 cfg s)
    (h : step good cfg s (.prodSendCancel) = some s') : Inv2 cfg s' := by
  obtain ⟨c1, t1a, t_set, t_ne, t_len, t_armed, t_fired, n1, n2, u0, u3, u1⟩ := h1
  obtain ⟨a1, a2, g1, d_ne, d_wait, d_full, d_end, u2, u4, u5⟩ := hi
  unfold_step at h <;> (repeat' split at h) <;> cases h <;> close_inv2

theorem inv2_prodCloseC {cfg : Cfg} {s s' : State} (h1 : Inv1 cfg s) (hi : Inv2 cfg s)
    (h : step good cfg s (.prodCloseC) = some s') : Inv2 cfg s' := by
  obtain ⟨c1, t1a, t_set, t_ne, t_len, t_armed, t_fired, n1, n2, u0, u3, u1⟩ := h1
  obtain ⟨a1, a2, g1, d_ne, d_wait, d_full, d_end, u2, u4, u5⟩ := hi
  unfold_step at h <;> (repeat' split at h) <;> cases h <;> close_inv2

theorem inv2_prodCloseSrc {cfg : Cfg} {s s' : State} (h1 : Inv1 cfg s) (hi : Inv2 cfg s)
    (h : step good cfg s (.prodCloseSrc) = some s') : Inv2 cfg s' := by
  obtain ⟨c1, t1a, t_set, t_ne, t_len, t_armed, t_fired, n1, n2, u0, u3, u1⟩ := h1
  obtain ⟨a1, a2, g1, d_ne, d_wait, d_full, d_end, u2, u4, u5⟩ := hi
  unfold_step at h <;> (repeat' split at h) <;> cases h <;> close_inv2

theorem inv2_fullRet {cfg : Cfg} {s s' : State} (b : _) (h1 : Inv1 cfg s) (hi : Inv2 cfg s)
    (h : step good cfg s (.fullRet b) = some s') : Inv2 cfg s' := by
  obtain ⟨c1, t1a, t_set, t_ne, t_len, t_armed, t_fired, n1, n2, u0, u3, u1⟩ := h1
  obtain ⟨a1, a2, g1, d_ne, d_wait, d_full, d_end, u2, u4, u5⟩ := hi
  unfold_step at h <;> (repeat' split at h) <;> cases h <;> close_inv2

theorem inv2_recvCClosed {cfg : Cfg} {s s' : State} (h1 : Inv1 cfg s) (hi : Inv2 cfg s)
    (h : step good cfg s (.recvCClosed) = some s') : Inv2 cfg s' := by
  obtain ⟨c1, t1a, t_set, t_ne, t_len, t_armed, t_fired, n1, n2, u0, u3, u1⟩ := h1
  obtain ⟨a1, a2, g1, d_ne, d_wait, d_full, d_end, u2, u4, u5⟩ := hi
  unfold_step at h <;> (repeat' split at h) <;> cases h <;> close_inv2

theorem inv2_recvTimer {cfg : Cfg} {s s' : State} (h1 : Inv1 cfg s) (hi : Inv2 cfg s)
    (h : step good cfg s (.recvTimer) = some s') : Inv2 cfg s' := by
  obtain ⟨c1, t1a, t_set, t_ne, t_len, t_armed, t_fired, n1, n2, u0, u3, u1⟩ := h1
  obtain ⟨a1, a2, g1, d_ne, d_wait, d_full, d_end, u2, u4, u5⟩ := hi
  unfold_step at h <;> (repeat' split at h) <;> cases h <;> close_inv2

theorem inv2_flushAbort {cfg : Cfg} {s s' : State} (h1 : Inv1 cfg s) (hi : Inv2 cfg s)
    (h : step good cfg s (.flushAbort) = some s') : Inv2 cfg s' := by
  obtain ⟨c1, t1a, t_set, t_ne, t_len, t_armed, t_fired, n1, n2, u0, u3, u1⟩ := h1
  obtain ⟨a1, a2, g1, d_ne, d_wait, d_full, d_end, u2, u4, u5⟩ := hi
  unfold_step at h <;> (repeat' split at h) <;> cases h <;> close_inv2

theorem inv2_batchExit {cfg : Cfg} {s s' : State} (h1 : Inv1 cfg s) (hi : Inv2 cfg s)
    (h : step good cfg s (.batchExit) = some s') : Inv2 cfg s' := by
  obtain ⟨c1, t1a, t_set, t_ne, t_len, t_armed, t_fired, n1, n2, u0, u3, u1⟩ := h1
  obtain ⟨a1, a2, g1, d_ne, d_wait, d_full, d_end, u2, u4, u5⟩ := hi
  unfold_step at h <;> (repeat' split at h) <;> cases h <;> close_inv2

theorem inv2_announce {cfg : Cfg} {s s' : State} (h1 : Inv1 cfg s) (hi : Inv2 cfg s)
    (h : step good cfg s (.announce) = some s') : Inv2 cfg s' := by
  obtain ⟨c1, t1a, t_set, t_ne, t_len, t_armed, t_fired, n1, n2, u0, u3, u1⟩ := h1
  obtain ⟨a1, a2, g1, d_ne, d_wait, d_full, d_end, u2, u4, u5⟩ := hi
  unfold_step at h <;> (repeat' split at h) <;> cases h <;> close_inv2

theorem inv2_deliver {cfg : Cfg} {s s' : State} (h1 : Inv1 cfg s) (hi : Inv2 cfg s)
    (h : step good cfg s (.deliver) = some s') : Inv2 cfg s' := by
  obtain ⟨c1, t1a, t_set, t_ne, t_len, t_armed, t_fired, n1, n2, u0, u3, u1⟩ := h1
  obtain ⟨a1, a2, g1, d_ne, d_wait, d_full, d_end, u2, u4, u5⟩ := hi
  unfold_step at h <;> (repeat' split at h) <;> cases h <;> close_inv2

theorem inv2_consClosed {cfg : Cfg} {s s' : State} (h1 : Inv1 cfg s) (hi : Inv2 cfg s)
    (h : step good cfg s (.consClosed) = some s') : Inv2 cfg s' := by
  obtain ⟨c1, t1a, t_set, t_ne, t_len, t_armed, t_fired, n1, n2, u0, u3, u1⟩ := h1
  obtain ⟨a1, a2, g1, d_ne, d_wait, d_full, d_end, u2, u4, u5⟩ := hi
  unfold_step at h <;> (repeat' split at h) <;> cases h <;> close_inv2

theorem inv2_consCtx {cfg : Cfg} {s s' : State} (h1 : Inv1 cfg s) (hi : Inv2 cfg s)
    (h : step good cfg s (.consCtx) = some s') : Inv2 cfg s' := by
  obtain ⟨c1, t1a, t_set, t_ne, t_len, t_armed, t_fired, n1, n2, u0, u3, u1⟩ := h1
  obtain ⟨a1, a2, g1, d_ne, d_wait, d_full, d_end, u2, u4, u5⟩ := hi
  unfold_step at h <;> (repeat' split at h) <;> cases h <;> close_inv2

theorem inv2_timerExpire {cfg : Cfg} {s s' : State} (h1 : Inv1 cfg s) (hi : Inv2 cfg s)
    (h : step good cfg s (.timerExpire) = some s') : Inv2 cfg s' := by
  obtain ⟨c1, t1a, t_set, t_ne, t_len, t_armed, t_fired, n1, n2, u0, u3, u1⟩ := h1
  obtain ⟨a1, a2, g1, d_ne, d_wait, d_full, d_end, u2, u4, u5⟩ := hi
  unfold_step at h <;> (repeat' split at h) <;> cases h <;> close_inv2

theorem inv2_closeReturn {cfg : Cfg} {s s' : State} (h1 : Inv1 cfg s) (hi : Inv2 cfg s)
    (h : step good cfg s (.closeReturn) = some s') : Inv2 cfg s' := by
  obtain ⟨c1, t1a, t_set, t_ne, t_len, t_armed, t_fired, n1, n2, u0, u3, u1⟩ := h1
  obtain ⟨a1, a2, g1, d_ne, d_wait, d_full, d_end, u2, u4, u5⟩ := hi
  unfold_step at h <;> (repeat' split at h) <;> cases h <;> close_inv2

theorem inv2_step {cfg : Cfg} {s s' : State} {l : Label} (h1 : Inv1 cfg s) (hi : Inv2 cfg s)
    (h : step good cfg s l = some s') : Inv2 cfg s' := by
  cases l with
  | srcRet ev => exact inv2_srcRet ev h1 hi h
  | srcCancelErr w => exact inv2_srcCancelErr w h1 hi h
  | nextCall live => exact inv2_nextCall live h1 hi h
  | ctxExpire => exact inv2_ctxExpire h1 hi h
  | tick d => exact inv2_tick d h1 hi h
  | close => exact inv2_close h1 hi h
  | bgEnds => exact inv2_bgEnds h1 hi h
  | prodCancelled => exact inv2_prodCancelled h1 hi h
  | prodSend => exact inv2_prodSend h1 hi h
  | prodSendCancel => exact inv2_prodSendCancel h1 hi h
  | prodCloseC => exact inv2_prodCloseC h1 hi h
  | prodCloseSrc => exact inv2_prodCloseSrc h1 hi h
  | fullRet b => exact inv2_fullRet b h1 hi h
  | recvCClosed => exact inv2_recvCClosed h1 hi h
  | recvTimer => exact inv2_recvTimer h1 hi h
  | flushAbort => exact inv2_flushAbort h1 hi h
  | batchExit => exact inv2_batchExit h1 hi h
  | announce => exact inv2_announce h1 hi h
  | deliver => exact inv2_deliver h1 hi h
  | consClosed => exact inv2_consClosed h1 hi h
  | consCtx => exact inv2_consCtx h1 hi h
  | timerExpire => exact inv2_timerExpire h1 hi h
  | closeReturn => exact inv2_closeReturn h1 hi h

theorem inv2_reach {cfg : Cfg} {s : State} (h : Reach good cfg s) : Inv2 cfg s := by
  induction h with
  | init => exact inv2_init cfg
  | step l hr hs ih => exact inv2_step (inv1_reach hr) ih hs

end Juniper.Proofs.Batch
