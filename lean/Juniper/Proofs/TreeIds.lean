import Juniper.Proofs.TreeDel
/-!
# Node identities stay pairwise distinct (C01–C03)

`Put` allocates fresh identities only (`nextId` upwards), `Delete` allocates none. Counting
occurrences (`cnt i x`) turns every list-surgery step into linear arithmetic.
-/
namespace Juniper.Proofs.Tree
open Juniper.Model.BTree Juniper.Gen.Tree

variable {K V : Type} {α : Type}

theorem nodup_iff_count_le_one (l : List Nat) : l.Nodup ↔ ∀ a, l.count a ≤ 1 := by
  induction l with
  | nil => simp
  | cons b l ih =>
    rw [List.nodup_cons, ih]
    constructor
    · rintro ⟨hb, hl⟩ a
      rw [List.count_cons]
      by_cases hba : b = a
      · subst hba
        have : l.count b = 0 := List.count_eq_zero.mpr hb
        simp [this]
      · have := hl a
        simp [hba]; exact this
    · intro h
      constructor
      · have := h b
        rw [List.count_cons] at this
        simp at this
        exact List.count_eq_zero.mp this
      · intro a
        have := h a
        rw [List.count_cons] at this
        omega

/-- occurrences of identity `i` in a subtree -/
def cnt (i : Nat) (x : Node K V) : Nat := (ids x).count i
/-- occurrences of identity `i` in a list of subtrees -/
def cntK (i : Nat) (kids : List (Node K V)) : Nat := ((kids.map ids).flatten).count i

theorem cnt_mk (i id : Nat) (kvs : List (K × V)) (kids : List (Node K V)) :
    cnt i (.mk id kvs kids) = (if id = i then 1 else 0) + cntK i kids := by
  simp only [cnt, ids, cntK, List.count_cons, beq_iff_eq]
  omega

@[simp] theorem cntK_nil (i : Nat) : cntK i ([] : List (Node K V)) = 0 := by simp [cntK]

theorem cntK_cons (i : Nat) (c : Node K V) (cs : List (Node K V)) : cntK i (c :: cs) = cnt i c + cntK i cs := by
  simp [cntK, cnt, List.count_append]

theorem cntK_append (i : Nat) (A B : List (Node K V)) : cntK i (A ++ B) = cntK i A + cntK i B := by
  simp [cntK, List.count_append]

theorem cntK_split (i n : Nat) (kids : List (Node K V)) : cntK i kids = cntK i (kids.take n) + cntK i (kids.drop n) := by
  rw [← cntK_append, List.take_append_drop]

theorem cntK_at {kids : List (Node K V)} {j : Nat} {c : Node K V} (h : kids[j]? = some c) (i : Nat) :
    cntK i kids = cntK i (kids.take j) + cnt i c + cntK i (kids.drop (j + 1)) := by
  conv => lhs; rw [(split_at_getElem? h).1]
  rw [cntK_append, cntK_cons]; omega

theorem cntK_replaceAt (kids : List (Node K V)) (j : Nat) (c' : Node K V) (i : Nat) :
    cntK i (replaceAt kids j c') = cntK i (kids.take j) + cnt i c' + cntK i (kids.drop (j + 1)) := by
  rw [replaceAt, cntK_append, cntK_cons]; omega

theorem cntK_insertAt (kids : List (Node K V)) (j : Nat) (r : Node K V) (i : Nat) :
    cntK i (insertAt kids j r) = cntK i kids + cnt i r := by
  rw [insertAt, cntK_append, cntK_cons, cntK_split i j kids]; omega

theorem cntK_le_of_take (i n : Nat) (kids : List (Node K V)) : cntK i (kids.take n) ≤ cntK i kids := by
  rw [cntK_split i n kids]; omega

theorem cntK_le_of_drop (i n : Nat) (kids : List (Node K V)) : cntK i (kids.drop n) ≤ cntK i kids := by
  rw [cntK_split i n kids]; omega

/-- fresh identities handed out by one `Put`: the interval `[fresh, f)` -/
def isNew (fresh f i : Nat) : Nat := if fresh ≤ i ∧ i < f then 1 else 0

def resCnt (i : Nat) : InsRes K V → Nat
  | .crash => 0
  | .found x' => cnt i x'
  | .one x' => cnt i x'
  | .split l _ r => cnt i l + cnt i r

theorem overfill_cnt (cmp : K → K → Int) (id : Nat) (kvs : List (K × V)) (kids : List (Node K V))
    (kv : K × V) (afterK : Option (Node K V)) (fresh : Nat) (i : Nat)
    (hfull : (kvs.length : Int) = maxKVs)
    (hk : (afterK = none ∧ kids = []) ∨ (afterK ≠ none ∧ kids.length = kvs.length + 1)) :
    cnt i (overfillNode cmp id kvs kids kv afterK fresh).1 + cnt i (overfillNode cmp id kvs kids kv afterK fresh).2.2 =
      (if id = i then 1 else 0) + (if fresh = i then 1 else 0) + cntK i kids +
        (match afterK with | none => 0 | some r => cnt i r) := by
  obtain ⟨c1, c2, c3, c4, c5, c6, c7, c8, c9, c10⟩ := consts
  have e3 : (rightFirstChildIdx 0).toNat = leftN.toNat + 1 := by omega
  simp only [overfillNode, extraChildPos_eq, cnt_mk, e3]
  rcases hk with ⟨rfl, rfl⟩ | ⟨hne, hl⟩
  · simp
  · cases afterK with
    | none => exact absurd rfl hne
    | some r =>
      simp only
      have hlen : (insertAt kids (lowerIdx amalgamLess cmp kv.1 kvs + 1) r).length = kids.length + 1 := length_insertAt _ _ _
      have ht : ((insertAt kids (lowerIdx amalgamLess cmp kv.1 kvs + 1) r).drop (leftN.toNat + 1)).take (rightN.toNat + 1) =
          (insertAt kids (lowerIdx amalgamLess cmp kv.1 kvs + 1) r).drop (leftN.toNat + 1) := by
        apply List.take_of_length_le; simp only [List.length_drop, hlen]; omega
      rw [ht]
      have := cntK_split i (leftN.toNat + 1) (insertAt kids (lowerIdx amalgamLess cmp kv.1 kvs + 1) r)
      rw [cntK_insertAt] at this
      omega

theorem ins_ids (cmp : K → K → Int) (k : K) (v : V) (x : Node K V) (fresh : Nat) :
    ∀ h, Bal h x → x.n ≤ maxKVs →
      fresh ≤ (ins cmp k v x fresh).2 ∧
      ∀ i, resCnt i (ins cmp k v x fresh).1 = cnt i x + isNew fresh (ins cmp k v x fresh).2 i ∨
        (ins cmp k v x fresh).1 = .crash := by
  obtain ⟨c1, c2, c3, c4, c5, c6, c7, c8, c9, c10⟩ := consts
  fun_induction ins cmp k v x fresh with
  | case1 id kvs kids i hs =>
    intro h hb hn
    refine ⟨Nat.le_refl _, fun j => Or.inl ?_⟩
    simp [resCnt, cnt_mk, isNew] <;> omega
  | case2 id kvs kids i hs hleaf hroom =>
    intro h hb hn
    have hk : kids = [] := List.isEmpty_iff.mp hleaf
    subst hk
    refine ⟨Nat.le_refl _, fun j => Or.inl ?_⟩
    simp [resCnt, cnt_mk, isNew] <;> omega
  | case3 id kvs kids i hs hleaf hroom =>
    intro h hb hn
    have hk : kids = [] := List.isEmpty_iff.mp hleaf
    subst hk
    simp only [putInsertsDirect, full, c3, Bool.not_eq_eq_eq_not, Bool.not_true, decide_eq_false_iff_not, Decidable.not_not] at hroom
    refine ⟨by omega, fun j => Or.inl ?_⟩
    simp only [resCnt]
    rw [overfill_cnt cmp id kvs [] (k, v) none fresh j hroom (Or.inl ⟨rfl, rfl⟩)]
    simp only [cnt_mk, cntK_nil, isNew]
    repeat' split
    all_goals omega
  | case4 id kvs kids i hs hinner hnone =>
    intro h hb hn
    exact ⟨Nat.le_refl _, fun j => Or.inr rfl⟩
  | case5 id kvs kids i hs hinner c hcc f hres ih =>
    intro h hb hn
    have hne : kids ≠ [] := by simpa using hinner
    obtain ⟨h', rfl, hlen, hall⟩ := bal_inner hne hb
    have hcm := List.mem_of_getElem? hcc
    have := (ih h' (hall c hcm).1 (hall c hcm).2.2).1
    rw [hres] at this
    exact ⟨this, fun j => Or.inr rfl⟩
  | case6 id kvs kids i hs hinner c hcc c' f hres ih =>
    intro h hb hn
    have hne : kids ≠ [] := by simpa using hinner
    obtain ⟨h', rfl, hlen, hall⟩ := bal_inner hne hb
    have hcm := List.mem_of_getElem? hcc
    obtain ⟨i1, i2⟩ := ih h' (hall c hcm).1 (hall c hcm).2.2
    rw [hres] at i1 i2
    refine ⟨i1, fun j => Or.inl ?_⟩
    rcases i2 j with i2 | i2
    · simp only [resCnt] at i2 ⊢
      rw [cnt_mk, cnt_mk, cntK_replaceAt, cntK_at hcc j, i2]; omega
    · cases i2
  | case7 id kvs kids i hs hinner c hcc c' f hres ih =>
    intro h hb hn
    have hne : kids ≠ [] := by simpa using hinner
    obtain ⟨h', rfl, hlen, hall⟩ := bal_inner hne hb
    have hcm := List.mem_of_getElem? hcc
    obtain ⟨i1, i2⟩ := ih h' (hall c hcm).1 (hall c hcm).2.2
    rw [hres] at i1 i2
    refine ⟨i1, fun j => Or.inl ?_⟩
    rcases i2 j with i2 | i2
    · simp only [resCnt] at i2 ⊢
      rw [cnt_mk, cnt_mk, cntK_replaceAt, cntK_at hcc j, i2]; omega
    · cases i2
  | case8 id kvs kids i hs hinner c hcc l sep r f hres kids1 hroom ih =>
    intro h hb hn
    have hne : kids ≠ [] := by simpa using hinner
    obtain ⟨h', rfl, hlen, hall⟩ := bal_inner hne hb
    have hcm := List.mem_of_getElem? hcc
    obtain ⟨i1, i2⟩ := ih h' (hall c hcm).1 (hall c hcm).2.2
    rw [hres] at i1 i2
    refine ⟨i1, fun j => Or.inl ?_⟩
    have hk1 : kids1 = replaceAt kids i l := rfl
    rcases i2 j with i2 | i2
    · simp only [resCnt] at i2 ⊢
      rw [cnt_mk, cnt_mk, cntK_insertAt, hk1, cntK_replaceAt, cntK_at hcc j]; omega
    · cases i2
  | case9 id kvs kids i hs hinner c hcc l sep r f hres kids1 hroom s ih =>
    intro h hb hn
    have hne : kids ≠ [] := by simpa using hinner
    obtain ⟨h', rfl, hlen, hall⟩ := bal_inner hne hb
    have hcm := List.mem_of_getElem? hcc
    have hil : i < kids.length := (List.getElem?_eq_some_iff.mp hcc).1
    obtain ⟨i1, i2⟩ := ih h' (hall c hcm).1 (hall c hcm).2.2
    rw [hres] at i1 i2
    simp only [overfillParentHasRoom, full, c3, Bool.not_eq_eq_eq_not, Bool.not_true, decide_eq_false_iff_not, Decidable.not_not] at hroom
    refine ⟨by simp only; omega, fun j => Or.inl ?_⟩
    have hk1 : kids1 = replaceAt kids i l := rfl
    have hs1 : s = overfillNode cmp id kvs kids1 sep (some r) f := rfl
    rcases i2 j with i2 | i2
    · simp only [resCnt] at i2 ⊢
      rw [hs1, overfill_cnt cmp id kvs kids1 sep (some r) f j hroom
        (Or.inr ⟨by simp, by rw [hk1, length_replaceAt _ _ _ hil]; exact hlen⟩)]
      simp only [hk1, cntK_replaceAt, cnt_mk, cntK_at hcc j]
      simp only [isNew] at i2 ⊢
      split at i2 <;> (repeat' split) <;> omega
    · cases i2

/-- whatever call of a rotation / `mergeTwo` the generated facts prescribe: it is one of the three list
operations at some position -/
theorem repairCall_ops {call : Option (Callee × NodeArg × NodeArg)} {kvs : List (K × V)} {kids : List (Node K V)} {j : Nat}
    {kvs' : List (K × V)} {kids' : List (Node K V)} {m : Option Nat}
    (he : repairCall call kvs kids j = some (kvs', kids', m)) :
    ∃ a, rotateLeftAt kvs kids a = some (kvs', kids') ∨ rotateRightAt kvs kids a = some (kvs', kids') ∨
      mergeAt kvs kids a = some (kvs', kids') := by
  have key : ∀ {op : Option (List (K × V) × List (Node K V))} {mm : Option Nat},
      (op.map fun r => (r.1, r.2, mm)) = some (kvs', kids', m) → op = some (kvs', kids') := by
    intro op mm h
    obtain ⟨r, hr, hrr⟩ := Option.map_eq_some_iff.mp h
    simp only [Prod.mk.injEq] at hrr
    obtain ⟨rfl, rfl, _⟩ := hrr
    exact hr
  unfold repairCall at he
  match call, he with
  | none, he => cases he
  | some (f, a, b), he =>
    simp only [] at he
    split at he
    · cases f
      · exact ⟨_, Or.inl (key he)⟩
      · exact ⟨_, Or.inr (Or.inl (key he))⟩
      · exact ⟨_, Or.inr (Or.inr (key he))⟩
    · cases he

theorem fixChild_ops {kvs : List (K × V)} {kids : List (Node K V)} {j : Nat}
    {kvs' : List (K × V)} {kids' : List (Node K V)} {m : Option Nat}
    (he : fixChild kvs kids j = some (kvs', kids', m)) :
    ∃ a, rotateLeftAt kvs kids a = some (kvs', kids') ∨ rotateRightAt kvs kids a = some (kvs', kids') ∨
      mergeAt kvs kids a = some (kvs', kids') := by
  have four : ∀ {β : Type} (c1 c2 c3 : Bool) (A B C E : Option β) (x : β),
      (if c1 = true then A else if c2 = true then B else if c3 = true then C else E) = some x →
      A = some x ∨ B = some x ∨ C = some x ∨ E = some x := by
    intro β c1 c2 c3 A B C E x h
    cases c1 <;> cases c2 <;> cases c3 <;> simp_all
  unfold fixChild at he
  simp only [] at he
  rcases four _ _ _ _ _ _ _ _ he with h | h | h | h
  · exact repairCall_ops h
  · exact repairCall_ops h
  · exact repairCall_ops h
  · generalize (if hasRightSibling ↑j ↑kvs.length = true then kids[(rightSiblingIdx ↑j).toNat]? else none) = ro at h
    cases ro with
    | none => cases h
    | some _ => exact repairCall_ops h

theorem cntK_of_drop {kids after : List (Node K V)} {a : Nat} {L R : Node K V}
    (h : kids.drop a = L :: R :: after) (i : Nat) :
    cntK i kids = cntK i (kids.take a) + cnt i L + cnt i R + cntK i after := by
  rw [cntK_split i a kids, h, cntK_cons, cntK_cons]; omega

theorem rotateLeftAt_cnt {kvs : List (K × V)} {kids : List (Node K V)} {a : Nat}
    {kvs' : List (K × V)} {kids' : List (Node K V)} (he : rotateLeftAt kvs kids a = some (kvs', kids')) (i : Nat) :
    cntK i kids' = cntK i kids := by
  unfold rotateLeftAt at he
  simp only [] at he
  split at he
  · rename_i li lkvs lkids ri rk rkvs rkids after sep kvsAfter hk hv
    simp only [Option.some.injEq, Prod.mk.injEq] at he
    obtain ⟨_, rfl⟩ := he
    rw [cntK_of_drop hk i, cntK_append, cntK_cons, cntK_cons]
    simp only [cnt_mk, cntK_append]
    have := cntK_split i 1 rkids
    omega
  · cases he

theorem rotateRightAt_cnt {kvs : List (K × V)} {kids : List (Node K V)} {a : Nat}
    {kvs' : List (K × V)} {kids' : List (Node K V)} (he : rotateRightAt kvs kids a = some (kvs', kids')) (i : Nat) :
    cntK i kids' ≤ cntK i kids := by
  unfold rotateRightAt at he
  simp only [] at he
  split at he
  · rename_i li lkvs lkids ri rkvs rkids after sep kvsAfter hk hv
    split at he
    · cases he
    · simp only [Option.some.injEq, Prod.mk.injEq] at he
      obtain ⟨_, rfl⟩ := he
      rw [cntK_of_drop hk i, cntK_append, cntK_cons, cntK_cons]
      simp only [cnt_mk, cntK_append]
      have h1 := cntK_split i (lkvs.length - 1 + 1) lkids
      have h2 := cntK_le_of_take i 1 (lkids.drop (lkvs.length - 1 + 1))
      omega
  · cases he

theorem mergeAt_cnt {kvs : List (K × V)} {kids : List (Node K V)} {a : Nat}
    {kvs' : List (K × V)} {kids' : List (Node K V)} (he : mergeAt kvs kids a = some (kvs', kids')) (i : Nat) :
    cntK i kids' ≤ cntK i kids := by
  unfold mergeAt at he
  split at he
  · rename_i li lkvs lkids ri rkvs rkids after sep kvsAfter hk hv
    simp only [Option.some.injEq, Prod.mk.injEq] at he
    obtain ⟨_, rfl⟩ := he
    rw [cntK_of_drop hk i, cntK_append, cntK_cons]
    simp only [cnt_mk, cntK_append]
    omega
  · cases he

theorem fixChild_cnt {kvs : List (K × V)} {kids : List (Node K V)} {j : Nat}
    {kvs' : List (K × V)} {kids' : List (Node K V)} {m : Option Nat}
    (he : fixChild kvs kids j = some (kvs', kids', m)) (i : Nat) : cntK i kids' ≤ cntK i kids := by
  obtain ⟨a, h | h | h⟩ := fixChild_ops he
  · exact Nat.le_of_eq (rotateLeftAt_cnt h i)
  · exact rotateRightAt_cnt h i
  · exact mergeAt_cnt h i

theorem finish_cnt {rootId id : Nat} {kvs : List (K × V)} {kids : List (Node K V)} {j : Nat} {x' : Node K V} {u : Bool}
    (he : finish rootId id kvs kids j = .done x' u) (i : Nat) : cnt i x' ≤ cnt i (.mk id kvs kids) := by
  unfold finish at he
  split at he
  · cases he
  · rename_i kvs' kids' hf
    cases he
    have := fixChild_cnt hf i
    simp only [cnt_mk]; omega
  · rename_i kvs' kids' a hf
    have hc := fixChild_cnt hf i
    split at he
    · split at he
      · split at he
        · split at he
          · rename_i l hl
            cases he
            have := cntK_at hl i
            simp only [cnt_mk]; omega
          · cases he
        · cases he; simp only [cnt_mk]; omega
      · cases he; simp only [cnt_mk]; omega
    · cases he; simp only [cnt_mk]; omega

theorem removeMax_cnt (rootId : Nat) (x : Node K V) :
    ∀ kv x' u, removeMax rootId x = some (kv, x', u) → ∀ i, cnt i x' ≤ cnt i x := by
  fun_induction removeMax rootId x with
  | case1 id kvs kids hleaf hnone => intro kv x' u he; cases he
  | case2 id kvs kids hleaf kv hkv kvs' =>
    intro kv2 x' u he i
    have hk : kids = [] := List.isEmpty_iff.mp hleaf
    subst hk
    simp only [Option.some.injEq, Prod.mk.injEq] at he
    obtain ⟨_, rfl, _⟩ := he
    simp [cnt_mk]
  | case3 id kvs kids hinner hnone => intro kv x' u he; cases he
  | case4 id kvs kids hinner c hc hres ih => intro kv x' u he; cases he
  | case5 id kvs kids hinner c hc kv c' under hres kids1 hu ih =>
    intro kv2 x' u he i
    simp only [Option.some.injEq, Prod.mk.injEq] at he
    obtain ⟨_, rfl, _⟩ := he
    have := ih kv c' under hres i
    have hk1 : kids1 = replaceAt kids kvs.length c' := rfl
    rw [cnt_mk, cnt_mk, hk1, cntK_replaceAt, cntK_at hc i]; omega
  | case6 id kvs kids hinner c hc kv c' under hres kids1 hu x' u hfin ih =>
    intro kv2 x2 u2 he i
    simp only [Option.some.injEq, Prod.mk.injEq] at he
    obtain ⟨_, rfl, _⟩ := he
    have := ih kv c' under hres i
    have hk1 : kids1 = replaceAt kids kvs.length c' := rfl
    have hf := finish_cnt hfin i
    rw [cnt_mk, hk1, cntK_replaceAt] at hf
    rw [cnt_mk, cntK_at hc i]; omega
  | case7 id kvs kids hinner c hc kv c' under hres kids1 hu hfin ih => intro kv x' u he; cases he

theorem del_cnt (cmp : K → K → Int) (k : K) (rootId : Nat) (x : Node K V) :
    ∀ x' u, del cmp k rootId x = .done x' u → ∀ i, cnt i x' ≤ cnt i x := by
  fun_induction del cmp k rootId x with
  | case1 id kvs kids i hs hleaf kvs' =>
    intro x' u he j
    have hk : kids = [] := List.isEmpty_iff.mp hleaf
    subst hk
    cases he; simp [cnt_mk]
  | case2 id kvs kids i hs hinner hnone => intro x' u he; cases he
  | case3 id kvs kids i hs hinner c hcc hnone => intro x' u he; cases he
  | case4 id kvs kids i hs hinner c hcc kvm c' under hres kvs1 kids1 hu =>
    intro x' u he j
    cases he
    have := removeMax_cnt rootId c kvm c' under hres j
    have hk1 : kids1 = replaceAt kids i c' := rfl
    rw [cnt_mk, cnt_mk, hk1, cntK_replaceAt, cntK_at hcc j]; omega
  | case5 id kvs kids i hs hinner c hcc kvm c' under hres kvs1 kids1 hu =>
    intro x' u he j
    have := removeMax_cnt rootId c kvm c' under hres j
    have hk1 : kids1 = replaceAt kids i c' := rfl
    have hf := finish_cnt he j
    rw [cnt_mk, hk1, cntK_replaceAt] at hf
    rw [cnt_mk, cntK_at hcc j]; omega
  | case6 id kvs kids i hs hleaf => intro x' u he; cases he
  | case7 id kvs kids i hs hinner hnone => intro x' u he; cases he
  | case8 id kvs kids i hs hinner c hcc hres ih => intro x' u he; cases he
  | case9 id kvs kids i hs hinner c hcc hres ih => intro x' u he; cases he
  | case10 id kvs kids i hs hinner c hcc c' under hres kids1 hu ih =>
    intro x' u he j
    cases he
    have := ih c' under hres j
    have hk1 : kids1 = replaceAt kids i c' := rfl
    rw [cnt_mk, cnt_mk, hk1, cntK_replaceAt, cntK_at hcc j]; omega
  | case11 id kvs kids i hs hinner c hcc c' under hres kids1 hu ih =>
    intro x' u he j
    have := ih c' under hres j
    have hk1 : kids1 = replaceAt kids i c' := rfl
    have hf := finish_cnt he j
    rw [cnt_mk, hk1, cntK_replaceAt] at hf
    rw [cnt_mk, cntK_at hcc j]; omega


theorem ins_found_fresh (cmp : K → K → Int) (k : K) (v : V) (x : Node K V) (fresh : Nat) :
    ∀ x', (ins cmp k v x fresh).1 = .found x' → (ins cmp k v x fresh).2 = fresh := by
  fun_induction ins cmp k v x fresh with
  | case1 => intro x' _; rfl
  | case2 => intro x' h; cases h
  | case3 => intro x' h; cases h
  | case4 => intro x' h; cases h
  | case5 => intro x' h; cases h
  | case6 id kvs kids i hs hinner c hcc c' f hres ih =>
    intro x' _
    have := ih c' (by rw [hres])
    rw [hres] at this; exact this
  | case7 => intro x' h; cases h
  | case8 => intro x' h; cases h
  | case9 => intro x' h; cases h

theorem mem_ids_iff_cnt {i : Nat} {x : Node K V} : i ∈ ids x ↔ 0 < cnt i x := by
  simp [cnt, List.count_pos_iff]

theorem idsOK_put (cmp : K → K → Int) (t t' : Tree K V) (k : K) (v : V) (hb : BalTree t) (hi : IdsOK t)
    (hp : put cmp t k v = some t') : IdsOK t' := by
  obtain ⟨h, hbal, hmax, _⟩ := hb
  obtain ⟨hnd, hlt⟩ := hi
  obtain ⟨hle, hc⟩ := ins_ids cmp k v t.root t.nextId h hbal hmax
  have hff := ins_found_fresh cmp k v t.root t.nextId
  have hold : ∀ i, t.nextId ≤ i → cnt i t.root = 0 := by
    intro i hge
    cases hz : cnt i t.root with
    | zero => rfl
    | succ n => have := hlt i (mem_ids_iff_cnt.mpr (by omega)); omega
  have hone : ∀ i, cnt i t.root ≤ 1 := (nodup_iff_count_le_one _).mp hnd
  unfold put at hp
  rcases hres : ins cmp k v t.root t.nextId with ⟨res, f⟩
  rw [hres] at hp hle hc hff
  simp only at hle hc hff
  cases res with
  | crash => cases hp
  | found r =>
    simp only [Option.some.injEq] at hp; subst hp
    have hf : f = t.nextId := hff r rfl
    subst hf
    have hcr : ∀ i, cnt i r = cnt i t.root := by
      intro i
      rcases hc i with h | h
      · simp only [resCnt, isNew] at h; rw [h]; split <;> omega
      · cases h
    constructor
    · exact (nodup_iff_count_le_one _).mpr (fun i => by have := hcr i; have := hone i; simp only [cnt] at *; omega)
    · intro i hi; exact hlt i (mem_ids_iff_cnt.mpr (by rw [← hcr i]; exact mem_ids_iff_cnt.mp hi))
  | one r =>
    simp only [Option.some.injEq] at hp; subst hp
    have hcr : ∀ i, cnt i r = cnt i t.root + isNew t.nextId f i := by
      intro i
      rcases hc i with h | h
      · exact h
      · cases h
    constructor
    · refine (nodup_iff_count_le_one _).mpr (fun i => ?_)
      have h1 := hcr i; have h2 := hone i
      simp only [isNew] at h1
      simp only [cnt] at h1 h2 ⊢
      split at h1
      · have := hold i (by omega); simp only [cnt] at this; omega
      · omega
    · intro i hi
      have h1 := hcr i
      have h0 : 0 < cnt i r := mem_ids_iff_cnt.mp hi
      simp only [isNew] at h1
      split at h1
      · simp only; omega
      · have := hlt i (mem_ids_iff_cnt.mpr (by omega)); simp only; omega
  | split l sep r =>
    simp only [Option.some.injEq] at hp; subst hp
    have hcr : ∀ i, cnt i l + cnt i r = cnt i t.root + isNew t.nextId f i := by
      intro i
      rcases hc i with h | h
      · exact h
      · cases h
    have hroot : ∀ i, cnt i (Node.mk f [sep] [l, r]) = (if f = i then 1 else 0) + cnt i t.root + isNew t.nextId f i := by
      intro i
      rw [cnt_mk, cntK_cons, cntK_cons, cntK_nil]; have := hcr i; omega
    constructor
    · refine (nodup_iff_count_le_one _).mpr (fun i => ?_)
      have h1 := hroot i; have h2 := hone i
      simp only [isNew] at h1
      simp only [cnt] at h1 h2 ⊢
      split at h1 <;> split at h1
      · omega
      · have := hold i (by omega); simp only [cnt] at this; omega
      · have := hold i (by omega); simp only [cnt] at this; omega
      · omega
    · intro i hi
      have h1 := hroot i
      have h0 : 0 < cnt i (Node.mk f [sep] [l, r]) := mem_ids_iff_cnt.mp hi
      simp only [isNew] at h1
      split at h1 <;> split at h1
      · simp only; omega
      · simp only; omega
      · simp only; omega
      · have := hlt i (mem_ids_iff_cnt.mpr (by omega)); simp only; omega

theorem idsOK_delete (cmp : K → K → Int) (t t' : Tree K V) (k : K) (hi : IdsOK t)
    (hp : delete cmp t k = some t') : IdsOK t' := by
  obtain ⟨hnd, hlt⟩ := hi
  have hone : ∀ i, cnt i t.root ≤ 1 := (nodup_iff_count_le_one _).mp hnd
  unfold delete at hp
  cases hres : del cmp k t.root.id t.root with
  | absent =>
    rw [hres] at hp; simp only [deleteMissReturnsFirst, if_true, Option.some.injEq] at hp; subst hp; exact ⟨hnd, hlt⟩
  | crash => rw [hres] at hp; cases hp
  | done r u =>
    rw [hres] at hp; simp only [Option.some.injEq] at hp; subst hp
    have hc := del_cnt cmp k t.root.id t.root r u hres
    constructor
    · exact (nodup_iff_count_le_one _).mpr (fun i => by have := hc i; have := hone i; simp only [cnt] at *; omega)
    · intro i hi
      have := hc i
      have h0 : 0 < cnt i r := mem_ids_iff_cnt.mp hi
      exact hlt i (mem_ids_iff_cnt.mpr (by omega))

end Juniper.Proofs.Tree
