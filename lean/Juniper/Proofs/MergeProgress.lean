import Juniper.Proofs.MergeChans
import Juniper.Proofs.Replicate
/-! Helper lemmas for C12: progress of `chans.Merge` and `chans.Replicate` *before* everything has been
delivered (`Proofs/MergeChans.progress` / `Proofs/Replicate.rprogress` start from `AllDone`).

* enabledness: at the `select` a receivable value can be received, a closed and drained input can be seen
  closed; holding a value, the hand-off to `out` is the only step of Merge and it delivers exactly that value;
* a measure that every step of Merge (receive, hand-off, close observation, return) strictly decreases and
  that only the producers' sends raise;
* quiescence: when no step of Merge is enabled it has returned, or it is parked at `out` waiting for the
  consumer, or every input still listened to is open and empty. -/
set_option linter.unusedSectionVars false
set_option linter.unusedSimpArgs false
set_option linter.unusedVariables false

namespace Juniper.Proofs.MergeChans
open Juniper.Model.Merge Juniper.Facts
variable {V : Type} [HasNil V]

/-- the producers' actions: the only labels that are not steps of `Merge` or of its consumer -/
def isEnvInput : Label V → Bool
  | .envSend _ _ => true
  | .envClose _ => true
  | _ => false

/-- number of values currently receivable on the inputs -/
def availSum (ins : List (Chan V)) : Nat := (ins.map fun c => c.avail.length).sum

theorem availSum_set : ∀ (l : List (Chan V)) (i : Nat) (x y : Chan V), l[i]? = some y →
    availSum (l.set i x) + y.avail.length = availSum l + x.avail.length
  | [], i, x, y, h => by simp at h
  | a :: l, 0, x, y, h => by
    simp at h; subst h
    simp [availSum]; omega
  | a :: l, i + 1, x, y, h => by
    simp at h
    have := availSum_set l i x y h
    simp [availSum] at this ⊢; omega

def pcW : Pc V → Nat
  | .hold _ _ => 2
  | .top => 1
  | _ => 0

/-- Measure of the work `Merge` can do without further input: two per receivable value (receive it, hand it
over), one per input still listened to (see it closed), plus where the goroutine stands. -/
def muPre (s : St V) : Nat := 2 * availSum s.ins + s.live.length + pcW s.pc

/-- at the `select`, a receivable value on input `i` can be received: `Merge` then holds exactly it -/
theorem recv_value_enabled {n : Nat} (g : Good V n) {s : St V} (hi : Inv n s) (hp : s.pc = .top)
    {i : Nat} {c : Chan V} (hc : s.ins[i]? = some c) {v : V} {rest : List V} (hav : c.avail = v :: rest) :
    step s (.recv i) = some { s with ins := s.ins.set i { c with avail := rest }, pc := .hold i v } := by
  have hn := hi.hn
  subst hn
  have hin : i < s.n := by
    have := (List.getElem?_eq_some_iff.mp hc).1
    rw [hi.len] at this; exact this
  have hil : i ∈ s.live := by
    refine Classical.byContradiction fun hnl => ?_
    obtain ⟨c', hc', _, h0⟩ := hi.dead i hin hnl
    rw [hc] at hc'; cases hc'
    rw [hav] at h0; cases h0
  have hrt : retAtTop (pathOf s.n) s.live.length = false := by
    cases hh : retAtTop (pathOf s.n) s.live.length
    · rfl
    · have := ((g.top _).mp hh).1
      have hpos := List.length_pos_of_mem hil
      omega
  obtain ⟨a, harm, hf, _, _, _⟩ := g.arm i hin
  simp [step, hp, hil, hrt, harm, hc, hav, hf, g.nopanic v]

/-- at the `select`, an input that is closed and drained and still listened to can be seen closed -/
theorem recv_close_enabled {n : Nat} (g : Good V n) {s : St V} (hi : Inv n s) (hp : s.pc = .top)
    {i : Nat} {c : Chan V} (hc : s.ins[i]? = some c) (hav : c.avail = []) (hcl : c.closed = true)
    (hil : i ∈ s.live) :
    ∃ s', step s (.recv i) = some s' ∧ s'.live = s.live.erase i ∧ (s'.pc = .top ∨ s'.pc = .done) ∧
      s'.ins = s.ins ∧ s'.out = s.out := by
  have hn := hi.hn
  subst hn
  have hin : i < s.n := hi.liveLt i hil
  have hrt : retAtTop (pathOf s.n) s.live.length = false := by
    cases hh : retAtTop (pathOf s.n) s.live.length
    · rfl
    · have := ((g.top _).mp hh).1
      have hpos := List.length_pos_of_mem hil
      omega
  obtain ⟨a, harm, _, hz, _, _⟩ := g.arm i hin
  have hsome : (step s (.recv i)).isSome = true := by simp [step, hp, hil, hrt, harm, hc, hav, hcl]
  obtain ⟨s', hs'⟩ := Option.isSome_iff_exists.mp hsome
  obtain ⟨_, _, _, a2, c2, ha2, hc2, hcase⟩ := step_recv hs'
  rw [harm] at ha2; cases ha2
  rw [hc] at hc2; cases hc2
  rcases hcase with ⟨v, rest, hav', _⟩ | ⟨_, _, rfl⟩
  · rw [hav] at hav'; cases hav'
  · refine ⟨_, hs', by simp [hz], ?_, rfl, rfl⟩
    simp only
    cases retAfterClose (pathOf s.n) a (if a.incs = true then s.nDone + 1 else s.nDone) <;> simp

/-- holding a value of input `i`, the hand-off to `out` is the only step of `Merge` (no further receive, no
return): the value received is the next value delivered -/
theorem hold_only_deliver {s : St V} {i : Nat} {v : V} (hp : s.pc = .hold i v) :
    step s .deliver = some { s with out := s.out ++ [(i, v)], pc := .top } ∧
    (∀ j, step s (.recv j) = none) ∧ step s .exit = none := by
  refine ⟨by simp [step, hp], fun j => by simp [step, hp], by simp [step, hp]⟩

/-- **Every step of `Merge` and of its consumer strictly decreases `muPre`; a producer's send raises it by two,
a producer's close leaves it unchanged.** -/
theorem muPre_step {n : Nat} (g : Good V n) {s s' : St V} {l : Label V} (hi : Inv n s)
    (h : step s l = some s') :
    (isEnvInput l = false → muPre s' < muPre s) ∧
    (∀ i v, l = .envSend i v → muPre s' = muPre s + 2) ∧ (∀ i, l = .envClose i → muPre s' = muPre s) := by
  have hn := hi.hn
  subst hn
  cases l with
  | envSend i v =>
    obtain ⟨c, hc, _, rfl⟩ := step_envSend h
    refine ⟨by simp [isEnvInput], ?_, by simp⟩
    intro _ _ _
    have := availSum_set s.ins i { c with avail := c.avail ++ [v], sent := c.sent ++ [v] } c hc
    simp at this
    simp only [muPre]; omega
  | envClose i =>
    obtain ⟨c, hc, _, rfl⟩ := step_envClose h
    refine ⟨by simp [isEnvInput], by simp, ?_⟩
    intro _ _
    have := availSum_set s.ins i { c with closed := true } c hc
    simp at this
    simp only [muPre]; omega
  | deliver =>
    obtain ⟨i, v, hp, rfl⟩ := step_deliver h
    refine ⟨fun _ => ?_, by simp, by simp⟩
    simp [muPre, hp, pcW]
  | exit =>
    obtain ⟨hp, _, rfl⟩ := step_exit h
    refine ⟨fun _ => ?_, by simp, by simp⟩
    simp [muPre, hp, pcW]
  | recv i =>
    refine ⟨fun _ => ?_, by simp, by simp⟩
    obtain ⟨hp, hil, hrt, a, c, ha, hc, hcase⟩ := step_recv h
    have hin : i < s.n := hi.liveLt i hil
    obtain ⟨a', ha', hf, hz, _, _⟩ := g.arm i hin
    rw [ha] at ha'; cases ha'
    rcases hcase with ⟨v, rest, hav, rfl⟩ | ⟨hav, hcl, rfl⟩
    · simp only [hf, g.nopanic v, if_true, Bool.false_eq_true, if_false]
      have := availSum_set s.ins i { c with avail := rest } c hc
      rw [hav] at this
      simp at this
      simp only [muPre, hp, pcW]; omega
    · simp only [hz, if_true]
      have hlen : (s.live.erase i).length = s.live.length - 1 := List.length_erase_of_mem hil
      have hpos : 0 < s.live.length := List.length_pos_of_mem hil
      have hw : ∀ b : Bool, pcW (if b = true then (Pc.done : Pc V) else Pc.top) ≤ 1 := by
        intro b; cases b <;> simp [pcW]
      have hw' := hw (retAfterClose (pathOf s.n) a (if a.incs = true then s.nDone + 1 else s.nDone))
      simp only [muPre, hp, pcW] at hw' ⊢
      omega

/-- between two inputs of the producers only finitely many steps happen: a run without `envSend` / `envClose`
from `s` has at most `muPre s` steps -/
theorem run_muPre {n : Nat} (g : Good V n) : ∀ (ls : List (Label V)) {s s' : St V}, Inv n s →
    run s ls = some s' → (∀ l ∈ ls, isEnvInput l = false) → ls.length + muPre s' ≤ muPre s
  | [], s, s', _, h, _ => by simp [run] at h; subst h; simp
  | l :: ls, s, s', hi, h, hl => by
    simp only [run] at h
    split at h
    · next s1 hs1 =>
      have h1 := (muPre_step g hi hs1).1 (hl l (by simp))
      have h2 := run_muPre g ls (inv_step g hi hs1) h (fun x hx => hl x (by simp [hx]))
      simp only [List.length_cons]; omega
    · simp at h

/-- no step of `Merge` itself (receive on any input, loop-top return) is enabled -/
def QuiescentOwn (s : St V) : Prop := (∀ i, step s (.recv i) = none) ∧ step s .exit = none

/-- **`Merge` is never stuck while an input has a value and the consumer is willing.** When no step of
`Merge` is enabled and it has not returned, either it is parked in `out <- item` (the consumer's turn), or it is
at the `select`, listens to at least one input, every input it listens to is open and empty, and no input it
has stopped listening to has anything receivable (the producers' turn). -/
theorem quiescent_cases {n : Nat} (g : Good V n) {s : St V} (hi : Inv n s) (hnd : s.pc ≠ .done)
    (hq : QuiescentOwn s) :
    (∃ i v, s.pc = .hold i v) ∨
    (s.pc = .top ∧ s.live ≠ [] ∧
      (∀ i, i ∈ s.live → ∃ c, s.ins[i]? = some c ∧ c.avail = [] ∧ c.closed = false) ∧
      (∀ (i : Nat) (c : Chan V), s.ins[i]? = some c → c.avail = [])) := by
  cases hp : s.pc with
  | hold i v => exact .inl ⟨i, v, rfl⟩
  | done => exact absurd hp hnd
  | panicked => exact absurd hp hi.noPanic
  | top =>
    right
    have hne : s.live ≠ [] := by
      intro hl
      have hr := hi.emptyLive hnd hl
      have : retAtTop (pathOf s.n) s.live.length = true := by
        rw [hi.hn]; exact (g.top _).mpr ⟨by rw [hl]; rfl, hr⟩
      have hx : step s .exit = some { s with pc := .done } := by simp [step, hp, this]
      rw [hq.2] at hx; cases hx
    have hlive : ∀ i, i ∈ s.live → ∃ c, s.ins[i]? = some c ∧ c.avail = [] ∧ c.closed = false := by
      intro i hil
      have hin := hi.liveLt i hil
      have hlen : i < s.ins.length := by rw [hi.len]; exact hin
      have hc : s.ins[i]? = some s.ins[i] := List.getElem?_eq_getElem hlen
      refine ⟨_, hc, ?_, ?_⟩
      · cases hav : s.ins[i].avail with
        | nil => rfl
        | cons v rest =>
          have := recv_value_enabled g hi hp hc hav
          rw [hq.1 i] at this; cases this
      · cases hcl : s.ins[i].closed with
        | false => rfl
        | true =>
          cases hav : s.ins[i].avail with
          | cons v rest =>
            have := recv_value_enabled g hi hp hc hav
            rw [hq.1 i] at this; cases this
          | nil =>
            obtain ⟨s', hs', _⟩ := recv_close_enabled g hi hp hc hav hcl hil
            rw [hq.1 i] at hs'; cases hs'
    refine ⟨rfl, hne, hlive, ?_⟩
    intro i c hc
    have hin : i < n := by
      have := (List.getElem?_eq_some_iff.mp hc).1
      rw [hi.len] at this; exact this
    by_cases hil : i ∈ s.live
    · obtain ⟨c', hc', h0, _⟩ := hlive i hil
      rw [hc] at hc'; cases hc'; exact h0
    · obtain ⟨c', hc', _, h0⟩ := hi.dead i hin hil
      rw [hc] at hc'; cases hc'; exact h0

end Juniper.Proofs.MergeChans

namespace Juniper.Proofs.Replicate
open Juniper.Model.Merge
variable {V : Type}

def rIsEnvInput : RLabel V → Bool
  | .envSend _ => true
  | .envClose => true
  | _ => false

def rpcW (m : Nat) : RPc V → Nat
  | .sending _ j => (m - j) + 1
  | .top => 1
  | .done => 0

/-- `m + 1` per receivable value of the source (one receive, `m` hand-offs) plus the hand-offs still owed of
the value being fanned out. -/
def rmu (s : RSt V) : Nat := (s.m + 1) * s.src.avail.length + rpcW s.m s.pc

/-- at `range src`, a receivable value is received: `Replicate` starts handing it to destination 0 (with no
destination it just goes on) -/
theorem rrecv_value_enabled {s : RSt V} (hp : s.pc = .top) {v : V} {rest : List V} (hav : s.src.avail = v :: rest) :
    rstep s .recv = some (if 0 < s.m then { s with src := { s.src with avail := rest }, pc := .sending v 0 }
                          else { s with src := { s.src with avail := rest } }) := by
  by_cases hm : 0 < s.m
  · simp [rstep, facts.1, facts.2, hp, hav, hm]
  · simp [rstep, facts.1, facts.2, hp, hav, hm]

/-- at `range src`, a closed and drained source makes `Replicate` return -/
theorem rrecv_close_enabled {s : RSt V} (hp : s.pc = .top) (hav : s.src.avail = []) (hcl : s.src.closed = true) :
    rstep s .recv = some { s with pc := .done } := by
  simp [rstep, facts.1, hp, hav, hcl]

/-- handing `v` to destination `j`, the hand-off is the only step of `Replicate`: it appends `v` to what `j`
has received and moves on to destination `j + 1`, or back to `range src` after the last one -/
theorem sending_only_deliver {m : Nat} {s : RSt V} (hi : RInv m s) {v : V} {j : Nat} (hp : s.pc = .sending v j) :
    (∃ o, s.outs[j]? = some o ∧
      rstep s .deliver = some { s with outs := s.outs.set j (o ++ [v]), pc := rAfter s.m v j }) ∧
    rstep s .recv = none := by
  have hj := hi.sendingLt v j hp
  have hlen : j < s.outs.length := by rw [hi.len]; exact hj
  have ho : s.outs[j]? = some s.outs[j] := List.getElem?_eq_getElem hlen
  exact ⟨⟨_, ho, by simp [rstep, hp, ho]⟩, by simp [rstep, hp]⟩

/-- **Every step of `Replicate` and of the destinations strictly decreases `rmu`; a send on `src` raises it by
`m + 1`, closing `src` leaves it unchanged.** -/
theorem rmu_step {m : Nat} {s s' : RSt V} {l : RLabel V} (hi : RInv m s) (h : rstep s l = some s') :
    (rIsEnvInput l = false → rmu s' < rmu s) ∧
    (∀ v, l = .envSend v → rmu s' = rmu s + (m + 1)) ∧ (l = .envClose → rmu s' = rmu s) := by
  have hm := hi.hm
  subst hm
  cases l with
  | envSend v =>
    simp only [rstep] at h
    split at h
    · simp at h
    · simp at h; subst h
      refine ⟨by simp [rIsEnvInput], fun _ _ => ?_, by simp⟩
      simp only [rmu, List.length_append, List.length_cons, List.length_nil]
      rw [Nat.mul_add]; omega
  | envClose =>
    simp only [rstep] at h
    split at h
    · simp at h
    · simp at h; subst h
      exact ⟨by simp [rIsEnvInput], by simp, fun _ => rfl⟩
  | recv =>
    refine ⟨fun _ => ?_, by simp, by simp⟩
    obtain ⟨hp, hcase⟩ := rstep_recv h
    rcases hcase with ⟨v, rest, hav, rfl⟩ | ⟨hav, hcl, rfl⟩
    · by_cases hm : 0 < s.m
      · simp only [hm, if_true, rmu, hp, hav, rpcW, List.length_cons]
        rw [Nat.mul_succ]; omega
      · simp only [hm, if_false, rmu, hp, hav, rpcW, List.length_cons]
        rw [Nat.mul_succ]; omega
    · simp [rmu, hp, rpcW]
  | deliver =>
    refine ⟨fun _ => ?_, by simp, by simp⟩
    obtain ⟨v, j, o, hp, ho, rfl⟩ := rstep_deliver h
    have hj := hi.sendingLt v j hp
    by_cases hlast : j + 1 < s.m
    · simp only [rmu, hp, rpcW, rAfter, hlast, if_true]; omega
    · simp only [rmu, hp, rpcW, rAfter, hlast, if_false]; omega

theorem rrun_rmu {m : Nat} : ∀ (ls : List (RLabel V)) {s s' : RSt V}, RInv m s →
    rrun s ls = some s' → (∀ l ∈ ls, rIsEnvInput l = false) → ls.length + rmu s' ≤ rmu s
  | [], s, s', _, h, _ => by simp [rrun] at h; subst h; simp
  | l :: ls, s, s', hi, h, hl => by
    simp only [rrun] at h
    split at h
    · next s1 hs1 =>
      have h1 := (rmu_step hi hs1).1 (hl l (by simp))
      have h2 := rrun_rmu ls (rinv_step hi hs1) h (fun x hx => hl x (by simp [hx]))
      simp only [List.length_cons]; omega
    · simp at h

/-- **The value taken from `src` reaches every remaining destination, in order of the destinations.** From
`sending v j`, the `m - j` hand-offs (destinations `j, j+1, …, m-1`, each needing only its receiver) append `v`
to exactly those destinations and bring `Replicate` back to `range src`; nothing else changes. -/
theorem fanout {m : Nat} : ∀ (d : Nat) (s : RSt V) (v : V) (j : Nat), RInv m s → s.pc = .sending v j → m - j = d →
    ∃ s', rrun s (List.replicate d .deliver) = some s' ∧ s'.pc = .top ∧ s'.src = s.src ∧
      s'.outs.length = s.outs.length ∧
      ∀ (j' : Nat) (o : List V), s.outs[j']? = some o → s'.outs[j']? = some (if j ≤ j' then o ++ [v] else o)
  | 0, s, v, j, hi, hp, hd => by
    have := hi.sendingLt v j hp
    omega
  | d + 1, s, v, j, hi, hp, hd => by
    have hj := hi.sendingLt v j hp
    obtain ⟨⟨o, ho, hst⟩, _⟩ := sending_only_deliver hi hp
    have hm := hi.hm
    by_cases hlast : j + 1 < m
    · have hp1 : ({ s with outs := s.outs.set j (o ++ [v]), pc := rAfter s.m v j } : RSt V).pc = .sending v (j + 1) := by
        simp [rAfter, hm, hlast]
      obtain ⟨s', hrun, hpc, hsrc, hlen, houts⟩ := fanout d _ v (j + 1) (rinv_step hi hst) hp1 (by omega)
      refine ⟨s', by simp [List.replicate_succ, rrun, hst, hrun], hpc, hsrc, by simpa using hlen, ?_⟩
      intro j' o' ho'
      by_cases hjj : j = j'
      · subst hjj
        rw [ho] at ho'; cases ho'
        have hlt := (List.getElem?_eq_some_iff.mp ho).1
        have := houts j (o ++ [v]) (by simp [List.getElem?_set, hlt])
        have h2 : ¬ j + 1 ≤ j := by omega
        simp only [h2, if_false] at this
        simp only [Nat.le_refl, if_true]; exact this
      · have := houts j' o' (by simp [List.getElem?_set, hjj, ho'])
        rw [this]
        by_cases h1 : j ≤ j'
        · have h2 : j + 1 ≤ j' := by omega
          simp [h1, h2]
        · have h2 : ¬ j + 1 ≤ j' := by omega
          simp [h1, h2]
    · have hd0 : d = 0 := by omega
      subst hd0
      refine ⟨{ s with outs := s.outs.set j (o ++ [v]), pc := rAfter s.m v j }, by simp [List.replicate, rrun, hst],
        by simp [rAfter, hm, hlast], rfl, by simp, ?_⟩
      intro j' o' ho'
      have hj' : j' < m := by
        have := (List.getElem?_eq_some_iff.mp ho').1
        rw [hi.len] at this; exact this
      by_cases hjj : j = j'
      · subst hjj
        rw [ho] at ho'; cases ho'
        have hlt := (List.getElem?_eq_some_iff.mp ho).1
        simp [List.getElem?_set, hlt]
      · have h1 : ¬ j ≤ j' := by omega
        simp [List.getElem?_set, hjj, ho', h1]

/-- **`Replicate` is never stuck while the source has a value and the destinations are willing.** When its
receive is not enabled and it has not returned, either it is parked in `dst <- item` for some destination
`j < m` (that destination's turn), or it is at `range src` and `src` is open and empty (the producer's turn). -/
theorem rquiescent_cases {m : Nat} {s : RSt V} (hi : RInv m s) (hnd : s.pc ≠ .done) (hq : rstep s .recv = none) :
    (∃ v j, s.pc = .sending v j ∧ j < m) ∨ (s.pc = .top ∧ s.src.avail = [] ∧ s.src.closed = false) := by
  cases hp : s.pc with
  | sending v j => exact .inl ⟨v, j, rfl, hi.sendingLt v j hp⟩
  | done => exact absurd hp hnd
  | top =>
    right
    cases hav : s.src.avail with
    | cons v rest =>
      have := rrecv_value_enabled hp hav
      rw [hq] at this; cases this
    | nil =>
      refine ⟨rfl, rfl, ?_⟩
      cases hcl : s.src.closed with
      | false => rfl
      | true =>
        have := rrecv_close_enabled hp hav hcl
        rw [hq] at this; cases this

end Juniper.Proofs.Replicate
