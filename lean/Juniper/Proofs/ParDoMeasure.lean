import Juniper.Proofs.ParDoFinal
/-! Progress measure of the `parallel.Do` / `DoContext` LTS (`Model/ParDo.lean`).

`phi cfg s` is strictly decreased by **every** step of the LTS — the internal ones (`fetch`, `check`,
`begin`, `egDone`, `ret`) and the environment's (`fEnd`: a call of `f` returns; `callerCancel`). Hence
every run of the system from the initial state, whatever the schedule and whatever the environment does,
has at most `phi cfg (init cfg) ≤ 4·n + 2·workers + 2` steps. -/
set_option linter.unusedSimpArgs false
set_option linter.unusedVariables false

namespace Juniper.Proofs.ParDo.M
open Juniper.Gen Juniper.Model.ParDo Juniper.Proofs.ParDo

def wRank : Pc → Nat
  | .check _ => 5
  | .call _ => 4
  | .inF _ => 3
  | .fetch => 2
  | .retErr _ => 1
  | .done => 0

def wSum : List Pc → Nat
  | [] => 0
  | x :: xs => wRank x + wSum xs

def bit (b : Bool) : Nat := if b then 1 else 0

/-- indices not yet handed out: the shared counter `x` (parallel path) / the loop variable (sequential
path) is below `n - 1` by this much -/
def remaining (cfg : Cfg) (s : St) : Nat := ((cfg.n : Int) - 1 - s.x).toNat

/-- weight of one index still to be handed out: fetch, check, begin, return of `f` -/
def idxWeight : Nat := 4

def phi (cfg : Cfg) (s : St) : Nat :=
  idxWeight * remaining cfg s + wSum s.ws + bit s.ret.isNone + bit (!s.callerCancelled)

theorem wRank_eqs : (∀ i, wRank (.check i) = 5) ∧ (∀ i, wRank (.call i) = 4) ∧ (∀ i, wRank (.inF i) = 3) ∧
    wRank .fetch = 2 ∧ (∀ e, wRank (.retErr e) = 1) ∧ wRank .done = 0 := by simp [wRank]
theorem bit_eqs : bit true = 1 ∧ bit false = 0 := by simp [bit]

theorem wSum_set {ws : List Pc} {w : Nat} {a b : Pc} (h : ws[w]? = some b) :
    wSum (ws.set w a) + wRank b = wSum ws + wRank a := by
  induction ws generalizing w with
  | nil => simp at h
  | cons x xs ih =>
    cases w with
    | zero => simp at h; subst h; simp [List.set, wSum]; omega
    | succ w =>
      simp at h
      have := ih h
      simp [List.set, wSum]; omega

theorem wSum_set' {ws : List Pc} {w : Nat} {b : Pc} (h : ws[w]? = some b) :
    wRank b ≤ wSum ws ∧ ∀ a, wSum (ws.set w a) = wSum ws - wRank b + wRank a := by
  refine ⟨?_, fun a => ?_⟩
  · have := wSum_set (a := Pc.done) h; simp only [wRank_eqs] at this; omega
  · have := wSum_set (a := a) h
    have := wSum_set (a := Pc.done) h; simp only [wRank_eqs] at this; omega

theorem wRank_ite (c : Prop) [Decidable c] (a b : Pc) : wRank (if c then a else b) = if c then wRank a else wRank b := by
  split <;> rfl

syntax "phi_w" : tactic
macro_rules
  | `(tactic| phi_w) =>
    `(tactic| (
       have hw := ‹_[_]? = some _›
       have ⟨h0, h1⟩ := wSum_set' hw
       simp only [wRank_eqs] at h0
       try simp only [Bool.and_eq_true, Bool.or_eq_true, decide_eq_true_eq, Bool.not_eq_true, ge_iff_le, Bool.not_eq_true',
         decide_eq_false_iff_not] at *
       simp only [phi, remaining, idxWeight, h1, wRank_ite, wRank_eqs, bit_eqs, *]
       first | omega | (split <;> omega)))

/-- **Every step strictly decreases `phi`.** -/
theorem phi_decreases {cfg : Cfg} (hs : cfg.code.Sound) {s s' : St} {l : Label} (h : step cfg s l = some s') :
    phi cfg s' < phi cfg s := by
  have hd := hs.counterDelta
  have hf := hs.fetch
  have hwd := hs.workerDone
  have hsl := hs.seqLoop
  have hsp := hs.seqPost
  have hen := effN_eq hs
  cases l with
  | fetch w => pardo_cases h => (simp only [hd, hf, hwd, hen] at *; phi_w)
  | check w => pardo_cases h => phi_w
  | begin w => pardo_cases h => phi_w
  | fEnd w r => pardo_cases h => (simp only [hsl, hsp, hen] at *; phi_w)
  | egDone w => pardo_cases h => phi_w
  | callerCancel =>
    pardo_cases h =>
      (simp only [Bool.or_eq_true, Bool.not_eq_true', not_or, Bool.not_eq_true] at *
       simp only [phi, remaining, idxWeight, bit_eqs, Bool.not_true, Bool.not_false, *]
       omega)
  | ret =>
    pardo_cases h =>
      (try simp only [Option.isSome_eq_false_iff, Option.isNone_iff_eq_none, Bool.not_eq_true] at *
       simp only [phi, remaining, idxWeight, bit_eqs, wSum, wRank_eqs, Option.isNone_some, Option.isNone_none, *]
       omega)

/-! ## runs -/

theorem run_phi {cfg : Cfg} (hs : cfg.code.Sound) {ls : List Label} : ∀ {s s' : St}, run cfg s ls = some s' →
    ls.length + phi cfg s' ≤ phi cfg s := by
  induction ls with
  | nil => intro s s' h; simp [run] at h; subst h; simp
  | cons l ls ih =>
    intro s s' h
    simp only [run] at h
    split at h
    · next s1 hs1 =>
      have h1 := phi_decreases hs hs1
      have h2 := ih h
      simp only [List.length_cons]; omega
    · simp at h

theorem wSum_replicate (n : Nat) (pc : Pc) : wSum (List.replicate n pc) = n * wRank pc := by
  induction n with
  | zero => simp [wSum]
  | succ n ih => simp only [List.replicate_succ, wSum, ih, Nat.succ_mul]; omega

/-- the measure of the initial state: `4·n + 2·workers + 2` on the parallel path, at most `4·n + 2` on
the sequential one -/
theorem phi_init_le {cfg : Cfg} (hs : cfg.code.Sound) : phi cfg (init cfg) ≤ 4 * cfg.n + 2 * nW cfg + 2 := by
  unfold init nW
  split
  · by_cases h0 : 0 < cfg.n <;>
      simp [phi, remaining, idxWeight, hs.seqLoop, hs.seqInit, hs.seqPost, effN_eq hs, wSum, wRank, bit, h0] <;> omega
  · simp only [phi, remaining, idxWeight, hs.counterInit, wSum_replicate, wRank_eqs, bit_eqs, Option.isNone_none,
      Bool.not_false]
    omega

/-! ## the sequential path never holds a parallel-path program counter -/

def seqOk : Pc → Bool
  | .fetch => false
  | .check _ => false
  | _ => true

structure InvSeq (cfg : Cfg) (s : St) : Prop where
  Q : s.seq = true → ∀ pc ∈ s.ws, seqOk pc = true

theorem invSeq_init (cfg : Cfg) : InvSeq cfg (init cfg) := by
  unfold init
  split
  · refine ⟨fun _ pc hpc => ?_⟩
    simp at hpc; subst hpc; split <;> rfl
  · exact ⟨fun h => by simp at h⟩

theorem invSeq_step {cfg : Cfg} {s s' : St} {l : Label} (hi : InvSeq cfg s)
    (h : step cfg s l = some s') : InvSeq cfg s' := by
  have iQ := hi.Q
  cases l with
  | fetch w | check w | begin w | fEnd w r | egDone w =>
    pardo_cases h =>
      (refine ⟨fun hseq pc hpc => ?_⟩
       rcases mem_set_cases hpc with rfl | hm
       · first | rfl | (split <;> rfl) | (simp_all)
       · exact iQ (by simp_all) pc hm)
  | callerCancel => pardo_cases h => exact ⟨iQ⟩
  | ret =>
    pardo_cases h =>
      first
        | exact ⟨iQ⟩
        | (refine ⟨fun hseq pc hpc => ?_⟩; simp at hpc; subst hpc; rfl)

theorem invSeq {cfg : Cfg} {s : St} (h : Reach cfg s) : InvSeq cfg s := by
  induction h with
  | init => exact invSeq_init cfg
  | step _ hstep ih => exact invSeq_step ih hstep

/-! ## quiescence -/

/-- no internal step of the library is enabled -/
def Quiescent (cfg : Cfg) (s : St) : Prop := ∀ l, l.isEnv = false → step cfg s l = none

theorem running_pos_of {s : St} {w i : Nat} (hw : s.ws[w]? = some (Pc.inF i)) : 0 < running s := by
  unfold running
  exact List.countP_pos_iff.2 ⟨Pc.inF i, List.mem_of_getElem? hw, rfl⟩

/-- a worker that has not finished and is not inside `f` can take a step -/
theorem worker_enabled {cfg : Cfg} (hs : cfg.code.Sound) {s : St} (hI : InvSeq cfg s) {w : Nat} {pc : Pc}
    (hw : s.ws[w]? = some pc) (hnd : pc ≠ .done) (hnf : ∀ i, pc ≠ .inF i) (hne : ∀ e, pc = .retErr e → s.seq = false) :
    ∃ l, l.isEnv = false ∧ (step cfg s l).isSome = true := by
  have hok : s.seq = true → seqOk pc = true := fun hq => hI.Q hq pc (List.mem_of_getElem? hw)
  cases pc with
  | done => exact absurd rfl hnd
  | inF i => exact absurd rfl (hnf i)
  | fetch =>
    have hseq : s.seq = false := by cases hq : s.seq <;> simp_all [seqOk]
    refine ⟨.fetch w, rfl, ?_⟩
    simp only [step, hw, hseq, Bool.false_eq_true, if_false]
    repeat' split
    all_goals simp
  | check i =>
    have hseq : s.seq = false := by cases hq : s.seq <;> simp_all [seqOk]
    refine ⟨.check w, rfl, ?_⟩
    simp only [step, hw, hseq, Bool.false_eq_true, if_false]
    repeat' split
    all_goals simp
  | call i => exact ⟨.begin w, rfl, by simp [step, hw]⟩
  | retErr e =>
    have hseq := hne e rfl
    refine ⟨.egDone w, rfl, ?_⟩
    simp only [step, hw, hseq, Bool.false_eq_true, if_false]
    repeat' split
    all_goals simp

/-- **No stuck call.** In a reachable state in which the call has not returned, an internal step is
enabled or a call of `f` is running. -/
theorem progress {cfg : Cfg} (hs : cfg.code.Sound) {s : St} (h : Reach cfg s) (hret : s.ret = none) :
    (∃ l, l.isEnv = false ∧ (step cfg s l).isSome = true) ∨ 0 < running s := by
  have hI := invSeq h
  have h1 := inv1 hs h
  by_cases hrun : 0 < running s
  · exact Or.inr hrun
  refine Or.inl ?_
  have hnf : ∀ w i, s.ws[w]? ≠ some (Pc.inF i) := fun w i hw => hrun (running_pos_of hw)
  cases hseq : s.seq with
  | true =>
    have hlen : s.ws.length = 1 := by
      have := h1.len; have hq := h1.seq; rw [hseq] at hq; simp [nW, ← hq] at this; exact this
    match hws : s.ws, hlen with
    | [pc], _ =>
      cases pc with
      | done => exact ⟨.ret, rfl, by simp [step, hret, hseq, hws]⟩
      | retErr e => exact ⟨.ret, rfl, by simp [step, hret, hseq, hws]⟩
      | inF i => exact absurd (by simp [hws]) (hnf 0 i)
      | call i => exact worker_enabled hs hI (w := 0) (pc := .call i) (by simp [hws]) (by simp) (by simp) (by simp)
      | fetch => have := hI.Q hseq .fetch (by simp [hws]); simp [seqOk] at this
      | check i => have := hI.Q hseq (.check i) (by simp [hws]); simp [seqOk] at this
  | false =>
    by_cases hall : allDone s.ws = true
    · exact ⟨.ret, rfl, by simp [step, hret, hseq, hall]⟩
    · simp only [allDone, List.all_eq_true] at hall
      obtain ⟨pc, hpc'⟩ := Classical.not_forall.1 hall
      obtain ⟨hpc, hnd⟩ := Classical.not_imp.1 hpc'
      obtain ⟨w, hw⟩ := List.getElem?_of_mem hpc
      refine worker_enabled hs hI hw ?_ (fun i hi => hnf w i (hi ▸ hw)) (fun _ _ => hseq)
      intro hd; subst hd; simp at hnd

/-- `f` can always return -/
theorem fEnd_enabled {cfg : Cfg} {s : St} (hrun : 0 < running s) :
    ∃ w s', step cfg s (.fEnd w (.ok 0)) = some s' := by
  obtain ⟨pc, hpc, hp⟩ := List.countP_pos_iff.1 hrun
  obtain ⟨w, hw⟩ := List.getElem?_of_mem hpc
  cases pc with
  | inF i =>
    refine ⟨w, Option.isSome_iff_exists.1 ?_⟩
    simp only [step, hw, Res.isErr, Bool.false_and, Bool.false_eq_true, if_false]
    repeat' split
    all_goals simp
  | _ => simp at hp

/-- **The call returns.** From every reachable state there is a run, made of internal steps and returns
of `f` only, at the end of which `Do` / `DoContext` has returned. -/
theorem exists_return_run {cfg : Cfg} (hs : cfg.code.Sound) : ∀ (n : Nat) (s : St), Reach cfg s → phi cfg s ≤ n →
    ∃ ls s', (∀ l ∈ ls, l.isEnv = false ∨ ∃ w r, l = .fEnd w r) ∧ run cfg s ls = some s' ∧ s'.ret.isSome = true := by
  intro n
  induction n with
  | zero =>
    intro s h hn
    cases hret : s.ret with
    | some r => exact ⟨[], s, by simp, rfl, by simp [hret]⟩
    | none =>
      rcases progress hs h hret with ⟨l, _, hen⟩ | hrun
      · obtain ⟨s1, hst⟩ := Option.isSome_iff_exists.1 hen
        have := phi_decreases hs hst; omega
      · obtain ⟨w, s1, hst⟩ := fEnd_enabled (cfg := cfg) hrun
        have := phi_decreases hs hst; omega
  | succ n ih =>
    intro s h hn
    cases hret : s.ret with
    | some r => exact ⟨[], s, by simp, rfl, by simp [hret]⟩
    | none =>
      have key : ∃ l s1, (l.isEnv = false ∨ ∃ w r, l = .fEnd w r) ∧ step cfg s l = some s1 := by
        rcases progress hs h hret with ⟨l, hl, hen⟩ | hrun
        · obtain ⟨s1, hst⟩ := Option.isSome_iff_exists.1 hen
          exact ⟨l, s1, Or.inl hl, hst⟩
        · obtain ⟨w, s1, hst⟩ := fEnd_enabled (cfg := cfg) hrun
          exact ⟨_, s1, Or.inr ⟨w, _, rfl⟩, hst⟩
      obtain ⟨l, s1, hl, hst⟩ := key
      have hd := phi_decreases hs hst
      obtain ⟨ls, s', h1, h2, h3⟩ := ih s1 (Reach.step h hst) (by omega)
      refine ⟨l :: ls, s', ?_, by simp [run, hst, h2], h3⟩
      intro x hx
      rcases List.mem_cons.1 hx with rfl | hx
      · exact hl
      · exact h1 x hx

end Juniper.Proofs.ParDo.M
