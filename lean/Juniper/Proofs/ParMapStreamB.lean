import Juniper.Proofs.ParMapStreamA
/-! Inductive invariants of the MapStream LTS, part 2: how workers leave, and the per-index placement
invariant (every dispatched index is in exactly one of: yielded, held by a worker, in `c`, in the
reorder buffer, dropped). -/
set_option linter.unusedSimpArgs false
set_option linter.unusedVariables false

namespace Juniper.Proofs.ParMap.S
open Juniper.Gen Juniper.Facts Juniper.Model.ParMap Juniper.Model.ParMap.Stream Juniper.Proofs.ParMap

/-- how workers leave: a finished worker means `in` is closed or the context is done -/
structure InvC (cfg : Cfg) (s : St) : Prop where
  G : s.egErr ≠ none → s.ctxCause ≠ none
  W1 : 0 < cnt wDone s.ws → s.inClosed = true ∨ s.ctxCause ≠ none
  W2 : 0 < cnt wExitNone s.ws → s.inClosed = true
  Dr : s.dropped ≠ [] → 0 < cnt wExited s.ws

theorem invC_init (cfg : Cfg) : InvC cfg (Stream.init cfg) := by
  refine ⟨?_, ?_, ?_, ?_⟩ <;> simp [Stream.init, wDone, wExitNone, wExited]

syntax "invC_worker " ident : tactic
macro_rules
  | `(tactic| invC_worker $hi:ident) =>
    `(tactic| (
         have hw := ‹_[_]? = some _›
         have g1 := cnt_ge wDone hw
         have g2 := cnt_ge wExitNone hw
         have g3 := cnt_ge wExited hw
         have ⟨iG, iW1, iW2, iDr⟩ := $hi
         refine ⟨?_, ?_, ?_, ?_⟩ <;>
           simp [Option.isSome_iff_ne_none, egRecord, cnt_set hw, wDone, wExitNone, wExited, ctxDone] at * <;> grind))

theorem invC_step {cfg : Cfg} {s s' : St} {l : Label} (hi : InvC cfg s)
    (h : Stream.step cfg s l = some s') : InvC cfg s' := by
  cases l with
  | dSend w => stream_cases h => invC_worker hi
  | fRet w r => stream_cases h => invC_worker hi
  | wSendC w => stream_cases h => invC_worker hi
  | wSendCtx w => stream_cases h => invC_worker hi
  | wExitIdle w => stream_cases h => invC_worker hi
  | wDefer w => stream_cases h => invC_worker hi
  | wEgDone w => stream_cases h => invC_worker hi
  | _ =>
    stream_cases h =>
      (have ⟨iG, iW1, iW2, iDr⟩ := hi
       refine ⟨?_, ?_, ?_, ?_⟩ <;>
         simp [Option.isSome_iff_ne_none, egRecord, ctxDone] at * <;> grind)

theorem invC {cfg : Cfg} {s : St} (h : Reach cfg s) : InvC cfg s := by
  induction h with
  | init => exact invC_init cfg
  | step _ hstep ih => exact invC_step ih hstep


def wHolds (k : Nat) : WPc → Bool
  | .inF j => j == k
  | .sendC j _ => j == k
  | _ => false
def wInF (k : Nat) : WPc → Bool
  | .inF j => j == k
  | _ => false

/-- occurrences of index `k` in a list of `(index, value)` pairs -/
def icnt (k : Nat) (l : List (Nat × Nat)) : Nat := cnt (fun kv => kv.1 == k) l
/-- occurrences of `k` in a list of indices -/
def ncnt (k : Nat) (l : List Nat) : Nat := cnt (fun j => j == k) l

@[simp] theorem icnt_nil (k : Nat) : icnt k [] = 0 := rfl
@[simp] theorem icnt_snoc (k : Nat) (l : List (Nat × Nat)) (a : Nat × Nat) :
    icnt k (l ++ [a]) = icnt k l + b2n (a.1 == k) := by simp [icnt, b2n]
@[simp] theorem icnt_cons (k : Nat) (l : List (Nat × Nat)) (a : Nat × Nat) :
    icnt k (a :: l) = icnt k l + b2n (a.1 == k) := by simp [icnt, b2n]
@[simp] theorem ncnt_nil (k : Nat) : ncnt k [] = 0 := rfl
@[simp] theorem ncnt_snoc (k : Nat) (l : List Nat) (a : Nat) :
    ncnt k (l ++ [a]) = ncnt k l + b2n (a == k) := by simp [ncnt, b2n]

theorem icnt_pos_of_mem {k v : Nat} {l : List (Nat × Nat)} (h : (k, v) ∈ l) : 0 < icnt k l := by
  unfold icnt cnt
  exact List.countP_pos_iff.2 ⟨(k, v), h, by simp⟩

theorem mem_of_icnt_pos {k : Nat} {l : List (Nat × Nat)} (h : 0 < icnt k l) : ∃ v, (k, v) ∈ l := by
  unfold icnt at h
  obtain ⟨⟨j, v⟩, hm, hj⟩ := cnt_pos h
  simp at hj; subst hj
  exact ⟨v, hm⟩

/-- popping the entry found for index `m` removes exactly one occurrence of that index -/
theorem icnt_eraseP_of_find {l : List (Nat × Nat)} {m k v : Nat}
    (hf : l.find? (fun kv => kv.1 == m) = some (k, v)) :
    k = m ∧ (k, v) ∈ l ∧ ∀ j, icnt j (l.eraseP (fun kv => kv.1 == k)) + b2n (k == j) = icnt j l := by
  have hk : k = m := by have := List.find?_some hf; simpa using this
  subst hk
  refine ⟨rfl, List.mem_of_find?_eq_some hf, ?_⟩
  intro j
  induction l with
  | nil => simp at hf
  | cons x xs ih =>
    by_cases hx : x.1 = k
    · have e : List.eraseP (fun kv : Nat × Nat => kv.1 == k) (x :: xs) = xs := by
        simp [List.eraseP_cons, hx]
      rw [e]
      simp [hx, b2n]
    · have e : List.eraseP (fun kv : Nat × Nat => kv.1 == k) (x :: xs) = x :: List.eraseP (fun kv : Nat × Nat => kv.1 == k) xs := by
        simp [List.eraseP_cons, hx]
      rw [e]
      have hf' : xs.find? (fun kv => kv.1 == k) = some (k, v) := by
        simpa [List.find?_cons, hx] using hf
      have := ih hf'
      simp only [icnt_cons]; omega


def ecnt (k : Nat) (l : List (Nat × Res)) : Nat := cnt (fun e => e.1 == k) l
@[simp] theorem ecnt_nil (k : Nat) : ecnt k [] = 0 := rfl
@[simp] theorem ecnt_snoc (k : Nat) (l : List (Nat × Res)) (a : Nat × Res) :
    ecnt k (l ++ [a]) = ecnt k l + b2n (a.1 == k) := by simp [ecnt, b2n]

/-- every dispatched index is in exactly one place; `f` begins once and ends at most once per index -/
structure InvP (cfg : Cfg) (s : St) : Prop where
  P : ∀ k, b2n (decide (k < s.i)) + cnt (wHolds k) s.ws + icnt k s.c + icnt k s.heap + ncnt k s.dropped
        = b2n (decide (k < s.dispI))
  Q1 : ∀ k, icnt k s.fBegun = b2n (decide (k < s.dispI))
  Q2 : ∀ k, ecnt k s.fEnded + cnt (wInF k) s.ws = b2n (decide (k < s.dispI))

theorem invP_init (cfg : Cfg) : InvP cfg (Stream.init cfg) := by
  refine ⟨?_, ?_, ?_⟩ <;> simp [Stream.init, b2n, wHolds, wInF]

syntax "invP_worker " ident : tactic
macro_rules
  | `(tactic| invP_worker $hi:ident) =>
    `(tactic| (
         have hw := ‹_[_]? = some _›
         have ⟨iP, iQ1, iQ2⟩ := $hi
         refine ⟨?_, ?_, ?_⟩ <;> intro k
         · have g1 := cnt_ge (wHolds k) hw
           have := iP k
           simp [egRecord, cnt_set hw, b2n, wHolds] at * <;> grind
         · have := iQ1 k
           simp [egRecord, b2n] at * <;> grind
         · have g1 := cnt_ge (wInF k) hw
           have := iQ2 k
           simp [egRecord, cnt_set hw, b2n, wInF] at * <;> grind))

theorem invP_step {cfg : Cfg} (hs : cfg.code.Sound) {s s' : St} {l : Label} (hi : InvP cfg s)
    (h : Stream.step cfg s l = some s') : InvP cfg s' := by
  cases l with
  | dSend w => stream_cases h => invP_worker hi
  | fRet w r => stream_cases h => invP_worker hi
  | wSendC w => stream_cases h => invP_worker hi
  | wSendCtx w => stream_cases h => invP_worker hi
  | wExitIdle w => stream_cases h => invP_worker hi
  | wDefer w => stream_cases h => invP_worker hi
  | wEgDone w => stream_cases h => invP_worker hi
  | cRecv =>
    stream_cases h =>
      (have ⟨iP, iQ1, iQ2⟩ := hi
       have hc := ‹s.c = _ :: _›
       refine ⟨?_, iQ1, iQ2⟩
       intro k; have := iP k
       simp [hc, b2n] at * <;> grind)
  | cYield =>
    stream_cases h =>
      (have ⟨iP, iQ1, iQ2⟩ := hi
       have hf := ‹List.find? _ s.heap = some _›
       have hcy := ‹canYield cfg s = true›
       have ⟨hk, hmem, hcount⟩ := icnt_eraseP_of_find hf
       simp [canYield, hs.nextReady] at hcy
       refine ⟨?_, iQ1, iQ2⟩
       intro j; have := iP j; have := hcount j
       simp [b2n] at * <;> grind)
  | _ =>
    stream_cases h =>
      (have ⟨iP, iQ1, iQ2⟩ := hi
       first
       | exact ⟨iP, iQ1, iQ2⟩
       | (refine ⟨?_, ?_, ?_⟩ <;> intro k <;> simp [egRecord] <;> first | exact iP k | exact iQ1 k | exact iQ2 k))

theorem invP {cfg : Cfg} (hs : cfg.code.Sound) {s : St} (h : Reach cfg s) : InvP cfg s := by
  induction h with
  | init => exact invP_init cfg
  | step _ hstep ih => exact invP_step hs ih hstep

end Juniper.Proofs.ParMap.S
