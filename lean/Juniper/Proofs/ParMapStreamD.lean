import Juniper.Proofs.ParMapStreamC
/-! Inductive invariants of the MapStream LTS, part 4: error provenance — what errgroup records, what a
goroutine returns and what `Next` reports is an error that `f` or the source returned (or the parent
context's error after the caller cancelled it), never a cancellation the library caused itself. -/
set_option linter.unusedSimpArgs false
set_option linter.unusedVariables false

namespace Juniper.Proofs.ParMap.S
open Juniper.Gen Juniper.Facts Juniper.Model.ParMap Juniper.Model.ParMap.Stream Juniper.Proofs.ParMap

/-- an error that a call of `f` or the source actually returned, or the error of the context the
caller passed to MapStream after the caller cancelled it -/
def genuine (s : St) (e : Err) : Prop :=
  (∃ k idx, e = .f k ∧ (idx, Res.err k) ∈ s.fEnded) ∨ (∃ k, e = .src k ∧ s.srcErr = some k) ∨
    (e = .ctxParent ∧ s.parentCancelled = true)
def okErr (s : St) (e : Err) : Prop := genuine s e ∨ (e = .ctxClose ∧ s.closeCalled = true)
def heldErr (s : St) (e : Err) : Prop := okErr s e ∨ (e = .ctxLib ∧ s.egErr ≠ none)

def dHeld : DPc → Option Err
  | .exiting r => r
  | .srcClosing r => r
  | .egRet r => r
  | _ => none
def wHeld : WPc → Option Err
  | .exiting r => r
  | .egRet r => r
  | _ => none

theorem cause_err_cases (c : Cause) :
    (c = .parent ∧ c.err = .ctxParent) ∨ (c = .close ∧ c.err = .ctxClose) ∨ (c = .lib ∧ c.err = .ctxLib) := by
  cases c <;> simp [Cause.err]

/-- error provenance -/
structure InvE (cfg : Cfg) (s : St) : Prop where
  SE : s.srcErr ≠ none → dExited s.disp = true
  E1 : ∀ e, s.egErr = some e → okErr s e
  E2 : ∀ e, dHeld s.disp = some e → heldErr s e
  E3 : ∀ e pc, pc ∈ s.ws → wHeld pc = some e → heldErr s e
  E4 : ∀ e, NextRes.err e ∈ s.results → genuine s e

theorem invE_init (cfg : Cfg) : InvE cfg (Stream.init cfg) := by
  refine ⟨?_, ?_, ?_, ?_, ?_⟩ <;> simp [Stream.init, dHeld, wHeld]

syntax "invE_worker " ident ident : tactic
macro_rules
  | `(tactic| invE_worker $hi:ident $hb:ident) =>
    `(tactic| (
         have hw := ‹_[_]? = some _›
         have hmem := List.mem_of_getElem? hw
         have ⟨iSE, iE1, iE2, iE3, iE4⟩ := $hi
         have ⟨iND, iCC, iEL, iCL, iCA⟩ := $hb
         refine ⟨?_, ?_, ?_, ?_, ?_⟩
         · simp [egRecord, dExited] at * <;> grind
         · intro e he; have := iE1 e; have := iE3 e _ hmem
           simp [egRecord, Option.isSome_iff_ne_none, wHeld, dHeld, okErr, heldErr, genuine] at * <;> grind
         · intro e he; have := iE2 e
           simp [egRecord, Option.isSome_iff_ne_none, wHeld, dHeld, okErr, heldErr, genuine] at * <;> grind
         · intro e pc hm he
           have := iE3 e pc
           rcases mem_set_cases hm with h | h <;>
             simp [egRecord, Option.isSome_iff_ne_none, wHeld, okErr, heldErr, genuine, ctxErr, ctxDone] at * <;>
             grind [cause_err_cases]
         · intro e he; have := iE4 e
           simp [egRecord, genuine] at * <;> grind))

set_option maxHeartbeats 1600000 in
theorem invE_step {cfg : Cfg} {s s' : St} {l : Label} (hb : InvB cfg s) (hi : InvE cfg s)
    (h : Stream.step cfg s l = some s') : InvE cfg s' := by
  cases l with
  | dSend w => stream_cases h => invE_worker hi hb
  | fRet w r => stream_cases h => invE_worker hi hb
  | wSendC w => stream_cases h => invE_worker hi hb
  | wSendCtx w => stream_cases h => invE_worker hi hb
  | wExitIdle w => stream_cases h => invE_worker hi hb
  | wDefer w => stream_cases h => invE_worker hi hb
  | wEgDone w => stream_cases h => invE_worker hi hb
  | _ =>
    stream_cases h =>
      (have ⟨iSE, iE1, iE2, iE3, iE4⟩ := hi
       have ⟨iND, iCC, iEL, iCL, iCA⟩ := hb
       refine ⟨?_, ?_, ?_, ?_, ?_⟩
       · first
         | exact iSE
         | (simp [egRecord, dExited] at * <;> grind [dExited])
       · first
         | exact iE1
         | (intro e he; have := iE1 e; have := iE2 e
            simp [egRecord, Option.isSome_iff_ne_none, dHeld, dExited, okErr, heldErr, genuine] at * <;> grind [dExited, dHeld])
       · first
         | exact iE2
         | (intro e he; have := iE2 e
            simp [egRecord, Option.isSome_iff_ne_none, dHeld, dExited, okErr, heldErr, genuine, ctxErr, ctxDone] at * <;>
              grind [cause_err_cases, dExited, dHeld])
       · first
         | exact iE3
         | (intro e pc hm he; have := iE3 e pc hm he
            simp [egRecord, Option.isSome_iff_ne_none, dExited, okErr, heldErr, genuine] at * <;> grind [dExited])
       · first
         | exact iE4
         | (intro e he; have := iE4 e; have := iE1 e
            simp [egRecord, genuine, okErr, cClosing, dExited] at * <;> grind [dExited]))

theorem invE {cfg : Cfg} (hs : cfg.code.Sound) (hg : 1 ≤ cfg.gmp) {s : St} (h : Reach cfg s) : InvE cfg s := by
  induction h with
  | init => exact invE_init cfg
  | step hr hstep ih => exact invE_step (invB hs hg hr) ih hstep

end Juniper.Proofs.ParMap.S
