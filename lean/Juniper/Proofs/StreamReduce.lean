import Juniper.Proofs.StreamComb
import Juniper.Proofs.StreamClose
/-!
# Reducers of `stream.go` (C07 values, C08 "reducers return E")

A reducer gives up at the first failure of any kind, so its view of a stream is the denotation in
which nothing is soft (`SDen (fun _ => false)`): the items before the first failure, then that failure.
-/
namespace Juniper.Proofs.StreamDen
open Juniper.Model.Stream Juniper.Spec Juniper.Gen.Comb
universe u v w x
variable {σ : Type u} {α β : Type v} {γ : Type x}

/-- nothing is soft: the view of a consumer that stops at the first failure -/
abbrev strict : Err → Bool := fun _ => false

/-- a value if the stream ended, else the failure -/
def outOf {ρ : Type x} (t : Term) (v : ρ) : ROut ρ :=
  match t with
  | .end_ _ => .ok v
  | .fail e => .error e

/-- the documented result of `Reduce`: fold until the callback fails, then the stream's own termination -/
def foldRes (f : γ → α → Except Err γ) : γ → List α → Term → ROut γ
  | acc, [], .end_ _ => .ok acc
  | _, [], .fail e => .error e
  | acc, a :: l, t =>
    match f acc a with
    | .error e => .error e
    | .ok acc' => foldRes f acc' l t

theorem reduceLoop_sden {g : RGuards} {cf : Bool} (hg : g.Canon cf) {m : SM σ α} {cost : σ → Nat} {s : σ}
    {L : List (α × Nat)} {t : Term}
    (f : γ → α → Except Err γ) (hf : cf = false → ∀ acc a, ∃ b, f acc a = .ok b) (h : SDen strict m cost s L t) :
    ∃ F, ∀ fuel, F ≤ fuel → ∀ acc, (reduceLoop g m f true fuel acc s).1 = foldRes f acc (L.map Prod.fst) t := by
  induction h with
  | skip _ hs _ ih =>
    obtain ⟨F, hF⟩ := ih
    refine ⟨F + 1, fun fuel hf' acc => ?_⟩
    obtain ⟨k, rfl⟩ : ∃ k, fuel = k + 1 := ⟨fuel - 1, by omega⟩
    rw [reduceLoop_succ hg m f hf, hs]
    exact hF k (by omega) acc
  | soft _ _ he _ _ => simp [strict] at he
  | @item s s' a L t _ hs _ ih =>
    obtain ⟨F, hF⟩ := ih
    refine ⟨F + 1, fun fuel hf' acc => ?_⟩
    obtain ⟨k, rfl⟩ : ∃ k, fuel = k + 1 := ⟨fuel - 1, by omega⟩
    rw [reduceLoop_succ hg m f hf, hs]
    simp only [List.map_cons, foldRes]
    cases f acc a with
    | error e => rfl
    | ok acc' => exact hF k (by omega) acc'
  | fail _ hs _ =>
    refine ⟨1, fun fuel hf' acc => ?_⟩
    obtain ⟨k, rfl⟩ : ∃ k, fuel = k + 1 := ⟨fuel - 1, by omega⟩
    rw [reduceLoop_succ hg m f hf, hs]
    rfl
  | done _ hs _ _ =>
    refine ⟨1, fun fuel hf' acc => ?_⟩
    obtain ⟨k, rfl⟩ : ∃ k, fuel = k + 1 := ⟨fuel - 1, by omega⟩
    rw [reduceLoop_succ hg m f hf, hs]
    rfl

/-- `Reduce` (live context): the documented fold, or the first failure itself. -/
theorem reduce_sden {m : SM σ α} {cost : σ → Nat} {s : σ} {L : List (α × Nat)} {t : Term}
    (f : γ → α → Except Err γ) (h : SDen strict m cost s L t) :
    ∃ F, ∀ fuel, F ≤ fuel → ∀ init, (reduce m f true fuel init s).1 = foldRes f init (L.map Prod.fst) t := by
  have _tie := Skeleton.Tie.stReduce
  obtain ⟨F, hF⟩ := reduceLoop_sden reduceG_canon f (fun h => by cases h) h
  exact ⟨F, fun fuel hf init => by simpa [reduce] using hF fuel hf init⟩

theorem foldRes_append (acc l : List α) (t : Term) :
    foldRes (fun (acc : List α) a => Except.ok (acc ++ [a])) acc l t =
      outOf t (acc ++ l) := by
  induction l generalizing acc with
  | nil => cases t <;> simp [foldRes, outOf]
  | cons a l ih => simp only [foldRes]; rw [ih]; cases t <;> simp [outOf]

/-- `Collect` (live context): all items, or the first failure itself. -/
theorem collect_sden {m : SM σ α} {cost : σ → Nat} {s : σ} {L : List (α × Nat)} {t : Term}
    (h : SDen strict m cost s L t) :
    ∃ F, ∀ fuel, F ≤ fuel → (collect m true fuel s).1 = outOf t (L.map Prod.fst) := by
  have _tie := Skeleton.Tie.stCollect
  obtain ⟨F, hF⟩ := reduceLoop_sden collectG_canon (fun (acc : List α) a => Except.ok (acc ++ [a]))
    (fun _ acc a => ⟨_, rfl⟩) h
  refine ⟨F, fun fuel hf => ?_⟩
  have := hF fuel hf []
  rw [foldRes_append] at this
  simpa [collect] using this

theorem foldRes_count (n : Nat) (l : List α) (t : Term) :
    foldRes (fun (acc : Nat) (_ : α) => Except.ok (acc + 1)) n l t =
      outOf t (n + l.length) := by
  induction l generalizing n with
  | nil => cases t <;> simp [foldRes, outOf]
  | cons a l ih => simp only [foldRes]; rw [ih]; cases t <;> simp [outOf] <;> omega

/-- `SampleStream` reads the whole stream (or returns the first failure). -/
theorem sample_sden {m : SM σ α} {cost : σ → Nat} {s : σ} {L : List (α × Nat)} {t : Term}
    (h : SDen strict m cost s L t) :
    ∃ F, ∀ fuel, F ≤ fuel → (sampleCount m true fuel s).1 = outOf t L.length := by
  obtain ⟨F, hF⟩ := reduceLoop_sden sampleG_canon (fun (acc : Nat) (_ : α) => Except.ok (acc + 1))
    (fun _ acc a => ⟨_, rfl⟩) h
  refine ⟨F, fun fuel hf => ?_⟩
  have := hF fuel hf 0
  rw [foldRes_count] at this
  simpa [sampleCount, sampleStreamW, rSampleCount] using this

/-- a reducer handed an expired context returns the context error (and still closes) when the stream
has nothing buffered -/
theorem reduceLoop_ctx {g : RGuards} {cf : Bool} (hg : g.Canon cf) (m : SM σ α) (f : γ → α → Except Err γ)
    (hf : cf = false → ∀ acc a, ∃ b, f acc a = .ok b) (fuel : Nat) (acc : γ) (s : σ)
    (h : m.step s false = (.err .ctx, s)) : reduceLoop g m f false (fuel + 1) acc s = (.error .ctx, s) := by
  rw [reduceLoop_succ hg m f hf, h]

/-- consumer-level `Next` with a live context on a strictly denoting state -/
theorem drive_sden {m : SM σ α} {cost : σ → Nat} {s : σ} {L : List (α × Nat)} {t : Term}
    (h : SDen strict m cost s L t) :
    ∃ F, ∀ fuel, F ≤ fuel →
      match L, t with
      | [], .end_ _ => (drive m true fuel s).1 = some .end_
      | [], .fail e => (drive m true fuel s).1 = some (.err e)
      | p :: L', _ => (drive m true fuel s).1 = some (.item p.1) ∧ SDen strict m cost (drive m true fuel s).2 L' t := by
  induction h with
  | @skip s s' L t _ hs _ ih =>
    obtain ⟨F, hF⟩ := ih
    refine ⟨F + 1, fun fuel hf => ?_⟩
    obtain ⟨g, rfl⟩ : ∃ g, fuel = g + 1 := ⟨fuel - 1, by omega⟩
    rw [drive_succ, hs]
    exact hF g (by omega)
  | soft _ _ he _ _ => simp [strict] at he
  | @item s s' a L t _ hs h' _ =>
    refine ⟨1, fun fuel hf => ?_⟩
    obtain ⟨g, rfl⟩ : ∃ g, fuel = g + 1 := ⟨fuel - 1, by omega⟩
    rw [drive_succ, hs]
    exact ⟨rfl, h'⟩
  | fail _ hs _ =>
    refine ⟨1, fun fuel hf => ?_⟩
    obtain ⟨g, rfl⟩ : ∃ g, fuel = g + 1 := ⟨fuel - 1, by omega⟩
    rw [drive_succ, hs]
  | done _ hs _ _ =>
    refine ⟨1, fun fuel hf => ?_⟩
    obtain ⟨g, rfl⟩ : ∃ g, fuel = g + 1 := ⟨fuel - 1, by omega⟩
    rw [drive_succ, hs]


theorem sdrive_mono {m : SM σ α} {c : Bool} {f : Nat} {s : σ} {r : SStep α} {s' : σ}
    (h : drive m c f s = (some r, s')) : ∀ f', f ≤ f' → drive m c f' s = (some r, s') := by
  induction f generalizing s with
  | zero => simp [drive] at h
  | succ f ih =>
    intro f' hf
    obtain ⟨g, rfl⟩ : ∃ g, f' = g + 1 := ⟨f' - 1, by omega⟩
    rw [drive_succ] at h ⊢
    rcases hs : m.step s c with ⟨x, s0⟩
    rw [hs] at h
    cases x with
    | skip => simp only at h ⊢; exact ih h g (by omega)
    | item a => simpa using h
    | end_ => simpa using h
    | err e => simpa using h

/-- the documented result of `One` -/
def oneRes : List α → Term → ROut α
  | [], .end_ _ => .error .empty
  | [], .fail e => .error e
  | [a], .end_ _ => .ok a
  | [_], .fail e => .error e
  | _ :: _ :: _, _ => .error .moreThanOne

/-- **`stream.One`** (live context): the only item; `ErrEmpty` / `ErrMoreThanOne`; or the first failure
met within the first two `Next` calls. -/
theorem one_sden {m : SM σ α} {cost : σ → Nat} {s : σ} {L : List (α × Nat)} {t : Term}
    (h : SDen strict m cost s L t) :
    ∃ F, ∀ fuel, F ≤ fuel → (one m true fuel s).1 = oneRes (L.map Prod.fst) t := by
  have _tie := Skeleton.Tie.stOne
  obtain ⟨F1, h1⟩ := drive_sden h
  cases L with
  | nil =>
    refine ⟨F1, fun fuel hf => ?_⟩
    have := h1 fuel hf
    cases t with
    | end_ e =>
      simp only at this
      simp only [one_eq, List.map_nil, oneRes]
      rcases hd : drive m true fuel s with ⟨r, s1⟩
      rw [hd] at this
      simp only at this
      rw [this]
    | fail e =>
      simp only at this
      simp only [one_eq, List.map_nil, oneRes]
      rcases hd : drive m true fuel s with ⟨r, s1⟩
      rw [hd] at this
      simp only at this
      rw [this]
  | cons p L' =>
    have hF1 := h1 F1 (Nat.le_refl _)
    simp only at hF1
    obtain ⟨F2, h2⟩ := drive_sden hF1.2
    refine ⟨max F1 F2, fun fuel hf => ?_⟩
    have hmono : drive m true fuel s = drive m true F1 s := by
      have e1 : drive m true F1 s = (some (.item p.1), (drive m true F1 s).2) := by rw [← hF1.1]
      rw [e1]
      exact sdrive_mono e1 fuel (by omega)
    have h3 := h2 fuel (by omega)
    simp only [one_eq, hmono]
    rcases hd : drive m true F1 s with ⟨r, s1⟩
    rw [hd] at hF1 h3
    simp only at hF1 h3
    rw [hF1.1]
    simp only
    cases L' with
    | nil =>
      cases t with
      | end_ e =>
        simp only at h3
        rcases hd2 : drive m true fuel s1 with ⟨r2, s2⟩
        rw [hd2] at h3
        simp only at h3
        rw [h3]
        simp [oneRes]
      | fail e =>
        simp only at h3
        rcases hd2 : drive m true fuel s1 with ⟨r2, s2⟩
        rw [hd2] at h3
        simp only at h3
        rw [h3]
        simp [oneRes]
    | cons q L'' =>
      simp only at h3
      rcases hd2 : drive m true fuel s1 with ⟨r2, s2⟩
      rw [hd2] at h3
      simp only at h3
      rw [h3.1]
      simp [oneRes]

end Juniper.Proofs.StreamDen
