import Juniper.Spec.XList
namespace Juniper.Proofs.XList
open Juniper.Spec.XList

@[simp, grind =] theorem nextIn_nil (x : Nat) : nextIn [] x = none := rfl
@[simp, grind =] theorem nextIn_single (a x : Nat) : nextIn [a] x = none := rfl
@[simp, grind =] theorem nextIn_cons2 (a b : Nat) (t : List Nat) (x : Nat) :
    nextIn (a :: b :: t) x = if x = a then some b else nextIn (b :: t) x := rfl
@[simp, grind =] theorem prevIn_nil (x : Nat) : prevIn [] x = none := rfl
@[simp, grind =] theorem prevIn_single (a x : Nat) : prevIn [a] x = none := rfl
@[simp, grind =] theorem prevIn_cons2 (a b : Nat) (t : List Nat) (x : Nat) :
    prevIn (a :: b :: t) x = if x = b then some a else prevIn (b :: t) x := rfl

theorem nextIn_cons (a : Nat) (t : List Nat) (x : Nat) :
    nextIn (a :: t) x = if x = a then t.head? else nextIn t x := by
  cases t with
  | nil => simp
  | cons b t => simp

theorem prevIn_cons (a : Nat) (t : List Nat) (x : Nat) :
    prevIn (a :: t) x = if t.head? = some x then some a else prevIn t x := by
  cases t with
  | nil => simp
  | cons b t => simp [eq_comm]

theorem nextIn_mem {l : List Nat} {x y : Nat} (h : nextIn l x = some y) : x ∈ l ∧ y ∈ l := by
  induction l with
  | nil => simp at h
  | cons a t ih =>
    rw [nextIn_cons] at h
    split at h
    · subst_vars; cases t <;> simp_all
    · have := ih h; simp_all

theorem prevIn_mem {l : List Nat} {x y : Nat} (h : prevIn l x = some y) : x ∈ l ∧ y ∈ l := by
  induction l with
  | nil => simp at h
  | cons a t ih =>
    rw [prevIn_cons] at h
    split at h
    · cases t <;> simp_all
    · have := ih h; simp_all

theorem nextIn_not_mem {l : List Nat} {x : Nat} (h : x ∉ l) : nextIn l x = none := by
  cases hn : nextIn l x with
  | none => rfl
  | some y => exact absurd (nextIn_mem hn).1 h

theorem prevIn_not_mem {l : List Nat} {x : Nat} (h : x ∉ l) : prevIn l x = none := by
  cases hn : prevIn l x with
  | none => rfl
  | some y => exact absurd (prevIn_mem hn).1 h


theorem head_prevIn {t : List Nat} {y : Nat} (ht : t.Nodup) (h : t.head? = some y) : prevIn t y = none := by
  cases t with
  | nil => simp at h
  | cons b t' =>
    simp at h; subst h
    cases hp : prevIn (b :: t') b with
    | none => rfl
    | some z =>
      rw [prevIn_cons] at hp
      split at hp
      · cases t' <;> simp_all
      · exact absurd (prevIn_mem hp).1 (List.nodup_cons.1 ht).1

theorem next_iff_prev {l : List Nat} (hl : l.Nodup) (x y : Nat) :
    nextIn l x = some y ↔ prevIn l y = some x := by
  induction l with
  | nil => simp
  | cons a t ih =>
    have hat : a ∉ t := (List.nodup_cons.1 hl).1
    have ht := (List.nodup_cons.1 hl).2
    have ih := ih ht
    have h1 := @head_prevIn t y ht
    have h2 := @prevIn_mem t y a
    have h3 := @nextIn_mem t a y
    rw [nextIn_cons, prevIn_cons]
    grind


theorem prevIn_eq_none_iff {l : List Nat} (hl : l.Nodup) {x : Nat} (hx : x ∈ l) :
    prevIn l x = none ↔ l.head? = some x := by
  induction l with
  | nil => simp at hx
  | cons a t ih =>
    have hat : a ∉ t := (List.nodup_cons.1 hl).1
    have ht := (List.nodup_cons.1 hl).2
    have ih := ih ht
    have h1 := @head_prevIn t x ht
    have h3 := @prevIn_not_mem t x
    rw [prevIn_cons]
    cases t <;> grind

theorem getLast?_cons' (a : Nat) (t : List Nat) :
    (a :: t).getLast? = if t = [] then some a else t.getLast? := by
  cases t <;> simp [List.getLast?_cons_cons]

theorem nextIn_eq_none_iff {l : List Nat} (hl : l.Nodup) {x : Nat} (hx : x ∈ l) :
    nextIn l x = none ↔ l.getLast? = some x := by
  induction l with
  | nil => simp at hx
  | cons a t ih =>
    have hat : a ∉ t := (List.nodup_cons.1 hl).1
    have ht := (List.nodup_cons.1 hl).2
    have ih := ih ht
    have h2 : ∀ y, t.getLast? = some y → y ∈ t := fun y h => List.mem_of_getLast? h
    rw [nextIn_cons, getLast?_cons']
    cases t <;> grind

theorem nextIn_ne_self {l : List Nat} (hl : l.Nodup) (x : Nat) : nextIn l x ≠ some x := by
  induction l with
  | nil => simp
  | cons a t ih =>
    have hat : a ∉ t := (List.nodup_cons.1 hl).1
    have ht := (List.nodup_cons.1 hl).2
    have ih := ih ht
    rw [nextIn_cons]
    cases t <;> grind

theorem prevIn_ne_self {l : List Nat} (hl : l.Nodup) (x : Nat) : prevIn l x ≠ some x := by
  intro h
  exact nextIn_ne_self hl x ((next_iff_prev hl x x).2 h)


theorem erase_cons' (a n : Nat) (t : List Nat) :
    (a :: t).erase n = if a = n then t else a :: t.erase n := by
  simp [List.erase_cons]

theorem head?_erase {l : List Nat} (hl : l.Nodup) (n : Nat) :
    (l.erase n).head? = if l.head? = some n then nextIn l n else l.head? := by
  cases l with
  | nil => simp
  | cons a t =>
    rw [erase_cons', nextIn_cons]
    by_cases h : a = n <;> simp [h]

theorem nextIn_erase {l : List Nat} (hl : l.Nodup) {n x : Nat} (hx : x ≠ n) :
    nextIn (l.erase n) x = if prevIn l n = some x then nextIn l n else nextIn l x := by
  induction l with
  | nil => simp
  | cons a t ih =>
    have hat : a ∉ t := (List.nodup_cons.1 hl).1
    have ht := (List.nodup_cons.1 hl).2
    have ih := ih ht
    have h1 := @head_prevIn t n ht
    have h2 := @prevIn_mem t n a
    have h3 := @prevIn_not_mem t n
    have h4 := head?_erase ht n
    have h5 := @nextIn_not_mem t a
    have h6 := @nextIn_not_mem t n
    rw [erase_cons', prevIn_cons, nextIn_cons, nextIn_cons]
    by_cases han : a = n
    · grind
    · simp only [han, if_false]
      rw [nextIn_cons]
      grind

theorem prevIn_erase {l : List Nat} (hl : l.Nodup) {n x : Nat} (hx : x ≠ n) :
    prevIn (l.erase n) x = if nextIn l n = some x then prevIn l n else prevIn l x := by
  induction l with
  | nil => simp
  | cons a t ih =>
    have hat : a ∉ t := (List.nodup_cons.1 hl).1
    have ht := (List.nodup_cons.1 hl).2
    have ih := ih ht
    have h1 := @head_prevIn t n ht
    have h1' := @head_prevIn t x ht
    have h2 := @prevIn_mem t n a
    have h3 := @prevIn_not_mem t n
    have h4 := head?_erase ht n
    have h5 := @nextIn_not_mem t a
    have h6 := @nextIn_not_mem t n
    have h7 := @nextIn_mem t n
    have h8 := next_iff_prev ht n x
    rw [erase_cons', prevIn_cons, nextIn_cons, prevIn_cons]
    by_cases han : a = n
    · grind
    · simp only [han, if_false]
      rw [prevIn_cons]
      grind


theorem getLast?_erase {l : List Nat} (hl : l.Nodup) (n : Nat) :
    (l.erase n).getLast? = if l.getLast? = some n then prevIn l n else l.getLast? := by
  induction l with
  | nil => simp
  | cons a t ih =>
    have hat : a ∉ t := (List.nodup_cons.1 hl).1
    have ht := (List.nodup_cons.1 hl).2
    have ih := ih ht
    have h2 : ∀ y, t.getLast? = some y → y ∈ t := fun y h => List.mem_of_getLast? h
    have h3 := @prevIn_not_mem t n
    have h4 : t.erase n = [] → t = [] ∨ t = [n] := by
      intro h; cases t with
      | nil => simp
      | cons b t' =>
        rw [erase_cons'] at h
        split at h <;> simp_all
    rw [erase_cons', getLast?_cons', prevIn_cons]
    by_cases han : a = n
    · grind
    · simp only [han, if_false]
      rw [getLast?_cons']
      cases t with
      | nil => simp [han]
      | cons b t' => grind

@[simp, grind =] theorem insBefore_nil (m n : Nat) : insBefore [] m n = [] := rfl
@[simp, grind =] theorem insBefore_cons (a : Nat) (t : List Nat) (m n : Nat) :
    insBefore (a :: t) m n = if a = m then n :: a :: t else a :: insBefore t m n := rfl
@[simp, grind =] theorem insAfter_nil (m n : Nat) : insAfter [] m n = [] := rfl
@[simp, grind =] theorem insAfter_cons (a : Nat) (t : List Nat) (m n : Nat) :
    insAfter (a :: t) m n = if a = m then a :: n :: t else a :: insAfter t m n := rfl

theorem mem_insBefore {l : List Nat} {m n : Nat} (hm : m ∈ l) (x : Nat) :
    x ∈ insBefore l m n ↔ x = n ∨ x ∈ l := by
  induction l with
  | nil => simp at hm
  | cons a t ih => grind

theorem mem_insAfter {l : List Nat} {m n : Nat} (hm : m ∈ l) (x : Nat) :
    x ∈ insAfter l m n ↔ x = n ∨ x ∈ l := by
  induction l with
  | nil => simp at hm
  | cons a t ih => grind

theorem insBefore_not_mem {l : List Nat} {m n : Nat} (hm : m ∉ l) : insBefore l m n = l := by
  induction l with
  | nil => rfl
  | cons a t ih => grind

theorem insAfter_not_mem {l : List Nat} {m n : Nat} (hm : m ∉ l) : insAfter l m n = l := by
  induction l with
  | nil => rfl
  | cons a t ih => grind

theorem nodup_insBefore {l : List Nat} {m n : Nat} (hl : l.Nodup) (hm : m ∈ l) (hn : n ∉ l) :
    (insBefore l m n).Nodup := by
  induction l with
  | nil => simp
  | cons a t ih =>
    have := @mem_insBefore t m n
    have := @insBefore_not_mem t m n
    grind

theorem nodup_insAfter {l : List Nat} {m n : Nat} (hl : l.Nodup) (hm : m ∈ l) (hn : n ∉ l) :
    (insAfter l m n).Nodup := by
  induction l with
  | nil => simp
  | cons a t ih =>
    have := @mem_insAfter t m n
    have := @insAfter_not_mem t m n
    grind

theorem length_insBefore {l : List Nat} {m n : Nat} (hm : m ∈ l) :
    (insBefore l m n).length = l.length + 1 := by
  induction l with
  | nil => simp at hm
  | cons a t ih =>
    have := @insBefore_not_mem t m n
    grind

theorem length_insAfter {l : List Nat} {m n : Nat} (hm : m ∈ l) :
    (insAfter l m n).length = l.length + 1 := by
  induction l with
  | nil => simp at hm
  | cons a t ih =>
    have := @insAfter_not_mem t m n
    grind


theorem mem_of_head? {t : List Nat} {y : Nat} (h : t.head? = some y) : y ∈ t := by
  cases t <;> simp_all

theorem head?_insBefore {l : List Nat} {m n : Nat} :
    (insBefore l m n).head? = if l.head? = some m then some n else l.head? := by
  cases l with
  | nil => simp
  | cons a t => by_cases h : a = m <;> simp [h]

theorem head?_insAfter {l : List Nat} {m n : Nat} :
    (insAfter l m n).head? = l.head? := by
  cases l with
  | nil => simp
  | cons a t => by_cases h : a = m <;> simp [h]

theorem nextIn_insBefore {l : List Nat} {m n : Nat} (hl : l.Nodup) (hm : m ∈ l) (hn : n ∉ l) (x : Nat) :
    nextIn (insBefore l m n) x =
      if x = n then some m else if prevIn l m = some x then some n else nextIn l x := by
  induction l with
  | nil => simp at hm
  | cons a t ih =>
    have hat : a ∉ t := (List.nodup_cons.1 hl).1
    have ht := (List.nodup_cons.1 hl).2
    have h1 := @head_prevIn t m ht
    have h2 := @prevIn_mem t m a
    have h3 := @prevIn_not_mem t m
    have h4 := @head?_insBefore t m n
    have h7 := @mem_of_head? t
    have h5 := @nextIn_not_mem t n
    have h6 := @nextIn_not_mem t a
    rw [insBefore_cons, prevIn_cons]
    by_cases ham : a = m
    · simp only [ham, if_true, nextIn_cons]
      grind
    · simp only [ham, if_false, nextIn_cons]
      grind

theorem prevIn_insBefore {l : List Nat} {m n : Nat} (hl : l.Nodup) (hm : m ∈ l) (hn : n ∉ l) (x : Nat) :
    prevIn (insBefore l m n) x =
      if x = n then prevIn l m else if x = m then some n else prevIn l x := by
  induction l with
  | nil => simp at hm
  | cons a t ih =>
    have hat : a ∉ t := (List.nodup_cons.1 hl).1
    have ht := (List.nodup_cons.1 hl).2
    have h1 := @head_prevIn t m ht
    have h2 := @prevIn_mem t m a
    have h3 := @prevIn_not_mem t m
    have h3' := @prevIn_not_mem t n
    have h3'' := @prevIn_not_mem t a
    have h4 := @head?_insBefore t m n
    have h7 := @mem_of_head? t
    rw [insBefore_cons, prevIn_cons]
    by_cases ham : a = m
    · simp only [ham, if_true, prevIn_cons]
      grind
    · simp only [ham, if_false, prevIn_cons]
      grind


theorem insBefore_ne_nil {l : List Nat} {m n : Nat} (h : l ≠ []) : insBefore l m n ≠ [] := by
  cases l with
  | nil => exact absurd rfl h
  | cons a t => rw [insBefore_cons]; split <;> simp

theorem insAfter_ne_nil {l : List Nat} {m n : Nat} (h : l ≠ []) : insAfter l m n ≠ [] := by
  cases l with
  | nil => exact absurd rfl h
  | cons a t => rw [insAfter_cons]; split <;> simp

theorem getLast?_insBefore {l : List Nat} {m n : Nat} :
    (insBefore l m n).getLast? = l.getLast? := by
  induction l with
  | nil => simp
  | cons a t ih =>
    have := @insBefore_ne_nil t m n
    rw [insBefore_cons]
    by_cases ham : a = m
    · simp only [ham, if_true, getLast?_cons']; simp
    · simp only [ham, if_false, getLast?_cons']
      cases t with
      | nil => simp
      | cons b t' => grind

theorem getLast?_insAfter {l : List Nat} {m n : Nat} (hl : l.Nodup) :
    (insAfter l m n).getLast? = if l.getLast? = some m then some n else l.getLast? := by
  induction l with
  | nil => simp
  | cons a t ih =>
    have hat : a ∉ t := (List.nodup_cons.1 hl).1
    have ht := (List.nodup_cons.1 hl).2
    have ih := ih ht
    have := @insAfter_ne_nil t m n
    have h2 : ∀ y, t.getLast? = some y → y ∈ t := fun y h => List.mem_of_getLast? h
    rw [insAfter_cons]
    by_cases ham : a = m
    · simp only [ham, if_true, getLast?_cons']
      cases t with
      | nil => simp
      | cons b t' => grind
    · simp only [ham, if_false, getLast?_cons']
      cases t with
      | nil => simp [ham]
      | cons b t' => grind

theorem nextIn_insAfter {l : List Nat} {m n : Nat} (hl : l.Nodup) (hm : m ∈ l) (hn : n ∉ l) (x : Nat) :
    nextIn (insAfter l m n) x =
      if x = n then nextIn l m else if x = m then some n else nextIn l x := by
  induction l with
  | nil => simp at hm
  | cons a t ih =>
    have hat : a ∉ t := (List.nodup_cons.1 hl).1
    have ht := (List.nodup_cons.1 hl).2
    have h4 := @head?_insAfter t m n
    have h5 := @nextIn_not_mem t n
    have h6 := @nextIn_not_mem t a
    have h7 := @mem_of_head? t
    rw [insAfter_cons]
    by_cases ham : a = m
    · simp only [ham, if_true, nextIn_cons]
      grind
    · simp only [ham, if_false, nextIn_cons]
      grind

theorem prevIn_insAfter {l : List Nat} {m n : Nat} (hl : l.Nodup) (hm : m ∈ l) (hn : n ∉ l) (x : Nat) :
    prevIn (insAfter l m n) x =
      if x = n then some m else if nextIn l m = some x then some n else prevIn l x := by
  induction l with
  | nil => simp at hm
  | cons a t ih =>
    have hat : a ∉ t := (List.nodup_cons.1 hl).1
    have ht := (List.nodup_cons.1 hl).2
    have h3' := @prevIn_not_mem t n
    have h3'' := @prevIn_not_mem t a
    have h4 := @head?_insAfter t m n
    have h5 := @nextIn_not_mem t m
    have h7 := @mem_of_head? t
    have h8 := @nextIn_mem t m
    have h9 := @head_prevIn t x ht
    have h10 := next_iff_prev ht m x
    rw [insAfter_cons]
    by_cases ham : a = m
    · simp only [ham, if_true, prevIn_cons, nextIn_cons]
      grind
    · simp only [ham, if_false, prevIn_cons, nextIn_cons]
      grind


theorem nextIn_append_single {l : List Nat} {n : Nat} (hl : l.Nodup) (hn : n ∉ l) (x : Nat) :
    nextIn (l ++ [n]) x =
      if x = n then none else if l.getLast? = some x then some n else nextIn l x := by
  induction l with
  | nil => simp
  | cons a t ih =>
    have hat : a ∉ t := (List.nodup_cons.1 hl).1
    have ht := (List.nodup_cons.1 hl).2
    have h2 : ∀ y, t.getLast? = some y → y ∈ t := fun y h => List.mem_of_getLast? h
    have h5 := @nextIn_not_mem t a
    rw [List.cons_append, nextIn_cons, nextIn_cons, getLast?_cons']
    cases t with
    | nil => grind
    | cons b t' => grind

theorem prevIn_append_single {l : List Nat} {n : Nat} (hl : l.Nodup) (hn : n ∉ l) (x : Nat) :
    prevIn (l ++ [n]) x = if x = n then l.getLast? else prevIn l x := by
  induction l with
  | nil => simp
  | cons a t ih =>
    have hat : a ∉ t := (List.nodup_cons.1 hl).1
    have ht := (List.nodup_cons.1 hl).2
    have h3 := @prevIn_not_mem t n
    rw [List.cons_append, prevIn_cons, prevIn_cons, getLast?_cons']
    cases t with
    | nil => grind
    | cons b t' => grind

theorem nextIn_reverse {l : List Nat} (hl : l.Nodup) (x : Nat) :
    nextIn l.reverse x = prevIn l x := by
  induction l with
  | nil => simp
  | cons a t ih =>
    have hat : a ∉ t := (List.nodup_cons.1 hl).1
    have ht := (List.nodup_cons.1 hl).2
    have h3 := @prevIn_not_mem t a
    have h7 := @mem_of_head? t
    rw [List.reverse_cons, nextIn_append_single (by grind : t.reverse.Nodup) (by simpa using hat),
      prevIn_cons, ih ht, List.getLast?_reverse]
    grind

theorem prev_ne_next {l : List Nat} (hl : l.Nodup) {n p q : Nat} (hp : prevIn l n = some p)
    (hq : nextIn l n = some q) : p ≠ q := by
  induction l with
  | nil => simp at hp
  | cons a t ih =>
    have hat : a ∉ t := (List.nodup_cons.1 hl).1
    have ht := (List.nodup_cons.1 hl).2
    have h1 := @nextIn_mem t n q
    have h2 := @mem_of_head? t
    have h3 := @prevIn_mem t n p
    have h4 := @head_prevIn t n ht
    rw [prevIn_cons] at hp
    rw [nextIn_cons] at hq
    grind

theorem moveToFront_list {l : List Nat} (hl : l.Nodup) {n f : Nat} (hn : n ∈ l) (hf : l.head? = some f) :
    (if n = f then l else insBefore (l.erase n) f n) = n :: l.erase n := by
  cases l with
  | nil => simp at hn
  | cons a t =>
    simp at hf; subst hf
    by_cases h : n = a
    · subst h; simp
    · have : ¬ a = n := fun e => h e.symm
      simp [h, this]

theorem insAfter_getLast {k : List Nat} (hk : k.Nodup) {b n : Nat} (hb : k.getLast? = some b) :
    insAfter k b n = k ++ [n] := by
  induction k with
  | nil => simp at hb
  | cons a t ih =>
    have hat : a ∉ t := (List.nodup_cons.1 hk).1
    have ht := (List.nodup_cons.1 hk).2
    have h2 : ∀ y, t.getLast? = some y → y ∈ t := fun y h => List.mem_of_getLast? h
    rw [getLast?_cons'] at hb
    rw [insAfter_cons]
    cases t with
    | nil => simp_all
    | cons c t' => grind

theorem erase_append_getLast {l : List Nat} (hl : l.Nodup) {b : Nat} (hb : l.getLast? = some b) :
    l.erase b ++ [b] = l := by
  induction l with
  | nil => simp at hb
  | cons a t ih =>
    have hat : a ∉ t := (List.nodup_cons.1 hl).1
    have ht := (List.nodup_cons.1 hl).2
    have h2 : ∀ y, t.getLast? = some y → y ∈ t := fun y h => List.mem_of_getLast? h
    rw [getLast?_cons'] at hb
    rw [erase_cons']
    cases t with
    | nil => simp_all
    | cons c t' => grind

theorem moveToBack_list {l : List Nat} (hl : l.Nodup) {n b : Nat} (_hn : n ∈ l) (hb : l.getLast? = some b) :
    (if n = b then l else insAfter (l.erase n) b n) = l.erase n ++ [n] := by
  by_cases h : n = b
  · subst h; simp [erase_append_getLast hl hb]
  · simp only [h, if_false]
    apply insAfter_getLast (hl.erase n)
    rw [getLast?_erase hl, hb]
    have : ¬ b = n := fun e => h e.symm
    simp [this]


end Juniper.Proofs.XList
