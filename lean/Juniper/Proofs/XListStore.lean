import Juniper.Model.XList
/-! Store lemmas for the xlist model: the two characteristic equations of `get`/`set`, and the total
record lookup `Store.recOf` used to state pointwise facts without existentials. -/
namespace Juniper.Proofs.XList
open Juniper.Model.XList

theorem Store.get_empty (j : Nat) : Store.empty.get j = none := by
  simp [Store.get, Store.empty]

theorem Store.get_set (s : Store) (i j : Nat) (v : Node) :
    (s.set i v).get j = if j = i then some v else s.get j := by
  unfold Store.set Store.get
  by_cases h : i < s.cells.size
  · simp only [h, if_true]
    by_cases hj : j = i
    · subst hj; simp [h]
    · simp [hj, Ne.symm hj]
  · simp only [h, if_false]
    by_cases hj : j = i
    · subst hj
      rw [Array.getElem?_push]
      have e : j = s.cells.size + (j - s.cells.size) := by omega
      simp [← e]
    · simp only [hj, if_false]
      rw [Array.getElem?_push]
      have e : (s.cells ++ Array.replicate (i - s.cells.size) none).size = i := by simp; omega
      simp only [e, hj, if_false]
      simp [Array.getElem?_append]
      grind

/-- total lookup: the record of node `x` (a dummy for ids that were never allocated) -/
def _root_.Juniper.Model.XList.Store.recOf (s : Store) (x : Nat) : Node := (s.get x).getD ⟨none, none, 0⟩

theorem Store.recOf_set (s : Store) (i j : Nat) (v : Node) :
    (s.set i v).recOf j = if j = i then v else s.recOf j := by
  unfold Store.recOf
  rw [Store.get_set]
  split <;> simp

theorem Store.recOf_of_get {s : Store} {x : Nat} {r : Node} (h : s.get x = some r) : s.recOf x = r := by
  simp [Store.recOf, h]

theorem Store.get_of_isSome {s : Store} {x : Nat} (h : (s.get x).isSome) : s.get x = some (s.recOf x) := by
  unfold Store.recOf
  cases hx : s.get x with
  | none => simp [hx] at h
  | some r => simp

end Juniper.Proofs.XList
