import Juniper.Model.XTime
/-! Helper lemmas for C20, `JitterTicker` part: the int64 / uint64 arithmetic of `schedule` in closed
form, closed forms of `schedule` and of the callback's non-blocking send (this is where the
regenerated facts are consumed), the statement skeletons that justify the atomic labels, and the
inductive invariant of the ticker LTS. -/
namespace Juniper.Proofs.XTimeTicker
open Juniper.Facts Juniper.Gen.XTime Juniper.Model.XTime

/-- Consecutive entries of the ghost log of sent ticks (newest first) respect the `d - jitter` that was
in force when the later one was sent. -/
def Spaced : List (Int × Int) → Prop
  | p2 :: p1 :: rest => p1.1 + p2.2 ≤ p2.1 ∧ Spaced (p1 :: rest)
  | _ => True

/-- Labels inside the documented protocol: `Stop` is not called on a stopped ticker, jitter is never
negative, and the `d` handed to `Reset` is a Go `time.Duration`, i.e. at most `MaxInt64` (that is
the type of the argument, not a restriction of the callers). (Reset with `d ≤ 0` or `jitter ≥ d` is
allowed: it panics before touching anything.) -/
def Proto (s : TState) : TLabel → Prop
  | .stop => s.stopped = false
  | .reset d j _ => 0 ≤ j ∧ d ≤ maxInt64
  | _ => True

inductive TReachP (s0 : TState) : TState → Prop where
  | refl : TReachP s0 s0
  | step {s s' : TState} (l : TLabel) : TReachP s0 s → Proto s l → tstep s l = some s' → TReachP s0 s'

/-! ### The arithmetic of `schedule` over Go's fixed-width integers

`schedRandBound`, `schedRejects`, `schedNext` are generated with `wrap64` / `wrapU64` around every
operation of the source. The three lemmas below are the only place where that arithmetic is opened;
they hold for **all** int64 values `0 ≤ jitter < d ≤ MaxInt64` - no "durations are small" assumption. -/

theorem tdiv_max : Int.tdiv 9223372036854775807 2 = 4611686018427387903 := by decide

/-- `schedule` draws exactly once on every path: either with `rand.Int63n` or with the rejection loop
over `rand.Uint64` (the calls of math/rand the extractor found are these three, each in its
recognised position). -/
theorem sched_one_draw (j : Int) :
    schedRandCalls = ["rand.Int63n", "rand.Uint64", "rand.Uint64"] ∧
    (schedUsesInt63n j != schedUsesUint64 j) = true := by
  refine ⟨by decide, ?_⟩
  unfold schedUsesInt63n schedUsesUint64
  cases decide (j ≤ Int.tdiv maxInt64 (2 : Int)) <;> rfl

/-- The values the random source can deliver to `schedule` are exactly `0 … 2·jitter`, on both paths
(`rand.Int63n(2·jitter+1)` while that fits into an int64 - then its argument is positive, no panic -,
the rejection loop over `rand.Uint64` above that), for every int64 jitter `0 ≤ jitter < MaxInt64`. -/
theorem drawOk_eq {j r : Int} (h0 : 0 ≤ j) (h2 : j < 9223372036854775807) :
    drawOk j r = some (decide (0 ≤ r ∧ r ≤ 2 * j)) := by
  have _ := sched_one_draw j
  unfold drawOk schedUsesInt63n schedUsesUint64 schedRandBound schedRejects
  simp only [wrap64, wrapU64, maxInt64, tdiv_max]
  by_cases hs : j ≤ 4611686018427387903
  · have e1 : ((j * 2 + 9223372036854775808) % 18446744073709551616 - 9223372036854775808 + 1 + 9223372036854775808) %
                  18446744073709551616 - 9223372036854775808 = 2 * j + 1 := by omega
    simp only [hs, decide_true, if_true, e1]
    rw [if_neg (by omega)]
    congr 1
    rw [decide_eq_decide]
    omega
  · have e2 : j % 18446744073709551616 * 2 % 18446744073709551616 = 2 * j := by omega
    simp only [hs, decide_false, Bool.not_false, if_true, e2]
    rw [if_neg (by simp)]
    congr 1
    rw [Bool.eq_iff_iff]
    simp only [Bool.and_eq_true, decide_eq_true_eq, Bool.not_eq_true', decide_eq_false_iff_not]
    omega

/-- The duration handed to `time.AfterFunc` is `d - jitter + r`, saturated at `MaxInt64` - for every
int64 `d`, `jitter` with `0 ≤ jitter < d ≤ MaxInt64` and every possible draw: nothing wraps around. -/
theorem schedNext_eq {d j r : Int} (h0 : 0 ≤ j) (h1 : j < d) (h2 : d ≤ 9223372036854775807)
    (hr0 : 0 ≤ r) (hr : r ≤ 2 * j) : schedNext d j r = min (d - j + r) 9223372036854775807 := by
  unfold schedNext int63n
  simp only [wrap64, wrapU64, maxInt64, tdiv_max]
  have e0 : (if decide (j ≤ 4611686018427387903) = true then r % 18446744073709551616 else r) = r := by
    split <;> omega
  have e1 : (d - j + 9223372036854775808) % 18446744073709551616 - 9223372036854775808 = d - j := by omega
  simp only [e0, e1]
  have e2 : ((9223372036854775807 - (d - j) + 9223372036854775808) % 18446744073709551616 - 9223372036854775808) %
      18446744073709551616 = 9223372036854775807 - (d - j) := by omega
  simp only [e2]
  by_cases hc : r ≤ 9223372036854775807 - (d - j)
  · simp only [hc, decide_true, if_true]
    omega
  · simp only [hc, decide_false]
    rw [if_neg (by simp)]
    omega

/-- `schedule` in closed form, for every int64 `0 ≤ jitter < d ≤ MaxInt64`: it does not panic, the
label's value is one of `0 … 2·jitter`, `gen` is bumped once and captured after the bump, the old
timer is stopped, the new one is due `min (d - jitter + r) MaxInt64` from now. -/
theorem schedule_spec {s s' : TState} {r : Int} (hj : 0 ≤ s.jitter) (hjd : s.jitter < s.d)
    (hd : s.d ≤ maxInt64) (h : schedule s r = some s') :
    0 ≤ r ∧ r ≤ 2 * s.jitter ∧
      s' = { s with gen := s.gen + 1, hasTimer := true,
                    timer := some ⟨s.now + min (s.d - s.jitter + r) maxInt64, s.gen + 1⟩ } := by
  unfold maxInt64 at hd ⊢
  unfold schedule at h
  rw [drawOk_eq hj (by omega)] at h
  by_cases hr : 0 ≤ r ∧ r ≤ 2 * s.jitter
  · simp only [hr, and_self, decide_true, schedStopsOld, schedBumpsGen, schedCapturesGen, if_true] at h
    rw [schedNext_eq hj hjd hd hr.1 hr.2] at h
    cases h
    exact ⟨hr.1, hr.2, by simp⟩
  · simp only [hr, decide_false] at h
    cases h

/-- Every value `0 … 2·jitter` is a possible draw: `schedule` is enabled for exactly these labels
(with `schedule_spec`: the rand label ranges over exactly the values the code can draw). -/
theorem schedule_enabled (s : TState) {r : Int} (hj : 0 ≤ s.jitter) (hjd : s.jitter < s.d)
    (hd : s.d ≤ maxInt64) (hr0 : 0 ≤ r) (hr : r ≤ 2 * s.jitter) : ∃ s', schedule s r = some s' := by
  unfold maxInt64 at hd
  unfold schedule
  rw [drawOk_eq hj (by omega)]
  simp [hr0, hr]

/-! ### The statement skeletons behind the atomic labels

The callback, `Stop` and `Reset` are single labels of the LTS because each holds `t.m` from its first
to its last statement. These closed lemmas compare the regenerated statement lists with the shapes
the labels mirror (`Model.XTime.cbMirrored` …): hoisting the `t.gen == gen` test out of the lock,
sending after `Unlock`, an extra statement in `Stop` … make them false, and `tinv_step` (hence every
ticker theorem) stops compiling. -/

theorem cb_skeleton : cbMirrored = true := by decide
theorem stop_skeleton : stopMirrored = true := by decide
theorem reset_skeleton : resetMirrored = true := by decide

/-- The callback's `select` has a `default`: it never blocks; it sends iff the one-slot channel is
empty. -/
theorem cbSend_spec (s : TState) :
    cbSend s = some (if s.chan.length < 1 then
        { s with chan := s.chan ++ [s.now], sent := (s.now, s.d - s.jitter) :: s.sent } else s) := by
  unfold cbSend
  have h1 : cbSelect.contains (.send "t.c") = true := by decide
  have h2 : cbSelect.contains .dflt = true := by decide
  simp only [h1, h2, tickChanCap, Bool.true_and]
  by_cases hc : s.chan.length < 1
  · have : ((s.chan.length : Int) < 1) := by omega
    simp [hc, this]
  · have : ¬ ((s.chan.length : Int) < 1) := by omega
    simp [hc, this]

structure TInv (s : TState) : Prop where
  alive : s.panicked = false
  modelled : s.unmodelled = false
  orphans : s.orphans = []
  valid : 0 < s.d ∧ 0 ≤ s.jitter ∧ s.jitter < s.d ∧ s.d ≤ maxInt64
  timerGen : ∀ t, s.timer = some t → t.gen = s.gen
  pendLe : ∀ g ∈ s.pending, g ≤ s.gen
  stoppedOff : s.stopped = true → s.timer = none ∧ s.gen ∉ s.pending
  runningHas : s.stopped = false → s.hasTimer = true
  spaced : Spaced s.sent
  lastLe : ∀ p, s.sent.head? = some p → p.1 ≤ s.now
  timerGap : ∀ t p, s.timer = some t → s.sent.head? = some p → p.1 + (s.d - s.jitter) ≤ t.due
  pendGap : s.gen ∈ s.pending → ∀ p, s.sent.head? = some p → p.1 + (s.d - s.jitter) ≤ s.now
  chanCap : s.chan.length ≤ 1

/-- The part of the invariant `schedule` needs. -/
structure TPre (s : TState) : Prop where
  alive : s.panicked = false
  modelled : s.unmodelled = false
  orphans : s.orphans = []
  valid : 0 < s.d ∧ 0 ≤ s.jitter ∧ s.jitter < s.d ∧ s.d ≤ maxInt64
  pendLe : ∀ g ∈ s.pending, g ≤ s.gen
  spaced : Spaced s.sent
  lastLe : ∀ p, s.sent.head? = some p → p.1 ≤ s.now
  chanCap : s.chan.length ≤ 1

theorem TInv.pre {s : TState} (hi : TInv s) : TPre s :=
  ⟨hi.alive, hi.modelled, hi.orphans, hi.valid, hi.pendLe, hi.spaced, hi.lastLe, hi.chanCap⟩

/-- What `schedule` re-establishes. -/
theorem tinv_schedule {s s' : TState} {r : Int} (hi : TPre s) (hns : s.stopped = false)
    (h : schedule s r = some s') : TInv s' := by
  obtain ⟨hr0, _, rfl⟩ := schedule_spec hi.valid.2.1 hi.valid.2.2.1 hi.valid.2.2.2 h
  have hv := hi.valid
  have hmax : s.d ≤ 9223372036854775807 := hv.2.2.2
  refine { alive := hi.alive, modelled := hi.modelled, orphans := hi.orphans, valid := hi.valid,
           timerGen := ?_, pendLe := ?_, stoppedOff := ?_, runningHas := ?_, spaced := hi.spaced,
           lastLe := hi.lastLe, timerGap := ?_, pendGap := ?_, chanCap := hi.chanCap }
  · intro t ht; simp at ht; subst ht; rfl
  · intro g hg; have := hi.pendLe g hg; simp; omega
  · intro hs; simp [hns] at hs
  · intro _; rfl
  · intro t p ht hp; simp at ht; subst ht
    have := hi.lastLe p hp; simp [maxInt64]; omega
  · intro hg; have := hi.pendLe _ hg; simp at this; omega

/-- The two validation guards of `NewJitterTicker` are exactly the documented ones: it panics before
creating anything iff `d ≤ 0` or `jitter ≥ d`. -/
theorem newPanics_iff (d j : Int) : (newPanicsD d j || newPanicsJ d j) = decide (d ≤ 0 ∨ j ≥ d) := by
  simp only [newPanicsD, newPanicsJ, Bool.decide_or]

theorem newPanics_false {d j : Int} (hd : 0 < d) (hj : j < d) : (newPanicsD d j || newPanicsJ d j) = false := by
  rw [newPanics_iff]; simp; omega

theorem tinv_create {now d j r : Int} {s : TState} (hd : 0 < d) (hj0 : 0 ≤ j) (hj : j < d)
    (hmax : d ≤ maxInt64) (h : create now d j r = some s) : TInv s := by
  unfold create at h
  simp only [newPanics_false hd hj] at h
  refine tinv_schedule (s := _) ?_ rfl h
  exact { alive := rfl, modelled := (by simp [newLocked]), orphans := rfl, valid := ⟨hd, hj0, hj, hmax⟩,
          pendLe := (by intro g hg; cases hg), spaced := trivial,
          lastLe := (by intro p hp; cases hp), chanCap := (by simp) }

theorem TInv.clear {s : TState} (hi : TInv s) : TInv { s with lastPanic := false } :=
  ⟨hi.alive, hi.modelled, hi.orphans, hi.valid, hi.timerGen, hi.pendLe, hi.stoppedOff, hi.runningHas,
   hi.spaced, hi.lastLe, hi.timerGap, hi.pendGap, hi.chanCap⟩

theorem tstep_alive {s s' : TState} {l : TLabel} (h : tstep s l = some s') : s.panicked = false := by
  unfold tstep at h
  split at h
  · cases h
  · simp_all

/-- `tstep` on a live state is the label's action on the state with `lastPanic` cleared. -/
theorem tstep_clear {s : TState} (l : TLabel) (ha : s.panicked = false) :
    tstep s l = tstep { s with lastPanic := false } l := by
  unfold tstep
  simp [ha]

theorem mem_eraseIdx {α} {l : List α} {i : Nat} {a : α} (h : a ∈ l.eraseIdx i) : a ∈ l :=
  List.mem_of_mem_eraseIdx h

/-- One step inside the protocol preserves the invariant. -/
theorem tinv_step {s s' : TState} {l : TLabel} (hi0 : TInv s) (hp : Proto s l)
    (h : tstep s l = some s') : TInv s' := by
  rw [tstep_clear l hi0.alive] at h
  have hi := hi0.clear
  have hp' : Proto { s with lastPanic := false } l := by cases l <;> exact hp
  generalize { s with lastPanic := false } = u at h hi hp'
  clear hp hi0 s
  have hv := hi.valid
  have hne : ¬ (u.panicked = true) := by simp [hi.alive]
  unfold tstep at h
  rw [if_neg hne] at h
  cases l with
  | advance dt =>
    dsimp only at h
    by_cases hdt : 0 ≤ dt
    · rw [if_pos hdt] at h
      cases h
      exact { hi with
        lastLe := (by intro p hp; have := hi.lastLe p hp; simp; omega)
        pendGap := (by intro hg p hp; have := hi.pendGap hg p hp; simp; omega) }
    · rw [if_neg hdt] at h; cases h
  | fire k =>
    cases k with
    | zero =>
      dsimp only at h
      cases ht : u.timer with
      | none => simp [ht] at h
      | some t =>
        simp only [ht] at h
        by_cases hdue : t.due ≤ u.now
        · rw [if_pos hdue] at h
          cases h
          have hg := hi.timerGen t ht
          refine { hi with timerGen := ?_, pendLe := ?_, stoppedOff := ?_, timerGap := ?_, pendGap := ?_ }
          · intro t' h'; cases h'
          · intro g hg'
            simp at hg'
            rcases hg' with hg' | hg'
            · exact hi.pendLe g hg'
            · simp; omega
          · intro hs
            have := (hi.stoppedOff hs).1
            simp [ht] at this
          · intro t' p h'; cases h'
          · intro _ p hp
            have := hi.timerGap t p ht hp
            simp; omega
        · rw [if_neg hdue] at h; cases h
    | succ k =>
      simp [hi.orphans] at h
  | runCb i r =>
    dsimp only at h
    cases hg : u.pending[i]? with
    | none => simp [hg] at h
    | some g =>
      simp only [hg, cb_skeleton, cbGenOk, cbSend_spec] at h
      have hmem : g ∈ u.pending := List.mem_of_getElem? hg
      by_cases heq : u.gen = g
      · -- the callback of the current generation: tick (if the slot is free) and re-schedule
        subst heq
        have hns : u.stopped = false := by
          cases hs : u.stopped with
          | false => rfl
          | true => exact absurd hmem (hi.stoppedOff hs).2
        simp only [decide_true, if_true] at h
        have hgap := hi.pendGap hmem
        refine tinv_schedule ?_ (by split <;> simpa using hns) h
        split
        · rename_i hc
          refine { alive := hi.alive, modelled := (by simp [hi.modelled]), orphans := hi.orphans,
                   valid := hi.valid, pendLe := ?_, spaced := ?_, lastLe := ?_, chanCap := ?_ }
          · intro g hg'; exact hi.pendLe g (mem_eraseIdx hg')
          · show Spaced ((u.now, u.d - u.jitter) :: u.sent)
            cases hsent : u.sent with
            | nil => trivial
            | cons p rest =>
              have := hgap p (by simp [hsent])
              have hsp := hi.spaced
              rw [hsent] at hsp
              exact ⟨by simpa using this, hsp⟩
          · intro p hp; simp at hp; subst hp; simp
          · simp; exact List.eq_nil_of_length_eq_zero (by omega)
        · refine { alive := hi.alive, modelled := (by simp [hi.modelled]), orphans := hi.orphans,
                   valid := hi.valid, pendLe := ?_, spaced := hi.spaced, lastLe := hi.lastLe,
                   chanCap := hi.chanCap }
          intro g hg'; exact hi.pendLe g (mem_eraseIdx hg')
      · -- a stale callback: discarded
        have hne : decide (u.gen = g) = false := by simp [heq]
        simp only [hne] at h
        by_cases hr : r = 0
        · rw [if_neg (by simp), if_pos hr] at h
          cases h
          refine { hi with modelled := (by simp [hi.modelled]), pendLe := ?_, stoppedOff := ?_, pendGap := ?_ }
          · intro g hg'; exact hi.pendLe g (mem_eraseIdx hg')
          · intro hs
            exact ⟨(hi.stoppedOff hs).1, fun hm => (hi.stoppedOff hs).2 (mem_eraseIdx hm)⟩
          · intro hm; exact hi.pendGap (mem_eraseIdx hm)
        · rw [if_neg (by simp), if_neg hr] at h; cases h
  | recv =>
    dsimp only at h
    cases hc : u.chan with
    | nil => simp [hc] at h
    | cons x rest =>
      simp only [hc] at h
      cases h
      have := hi.chanCap
      rw [hc] at this
      have h2 : rest.length ≤ 1 := by simp only [List.length_cons] at this; omega
      exact { hi with chanCap := h2 }
  | reset d j r =>
    dsimp only at h
    by_cases hg : (resetPanicsD d j || resetPanicsJ d j) = true
    · rw [if_pos hg] at h
      by_cases hr : r = 0
      · rw [if_pos hr] at h
        cases h
        exact ⟨hi.alive, hi.modelled, hi.orphans, hi.valid, hi.timerGen, hi.pendLe, hi.stoppedOff,
          hi.runningHas, hi.spaced, hi.lastLe, hi.timerGap, hi.pendGap, hi.chanCap⟩
      · rw [if_neg hr] at h; cases h
    · rw [if_neg hg] at h
      have hg' : 0 < d ∧ j < d := by
        simp [resetPanicsD, resetPanicsJ] at hg; omega
      refine tinv_schedule ?_ rfl h
      exact { alive := hi.alive, modelled := (by simp [hi.modelled, resetLocked, reset_skeleton]), orphans := hi.orphans,
              valid := ⟨hg'.1, hp'.1, hg'.2, hp'.2⟩, pendLe := hi.pendLe, spaced := hi.spaced, lastLe := hi.lastLe,
              chanCap := hi.chanCap }
  | stop =>
    have hns : u.stopped = false := hp'
    have hht := hi.runningHas hns
    dsimp only at h
    rw [if_neg (by simp [hht])] at h
    cases h
    simp only [stopStopsTimer, stopBumpsGen, stopClearsTimer, stopLocked, stop_skeleton]
    refine { alive := hi.alive, modelled := (by simp [hi.modelled]), orphans := (by simp [hi.orphans]), valid := hi.valid,
             timerGen := ?_, pendLe := ?_, stoppedOff := ?_, runningHas := ?_, spaced := hi.spaced,
             lastLe := hi.lastLe, timerGap := ?_, pendGap := ?_, chanCap := hi.chanCap }
    · intro t ht; cases ht
    · intro g hg; have := hi.pendLe g hg; simp; omega
    · intro _; refine ⟨rfl, ?_⟩
      intro hm; have := hi.pendLe _ hm; simp at this; omega
    · intro h; cases h
    · intro t p ht; cases ht
    · intro hm; have := hi.pendLe _ hm; simp at this; omega

theorem tinv_reach {s0 s : TState} (h0 : TInv s0) (hr : TReachP s0 s) : TInv s := by
  induction hr with
  | refl => exact h0
  | step l _ hp hs ih => exact tinv_step ih hp hs

/-! ### Panic outcomes -/

theorem schedule_lastPanic {s s' : TState} {r : Int} (h : schedule s r = some s')
    (h0 : s.lastPanic = false) (h1 : s'.lastPanic = true) : s'.panicked = true := by
  unfold schedule at h
  dsimp only at h
  split at h
  · cases h; rfl
  · cases h
  · cases h; simp [h0] at h1

/-- A call reports a panic only if it died holding the mutex or was a `Reset` with arguments outside
the documented domain. -/
theorem tstep_lastPanic {s s' : TState} {l : TLabel} (h : tstep s l = some s') (h1 : s'.lastPanic = true) :
    s'.panicked = true ∨ ∃ d j r, l = .reset d j r ∧ (resetPanicsD d j || resetPanicsJ d j) = true := by
  have ha := tstep_alive h
  have hne : ¬ (s.panicked = true) := by simp [ha]
  unfold tstep at h
  rw [if_neg hne] at h
  cases l with
  | advance dt =>
    dsimp only at h
    split at h <;> cases h
    simp at h1
  | fire k =>
    cases k with
    | zero =>
      dsimp only at h
      split at h
      · split at h <;> cases h
        simp at h1
      · cases h
    | succ k =>
      dsimp only at h
      split at h
      · split at h <;> cases h
        simp at h1
      · cases h
  | runCb i r =>
    dsimp only at h
    split at h
    · cases h
    · split at h
      · rw [cbSend_spec] at h
        dsimp only at h
        exact Or.inl (schedule_lastPanic h (by split <;> rfl) h1)
      · split at h <;> cases h
        simp at h1
  | recv =>
    dsimp only at h
    split at h <;> cases h
    simp at h1
  | reset d j r =>
    dsimp only at h
    split at h
    · rename_i hg
      exact Or.inr ⟨d, j, r, rfl, hg⟩
    · exact Or.inl (schedule_lastPanic h rfl h1)
  | stop =>
    dsimp only at h
    split at h
    · cases h; exact Or.inl rfl
    · cases h; simp at h1

/-! ### After `Stop` -/

def isReset : TLabel → Bool
  | .reset _ _ _ => true
  | _ => false

/-- What holds from the moment `Stop` returned until the next `Reset`. -/
structure StoppedInv (s : TState) : Prop where
  stopped : s.stopped = true
  timer : s.timer = none
  orphans : s.orphans = []
  pendLt : ∀ g ∈ s.pending, g < s.gen

/-- No label other than `Reset` — inside or outside the protocol — sends a tick on a stopped ticker. -/
theorem stopped_step {s s' : TState} {l : TLabel} (hi : StoppedInv s) (hl : isReset l = false)
    (h : tstep s l = some s') : StoppedInv s' ∧ s'.sent = s.sent := by
  have ha := tstep_alive h
  have hne : ¬ (s.panicked = true) := by simp [ha]
  unfold tstep at h
  rw [if_neg hne] at h
  cases l with
  | advance dt =>
    dsimp only at h
    split at h <;> cases h
    exact ⟨⟨hi.stopped, hi.timer, hi.orphans, hi.pendLt⟩, rfl⟩
  | fire k =>
    cases k with
    | zero => simp [hi.timer] at h
    | succ k => simp [hi.orphans] at h
  | runCb i r =>
    dsimp only at h
    cases hg : s.pending[i]? with
    | none => simp [hg] at h
    | some g =>
      have hmem : g ∈ s.pending := List.mem_of_getElem? hg
      have hlt := hi.pendLt g hmem
      have hne : decide (s.gen = g) = false := by simp; omega
      simp only [hg, cbGenOk, hne] at h
      by_cases hr : r = 0
      · rw [if_neg (by simp), if_pos hr] at h
        cases h
        exact ⟨⟨hi.stopped, hi.timer, hi.orphans, fun g hg' => hi.pendLt g (mem_eraseIdx hg')⟩, rfl⟩
      · rw [if_neg (by simp), if_neg hr] at h; cases h
  | recv =>
    dsimp only at h
    split at h <;> cases h
    exact ⟨⟨hi.stopped, hi.timer, hi.orphans, hi.pendLt⟩, rfl⟩
  | reset d j r => simp [isReset] at hl
  | stop =>
    dsimp only at h
    split at h
    · cases h
      exact ⟨⟨hi.stopped, hi.timer, hi.orphans, hi.pendLt⟩, rfl⟩
    · cases h
      refine ⟨⟨rfl, rfl, ?_, ?_⟩, rfl⟩
      · simp [stopStopsTimer, hi.orphans]
      · intro g hg; have := hi.pendLt g hg; simp [stopBumpsGen]; omega

/-- `Stop` on a running ticker (inside the protocol) establishes `StoppedInv` and sends nothing. -/
theorem stop_establishes {s s' : TState} (hi : TInv s) (hns : s.stopped = false)
    (h : tstep s .stop = some s') : StoppedInv s' ∧ s'.sent = s.sent := by
  have hne : ¬ (s.panicked = true) := by simp [hi.alive]
  have hht := hi.runningHas hns
  unfold tstep at h
  rw [if_neg hne] at h
  dsimp only at h
  rw [if_neg (by simp [hht])] at h
  cases h
  refine ⟨⟨rfl, rfl, ?_, ?_⟩, rfl⟩
  · simp [stopStopsTimer, hi.orphans]
  · intro g hg; have := hi.pendLe g hg; simp [stopBumpsGen]; omega

/-- A run without `Reset`. -/
inductive RunNoReset : TState → TState → Prop where
  | refl (a : TState) : RunNoReset a a
  | step {a b c : TState} (l : TLabel) : RunNoReset a b → isReset l = false → tstep b l = some c → RunNoReset a c

theorem stopped_run {a b : TState} (hi : StoppedInv a) (hr : RunNoReset a b) :
    StoppedInv b ∧ b.sent = a.sent := by
  induction hr with
  | refl => exact ⟨hi, rfl⟩
  | step l _ hl hs ih =>
    obtain ⟨h1, h2⟩ := stopped_step ih.1 hl hs
    exact ⟨h1, h2.trans ih.2⟩

/-! ### Spacing, pointwise -/

theorem spaced_get : ∀ (l : List (Int × Int)), Spaced l → ∀ i (h : i + 1 < l.length),
    (l[i + 1]'h).1 + (l[i]'(by omega)).2 ≤ (l[i]'(by omega)).1
  | [], _, i, h => by simp at h
  | [_], _, i, h => by simp at h
  | p2 :: p1 :: rest, hs, 0, _ => hs.1
  | p2 :: p1 :: rest, hs, i + 1, h => by
    have := spaced_get (p1 :: rest) hs.2 i (by simp at h ⊢; omega)
    simpa using this

/-! ### Building reachability witnesses (for the non-vacuity examples) -/

def protoB (s : TState) : TLabel → Bool
  | .stop => !s.stopped
  | .reset d j _ => decide (0 ≤ j ∧ d ≤ maxInt64)
  | _ => true

theorem proto_of_protoB {s : TState} {l : TLabel} (h : protoB s l = true) : Proto s l := by
  cases l <;> simp_all [protoB, Proto]

/-- run a list of labels, checking the protocol -/
def runP (s : TState) : List TLabel → Option TState
  | [] => some s
  | l :: ls => if protoB s l then (tstep s l).bind (fun s' => runP s' ls) else none

theorem reach_of_runP : ∀ (ls : List TLabel) (s0 s s' : TState), TReachP s0 s → runP s ls = some s' → TReachP s0 s'
  | [], s0, s, s', hr, h => by simp [runP] at h; subst h; exact hr
  | l :: ls, s0, s, s', hr, h => by
    simp only [runP] at h
    split at h
    · rename_i hp
      cases hs : tstep s l with
      | none => simp [hs] at h
      | some s1 =>
        simp [hs] at h
        exact reach_of_runP ls s0 s1 s' (.step l hr (proto_of_protoB hp) hs) h
    · cases h

end Juniper.Proofs.XTimeTicker
