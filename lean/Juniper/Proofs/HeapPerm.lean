import Juniper.Proofs.HeapBasic
/-!
# The sift loops and heapify only permute the array
-/
set_option linter.unusedSimpArgs false
namespace Juniper.Proofs.Heap
open Juniper.Gen.Heap Juniper.Model.Heap

variable {α : Type}

theorem set_perm_cons {a : List α} {j : Nat} {x y : α} (h : a[j]? = some y) :
    (y :: a.set j x).Perm (x :: a) := by
  induction a generalizing j with
  | nil => simp at h
  | cons z t ih =>
    cases j with
    | zero =>
      simp at h; subst h
      exact List.Perm.swap x z t
    | succ j =>
      simp at h
      simp only [List.set_cons_succ]
      exact (List.Perm.swap z y _).trans (((ih h).cons z).trans (List.Perm.swap x z t))

theorem swapAt_perm (a : List α) (i j : Nat) : (swapAt a i j).Perm a := by
  rw [swapAt_eq]
  split
  · rename_i x y hx hy
    -- (a.set i y).set j x: put y at i, then x at j
    by_cases hij : i = j
    · subst hij
      rw [hx] at hy; cases hy
      rw [List.set_set]
      have hi : i < a.length := by
        rcases Nat.lt_or_ge i a.length with h | h
        · exact h
        · rw [List.getElem?_eq_none h] at hx; cases hx
      have : a.set i x = a := by
        apply List.ext_getElem?
        intro k
        rw [List.getElem?_set]
        by_cases hk : i = k
        · subst hk; rw [hx]; simp [hi]
        · simp [hk]
      rw [this]
    · have h1 : (x :: a.set i y).Perm (y :: a) := set_perm_cons hx
      have hj' : (a.set i y)[j]? = some y := by
        rw [List.getElem?_set]; simp [hij, hy]
      have h2 : (y :: (a.set i y).set j x).Perm (x :: a.set i y) := set_perm_cons hj'
      have h3 : (y :: (a.set i y).set j x).Perm (y :: a) := h2.trans h1
      exact (List.perm_cons y).mp h3
  · exact List.Perm.refl _

theorem upLoop_perm (less : α → α → Bool) (f : Nat) (a : List α) (i : Nat) :
    (upLoop less f a i).1.Perm a := by
  induction f generalizing a i with
  | zero => exact List.Perm.refl _
  | succ f ih =>
    rw [upLoop_succ]
    split
    · split
      · exact (ih _ _).trans (swapAt_perm _ _ _)
      · exact ih _ _
    · exact List.Perm.refl _

theorem downLoop_perm (less : α → α → Bool) (f : Nat) (a : List α) (i : Nat) :
    (downLoop less f a i).1.Perm a := by
  induction f generalizing a i with
  | zero => exact List.Perm.refl _
  | succ f ih =>
    rw [downLoop_succ]
    split
    · exact List.Perm.refl _
    · split
      · exact (ih _ _).trans (swapAt_perm _ _ _)
      · exact List.Perm.refl _

theorem percolateUp_perm (less : α → α → Bool) (a : List α) (i : Nat) :
    (percolateUp less a i).1.Perm a := upLoop_perm _ _ _ _

theorem percolateDown_perm (less : α → α → Bool) (a : List α) (i : Nat) :
    (percolateDown less a i).1.Perm a := downLoop_perm _ _ _ _

/-- removing position `i` the way `Pop` / `RemoveAt` do (move the last element there, truncate) -/
theorem moveLast_perm {a : List α} {i : Nat} {x last : α} (hx : a[i]? = some x)
    (hl : a.getLast? = some last) : (x :: (a.set i last).dropLast).Perm a := by
  obtain ⟨d, rfl⟩ := List.getLast?_eq_some_iff.mp hl
  by_cases hi : i < d.length
  · rw [List.set_append_left _ _ hi, List.dropLast_concat]
    rw [List.getElem?_append_left hi] at hx
    exact (set_perm_cons hx).trans (List.perm_append_singleton last d).symm
  · have hi' : i = d.length := by
      rcases Nat.lt_or_ge i (d ++ [last]).length with h | h
      · simp at h; omega
      · rw [List.getElem?_eq_none h] at hx; cases hx
    subst hi'
    simp at hx; subst hx
    have : (d ++ [last]).set d.length last = d ++ [last] := by
      rw [List.set_append_right _ _ (Nat.le_refl _)]; simp
    rw [this, List.dropLast_concat]
    exact (List.perm_append_singleton last d).symm

end Juniper.Proofs.Heap
