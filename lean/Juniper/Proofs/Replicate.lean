import Juniper.Model.Merge
/-! Helper lemmas for C12: the LTS of `chans.Replicate`. -/
set_option linter.unusedSectionVars false
set_option linter.unusedSimpArgs false
namespace Juniper.Proofs.Replicate
open Juniper.Model.Merge
variable {V : Type}

theorem facts : (Juniper.Gen.Merge.replSrc == "src") = true ∧
    (Juniper.Gen.Merge.replDsts == "dsts" && Juniper.Gen.Merge.replSends) = true := by decide

structure RInv (m : Nat) (s : RSt V) : Prop where
  hm : s.m = m
  len : s.outs.length = m
  conserve : ∀ j o, s.outs[j]? = some o → o ++ rOwed j s.pc ++ s.src.avail = s.src.sent
  sendingLt : ∀ v k, s.pc = .sending v k → k < m
  done : s.pc = .done → s.src.closed = true ∧ s.src.avail = []

theorem rinv_init (m : Nat) : RInv m (rinit V m) := by
  refine ⟨rfl, by simp [rinit], ?_, by simp [rinit], by simp [rinit]⟩
  intro j o ho
  simp [rinit, List.getElem?_replicate] at ho
  obtain ⟨_, rfl⟩ := ho
  simp [rinit, rOwed]

theorem rstep_recv {s s' : RSt V} (h : rstep s .recv = some s') :
    s.pc = .top ∧
    ((∃ v rest, s.src.avail = v :: rest ∧
        s' = (if 0 < s.m then { s with src := { s.src with avail := rest }, pc := .sending v 0 }
              else { s with src := { s.src with avail := rest } })) ∨
     (s.src.avail = [] ∧ s.src.closed = true ∧ s' = { s with pc := .done })) := by
  simp only [rstep, facts.1, facts.2, if_true, Bool.true_and] at h
  split at h
  · rename_i hp
    refine ⟨hp, ?_⟩
    split at h
    · rename_i v rest hav
      left; refine ⟨v, rest, hav, ?_⟩
      split at h
      · rename_i hm
        simp at hm; simp at h; simp [hm, ← h]
      · rename_i hm
        simp at hm; simp at h; simp [hm, ← h]
    · rename_i hav
      split at h
      · rename_i hcl; right; simp at h; exact ⟨hav, hcl, h.symm⟩
      · simp at h
  · simp at h

theorem rstep_deliver {s s' : RSt V} (h : rstep s .deliver = some s') :
    ∃ v j o, s.pc = .sending v j ∧ s.outs[j]? = some o ∧
      s' = { s with outs := s.outs.set j (o ++ [v]), pc := rAfter s.m v j } := by
  simp only [rstep] at h
  split at h
  · rename_i v j hp
    split at h
    · rename_i o ho
      simp at h; exact ⟨v, j, o, hp, ho, h.symm⟩
    · simp at h
  · simp at h

theorem rinv_step {m : Nat} {s s' : RSt V} {l : RLabel V} (hi : RInv m s)
    (h : rstep s l = some s') : RInv m s' := by
  have hm := hi.hm
  subst hm
  cases l with
  | envSend v =>
    simp only [rstep] at h
    split at h
    · simp at h
    · simp at h; subst h
      refine ⟨rfl, hi.len, ?_, hi.sendingLt, ?_⟩
      · intro j o ho
        have := hi.conserve j o ho
        simp [← this]
      · intro hd
        have := hi.done hd
        rename_i hcl
        rw [this.1] at hcl; simp at hcl
  | envClose =>
    simp only [rstep] at h
    split at h
    · simp at h
    · simp at h; subst h
      refine ⟨rfl, hi.len, hi.conserve, hi.sendingLt, ?_⟩
      intro hd
      exact ⟨rfl, (hi.done hd).2⟩
  | recv =>
    obtain ⟨hp, hcase⟩ := rstep_recv h
    rcases hcase with ⟨v, rest, hav, rfl⟩ | ⟨hav, hcl, rfl⟩
    · by_cases hm : 0 < s.m
      · simp only [hm, if_true]
        refine ⟨rfl, hi.len, ?_, ?_, by simp⟩
        · intro j o ho
          have := hi.conserve j o ho
          rw [hp, hav] at this
          simpa [rOwed] using this
        · intro w k hk
          simp at hk; omega
      · simp only [hm, if_false]
        refine ⟨rfl, hi.len, ?_, ?_, ?_⟩
        · intro j o ho
          have hj : j < s.outs.length := by
            rcases Nat.lt_or_ge j s.outs.length with h | h
            · exact h
            · simp [List.getElem?_eq_none h] at ho
          rw [hi.len] at hj; omega
        · intro w k hk; exact hi.sendingLt w k hk
        · intro hd; rw [hp] at hd; cases hd
    · refine ⟨rfl, hi.len, ?_, by simp, fun _ => ⟨hcl, hav⟩⟩
      intro j o ho
      have := hi.conserve j o ho
      rw [hp] at this
      simpa [rOwed] using this
  | deliver =>
    obtain ⟨v, j, o, hp, ho, rfl⟩ := rstep_deliver h
    have hjm := hi.sendingLt v j hp
    refine ⟨rfl, by simpa using hi.len, ?_, ?_, ?_⟩
    · intro j' o' ho'
      have hj' : j' < s.m := by
        rcases Nat.lt_or_ge j' (s.outs.set j (o ++ [v])).length with h | h
        · simpa [hi.len] using h
        · simp [List.getElem?_eq_none h] at ho'
      simp only [List.getElem?_set] at ho'
      split at ho'
      · rename_i hjj
        subst hjj
        split at ho'
        · simp at ho'; subst ho'
          have := hi.conserve j o ho
          rw [hp] at this
          simp [rOwed] at this
          unfold rAfter
          split <;> simp [rOwed, ← this]
        · simp at ho'
      · rename_i hjj
        have := hi.conserve j' o' ho'
        rw [hp] at this
        unfold rAfter
        split
        · rename_i hlt
          simp only [rOwed] at this ⊢
          have e : (j + 1 ≤ j') = (j ≤ j') := by
            apply propext; constructor <;> intro h <;> omega
          simp only [e]; exact this
        · rename_i hlt
          simp only [rOwed] at this ⊢
          have : ¬ j ≤ j' := by omega
          simp_all
    · intro w k hk
      unfold rAfter at hk
      split at hk
      · simp at hk; omega
      · cases hk
    · intro hd
      unfold rAfter at hd
      split at hd <;> cases hd

theorem rreach_inv {m : Nat} {s : RSt V} (h : RReach (rinit V m) s) : RInv m s := by
  induction h with
  | refl => exact rinv_init m
  | step l _ hs ih => exact rinv_step ih hs

/-- `src` is closed and drained and every destination has received everything. -/
def RAllDone (s : RSt V) : Prop :=
  s.src.closed = true ∧ s.src.avail = [] ∧ ∀ (j : Nat) (o : List V), s.outs[j]? = some o → o = s.src.sent

theorem rprogress {m : Nat} {s : RSt V} (hi : RInv m s) (ha : RAllDone s) (hnd : s.pc ≠ .done) :
    ∃ s', rstep s .recv = some s' ∧ s'.pc = .done := by
  obtain ⟨hcl, hav, hall⟩ := ha
  have hp : s.pc = .top := by
    cases hp : s.pc with
    | top => rfl
    | done => exact absurd hp hnd
    | sending v k =>
      have hk := hi.sendingLt v k hp
      have hlen : k < s.outs.length := by rw [hi.len]; exact hk
      have ho : s.outs[k]? = some s.outs[k] := List.getElem?_eq_getElem hlen
      have h1 := hi.conserve k _ ho
      have h2 := hall k _ ho
      rw [hp, hav] at h1
      simp [rOwed] at h1
      rw [← h2] at h1
      have := congrArg List.length h1
      simp at this
  refine ⟨{ s with pc := .done }, ?_, rfl⟩
  simp [rstep, facts.1, hp, hav, hcl]

theorem rreach_of_run {s0 s : RSt V} : ∀ (ls : List (RLabel V)) {s1 : RSt V}, RReach s0 s1 →
    rrun s1 ls = some s → RReach s0 s
  | [], _, h, hr => by simp [rrun] at hr; exact hr ▸ h
  | l :: ls, s1, h, hr => by
    simp only [rrun] at hr
    split at hr
    · rename_i s2 hs; exact rreach_of_run ls (.step l h hs) hr
    · cases hr

end Juniper.Proofs.Replicate
