import Juniper.Proofs.HelpersBasic
namespace Juniper.Proofs.Helpers
open Juniper.Model.Helpers Juniper.Spec.Helpers Juniper.Gen.Helpers

variable {α : Type}

theorem rev_tdiv2_nat (n : Nat) : Int.tdiv (n : Int) 2 = ((n / 2 : Nat) : Int) := by
  rw [Int.tdiv_eq_ediv_of_nonneg (by omega)]
  omega

seal Juniper.Facts.wrap64

/-- `i < len(s)/2` for a length that fits in an `int`: the 64-bit division is exact -/
theorem revCond_nat (t n : Nat) (hn : n ≤ 9223372036854775807) :
    revCond (t : Int) (n : Int) = decide ((t : Int) < ((n / 2 : Nat) : Int)) := by
  unfold revCond
  rw [rev_tdiv2_nat, wrap64_nat (by omega)]

/-- `len(s)-i-1` for `i < len(s) ≤ MaxInt64`: both subtractions are exact -/
theorem revMirror_nat (t n : Nat) (ht : t < n) (hn : n ≤ 9223372036854775807) :
    revMirror (t : Int) (n : Int) = ((n - t - 1 : Nat) : Int) := by
  unfold revMirror
  have e1 : Juniper.Facts.wrap64 ((n : Int) - (t : Int)) = ((n - t : Nat) : Int) := by
    rw [wrap64_of_range (by omega) (by omega)]; omega
  rw [e1, wrap64_of_range (by omega) (by omega)]; omega

/-- the invariant of the `Reverse` loop after `t` iterations -/
def RevInv (s a : List α) (t : Nat) : Prop :=
  a.length = s.length ∧ 2 * t ≤ s.length ∧
  ∀ p, p < s.length → a[p]? = if p < t ∨ s.length - t ≤ p then s[s.length - 1 - p]? else s[p]?

theorem revInv_final (s a : List α) (t : Nat) (h : RevInv s a t) (ht : s.length / 2 ≤ t) :
    a = s.reverse := by
  obtain ⟨hl, h2, hp⟩ := h
  apply List.ext_getElem?
  intro p
  by_cases hlt : p < s.length
  · rw [hp p hlt, List.getElem?_reverse hlt]
    split
    · rfl
    · have : s.length - 1 - p = p := by omega
      rw [this]
  · rw [List.getElem?_eq_none (by omega), List.getElem?_eq_none (by simp; omega)]

theorem reverseLoop_inv (s : List α) (hl64 : s.length ≤ 9223372036854775807) : ∀ (fuel : Nat) (a : List α) (t : Nat),
    RevInv s a t → s.length / 2 - t ≤ fuel → reverseLoop fuel a (t : Int) = some s.reverse := by
  intro fuel
  induction fuel with
  | zero =>
    intro a t h hf
    rw [reverseLoop, revInv_final s a t h (by omega)]
  | succ fuel ih =>
    intro a t h hf
    rw [reverseLoop]
    have hla : a.length ≤ 9223372036854775807 := by rw [h.1]; exact hl64
    simp only [revCond_nat _ _ hla, revSwaps, decide_eq_true_eq, if_true]
    by_cases hc : t < s.length / 2
    · obtain ⟨hl, h2, hp⟩ := h
      have hc' : (t : Int) < ((a.length / 2 : Nat) : Int) := by rw [hl]; omega
      rw [if_pos hc']
      have hi : t < a.length := by omega
      have hj : a.length - t - 1 < a.length := by omega
      rw [revMirror_nat t a.length hi hla, swapI_nat a t (a.length - t - 1) hi hj]
      simp only
      have := ih (swapNat a t (a.length - t - 1) hi hj) (t + 1) ?_ (by omega)
      · simpa using this
      · refine ⟨by rw [length_swapNat]; exact hl, by omega, ?_⟩
        intro p hpl
        rw [getElem?_swapNat]
        have e1 : some a[t] = a[t]? := by simp [hi]
        have e2 : some a[a.length - t - 1] = a[a.length - t - 1]? := by simp [hj]
        rw [e1, e2, hp t (by omega), hp (a.length - t - 1) (by omega), hp p hpl, hl]
        have c1 : ¬ (t < t ∨ s.length - t ≤ t) := by omega
        have c2 : ¬ (s.length - t - 1 < t ∨ s.length - t ≤ s.length - t - 1) := by omega
        rw [if_neg c1, if_neg c2]
        by_cases q1 : p = s.length - t - 1
        · rw [if_pos q1, if_pos (by omega)]
          congr 1; omega
        · rw [if_neg q1]
          by_cases q2 : p = t
          · rw [if_pos q2, if_pos (by omega)]
            congr 1; omega
          · rw [if_neg q2]
            by_cases q3 : p < t ∨ s.length - t ≤ p
            · rw [if_pos q3, if_pos (by omega)]
            · rw [if_neg q3, if_neg (by omega)]
    · have hc' : ¬ (t : Int) < ((a.length / 2 : Nat) : Int) := by rw [h.1]; omega
      rw [if_neg hc', revInv_final s a t h (by omega)]

theorem reverse_spec (s : List α) (hl64 : s.length ≤ 9223372036854775807) : reverse s = some s.reverse := by
  unfold reverse
  simp only [revI0]
  have := reverseLoop_inv s hl64 s.length s 0 ⟨rfl, by omega, by intro p hp; simp; omega⟩ (by omega)
  simpa using this

end Juniper.Proofs.Helpers
