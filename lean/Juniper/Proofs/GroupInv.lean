import Juniper.Proofs.GroupLocal
/-! Helper lemmas for C17, global part: the inductive invariant of the Group LTS (wait-group and
read-lock accounting, writer exclusion, shape of the stop programs, "a cancel under the write lock
leaves no spawn past its context check", the barrier) and its preservation by every label. -/
namespace Juniper.Proofs.GroupInv
open Juniper.Facts Juniper.Gen.Group Juniper.Model.Group Juniper.Proofs.GroupLocal

/-! ### List bookkeeping -/

theorem countP_set_add {α} (p : α → Bool) : ∀ (l : List α) (i : Nat) (h : i < l.length) (a : α),
    (l.set i a).countP p + (if p l[i] = true then 1 else 0) = l.countP p + (if p a = true then 1 else 0)
  | x :: xs, 0, _, a => by
    simp only [List.set_cons_zero, List.countP_cons, List.getElem_cons_zero]; omega
  | x :: xs, i + 1, h, a => by
    have := countP_set_add p xs i (by simpa using h) a
    simp only [List.set_cons_succ, List.countP_cons, List.getElem_cons_succ]; omega

theorem getElem?_some {α} {l : List α} {i : Nat} {a : α} (h : l[i]? = some a) :
    ∃ hi : i < l.length, l[i] = a := List.getElem?_eq_some_iff.mp h

theorem mem_set {α} {l : List α} {i : Nat} {a b : α} (h : b ∈ l.set i a) : b ∈ l ∨ b = a :=
  List.mem_or_eq_of_mem_set h

theorem wgOf_ite (t : Thread) : (if holdsWg t = true then 1 else 0) = wgOf t.pc := by
  rw [holdsWg_eq]; cases t.pc <;> rfl

theorem rdOf_ite (t : Thread) : (if holdsR t = true then 1 else 0) = rdOf t.pc := by
  rw [holdsR_eq]; cases t.pc <;> rfl

theorem count_wg_set {l : List Thread} {i : Nat} {t t' : Thread} (h : l[i]? = some t) :
    (l.set i t').countP holdsWg + wgOf t.pc = l.countP holdsWg + wgOf t'.pc := by
  obtain ⟨hi, rfl⟩ := getElem?_some h
  have := countP_set_add holdsWg l i hi t'
  rw [wgOf_ite, wgOf_ite] at this
  exact this

theorem count_rd_set {l : List Thread} {i : Nat} {t t' : Thread} (h : l[i]? = some t) :
    (l.set i t').countP holdsR + rdOf t.pc = l.countP holdsR + rdOf t'.pc := by
  obtain ⟨hi, rfl⟩ := getElem?_some h
  have := countP_set_add holdsR l i hi t'
  rw [rdOf_ite, rdOf_ite] at this
  exact this

theorem count_rd_pos {l : List Thread} {t : Thread} (hm : t ∈ l) (h : rdOf t.pc = 1) : 0 < l.countP holdsR := by
  rw [List.countP_pos_iff]
  exact ⟨t, hm, by rw [holdsR_eq]; simp [h]⟩

theorem count_wg_pos {l : List Thread} {t : Thread} (hm : t ∈ l) (h : wgOf t.pc = 1) : 0 < l.countP holdsWg := by
  rw [List.countP_pos_iff]
  exact ⟨t, hm, by rw [holdsWg_eq]; simp [h]⟩

theorem count_holdsW_set {l : List Stopper} {j : Nat} {st st' : Stopper} (h : l[j]? = some st) :
    (l.set j st').countP (·.holdsW) + (if st.holdsW = true then 1 else 0)
      = l.countP (·.holdsW) + (if st'.holdsW = true then 1 else 0) := by
  obtain ⟨hj, rfl⟩ := getElem?_some h
  exact countP_set_add (·.holdsW) l j hj st'

/-! ### Stop programs -/

/-- the stop programs, for bodies of `Stop` / `StopAndWait` with exactly three / two call statements and
no other statement (`Proofs/SkeletonGroup.lean`) -/
theorem progs : stopProg = [.lock, .cancel, .unlock] ∧ sawProg = [.lock, .cancel, .unlock, .wait] :=
  Juniper.Proofs.SkeletonGroup.under
    (And.intro groupWiring_tie
      (And.intro Juniper.Proofs.SkeletonGroup.pskelGroupStop_tie Juniper.Proofs.SkeletonGroup.pskelGroupStopAndWait_tie))
    (by decide)

/-- (holdsW, safe) as a function of what a stopper still has to do -/
def stopperShape : List StopOp → Option (Bool × Bool)
  | [.lock, .cancel, .unlock] => some (false, false)
  | [.lock, .cancel, .unlock, .wait] => some (false, false)
  | [.cancel, .unlock] => some (true, false)
  | [.cancel, .unlock, .wait] => some (true, false)
  | [.unlock] => some (true, true)
  | [.unlock, .wait] => some (true, true)
  | [.wait] => some (false, true)
  | [] => some (false, true)
  | _ => none

def StopperOk (st : Stopper) : Prop := stopperShape st.todo = some (st.holdsW, st.safe)

/-! ### The invariant -/

structure GInv (s : GState) : Prop where
  alive : s.panicked = false
  modelled : s.unmodelled = false
  wgCount : s.wg = s.threads.countP holdsWg
  rdCount : s.readers = s.threads.countP holdsR
  wrCount : s.stoppers.countP (·.holdsW) = if s.writer = true then 1 else 0
  excl : s.writer = true → s.readers = 0
  stopOk : ∀ st ∈ s.stoppers, StopperOk st
  safeK : s.safeCancel = true → s.ctxDone = true ∧ ∀ t ∈ s.threads, t.pc ≠ .spawnChecked
  noLate : ∀ t ∈ s.threads, t.pc ≠ .spawnLate
  safeSt : ∀ st ∈ s.stoppers, st.safe = true → s.safeCancel = true
  barrierK : s.barrier = true → s.safeCancel = true ∧ s.wg = 0
  threads : ∀ t ∈ s.threads, ThreadInv t

theorem ginv_init (now : Int) (async : Bool) : GInv (gInit now async) := by
  refine ⟨rfl, rfl, rfl, rfl, rfl, ?_, ?_, ?_, ?_, ?_, ?_, ?_⟩ <;> simp [gInit]

/-! ### Preservation -/

theorem ginv_work {s s' : GState} {i c : Nat} {off : Int} (hi : GInv s)
    (h : step s (.work i c off) = some s') : GInv s' := by
  simp only [step] at h
  cases hti : s.threads[i]? with
  | none => simp [hti] at h
  | some t =>
    simp only [hti] at h
    cases hts : threadStep (view s) t c off with
    | none => simp [hts] at h
    | some p =>
      obtain ⟨t', e⟩ := p
      simp only [hts, Option.some.injEq] at h
      have F := threadStep_facts hts
      obtain ⟨Ftr, Fk, _, _, Frl, Fchk, _, Finv, _, _, _⟩ := F
      have A := triples_acct _ Ftr
      simp only at A
      obtain ⟨A1, A2, A3, A4, A5, A6, A7, A8, A9⟩ := A
      have hmem : t ∈ s.threads := List.mem_of_getElem? hti
      have cw := count_wg_set (t' := t') hti
      have cr := count_rd_set (t' := t') hti
      have hwg := hi.wgCount
      have hrd := hi.rdCount
      have hTh : ∀ u ∈ s.threads.set i t', ThreadInv u := by
        intro u hu
        rcases mem_set hu with hu | rfl
        · exact hi.threads u hu
        · exact Finv (hi.threads t hmem)
      have hNoLate : ∀ u ∈ s.threads.set i t', u.pc ≠ .spawnLate := by
        intro u hu
        rcases mem_set hu with hu | rfl
        · exact hi.noLate u hu
        · intro hl; exact A6 hl
      have hSafeK : s.safeCancel = true → s.ctxDone = true ∧ ∀ u ∈ s.threads.set i t', u.pc ≠ .spawnChecked := by
        intro hs
        obtain ⟨h1, h2⟩ := hi.safeK hs
        refine ⟨h1, ?_⟩
        intro u hu
        rcases mem_set hu with hu | rfl
        · exact h2 u hu
        · intro hc
          have := Fchk hc
          simp [view] at this
          rw [h1] at this; cases this
      have hnl := hi.noLate t hmem
      cases e with
      | none =>
        simp only [applyEff] at h
        subst h
        simp at A1 A2
        exact { hi with wgCount := (by show s.wg = List.countP holdsWg (s.threads.set i t'); omega), rdCount := (by show s.readers = List.countP holdsR (s.threads.set i t'); omega),
                        safeK := hSafeK, noLate := hNoLate, threads := hTh }
      | rlock =>
        simp only [applyEff] at h
        subst h
        simp at A1 A2
        have hw : s.writer = false := by have := Frl rfl; simpa [view] using this
        exact { hi with wgCount := (by show s.wg = List.countP holdsWg (s.threads.set i t'); omega), rdCount := (by show s.readers + 1 = List.countP holdsR (s.threads.set i t'); omega),
                        excl := (by intro hw'; rw [hw] at hw'; cases hw'),
                        safeK := hSafeK, noLate := hNoLate, threads := hTh }
      | runlock =>
        simp only [applyEff] at h
        subst h
        simp at A1 A2
        have hr1 : rdOf t.pc = 1 := by
          rcases A5 rfl with h | h
          · exact h
          · exact absurd h hnl
        have hpos := count_rd_pos hmem hr1
        exact { hi with wgCount := (by show s.wg = List.countP holdsWg (s.threads.set i t'); omega), rdCount := (by show s.readers - 1 = List.countP holdsR (s.threads.set i t'); omega),
                        excl := (by intro hw'; have := hi.excl hw'; show s.readers - 1 = 0; omega),
                        safeK := hSafeK, noLate := hNoLate, threads := hTh }
      | add =>
        simp only [applyEff] at h
        subst h
        simp at A1 A2
        have hchk : t.pc = .spawnChecked := by
          rcases A3 rfl with h | h
          · exact h
          · exact absurd h hnl
        exact { hi with wgCount := (by show s.wg + 1 = List.countP holdsWg (s.threads.set i t'); omega), rdCount := (by show s.readers = List.countP holdsR (s.threads.set i t'); omega),
                        safeK := hSafeK, noLate := hNoLate, threads := hTh,
                        barrierK := (by
                          intro hb
                          obtain ⟨hsc, _⟩ := hi.barrierK hb
                          exact absurd hchk ((hi.safeK hsc).2 t hmem)) }
      | done =>
        have hw1 : wgOf t.pc = 1 := A4 rfl
        have hpos := count_wg_pos hmem hw1
        have hne : ¬ (s.wg = 0) := by omega
        simp only [applyEff] at h
        rw [if_neg hne] at h
        subst h
        simp at A1 A2
        exact { hi with wgCount := (by show s.wg - 1 = List.countP holdsWg (s.threads.set i t'); omega), rdCount := (by show s.readers = List.countP holdsR (s.threads.set i t'); omega),
                        safeK := hSafeK, noLate := hNoLate, threads := hTh,
                        barrierK := (by
                          intro hb
                          obtain ⟨_, hz⟩ := hi.barrierK hb
                          omega) }


theorem threadInv_new (k : Kind) (iv j : Int) : ThreadInv (newThread k iv j) := by
  simp [ThreadInv, newThread]

/-- replacing thread `i` by one with the same `pc` keeps every count and pc-based fact -/
theorem ginv_set_samepc {s : GState} {i : Nat} {t t' : Thread} (hi : GInv s) (hti : s.threads[i]? = some t)
    (hpc : t'.pc = t.pc) (hinv : ThreadInv t') : GInv { s with threads := s.threads.set i t' } := by
  have hmem : t ∈ s.threads := List.mem_of_getElem? hti
  have cw := count_wg_set (t' := t') hti
  have cr := count_rd_set (t' := t') hti
  rw [hpc] at cw cr
  have hwg := hi.wgCount
  have hrd := hi.rdCount
  exact { hi with
    wgCount := (by show s.wg = List.countP holdsWg (s.threads.set i t'); omega)
    rdCount := (by show s.readers = List.countP holdsR (s.threads.set i t'); omega)
    safeK := (by
      intro hs
      obtain ⟨h1, h2⟩ := hi.safeK hs
      refine ⟨h1, ?_⟩
      intro u hu
      rcases mem_set hu with hu | rfl
      · exact h2 u hu
      · rw [hpc]; exact h2 t hmem)
    noLate := (by
      intro u hu
      rcases mem_set hu with hu | rfl
      · exact hi.noLate u hu
      · rw [hpc]; exact hi.noLate t hmem)
    threads := (by
      intro u hu
      rcases mem_set hu with hu | rfl
      · exact hi.threads u hu
      · exact hinv) }

theorem ginv_env {s s' : GState} {l : GLabel} (hi : GInv s) (h : step s l = some s')
    (hl : match l with | .work _ _ _ => False | .stopStep _ => False | _ => True) : GInv s' := by
  cases l with
  | work i c off => exact absurd hl id
  | stopStep j => exact absurd hl id
  | register k iv j =>
    simp only [step, Option.some.injEq] at h
    subst h
    exact { hi with
      modelled := (by simp [hi.modelled, loopOf_ok])
      wgCount := (by simp [List.countP_append, hi.wgCount, holdsWg, newThread])
      rdCount := (by simp [List.countP_append, hi.rdCount, holdsR, newThread])
      safeK := (by
        intro hs
        obtain ⟨h1, h2⟩ := hi.safeK hs
        refine ⟨h1, ?_⟩
        intro u hu
        simp at hu
        rcases hu with hu | rfl
        · exact h2 u hu
        · simp [newThread])
      noLate := (by
        intro u hu
        simp at hu
        rcases hu with hu | rfl
        · exact hi.noLate u hu
        · simp [newThread])
      threads := (by
        intro u hu
        simp at hu
        rcases hu with hu | rfl
        · exact hi.threads u hu
        · exact threadInv_new k iv j) }
  | fEnd i =>
    simp only [step] at h
    cases hti : s.threads[i]? with
    | none => simp [hti] at h
    | some t =>
      simp only [hti] at h
      by_cases hpc : t.pc = .inF
      · rw [if_pos hpc] at h
        simp only [Option.some.injEq] at h
        subst h
        have hmem : t ∈ s.threads := List.mem_of_getElem? hti
        have hT := hi.threads t hmem
        have cw := count_wg_set (t' := { t with pc := if t.kind = .doOnce then .exiting else .loopHead, active := t.active - 1 }) hti
        have cr := count_rd_set (t' := { t with pc := if t.kind = .doOnce then .exiting else .loopHead, active := t.active - 1 }) hti
        have hwg := hi.wgCount
        have hrd := hi.rdCount
        have e1 : wgOf (if t.kind = .doOnce then Pc.exiting else Pc.loopHead) = 1 := by split <;> rfl
        have e2 : rdOf (if t.kind = .doOnce then Pc.exiting else Pc.loopHead) = 0 := by split <;> rfl
        have e3 : (if t.kind = .doOnce then Pc.exiting else Pc.loopHead) ≠ .spawnChecked := by split <;> simp
        have e4 : (if t.kind = .doOnce then Pc.exiting else Pc.loopHead) ≠ .spawnLate := by split <;> simp
        dsimp only at cw cr
        rw [hpc, e1] at cw
        rw [hpc, e2] at cr
        simp only [wgOf, rdOf] at cw cr
        refine { hi with
          wgCount := (by show s.wg = List.countP holdsWg (s.threads.set i _); omega)
          rdCount := (by show s.readers = List.countP holdsR (s.threads.set i _); omega)
          safeK := ?_, noLate := ?_, threads := ?_ }
        · intro hs
          obtain ⟨h1, h2⟩ := hi.safeK hs
          refine ⟨h1, ?_⟩
          intro u hu
          rcases mem_set hu with hu | rfl
          · exact h2 u hu
          · exact e3
        · intro u hu
          rcases mem_set hu with hu | rfl
          · exact hi.noLate u hu
          · exact e4
        · intro u hu
          rcases mem_set hu with hu | rfl
          · exact hi.threads u hu
          · obtain ⟨ha, ho, htm, _⟩ := hT
            simp only [hpc] at ha ho htm
            refine ⟨?_, ?_, ?_, ?_⟩
            · simp [ha]; split <;> simp
            · intro hw; rcases ho hw with h | h
              · exact Or.inl h
              · simp [committed] at h
            · intro hk
              have := htm hk
              by_cases hd : t.kind = .doOnce
              · simp [hd]
              · simp [hd]; exact this
            · intro hp; split at hp <;> simp at hp
      · rw [if_neg hpc] at h; cases h
  | trig i =>
    simp only [step] at h
    cases hti : s.threads[i]? with
    | none => simp [hti] at h
    | some t =>
      simp only [hti] at h
      cases hts : trigSend t with
      | none => simp [hts] at h
      | some t' =>
        simp only [hts, Option.some.injEq] at h
        subst h
        obtain ⟨_, rfl⟩ := trigSend_spec hts
        have hT := hi.threads t (List.mem_of_getElem? hti)
        refine ginv_set_samepc hi hti rfl ?_
        obtain ⟨ha, ho, htm, hkp⟩ := hT
        exact ⟨ha, fun _ => Or.inl rfl, htm, hkp⟩
  | fireTimer i =>
    simp only [step] at h
    cases hti : s.threads[i]? with
    | none => simp [hti] at h
    | some t =>
      simp only [hti] at h
      cases htm : t.timer with
      | idle => simp [htm] at h
      | fired => simp [htm] at h
      | armed due =>
        simp only [htm] at h
        split at h
        · simp only [Option.some.injEq] at h
          subst h
          have hT := hi.threads t (List.mem_of_getElem? hti)
          refine ginv_set_samepc hi hti rfl ?_
          obtain ⟨ha, ho, htk, hkp⟩ := hT
          refine ⟨ha, ho, ?_, hkp⟩
          intro hk
          have := htk hk
          cases hp : t.pc <;> simp_all
        · cases h
  | advance dt =>
    simp only [step] at h
    split at h
    · simp only [Option.some.injEq] at h; subst h
      exact ⟨hi.alive, hi.modelled, hi.wgCount, hi.rdCount, hi.wrCount, hi.excl, hi.stopOk, hi.safeK, hi.noLate,
        hi.safeSt, hi.barrierK, hi.threads⟩
    · cases h
  | parentCancel =>
    simp only [step, Option.some.injEq] at h
    subst h
    exact { hi with safeK := (by intro hs; exact ⟨rfl, (hi.safeK hs).2⟩) }
  | stopCall w =>
    simp only [step, Option.some.injEq] at h
    subst h
    refine { hi with wrCount := ?_, stopOk := ?_, safeSt := ?_ }
    · show List.countP (·.holdsW) (s.stoppers ++ _) = _
      simp [List.countP_append, hi.wrCount]
    · intro st hst
      simp at hst
      rcases hst with hst | rfl
      · exact hi.stopOk st hst
      · cases w <;> simp [StopperOk, progs.1, progs.2, stopperShape]
    · intro st hst hs
      simp at hst
      rcases hst with hst | rfl
      · exact hi.safeSt st hst hs
      · simp at hs


theorem shape_lock {rest : List StopOp} {hs : Bool × Bool} (h : stopperShape (.lock :: rest) = some hs) :
    hs = (false, false) ∧ stopperShape rest = some (true, false) := by
  unfold stopperShape at h
  split at h <;> simp_all [stopperShape]

theorem shape_cancel {rest : List StopOp} {hs : Bool × Bool} (h : stopperShape (.cancel :: rest) = some hs) :
    hs = (true, false) ∧ stopperShape rest = some (true, true) := by
  unfold stopperShape at h
  split at h <;> simp_all [stopperShape]

theorem shape_unlock {rest : List StopOp} {hs : Bool × Bool} (h : stopperShape (.unlock :: rest) = some hs) :
    hs = (true, true) ∧ stopperShape rest = some (false, true) := by
  unfold stopperShape at h
  split at h <;> simp_all [stopperShape]

theorem shape_wait {rest : List StopOp} {hs : Bool × Bool} (h : stopperShape (.wait :: rest) = some hs) :
    hs = (false, true) ∧ rest = [] := by
  unfold stopperShape at h
  split at h <;> simp_all

theorem shape_unknown {rest : List StopOp} {hs : Bool × Bool} (h : stopperShape (.unknown :: rest) = some hs) :
    False := by
  unfold stopperShape at h
  split at h <;> simp_all

theorem holder_writer {s : GState} {st : Stopper} (hi : GInv s) (hm : st ∈ s.stoppers) (hw : st.holdsW = true) :
    s.writer = true := by
  have hpos : 0 < s.stoppers.countP (·.holdsW) := by
    rw [List.countP_pos_iff]; exact ⟨st, hm, hw⟩
  have := hi.wrCount
  cases hwr : s.writer with
  | true => rfl
  | false =>
    rw [hwr] at this
    simp only [Bool.false_eq_true, ↓reduceIte] at this
    omega

theorem no_reader_no_checked {s : GState} (hi : GInv s) (hr : s.readers = 0) :
    ∀ t ∈ s.threads, t.pc ≠ .spawnChecked := by
  intro t ht hc
  have := count_rd_pos ht (by rw [hc]; rfl)
  have := hi.rdCount
  omega

theorem ginv_stopStep {s s' : GState} {j : Nat} (hi : GInv s) (h : step s (.stopStep j) = some s') : GInv s' := by
  simp only [step] at h
  cases hsj : s.stoppers[j]? with
  | none => simp [hsj] at h
  | some st =>
    simp only [hsj] at h
    have hmem : st ∈ s.stoppers := List.mem_of_getElem? hsj
    have hok := hi.stopOk st hmem
    have hwc := hi.wrCount
    unfold StopperOk at hok
    cases htodo : st.todo with
    | nil => simp [htodo] at h
    | cons op rest =>
      rw [htodo] at hok
      cases op with
      | lock =>
        obtain ⟨hs, hrest⟩ := shape_lock hok
        have hW : st.holdsW = false := by have := congrArg Prod.fst hs; simpa using this
        have hS : st.safe = false := by have := congrArg Prod.snd hs; simpa using this
        simp only [htodo] at h
        split at h
        · cases h
        · rename_i hfree
          simp only [Option.some.injEq] at h
          subst h
          simp at hfree
          obtain ⟨hw0, hr0⟩ := hfree
          have c1 := count_holdsW_set (st' := { st with todo := rest, holdsW := true }) hsj
          rw [hW] at c1
          rw [hw0] at hwc
          simp only [Bool.false_eq_true, ↓reduceIte] at c1 hwc
          refine { hi with wrCount := ?_, excl := ?_, stopOk := ?_, safeSt := ?_ }
          · show List.countP (·.holdsW) (s.stoppers.set j _) = _
            simp only [↓reduceIte]; omega
          · intro _; exact hr0
          · intro u hu
            rcases mem_set hu with hu | rfl
            · exact hi.stopOk u hu
            · simp [StopperOk, hrest, hS]
          · intro u hu hs
            rcases mem_set hu with hu | rfl
            · exact hi.safeSt u hu hs
            · simp [hS] at hs
      | cancel =>
        obtain ⟨hs, hrest⟩ := shape_cancel hok
        have hW : st.holdsW = true := by have := congrArg Prod.fst hs; simpa using this
        have hS : st.safe = false := by have := congrArg Prod.snd hs; simpa using this
        simp only [htodo, Option.some.injEq] at h
        subst h
        have hwr := holder_writer hi hmem hW
        have hr0 := hi.excl hwr
        have c1 := count_holdsW_set (st' := { st with todo := rest, safe := st.safe || st.holdsW }) hsj
        simp only [Nat.add_right_cancel_iff] at c1
        refine { hi with wrCount := ?_, stopOk := ?_, safeK := ?_, safeSt := ?_, barrierK := ?_ }
        · show List.countP (·.holdsW) (s.stoppers.set j _) = _
          rw [c1]; exact hwc
        · intro u hu
          rcases mem_set hu with hu | rfl
          · exact hi.stopOk u hu
          · simp [StopperOk, hrest, hW]
        · intro _
          exact ⟨rfl, fun t ht => no_reader_no_checked (s := s) hi hr0 t ht⟩
        · intro u hu hs
          simp [hW]
        · intro hb
          obtain ⟨_, hz⟩ := hi.barrierK hb
          exact ⟨by simp [hW], hz⟩
      | unlock =>
        obtain ⟨hs, hrest⟩ := shape_unlock hok
        have hW : st.holdsW = true := by have := congrArg Prod.fst hs; simpa using this
        have hS : st.safe = true := by have := congrArg Prod.snd hs; simpa using this
        simp only [htodo, hW, ↓reduceIte, Option.some.injEq] at h
        subst h
        have hwr := holder_writer hi hmem hW
        have c1 := count_holdsW_set (st' := { st with todo := rest, holdsW := false }) hsj
        rw [hW] at c1
        rw [hwr] at hwc
        simp only [Bool.false_eq_true, ↓reduceIte] at c1 hwc
        refine { hi with wrCount := ?_, excl := ?_, stopOk := ?_, safeSt := ?_ }
        · show List.countP (·.holdsW) (s.stoppers.set j _) = _
          simp only [Bool.false_eq_true, ↓reduceIte]; omega
        · intro hf; cases hf
        · intro u hu
          rcases mem_set hu with hu | rfl
          · exact hi.stopOk u hu
          · simp [StopperOk, hrest, hS]
        · intro u hu hs
          rcases mem_set hu with hu | rfl
          · exact hi.safeSt u hu hs
          · exact hi.safeSt st hmem hS
      | wait =>
        obtain ⟨hs, hrest⟩ := shape_wait hok
        have hW : st.holdsW = false := by have := congrArg Prod.fst hs; simpa using this
        have hS : st.safe = true := by have := congrArg Prod.snd hs; simpa using this
        simp only [htodo] at h
        split at h
        · rename_i hz
          simp only [Option.some.injEq] at h
          subst h
          have c1 := count_holdsW_set (st' := { st with todo := rest }) hsj
          simp only [Nat.add_right_cancel_iff] at c1
          refine { hi with wrCount := ?_, stopOk := ?_, safeSt := ?_, barrierK := ?_ }
          · show List.countP (·.holdsW) (s.stoppers.set j _) = _
            rw [c1]; exact hwc
          · intro u hu
            rcases mem_set hu with hu | rfl
            · exact hi.stopOk u hu
            · simp [StopperOk, hrest, stopperShape, hW, hS]
          · intro u hu hs
            rcases mem_set hu with hu | rfl
            · exact hi.safeSt u hu hs
            · exact hi.safeSt st hmem hS
          · intro _
            exact ⟨hi.safeSt st hmem hS, hz⟩
        · cases h
      | unknown => exact absurd hok (fun h => shape_unknown h)


theorem ginv_step {s s' : GState} {l : GLabel} (hi : GInv s) (h : step s l = some s') : GInv s' := by
  cases l with
  | work i c off => exact ginv_work hi h
  | stopStep j => exact ginv_stopStep hi h
  | register k iv j => exact ginv_env hi h trivial
  | fEnd i => exact ginv_env hi h trivial
  | trig i => exact ginv_env hi h trivial
  | fireTimer i => exact ginv_env hi h trivial
  | advance dt => exact ginv_env hi h trivial
  | parentCancel => exact ginv_env hi h trivial
  | stopCall w => exact ginv_env hi h trivial

theorem ginv_reach {now : Int} {async : Bool} {s : GState} (hr : Reach (gInit now async) s) : GInv s := by
  induction hr with
  | refl => exact ginv_init now async
  | step l _ hs ih => exact ginv_step ih hs

end Juniper.Proofs.GroupInv
