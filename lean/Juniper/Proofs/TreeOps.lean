import Juniper.Proofs.TreeRangeRev
/-!
# Whole histories with reads: the model's answers are the ideal sorted map's answers (C01)
-/
namespace Juniper.Proofs.Tree
open Juniper.Model.BTree Juniper.Gen.Tree

variable {K V : Type} {cmp : K → K → Int}

/-- every exported operation of `tree.Map` (a `Set` is the same with `V := Unit`; `Iterate` is
`range` with two unbounded bounds) -/
inductive Op (K V : Type) where
  | put (k : K) (v : V)
  | del (k : K)
  | get (k : K)
  | has (k : K)
  | len
  | first
  | last
  | range (lo hi : Bound K)
  | rrange (lo hi : Bound K)

/-- what a call returns (`none` values are Go zero values; `panic` is the "unknown bound" panic) -/
inductive Out (K V : Type) where
  | unit
  | val (v : Option V)
  | bool (b : Bool)
  | int (n : Int)
  | entry (e : Option (K × V))
  | items (l : List (K × Option V))
  | panic

/-- the model: `none` = nil dereference -/
def applyOp (cmp : K → K → Int) (t : Tree K V) : Op K V → Option (Tree K V × Out K V)
  | .put k v => (put cmp t k v).map fun t' => (t', .unit)
  | .del k => (delete cmp t k).map fun t' => (t', .unit)
  | .get k => some (t, .val (get cmp t k))
  | .has k => some (t, .bool (contains cmp t k))
  | .len => some (t, .int (len t))
  | .first => some (t, .entry (first t))
  | .last => some (t, .entry (last t))
  | .range lo hi =>
    some (t, match range cmp t lo hi with
      | none => .panic
      | some it => .items (drain cmp t (t.size.toNat + 1) it))
  | .rrange lo hi =>
    some (t, match rangeReverse cmp t lo hi with
      | none => .panic
      | some it => .items (drain cmp t (t.size.toNat + 1) it))

/-- the ideal sorted map -/
def specOp (cmp : K → K → Int) (L : List (K × V)) : Op K V → List (K × V) × Out K V
  | .put k v => (sput cmp k v L, .unit)
  | .del k => (serase cmp k L, .unit)
  | .get k => (L, .val ((sget cmp k L).map (·.2)))
  | .has k => (L, .bool (sget cmp k L).isSome)
  | .len => (L, .int L.length)
  | .first => (L, .entry L.head?)
  | .last => (L, .entry L.getLast?)
  | .range lo hi =>
    (L, if lo.kind = none ∨ hi.kind = none then .panic else .items ((srange cmp lo hi L).map outOf))
  | .rrange lo hi =>
    (L, if lo.kind = none ∨ hi.kind = none then .panic else .items ((srangeRev cmp lo hi L).map outOf))

def runOps (cmp : K → K → Int) : Tree K V → List (Op K V) → Option (Tree K V × List (Out K V))
  | t, [] => some (t, [])
  | t, o :: os =>
    match applyOp cmp t o with
    | none => none
    | some (t', out) =>
      match runOps cmp t' os with
      | none => none
      | some (t'', outs) => some (t'', out :: outs)

def specOps (cmp : K → K → Int) : List (K × V) → List (Op K V) → List (K × V) × List (Out K V)
  | L, [] => (L, [])
  | L, o :: os =>
    let r := specOp cmp L o
    let rs := specOps cmp r.1 os
    (rs.1, r.2 :: rs.2)

theorem mkIter_none_of_zero (cmp : K → K → Int) (t : Tree K V) (tbl1 : Side × List (BoundKind × SeekKind × Option Side))
    (tbl2 : Side × List (BoundKind × StopKind)) (h12 : tbl1.1 ≠ tbl2.1) (lo hi : Bound K)
    (hz : lo.kind = none ∨ hi.kind = none) : mkIter cmp t tbl1 tbl2 lo hi = none := by
  unfold mkIter
  cases h1 : tbl1.1 <;> cases h2 : tbl2.1 <;> simp_all [pickSide]
  · rcases hz with hz | hz
    · simp [hz]
    · cases hl : lo.kind with
      | none => rfl
      | some bk =>
        simp only
        cases List.find? (fun r => r.1 == bk) tbl1.2 with
        | none => rfl
        | some r => obtain ⟨_, _, _⟩ := r; simp [hz]
  · rcases hz with hz | hz
    · cases hh : hi.kind with
      | none => rfl
      | some bk =>
        simp only
        cases List.find? (fun r => r.1 == bk) tbl1.2 with
        | none => rfl
        | some r => obtain ⟨_, _, _⟩ := r; simp [hz]
    · simp [hz]

/-- one operation: same answer, invariant kept -/
theorem applyOp_refines (hc : StrictWeak cmp) (t : Tree K V) (o : Op K V) (hi : Inv cmp t) :
    ∃ t' out, applyOp cmp t o = some (t', out) ∧ Inv cmp t' ∧
      specOp cmp (toList t.root) o = (toList t'.root, out) := by
  obtain ⟨h, hbal, _, _⟩ := hi.wf.bal
  have hlk := lookup_refines (V := V) hc
  cases o with
  | put k v =>
    obtain ⟨t', h1, h2, h3⟩ := inv_put hc t k v hi
    exact ⟨t', .unit, by simp [applyOp, h1], h2, by simp [specOp, h3]⟩
  | del k =>
    obtain ⟨t', h1, h2, h3⟩ := inv_delete hc t k hi
    exact ⟨t', .unit, by simp [applyOp, h1], h2, by simp [specOp, h3]⟩
  | get k =>
    refine ⟨t, _, rfl, hi, ?_⟩
    simp only [specOp, Juniper.Model.BTree.get, hlk k t.root h hbal hi.wf.sorted]
  | has k =>
    refine ⟨t, _, rfl, hi, ?_⟩
    simp only [specOp, contains, hlk k t.root h hbal hi.wf.sorted]
  | len => exact ⟨t, _, rfl, hi, by simp [specOp, len, hi.wf.size]⟩
  | first =>
    refine ⟨t, _, rfl, hi, ?_⟩
    obtain ⟨h, hbal, hmax, hroot⟩ := hi.wf.bal
    simp only [specOp, Prod.mk.injEq, true_and, Out.entry.injEq]
    unfold first
    by_cases h0 : t.root.n = 0
    · simp [firstEmpty, h0, root_empty_of_n_zero hi.wf h0]
    · have hn : 1 ≤ t.root.n := by
        have : 0 ≤ t.root.n := by simp [Node.n]
        omega
      simp only [firstEmpty, h0, decide_false, Bool.false_eq_true, if_false]
      exact (first_leaf t.root h hbal hn).1
  | last =>
    refine ⟨t, _, rfl, hi, ?_⟩
    obtain ⟨h, hbal, hmax, hroot⟩ := hi.wf.bal
    simp only [specOp, Prod.mk.injEq, true_and, Out.entry.injEq]
    unfold last
    by_cases h0 : t.root.n = 0
    · simp [lastEmpty, h0, root_empty_of_n_zero hi.wf h0]
    · have hn : 1 ≤ t.root.n := by
        have : 0 ≤ t.root.n := by simp [Node.n]
        omega
      simp only [lastEmpty, h0, decide_false, Bool.false_eq_true, if_false]
      exact (last_leaf t.root h hbal hn).1
  | range lo hi' =>
    refine ⟨t, _, rfl, hi, ?_⟩
    simp only [specOp, Prod.mk.injEq, true_and]
    by_cases hz : lo.kind = none ∨ hi'.kind = none
    · have : range cmp t lo hi' = none := mkIter_none_of_zero cmp t rangeSeek rangeStop (by decide) lo hi' hz
      simp [hz, this]
    · have h1 : lo.kind ≠ none := fun h => hz (Or.inl h)
      have h2 : hi'.kind ≠ none := fun h => hz (Or.inr h)
      obtain ⟨it, hit, hd⟩ := range_refines_fwd hc hi lo hi' h1 h2
      have := hd (t.size.toNat + 1) (by rw [hi.wf.size]; simp)
      simp [hz, hit, this]
  | rrange lo hi' =>
    refine ⟨t, _, rfl, hi, ?_⟩
    simp only [specOp, Prod.mk.injEq, true_and]
    by_cases hz : lo.kind = none ∨ hi'.kind = none
    · have : rangeReverse cmp t lo hi' = none := mkIter_none_of_zero cmp t rrangeSeek rrangeStop (by decide) lo hi' hz
      simp [hz, this]
    · have h1 : lo.kind ≠ none := fun h => hz (Or.inl h)
      have h2 : hi'.kind ≠ none := fun h => hz (Or.inr h)
      obtain ⟨it, hit, hd⟩ := rangeRev_refines hc hi lo hi' h1 h2
      have := hd (t.size.toNat + 1) (by rw [hi.wf.size]; simp)
      simp [hz, hit, this]

theorem runOps_refines (hc : StrictWeak cmp) (os : List (Op K V)) :
    ∀ t : Tree K V, Inv cmp t →
      ∃ t' outs, runOps cmp t os = some (t', outs) ∧ Inv cmp t' ∧
        specOps cmp (toList t.root) os = (toList t'.root, outs) := by
  induction os with
  | nil => intro t hi; exact ⟨t, [], rfl, hi, rfl⟩
  | cons o os ih =>
    intro t hi
    obtain ⟨t1, out, h1, h2, h3⟩ := applyOp_refines hc t o hi
    obtain ⟨t', outs, h4, h5, h6⟩ := ih t1 h2
    refine ⟨t', out :: outs, by simp [runOps, h1, h4], h5, ?_⟩
    simp only [specOps, h3, h6]

end Juniper.Proofs.Tree
