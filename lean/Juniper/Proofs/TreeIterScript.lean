import Juniper.Proofs.TreeIterSpec
import Juniper.Proofs.TreeOps
set_option linter.unusedSimpArgs false
/-!
# Scripts interleaving mutations with `Next` calls of any number of live iterators (C02)
-/
namespace Juniper.Proofs.Tree
open Juniper.Model.BTree Juniper.Gen.Tree

variable {K V : Type} {α : Type} {cmp : K → K → Int}

/-! ## creating iterators -/

/-- the `While` predicate `Range` (fwd) / `RangeReverse` (bwd) installs for the far bound -/
def stopOf (fwd : Bool) (lo hi : Bound K) : Option (CmpOp × K) :=
  if fwd then
    match hi.kind with
    | some .incl => some (.le, hi.key)
    | some .excl => some (.lt, hi.key)
    | _ => none
  else
    match lo.kind with
    | some .incl => some (.ge, lo.key)
    | some .excl => some (.gt, lo.key)
    | _ => none

/-- the entries from the near bound on, in iteration order -/
def startOf (cmp : K → K → Int) (L : List (K × V)) (fwd : Bool) (lo hi : Bound K) : List (K × V) :=
  if fwd then L.dropWhile (fun x => !aboveLo cmp lo x.1)
  else L.reverse.dropWhile (fun x => !belowHi cmp hi x.1)

/-- the specification's iterator for `Range` / `RangeReverse` on the map `L` -/
def smk (cmp : K → K → Int) (L : List (K × V)) (fwd : Bool) (lo hi : Bound K) : SIter K :=
  { resume := (startOf cmp L fwd lo hi).head?.map (·.1), fwd := fwd, stop := stopOf fwd lo hi, done := false }

theorem doSeek_gen_le (cmp : K → K → Int) (t : Tree K V) (sk : SeekKind) (key : K) :
    (doSeek cmp t sk key).gen ≤ t.gen := by
  have h1 : seekFirstSetsGen = true := by decide
  have h2 : seekLastSetsGen = true := by decide
  cases sk with
  | first => simp only [doSeek, seekFirst]; split <;> simp [h1]
  | last => simp only [doSeek, seekLast]; split <;> simp [h2]
  | ge => rcases seekWith_gen seekFirstGreaterOrEqualStep true cmp t ⟨none, 0⟩ key with h | h <;>
      simp only [doSeek, seekFirstGreaterOrEqual, h] <;> omega
  | gt => rcases seekWith_gen seekFirstGreaterStep true cmp t ⟨none, 0⟩ key with h | h <;>
      simp only [doSeek, seekFirstGreater, h] <;> omega
  | le => rcases seekWith_gen seekLastLessOrEqualStep false cmp t ⟨none, 0⟩ key with h | h <;>
      simp only [doSeek, seekLastLessOrEqual, h] <;> omega
  | lt => rcases seekWith_gen seekLastLessStep false cmp t ⟨none, 0⟩ key with h | h <;>
      simp only [doSeek, seekLastLess, h] <;> omega

theorem range_creates (hs : StrictWeak cmp) {t : Tree K V} (hi : Inv cmp t) (lo hi' : Bound K)
    (hlk : lo.kind ≠ none) (hhk : hi'.kind ≠ none) :
    ∃ it, range cmp t lo hi' = some it ∧ CInv t it.c ∧ absIter it = smk cmp (toList t.root) true lo hi' := by
  obtain ⟨lk, hlk'⟩ := Option.ne_none_iff_exists'.mp hlk
  obtain ⟨hk, hhk'⟩ := Option.ne_none_iff_exists'.mp hhk
  obtain ⟨sk, arg, hfind, hside, hfwd⟩ := range_seek_fwd hs hi lo lk hlk'
  have hstop : ∃ sk2, rangeStop.2.find? (fun r => r.1 == hk) = some (hk, sk2) ∧ rangeStop.1 = Side.upper ∧
      (match sk2 with
        | .all f => f = true ∧ stopOf true lo hi' = none
        | .while f op s => f = true ∧ stopOf true lo hi' = some (op, (pickSide s lo hi').key)) := by
    cases hk with
    | incl => exact ⟨.while true .le Side.upper, by decide, rfl, by simp [stopOf, hhk', pickSide_upper]⟩
    | excl => exact ⟨.while true .lt Side.upper, by decide, rfl, by simp [stopOf, hhk', pickSide_upper]⟩
    | unb => exact ⟨.all true, by decide, rfl, by simp [stopOf, hhk']⟩
  obtain ⟨sk2, hsf, hss, hsk2⟩ := hstop
  have hF := hfwd hi'
  have hci : CInv t (doSeek cmp t sk (argKey arg lo hi')) := cinv_of_fwd hF (doSeek_gen_le cmp t sk _)
  have hres := resume_of_parked (parked_of_fwd hF)
  cases sk2 with
  | all f =>
    obtain ⟨rfl, hso⟩ := hsk2
    refine ⟨{ c := doSeek cmp t sk (argKey arg lo hi'), fwd := true, stop := none, done := false },
      by simp only [range, mkIter, hside, pickSide_lower, pickSide_upper, hlk', hfind, hss, hhk', hsf]; cases arg <;> rfl,
      hci, ?_⟩
    simp [absIter, smk, startOf, hres, hso]
  | «while» f op s =>
    obtain ⟨rfl, hso⟩ := hsk2
    refine ⟨{ c := doSeek cmp t sk (argKey arg lo hi'), fwd := true, stop := some (op, (pickSide s lo hi').key), done := false },
      by simp only [range, mkIter, hside, pickSide_lower, pickSide_upper, hlk', hfind, hss, hhk', hsf]; cases arg <;> rfl,
      hci, ?_⟩
    simp [absIter, smk, startOf, hres, hso]

theorem rrange_creates (hs : StrictWeak cmp) {t : Tree K V} (hi : Inv cmp t) (lo hi' : Bound K)
    (hlk : lo.kind ≠ none) (hhk : hi'.kind ≠ none) :
    ∃ it, rangeReverse cmp t lo hi' = some it ∧ CInv t it.c ∧ absIter it = smk cmp (toList t.root) false lo hi' := by
  obtain ⟨lk, hlk'⟩ := Option.ne_none_iff_exists'.mp hlk
  obtain ⟨hk, hhk'⟩ := Option.ne_none_iff_exists'.mp hhk
  obtain ⟨sk, arg, hfind, hside, hbwd⟩ := rrange_seek_bwd hs hi hi' hk hhk'
  have hstop : ∃ sk2, rrangeStop.2.find? (fun r => r.1 == lk) = some (lk, sk2) ∧ rrangeStop.1 = Side.lower ∧
      (match sk2 with
        | .all f => f = false ∧ stopOf false lo hi' = none
        | .while f op s => f = false ∧ stopOf false lo hi' = some (op, (pickSide s lo hi').key)) := by
    cases lk with
    | incl => exact ⟨.while false .ge Side.lower, by decide, rfl, by simp [stopOf, hlk', pickSide_lower]⟩
    | excl => exact ⟨.while false .gt Side.lower, by decide, rfl, by simp [stopOf, hlk', pickSide_lower]⟩
    | unb => exact ⟨.all false, by decide, rfl, by simp [stopOf, hlk']⟩
  obtain ⟨sk2, hsf, hss, hsk2⟩ := hstop
  have hF := hbwd lo
  have hci : CInv t (doSeek cmp t sk (argKey arg lo hi')) := cinv_of_bwd hF (doSeek_gen_le cmp t sk _)
  have hres := resume_of_parkedB (parkedB_of_bwd hF)
  cases sk2 with
  | all f =>
    obtain ⟨rfl, hso⟩ := hsk2
    refine ⟨{ c := doSeek cmp t sk (argKey arg lo hi'), fwd := false, stop := none, done := false },
      by simp only [rangeReverse, mkIter, hside, pickSide_lower, pickSide_upper, hlk', hfind, hss, hhk', hsf]; cases arg <;> rfl,
      hci, ?_⟩
    simp [absIter, smk, startOf, hres, hso]
  | «while» f op s =>
    obtain ⟨rfl, hso⟩ := hsk2
    refine ⟨{ c := doSeek cmp t sk (argKey arg lo hi'), fwd := false, stop := some (op, (pickSide s lo hi').key), done := false },
      by simp only [rangeReverse, mkIter, hside, pickSide_lower, pickSide_upper, hlk', hfind, hss, hhk', hsf]; cases arg <;> rfl,
      hci, ?_⟩
    simp [absIter, smk, startOf, hres, hso]


/-! ## scripts: mutations interleaved with `Next` calls of any number of live iterators -/

inductive Step (K V : Type) where
  /-- `Put` / `Delete` -/
  | mutate (m : Mut K V)
  /-- iterator slot `j := Range(lo, hi)` (`fwd`) or `RangeReverse(lo, hi)` -/
  | mk (j : Nat) (fwd : Bool) (lo hi : Bound K)
  /-- `Next` on slot `j` -/
  | next (j : Nat)

/-- what a step shows to the caller -/
inductive Obs (β : Type) where
  | nothing
  | panic
  | yielded (r : Option β)

structure MSt (K V : Type) where
  t : Tree K V
  its : Nat → Option (Iter K)

structure SSt (K V : Type) where
  L : List (K × V)
  its : Nat → Option (SIter K)

def setSlot {β : Type} (f : Nat → Option β) (j : Nat) (x : β) : Nat → Option β := fun i => if i = j then some x else f i

/-- the model; `none` = nil dereference -/
def mstep (cmp : K → K → Int) (s : MSt K V) : Step K V → Option (MSt K V × Obs (K × Option V))
  | .mutate m => (applyMut cmp s.t m).map fun t' => ({ s with t := t' }, .nothing)
  | .mk j fwd lo hi =>
    match (if fwd then range cmp s.t lo hi else rangeReverse cmp s.t lo hi) with
    | none => some (s, .panic)
    | some it => some ({ s with its := setSlot s.its j it }, .nothing)
  | .next j =>
    match s.its j with
    | none => some (s, .nothing)
    | some it =>
      -- `Next` starts with `iter.c.lost()`: a nil dereference if that looks through `curr == nil`
      if iterNextPanics s.t it then none else
      let r := iterNext cmp s.t it
      some ({ s with its := setSlot s.its j r.1 }, .yielded r.2)

/-- the specification -/
def sstep (cmp : K → K → Int) (s : SSt K V) : Step K V → SSt K V × Obs (K × V)
  | .mutate m => ({ s with L := specMut cmp s.L m }, .nothing)
  | .mk j fwd lo hi =>
    if lo.kind = none ∨ hi.kind = none then (s, .panic)
    else ({ s with its := setSlot s.its j (smk cmp s.L fwd lo hi) }, .nothing)
  | .next j =>
    match s.its j with
    | none => (s, .nothing)
    | some it =>
      let r := snext cmp s.L it
      ({ s with its := setSlot s.its j r.1 }, .yielded r.2)

def ObsRel (cmp : K → K → Int) : Obs (K × Option V) → Obs (K × V) → Prop
  | .nothing, .nothing => True
  | .panic, .panic => True
  | .yielded a, .yielded b => OutRel cmp a b
  | _, _ => False

/-- the simulation relation -/
structure Sim (cmp : K → K → Int) (m : MSt K V) (s : SSt K V) : Prop where
  inv : Inv cmp m.t
  list : s.L = toList m.t.root
  /-- every live iterator has a twin `w` in the `While` formulation (`IterEq`: same direction, predicate,
  cut-off flag, and the same cursor unless cut off) that abstracts to the specification's iterator and
  whose cursor satisfies the cursor invariant -/
  its : ∀ j, match m.its j with
    | none => s.its j = none
    | some it => ∃ w, IterEq w it ∧ s.its j = some (absIter w) ∧ CInv m.t w.c

/-- **`lost()` never looks through a nil `curr`**: with `c.curr == nil` the regenerated expression does not depend
on what `c.curr.n` or `c.curr.keys[c.i]` would be (the guard `c.curr != nil &&` short-circuits them away), so `Next`
on an exhausted iterator — or one created on an empty range — does not panic, whatever happened to the tree. -/
theorem lost_guards_nil (cgen tgen : Int) : lostDerefsNil cgen tgen = false := by
  simp [lostDerefsNil, lost]

theorem sim_step (hs : StrictWeak cmp) {m : MSt K V} {s : SSt K V} (h : Sim cmp m s) (st : Step K V) :
    ∃ m' o, mstep cmp m st = some (m', o) ∧ Sim cmp m' (sstep cmp s st).1 ∧ ObsRel cmp o (sstep cmp s st).2 := by
  cases st with
  | mutate mu =>
    have step : ∃ t1, applyMut cmp m.t mu = some t1 ∧ Inv cmp t1 ∧ toList t1.root = specMut cmp (toList m.t.root) mu ∧
        ∀ c, CInv m.t c → CInv t1 c := by
      cases mu with
      | put k v =>
        obtain ⟨t1, h1, h2, h3⟩ := inv_put hs m.t k v h.inv
        exact ⟨t1, h1, h2, h3, fun c hc => cinv_put cmp h.inv hc h1⟩
      | del k =>
        obtain ⟨t1, h1, h2, h3⟩ := inv_delete hs m.t k h.inv
        exact ⟨t1, h1, h2, h3, fun c hc => cinv_delete cmp hc h1⟩
    obtain ⟨t1, h1, h2, h3, h4⟩ := step
    refine ⟨{ m with t := t1 }, .nothing, by simp [mstep, h1], ⟨h2, ?_, fun j => ?_⟩, trivial⟩
    · simp only [sstep, h.list, h3]
    · have := h.its j
      simp only [sstep]
      cases hj : m.its j with
      | none => rw [hj] at this; exact this
      | some it =>
        rw [hj] at this
        obtain ⟨w, hw1, hw2, hw3⟩ := this
        exact ⟨w, hw1, hw2, h4 _ hw3⟩
  | mk j fwd lo hi' =>
    by_cases hz : lo.kind = none ∨ hi'.kind = none
    · have h1 : range cmp m.t lo hi' = none := mkIter_none_of_zero cmp m.t rangeSeek rangeStop (by decide) lo hi' hz
      have h2 : rangeReverse cmp m.t lo hi' = none := mkIter_none_of_zero cmp m.t rrangeSeek rrangeStop (by decide) lo hi' hz
      refine ⟨m, .panic, by cases fwd <;> simp [mstep, h1, h2], ?_, ?_⟩
      · simp only [sstep, hz, if_true]; exact h
      · simp only [sstep, hz, if_true, ObsRel]
    · have hl : lo.kind ≠ none := fun h => hz (Or.inl h)
      have hh : hi'.kind ≠ none := fun h => hz (Or.inr h)
      have hcr : ∃ it, (if fwd then range cmp m.t lo hi' else rangeReverse cmp m.t lo hi') = some it ∧ CInv m.t it.c ∧
          absIter it = smk cmp (toList m.t.root) fwd lo hi' := by
        cases fwd with
        | true => simpa using range_creates hs h.inv lo hi' hl hh
        | false => simpa using rrange_creates hs h.inv lo hi' hl hh
      obtain ⟨it, h1, h2, h3⟩ := hcr
      have hdone : it.done = false := by
        have := congrArg SIter.done h3
        simpa [absIter, smk] using this
      refine ⟨{ m with its := setSlot m.its j it }, .nothing, by simp [mstep, h1], ?_, ?_⟩
      · simp only [sstep, hz, if_false]
        refine ⟨h.inv, h.list, fun i => ?_⟩
        simp only [setSlot]
        by_cases hij : i = j
        · simp only [hij, if_true]
          exact ⟨it, IterEq.refl it (fun _ => hdone), by simp [h.list, h3], h2⟩
        · simp only [hij, if_false]
          exact h.its i
      · simp only [sstep, hz, if_false, ObsRel]
  | next j =>
    have hsj := h.its j
    cases hj : m.its j with
    | none =>
      rw [hj] at hsj
      have hs' : s.its j = none := hsj
      refine ⟨m, .nothing, by simp [mstep, hj], ?_, ?_⟩
      · simp only [sstep, hs']; exact h
      · simp only [sstep, hs', ObsRel]
    | some it =>
      rw [hj] at hsj
      obtain ⟨w, hw, hs', hcw⟩ := hsj
      obtain ⟨r1, r2, r3⟩ := iterNextW_refines hs h.inv w hcw
      obtain ⟨e1, e2⟩ := iterNext_eq_while cmp m.t hw
      have hnp : iterNextPanics m.t it = false := by simp [iterNextPanics, lost_guards_nil]
      refine ⟨{ m with its := setSlot m.its j (iterNext cmp m.t it).1 }, .yielded (iterNext cmp m.t it).2,
        by simp [mstep, hj, hnp], ?_, ?_⟩
      · simp only [sstep, hs', h.list]
        refine ⟨h.inv, rfl, fun i => ?_⟩
        simp only [setSlot]
        by_cases hij : i = j
        · simp only [hij, if_true]
          exact ⟨(iterNextW cmp m.t w).1, e2, by rw [r1], r3⟩
        · simp only [hij, if_false]
          exact h.its i
      · simp only [sstep, hs', h.list, ObsRel]; rw [← e1]; exact r2

def mrun (cmp : K → K → Int) : MSt K V → List (Step K V) → Option (MSt K V × List (Obs (K × Option V)))
  | s, [] => some (s, [])
  | s, st :: sts =>
    match mstep cmp s st with
    | none => none
    | some (s', o) =>
      match mrun cmp s' sts with
      | none => none
      | some (s'', os) => some (s'', o :: os)

def srun (cmp : K → K → Int) : SSt K V → List (Step K V) → SSt K V × List (Obs (K × V))
  | s, [] => (s, [])
  | s, st :: sts =>
    let r := sstep cmp s st
    let rs := srun cmp r.1 sts
    (rs.1, r.2 :: rs.2)

/-- step-by-step agreement of what the caller sees -/
def ObsAll (cmp : K → K → Int) : List (Obs (K × Option V)) → List (Obs (K × V)) → Prop
  | [], [] => True
  | a :: as, b :: bs => ObsRel cmp a b ∧ ObsAll cmp as bs
  | _, _ => False

theorem sim_run (hs : StrictWeak cmp) (sts : List (Step K V)) :
    ∀ (m : MSt K V) (s : SSt K V), Sim cmp m s →
      ∃ m' os, mrun cmp m sts = some (m', os) ∧ Sim cmp m' (srun cmp s sts).1 ∧
        ObsAll cmp os (srun cmp s sts).2 := by
  induction sts with
  | nil => intro m s h; exact ⟨m, [], rfl, h, trivial⟩
  | cons st sts ih =>
    intro m s h
    obtain ⟨m1, o, h1, h2, h3⟩ := sim_step hs h st
    obtain ⟨m', os, h4, h5, h6⟩ := ih m1 _ h2
    exact ⟨m', o :: os, by simp [mrun, h1, h4], h5, ⟨h3, h6⟩⟩

end Juniper.Proofs.Tree
