import Juniper.Proofs.TreeAccessConfig
/-!
# Access-level model (C01, concurrent clause): every run is finite

`rank R pc`: an upper bound on the number of accesses a goroutine in the `Good` state `pc` still
performs (the weight of the subtree it is in, minus its progress in the node). `rank_next`: every step
decreases it. `sched_bound`: a schedule that can be executed from the initial configuration has at
most `ops.length * (wt t.root + 4)` steps — so every maximal run ends in a configuration where nobody
can move (`Terminal`), to which `terminal_results` / `final_rep` apply.
-/
namespace Juniper.Proofs.TreeAccess
open Juniper.Gen.Tree Juniper.Model.BTree Juniper.Model.BTreeAccess Juniper.Proofs.Tree

variable {K V : Type} {cmp : K → K → Int}

/-- weight of a subtree: enough for every access of one descent through it -/
def wt : Node K V → Nat
  | .mk _ kvs kids => 2 * kvs.length + 6 + (kids.map wt).sum

theorem wt_mk (id : Nat) (kvs : List (K × V)) (kids : List (Node K V)) :
    wt (.mk id kvs kids) = 2 * kvs.length + 6 + (kids.map wt).sum := wt.eq_1 id kvs kids

theorem wt_kid {id : Nat} {kvs : List (K × V)} {kids : List (Node K V)} {c : Node K V} (hc : c ∈ kids) :
    wt c + 2 * kvs.length + 6 ≤ wt (.mk id kvs kids) := by
  rw [wt_mk]
  have : wt c ≤ (kids.map wt).sum := by
    induction kids with
    | nil => cases hc
    | cons d ds ih =>
      simp only [List.map_cons, List.sum_cons]
      rcases List.mem_cons.mp hc with rfl | h
      · omega
      · have := ih h; omega
  omega

theorem wt_ge (y : Node K V) : 2 * y.kvs.length + 6 ≤ wt y := by
  obtain ⟨id, kvs, kids⟩ := y; rw [wt_mk]; simp only [Node.kvs]; omega

def wtAt (R : Node K V) (x : Nat) : Nat :=
  match findNode x R with
  | some y => wt y
  | none => 0

def lenAt (R : Node K V) (x : Nat) : Nat :=
  match findNode x R with
  | some y => y.kvs.length
  | none => 0

def rank (R : Node K V) : PC K V → Nat
  | .run _ cont _ _ => if cont then wt R + 1 else 1
  | .test x i => wtAt R x - 2 * i
  | .key x i => wtAt R x - 2 * i - 1
  | .retn x => wtAt R x - 2 * lenAt R x - 1
  | .leaf x _ => wtAt R x - 2 * lenAt R x - 2
  | .child x _ => wtAt R x - 2 * lenAt R x - 3
  | _ => 0

theorem rank_notFoundAt {R : Node K V} (op : Op K V) (x idx : Nat) :
    rank R (notFoundAt op x idx) ≤ wtAt R x - 2 * lenAt R x - 2 := by
  unfold notFoundAt
  split <;> simp only [rank] <;> omega

theorem rank_foundAt {R : Node K V} (op : Op K V) (hsr : op.isSearch = true) (x idx : Nat) :
    rank R (foundAt op x idx) ≤ 1 := by
  cases op with
  | scan fwd sk skey stop limit => simp [Op.isSearch] at hsr
  | get k => rw [foundAt_get]; simp [rank]
  | put k v => rw [foundAt_put]; simp [rank]
  | contains k => rw [foundAt_contains]; simp [rank]

/-- every step of a `Put` / `Get` / `Contains` goroutine in a `Good` state decreases its rank -/
theorem rank_next {t : Tree K V} (hn : (ids t.root).Nodup) {op : Op K V} (hsr : op.isSearch = true) {m : Mem K V}
    (hf : Frozen m t) {pc : PC K V} (hg : Good cmp t op pc) (hnd : pc.isDone = false) :
    rank t.root (next cmp op m pc).2 < rank t.root pc := by
  have hat : ∀ y, Sub t.root y → wtAt t.root y.id = wt y ∧ lenAt t.root y.id = y.kvs.length := by
    intro y hy; simp [wtAt, lenAt, findNode_of_sub hn hy]
  cases pc with
  | done r => simp [PC.isDone] at hnd
  | full x => exact hg.elim
  | itest x j => exact hg.elim
  | ikey x j => exact hg.elim
  | run ops cont rg r =>
    rcases hg with ⟨hsr, rfl, rfl⟩ | ⟨x, rfl, hcurr, hslot, ⟨k, rfl, rfl⟩ | ⟨k, v, rfl, rfl, rfl⟩⟩
    · simp only [next, mopExec, List.append_nil, mk, hf.root, enter, rank, if_true, (hat _ (.refl _)).1]
      omega
    · simp [next, mopExec, hcurr, mk, rank]
    · simp [next, mopExec, hcurr, mk, rank]
  | test x i =>
    obtain ⟨hsr, y, hp, rfl, hi⟩ := hg
    have hN := (hf.struct y hp.sub).1
    obtain ⟨hw, hl⟩ := hat y hp.sub
    have hge := wt_ge y
    have hle := searchNode_le cmp op.key y.kvs
    simp only [next, hN]
    by_cases hlt : i < y.kvs.length
    · have : (i : Int) < (y.kvs.length : Int) := by omega
      simp only [this, if_true, rank, hw]
      omega
    · have : ¬ (i : Int) < (y.kvs.length : Int) := by omega
      simp only [this, if_false, rank, hw, hl]
      omega
  | key x i =>
    obtain ⟨hsr, y, hp, rfl, hi, hlt⟩ := hg
    have hK := (hf.struct y hp.sub).2.1 i hlt
    obtain ⟨hw, hl⟩ := hat y hp.sub
    have hge := wt_ge y
    simp only [next, hK]
    split
    · have := rank_notFoundAt (R := t.root) op y.id i
      simp only [rank, hw, hl] at this ⊢
      omega
    · split
      · have := rank_foundAt (R := t.root) op hsr y.id i
        simp only [rank, hw] at this ⊢
        omega
      · simp only [rank, hw]
        omega
  | retn x =>
    obtain ⟨hsr, y, hp, rfl, hs⟩ := hg
    have hN := (hf.struct y hp.sub).1
    obtain ⟨hw, hl⟩ := hat y hp.sub
    have hge := wt_ge y
    have := rank_notFoundAt (R := t.root) op y.id (y.kvs.length)
    simp only [next, hN, Int.toNat_natCast, rank, hw, hl] at this ⊢
    omega
  | leaf x idx =>
    obtain ⟨_, y, hp, rfl, hs⟩ := hg
    obtain ⟨hw, hl⟩ := hat y hp.sub
    have hge := wt_ge y
    simp only [next]
    split
    · simp only [rank, hw, hl]; omega
    · split <;> simp only [rank, hw, hl] <;> omega
  | child x idx =>
    obtain ⟨hsr, y, hp, rfl, hs⟩ := hg
    obtain ⟨hw, hl⟩ := hat y hp.sub
    have hge := wt_ge y
    have hle : idx ≤ y.kvs.length := by
      have := searchNode_le cmp op.key y.kvs
      rw [hs] at this; exact this
    have hC := (hf.struct _ hp.sub).2.2 idx hle
    cases hk : y.kids[idx]? with
    | none =>
      rw [hk] at hC
      simp only [Option.map_none] at hC
      simp only [next, hC, rank, hw, hl]
      omega
    | some c =>
      rw [hk] at hC
      simp only [Option.map_some] at hC
      have hcm := List.mem_of_getElem? hk
      obtain ⟨hwc, _⟩ := hat c (hp.sub.snoc hcm)
      have : wt c + 2 * y.kvs.length + 6 ≤ wt y := by
        obtain ⟨id, kvs, kids⟩ := y; exact wt_kid hcm
      simp only [next, hC, rank, hw, hl, hwc]
      omega
  | it ph st => obtain ⟨h, _⟩ := hg; rw [hsr] at h; cases h

/-! ## the whole configuration -/

def total (R : Node K V) (c : Config K V) : Nat := (c.pcs.map (rank R)).sum

theorem sum_set_lt {α : Type} (f : α → Nat) : ∀ (l : List α) (j : Nat) (a b : α), l[j]? = some a → f b < f a →
    ((l.set j b).map f).sum < (l.map f).sum := by
  intro l
  induction l with
  | nil => intro j a b h; cases h
  | cons x xs ih =>
    intro j a b h hlt
    cases j with
    | zero =>
      simp only [List.getElem?_cons_zero, Option.some.injEq] at h
      subst h
      simp only [List.set_cons_zero, List.map_cons, List.sum_cons]
      omega
    | succ j =>
      simp only [List.getElem?_cons_succ] at h
      have := ih j a b h hlt
      simp only [List.set_cons_succ, List.map_cons, List.sum_cons]
      omega

theorem sum_set_eq {α : Type} (f : α → Nat) : ∀ (l : List α) (j : Nat) (a b : α), l[j]? = some a → f b = f a →
    ((l.set j b).map f).sum = (l.map f).sum := by
  intro l
  induction l with
  | nil => intro j a b h; cases h
  | cons x xs ih =>
    intro j a b h heq
    cases j with
    | zero =>
      simp only [List.getElem?_cons_zero, Option.some.injEq] at h
      subst h
      simp only [List.set_cons_zero, List.map_cons, List.sum_cons, heq]
    | succ j =>
      simp only [List.getElem?_cons_succ] at h
      have := ih j a b h heq
      simp only [List.set_cons_succ, List.map_cons, List.sum_cons, this]

/-- a range reader is at one of its own program points, of rank 0 -/
theorem rank_scan {t : Tree K V} {op : Op K V} (hns : op.isSearch = false) {pc : PC K V} (hg : Good cmp t op pc) :
    rank t.root pc = 0 := by
  cases pc with
  | run ops cont rg r =>
    rcases hg with ⟨hsr, _, _⟩ | ⟨x, _, _, _, ⟨k, rfl, _⟩ | ⟨k, v, rfl, _, _⟩⟩
    · rw [hns] at hsr; cases hsr
    · cases hns
    · cases hns
  | test x i => obtain ⟨hsr, _⟩ := hg; rw [hns] at hsr; cases hsr
  | key x i => obtain ⟨hsr, _⟩ := hg; rw [hns] at hsr; cases hsr
  | retn x => obtain ⟨hsr, _⟩ := hg; rw [hns] at hsr; cases hsr
  | leaf x idx => obtain ⟨hp, _⟩ := hg; rw [Op.isPut_of_not_search hns] at hp; cases hp
  | child x idx => obtain ⟨hsr, _⟩ := hg; rw [hns] at hsr; cases hsr
  | full x => exact hg.elim
  | itest x j => exact hg.elim
  | ikey x j => exact hg.elim
  | it ph st => rfl
  | done r => rfl

/-- whether goroutine `i` executes a `Put` / `Get` / `Contains` (a range reader otherwise) -/
def isSearchAt (ops : List (Op K V)) (i : Nat) : Bool :=
  match ops[i]? with
  | some op => op.isSearch
  | none => false

/-- a step of a `Put` / `Get` / `Contains` goroutine decreases the total rank; a step of a range reader leaves it -/
theorem total_step {t : Tree K V} {ops : List (Op K V)} (hs : Setup cmp t ops) {c c' : Config K V} {j0 : Nat}
    (hi : CInv cmp t ops c) (hstep : stepAt cmp ops c j0 = some c') :
    total t.root c' + (if isSearchAt ops j0 then 1 else 0) ≤ total t.root c := by
  have hi' := cinv_step hs hi hstep
  unfold stepAt at hstep
  cases hop : ops[j0]? with
  | none => simp [hop] at hstep
  | some op =>
  cases hpc : c.pcs[j0]? with
  | none => simp [hop, hpc] at hstep
  | some pc =>
  simp only [hop, hpc] at hstep
  by_cases hdone : pc.isDone = true
  · simp [hdone] at hstep
  have hnd : pc.isDone = false := by simpa using hdone
  simp only [hnd, Bool.false_eq_true, if_false, Option.some.injEq] at hstep
  subst hstep
  have hj0 : j0 < c.pcs.length := (List.getElem?_eq_some_iff.mp hpc).1
  cases hsr : op.isSearch with
  | true =>
    have := sum_set_lt (rank t.root) c.pcs j0 pc _ hpc
      (rank_next hs.nodup hsr hi.frozen (hi.good j0 op pc hop hpc) hnd)
    simp only [isSearchAt, hop, hsr, if_true]
    unfold total
    simp only at this ⊢
    omega
  | false =>
    have h0 := rank_scan hsr (hi.good j0 op pc hop hpc)
    have h1 := rank_scan hsr (hi'.good j0 op _ hop (List.getElem?_set_self hj0))
    have := sum_set_eq (rank t.root) c.pcs j0 pc (next cmp op c.mem pc).2 hpc (by rw [h0]; exact h1)
    simp only [isSearchAt, hop, hsr, Bool.false_eq_true, if_false]
    unfold total
    simp only at this ⊢
    omega

/-- the number of steps of a schedule that are steps of `Put` / `Get` / `Contains` goroutines -/
def searchSteps (ops : List (Op K V)) (sched : List Nat) : Nat := (sched.filter (isSearchAt ops)).length

/-- in a schedule that can be executed from a configuration satisfying the invariant, the `Put` / `Get` / `Contains`
goroutines together take no more steps than that configuration's total rank -/
theorem sched_bound {t : Tree K V} {ops : List (Op K V)} (hs : Setup cmp t ops) :
    ∀ (sched : List Nat) (c0 c : Config K V), CInv cmp t ops c0 → runSched cmp ops c0 sched = some c →
      searchSteps ops sched + total t.root c ≤ total t.root c0 ∧ CInv cmp t ops c := by
  intro sched
  induction sched with
  | nil => intro c0 c hi h; simp only [runSched, Option.some.injEq] at h; subst h; exact ⟨by simp [searchSteps], hi⟩
  | cons i is ih =>
    intro c0 c hi h
    simp only [runSched] at h
    cases hst : stepAt cmp ops c0 i with
    | none => rw [hst] at h; cases h
    | some c1 =>
      rw [hst] at h
      have hlt := total_step hs hi hst
      obtain ⟨hb, hc⟩ := ih c1 c (cinv_step hs hi hst) h
      refine ⟨?_, hc⟩
      simp only [searchSteps, List.filter_cons] at hb ⊢
      split <;> simp_all <;> omega

theorem total_initial (t : Tree K V) (ops : List (Op K V)) (m : Mem K V) :
    total t.root (initial m ops) ≤ ops.length * (wt t.root + 4) := by
  unfold total initial
  simp only [List.map_map]
  induction ops with
  | nil => simp
  | cons op ops ih =>
    simp only [List.map_cons, List.sum_cons, List.length_cons, Function.comp]
    have : rank t.root (start op) ≤ wt t.root + 4 := by
      cases op with
      | scan fwd sk skey stop limit => rw [start_scan]; simp [rank]
      | get k => rw [start_search _ rfl]; simp [rank]
      | contains k => rw [start_search _ rfl]; simp [rank]
      | put k v => rw [start_search _ rfl]; simp [rank]
    rw [Nat.succ_mul]
    omega

/-! ## `Reach` and schedules -/

theorem reach_head {ops : List (Op K V)} {c0 c1 c : Config K V} {i : Nat} (hst : stepAt cmp ops c0 i = some c1)
    (h : Reach cmp ops c1 c) : Reach cmp ops c0 c := by
  induction h with
  | refl => exact .step .refl hst
  | step _ hs ih => exact .step ih hs

theorem reach_of_sched {ops : List (Op K V)} : ∀ (sched : List Nat) (c0 c : Config K V),
    runSched cmp ops c0 sched = some c → Reach cmp ops c0 c := by
  intro sched
  induction sched with
  | nil => intro c0 c h; simp only [runSched, Option.some.injEq] at h; subst h; exact .refl
  | cons i is ih =>
    intro c0 c h
    simp only [runSched] at h
    cases hst : stepAt cmp ops c0 i with
    | none => rw [hst] at h; cases h
    | some c1 => rw [hst] at h; exact reach_head hst (ih c1 c h)

theorem runSched_snoc {ops : List (Op K V)} : ∀ (sched : List Nat) (c0 c c' : Config K V) (i : Nat),
    runSched cmp ops c0 sched = some c → stepAt cmp ops c i = some c' →
      runSched cmp ops c0 (sched ++ [i]) = some c' := by
  intro sched
  induction sched with
  | nil =>
    intro c0 c c' i h hst
    simp only [runSched, Option.some.injEq] at h; subst h
    simp [runSched, hst]
  | cons j js ih =>
    intro c0 c c' i h hst
    simp only [runSched, List.cons_append] at h ⊢
    cases hj : stepAt cmp ops c0 j with
    | none => rw [hj] at h; cases h
    | some c1 => rw [hj] at h; exact ih c1 c c' i h hst

theorem sched_of_reach {ops : List (Op K V)} {c0 c : Config K V} (h : Reach cmp ops c0 c) :
    ∃ sched, runSched cmp ops c0 sched = some c := by
  induction h with
  | refl => exact ⟨[], rfl⟩
  | step _ hst ih => obtain ⟨s, hs⟩ := ih; exact ⟨s ++ [_], runSched_snoc s _ _ _ _ hs hst⟩

end Juniper.Proofs.TreeAccess
