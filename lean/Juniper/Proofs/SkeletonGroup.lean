import Juniper.Generated.SkeletonPar
import Juniper.Proofs.SkeletonPar
/-!
# Control-skeleton ties for `xsync.Group`

`Juniper.Model.Group` interprets the statement lists of `Stop` / `StopAndWait` and decodes the arm
bodies and `select` tables of the worker loops from `Juniper.Gen.Group`, but the shape of `spawn`
(lock, check, bail out, `wg.Add`, unlock, `go { f(); wg.Done() }`), of the registration functions
(one `g.spawn(func …)`, the trigger function returned) and of the loops (context check, `select`,
re-arm, `f(g.ctx)`) is hard-wired in `threadStep`. The lemmas below pin those shapes to the source
(`Juniper.Gen.SkeletonPar.pskelGroup…`: statement kinds, identifiers and expressions normalised away).
`threadStep_facts` (spawn), `progs` (Stop, StopAndWait) and the closed forms `loopOf_doOnce`,
`loopOf_trigger`, `loopOf_periodic`, `loopOf_pot` are stated `under` them, so every C17 property
theorem depends on them: rewriting `PeriodicOrTrigger` as `g.Periodic(…); return g.Trigger(f)`,
hoisting the context check of `spawn` out of the lock as an early return, or adding a fast path to
`StopAndWait` breaks the lemma of that function.
-/
namespace Juniper.Proofs.SkeletonGroup
open Juniper.Gen.SkeletonPar
export Juniper.Proofs.SkeletonPar (under)

/-- `spawn`: `RLock`; `if stopped { RUnlock; return }`; `wg.Add(1)`; `RUnlock`; `go func() { f(); wg.Done() }()`
and no other statement (in particular no check or return before the lock is taken). -/
theorem pskelGroupSpawn_tie : pskelGroupSpawn =
    ["mcall", "if{mcall;return}", "mcall", "mcall", "go{call;mcall}"] := by
  decide

/-- `Do`: exactly `g.spawn(func() { f(g.ctx) })`. -/
theorem pskelGroupDo_tie : pskelGroupDo =
    ["mcall{call}"] := by decide

/-- `Stop`: three calls (`Lock`, `cancel`, `Unlock`; which is which is `stopStmts`). -/
theorem pskelGroupStop_tie : pskelGroupStop =
    ["mcall", "mcall", "mcall"] := by decide

/-- `StopAndWait`: two calls (`g.Stop()`, `g.wg.Wait()`) and nothing else. -/
theorem pskelGroupStopAndWait_tie : pskelGroupStopAndWait =
    ["mcall", "mcall"] := by decide

/-- `Trigger`: make the channel; `g.spawn(func() { for { if stopped { return }; select { Done: return; c: };
f(g.ctx) } })`; return the trigger function `func() { select { c <- …: ; default: } }`. -/
theorem pskelGroupTrigger_tie : pskelGroupTrigger =
    ["define", "mcall{forever{if{return};select{recv{return};recv{}};call}}",
     "return{select{default{};send{}}}"] := by
  decide

/-- `Periodic`: `g.spawn(func() { t := NewTimer; defer t.Stop(); for { if stopped { return };
select { Done: return; t.C: }; t.Reset(…); f(g.ctx) } })`. -/
theorem pskelGroupPeriodic_tie : pskelGroupPeriodic =
    ["mcall{define;defer;forever{if{return};select{recv{return};recv{}};mcall;call}}"] := by decide

/-- `PeriodicOrTrigger`: make the channel; one `g.spawn(func() { t := NewTimer; defer t.Stop(); for {
if stopped { return }; select { Done: return; t.C: Reset; c: if !Stop { <-t.C }; Reset }; f(g.ctx) } })`;
return the trigger function. One goroutine runs `f` for both causes. -/
theorem pskelGroupPeriodicOrTrigger_tie : pskelGroupPeriodicOrTrigger =
    ["define",
     "mcall{define;defer;forever{if{return};select{recv{if{recv};mcall};recv{mcall};recv{return}};call}}",
     "return{select{default{};send{}}}"] := by decide

end Juniper.Proofs.SkeletonGroup
