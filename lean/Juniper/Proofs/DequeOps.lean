import Juniper.Proofs.DequeRep
/-!
# Every deque operation against the representation relation (helpers for C04, C15)

For each operation of the model: under `Rep d l` it returns what the ideal sequence returns, the
new state represents the new sequence, and the modification counter moves as the generated
presence facts say. Single-slot updates go through `Rep.set_cell`.
-/
namespace Juniper.Proofs.Deque
open Juniper.Gen.Deque Juniper.Model.Deque
variable {α : Type}

/-! ## single-cell updates -/

/-- Introduction rule for allocated, non-empty-capacity states. -/
theorem rep_intro {a : List (Option α)} {n : Bool} {f b g : Int} {l : List α} (hn : n = false)
    (hf0 : 0 ≤ f) (hf1 : f < (a.length : Int)) (hl : (l.length : Int) ≤ (a.length : Int))
    (hfe : l = [] → f = 0) (hbe : l = [] → b = -1)
    (hbn : l ≠ [] → b = ridx f (a.length : Int) ((l.length : Int) - 1))
    (hcells : ∀ k : Nat, (k : Int) < (a.length : Int) →
      slot a (ridx f (a.length : Int) k) = some l[k]?) :
    Rep { a := a, isNil := n, front := f, back := b, gen := g } l := by
  subst hn
  exact ⟨by simp, hf0, Or.inl hf1, hl, hfe, fun h _ => hbe h, hbn, hcells⟩

theorem Rep.notNil_of_cap {d : Deque α} {l : List α} (h : Rep d l) (hc : 0 < cap d) :
    d.isNil = false := by
  cases hn : d.isNil with
  | false => rfl
  | true => have := (h.nil_a hn).1; simp only [cap, this, List.length_nil] at hc; omega

theorem Rep.front_lt_cap {d : Deque α} {l : List α} (h : Rep d l) (hc : 0 < cap d) :
    d.front < cap d := by
  have := h.front_lt; omega

/-- Writing `v` into the raw slot of ring position `j`. -/
theorem Rep.set_cell {d : Deque α} {l : List α} (h : Rep d l) (j : Nat) (hj : (j : Int) < cap d)
    (v : Option α) :
    ∃ a', setSlot d.a (ridx d.front (cap d) j) v = some a' ∧ a'.length = d.a.length ∧
      ∀ k : Nat, (k : Int) < cap d →
        slot a' (ridx d.front (cap d) k) = if k = j then some v else some l[k]? := by
  have hf0 := h.front_nonneg
  have hf1 := h.front_lt_cap (by omega)
  have hrj := ridx_cases d.front (cap d) j
  have hp0 : 0 ≤ ridx d.front (cap d) j := by omega
  have hp1 : ridx d.front (cap d) j < (d.a.length : Int) := by unfold cap at *; omega
  refine ⟨_, setSlot_eq _ v hp0 hp1, by simp, ?_⟩
  intro k hk
  have hrk := ridx_cases d.front (cap d) k
  rw [slot_set _ v hp0 hp1 (by omega)]
  by_cases hkj : k = j
  · subst hkj; simp
  · have : ridx d.front (cap d) k ≠ ridx d.front (cap d) j := by omega
    simp only [this, hkj, if_false]
    exact h.cells k hk

/-- Every raw slot is some ring position. -/
theorem ridx_surj {f c : Int} (hf0 : 0 ≤ f) (hf1 : f < c) (j : Nat) (hj : (j : Int) < c) :
    ∃ k : Nat, (k : Int) < c ∧ ridx f c k = j := by
  by_cases h : f ≤ j
  · refine ⟨(j - f).toNat, by omega, ?_⟩
    have := ridx_cases f c ((j - f).toNat : Nat); omega
  · refine ⟨(j - f + c).toNat, by omega, ?_⟩
    have := ridx_cases f c ((j - f + c).toNat : Nat); omega

/-! ## pushes -/

theorem getElem?_concat (l : List α) (x : α) (k : Nat) :
    (l ++ [x])[k]? = if k = l.length then some x else l[k]? := by
  rw [List.getElem?_append]
  by_cases h1 : k < l.length
  · have : k ≠ l.length := by omega
    simp [h1, this]
  · by_cases h2 : k = l.length
    · subst h2; simp
    · have : k - l.length ≠ 0 := by omega
      simp [h1, h2, this]

theorem Rep.pushBackAt {d : Deque α} {l : List α} (h : Rep d l) (hroom : (l.length : Int) < cap d)
    (x : α) :
    ∃ d', pushBackAt d x = .ok d' () ∧ Rep d' (l ++ [x]) ∧
      d'.gen = bump pushBackBumpsGen d.gen := by
  have hc : 0 < cap d := by omega
  have hn := h.notNil_of_cap hc
  have hf0 := h.front_nonneg
  have hf1 := h.front_lt_cap hc
  obtain ⟨a', hset, hlen, hcells⟩ := h.set_cell l.length hroom (some x)
  have hrn := ridx_cases d.front (cap d) (l.length : Nat)
  -- the new `back` is ring position `l.length`
  have hback : (if pushBackWasEmpty d.isNil (cap d) d.front d.back
      then pushBackBackEmpty d.isNil (cap d) d.front d.back
      else pushBackBack d.isNil (cap d) d.front d.back) = ridx d.front (cap d) (l.length : Nat) := by
    unfold pushBackWasEmpty pushBackBackEmpty pushBackBack
    by_cases hl : l = []
    · subst hl
      simp only [h.back_empty rfl hn, decide_true, if_true]
      simp only [List.length_nil] at hrn ⊢; omega
    · have hb := h.back_nonempty hl
      have ⟨hb0, hb1⟩ := h.back_bounds hl
      have hp := Rep.length_pos hl
      have hne : ¬ d.back = -1 := by omega
      have hr1 := ridx_cases d.front (cap d) ((l.length : Int) - 1)
      have ht := tmod_wrap_cases (x := d.back + 1) (c := cap d) (by omega) (by omega)
      simp only [hne, decide_false, Bool.false_eq_true, if_false]
      omega
  unfold Juniper.Model.Deque.pushBackAt
  by_cases hw : pushBackWasEmpty d.isNil (cap d) d.front d.back = true
  all_goals
    simp only [hw, if_true, Bool.false_eq_true, if_false] at hback ⊢
    simp only [hback, hset]
    refine ⟨_, rfl, ?_, rfl⟩
    have hlen' : (a'.length : Int) = cap d := by unfold cap; omega
    apply rep_intro hn hf0 (by omega)
    · simp only [List.length_append, List.length_singleton]; omega
    · intro he; simp at he
    · intro he; simp at he
    · intro _; simp only [List.length_append, List.length_singleton, hlen']
      congr 1; omega
    · intro k hk
      rw [hlen'] at hk ⊢
      rw [hcells k hk, getElem?_concat]
      split <;> rfl

theorem Rep.pushFrontAt {d : Deque α} {l : List α} (h : Rep d l) (hroom : (l.length : Int) < cap d)
    (x : α) :
    ∃ d', pushFrontAt d x = .ok d' () ∧ Rep d' (x :: l) ∧
      d'.gen = bump pushFrontBumpsGen d.gen := by
  have hc : 0 < cap d := by omega
  have hn := h.notNil_of_cap hc
  have hf0 := h.front_nonneg
  have hf1 := h.front_lt_cap hc
  have hj : ((d.a.length - 1 : Nat) : Int) = cap d - 1 := by unfold cap at *; omega
  obtain ⟨a', hset, hlen, hcells⟩ := h.set_cell (d.a.length - 1) (by omega) (some x)
  have hrj := ridx_cases d.front (cap d) ((d.a.length - 1 : Nat) : Int)
  have hfront : pushFrontFront d.isNil (cap d) d.front d.back
      = ridx d.front (cap d) ((d.a.length - 1 : Nat) : Int) := by
    unfold pushFrontFront
    have := positiveMod_pred_cases hf0 hf1
    omega
  have hlen' : (a'.length : Int) = cap d := by unfold cap; omega
  unfold Juniper.Model.Deque.pushFrontAt pushFrontFixBack
  simp only [hfront, hset]
  generalize hF : ridx d.front (cap d) ((d.a.length - 1 : Nat) : Int) = F at *
  have hcellsNew : ∀ k : Nat, (k : Int) < cap d →
      slot a' (ridx F (cap d) k) = some (x :: l)[k]? := by
    intro k hk
    have hrk := ridx_cases F (cap d) k
    by_cases hk0 : k = 0
    · subst hk0
      have e : ridx F (cap d) ((0 : Nat) : Int) = F := by omega
      have := hcells (d.a.length - 1) (by omega)
      rw [hF] at this
      rw [e, this]; simp
    · have hr' := ridx_cases d.front (cap d) ((k - 1 : Nat) : Int)
      have e : ridx F (cap d) (k : Int) = ridx d.front (cap d) ((k - 1 : Nat) : Int) := by omega
      have hne : k - 1 ≠ d.a.length - 1 := by omega
      rw [e, hcells (k - 1) (by omega), List.getElem?_cons]
      simp [hk0, hne]
  have hrn := ridx_cases F (cap d) (l.length : Nat)
  by_cases hl : l = []
  · subst hl
    simp only [h.back_empty rfl hn, decide_true, if_true]
    refine ⟨_, rfl, ?_, rfl⟩
    apply rep_intro hn (by omega) (by omega)
    · simp only [List.length_singleton]; omega
    · intro he; simp at he
    · intro he; simp at he
    · intro _; simp only [List.length_singleton, hlen']
      have e : ((1 : Nat) : Int) - 1 = 0 := by omega
      have hr0 := ridx_cases F (cap d) 0
      rw [e]; omega
    · intro k hk; rw [hlen'] at hk ⊢; exact hcellsNew k hk
  · have hb := h.back_nonempty hl
    have ⟨hb0, hb1⟩ := h.back_bounds hl
    have hne : ¬ d.back = -1 := by omega
    have hr1 := ridx_cases d.front (cap d) ((l.length : Int) - 1)
    simp only [hne, decide_false, Bool.false_eq_true, if_false]
    refine ⟨_, rfl, ?_, rfl⟩
    apply rep_intro hn (by omega) (by omega)
    · simp only [List.length_cons]; omega
    · intro he; simp at he
    · intro he; simp at he
    · intro _; simp only [List.length_cons, hlen']
      have e : ((l.length + 1 : Nat) : Int) - 1 = (l.length : Nat) := by omega
      rw [e]; omega
    · intro k hk; rw [hlen'] at hk ⊢; exact hcellsNew k hk

/-- What a push does to the modification counter: `maybeExpand` may bump it, the push itself does. -/
def GenAfterPush (b : Bool) (g g' : Int) : Prop :=
  g' = bump b g ∨ g' = bump b (bump resizeBumpsGen g)

theorem GenAfterPush.le {b : Bool} {g g' : Int} (h : GenAfterPush b g g') : g ≤ g' := by
  have := le_bump b g; have := le_bump resizeBumpsGen g; have := le_bump b (bump resizeBumpsGen g)
  rcases h with h | h <;> omega

theorem GenAfterPush.lt {b : Bool} {g g' : Int} (h : GenAfterPush b g g') (hb : b = true) :
    g < g' := by
  have := lt_bump hb g; have := le_bump resizeBumpsGen g
  have := lt_bump hb (bump resizeBumpsGen g)
  rcases h with h | h <;> omega

theorem Rep.pushBack {d : Deque α} {l : List α} (h : Rep d l) (x : α) :
    ∃ d', pushBack d x = .ok d' () ∧ Rep d' (l ++ [x]) ∧
      GenAfterPush pushBackBumpsGen d.gen d'.gen := by
  obtain ⟨d1, he, hr1, hroom, hg1⟩ := h.maybeExpand
  obtain ⟨d2, hp, hr2, hg2⟩ := hr1.pushBackAt hroom x
  refine ⟨d2, ?_, hr2, ?_⟩
  · unfold Juniper.Model.Deque.pushBack; rw [he]; exact hp
  · rcases hg1 with rfl | hg1
    · exact Or.inl hg2
    · exact Or.inr (by rw [hg2, hg1])

theorem Rep.pushFront {d : Deque α} {l : List α} (h : Rep d l) (x : α) :
    ∃ d', pushFront d x = .ok d' () ∧ Rep d' (x :: l) ∧
      GenAfterPush pushFrontBumpsGen d.gen d'.gen := by
  obtain ⟨d1, he, hr1, hroom, hg1⟩ := h.maybeExpand
  obtain ⟨d2, hp, hr2, hg2⟩ := hr1.pushFrontAt hroom x
  refine ⟨d2, ?_, hr2, ?_⟩
  · unfold Juniper.Model.Deque.pushFront; rw [he]; exact hp
  · rcases hg1 with rfl | hg1
    · exact Or.inl hg2
    · exact Or.inr (by rw [hg2, hg1])

/-! ## pops -/

/-- The state after the pop that empties the deque (`l == 1` branch of `PopFront`/`PopBack`). -/
theorem Rep.pop_last {d : Deque α} {x : α} (h : Rep d [x]) (g : Int) :
    ∃ a', setSlot d.a d.front none = some a' ∧ slot a' d.front = some none ∧
      Rep { a := a', isNil := d.isNil, front := 0, back := -1, gen := g } [] := by
  have hle := h.len_le
  simp only [List.length_singleton] at hle
  have hc : 0 < cap d := by omega
  have hn := h.notNil_of_cap hc
  have hf0 := h.front_nonneg
  have hf1 := h.front_lt_cap hc
  obtain ⟨a', hset, hlen, hcells⟩ := h.set_cell 0 (by omega) none
  have hr0 := ridx_cases d.front (cap d) ((0 : Nat) : Int)
  have e0 : ridx d.front (cap d) ((0 : Nat) : Int) = d.front := by omega
  rw [e0] at hset
  have hlen' : (a'.length : Int) = cap d := by unfold cap; omega
  have hcl : slot a' d.front = some none := by
    have := hcells 0 (by omega); rw [e0] at this; simpa using this
  refine ⟨a', hset, hcl, ?_⟩
  apply rep_intro hn (by omega) (by omega)
  · simp only [List.length_nil]; omega
  · intro _; rfl
  · intro _; rfl
  · intro he; exact absurd rfl he
  · intro k hk
    rw [hlen'] at hk ⊢
    obtain ⟨k', hk', hkk⟩ := ridx_surj hf0 hf1 k hk
    have hrk := ridx_cases 0 (cap d) k
    have e : ridx 0 (cap d) (k : Int) = ridx d.front (cap d) (k' : Int) := by omega
    rw [e, hcells k' hk']
    by_cases h0 : k' = 0
    · simp [h0]
    · have : ([x] : List α)[k']? = none := by
        apply List.getElem?_eq_none; simp only [List.length_singleton]; omega
      simp [h0]

theorem Rep.popFront {d : Deque α} {l : List α} (h : Rep d l) (hl : l ≠ [])
    (hc1 : popFrontClearsLast = true)
    (hc2 : afterLast popFrontClears popFrontClearsLast = true) :
    ∃ d', popFront d = .ok d' l.head? ∧ Rep d' l.tail ∧ slot d'.a d.front = some none ∧
      d'.gen = bump (if l.tail = [] then popFrontLastBumpsGen
                     else afterLast popFrontGenBumps popFrontLastBumpsGen) d.gen := by
  obtain ⟨x, t, rfl⟩ := List.exists_cons_of_ne_nil hl
  have hle := h.len_le
  simp only [List.length_cons] at hle
  have hc : 0 < cap d := by omega
  have hn := h.notNil_of_cap hc
  have hf0 := h.front_nonneg
  have hf1 := h.front_lt_cap hc
  have hr0 := ridx_cases d.front (cap d) ((0 : Nat) : Int)
  have e0 : ridx d.front (cap d) ((0 : Nat) : Int) = d.front := by omega
  have hitem : slot d.a d.front = some (some x) := by
    have := h.cells 0 (by omega); rw [e0] at this; simpa using this
  unfold Juniper.Model.Deque.popFront popFrontEmpty popFrontLast
  have hne : ¬ ((t.length : Int) + 1 = 0) := by omega
  simp only [hc2, if_true]
  simp only [h.len_eq, List.length_cons, Int.natCast_add, Int.natCast_one, hne, decide_false,
    Bool.false_eq_true, if_false, hitem, hc1, if_true, List.head?_cons, List.tail_cons]
  by_cases ht : t = []
  · subst ht
    obtain ⟨a', hset, hcl, hrep⟩ := h.pop_last (bump popFrontLastBumpsGen d.gen)
    simp only [List.length_nil, Int.natCast_zero, Int.zero_add, decide_true, if_true, hset,
      popFrontLastFront, popFrontLastBack]
    exact ⟨_, rfl, hrep, hcl, rfl⟩
  · have hp := Rep.length_pos ht
    have hne1 : ¬ ((t.length : Int) + 1 = 1) := by omega
    obtain ⟨a', hset, hlen, hcells⟩ := h.set_cell 0 (by omega) none
    rw [e0] at hset
    have hlen' : (a'.length : Int) = cap d := by unfold cap; omega
    have hr1 := ridx_cases d.front (cap d) ((1 : Nat) : Int)
    have hfront : popFrontFront d.isNil (cap d) d.front d.back
        = ridx d.front (cap d) ((1 : Nat) : Int) := by
      unfold popFrontFront
      have := tmod_wrap_cases (x := d.front + 1) (c := cap d) (by omega) (by omega)
      omega
    have hcl : slot a' d.front = some none := by
      have := hcells 0 (by omega); rw [e0] at this; simpa using this
    simp only [hne1, decide_false, Bool.false_eq_true, if_false, hset, hfront, ht]
    refine ⟨_, rfl, ?_, hcl, rfl⟩
    generalize hF : ridx d.front (cap d) ((1 : Nat) : Int) = F at *
    have hb := h.back_nonempty (by simp)
    simp only [List.length_cons] at hb
    have hrb := ridx_cases d.front (cap d) (((t.length + 1 : Nat) : Int) - 1)
    apply rep_intro hn (by omega) (by omega)
    · omega
    · intro he; exact absurd he ht
    · intro he; exact absurd he ht
    · intro _; rw [hlen']
      have hrb' := ridx_cases F (cap d) ((t.length : Int) - 1)
      omega
    · intro k hk
      rw [hlen'] at hk ⊢
      have hrk := ridx_cases F (cap d) k
      by_cases hlast : (k : Int) = cap d - 1
      · have e : ridx F (cap d) (k : Int) = ridx d.front (cap d) ((0 : Nat) : Int) := by omega
        have : t[k]? = none := by apply List.getElem?_eq_none; omega
        rw [e, hcells 0 (by omega), this]; simp
      · have hr' := ridx_cases d.front (cap d) ((k + 1 : Nat) : Int)
        have e : ridx F (cap d) (k : Int) = ridx d.front (cap d) ((k + 1 : Nat) : Int) := by omega
        rw [e, hcells (k + 1) (by omega)]
        simp

theorem Rep.popBack {d : Deque α} {l : List α} (h : Rep d l) (hl : l ≠ [])
    (hc1 : popBackClearsLast = true)
    (hc2 : afterLast popBackClears popBackClearsLast = true) :
    ∃ d', popBack d = .ok d' l.getLast? ∧ Rep d' l.dropLast ∧ slot d'.a d.back = some none ∧
      d'.gen = bump (if l.dropLast = [] then popBackLastBumpsGen
                     else afterLast popBackGenBumps popBackLastBumpsGen) d.gen := by
  have hp := Rep.length_pos hl
  have hle := h.len_le
  have hc : 0 < cap d := by omega
  have hn := h.notNil_of_cap hc
  have hf0 := h.front_nonneg
  have hf1 := h.front_lt_cap hc
  have hb := h.back_nonempty hl
  have ⟨hb0, hb1⟩ := h.back_bounds hl
  have hnat : ((l.length - 1 : Nat) : Int) = (l.length : Int) - 1 := by omega
  have hitem : slot d.a d.back = some l.getLast? := by
    have := h.cells (l.length - 1) (by omega)
    rw [hnat, ← hb] at this
    rw [this, List.getLast?_eq_getElem?]
  unfold Juniper.Model.Deque.popBack popBackEmpty popBackLast
  have hne : ¬ ((l.length : Int) = 0) := by omega
  simp only [hc2, if_true]
  simp only [h.len_eq, hne, decide_false, Bool.false_eq_true, if_false, hitem, hc1, if_true]
  by_cases h1 : l.length = 1
  · obtain ⟨x, rfl⟩ := List.length_eq_one_iff.mp h1
    obtain ⟨a', hset, hcl, hrep⟩ := h.pop_last (bump popBackLastBumpsGen d.gen)
    have hr0 := ridx_cases d.front (cap d) 0
    have hbf : d.back = d.front := by
      simp only [List.length_singleton] at hb
      have e : ((1 : Nat) : Int) - 1 = 0 := by omega
      rw [e] at hb; omega
    simp only [List.length_singleton, Int.natCast_one, decide_true, if_true, hbf, hset,
      popBackLastFront, popBackLastBack, List.dropLast_singleton]
    exact ⟨_, rfl, hrep, hcl, rfl⟩
  · have hne1 : ¬ ((l.length : Int) = 1) := by omega
    have hdl : l.dropLast ≠ [] := by
      intro he
      have := congrArg List.length he
      simp only [List.length_dropLast, List.length_nil] at this; omega
    obtain ⟨a', hset, hlen, hcells⟩ := h.set_cell (l.length - 1) (by omega) none
    rw [hnat, ← hb] at hset
    have hlen' : (a'.length : Int) = cap d := by unfold cap; omega
    have hr1 := ridx_cases d.front (cap d) ((l.length : Int) - 1)
    have hr2 := ridx_cases d.front (cap d) ((l.length : Int) - 1 - 1)
    have hback : popBackBack d.isNil (cap d) d.front d.back
        = ridx d.front (cap d) ((l.length : Int) - 1 - 1) := by
      unfold popBackBack
      have := positiveMod_pred_cases hb0 hb1
      omega
    have hcl : slot a' d.back = some none := by
      have := hcells (l.length - 1) (by omega); rw [hnat, ← hb] at this; simpa using this
    simp only [hne1, decide_false, Bool.false_eq_true, if_false, hset, hback, hdl]
    refine ⟨_, rfl, ?_, hcl, rfl⟩
    apply rep_intro hn hf0 (by omega)
    · simp only [List.length_dropLast]; omega
    · intro he; exact absurd he hdl
    · intro he; exact absurd he hdl
    · intro _; rw [hlen']; simp only [List.length_dropLast]
      have e : ((l.length - 1 : Nat) : Int) - 1 = (l.length : Int) - 1 - 1 := by omega
      rw [e]
    · intro k hk
      rw [hlen'] at hk ⊢
      rw [hcells k hk, List.getElem?_dropLast]
      by_cases hk1 : k = l.length - 1
      · have : ¬ k < l.length - 1 := by omega
        simp [hk1]
      · by_cases hk2 : k < l.length - 1
        · simp [hk1, hk2]
        · have : l[k]? = none := by apply List.getElem?_eq_none; omega
          simp [hk1, hk2, this]

/-! ## reads and `Set` -/

theorem Rep.isEmpty_panics {d : Deque α} (h : Rep d []) :
    Model.Deque.popFront d = .panic d ∧ Model.Deque.popBack d = .panic d ∧
      Model.Deque.frontOf d = .panic d ∧ Model.Deque.backOf d = .panic d := by
  have hlen := h.len_eq
  simp only [List.length_nil, Int.natCast_zero] at hlen
  refine ⟨?_, ?_, ?_, ?_⟩
  · unfold Juniper.Model.Deque.popFront popFrontEmpty; simp [hlen]
  · unfold Juniper.Model.Deque.popBack popBackEmpty; simp [hlen]
  · unfold Juniper.Model.Deque.frontOf frontPanics
    cases hn : d.isNil with
    | true =>
      obtain ⟨ha, hb⟩ := h.nil_a hn
      simp [hb, ha, h.front_empty rfl, slot]
    | false => simp [h.back_empty rfl hn]
  · unfold Juniper.Model.Deque.backOf
    cases hn : d.isNil with
    | true =>
      obtain ⟨ha, hb⟩ := h.nil_a hn
      simp [hb, ha, slot]
    | false => simp [h.back_empty rfl hn, slot]

theorem Rep.frontOf {d : Deque α} {l : List α} (h : Rep d l) (hl : l ≠ []) :
    frontOf d = .ok d l.head? := by
  have hp := Rep.length_pos hl
  have hle := h.len_le
  have hc : 0 < cap d := by omega
  have hf1 := h.front_lt_cap hc
  have ⟨hb0, hb1⟩ := h.back_bounds hl
  have hr0 := ridx_cases d.front (cap d) ((0 : Nat) : Int)
  have e0 : ridx d.front (cap d) ((0 : Nat) : Int) = d.front := by omega
  have hitem : slot d.a d.front = some l.head? := by
    have := h.cells 0 (by omega); rw [e0] at this; rw [this, List.head?_eq_getElem?]
  have hne : ¬ d.back = -1 := by omega
  unfold Juniper.Model.Deque.frontOf frontPanics
  simp [hne, hitem]

theorem Rep.backOf {d : Deque α} {l : List α} (h : Rep d l) (hl : l ≠ []) :
    backOf d = .ok d l.getLast? := by
  have hp := Rep.length_pos hl
  have hle := h.len_le
  have hb := h.back_nonempty hl
  have hnat : ((l.length - 1 : Nat) : Int) = (l.length : Int) - 1 := by omega
  have hitem : slot d.a d.back = some l.getLast? := by
    have := h.cells (l.length - 1) (by omega)
    rw [hnat, ← hb] at this
    rw [this, List.getLast?_eq_getElem?]
  unfold Juniper.Model.Deque.backOf
  simp [hitem]

/-- The raw index that `Item`/`Set` compute is ring position `i`. -/
theorem Rep.index_eq {d : Deque α} {l : List α} (h : Rep d l) {i : Int} (h0 : 0 ≤ i)
    (h1 : i < l.length) : Int.tmod (d.front + i) (cap d) = ridx d.front (cap d) (i.toNat : Nat) := by
  have hle := h.len_le
  have hf0 := h.front_nonneg
  have hf1 := h.front_lt_cap (by omega)
  have := tmod_wrap_cases (x := d.front + i) (c := cap d) (by omega) (by omega)
  have := ridx_cases d.front (cap d) (i.toNat : Nat)
  omega

theorem Rep.item {d : Deque α} {l : List α} (h : Rep d l) {i : Int} (h0 : 0 ≤ i)
    (h1 : i < l.length) : item d i = .ok d l[i.toNat]? := by
  have hle := h.len_le
  have hidx := h.index_eq h0 h1
  have hcell := h.cells i.toNat (by omega)
  unfold Juniper.Model.Deque.item itemPanics itemIdx
  have e1 : ¬ i < 0 := by omega
  have e2 : ¬ i ≥ (l.length : Int) := by omega
  have e3 : ¬ cap d = 0 := by omega
  simp only [h.len_eq, e1, e2, e3, decide_false, Bool.or_self, Bool.false_eq_true, if_false, hidx,
    hcell]

theorem item_out_of_range {d : Deque α} {l : List α} (h : Rep d l) {i : Int}
    (hi : i < 0 ∨ (l.length : Int) ≤ i) : item d i = .panic d := by
  unfold Juniper.Model.Deque.item itemPanics
  rw [h.len_eq]
  rcases hi with hi | hi
  · simp [hi]
  · have : i ≥ (l.length : Int) := hi
    simp [this]

theorem set_out_of_range {d : Deque α} {l : List α} (h : Rep d l) {i : Int} (x : α)
    (hi : i < 0 ∨ (l.length : Int) ≤ i) : set d i x = .panic d := by
  unfold Juniper.Model.Deque.set setPanics
  rw [h.len_eq]
  rcases hi with hi | hi
  · simp [hi]
  · have : i ≥ (l.length : Int) := hi
    simp [this]

theorem Rep.set {d : Deque α} {l : List α} (h : Rep d l) {i : Int} (h0 : 0 ≤ i)
    (h1 : i < l.length) (x : α) :
    ∃ d', set d i x = .ok d' () ∧ Rep d' (l.set i.toNat x) ∧ d'.gen = bump setBumpsGen d.gen := by
  have hle := h.len_le
  have hc : 0 < cap d := by omega
  have hn := h.notNil_of_cap hc
  have hf0 := h.front_nonneg
  have hf1 := h.front_lt_cap hc
  have hidx := h.index_eq h0 h1
  obtain ⟨a', hset, hlen, hcells⟩ := h.set_cell i.toNat (by omega) (some x)
  have hlen' : (a'.length : Int) = cap d := by unfold cap; omega
  have hl : l ≠ [] := by intro he; subst he; simp at h1; omega
  unfold Juniper.Model.Deque.set setPanics setIdx
  have e1 : ¬ i < 0 := by omega
  have e2 : ¬ i ≥ (l.length : Int) := by omega
  have e3 : ¬ cap d = 0 := by omega
  simp only [h.len_eq, e1, e2, e3, decide_false, Bool.or_self, Bool.false_eq_true, if_false, hidx,
    hset]
  refine ⟨_, rfl, ?_, rfl⟩
  have hls : l.set i.toNat x ≠ [] := by
    intro he; have := congrArg List.length he; simp only [List.length_set, List.length_nil] at this
    exact hl (List.eq_nil_of_length_eq_zero this)
  apply rep_intro hn hf0 (by omega)
  · simp only [List.length_set]; omega
  · intro he; exact absurd he hls
  · intro he; exact absurd he hls
  · intro _; rw [hlen']; simp only [List.length_set]; exact h.back_nonempty hl
  · intro k hk
    rw [hlen'] at hk ⊢
    rw [hcells k hk, List.getElem?_set]
    have hi : i.toNat < l.length := by omega
    by_cases hk1 : k = i.toNat
    · subst hk1; simp [hi]
    · have : ¬ i.toNat = k := fun e => hk1 e.symm
      simp [hk1, this]

end Juniper.Proofs.Deque
