import Juniper.Proofs.TreeCursor
/-!
# Cursor navigation backwards (C01 ranges, C02 iterators)

Mirror image of `TreeCursor.lean`: `cursor.Prev` (`prevCore`) moves a parked cursor to the in-order
predecessor. `climbPrev_spec` mirrors `climbNext_spec`, `rightmost_spec` mirrors `leftmost_spec` and
`prev_step` mirrors `next_step`.
-/
namespace Juniper.Proofs.Tree
open Juniper.Model.BTree Juniper.Gen.Tree

variable {K V : Type} {α : Type} {cmp : K → K → Int}

/-- two lists that end in one element are equal iff both parts are -/
theorem snoc_inj {A B : List α} {a b : α} (h : A ++ [a] = B ++ [b]) : A = B ∧ a = b := by
  obtain ⟨h1, h2⟩ := List.append_inj' h rfl
  exact ⟨h1, by simpa using h2⟩

theorem snoc_ne_nil {A : List α} {a : α} : A ++ [a] ≠ [] := by simp

theorem climbPrev_spec {root : Node K V} : ∀ (up : List (Node K V × Nat)) (y : Node K V), Zip root y up → PathOK up →
    (ctxBefore up = [] → climbPrev up = none) ∧
    (∀ B' e', ctxBefore up = B' ++ [e'] → ∃ q j up', climbPrev up = some ⟨q.id, j, e'.1⟩ ∧ Zip root q up' ∧ PathOK up' ∧
      q.kvs[j]? = some e' ∧ (q.kids.length = q.kvs.length + 1) ∧
      ctxBefore up' ++ locBefore q j = B' ∧ locAfter q j ++ ctxAfter up' = toList y ++ ctxAfter up) := by
  intro up
  induction up with
  | nil => intro y _ _; exact ⟨fun _ => rfl, fun B' e' h => by simp [ctxBefore] at h⟩
  | cons f up ih =>
    obtain ⟨p, j⟩ := f
    intro y hz hp
    obtain ⟨hc, hz'⟩ := hz
    obtain ⟨hl, hp'⟩ := hp
    obtain ⟨pid, pkvs, pkids⟩ := p
    simp only [Node.kids, Node.kvs] at hc hl
    have hjl : j < pkids.length := (List.getElem?_eq_some_iff.mp hc).1
    cases j with
    | succ i =>
      -- stop at this ancestor, on the entry left of the child we came from
      have hidx : (prevClimbIdx (((i + 1 : Nat)) : Int)).toNat = i := by simp only [prevClimbIdx]; omega
      have hstop : prevClimbStop (prevClimbIdx (((i + 1 : Nat)) : Int)) = true := by
        simp only [prevClimbStop, prevClimbIdx]; exact decide_eq_true (by omega)
      have hi : i < pkvs.length := by omega
      have hkv : pkvs[i]? = some pkvs[i] := List.getElem?_eq_getElem hi
      have hbefore : ctxBefore ((Node.mk pid pkvs pkids, i + 1) :: up) =
          (ctxBefore up ++ locBefore (Node.mk pid pkvs pkids) i) ++ [pkvs[i]] := by
        simp only [ctxBefore, Node.kids, Node.kvs, locBefore, List.append_assoc]
        congr 1
        exact pre_succ_eq pkids pkvs i (by omega) hkv
      refine ⟨fun h => (by rw [hbefore] at h; exact absurd h snoc_ne_nil), ?_⟩
      intro B' e' h
      rw [hbefore] at h
      obtain ⟨rfl, rfl⟩ := snoc_inj h
      refine ⟨Node.mk pid pkvs pkids, i, up, ?_, hz', hp', hkv, hl, rfl, ?_⟩
      · simp only [climbPrev, hstop, if_true, hidx]
        exact posAt_eq hkv
      · have hdk : pkids.drop (i + 1) = y :: pkids.drop (i + 1 + 1) := by
          rw [List.drop_eq_getElem_cons hjl]
          congr 1
          exact (List.getElem?_eq_some_iff.mp hc).2
        simp only [locAfter, ctxAfter, Node.kids, Node.kvs, hdk, List.map_cons, inorder, List.append_assoc]
    | zero =>
      -- we came from child 0: nothing before it in this ancestor, continue upwards
      have hstop : prevClimbStop (prevClimbIdx (((0 : Nat)) : Int)) = false := by
        simp only [prevClimbStop, prevClimbIdx]; exact decide_eq_false (by omega)
      have hbefore : ctxBefore ((Node.mk pid pkvs pkids, 0) :: up) = ctxBefore up := by
        simp [ctxBefore]
      have hclimb : climbPrev ((Node.mk pid pkvs pkids, 0) :: up) = climbPrev up := by
        simp only [climbPrev, hstop, Bool.false_eq_true, if_false]
      have hlist : toList (Node.mk pid pkvs pkids) =
          toList y ++ rest ((pkids.drop (0 + 1)).map toList) (pkvs.drop 0) := by
        rw [toList_at_child_self hl hc]; simp
      obtain ⟨i1, i2⟩ := ih (Node.mk pid pkvs pkids) hz' hp'
      rw [hbefore, hclimb]
      refine ⟨i1, ?_⟩
      intro B' e' h
      obtain ⟨q, j', up', h1, h2, h3, h4, h5, h6, h7⟩ := i2 B' e' h
      refine ⟨q, j', up', h1, h2, h3, h4, h5, h6, ?_⟩
      rw [h7, hlist]
      simp only [ctxAfter, Node.kids, Node.kvs, List.append_assoc]

theorem rightmost_spec {root : Node K V} (c : Node K V) :
    ∀ h, Bal h c → 1 ≤ c.n → ∀ up, Zip root c up → PathOK up →
      ∃ sp e n, Zip root (rightmostLeaf c) (sp ++ up) ∧ PathOK (sp ++ up) ∧
        (rightmostLeaf c).kvs.length = n + 1 ∧ (rightmostLeaf c).kvs[n]? = some e ∧
        (rightmostLeaf c).kids = [] ∧
        locAfter (rightmostLeaf c) n ++ ctxAfter (sp ++ up) = ctxAfter up ∧
        (ctxBefore (sp ++ up) ++ locBefore (rightmostLeaf c) n) ++ [e] = ctxBefore up ++ toList c := by
  have hmin : (1 : Int) ≤ minKVs := by decide
  fun_induction rightmostLeaf c with
  | case1 id kvs kids hnone =>
    intro h hb hn up hz hp
    rcases bal_cases.mp hb with ⟨rfl, rfl⟩ | ⟨h', rfl, hlen, hall⟩
    · simp only [node_n] at hn
      rcases eq_nil_or_snoc kvs with rfl | ⟨L, e, rfl⟩
      · simp at hn
      · refine ⟨[], e, L.length, by simpa using hz, by simpa using hp, by simp [Node.kvs], by simp [Node.kvs], rfl, ?_, ?_⟩
        · simp [locAfter, Node.kids, Node.kvs, inorder]
        · simp [locBefore, Node.kids, Node.kvs, inorder]
    · simp at hnone; omega
  | case2 id kvs kids d hd ih =>
    intro h hb hn up hz hp
    have hne : kids ≠ [] := by intro h0; subst h0; simp at hd
    obtain ⟨h', rfl, hlen, hall⟩ := bal_inner hne hb
    have hdm := List.mem_of_getElem? hd
    have hz' : Zip root d ((Node.mk id kvs kids, kvs.length) :: up) := ⟨by simpa [Node.kids] using hd, hz⟩
    have hp' : PathOK ((Node.mk id kvs kids, kvs.length) :: up) := ⟨by simpa [Node.kids, Node.kvs] using hlen, hp⟩
    obtain ⟨sp, e, n, h1, h2, h3, h3', h3'', h4, h5⟩ :=
      ih h' (hall d hdm).1 (by have := (hall d hdm).2.1; omega) _ hz' hp'
    have hsp' : sp ++ [(Node.mk id kvs kids, kvs.length)] ++ up = sp ++ (Node.mk id kvs kids, kvs.length) :: up := by
      simp
    refine ⟨sp ++ [(Node.mk id kvs kids, kvs.length)], e, n, by simpa using h1, by simpa using h2, h3, h3', h3'', ?_, ?_⟩
    · rw [hsp', h4]; simp [ctxAfter, Node.kvs]
    · rw [hsp', h5]
      have hsp := toList_at_child_self (id := id) hlen hd
      have hdk : kvs.drop kvs.length = [] := by simp
      rw [hdk, rest_nil_right, List.append_nil] at hsp
      rw [hsp]
      simp only [ctxBefore, Node.kids, Node.kvs, List.append_assoc]

theorem prev_step {root : Node K V} {h : Nat} (t : Tree K V) (ht : t.root = root) (hb : Bal h root)
    (hone : ∀ i, cnt i root ≤ 1) {p : Pos K} {y : Node K V} {up : List (Node K V × Nat)} {e : K × V}
    (ha : At root p y up e) :
    (befOf up y p.i = [] → prevCore t p = none) ∧
    (∀ B' e', befOf up y p.i = B' ++ [e'] → ∃ p' y' up', prevCore t p = some p' ∧ At root p' y' up' e' ∧ p'.k = e'.1 ∧
      befOf up' y' p'.i = B' ∧ aftOf up' y' p'.i = e :: aftOf up y p.i) := by
  obtain ⟨hp, h', hby, hocc⟩ := zip_bal up y h hb ha.zip
  have hpath : pathTo p.id t.root = some (up.reverse, y) := by
    rw [ht]; exact pathTo_unique p.id root up y ha.zip hone ha.idEq
  obtain ⟨yid, kvs, kids⟩ := y
  have hent := ha.entry
  simp only [Node.kvs] at hent
  have hi : p.i < kvs.length := (List.getElem?_eq_some_iff.mp hent).1
  have hgi : kvs[p.i] = e := (List.getElem?_eq_some_iff.mp hent).2
  rcases bal_cases.mp hby with ⟨rfl, rfl⟩ | ⟨h'', rfl, hlen, hall⟩
  · -- the cursor is in a leaf
    have hla : ∀ i, locAfter (Node.mk yid kvs []) i = kvs.drop (i + 1) := by
      intro i; simp [locAfter, Node.kids, Node.kvs, inorder]
    have hlb : ∀ i, locBefore (Node.mk yid kvs []) i = kvs.take i := by
      intro i; simp [locBefore, Node.kids, Node.kvs, inorder]
    have hdrop : kvs.drop p.i = e :: kvs.drop (p.i + 1) := by
      rw [List.drop_eq_getElem_cons hi, hgi]
    by_cases hn : 0 < p.i
    · obtain ⟨m, hm⟩ : ∃ m, p.i = m + 1 := ⟨p.i - 1, by omega⟩
      have hstay : prevLeafStay (((p.i : Nat) : Int) - 1) = true := by
        simp only [prevLeafStay]; exact decide_eq_true (by omega)
      have hml : m < kvs.length := by omega
      have hkv : kvs[m]? = some kvs[m] := List.getElem?_eq_getElem hml
      have hnc : prevCore t p = some ⟨yid, m, kvs[m].1⟩ := by
        have e1 : (((p.i : Nat) : Int) - 1).toNat = m := by omega
        simp only [prevCore, hpath, List.reverse_reverse, Node.isLeaf, Node.kids, List.isEmpty_nil, if_true, hstay, e1]
        exact posAt_eq (x := Node.mk yid kvs []) hkv
      have hbef : befOf up (Node.mk yid kvs []) p.i = (ctxBefore up ++ kvs.take m) ++ [kvs[m]] := by
        simp only [befOf, hlb, hm, List.append_assoc]
        congr 1
        rw [List.take_add_one, hkv]; rfl
      refine ⟨fun h0 => (by rw [hbef] at h0; exact absurd h0 snoc_ne_nil), ?_⟩
      intro B' e' h0
      rw [hbef] at h0
      obtain ⟨rfl, rfl⟩ := snoc_inj h0
      refine ⟨⟨yid, m, kvs[m].1⟩, Node.mk yid kvs [], up, hnc, ⟨ha.zip, rfl, hkv⟩, rfl, ?_, ?_⟩
      · simp only [befOf, hlb]
      · simp only [aftOf, hla, ← hm, hdrop, List.cons_append]
    · -- first entry of the leaf: climb
      have h0i : p.i = 0 := by omega
      have hstay : prevLeafStay (((p.i : Nat) : Int) - 1) = false := by
        simp only [prevLeafStay]; exact decide_eq_false (by omega)
      have hnc : prevCore t p = climbPrev up := by
        simp only [prevCore, hpath, List.reverse_reverse, Node.isLeaf, Node.kids, List.isEmpty_nil, if_true, hstay,
          Bool.false_eq_true, if_false]
      have hbef : befOf up (Node.mk yid kvs []) p.i = ctxBefore up := by simp [befOf, hlb, h0i]
      have hwhole : toList (Node.mk yid kvs []) = e :: locAfter (Node.mk yid kvs []) p.i := by
        rw [toList_at_entry (Or.inl rfl) ha.entry, hlb, h0i]; simp
      obtain ⟨i1, i2⟩ := climbPrev_spec up (Node.mk yid kvs []) ha.zip hp
      rw [hbef, hnc]
      refine ⟨i1, ?_⟩
      intro B' e' h0
      obtain ⟨q, j, up', g1, g2, g3, g4, g5, g6, g7⟩ := i2 B' e' h0
      refine ⟨⟨q.id, j, e'.1⟩, q, up', g1, ⟨g2, rfl, g4⟩, rfl, g6, ?_⟩
      simp only [aftOf]
      rw [g7, hwhole, List.cons_append]
  · -- the cursor is in an inner node: descend to the rightmost leaf of the child left of the entry
    have hdesc : prevInnerDescend (p.i : Int) = true := by
      simp only [prevInnerDescend]; exact decide_eq_true (by omega)
    have hci : (prevChildIdx (p.i : Int)).toNat = p.i := by simp only [prevChildIdx]; omega
    have hcl : p.i < kids.length := by omega
    have hc : kids[p.i]? = some kids[p.i] := List.getElem?_eq_getElem hcl
    have hcm := List.mem_of_getElem? hc
    have hne : kids ≠ [] := by intro h0; subst h0; simp at hcl
    have hleaf : (Node.mk yid kvs kids).isLeaf = false := by
      simp [Node.isLeaf, Node.kids, hne]
    have hz' : Zip root kids[p.i] ((Node.mk yid kvs kids, p.i) :: up) := ⟨by simp [Node.kids], ha.zip⟩
    have hp' : PathOK ((Node.mk yid kvs kids, p.i) :: up) := ⟨by simpa [Node.kids, Node.kvs] using hlen, hp⟩
    have hmin : (1 : Int) ≤ minKVs := by decide
    obtain ⟨sp, e1, n, g1, g2, g3, g3', g3'', g4, g5⟩ := rightmost_spec kids[p.i] h'' (hall _ hcm).1
      (by have := (hall _ hcm).2.1; omega) _ hz' hp'
    have hlast : (prevLeafLast (rightmostLeaf kids[p.i]).n).toNat = n := by
      simp only [prevLeafLast, Node.n, g3]; omega
    have hnc : prevCore t p = posAt (rightmostLeaf kids[p.i]) n := by
      simp only [prevCore, hpath, hleaf, Bool.false_eq_true, if_false, hdesc, if_true, hci, Node.kids, hc, hlast]
    have hbef : befOf up (Node.mk yid kvs kids) p.i =
        (ctxBefore (sp ++ (Node.mk yid kvs kids, p.i) :: up) ++ locBefore (rightmostLeaf kids[p.i]) n) ++ [e1] := by
      rw [g5]
      simp only [befOf, locBefore, Node.kids, Node.kvs, ctxBefore, List.append_assoc]
      congr 1
      have h1 : kids.take (p.i + 1) = kids.take p.i ++ [kids[p.i]] := by rw [List.take_add_one, hc]; rfl
      rw [h1, List.map_append, List.map_cons, List.map_nil, inorder_eq_pre_last _ _ _ (by simp; omega)]
    refine ⟨fun h0 => (by rw [hbef] at h0; exact absurd h0 snoc_ne_nil), ?_⟩
    intro B' e' h0
    rw [hbef] at h0
    obtain ⟨rfl, rfl⟩ := snoc_inj h0
    refine ⟨⟨(rightmostLeaf kids[p.i]).id, n, e1.1⟩, rightmostLeaf kids[p.i], _, ?_, ⟨g1, rfl, g3'⟩, rfl, rfl, ?_⟩
    · rw [hnc]; exact posAt_eq g3'
    · simp only [aftOf]
      rw [g4]
      have hdk : kvs.drop p.i = e :: kvs.drop (p.i + 1) := by
        rw [List.drop_eq_getElem_cons hi, hgi]
      have hB : ∃ d ds, (kids.drop (p.i + 1)).map toList = d :: ds := by
        have : p.i + 1 < kids.length := by omega
        rw [List.drop_eq_getElem_cons this]; exact ⟨_, _, rfl⟩
      obtain ⟨d, ds, hB⟩ := hB
      simp only [ctxAfter, Node.kids, Node.kvs, hdk, hB, rest_cons_cons, locAfter, List.cons_append]

end Juniper.Proofs.Tree
