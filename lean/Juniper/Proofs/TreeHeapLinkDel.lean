import Juniper.Proofs.TreeHeapLinkFinish
/-!
# Linking the two B-tree models (C03): `Delete`, the removal phase

`Heap.delete` after the descent = removal (leaf: `leafRemove`; inner node: `removeRightmost` on the
rightmost leaf of the left subtree + `replaceEntry`) followed by `tail` (nothing if the leaf still has
`minKVs` entries, else `repair`).
-/
namespace Juniper.Proofs.TreeHeapLink
open Juniper Juniper.Model.BTree Juniper.Model.BTreeSlotsOps Juniper.Proofs.Tree Juniper.Proofs.TreeSlotsOps

variable {K V : Type}

/-- what `Delete` does after the removal with the leaf `lf` that now has `n` entries -/
def tail (fuel : Nat) (h : Heap K V) (lf : Nat) (n : Int) : Option (Heap K V) :=
  if Gen.Tree.minKVs ≤ n then some h else repair fuel h lf

/-- the end of `Heap.delete` -/
def delPost (fuel : Nat) (hl : Heap K V × Option Nat) : Option (Heap K V) :=
  match hl.2 with
  | none => some hl.1
  | some lf => if Gen.Tree.deleteMerges lf hl.1.root then Heap.mergeFrom fuel hl.1 lf else some hl.1

theorem deleteLeaf_tail {h h1 : Heap K V} {curr idx : Nat} {x' : SNode K V Nat}
    (hs : h.step (.leafRemove curr idx) [curr] = some h1) (hx : h1.get curr = some x') (fuel : Nat) :
    (Heap.deleteLeaf h curr idx).bind (delPost fuel) = tail fuel h1 curr x'.n := by
  unfold Heap.deleteLeaf tail
  simp only [bind, pure, hs, hx, Option.bind_some]
  by_cases hn : Gen.Tree.minKVs ≤ x'.n
  · have : Gen.Tree.deleteLeafDone x'.n false = true := by simp [Gen.Tree.deleteLeafDone, hn]
    simp [this, hn, delPost]
  · have h1' : Gen.Tree.deleteLeafDone x'.n false = false := by simp [Gen.Tree.deleteLeafDone, hn]
    simp only [h1', Bool.false_eq_true, if_false, hn, repair]
    cases hst : Heap.steal h1 curr with
    | none => rfl
    | some hs =>
      obtain ⟨ha, b⟩ := hs
      cases b with
      | true => simp [Gen.Tree.deleteLeafDone, delPost]
      | false => simp [Gen.Tree.deleteLeafDone, hn, delPost]

theorem deleteInner_tail {h ha hb : Heap K V} {curr idx c lf : Nat} {x lx lx' xl2 : SNode K V Nat} {rk : K} {rv : V}
    {fuelR : Nat}
    (hc : x.kids[idx]? = some (some c)) (hlf : Heap.rightmostLeaf h fuelR c = some lf) (hlx : h.get lf = some lx)
    (hrm : removeRightmostAt lx = some (some rk, some rv, lx'))
    (hsa : h.step (.removeRightmost lf) [lf] = some ha) (hlx2 : ha.get lf = some xl2)
    (hsb : ha.step (.replaceEntry curr idx rk rv) [curr] = some hb) (fuel : Nat) :
    (Heap.deleteInner h curr idx x fuelR).bind (delPost fuel) = tail fuel hb lf xl2.n := by
  unfold Heap.deleteInner tail
  simp only [bind, pure, hc, hlf, hlx, hrm, hsa, hlx2, hsb, Option.bind_some]
  by_cases hn : Gen.Tree.minKVs ≤ xl2.n
  · have : Gen.Tree.removeRightmostUnder xl2.n = false := by simp [Gen.Tree.removeRightmostUnder]; omega
    simp [this, hn, delPost, Gen.Tree.deleteInnerDone]
  · have h1' : Gen.Tree.removeRightmostUnder xl2.n = true := by simp [Gen.Tree.removeRightmostUnder]; omega
    simp only [h1', if_true, hn, if_false, repair, Gen.Tree.deleteInnerDone, Bool.false_or, Bool.false_eq_true]
    cases hst : Heap.steal hb lf with
    | none => rfl
    | some hs =>
      obtain ⟨hc', b⟩ := hs
      cases b with
      | true => simp [delPost]
      | false => simp [delPost]

/-- one level of `rightmostLeaf` -/
theorem rightmostLeaf_here {h : Heap K V} {id : Nat} {sx : SNode K V Nat} {kvs : List (K × V)} {cids : List Nat}
    (hx : h.get id = some sx) (hr : NodeRep sx kvs cids) (fuel : Nat) :
    Heap.rightmostLeaf h (fuel + 1) id =
      if cids = [] then some id
      else match cids[kvs.length]? with
        | some c => Heap.rightmostLeaf h fuel c
        | none => none := by
  rw [Heap.rightmostLeaf]
  simp only [bind, pure, hx, Option.bind_some]
  by_cases hc : cids = []
  · have : sx.isLeaf = true := hr.isLeaf_iff.mpr hc
    simp [hc, this]
  · have hl : sx.isLeaf = false := isLeaf_of_rep_cons hr.hkids hc
    have hlen : cids.length = kvs.length + 1 := by
      rcases hr.hshape with h0 | h0
      · exact absurd h0 hc
      · exact h0
    have hlt : kvs.length < cids.length := by omega
    have := hr.hkids.get_live hlt
    simp only [hl, hc, if_false, Bool.false_eq_true, hr.hn, toIdx_natCast, Option.bind_some, this,
      List.getElem?_eq_getElem hlt]

theorem Sub.lt {h : Heap K V} {q : Option Nat} {y : Node K V} (hs : Sub h.get q y) :
    ∀ j, 0 < cnt j y → j < h.nodes.length := by
  intro j hj
  obtain ⟨x, hx⟩ := Option.isSome_iff_exists.mp (Sub.present y hs j hj)
  exact get_lt hx

/-- the node above a child whose subtree has been worked on -/
theorem parent_after {h0 h2 h3 : Heap K V} {q : Option Nat} {id i lf : Nat} {kvs kvs1 : List (K × V)}
    {kids : List (Node K V)} {c c' : Node K V} {sx2 : SNode K V Nat}
    (hx2 : h2.get id = some sx2) (hpar : sx2.parent = q) (hr : NodeRep sx2 kvs1 (kids.map Node.id))
    (hkids : ∀ d ∈ kids, Sub h0.get (some id) d) (hc : kids[i]? = some c)
    (hcnt : ∀ j, cnt j (Node.mk id kvs kids) ≤ 1) (hlfc : 0 < cnt lf c)
    (hag : ∀ j, 0 < cntK j kids → j ≠ lf → h2.get j = h0.get j)
    (hfr : ∀ j, cnt j c = 0 → h3.get j = h2.get j)
    (hsub' : Sub h3.get (some id) c') (hcid : c'.id = c.id) :
    Sub h3.get q (.mk id kvs1 (replaceAt kids i c')) := by
  have hcm := List.mem_of_getElem? hc
  have hck := cntK_le_one hcnt
  have hidc : cnt id c = 0 := cnt_id_child hcnt hcm
  refine sub_mk.mpr ⟨sx2, by rw [hfr id hidc]; exact hx2, hpar, by rw [map_id_replaceAt hc hcid]; exact hr, ?_⟩
  intro d hd
  rcases mem_replaceAt' hd with rfl | hd
  · exact hsub'
  · refine siblings_keep hc hkids hck (fun j hj hk => ?_) d hd
    rw [hfr j hj]
    exact hag j hk (by intro e; subst e; omega)

/-- what the heap model does once `removeRightmost` has taken the last entry out of the rightmost leaf of the
subtree `y` -/
def RmSim (h0 : Heap K V) (q : Option Nat) (ht : Nat) (y : Node K V) (kv : K × V) (y' : Node K V) (under : Bool) : Prop :=
  ∃ lf xs lkvs, ∃ hne : lkvs ≠ [],
    (∀ fuel, ht + 1 ≤ fuel → Heap.rightmostLeaf h0 fuel y.id = some lf) ∧ h0.get lf = some xs ∧ NodeRep xs lkvs [] ∧
    kv = lkvs.getLast hne ∧ 0 < cnt lf y ∧ y'.id = y.id ∧
    ∀ (h2 : Heap K V) (xs' : SNode K V Nat), h2.get lf = some xs' → NodeRep xs' lkvs.dropLast [] →
      xs'.parent = xs.parent → (∀ j, 0 < cnt j y → j ≠ lf → h2.get j = h0.get j) → h2.root = h0.root →
      ∃ h3, Sub h3.get q y' ∧ (∀ j, cnt j y = 0 → h3.get j = h2.get j) ∧ Same h2 h3 ∧
        (if under then ∀ fuel, tail (fuel + ht) h2 lf xs'.n = repair fuel h3 y.id
         else ∀ fuel, ht ≤ fuel → tail fuel h2 lf xs'.n = some h3)

theorem noId_cnt {r : Nat} {x : Node K V} (h : NoId r x) : cnt r x = 0 := by
  rcases Nat.eq_zero_or_pos (cnt r x) with h0 | hp
  · exact h0
  · exact absurd (mem_ids_iff_cnt.mpr hp) h

theorem removeMax_sim (rootId : Nat) (y : Node K V) :
    ∀ (ht : Nat) (h0 : Heap K V) (q : Option Nat), Bal ht y → Occ y → NoId rootId y → h0.root = rootId →
      (∀ j, cnt j y ≤ 1) → Sub h0.get q y →
      ∀ kv y' u, removeMax rootId y = some (kv, y', u) → RmSim h0 q ht y kv y' u := by
  obtain ⟨c1, c2, c3, c4, c5, c6, c7, c8, c9, c10⟩ := consts
  fun_induction removeMax rootId y with
  | case1 id kvs kids hleaf hnone => intro ht h0 q hb ho hni hroot hcnt hsub kv y' u he; cases he
  | case2 id kvs kids hleaf kv hkv kvs' =>
    intro ht h0 q hb ho hni hroot hcnt hsub kv2 y' u he
    have hk : kids = [] := List.isEmpty_iff.mp hleaf
    subst hk
    have h0' := bal_leaf_iff.mp hb
    subst h0'
    simp only [Option.some.injEq, Prod.mk.injEq] at he
    obtain ⟨rfl, rfl, rfl⟩ := he
    obtain ⟨xs, hx, hpar, hr, _⟩ := sub_mk.mp hsub
    simp only [List.map_nil] at hr
    have hne : kvs ≠ [] := by intro e; subst e; simp at hkv
    have hkv' : kv = kvs.getLast hne := by
      rw [List.getLast?_eq_some_getLast hne] at hkv; exact (Option.some.inj hkv).symm
    have hid : id ≠ rootId := (noId_mk.mp hni).1
    refine ⟨id, xs, kvs, hne, ?_, hx, hr, hkv', cnt_self (Node.mk id kvs []), rfl, ?_⟩
    · intro fuel hf
      obtain ⟨f', rfl⟩ : ∃ f', fuel = f' + 1 := ⟨fuel - 1, by omega⟩
      simp only [Node.id]
      rw [rightmostLeaf_here hx hr]; simp
    · intro h2 xs' hx2 hr2 hp2 hag hroot2
      refine ⟨h2, sub_mk.mpr ⟨xs', hx2, hp2.trans hpar, by simpa using hr2, by simp⟩, fun _ _ => rfl, Same.refl h2, ?_⟩
      have hn2 : xs'.n = (kvs'.length : Int) := hr2.hn
      by_cases hn : Gen.Tree.minKVs ≤ (kvs'.length : Int)
      · have hu : ((!(Gen.Tree.deleteInnerDone (!(Gen.Tree.removeRightmostUnder (kvs'.length : Int))) false)) &&
            Gen.Tree.deleteMerges (id : Int) (rootId : Int)) = false := by
          have : ¬ ((kvs'.length : Int) < Gen.Tree.minKVs) := by omega
          simp [Gen.Tree.deleteInnerDone, Gen.Tree.removeRightmostUnder, this]
        rw [hu]
        simp only [Bool.false_eq_true, if_false]
        intro fuel _
        unfold tail
        rw [hn2, if_pos hn]
      · have hu : ((!(Gen.Tree.deleteInnerDone (!(Gen.Tree.removeRightmostUnder (kvs'.length : Int))) false)) &&
            Gen.Tree.deleteMerges (id : Int) (rootId : Int)) = true := by
          have h1' : (kvs'.length : Int) < Gen.Tree.minKVs := by omega
          have h2' : ¬ ((id : Int) = (rootId : Int)) := by omega
          simp [Gen.Tree.deleteInnerDone, Gen.Tree.removeRightmostUnder, Gen.Tree.deleteMerges, h1', h2']
        rw [hu]
        simp only [if_true]
        intro fuel
        unfold tail
        rw [hn2, if_neg hn]
        rfl
  | case3 id kvs kids hinner hnone => intro ht h0 q hb ho hni hroot hcnt hsub kv y' u he; cases he
  | case4 id kvs kids hinner c hc hres ih => intro ht h0 q hb ho hni hroot hcnt hsub kv y' u he; cases he
  | case5 id kvs kids hinner c hc kv c' under hres kids1 hu ih =>
    intro ht h0 q hb ho hni hroot hcnt hsub kv2 y' u he
    simp only [Option.some.injEq, Prod.mk.injEq] at he
    obtain ⟨rfl, rfl, rfl⟩ := he
    have hu' : under = false := by simpa using hu
    subst hu'
    have hne : kids ≠ [] := by simpa using hinner
    have hnoid : ∀ d ∈ (Node.mk id kvs kids).kids, cnt h0.root d = 0 := by
      intro d hd; rw [hroot]; exact noId_cnt ((noId_mk.mp hni).2 d hd)
    obtain ⟨ht', sx, rfl, hlen, hx, hpar, hr, hkids, hbc, hnc, hcntc, hltc, hrootc, hidc, hcroot, hci, hck, hcm, hnd, hil⟩ :=
      inner_facts hne hb hcnt hsub.lt hnoid hsub hc
    obtain ⟨_, hall⟩ := bal_succ.mp hb
    obtain ⟨lf, xs, lkvs, hne', hrl, hxl, hrl', hkv, hlfc, hcid, hcl⟩ :=
      ih ht' h0 (some id) hbc (hall c hcm).2 ((noId_mk.mp hni).2 c hcm) hroot hcntc (hkids c hcm) kv c' false hres
    have hlfy : 0 < cnt lf (Node.mk id kvs kids) := by
      have := cnt_child_le (id := id) (kvs := kvs) hcm lf; omega
    refine ⟨lf, xs, lkvs, hne', ?_, hxl, hrl', hkv, hlfy, rfl, ?_⟩
    · intro fuel hf
      obtain ⟨f', rfl⟩ : ∃ f', fuel = f' + 1 := ⟨fuel - 1, by omega⟩
      simp only [Node.id]
      have hcne : kids.map Node.id ≠ [] := by simpa using hne
      rw [rightmostLeaf_here hx hr, if_neg hcne, hci]
      exact hrl f' (by omega)
    · intro h2 xs' hx2 hr2 hp2 hag hroot2
      obtain ⟨h3, hsub3, hfr3, hsame3, htl⟩ := hcl h2 xs' hx2 hr2 hp2
        (fun j hj hjl => hag j (by have := cnt_child_le (id := id) (kvs := kvs) hcm j; omega) hjl) hroot2
      have hidlf : id ≠ lf := by intro e; subst e; omega
      have hx2' : h2.get id = some sx := by rw [hag id (cnt_self (Node.mk id kvs kids)) hidlf]; exact hx
      refine ⟨h3, ?_, ?_, hsame3, ?_⟩
      · exact parent_after (h0 := h0) hx2' hpar hr hkids hc hcnt hlfc
          (fun j hj hjl => hag j (by rw [cnt_mk]; omega) hjl) hfr3 hsub3 hcid
      · intro j hj
        exact hfr3 j (by have := cnt_child_le (id := id) (kvs := kvs) hcm j; omega)
      · simp only [Bool.false_eq_true, if_false] at htl ⊢
        intro fuel hf
        exact htl fuel (by omega)
  | case6 id kvs kids hinner c hc kv c' under hres kids1 hu x' u hfin ih =>
    intro ht h0 q hb ho hni hroot hcnt hsub kv2 y' u2 he
    simp only [Option.some.injEq, Prod.mk.injEq] at he
    obtain ⟨rfl, rfl, rfl⟩ := he
    have hu' : under = true := by simpa using hu
    subst hu'
    have hne : kids ≠ [] := by simpa using hinner
    have hnoid : ∀ d ∈ (Node.mk id kvs kids).kids, cnt h0.root d = 0 := by
      intro d hd; rw [hroot]; exact noId_cnt ((noId_mk.mp hni).2 d hd)
    obtain ⟨ht', sx, rfl, hlen, hx, hpar, hr, hkids, hbc, hnc, hcntc, hltc, hrootc, hidc, hcroot, hci, hck, hcm, hnd, hil⟩ :=
      inner_facts hne hb hcnt hsub.lt hnoid hsub hc
    obtain ⟨_, hall⟩ := bal_succ.mp hb
    obtain ⟨lf, xs, lkvs, hne', hrl, hxl, hrl', hkv, hlfc, hcid, hcl⟩ :=
      ih ht' h0 (some id) hbc (hall c hcm).2 ((noId_mk.mp hni).2 c hcm) hroot hcntc (hkids c hcm) kv c' true hres
    obtain ⟨kv3, x3, u3, he3, hs3⟩ := removeMax_bal rootId c ht' hbc (hall c hcm).2 ((noId_mk.mp hni).2 c hcm)
    rw [he3] at hres; cases hres
    obtain ⟨hbc', hmx, _, hmn⟩ := hs3
    have hlfy : 0 < cnt lf (Node.mk id kvs kids) := by
      have := cnt_child_le (id := id) (kvs := kvs) hcm lf; omega
    have hidroot : id ≠ rootId := (noId_mk.mp hni).1
    have hk1 : kids1 = replaceAt kids kvs.length c' := rfl
    have hfinid : x'.id = id := by
      -- a non-root node keeps its identity
      unfold finish at hfin
      split at hfin
      · cases hfin
      · cases hfin; rfl
      · have hrc : Gen.Tree.mergeRootCheck (id : Int) (rootId : Int) = false := by
          have : ¬ ((id : Int) = (rootId : Int)) := by omega
          simp [Gen.Tree.mergeRootCheck, this]
        simp only [hrc, Bool.false_eq_true, if_false] at hfin
        cases hfin; rfl
    refine ⟨lf, xs, lkvs, hne', ?_, hxl, hrl', hkv, hlfy, hfinid, ?_⟩
    · intro fuel hf
      obtain ⟨f', rfl⟩ : ∃ f', fuel = f' + 1 := ⟨fuel - 1, by omega⟩
      simp only [Node.id]
      have hcne : kids.map Node.id ≠ [] := by simpa using hne
      rw [rightmostLeaf_here hx hr, if_neg hcne, hci]
      exact hrl f' (by omega)
    · intro h2 xs' hx2 hr2 hp2 hag hroot2
      obtain ⟨h3, hsub3, hfr3, hsame3, htl⟩ := hcl h2 xs' hx2 hr2 hp2
        (fun j hj hjl => hag j (by have := cnt_child_le (id := id) (kvs := kvs) hcm j; omega) hjl) hroot2
      simp only [if_true] at htl
      have hidlf : id ≠ lf := by intro e; subst e; omega
      have hx2' : h2.get id = some sx := by rw [hag id (cnt_self (Node.mk id kvs kids)) hidlf]; exact hx
      have hsubP : Sub h3.get q (.mk id kvs kids1) :=
        parent_after (h0 := h0) hx2' hpar hr hkids hc hcnt hlfc
          (fun j hj hjl => hag j (by rw [cnt_mk]; omega) hjl) hfr3 hsub3 hcid
      have hcle : ∀ i, cnt i (Node.mk id kvs kids1) ≤ cnt i (Node.mk id kvs kids) := by
        intro i
        have := removeMax_cnt rootId c kv c' true he3 i
        rw [cnt_mk, cnt_mk, hk1, cntK_replaceAt, cntK_at hc i]; omega
      have h3root : h3.root = rootId := by rw [hsame3.root, hroot2, hroot]
      have hX : kids1[kvs.length]? = some c' := replaceAt_getElem? c' hil
      have hfs := finish_sim (h := h3) (p := q) (ht := ht') (id := id) (j := kvs.length) hsubP
        (fun i => by have := hcle i; have := hcnt i; omega)
        (needsFix_replace hb hc hbc' (hmn rfl)) hX (hmn rfl)
        (by simp only [Occ, node_n] at ho; omega)
        (fun e => absurd (e.trans h3root) hidroot)
        (by
          intro d hd
          rw [h3root]
          rcases mem_replaceAt hd with rfl | hd
          · have := removeMax_cnt rootId c kv d true he3 rootId
            have := noId_cnt ((noId_mk.mp hni).2 c hcm); omega
          · exact noId_cnt ((noId_mk.mp hni).2 d hd))
      rw [h3root, hfin] at hfs
      cases u with
      | false =>
        simp only [FinSim] at hfs
        obtain ⟨h', hrep, hsub', hfr', hl', hs', hg', hr', _⟩ := hfs
        refine ⟨h', hsub', ?_, ⟨?_, ?_, ?_, ?_⟩, ?_⟩
        · intro j hj
          rw [hfr' j (by have := hcle j; omega)]
          exact hfr3 j (by have := cnt_child_le (id := id) (kvs := kvs) hcm j; omega)
        · rw [hr', if_neg (by rw [h3root]; exact hidroot), hsame3.root]
        · rw [hs', hsame3.size]
        · rw [hg', hsame3.gen]
        · rw [hl', hsame3.len]
        · simp only [Bool.false_eq_true, if_false]
          intro fuel hf
          have := htl (fuel - (ht' + 1) + 1)
          rw [show fuel - (ht' + 1) + 1 + ht' = fuel by omega] at this
          rw [this, ← hcid]
          exact hrep _
      | true =>
        simp only [FinSim] at hfs
        obtain ⟨h1, hrep, hsub', _, hfr', hsame'⟩ := hfs
        refine ⟨h1, hsub', ?_, hsame3.trans hsame', ?_⟩
        · intro j hj
          rw [hfr' j (by have := hcle j; omega)]
          exact hfr3 j (by have := cnt_child_le (id := id) (kvs := kvs) hcm j; omega)
        · simp only [if_true]
          intro fuel
          have := htl (fuel + 1)
          rw [show fuel + 1 + ht' = fuel + (ht' + 1) by omega] at this
          rw [this, ← hcid]
          exact hrep fuel
  | case7 id kvs kids hinner c hc kv c' under hres kids1 hu hfin ih =>
    intro ht h0 q hb ho hni hroot hcnt hsub kv2 y' u he; cases he

end Juniper.Proofs.TreeHeapLink
