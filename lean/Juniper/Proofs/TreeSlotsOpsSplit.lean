import Juniper.Proofs.TreeSlotsOpsNode
/-!
# Slot-level lemmas (C03 "no retained garbage"): the split in `overfill`

The amalgam view, the ascending fill of the fresh right node, the in-place descending fill of the left
node and the three `xslices.Clear` calls, array by array (`split_array`) and for the whole node
(`splitNode_leaf_rep`, `splitNode_inner_rep`).
-/
namespace Juniper.Proofs.TreeSlotsOps
open Juniper.Model.BTreeSlotsOps Juniper.Gen

section
variable {α : Type}

/-- one array of a full node through one round of `overfill`: separator, the fresh right array and
the left array before the `Clear` call. `L` = entries kept on the left, `S` = first amalgam index
that goes right, `R` = entries that go right. -/
theorem split_array {isExtra shifts : Int → Int → Bool} {a : Slots α} {cap : Nat} {l : List α} {x : α}
    {e p L S R : Nat}
    (hx : ∀ i : Nat, isExtra i e = decide (i = p)) (hs : ∀ i : Nat, shifts i e = decide (i > p))
    (hrep : Rep a cap l) (hfull : l.length = cap) (hp : p ≤ cap)
    (hSR : S + R = cap + 1) (hL : L ≤ cap) (hR : R ≤ cap)
    {condR : Nat → Bool} (hc : ∀ i, condR i = decide (i < R)) {first : Nat → Nat} (hfirst : ∀ i, first i = S + i) :
    (∀ i, i ≤ cap → amalgamGet isExtra shifts true a (some x) e i = (l.take p ++ x :: l.drop p)[i]?) ∧
    (∃ ra, fillUp condR (fun i => amalgamGet isExtra shifts true a (some x) e (first i)) (cap + 1) 0
        (List.replicate cap none) = some ra ∧ Rep ra cap ((l.take p ++ x :: l.drop p).drop S)) ∧
    (∃ la, fillDown (fun b i => amalgamGet isExtra shifts true b (some x) e i) L a = some la ∧
        la.length = cap ∧ la.take L = ((l.take p ++ x :: l.drop p).take L).map some) := by
  have hpre : a.take l.length = l.map some := hrep.take
  have hlen : a.length = cap := hrep.length
  have hall : (l.take p ++ x :: l.drop p).length = cap + 1 := by simp; omega
  have hget : ∀ i, i ≤ cap → amalgamGet isExtra shifts true a (some x) e i = (l.take p ++ x :: l.drop p)[i]? :=
    fun i hi => amalgamGet_eq hx hs hpre (by omega) (by omega)
  generalize l.take p ++ x :: l.drop p = all at hall hget ⊢
  refine ⟨hget, ?_, ?_⟩
  · refine ⟨_, fillUp_eq hc (cap + 1) 0 _ (Nat.zero_le _) (by simp; omega) (by omega), ?_⟩
    have e1 : (List.range' 0 (R - 0)).map (fun i => amalgamGet isExtra shifts true a (some x) e (first i))
        = ((all.drop S).take R).map some := by
      rw [Nat.sub_zero, ← List.range_eq_range', ← map_getElem?_range _ S R (by omega)]
      apply List.map_congr_left
      intro i hi
      have hi : i < R := by simpa using hi
      rw [hfirst, hget _ (by omega)]
    have hd : (all.drop S).length = R := by rw [List.length_drop]; omega
    rw [e1, List.take_of_length_le (Nat.le_of_eq hd)]
    simp only [List.take_zero, List.nil_append, List.drop_replicate]
    exact rep_mk (by omega) (by omega)
  · refine ⟨_, fillDown_eq (fun b c j h => amalgamGet_local b c j h) L a (by omega), by simp; omega, ?_⟩
    rw [List.take_left' (by simp)]
    have := map_getElem?_range all 0 L (by omega)
    simp only [List.drop_zero, Nat.zero_add] at this
    rw [← this]
    apply List.map_congr_left
    intro i hi
    have hi : i < L := by simpa using hi
    rw [hget _ (by omega)]


/-- `split_array` followed by the `Clear` call on the left array -/
theorem split_array_clear {isExtra shifts : Int → Int → Bool} {a : Slots α} {cap : Nat} {l : List α} {x : α}
    {e p L S R : Nat}
    (hx : ∀ i : Nat, isExtra i e = decide (i = p)) (hs : ∀ i : Nat, shifts i e = decide (i > p))
    (hrep : Rep a cap l) (hfull : l.length = cap) (hp : p ≤ cap)
    (hSR : S + R = cap + 1) (hL : L ≤ cap) (hR : R ≤ cap)
    {condR : Nat → Bool} (hc : ∀ i, condR i = decide (i < R)) {first : Nat → Nat} (hfirst : ∀ i, first i = S + i) :
    (∀ i, i ≤ cap → amalgamGet isExtra shifts true a (some x) e i = (l.take p ++ x :: l.drop p)[i]?) ∧
    (∃ ra, fillUp condR (fun i => amalgamGet isExtra shifts true a (some x) e (first i)) (cap + 1) 0
        (List.replicate cap none) = some ra ∧ Rep ra cap ((l.take p ++ x :: l.drop p).drop S)) ∧
    (∃ la la', fillDown (fun b i => amalgamGet isExtra shifts true b (some x) e i) L a = some la ∧
        clearFrom la L = some la' ∧ Rep la' cap ((l.take p ++ x :: l.drop p).take L)) := by
  obtain ⟨h1, h2, la, h3, hlen, htake⟩ := split_array hx hs hrep hfull hp hSR hL hR hc hfirst
  refine ⟨h1, h2, la, ?_⟩
  have hall : (l.take p ++ x :: l.drop p).length = cap + 1 := by simp; omega
  generalize l.take p ++ x :: l.drop p = all at hall htake ⊢
  have ht : (all.take L).length = L := by rw [List.length_take]; omega
  obtain ⟨la', h4, h5⟩ := rep_clearFrom (a := la) (l := all.take L) hlen (by rw [ht]; exact htake) (by omega)
  rw [ht] at h4
  exact ⟨la', h3, h4, h5⟩

/-- the lengths of the two halves of the amalgams -/
theorem split_shape {β γ : Type} (all : List β) (allc : List γ) {kc m : Nat}
    (h1 : all.length = kc + 1) (h2 : allc.length = kc + 2) (hm : m ≤ kc) :
    (all.take m).length = m ∧ (all.drop (m + 1)).length = kc - m ∧
    (allc.take (m + 1)).length = (all.take m).length + 1 ∧
    (allc.drop (m + 1)).length = (all.drop (m + 1)).length + 1 := by
  simp only [List.length_take, List.length_drop]; omega
end

section
variable {K V C : Type}

theorem split_consts :
    0 ≤ Tree.medianIdx ∧ 0 ≤ Tree.rightN ∧ Tree.leftN = Tree.medianIdx ∧
    Tree.medianIdx.toNat + 1 + Tree.rightN.toNat = keysCap + 1 ∧
    (TreeSlots.overfillLeftKeysFrom Tree.leftN + 1).toNat = Tree.medianIdx.toNat ∧
    (TreeSlots.overfillLeftChildrenFrom Tree.leftN + 1).toNat = Tree.medianIdx.toNat + 1 := by decide

/-- the numeric relations between the generated constants that the split needs -/
theorem split_nums :
    Tree.medianIdx.toNat ≤ keysCap ∧ Tree.rightN.toNat ≤ keysCap ∧
    Tree.medianIdx.toNat + 1 + Tree.rightN.toNat = keysCap + 1 ∧
    Tree.medianIdx.toNat ≤ valuesCap ∧ Tree.rightN.toNat ≤ valuesCap ∧
    Tree.medianIdx.toNat + 1 + Tree.rightN.toNat = valuesCap + 1 ∧
    Tree.medianIdx.toNat + 1 ≤ childrenCap ∧ Tree.rightN.toNat + 1 ≤ childrenCap ∧
    Tree.medianIdx.toNat + 1 + (Tree.rightN.toNat + 1) = childrenCap + 1 ∧
    Tree.leftN = (Tree.medianIdx.toNat : Int) ∧ Tree.rightN = ((keysCap - Tree.medianIdx.toNat : Nat) : Int) ∧
    toIdx Tree.medianIdx = some Tree.medianIdx.toNat ∧ toIdx Tree.rightN = some Tree.rightN.toNat ∧
    toIdx Tree.leftN = some Tree.medianIdx.toNat := by decide

theorem rightKeysCond_eq (i : Nat) :
    TreeSlots.overfillRightKeysCond i Tree.rightN = decide (i < Tree.rightN.toNat) := by
  have := split_consts.2.1
  simp only [TreeSlots.overfillRightKeysCond, decide_eq_decide]; omega

theorem rightChildrenCond_eq (i : Nat) :
    TreeSlots.overfillRightChildrenCond i Tree.rightN = decide (i < Tree.rightN.toNat + 1) := by
  have := split_consts.2.1
  simp only [TreeSlots.overfillRightChildrenCond, decide_eq_decide]; omega

theorem rightFirstIdx_eq (i : Nat) : (Tree.rightFirstIdx i).toNat = Tree.medianIdx.toNat + 1 + i := by
  have := split_consts.1
  simp only [Tree.rightFirstIdx]; omega

theorem rightFirstChildIdx_eq (i : Nat) : (Tree.rightFirstChildIdx i).toNat = Tree.medianIdx.toNat + 1 + i := by
  have := split_consts.1
  simp only [Tree.rightFirstChildIdx]; omega

theorem keyIsExtra_eq (e i : Nat) : TreeSlots.amalgamKeyIsExtra i e = decide (i = e) := by
  simp only [TreeSlots.amalgamKeyIsExtra, decide_eq_decide]; omega
theorem keyShifts_eq (e i : Nat) : TreeSlots.amalgamKeyShifts i e = decide (i > e) := by
  simp only [TreeSlots.amalgamKeyShifts, decide_eq_decide]; omega
theorem valueIsExtra_eq (e i : Nat) : TreeSlots.amalgamValueIsExtra i e = decide (i = e) := by
  simp only [TreeSlots.amalgamValueIsExtra, decide_eq_decide]; omega
theorem valueShifts_eq (e i : Nat) : TreeSlots.amalgamValueShifts i e = decide (i > e) := by
  simp only [TreeSlots.amalgamValueShifts, decide_eq_decide]; omega
theorem childIsExtra_eq (e i : Nat) : TreeSlots.amalgamChildIsExtra i e = decide (i = e + 1) := by
  simp only [TreeSlots.amalgamChildIsExtra, decide_eq_decide]; omega
theorem childShifts_eq (e i : Nat) : TreeSlots.amalgamChildShifts i e = decide (i > e + 1) := by
  simp only [TreeSlots.amalgamChildShifts, decide_eq_decide]; omega

theorem isLeaf_of_rep_nil {x : SNode K V C} (h : Rep x.kids childrenCap []) : x.isLeaf = true := by
  have hc := caps_pos.2.2
  obtain ⟨e, _⟩ := h
  have : childrenCap - ([] : List C).length = (childrenCap - 1) + 1 := by simp; omega
  unfold SNode.isLeaf
  rw [e, this, List.replicate_succ]; simp

theorem isLeaf_of_rep_cons {x : SNode K V C} {kids : List C} (h : Rep x.kids childrenCap kids) (hne : kids ≠ []) :
    x.isLeaf = false := by
  obtain ⟨e, _⟩ := h
  obtain ⟨c, cs, rfl⟩ := List.exists_cons_of_ne_nil hne
  unfold SNode.isLeaf
  rw [e]; simp

theorem splitNode_leaf_rep {x : SNode K V C} {kvs : List (K × V)} (h : NodeRep x kvs [])
    (hfull : kvs.length = keysCap) {e : Nat} (he : e ≤ keysCap) (k : K) (v : V) (afterK : Option C)
    (hck : TreeSlots.overfillClearsKeys = true) (hcv : TreeSlots.overfillClearsValues = true)
    (hcc : TreeSlots.overfillClearsChildren = true)
    (hdk : TreeSlots.amalgamKeyDec = true) (hdv : TreeSlots.amalgamValueDec = true) :
    ∃ l' r', splitNode x e (some k) (some v) afterK =
        some (l', ((kvs.take e ++ (k, v) :: kvs.drop e)[Tree.medianIdx.toNat]?).map (·.1),
              ((kvs.take e ++ (k, v) :: kvs.drop e)[Tree.medianIdx.toNat]?).map (·.2), r') ∧
      NodeRep l' ((kvs.take e ++ (k, v) :: kvs.drop e).take Tree.medianIdx.toNat) [] ∧
      NodeRep r' ((kvs.take e ++ (k, v) :: kvs.drop e).drop (Tree.medianIdx.toNat + 1)) [] := by
  obtain ⟨hn, hk, hv, hc, _⟩ := h
  obtain ⟨cv, cc⟩ := caps
  obtain ⟨n1, n2, n3, n4, n5, n6, n7, n8, n9, nl, nr, em, er, el⟩ := split_nums
  obtain ⟨_, _, _, _, hlk, hlc⟩ := split_consts
  have hev : e ≤ valuesCap := by omega
  have hfv : (kvs.map (·.2)).length = valuesCap := by simp; omega
  have hleaf := isLeaf_of_rep_nil hc
  have hkc := rep_clearFrom_id hc (lo := Tree.medianIdx.toNat + 1) (Nat.zero_le _) n7
  obtain ⟨gk, ⟨rk, hrk, rrk⟩, ⟨lk, lk2, hlk1, hlk2, rlk2⟩⟩ :=
    split_array_clear (isExtra := TreeSlots.amalgamKeyIsExtra) (shifts := TreeSlots.amalgamKeyShifts) (x := k) (e := e) (p := e)
      (keyIsExtra_eq e) (keyShifts_eq e) hk (by simpa using hfull) he n3 n1 n2
      (condR := fun i => TreeSlots.overfillRightKeysCond i Tree.rightN) rightKeysCond_eq
      (first := fun i => (Tree.rightFirstIdx i).toNat) rightFirstIdx_eq
  obtain ⟨gv, ⟨rv, hrv, rrv⟩, ⟨lv, lv2, hlv1, hlv2, rlv2⟩⟩ :=
    split_array_clear (isExtra := TreeSlots.amalgamValueIsExtra) (shifts := TreeSlots.amalgamValueShifts) (x := v) (e := e) (p := e)
      (valueIsExtra_eq e) (valueShifts_eq e) hv hfv hev n6 n4 n5
      (condR := fun i => TreeSlots.overfillRightKeysCond i Tree.rightN) rightKeysCond_eq
      (first := fun i => (Tree.rightFirstIdx i).toNat) rightFirstIdx_eq
  have hmk : ((kvs.map (·.1)).take e ++ k :: (kvs.map (·.1)).drop e) = (kvs.take e ++ (k, v) :: kvs.drop e).map (·.1) := by
    simp [List.map_take, List.map_drop]
  have hmv : ((kvs.map (·.2)).take e ++ v :: (kvs.map (·.2)).drop e) = (kvs.take e ++ (k, v) :: kvs.drop e).map (·.2) := by
    simp [List.map_take, List.map_drop]
  rw [hmk] at gk rrk rlk2
  rw [hmv] at gv rrv rlv2
  have hall : (kvs.take e ++ (k, v) :: kvs.drop e).length = keysCap + 1 := by simp; omega
  generalize kvs.take e ++ (k, v) :: kvs.drop e = all at *
  obtain ⟨s1, s2, _, _⟩ := split_shape all (List.replicate (keysCap + 2) ()) hall (by simp) n1
  have gkm := gk _ n1
  have gvm := gv _ n4
  refine ⟨{ x with n := Tree.leftN, keys := lk2, vals := lv2 },
          { (SNode.fresh : SNode K V C) with n := Tree.rightN, keys := rk, vals := rv }, ?_, ?_, ?_⟩
  · simp [splitNode, em, er, el, hleaf, amalgamKey, amalgamValue, hdk, hdv, SNode.fresh, hrk, hrv, hlk, hlk1, hlv1,
      hck, hcv, hcc, hlk2, hlv2, hkc, gkm, gvm]
  · refine ⟨by rw [s1]; exact nl, ?_, ?_, hc, Or.inl rfl⟩
    · simpa [List.map_take] using rlk2
    · simpa [List.map_take] using rlv2
  · refine ⟨by rw [s2]; exact nr, ?_, ?_, rep_nil _, Or.inl rfl⟩
    · simpa [List.map_drop] using rrk
    · simpa [List.map_drop] using rrv

theorem splitNode_inner_rep {x : SNode K V C} {kvs : List (K × V)} {kids : List C} (h : NodeRep x kvs kids)
    (hfull : kvs.length = keysCap) (hint : kids.length = kvs.length + 1)
    {e : Nat} (he : e ≤ keysCap) (k : K) (v : V) (r : C)
    (hck : TreeSlots.overfillClearsKeys = true) (hcv : TreeSlots.overfillClearsValues = true)
    (hcc : TreeSlots.overfillClearsChildren = true)
    (hdk : TreeSlots.amalgamKeyDec = true) (hdv : TreeSlots.amalgamValueDec = true)
    (hdc : TreeSlots.amalgamChildDec = true) :
    ∃ l' r', splitNode x e (some k) (some v) (some r) =
        some (l', ((kvs.take e ++ (k, v) :: kvs.drop e)[Tree.medianIdx.toNat]?).map (·.1),
              ((kvs.take e ++ (k, v) :: kvs.drop e)[Tree.medianIdx.toNat]?).map (·.2), r') ∧
      NodeRep l' ((kvs.take e ++ (k, v) :: kvs.drop e).take Tree.medianIdx.toNat)
        ((kids.take (e + 1) ++ r :: kids.drop (e + 1)).take (Tree.medianIdx.toNat + 1)) ∧
      NodeRep r' ((kvs.take e ++ (k, v) :: kvs.drop e).drop (Tree.medianIdx.toNat + 1))
        ((kids.take (e + 1) ++ r :: kids.drop (e + 1)).drop (Tree.medianIdx.toNat + 1)) := by
  obtain ⟨hn, hk, hv, hc, _⟩ := h
  obtain ⟨cv, cc⟩ := caps
  obtain ⟨n1, n2, n3, n4, n5, n6, n7, n8, n9, nl, nr, em, er, el⟩ := split_nums
  obtain ⟨_, _, _, _, hlk, hlc⟩ := split_consts
  have hev : e ≤ valuesCap := by omega
  have hec : e + 1 ≤ childrenCap := by omega
  have hfv : (kvs.map (·.2)).length = valuesCap := by simp; omega
  have hfc : kids.length = childrenCap := by omega
  have hne : kids ≠ [] := by intro h; simp [h] at hint
  have hleaf := isLeaf_of_rep_cons hc hne
  obtain ⟨gk, ⟨rk, hrk, rrk⟩, ⟨lk, lk2, hlk1, hlk2, rlk2⟩⟩ :=
    split_array_clear (isExtra := TreeSlots.amalgamKeyIsExtra) (shifts := TreeSlots.amalgamKeyShifts) (x := k) (e := e) (p := e)
      (keyIsExtra_eq e) (keyShifts_eq e) hk (by simpa using hfull) he n3 n1 n2
      (condR := fun i => TreeSlots.overfillRightKeysCond i Tree.rightN) rightKeysCond_eq
      (first := fun i => (Tree.rightFirstIdx i).toNat) rightFirstIdx_eq
  obtain ⟨gv, ⟨rv, hrv, rrv⟩, ⟨lv, lv2, hlv1, hlv2, rlv2⟩⟩ :=
    split_array_clear (isExtra := TreeSlots.amalgamValueIsExtra) (shifts := TreeSlots.amalgamValueShifts) (x := v) (e := e) (p := e)
      (valueIsExtra_eq e) (valueShifts_eq e) hv hfv hev n6 n4 n5
      (condR := fun i => TreeSlots.overfillRightKeysCond i Tree.rightN) rightKeysCond_eq
      (first := fun i => (Tree.rightFirstIdx i).toNat) rightFirstIdx_eq
  obtain ⟨gc, ⟨rc, hrc, rrc⟩, ⟨lc, lc2, hlc1, hlc2, rlc2⟩⟩ :=
    split_array_clear (isExtra := TreeSlots.amalgamChildIsExtra) (shifts := TreeSlots.amalgamChildShifts) (x := r) (e := e) (p := e + 1)
      (childIsExtra_eq e) (childShifts_eq e) hc hfc hec n9 n7 n8
      (condR := fun i => TreeSlots.overfillRightChildrenCond i Tree.rightN) rightChildrenCond_eq
      (first := fun i => (Tree.rightFirstChildIdx i).toNat) rightFirstChildIdx_eq
  have hmk : ((kvs.map (·.1)).take e ++ k :: (kvs.map (·.1)).drop e) = (kvs.take e ++ (k, v) :: kvs.drop e).map (·.1) := by
    simp [List.map_take, List.map_drop]
  have hmv : ((kvs.map (·.2)).take e ++ v :: (kvs.map (·.2)).drop e) = (kvs.take e ++ (k, v) :: kvs.drop e).map (·.2) := by
    simp [List.map_take, List.map_drop]
  rw [hmk] at gk rrk rlk2
  rw [hmv] at gv rrv rlv2
  have hall : (kvs.take e ++ (k, v) :: kvs.drop e).length = keysCap + 1 := by simp; omega
  have hallc : (kids.take (e + 1) ++ r :: kids.drop (e + 1)).length = keysCap + 2 := by simp; omega
  generalize kvs.take e ++ (k, v) :: kvs.drop e = all at *
  generalize kids.take (e + 1) ++ r :: kids.drop (e + 1) = allc at *
  obtain ⟨s1, s2, s3, s4⟩ := split_shape all allc hall hallc n1
  have gkm := gk _ n1
  have gvm := gv _ n4
  refine ⟨{ x with n := Tree.leftN, keys := lk2, vals := lv2, kids := lc2 },
          { (SNode.fresh : SNode K V C) with n := Tree.rightN, keys := rk, vals := rv, kids := rc }, ?_, ?_, ?_⟩
  · simp [splitNode, em, er, el, hleaf, amalgamKey, amalgamValue, amalgamChild, hdk, hdv, hdc, SNode.fresh, hrk, hrv, hrc,
      hlk, hlc, hlk1, hlv1, hlc1, hck, hcv, hcc, hlk2, hlv2, hlc2, gkm, gvm]
  · refine ⟨by rw [s1]; exact nl, ?_, ?_, rlc2, Or.inr s3⟩
    · simpa [List.map_take] using rlk2
    · simpa [List.map_take] using rlv2
  · refine ⟨by rw [s2]; exact nr, ?_, ?_, rrc, Or.inr s4⟩
    · simpa [List.map_drop] using rrk
    · simpa [List.map_drop] using rrv

end

end Juniper.Proofs.TreeSlotsOps
