import Juniper.Proofs.HelpersBasic
namespace Juniper.Proofs.Helpers
open Juniper.Model.Helpers Juniper.Spec.Helpers Juniper.Gen.Helpers

variable {α : Type}

seal Juniper.Facts.wrap64

open Juniper.Facts in
/-- inside the documented domain (`idx + n ≤ len(s) ≤ MaxInt64`) `len(s) - n` and `idx + n` are exact -/
theorem ru_keepStart_nat (len n : Nat) (h : n ≤ len) (hl : len ≤ 9223372036854775807) :
    ruKeepStart (len : Int) (n : Int) = (len : Int) - (n : Int) := by
  unfold ruKeepStart; exact wrap64_of_range (by omega) (by omega)

open Juniper.Facts in
theorem ru_removeEnd_nat (idx n len : Nat) (h : idx + n ≤ len) (hl : len ≤ 9223372036854775807) :
    ruRemoveEnd (idx : Int) (n : Int) = (idx : Int) + (n : Int) := by
  unfold ruRemoveEnd; exact wrap64_of_range (by omega) (by omega)

theorem ru_copyAt_nat (dst src : List α) (dlo dhi : Nat) :
    copyAt dst (dlo : Int) (dhi : Int) src =
      dst.take dlo ++ src.take (min (dhi - dlo) src.length) ++ dst.drop (dlo + min (dhi - dlo) src.length) := by
  unfold copyAt
  have e : ((dhi : Int) - (dlo : Int)).toNat = dhi - dlo := by omega
  simp only [e, Int.toNat_natCast]

theorem ru_clearAt_nat (zero : α) (s : List α) (lo hi : Nat) :
    clearAt zero s (lo : Int) (hi : Int) = s.take lo ++ List.replicate (hi - lo) zero ++ s.drop hi := by
  unfold clearAt
  have e : ((hi : Int) - (lo : Int)).toNat = hi - lo := by omega
  simp only [e, Int.toNat_natCast]

/-- `removeUnordered` with all generated definitions evaluated; `k` is the final `keepStart`. -/
theorem removeUnordered_eval (zero : α) (s : List α) (idx n k : Nat) (h : idx + n ≤ s.length)
    (hl : s.length ≤ 9223372036854775807)
    (hk : k = if idx + n > s.length - n then idx + n else s.length - n) :
    removeUnordered zero s (idx : Int) (n : Int) =
      some (((s.take idx ++ (s.drop k) ++ s.drop (idx + (s.length - k))).take (s.length - n)),
        ((s.take idx ++ (s.drop k) ++ s.drop (idx + (s.length - k))).take (s.length - n))
          ++ List.replicate n zero) := by
  have hK : (if ruBump (ruRemoveEnd (idx : Int) (n : Int)) (ruKeepStart (s.length : Int) (n : Int)) = true
      then ruBumpVal (ruRemoveEnd (idx : Int) (n : Int)) else ruKeepStart (s.length : Int) (n : Int))
      = (k : Int) := by
    rw [ru_removeEnd_nat idx n s.length h hl, ru_keepStart_nat s.length n (by omega) hl]
    by_cases c : idx + n > s.length - n
    · have hb : ruBump ((idx : Int) + (n : Int)) ((s.length : Int) - (n : Int)) = true := by
        unfold ruBump
        exact decide_eq_true (by omega)
      rw [if_pos hb, hk, if_pos c]
      unfold ruBumpVal
      omega
    · have hb : ¬ ruBump ((idx : Int) + (n : Int)) ((s.length : Int) - (n : Int)) = true := by
        unfold ruBump
        rw [decide_eq_true_eq]
        omega
      rw [if_neg hb, hk, if_neg c]
      omega
  unfold removeUnordered
  simp only [hK]
  simp only [ruCopyDstLo, ruCopyDstHi, ruCopySrcLo,
    ruCopySrcHi, ruClearLo, ruClearHi, ruRetLo, ruRetHi, ruCopies, ruClears, if_true]
  have hkl : k ≤ s.length := by rw [hk]; split <;> omega
  have hki : idx ≤ k := by rw [hk]; split <;> omega
  have hLn : Juniper.Facts.wrap64 ((s.length : Int) - (n : Int)) = ((s.length - n : Nat) : Int) := by
    rw [wrap64_of_range (by omega) (by omega)]; omega
  simp only [hLn]
  have o1 : sliceOk (idx : Int) (s.length : Int) (s.length : Int) = true := by
    rw [sliceOk_iff]; omega
  have o2 : sliceOk (k : Int) (s.length : Int) (s.length : Int) = true := by
    rw [sliceOk_iff]; omega
  have o3 : sliceOk ((s.length - n : Nat) : Int) (s.length : Int) (s.length : Int) = true := by
    rw [sliceOk_iff]; omega
  have o4 : sliceOk 0 ((s.length - n : Nat) : Int) (s.length : Int) = true := by
    rw [sliceOk_iff]; omega
  simp only [o1, o2, o3, o4, Bool.not_true, Bool.false_eq_true, if_false]
  have z : (0 : Int) = ((0 : Nat) : Int) := rfl
  rw [z, slice_nat, slice_nat, ru_copyAt_nat, ru_clearAt_nat]
  have e1 : (s.drop k).take (s.length - k) = s.drop k := List.take_of_length_le (by simp)
  have e2 : min (s.length - idx) (s.drop k).length = s.length - k := by simp; omega
  rw [e1, e2, e1]
  generalize hs1 : s.take idx ++ s.drop k ++ s.drop (idx + (s.length - k)) = s1
  have hl1 : s1.length = s.length := by rw [← hs1]; simp; omega
  have e3 : s1.drop s.length = [] := List.drop_of_length_le (by omega)
  have e4 : s.length - (s.length - n) = n := by omega
  rw [e3, e4, List.append_nil, List.drop_zero, Nat.sub_zero,
    List.take_left' (by rw [List.length_take]; omega)]

theorem removeUnordered_spec (zero : α) (s : List α) (idx n : Nat) (h : idx + n ≤ s.length)
    (hl : s.length ≤ 9223372036854775807) :
    ∃ ret arr, removeUnordered zero s (idx : Int) (n : Int) = some (ret, arr) ∧
      ret.length = s.length - n ∧ ret.take idx = s.take idx ∧
      ret.Perm (s.take idx ++ s.drop (idx + n)) ∧
      (∀ p, idx + n ≤ p → p < s.length - n → ret[p]? = s[p]?) ∧
      arr = ret ++ List.replicate n zero := by
  refine ⟨_, _, removeUnordered_eval zero s idx n _ h hl rfl, ?_⟩
  by_cases c : idx + n > s.length - n
  · -- nothing (or not everything) can be taken from the tail: the tail is shifted down
    rw [if_pos c]
    have e : (s.take idx ++ s.drop (idx + n) ++ s.drop (idx + (s.length - (idx + n)))).take (s.length - n)
        = s.take idx ++ s.drop (idx + n) :=
      List.take_left' (by simp; omega)
    rw [e]
    refine ⟨by simp; omega, ?_, List.Perm.refl _, ?_, rfl⟩
    · exact List.take_left' (by simp; omega)
    · intro p h1 h2; omega
  · rw [if_neg c]
    have e : (s.take idx ++ s.drop (s.length - n) ++ s.drop (idx + (s.length - (s.length - n)))).take
          (s.length - n)
        = s.take idx ++ s.drop (s.length - n) ++ (s.drop (idx + n)).take (s.length - n - (idx + n)) := by
      have e0 : s.length - (s.length - n) = n := by omega
      rw [e0, List.take_append]
      have l1 : (s.take idx ++ s.drop (s.length - n)).length = idx + n := by simp; omega
      rw [l1, List.take_of_length_le (by omega)]
    rw [e]
    refine ⟨by simp; omega, ?_, ?_, ?_, rfl⟩
    · rw [List.append_assoc]; exact List.take_left' (by simp; omega)
    · have d : s.drop (idx + n) =
          (s.drop (idx + n)).take (s.length - n - (idx + n)) ++ s.drop (s.length - n) := by
        conv => lhs; rw [← List.take_append_drop (s.length - n - (idx + n)) (s.drop (idx + n))]
        rw [List.drop_drop]
        congr 2
        omega
      conv => rhs; rw [d]
      rw [List.append_assoc]
      exact List.Perm.append_left _ List.perm_append_comm
    · intro p h1 h2
      rw [List.getElem?_append_right (by simp; omega)]
      have l1 : (s.take idx ++ s.drop (s.length - n)).length = idx + n := by simp; omega
      rw [l1, List.getElem?_take, if_pos (by omega), List.getElem?_drop]
      congr 1
      omega

end Juniper.Proofs.Helpers
