import Juniper.Proofs.TreeCursor
/-!
# `find`, the forward seeks and `forwardIterator.Next` on an unchanging tree (C01, C02)
-/
namespace Juniper.Proofs.Tree
open Juniper.Model.BTree Juniper.Gen.Tree

variable {K V : Type} {α : Type} {cmp : K → K → Int}

/-- outcome of `cursor.find`: the cursor entry `e` splits the tree's list into `befOf ++ e :: aftOf`; everything
before is below `k`; `e` is equivalent to `k`, or the first entry above `k`, or (leaf exhausted) the last entry
below `k` with everything after above `k`. -/
structure FindOK (cmp : K → K → Int) (k : K) (root : Node K V) (p : Pos K) (f : Bool) : Prop where
  ex : ∃ y up e, At root p y up e ∧ p.k = e.1 ∧ PathOK up ∧
    (∀ b ∈ befOf up y p.i, 0 < cmp k b.1) ∧
    (f = true → cmp k e.1 = 0) ∧
    (f = false → cmp k e.1 < 0 ∨ (0 < cmp k e.1 ∧ StartsAbove cmp k (aftOf up y p.i)))

theorem findIn_spec (hc : StrictWeak cmp) (k : K) (x : Node K V) :
    ∀ h, Bal h x → 1 ≤ x.n → Sorted cmp (toList x) → ∀ root up, Zip root x up → PathOK up →
      (∀ b ∈ ctxBefore up, 0 < cmp k b.1) → StartsAbove cmp k (ctxAfter up) →
      ∃ p f, findIn cmp k x = some (p, f) ∧ FindOK cmp k root p f := by
  have hmin : (1 : Int) ≤ minKVs := by decide
  fun_induction findIn cmp k x with
  | case1 id kvs kids i hs =>
    intro h hb hn hsort root up hz hp hlo hhi
    obtain ⟨_, _, h3⟩ := search_bounds cmp k kvs hs
    obtain ⟨kv, hkv, he⟩ := h3 rfl
    refine ⟨⟨id, i, kv.1⟩, true, by simp [posAt, Node.kvs, Node.id, hkv], ⟨Node.mk id kvs kids, up, kv, ⟨hz, rfl, hkv⟩, rfl, hp, ?_, fun _ => he, (by intro h0; cases h0)⟩⟩
    intro b hb'
    simp only [befOf, List.mem_append] at hb'
    rcases hb' with hb' | hb'
    · exact hlo b hb'
    · rw [toList_at_entry (node_struct hb) (show (Node.mk id kvs kids).kvs[i]? = some kv from hkv)] at hsort
      have : cmp b.1 kv.1 < 0 := (List.pairwise_append.mp hsort).2.2 b hb' kv List.mem_cons_self
      exact hc.gt_of_eq_of_gt he (hc.gt_iff.mpr this)
  | case2 id kvs kids i hs hleaf i' =>
    intro h hb hn hsort root up hz hp hlo hhi
    have hk : kids = [] := List.isEmpty_iff.mp hleaf
    subst hk
    obtain ⟨b1, b2, _⟩ := search_bounds cmp k kvs hs
    have hile : i ≤ kvs.length := by have := searchNode_le cmp k kvs; rw [hs] at this; exact this
    simp only [node_n] at hn
    have hlb : ∀ j, locBefore (Node.mk id kvs []) j = kvs.take j := by intro j; simp [locBefore, Node.kids, Node.kvs, inorder]
    have hla : ∀ j, locAfter (Node.mk id kvs []) j = kvs.drop (j + 1) := by intro j; simp [locAfter, Node.kids, Node.kvs, inorder]
    by_cases hi : i < kvs.length
    · -- `k` belongs right before entry `i`
      have hkv : kvs[i]? = some kvs[i] := List.getElem?_eq_getElem hi
      have hi' : i'.toNat = i := by
        have : findBacksUp (i : Int) (kvs.length : Int) = false := by simp only [findBacksUp]; exact decide_eq_false (by omega)
        simp [i', this]
      refine ⟨⟨id, i, kvs[i].1⟩, false, by rw [hi']; simp [posAt, Node.kvs, Node.id, hkv],
        ⟨Node.mk id kvs [], up, kvs[i], ⟨hz, rfl, hkv⟩, rfl, hp, ?_, (by intro h0; cases h0), fun _ => Or.inl ?_⟩⟩
      · intro b hb'
        simp only [befOf, hlb, List.mem_append] at hb'
        rcases hb' with hb' | hb'
        · exact hlo b hb'
        · exact b1 b hb'
      · exact b2 rfl kvs[i] (by rw [head?_drop]; simp [hkv])
    · -- `k` is above the whole leaf: back up to its last entry
      have hin : i = kvs.length := by omega
      subst hin
      have hpos : 0 < kvs.length := by omega
      have hkv : kvs[kvs.length - 1]? = some kvs[kvs.length - 1] := List.getElem?_eq_getElem (by omega)
      have hi' : i'.toNat = kvs.length - 1 := by
        have h1 : findBacksUp (kvs.length : Int) (kvs.length : Int) = true := by simp [findBacksUp]
        have h2 : findBackUpDec = true := by decide
        simp [i', h1, h2]
      refine ⟨⟨id, kvs.length - 1, kvs[kvs.length - 1].1⟩, false, by rw [hi']; simp [posAt, Node.kvs, Node.id, hkv],
        ⟨Node.mk id kvs [], up, kvs[kvs.length - 1], ⟨hz, rfl, hkv⟩, rfl, hp, ?_, (by intro h0; cases h0), fun _ => Or.inr ⟨?_, ?_⟩⟩⟩
      · intro b hb'
        simp only [befOf, hlb, List.mem_append] at hb'
        rcases hb' with hb' | hb'
        · exact hlo b hb'
        · exact b1 b (mem_take_mono hb' (by omega))
      · exact b1 _ (by
          apply List.mem_of_getElem? (i := kvs.length - 1); rw [List.getElem?_take]; simp [hkv]; omega)
      · have : kvs.drop (kvs.length - 1 + 1) = [] := by simp; omega
        simp only [aftOf, hla, this, List.nil_append]; exact hhi
  | case3 id kvs kids i hs hinner hnone =>
    intro h hb hn hsort root up hz hp hlo hhi
    have hne : kids ≠ [] := by simpa using hinner
    obtain ⟨h', rfl, hlen, hall⟩ := bal_inner hne hb
    have := searchNode_le cmp k kvs
    rw [hs] at this
    simp at hnone this; omega
  | case4 id kvs kids i hs hinner c hcc ih =>
    intro h hb hn hsort root up hz hp hlo hhi
    have hne : kids ≠ [] := by simpa using hinner
    obtain ⟨h', rfl, hlen, hall⟩ := bal_inner hne hb
    have hcm := List.mem_of_getElem? hcc
    obtain ⟨b1, b2, _⟩ := search_bounds cmp k kvs hs
    rw [toList_at_child_self hlen hcc] at hsort
    have hsc : Sorted cmp (toList c) := (List.pairwise_append.mp (List.pairwise_append.mp hsort).1).2.1
    have hpre : Sorted cmp (pre ((kids.take i).map toList) (kvs.take i)) :=
      (List.pairwise_append.mp (List.pairwise_append.mp hsort).1).1
    have hz' : Zip root c ((Node.mk id kvs kids, i) :: up) := ⟨by simpa [Node.kids] using hcc, hz⟩
    have hp' : PathOK ((Node.mk id kvs kids, i) :: up) := ⟨by simpa [Node.kids, Node.kvs] using hlen, hp⟩
    apply ih h' (hall c hcm).1 (by have := (hall c hcm).2.1; omega) hsc root _ hz' hp'
    · intro b hb'
      simp only [ctxBefore, Node.kids, Node.kvs, List.mem_append] at hb'
      rcases hb' with hb' | hb'
      · exact hlo b hb'
      · exact pre_below hc hpre b1 b hb'
    · intro b hb'
      simp only [ctxAfter, Node.kids, Node.kvs] at hb'
      by_cases hr : rest ((kids.drop (i + 1)).map toList) (kvs.drop i) = []
      · rw [hr, List.nil_append] at hb'; exact hhi b hb'
      · rw [head?_append_ne _ _ hr, rest_head] at hb'
        exact b2 rfl b hb'


/-- iterating forward from cursor `c` on the (unchanging) tree `t` yields exactly `S` -/
def Fwd (t : Tree K V) (c : Cursor K) (S : List (K × V)) : Prop :=
  (S = [] ∧ c.pos = none) ∨
  (c.gen = t.gen ∧ ∃ p y up e, c.pos = some p ∧ At t.root p y up e ∧ p.k = e.1 ∧ S = e :: aftOf up y p.i)

theorem lostAt_of_gen_eq (cmp : K → K → Int) (t : Tree K V) (c : Cursor K) (h : c.gen = t.gen) :
    lostAt cmp t c = false := by
  unfold lostAt
  cases c.pos with
  | none => simp [lost, h]
  | some p =>
    simp only
    cases findNode p.id t.root with
    | none => simp [lost, h]
    | some x => simp [lost, h]

theorem inv_facts {t : Tree K V} (hi : Inv cmp t) :
    ∃ h, Bal h t.root ∧ (∀ i, cnt i t.root ≤ 1) ∧ Sorted cmp (toList t.root) := by
  obtain ⟨h, hb, _, _⟩ := hi.wf.bal
  exact ⟨h, hb, (nodup_iff_count_le_one _).mp hi.ids.1, hi.wf.sorted⟩

/-- moving on from a valid position: the cursor then yields the rest -/
theorem advance {t : Tree K V} (hi : Inv cmp t) {c : Cursor K} {p : Pos K} {y : Node K V}
    {up : List (Node K V × Nat)} {e : K × V} (hg : c.gen = t.gen) (ha : At t.root p y up e) :
    Fwd t { c with pos := nextCore t p } (aftOf up y p.i) := by
  obtain ⟨h, hb, hone, _⟩ := inv_facts hi
  obtain ⟨n1, n2⟩ := next_step t rfl hb hone ha
  cases hA : aftOf up y p.i with
  | nil => left; exact ⟨rfl, by simp [n1 hA]⟩
  | cons e' A' =>
    obtain ⟨p', y', up', g1, g2, g3, _, g5⟩ := n2 e' A' hA
    right
    exact ⟨hg, p', y', up', e', by simp [g1], g2, g3, by rw [g5]⟩

theorem dropWhile_append_all {q : α → Bool} {B L : List α} (h : ∀ b ∈ B, q b = true) :
    (B ++ L).dropWhile q = L.dropWhile q := by
  induction B with
  | nil => rfl
  | cons b B ih =>
    simp only [List.cons_append, List.dropWhile_cons, h b List.mem_cons_self, if_true]
    exact ih (fun x hx => h x (List.mem_cons_of_mem _ hx))

theorem dropWhile_of_head_false {q : α → Bool} {L : List α} (h : ∀ a ∈ L.head?, q a = false) :
    L.dropWhile q = L := by
  cases L with
  | nil => rfl
  | cons a L => simp [h a (by simp)]

theorem root_empty_of_n_zero {t : Tree K V} (hw : WF cmp t) (h0 : t.root.n = 0) : toList t.root = [] := by
  obtain ⟨h, hbal, hmax, hroot⟩ := hw.bal
  have hh : h = 0 := by
    cases h with
    | zero => rfl
    | succ h => have := hroot (by omega); omega
  subst hh
  obtain ⟨⟨id, kvs, kids⟩, size, gen, nextId⟩ := t
  have := bal_zero.mp hbal
  simp only at this h0 ⊢
  subst this
  have hk : kvs = [] := by simpa [node_n] using h0
  subst hk; simp

/-- the forward seeks: park on the first entry whose key does not satisfy `step (cmp k ·)` -/
theorem seekFwd_spec (hc : StrictWeak cmp) {t : Tree K V} (hi : Inv cmp t) (step : Int → Bool)
    (hpos : ∀ c, 0 < c → step c = true) (hneg : ∀ c, c < 0 → step c = false) (c0 : Cursor K) (k : K) :
    Fwd t (seekWith (V := V) step true cmp t c0 k) ((toList t.root).dropWhile (fun x => step (cmp k x.1))) := by
  obtain ⟨h, hb, hone, hsort⟩ := inv_facts hi
  have hgen : seekSetsGen = true := by decide
  unfold seekWith seek find
  by_cases h0 : t.root.n = 0
  · have := root_empty_of_n_zero hi.wf h0
    simp [findEmpty, h0, this, Fwd]
  · have hn : 1 ≤ t.root.n := by
      have : 0 ≤ t.root.n := by simp [Node.n]
      omega
    obtain ⟨p, f, hf, ⟨y, up, e, ha, hk, hp, hbef, hft, hff⟩⟩ :=
      findIn_spec hc k t.root h hb hn hsort t.root [] rfl trivial (by simp [ctxBefore]) (by intro b hb'; simp [ctxAfter] at hb')
    have hL := at_toList hb ha
    simp only [findEmpty, h0, decide_false, Bool.false_eq_true, if_false, hf, hgen, if_true]
    have hdrop : (toList t.root).dropWhile (fun x => step (cmp k x.1)) =
        (e :: aftOf up y p.i).dropWhile (fun x => step (cmp k x.1)) := by
      rw [hL]; exact dropWhile_append_all (fun b hb' => hpos _ (hbef b hb'))
    rw [hdrop, hk]
    by_cases hst : step (cmp k e.1) = true
    · -- step past `e`
      have habove : StartsAbove cmp k (aftOf up y p.i) := by
        cases f with
        | true =>
          have he := hft rfl
          intro a ha'
          rw [hL] at hsort
          have h1 := (List.pairwise_append.mp hsort).2.1
          have : cmp e.1 a.1 < 0 := (List.pairwise_cons.mp h1).1 a (List.mem_of_mem_head? ha')
          exact hc.lt_of_eq_of_lt he this
        | false =>
          rcases hff rfl with h1 | ⟨_, h2⟩
          · rw [hneg _ h1] at hst; cases hst
          · exact h2
      have hlost : lostAt cmp t { pos := some p, gen := t.gen } = false := lostAt_of_gen_eq cmp t _ rfl
      simp only [hst, if_true, stepFwd, hlost, Bool.false_eq_true, if_false, List.dropWhile_cons]
      rw [dropWhile_of_head_false (fun a ha' => hneg _ (habove a ha'))]
      exact advance (c := { pos := some p, gen := t.gen }) hi rfl ha
    · have hst' : step (cmp k e.1) = false := by simpa using hst
      simp only [hst', Bool.false_eq_true, if_false, List.dropWhile_cons]
      right
      exact ⟨rfl, p, y, up, e, rfl, ha, hk, rfl⟩

theorem seekFirst_spec {t : Tree K V} (hi : Inv cmp t) (c0 : Cursor K) : Fwd t (seekFirst t c0) (toList t.root) := by
  obtain ⟨h, hb, hone, hsort⟩ := inv_facts hi
  have hgen : seekFirstSetsGen = true := by decide
  unfold seekFirst
  by_cases h0 : t.root.n = 0
  · have := root_empty_of_n_zero hi.wf h0
    simp [seekFirstEmpty, h0, this, Fwd]
  · have hn : 1 ≤ t.root.n := by
      have : 0 ≤ t.root.n := by simp [Node.n]
      omega
    obtain ⟨sp, e, g1, g2, g3, _, g4, g5⟩ := leftmost_spec t.root h hb hn [] rfl trivial
    simp only [seekFirstEmpty, h0, decide_false, Bool.false_eq_true, if_false, hgen, if_true, posAt_eq g3]
    right
    refine ⟨rfl, _, leftmostLeaf t.root, sp ++ [], e, rfl, ⟨g1, rfl, g3⟩, rfl, ?_⟩
    simp only [aftOf]
    rw [g5]; simp [ctxAfter]

theorem valueAt_of_at {t : Tree K V} (hi : Inv cmp t) {p : Pos K} {y : Node K V} {up : List (Node K V × Nat)} {e : K × V}
    (ha : At t.root p y up e) : valueAt t p = some e.2 := by
  obtain ⟨h, hb, hone, _⟩ := inv_facts hi
  have := pathTo_unique p.id t.root up y ha.zip hone ha.idEq
  simp [valueAt, findNode, this, ha.entry]

/-- one `forwardIterator.Next` on an unchanging tree -/
theorem rawNext_fwd {t : Tree K V} (hi : Inv cmp t) {c : Cursor K} {S : List (K × V)} (hf : Fwd t c S) :
    match S with
    | [] => rawNext cmp t true c = (c, none)
    | e :: S' => ∃ c', rawNext cmp t true c = (c', some (e.1, some e.2)) ∧ Fwd t c' S' := by
  rcases hf with ⟨rfl, hp⟩ | ⟨hg, p, y, up, e, hp, ha, hk, rfl⟩
  · simp [rawNext, hp]
  · have hlost := lostAt_of_gen_eq cmp t c hg
    refine ⟨{ c with pos := nextCore t p }, ?_, advance hi hg ha⟩
    simp [rawNext, hp, hlost, cursorNext, valueAt_of_at hi ha, hk]

end Juniper.Proofs.Tree
