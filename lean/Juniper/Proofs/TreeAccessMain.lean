import Juniper.Proofs.TreeAccessFinal
import Juniper.Proofs.TreeAccessTerm
import Juniper.Proofs.TreeOps
/-!
# Access-level model (C01, concurrent clause): the hypotheses of the property, packaged

`goroutines puts reads`: one goroutine per `Put k_j v_j`, then the readers. `ConcHyp`: the `k_j` are
pairwise inequivalent and present, every `Get`/`Contains` key is inequivalent to every `k_j`, every stored key
inside both bounds of a range reader is inequivalent to every `k_j`, node objects are pairwise distinct. `setup_of_hyp` turns this
into the `Setup` the invariant proofs use. `putAll_refines`: the sequential result in terms of the
ideal sorted map. `hasRace_sound`: the executable race check.
-/
namespace Juniper.Proofs.TreeAccess
open Juniper.Gen.Tree Juniper.Model.BTree Juniper.Model.BTreeAccess
open Juniper.Proofs.Tree hiding Op

variable {K V : Type} {cmp : K → K → Int}

def goroutines (puts : List (K × V)) (reads : List (Op K V)) : List (Op K V) :=
  puts.map (fun p => (.put p.1 p.2 : Op K V)) ++ reads

/-- every key stored in some node object of the tree (for a well-formed tree: the keys of `toList`) -/
def storedKeys : Node K V → List K
  | .mk _ kvs kids => kvs.map (·.1) ++ (kids.map storedKeys).flatten

theorem Sub.key_mem {x y : Node K V} (h : Sub x y) {kv : K × V} (hkv : kv ∈ y.kvs) : kv.1 ∈ storedKeys x := by
  induction h with
  | refl x =>
    obtain ⟨id, kvs, kids⟩ := x
    simp only [storedKeys, List.mem_append, List.mem_map]
    exact Or.inl ⟨kv, hkv, rfl⟩
  | @kid x c y hm _ ih =>
    obtain ⟨id, kvs, kids⟩ := x
    simp only [storedKeys, List.mem_append, List.mem_flatten, List.mem_map]
    exact Or.inr ⟨storedKeys c, ⟨c, hm, rfl⟩, ih hkv⟩

structure ConcHyp (cmp : K → K → Int) (t : Tree K V) (puts : List (K × V)) (reads : List (Op K V)) : Prop where
  /-- the comparator is a strict weak order (the documented contract) -/
  sw : StrictWeak cmp
  /-- node objects are pairwise distinct -/
  nodup : (ids t.root).Nodup
  /-- the Puts go to pairwise inequivalent keys … -/
  distinct : puts.Pairwise fun p q => cmp p.1 q.1 ≠ 0
  /-- … that are already present -/
  present : ∀ p ∈ puts, contains cmp t p.1 = true
  /-- the other goroutines only read: `Get`, `Contains`, `Range` / `RangeReverse` / `Iterate` with any number of `Next` calls -/
  readers : ∀ r ∈ reads, r.isPut = false
  /-- a `Get` / `Contains` asks for a key inequivalent to every Put's key -/
  searchKeys : ∀ r ∈ reads, r.isSearch = true → ∀ p ∈ puts, cmp p.1 r.key ≠ 0
  /-- a range reader: every key stored in the tree that lies inside both of its bounds — the far bound is the
  iterator's in-range predicate `inRangeOf`, the near bound what its seek does not step over, `nearOp`; both are `true`
  for an unbounded end — is inequivalent to every Put's key -/
  rangeKeys : ∀ r ∈ reads, r.isSearch = false → ∀ p ∈ puts, ∀ k' ∈ storedKeys t.root,
    inRangeOf cmp r k' = true → nearOp cmp r k' = true → cmp p.1 k' ≠ 0
  /-- a range reader is one that `Range` / `RangeReverse` build (`scanOf`): it seeks in its own direction -/
  rangeWF : ∀ r ∈ reads, r.isSearch = false → ScanWF r
  /-- with range readers present the tree satisfies the tree invariant (balanced, strictly sorted, `Len` = number of
  entries; every tree reachable from the empty one does: `Proofs.Tree.inv_runMuts`) -/
  rangeInv : (∃ r ∈ reads, r.isSearch = false) → Inv cmp t

/-- the near bound as the seek sees it, in the shape of C01's `aboveLo` / `belowHi` -/
theorem near_ge (hc : StrictWeak cmp) (key k : K) : nearOf cmp .ge key k = decide (0 ≤ cmp k key) := by
  have h1 := hc.anti k key
  simp only [nearOf, seekFirstGreaterOrEqualStep]
  by_cases h : cmp key k > 0 <;> by_cases h' : 0 ≤ cmp k key <;> simp [h, h'] <;> omega
theorem near_gt (hc : StrictWeak cmp) (key k : K) : nearOf cmp .gt key k = decide (0 < cmp k key) := by
  have h1 := hc.anti key k
  simp only [nearOf, seekFirstGreaterStep]
  by_cases h : cmp key k ≥ 0 <;> by_cases h' : 0 < cmp k key <;> simp [h, h'] <;> omega
theorem near_le (hc : StrictWeak cmp) (key k : K) : nearOf cmp .le key k = decide (cmp k key ≤ 0) := by
  have h1 := hc.anti key k
  simp only [nearOf, seekLastLessOrEqualStep]
  by_cases h : cmp key k < 0 <;> by_cases h' : cmp k key ≤ 0 <;> simp [h, h'] <;> omega
theorem near_lt (hc : StrictWeak cmp) (key k : K) : nearOf cmp .lt key k = decide (cmp k key < 0) := by
  have h1 := hc.anti k key
  simp only [nearOf, seekLastLessStep]
  by_cases h : cmp key k ≤ 0 <;> by_cases h' : cmp k key < 0 <;> simp [h, h'] <;> omega

/-- **What `Range(lo, hi)` / `RangeReverse(lo, hi)` are as reader operations, in terms of the bounds**: the two regenerated
`switch` tables make them a range reader that seeks in its own direction and whose far bound (the iterator's in-range
predicate) and near bound (what the seek does not step over) together are exactly `aboveLo lo ∧ belowHi hi` — the
interval of C01's ideal `srange`. -/
theorem scanOf_bounds (hc : StrictWeak cmp) (rev : Bool) (lo hi : Bound K) (n : Nat) (hl : lo.kind ≠ none) (hh : hi.kind ≠ none) :
    ∃ r : Op K V, scanOf rev lo hi n = some r ∧ r.isSearch = false ∧ ScanWF r ∧
      (∀ k, (inRangeOf cmp r k && nearOp cmp r k) = (aboveLo cmp lo k && belowHi cmp hi k)) := by
  obtain ⟨lk, hlk⟩ := Option.ne_none_iff_exists'.mp hl
  obtain ⟨hk, hhk⟩ := Option.ne_none_iff_exists'.mp hh
  cases rev <;> cases lk <;> cases hk
  all_goals
    simp only [scanOf, rangeSeek, rangeStop, rrangeSeek, rrangeStop, pickSide, hlk, hhk, Bool.false_eq_true, if_false, if_true]
    refine ⟨_, rfl, rfl, rfl, fun k => ?_⟩
    simp only [inRangeOf, nearOp, near_ge hc, near_gt hc, near_le hc, near_lt hc, evalOp, aboveLo, belowHi, hlk, hhk,
      Bool.and_true, Bool.true_and, ge_iff_le, gt_iff_lt]
    try (first | rfl | exact Bool.and_comm _ _ | (simp [nearOf]))

theorem zip_sub {R : Node K V} : ∀ (up : List (Node K V × Nat)) (y : Node K V), Zip R y up → Sub R y := by
  intro up
  induction up with
  | nil => intro y h; simp only [Zip] at h; subst h; exact .refl _
  | cons f up ih =>
    obtain ⟨p, j⟩ := f
    intro y h
    exact (ih p h.2).snoc (List.mem_of_getElem? h.1)

theorem sub_of_findNode {R y : Node K V} {x : Nat} (h : findNode x R = some y) : Sub R y ∧ y.id = x := by
  unfold findNode at h
  cases hp : pathTo x R with
  | none => rw [hp] at h; cases h
  | some r =>
    obtain ⟨fr, y'⟩ := r
    rw [hp] at h
    simp only [Option.map_some, Option.some.injEq] at h
    subst h
    obtain ⟨hz, hid⟩ := pathTo_spec x R fr y' hp
    exact ⟨zip_sub _ _ hz, hid⟩

theorem goroutines_get {puts : List (K × V)} {reads : List (Op K V)} {i : Nat} {op : Op K V}
    (h : (goroutines puts reads)[i]? = some op) :
    (∃ p, puts[i]? = some p ∧ op = .put p.1 p.2) ∨ (puts.length ≤ i ∧ op ∈ reads) := by
  unfold goroutines at h
  rw [List.getElem?_append] at h
  simp only [List.length_map] at h
  by_cases hi : i < puts.length
  · simp only [hi, if_true, List.getElem?_map] at h
    cases hp : puts[i]? with
    | none => rw [hp] at h; cases h
    | some p => rw [hp] at h; simp only [Option.map_some, Option.some.injEq] at h; exact Or.inl ⟨p, rfl, h.symm⟩
  · simp only [hi, if_false] at h
    exact Or.inr ⟨by omega, List.mem_of_getElem? h⟩

theorem goroutines_put_mem {puts : List (K × V)} {reads : List (Op K V)}
    (hr : ∀ r ∈ reads, r.isPut = false) {i : Nat} {k : K} {v : V}
    (h : (goroutines puts reads)[i]? = some (.put k v)) : puts[i]? = some (k, v) := by
  rcases goroutines_get h with ⟨p, hp, he⟩ | ⟨_, hm⟩
  · cases he; exact hp
  · have := hr _ hm; simp [Op.isPut] at this

theorem goroutines_of_put {puts : List (K × V)} {reads : List (Op K V)} {p : K × V} (hp : p ∈ puts) :
    ∃ j : Nat, (goroutines puts reads)[j]? = some (.put p.1 p.2) := by
  obtain ⟨j, hj, he⟩ := List.getElem_of_mem hp
  refine ⟨j, ?_⟩
  unfold goroutines
  rw [List.getElem?_append_left (by simpa using hj), List.getElem?_map, List.getElem?_eq_getElem hj, he]
  rfl

theorem setup_of_hyp {t : Tree K V} {puts : List (K × V)} {reads : List (Op K V)}
    (h : ConcHyp cmp t puts reads) : Setup cmp t (goroutines puts reads) := by
  have hr : ∀ r ∈ reads, r.isPut = false := h.readers
  refine ⟨h.sw, h.nodup, ?_, ?_, ?_, ?_⟩
  · intro i op ho
    refine ⟨?_⟩
    rintro k v rfl
    have hp := goroutines_put_mem hr ho
    have := h.present (k, v) (List.mem_of_getElem? hp)
    rw [slotOf_isSome]; exact this
  · intro i j hij k v o hoi hoj hsr
    have hpi := goroutines_put_mem hr hoi
    obtain ⟨hli, hvi⟩ := List.getElem?_eq_some_iff.mp hpi
    rcases goroutines_get hoj with ⟨q, hq, rfl⟩ | ⟨_, hm⟩
    · obtain ⟨hlj, hvj⟩ := List.getElem?_eq_some_iff.mp hq
      have hpw := List.pairwise_iff_getElem.mp h.distinct
      simp only [Op.key]
      rcases Nat.lt_or_gt_of_ne hij with hlt | hgt
      · have := hpw i j hli hlj hlt
        rw [hvi, hvj] at this; exact this
      · have := hpw j i hlj hli hgt
        rw [hvi, hvj] at this
        exact fun e => this (h.sw.eq_symm e)
    · exact h.searchKeys o hm hsr (k, v) (List.mem_of_getElem? hpi)
  · intro i j hij k v o hoi hoj hns y hy idx hlt hin hnear
    have hpi := goroutines_put_mem hr hoi
    rcases goroutines_get hoj with ⟨q, hq, rfl⟩ | ⟨_, hm⟩
    · simp [Op.isSearch] at hns
    · exact h.rangeKeys o hm hns (k, v) (List.mem_of_getElem? hpi) _ (hy.key_mem (List.getElem_mem hlt)) hin hnear
  · intro i op ho hns
    rcases goroutines_get ho with ⟨q, hq, rfl⟩ | ⟨_, hm⟩
    · simp [Op.isSearch] at hns
    · exact ⟨h.rangeWF op hm hns, h.rangeInv ⟨op, hm, hns⟩⟩

/-- the sequential result is the ideal sorted map's: `sput` for every Put, in the order given -/
theorem putAll_refines (hc : StrictWeak cmp) : ∀ (ps : List (K × V)) (t t' : Tree K V), WF cmp t →
    putAll cmp t ps = some t' →
      WF cmp t' ∧ toList t'.root = ps.foldl (fun l p => sput cmp p.1 p.2 l) (toList t.root) := by
  intro ps
  induction ps with
  | nil => intro t t' hw h; simp only [putAll, Option.some.injEq] at h; subst h; exact ⟨hw, rfl⟩
  | cons p ps ih =>
    intro t t' hw h
    obtain ⟨t1, h1, hw1, hl1⟩ := put_refines_wf hc t p.1 p.2 hw
    simp only [putAll, h1, Option.bind_some] at h
    obtain ⟨hw', hl'⟩ := ih t1 t' hw1 h
    exact ⟨hw', by rw [hl', hl1]; rfl⟩

theorem hasRace_sound {c : Config K V} (h : hasRace c = true) : Race c := by
  unfold hasRace at h
  simp only [List.any_eq_true, List.mem_range, Bool.and_eq_true, Bool.not_eq_true', beq_eq_false_iff_ne, ne_eq] at h
  obtain ⟨i, _, j, _, hij, hm⟩ := h
  cases ha : (c.pcs[i]?).bind accessOf with
  | none => rw [ha] at hm; cases hm
  | some a =>
    cases hb : (c.pcs[j]?).bind accessOf with
    | none => rw [ha, hb] at hm; cases hm
    | some b =>
      rw [ha, hb] at hm
      exact ⟨i, j, a, b, hij, ha, hb, hm⟩

end Juniper.Proofs.TreeAccess
