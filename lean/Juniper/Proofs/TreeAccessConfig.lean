import Juniper.Proofs.TreeAccessThread
import Juniper.Proofs.TreeAccessScan
/-!
# Access-level model (C01, concurrent clause): all interleavings

`Setup`: the hypotheses of the concurrent clause (every `Put`'s key is present; every other
goroutine's key is inequivalent to every `Put`'s key; node objects are pairwise distinct).
`CInv`: the invariant of every reachable configuration — the skeleton of `t` is still in memory, every
goroutine is on its descent, a value slot holds the new value iff its `Put` has returned and the old
one otherwise. `cinv_step` / `reach_inv`; `no_race`; `terminal_results`.
-/
namespace Juniper.Proofs.TreeAccess
open Juniper.Gen.Tree Juniper.Model.BTree Juniper.Model.BTreeAccess Juniper.Proofs.Tree

variable {K V : Type} {cmp : K → K → Int}

structure Setup (cmp : K → K → Int) (t : Tree K V) (ops : List (Op K V)) : Prop where
  sw : StrictWeak cmp
  nodup : (ids t.root).Nodup
  ok : ∀ (i : Nat) op, ops[i]? = some op → OpOK cmp t op
  /-- a `Put`'s key is inequivalent to the key of every other `Put` / `Get` / `Contains` … -/
  compat : ∀ (i j : Nat), i ≠ j → ∀ k v o, ops[i]? = some (.put k v) → ops[j]? = some o → o.isSearch = true →
    cmp k o.key ≠ 0
  /-- … and to every stored key inside both bounds of a range reader -/
  compatScan : ∀ (i j : Nat), i ≠ j → ∀ k v o, ops[i]? = some (.put k v) → ops[j]? = some o → o.isSearch = false →
    ∀ y, Sub t.root y → ∀ idx (h : idx < y.kvs.length), inRangeOf cmp o y.kvs[idx].1 = true →
      nearOp cmp o y.kvs[idx].1 = true → cmp k y.kvs[idx].1 ≠ 0
  /-- a range reader is one of `Range`'s / `RangeReverse`'s, on a tree satisfying the tree invariant (balanced, sorted,
  distinct node objects) -/
  scanOK : ∀ (i : Nat) op, ops[i]? = some op → op.isSearch = false → ScanWF op ∧ Inv cmp t

structure CInv (cmp : K → K → Int) (t : Tree K V) (ops : List (Op K V)) (c : Config K V) : Prop where
  len : c.pcs.length = ops.length
  size : c.mem.size = t.size
  gen : c.mem.gen = t.gen
  frozen : Frozen c.mem t
  good : ∀ (i : Nat) op pc, ops[i]? = some op → c.pcs[i]? = some pc → Good cmp t op pc
  written : ∀ (j : Nat) k v pc, ops[j]? = some (.put k v) → c.pcs[j]? = some pc → pc.isDone = true →
    ∀ x i, slotOf cmp k t.root = some (x, i) → c.mem.val x i = some v
  untouched : ∀ y, Sub t.root y → ∀ i (h : i < y.kvs.length),
    (∀ (j : Nat) k v pc, ops[j]? = some (.put k v) → c.pcs[j]? = some pc → slotOf cmp k t.root = some (y.id, i) →
      pc.isDone = false) → c.mem.val y.id i = some y.kvs[i].2
  /-- parent pointers and the zero key slots behind the live prefixes are still those of `t` -/
  aux : AuxRep c.mem t
  /-- every range reader follows the functional cursor (`ScanInv`) -/
  scan : ∀ (i : Nat) op pc, ops[i]? = some op → c.pcs[i]? = some pc → ScanGood cmp t op pc

/-- two different goroutines never approach the same value slot if one of them is a `Put` -/
theorem valpos_disjoint {t : Tree K V} {ops : List (Op K V)} (hs : Setup cmp t ops) {j j0 : Nat} (hjne : j ≠ j0) {k : K} {v : V}
    {op : Op K V} (hoj : ops[j]? = some (.put k v)) (hop : ops[j0]? = some op) {x i : Nat}
    (hvp : ValPos cmp t.root k x i) (hsk : SlotKey cmp t op x i)
    (hnear : op.isSearch = false → ∀ y, Sub t.root y → y.id = x → ∀ h : i < y.kvs.length, nearOp cmp op y.kvs[i].1 = true) :
    False := by
  rcases hsk with ⟨hsr, hvp'⟩ | ⟨hns, hin⟩
  · exact hs.compat j j0 hjne k v op hoj hop hsr (valPos_inj hs.sw hs.nodup hvp hvp')
  · obtain ⟨y, hy, hid, hi, he⟩ := hvp
    exact hs.compatScan j j0 hjne k v op hoj hop hns y hy i hi (hin y hy hid hi) (hnear hns y hy hid hi) he

theorem slot_disjoint {t : Tree K V} {ops : List (Op K V)} (hs : Setup cmp t ops) {j j0 : Nat} (hjne : j ≠ j0) {k : K} {v : V}
    {op : Op K V} (hoj : ops[j]? = some (.put k v)) (hop : ops[j0]? = some op) {x i : Nat}
    (hsl : slotOf cmp k t.root = some (x, i)) (hsk : SlotKey cmp t op x i)
    (hnear : op.isSearch = false → ∀ y, Sub t.root y → y.id = x → ∀ h : i < y.kvs.length, nearOp cmp op y.kvs[i].1 = true) :
    False :=
  valpos_disjoint hs hjne hoj hop (valPos_of_slot hsl) hsk hnear

/-- the value slot a range reader is about to read holds a key inside its near bound -/
theorem near_at_val {t : Tree K V} {ops : List (Op K V)} (hs : Setup cmp t ops) {c : Config K V} (hi : CInv cmp t ops c)
    {j : Nat} {op : Op K V} {pc : PC K V} (ho : ops[j]? = some op) (hp : c.pcs[j]? = some pc) {x i : Nat} {w : Bool}
    (ha : accessOf pc = some ⟨.node x (.val i), w⟩) :
    op.isSearch = false → ∀ y, Sub t.root y → y.id = x → ∀ h : i < y.kvs.length, nearOp cmp op y.kvs[i].1 = true := by
  intro hns y hy hid hlt
  have hg := hi.good j op pc ho hp
  have hsc := hi.scan j op pc ho hp
  obtain ⟨_, hinv⟩ := hs.scanOK j op ho hns
  cases pc with
  | it ph st =>
    cases ph with
    | nVal =>
      simp only [accessOf, itAccess] at ha
      cases hx : st.curr with
      | none => rw [hx] at ha; cases ha
      | some x' =>
        rw [hx] at ha
        simp only [rd, Option.some.injEq, Access.mk.injEq, Loc.node.injEq, Field.val.injEq] at ha
        obtain ⟨⟨rfl, rfl⟩, _⟩ := ha
        exact scanGood_near hinv hsc hx ⟨hy, hid⟩ hlt
    | _ => simp [accessOf, itAccess, rd] at ha
  | done r => simp [accessOf] at ha
  | run ops' cont rg r =>
    rcases hg with ⟨hsr, _, _⟩ | ⟨x', _, _, _, ⟨k, rfl, _⟩ | ⟨k, v, rfl, _, _⟩⟩
    · rw [hns] at hsr; cases hsr
    · cases hns
    · cases hns
  | test x' i' => obtain ⟨hsr, _⟩ := hg; rw [hns] at hsr; cases hsr
  | key x' i' => obtain ⟨hsr, _⟩ := hg; rw [hns] at hsr; cases hsr
  | retn x' => obtain ⟨hsr, _⟩ := hg; rw [hns] at hsr; cases hsr
  | leaf x' idx => obtain ⟨hp', _⟩ := hg; rw [Op.isPut_of_not_search hns] at hp'; cases hp'
  | child x' idx => obtain ⟨hsr, _⟩ := hg; rw [hns] at hsr; cases hsr
  | full x' => exact hg.elim
  | itest x' j' => exact hg.elim
  | ikey x' j' => exact hg.elim

theorem cinv_initial {t : Tree K V} {ops : List (Op K V)} (hs : Setup cmp t ops) {m : Mem K V} (hr : Rep m t)
    (hx : AuxRep m t) : CInv cmp t ops (initial m ops) := by
  obtain ⟨h1, h2, h3, h4⟩ := hr
  have hpc : ∀ (i : Nat) pc, (initial m ops).pcs[i]? = some pc → ∃ op, ops[i]? = some op ∧ pc = start op := by
    intro i pc h
    simp only [initial, List.getElem?_map] at h
    cases ho : ops[i]? with
    | none => rw [ho] at h; cases h
    | some op => rw [ho] at h; simp only [Option.map_some, Option.some.injEq] at h; exact ⟨op, rfl, h.symm⟩
  refine ⟨by simp [initial], h2, h3, ⟨h1, fun y hy => (h4 y hy).1⟩, ?_, ?_, ?_, hx, ?_⟩
  · intro i op pc ho hp
    obtain ⟨op', ho', rfl⟩ := hpc i pc hp
    rw [ho] at ho'; cases ho'
    exact good_start t op
  · intro j k v pc ho hp hd
    obtain ⟨op', _, rfl⟩ := hpc j pc hp
    rw [start_not_done] at hd; cases hd
  · intro y hy i hi _
    exact (h4 y hy).2 i hi
  · intro i op pc ho hp
    obtain ⟨op', ho', rfl⟩ := hpc i pc hp
    rw [ho] at ho'; cases ho'
    refine scanGood_start op ?_ _ (fun fwd sk skey stop limit h => by rw [h, start_scan])
    cases hsr : op.isSearch with
    | false => exact (hs.scanOK i op ho hsr).1
    | true => cases op <;> first | trivial | simp [Op.isSearch] at hsr

theorem nodeS_setVal {m : Mem K V} {y : Node K V} (a i : Nat) (v : Option V) (h : NodeS m y) :
    NodeS (m.setVal a i v) y := ⟨h.1, h.2.1, h.2.2⟩

theorem setVal_val (m : Mem K V) (a i : Nat) (v : Option V) (b j : Nat) :
    (m.setVal a i v).val b j = if b = a ∧ j = i then v else m.val b j := rfl

theorem cinv_step {t : Tree K V} {ops : List (Op K V)} (hs : Setup cmp t ops) {c c' : Config K V} {j0 : Nat}
    (hi : CInv cmp t ops c) (hstep : stepAt cmp ops c j0 = some c') : CInv cmp t ops c' := by
  unfold stepAt at hstep
  cases hop : ops[j0]? with
  | none => simp [hop] at hstep
  | some op =>
  cases hpc : c.pcs[j0]? with
  | none => simp [hop, hpc] at hstep
  | some pc =>
  simp only [hop, hpc] at hstep
  by_cases hdone : pc.isDone = true
  · simp [hdone] at hstep
  have hnd : pc.isDone = false := by simpa using hdone
  simp only [hnd, Bool.false_eq_true, if_false, Option.some.injEq] at hstep
  subst hstep
  have hj0 : j0 < c.pcs.length := (List.getElem?_eq_some_iff.mp hpc).1
  have hg := hi.good j0 op pc hop hpc
  have hok := hs.ok j0 op hop
  -- program counters after the step
  have hself : ∀ pc', (c.pcs.set j0 pc')[j0]? = some pc' := fun pc' => List.getElem?_set_self hj0
  have hne : ∀ pc' j, j ≠ j0 → (c.pcs.set j0 pc')[j]? = c.pcs[j]? := fun pc' j h => List.getElem?_set_ne (Ne.symm h)
  -- two different goroutines never own the same value slot if one of them is a Put
  have hdisj : ∀ (j : Nat) k v (o : Op K V) x i, j ≠ j0 → ops[j]? = some (.put k v) → slotOf cmp k t.root = some (x, i) →
      SlotKey cmp t op x i →
      (op.isSearch = false → ∀ y, Sub t.root y → y.id = x → ∀ h : i < y.kvs.length, nearOp cmp op y.kvs[i].1 = true) → False := by
    intro j k v o x i hjne hoj hsl hvp hnear
    exact slot_disjoint hs hjne hoj hop hsl hvp hnear
  have haux : ∀ x i v, AuxRep (c.mem.setVal x i v) t := fun x i v => hi.aux
  have hmemok : MemOK c.mem t := ⟨hi.frozen.root, hi.gen, hi.frozen.struct, hi.aux⟩
  by_cases hw : ∃ l, accessOf pc = some ⟨l, true⟩
  · -- the write of a Put
    obtain ⟨l, hl⟩ := hw
    obtain ⟨k, v, x, iw, rfl, rfl, hslot, hnext⟩ := write_step hg c.mem hl
    simp only [hnext]
    refine ⟨by simpa using hi.len, hi.size, hi.gen, ⟨hi.frozen.root, fun y hy => nodeS_setVal _ _ _ (hi.frozen.struct y hy)⟩,
      ?_, ?_, ?_, haux _ _ _, ?_⟩
    rotate_left 3
    · intro i op' pc' ho hp
      by_cases hij : i = j0
      · subst hij
        rw [hself] at hp; cases hp
        rw [hop] at ho; cases ho
        exact scanGood_of_search (by intro a b c d e h; cases h) _
      · rw [hne _ i hij] at hp
        exact hi.scan i op' pc' ho hp
    · intro i op' pc' ho hp
      by_cases hij : i = j0
      · subst hij
        rw [hself] at hp; cases hp
        rw [hop] at ho; cases ho
        intro _; rfl
      · rw [hne _ i hij] at hp
        exact hi.good i op' pc' ho hp
    · intro j k' v' pc' ho hp hd x' i' hsl
      rw [setVal_val]
      by_cases hij : j = j0
      · subst hij
        rw [hop] at ho; cases ho
        rw [hslot] at hsl; cases hsl
        simp
      · rw [hne _ j hij] at hp
        have hold := hi.written j k' v' pc' ho hp hd x' i' hsl
        have : ¬ (x' = x ∧ i' = iw) := by
          rintro ⟨rfl, rfl⟩
          exact hdisj j k' v' (.put k v) x' i' hij ho hsl (Or.inl ⟨rfl, valPos_of_slot hslot⟩)
            (fun h => by simp [Op.isSearch] at h)
        simp only [this, if_false]
        exact hold
    · intro y hy i hlt hprem
      rw [setVal_val]
      by_cases hpos : y.id = x ∧ i = iw
      · obtain ⟨rfl, rfl⟩ := hpos
        have := hprem j0 k v _ hop (hself _) hslot
        simp [PC.isDone] at this
      · simp only [hpos, if_false]
        apply hi.untouched y hy i hlt
        intro j k' v' pc' ho hp hsl
        by_cases hij : j = j0
        · subst hij; rw [hpc] at hp; cases hp; exact hnd
        · exact hprem j k' v' pc' ho (by rw [hne _ j hij]; exact hp) hsl
  · -- a read (or a silent step)
    have hr : ∀ a, accessOf pc = some a → a.write = false := by
      intro a ha
      cases hwb : a.write with
      | false => rfl
      | true => exact absurd ⟨a.loc, by rw [ha]; cases a; simp_all⟩ hw
    have hmem := read_step_mem hg c.mem hr
    have hv : ReadsOriginal c.mem t pc := by
      intro a i ha y hy hid hlt
      subst hid
      apply hi.untouched y hy i hlt
      intro j k' v' pc' ho hp hsl
      rcases access_class hok hg ha with ⟨_, hno⟩ | ⟨x', i', hloc, hvp, hwr⟩
      · exact absurd rfl (hno y.id i)
      · simp only [Loc.node.injEq, Field.val.injEq] at hloc
        obtain ⟨rfl, rfl⟩ := hloc
        by_cases hij : j = j0
        · subst hij
          rw [hop] at ho; cases ho
          simp [Op.isPut] at hwr
        · exact (hdisj j k' v' op y.id i hij ho hsl hvp (near_at_val hs hi hop hpc ha)).elim
    have hg' := good_next hs.nodup hok hi.frozen hg hv
    refine ⟨by simpa using hi.len, by rw [hmem]; exact hi.size, by rw [hmem]; exact hi.gen,
      by rw [hmem]; exact hi.frozen, ?_, ?_, ?_, by rw [hmem]; exact hi.aux, ?_⟩
    rotate_left 3
    · intro i op' pc' ho hp
      by_cases hij : i = j0
      · subst hij
        rw [hself] at hp; cases hp
        rw [hop] at ho; cases ho
        cases hsr : op.isSearch with
        | true => exact scanGood_of_search (by intro a b c d e h; rw [h] at hsr; simp [Op.isSearch] at hsr) _
        | false =>
          cases pc with
          | it ph st => exact scanGood_next hs.sw hmemok (fun _ _ _ _ _ _ => (hs.scanOK i op hop hsr).2) (hi.scan i op _ hop hpc)
          | done r => simp [PC.isDone] at hnd
          | run ops' cont rg r =>
            rcases hg with ⟨hsr', _, _⟩ | ⟨x', _, _, _, ⟨k, rfl, _⟩ | ⟨k, v, rfl, _, _⟩⟩
            · rw [hsr] at hsr'; cases hsr'
            · cases hsr
            · cases hsr
          | test x' i' => obtain ⟨hsr', _⟩ := hg; rw [hsr] at hsr'; cases hsr'
          | key x' i' => obtain ⟨hsr', _⟩ := hg; rw [hsr] at hsr'; cases hsr'
          | retn x' => obtain ⟨hsr', _⟩ := hg; rw [hsr] at hsr'; cases hsr'
          | leaf x' idx => obtain ⟨hp', _⟩ := hg; rw [Op.isPut_of_not_search hsr] at hp'; cases hp'
          | child x' idx => obtain ⟨hsr', _⟩ := hg; rw [hsr] at hsr'; cases hsr'
          | full x' => exact hg.elim
          | itest x' j' => exact hg.elim
          | ikey x' j' => exact hg.elim
      · rw [hne _ i hij] at hp
        exact hi.scan i op' pc' ho hp
    · intro i op' pc' ho hp
      by_cases hij : i = j0
      · subst hij
        rw [hself] at hp; cases hp
        rw [hop] at ho; cases ho
        exact hg'
      · rw [hne _ i hij] at hp
        exact hi.good i op' pc' ho hp
    · intro j k' v' pc' ho hp hd x' i' hsl
      simp only [hmem]
      by_cases hij : j = j0
      · subst hij
        rw [hself] at hp; cases hp
        rw [hop] at ho; cases ho
        have := put_not_done hok hi.frozen hg hnd hr
        rw [this] at hd; cases hd
      · rw [hne _ j hij] at hp
        exact hi.written j k' v' pc' ho hp hd x' i' hsl
    · intro y hy i hlt hprem
      simp only [hmem]
      apply hi.untouched y hy i hlt
      intro j k' v' pc' ho hp hsl
      by_cases hij : j = j0
      · subst hij; rw [hpc] at hp; cases hp; exact hnd
      · exact hprem j k' v' pc' ho (by rw [hne _ j hij]; exact hp) hsl

theorem reach_inv {t : Tree K V} {ops : List (Op K V)} (hs : Setup cmp t ops) {m : Mem K V} (hr : Rep m t)
    (hx : AuxRep m t) {c : Config K V} (h : Reach cmp ops (initial m ops) c) : CInv cmp t ops c := by
  induction h with
  | refl => exact cinv_initial hs hr hx
  | step _ hst ih => exact cinv_step hs ih hst

/-- no reachable configuration has a data race -/
theorem cinv_no_race {t : Tree K V} {ops : List (Op K V)} (hs : Setup cmp t ops) {c : Config K V}
    (hi : CInv cmp t ops c) : ¬ Race c := by
  rintro ⟨i, j, a, b, hij, ha, hb, hconf⟩
  -- symmetric core: if `a` (goroutine `i`) writes, contradiction
  have core : ∀ (i j : Nat) (a b : Access), i ≠ j → (c.pcs[i]?).bind accessOf = some a → (c.pcs[j]?).bind accessOf = some b →
      a.loc = b.loc → a.write = true → False := by
    intro i j a b hij ha hb hloc hwa
    cases hpi : c.pcs[i]? with
    | none => simp [hpi] at ha
    | some pci =>
    cases hpj : c.pcs[j]? with
    | none => simp [hpj] at hb
    | some pcj =>
    rw [hpi] at ha; rw [hpj] at hb
    simp only [Option.bind_some] at ha hb
    have hli : i < ops.length := by rw [← hi.len]; exact (List.getElem?_eq_some_iff.mp hpi).1
    have hlj : j < ops.length := by rw [← hi.len]; exact (List.getElem?_eq_some_iff.mp hpj).1
    have hoi : ops[i]? = some ops[i] := List.getElem?_eq_getElem hli
    have hoj : ops[j]? = some ops[j] := List.getElem?_eq_getElem hlj
    have hgi := hi.good i _ pci hoi hpi
    have hgj := hi.good j _ pcj hoj hpj
    rcases access_class (hs.ok i _ hoi) hgi ha with ⟨hna, _⟩ | ⟨x, iw, hla, hvpa, hwra⟩
    · rw [hna] at hwa; cases hwa
    · rcases access_class (hs.ok j _ hoj) hgj hb with ⟨_, hno⟩ | ⟨x', iw', hlb, hvpb, _⟩
      · exact hno x iw (by rw [← hloc, hla])
      · rw [hla, hlb] at hloc
        simp only [Loc.node.injEq, Field.val.injEq] at hloc
        obtain ⟨rfl, rfl⟩ := hloc
        rw [hwa] at hwra
        cases hopi : ops[i] with
        | get k => rw [hopi] at hwra; simp [Op.isPut] at hwra
        | contains k => rw [hopi] at hwra; simp [Op.isPut] at hwra
        | scan fwd sk skey stop limit => rw [hopi] at hwra; simp [Op.isPut] at hwra
        | put k v =>
          rw [hopi] at hvpa hoi
          rcases hvpa with ⟨_, hvp⟩ | ⟨hns, _⟩
          · exact valpos_disjoint hs hij hoi hoj hvp hvpb (near_at_val hs hi hoj hpj (w := b.write) (by
              rw [hb]; cases b; simp_all))
          · simp [Op.isSearch] at hns
  simp only [conflict, Bool.and_eq_true, decide_eq_true_eq, Bool.or_eq_true] at hconf
  obtain ⟨hloc, hwa | hwb⟩ := hconf
  · exact core i j a b hij ha hb hloc hwa
  · exact core j i b a (Ne.symm hij) hb ha hloc.symm hwb

/-- in a configuration where nobody can move, every `Put` / `Get` / `Contains` has returned what the operation
returns when run alone on `t` -/
theorem terminal_results {t : Tree K V} {ops : List (Op K V)} {c : Config K V} (hi : CInv cmp t ops c)
    (ht : Terminal cmp ops c) : ∀ (i : Nat) op, ops[i]? = some op → op.isSearch = true →
      c.pcs[i]? = some (PC.done (expected cmp t op)) := by
  intro i op ho hsr
  have hli : i < c.pcs.length := by rw [hi.len]; exact (List.getElem?_eq_some_iff.mp ho).1
  have hp : c.pcs[i]? = some c.pcs[i] := List.getElem?_eq_getElem hli
  have := ht i
  unfold stepAt at this
  simp only [ho, hp] at this
  have hg := hi.good i op _ ho hp
  cases hpc : c.pcs[i] with
  | done r =>
    rw [hpc] at hg
    rw [hp, hpc]
    simp only [Good] at hg
    rw [hg hsr]
  | it ph st =>
    rw [hpc] at hg
    obtain ⟨hns, _⟩ := hg
    rw [hsr] at hns; cases hns
  | _ => rw [hpc] at this; simp [PC.isDone] at this

end Juniper.Proofs.TreeAccess
