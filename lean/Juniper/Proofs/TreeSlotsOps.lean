import Juniper.Model.BTreeSlotsOps
/-!
# Slot-level lemmas (C03 "no retained garbage"): the array primitives

`Rep a cap l`: the fixed array `a` has `cap` slots, its live prefix holds exactly the elements of `l`
(all non-zero) and every slot behind the live prefix is zero. Each primitive of
`Model/BTreeSlotsOps.lean` is shown to map `Rep` to `Rep` of the corresponding list operation.
-/
namespace Juniper.Proofs.TreeSlotsOps
open Juniper.Model.BTreeSlotsOps Juniper.Gen

variable {α : Type}

/-- live prefix = `l`, tail all `none`, `cap` slots in total -/
def Rep (a : Slots α) (cap : Nat) (l : List α) : Prop :=
  a = l.map some ++ List.replicate (cap - l.length) none ∧ l.length ≤ cap

theorem Rep.length {a : Slots α} {cap l} (h : Rep a cap l) : a.length = cap := by
  obtain ⟨rfl, hl⟩ := h
  simp; omega

theorem rep_mk {l : List α} {cap k : Nat} (hk : k = cap - l.length) (h : l.length ≤ cap) :
    Rep (l.map some ++ List.replicate k none) cap l := ⟨by rw [hk], h⟩

theorem rep_nil (cap : Nat) : Rep (List.replicate cap (none : Option α)) cap [] := ⟨by simp, by simp⟩

theorem take_live {l : List α} {r : Slots α} {i : Nat} (h : i ≤ l.length) :
    (l.map some ++ r).take i = (l.take i).map some := by
  rw [List.take_append, List.map_take]
  have : i - l.length = 0 := by omega
  simp [this]

theorem drop_live {l : List α} {r : Slots α} {i : Nat} (h : i ≤ l.length) :
    (l.map some ++ r).drop i = (l.drop i).map some ++ r := by
  rw [List.drop_append, List.map_drop]
  have : i - l.length = 0 := by omega
  simp [this]

theorem take_dead {l : List α} {r : Slots α} {i : Nat} (h : l.length ≤ i) :
    (l.map some ++ r).take i = l.map some ++ r.take (i - l.length) := by
  rw [List.take_append, List.take_of_length_le (by simpa using h)]; simp

theorem drop_dead {l : List α} {r : Slots α} {i : Nat} (h : l.length ≤ i) :
    (l.map some ++ r).drop i = r.drop (i - l.length) := by
  rw [List.drop_append, List.drop_eq_nil_of_le (by simpa using h)]; simp

theorem Rep.take {a : Slots α} {cap l} (h : Rep a cap l) : a.take l.length = l.map some := by
  obtain ⟨rfl, _⟩ := h
  rw [take_live (Nat.le_refl _)]; simp

theorem Rep.get_tail {a : Slots α} {cap l} (h : Rep a cap l) {i : Nat} (h1 : l.length ≤ i) (h2 : i < cap) :
    a[i]? = some none := by
  obtain ⟨rfl, hl⟩ := h
  rw [List.getElem?_append_right (by simpa using h1)]
  simp [List.getElem?_replicate]; omega

theorem Rep.get_live {a : Slots α} {cap l} (h : Rep a cap l) {i : Nat} (h1 : i < l.length) :
    a[i]? = some (some l[i]) := by
  obtain ⟨rfl, hl⟩ := h
  rw [List.getElem?_append_left (by simpa using h1)]
  simp [h1]

/-- a represented array is determined by its live prefix -/
theorem Rep.unique {a : Slots α} {cap l l'} (h : Rep a cap l) (h' : Rep a cap l') : l = l' := by
  obtain ⟨e, hl⟩ := h
  obtain ⟨e', hl'⟩ := h'
  rcases Nat.lt_trichotomy l.length l'.length with hlt | heq | hgt
  · have h1 : a[l.length]? = some none := by
      rw [e, List.getElem?_append_right (by simp)]; simp [List.getElem?_replicate]; omega
    have h2 : a[l.length]? = some (some l'[l.length]) := by
      rw [e', List.getElem?_append_left (by simpa using hlt)]; simp [hlt]
    rw [h1] at h2; simp at h2
  · rw [e'] at e
    have := List.append_inj_left e (by simp [heq])
    exact (List.map_inj_right (by intro x y hxy; exact Option.some.inj hxy)).mp this.symm
  · have h1 : a[l'.length]? = some none := by
      rw [e', List.getElem?_append_right (by simp)]; simp [List.getElem?_replicate]; omega
    have h2 : a[l'.length]? = some (some l[l'.length]) := by
      rw [e, List.getElem?_append_left (by simpa using hgt)]; simp [hgt]
    rw [h1] at h2; simp at h2

/-! ## `a[i] = x` -/

theorem setSlot_eq {a : Slots α} {i : Nat} (h : i < a.length) (x : Option α) :
    setSlot a i x = some (a.take i ++ x :: a.drop (i + 1)) := by
  simp [setSlot, h]

/-- writing right behind the live prefix appends -/
theorem rep_setSlot_append {a : Slots α} {cap l} (h : Rep a cap l) (hl : l.length < cap) (x : α) :
    ∃ a', setSlot a l.length (some x) = some a' ∧ Rep a' cap (l ++ [x]) := by
  refine ⟨_, setSlot_eq (by rw [h.length]; exact hl) _, ?_, ?_⟩
  · obtain ⟨rfl, _⟩ := h
    rw [take_live (Nat.le_refl _), drop_dead (by omega), List.drop_replicate]
    simp
    omega
  · simp; omega

/-- overwriting a live slot -/
theorem rep_setSlot_replace {a : Slots α} {cap l} (h : Rep a cap l) {i : Nat} (hi : i < l.length) (x : α) :
    ∃ a', setSlot a i (some x) = some a' ∧ Rep a' cap (l.take i ++ x :: l.drop (i + 1)) := by
  have hc := h.2
  refine ⟨_, setSlot_eq (by rw [h.length]; omega) _, ?_, ?_⟩
  · obtain ⟨rfl, _⟩ := h
    rw [take_live (by omega), drop_live (by omega)]
    simp
    congr 1; omega
  · simp; omega

/-- zeroing the last live slot -/
theorem rep_setSlot_clearLast {a : Slots α} {cap l} (h : Rep a cap l) (hl : 0 < l.length) :
    ∃ a', setSlot a (l.length - 1) none = some a' ∧ Rep a' cap l.dropLast := by
  have hc := h.2
  refine ⟨_, setSlot_eq (by rw [h.length]; omega) _, ?_, ?_⟩
  · obtain ⟨rfl, _⟩ := h
    rw [take_live (by omega), drop_dead (by omega), List.drop_replicate, List.dropLast_eq_take]
    have : cap - (l.take (l.length - 1)).length = (cap - l.length - (l.length - 1 + 1 - l.length)) + 1 := by simp; omega
    rw [this, List.replicate_succ]
  · simp; omega

/-- writing zero into a dead slot changes nothing -/
theorem rep_setSlot_dead {a : Slots α} {cap l} (h : Rep a cap l) {i : Nat} (h1 : l.length ≤ i) (h2 : i < cap) :
    setSlot a i none = some a := by
  rw [setSlot_eq (by rw [h.length]; exact h2)]
  obtain ⟨rfl, _⟩ := h
  rw [take_dead h1, drop_dead (by omega), List.take_replicate, List.drop_replicate]
  simp
  rw [show (none : Option α) :: List.replicate (cap - l.length - (i + 1 - l.length)) none
        = List.replicate (cap - l.length - (i + 1 - l.length) + 1) none from (List.replicate_succ).symm,
      List.replicate_append_replicate]
  congr 1; omega

/-! ## `copy` -/

theorem copySlots_eq {dst src : Slots α} {dlo dhi slo shi : Nat}
    (h1 : dlo ≤ dhi) (h2 : dhi ≤ dst.length) (h3 : slo ≤ shi) (h4 : shi ≤ src.length) :
    copySlots dst dlo dhi src slo shi =
      some (dst.take dlo ++ (src.drop slo).take (min (dhi - dlo) (shi - slo)) ++ dst.drop (dlo + min (dhi - dlo) (shi - slo))) := by
  simp [copySlots, h1, h2, h3, h4]

/-- `copy(dst[len l:], src[:len r])`: the live prefix of `src` is appended to that of `dst` -/
theorem rep_copy_append {dst src : Slots α} {cap cap' l r} (hd : Rep dst cap l) (hs : Rep src cap' r)
    (hfit : l.length + r.length ≤ cap) :
    ∃ a', copySlots dst l.length dst.length src 0 r.length = some a' ∧ Rep a' cap (l ++ r) := by
  have hdl := hd.length
  have hsl := hs.length
  have hrc := hs.2
  refine ⟨_, copySlots_eq (by omega) (Nat.le_refl _) (Nat.zero_le _) (by omega), ?_, ?_⟩
  · obtain ⟨rfl, _⟩ := hd
    obtain ⟨rfl, _⟩ := hs
    have hm : min (cap - l.length) (r.length - 0) = r.length := by omega
    simp only [hdl, hm, List.drop_zero]
    rw [take_live (Nat.le_refl _), take_live (Nat.le_refl _), drop_dead (by omega), List.drop_replicate]
    simp
    omega
  · simp; omega

/-- copying zeros onto zeros changes nothing (the child arrays of two leaves in `mergeTwo`) -/
theorem rep_copy_dead {dst src : Slots α} {cap cap' l} (hd : Rep dst cap l) (hs : Rep src cap' [])
    {dlo cnt : Nat} (h1 : l.length ≤ dlo) (h2 : dlo + cnt ≤ cap) (h3 : cnt ≤ cap') :
    copySlots dst dlo dst.length src 0 cnt = some dst := by
  have hdl := hd.length
  have hsl := hs.length
  rw [copySlots_eq (by omega) (Nat.le_refl _) (Nat.zero_le _) (by omega)]
  obtain ⟨rfl, _⟩ := hd
  obtain ⟨rfl, _⟩ := hs
  have hm : min (cap - dlo) (cnt - 0) = cnt := by omega
  simp only [hdl, hm, List.drop_zero]
  rw [take_dead h1, drop_dead (by omega)]
  simp [List.take_replicate, List.drop_replicate]
  omega


@[simp] theorem toIdx_natCast (n : Nat) : toIdx (n : Int) = some n := by simp [toIdx]

theorem toIdx_eq {i : Int} {n : Nat} (h : i = (n : Int)) : toIdx i = some n := by subst h; simp

theorem insertOne_eq {a : Slots α} {hi idx : Nat} (h1 : idx < hi) (h2 : hi ≤ a.length) (x : Option α) :
    insertOne a hi (idx : Int) x = some (a.take idx ++ x :: (a.drop idx).take (hi - idx - 1) ++ a.drop hi) := by
  have e1 : toIdx (TreeSlots.insertOneDstLo idx) = some (idx + 1) := toIdx_eq (by simp [TreeSlots.insertOneDstLo])
  have e2 : toIdx (TreeSlots.insertOneSrcLo idx) = some idx := toIdx_eq (by simp [TreeSlots.insertOneSrcLo])
  -- both statements of `insertOne` are in the source (generated presence facts)
  simp only [insertOne, e1, e2, toIdx_natCast, Option.bind_some, bind, TreeSlots.insertOneShifts,
    TreeSlots.insertOneWrites, if_true]
  rw [copySlots_eq (by omega) h2 (by omega) h2]
  have hm : min (hi - (idx + 1)) (hi - idx) = hi - idx - 1 := by omega
  simp only [hm, Option.bind_some, h1, if_true]
  rw [setSlot_eq (by simp; omega)]
  congr 1
  have hA : (a.take (idx + 1)).length = idx + 1 := by simp; omega
  have hsum : idx + 1 + (hi - idx - 1) = hi := by omega
  rw [hsum, List.append_assoc, List.take_append, List.drop_append, hA, List.take_take]
  have : min idx (idx + 1) = idx := by omega
  simp [this]

/-- `insertOne(a[:hi], idx, x)` with the live prefix strictly inside the window inserts into the list -/
theorem rep_insertOne {a : Slots α} {cap l} (h : Rep a cap l) {hi idx : Nat} (hidx : idx ≤ l.length)
    (hl : l.length < hi) (hhi : hi ≤ cap) (x : α) :
    ∃ a', insertOne a hi (idx : Int) (some x) = some a' ∧ Rep a' cap (l.take idx ++ x :: l.drop idx) := by
  refine ⟨_, insertOne_eq (by omega) (by rw [h.length]; exact hhi) _, ?_, ?_⟩
  · obtain ⟨rfl, _⟩ := h
    rw [take_live hidx, drop_live hidx, drop_dead (by omega), List.drop_replicate,
      take_dead (by simp; omega), List.take_replicate]
    simp
    omega
  · simp; omega

/-- inserting a zero into an all-zero array (the child arrays of leaves in `rotateRight`) -/
theorem rep_insertOne_none {a : Slots α} {cap} (h : Rep a cap []) {hi : Nat} (h0 : 0 < hi) (hhi : hi ≤ cap) :
    insertOne a hi ((0 : Nat) : Int) none = some a := by
  rw [insertOne_eq h0 (by rw [h.length]; exact hhi)]
  obtain ⟨rfl, _⟩ := h
  simp [List.take_replicate, List.drop_replicate]
  rw [← List.replicate_succ]
  congr 1; omega

/-! ## `removeOne` -/

theorem removeOne_eq {a : Slots α} {hi idx : Nat} (h1 : idx < hi) (h2 : hi ≤ a.length)
    (hs : TreeSlots.removeOneShifts = true) (hz : TreeSlots.removeOneZeroesLast = true) :
    removeOne a hi idx = some (a.take idx ++ (a.drop (idx + 1)).take (hi - idx - 1) ++ none :: a.drop hi) := by
  simp only [removeOne, hs, hz, if_true, bind]
  rw [copySlots_eq (by omega) h2 (by omega) h2]
  have hm : min (hi - idx) (hi - (idx + 1)) = hi - idx - 1 := by omega
  have hA : (a.take idx).length = idx := by simp; omega
  have hB : ((a.drop (idx + 1)).take (hi - idx - 1)).length = hi - idx - 1 := by simp; omega
  simp only [hm, Option.bind_some]
  have hlen : (a.take idx ++ (a.drop (idx + 1)).take (hi - idx - 1) ++ a.drop (idx + (hi - idx - 1))).length = a.length := by
    simp; omega
  rw [if_pos (by rw [hlen]; omega), setSlot_eq (by rw [hlen]; omega)]
  congr 1
  have hsum : idx + (hi - idx - 1) = hi - 1 := by omega
  have hAB : (a.take idx ++ (a.drop (idx + 1)).take (hi - idx - 1)).length = hi - 1 := by
    rw [List.length_append, hA, hB]; omega
  rw [hsum]
  generalize a.take idx ++ (a.drop (idx + 1)).take (hi - idx - 1) = P at hAB
  rw [List.take_left' hAB, List.drop_append, List.drop_eq_nil_of_le (by omega), hAB]
  have e2 : hi - 1 + 1 - (hi - 1) = 1 := by omega
  have e3 : hi - 1 + 1 = hi := by omega
  simp [e3]

theorem rep_removeOne {a : Slots α} {cap l} (h : Rep a cap l) {hi idx : Nat} (hidx : idx < l.length)
    (hl : l.length ≤ hi) (hhi : hi ≤ cap)
    (hs : TreeSlots.removeOneShifts = true) (hz : TreeSlots.removeOneZeroesLast = true) :
    ∃ a', removeOne a hi idx = some a' ∧ Rep a' cap (l.take idx ++ l.drop (idx + 1)) := by
  refine ⟨_, removeOne_eq (by omega) (by rw [h.length]; exact hhi) hs hz, ?_, ?_⟩
  · obtain ⟨rfl, _⟩ := h
    rw [take_live (by omega), drop_live (by omega), drop_dead (by omega), List.drop_replicate,
      take_dead (by simp; omega), List.take_replicate]
    simp
    rw [show (none : Option α) :: List.replicate (cap - l.length - (hi - l.length)) none
          = List.replicate (cap - l.length - (hi - l.length) + 1) none from (List.replicate_succ).symm,
        List.replicate_append_replicate]
    congr 1; omega
  · simp; omega

/-- removing from an all-zero array (the child arrays of leaves in `rotateLeft`) -/
theorem rep_removeOne_none {a : Slots α} {cap} (h : Rep a cap []) {hi : Nat} (h0 : 0 < hi) (hhi : hi ≤ cap)
    (hs : TreeSlots.removeOneShifts = true) (hz : TreeSlots.removeOneZeroesLast = true) :
    removeOne a hi 0 = some a := by
  rw [removeOne_eq h0 (by rw [h.length]; exact hhi) hs hz]
  obtain ⟨rfl, _⟩ := h
  simp [List.take_replicate, List.drop_replicate]
  rw [show (none : Option α) :: List.replicate (cap - hi) none = List.replicate (cap - hi + 1) none from (List.replicate_succ).symm,
      List.replicate_append_replicate]
  congr 1; omega

/-! ## `xslices.Clear` -/

theorem clearFrom_eq {a : Slots α} {lo : Nat} (h : lo ≤ a.length) :
    clearFrom a lo = some (a.take lo ++ List.replicate (a.length - lo) none) := by
  simp [clearFrom, h]

/-- clearing everything behind a prefix that holds `l` -/
theorem rep_clearFrom {a : Slots α} {cap : Nat} {l : List α} (hlen : a.length = cap)
    (hpre : a.take l.length = l.map some) (hl : l.length ≤ cap) :
    ∃ a', clearFrom a l.length = some a' ∧ Rep a' cap l := by
  refine ⟨_, clearFrom_eq (by omega), ?_, hl⟩
  rw [hpre, hlen]

/-- `Clear` on an array that is already clean is the identity -/
theorem rep_clearFrom_id {a : Slots α} {cap l} (h : Rep a cap l) {lo : Nat} (h1 : l.length ≤ lo) (h2 : lo ≤ cap) :
    clearFrom a lo = some a := by
  rw [clearFrom_eq (by rw [h.length]; exact h2), h.length]
  obtain ⟨rfl, _⟩ := h
  rw [take_dead h1, List.take_replicate, List.append_assoc, List.replicate_append_replicate]
  have : min (lo - l.length) (cap - l.length) + (cap - lo) = cap - l.length := by omega
  rw [this]


/-! ## the fill loops of `overfill` -/

theorem fillUp_eq {cond : Nat → Bool} {f : Nat → Option α} {cnt : Nat} (hc : ∀ i, cond i = decide (i < cnt)) :
    ∀ (fuel i : Nat) (a : Slots α), i ≤ cnt → cnt ≤ a.length → cnt - i < fuel →
      fillUp cond f fuel i a = some (a.take i ++ (List.range' i (cnt - i)).map f ++ a.drop cnt) := by
  intro fuel
  induction fuel with
  | zero => intro i a _ _ h; omega
  | succ fuel ih =>
    intro i a h1 h2 h3
    unfold fillUp
    rw [hc i]
    by_cases hlt : i < cnt
    · simp only [hlt, decide_true, if_true]
      rw [setSlot_eq (by omega), Option.bind_some, ih (i + 1) _ (by omega) (by simp; omega) (by omega)]
      have hA : (a.take i).length = i := by simp; omega
      have e : cnt - i = (cnt - (i + 1)) + 1 := by omega
      rw [e, List.range'_succ]
      congr 1
      rw [show a.take i ++ f i :: a.drop (i + 1) = (a.take i ++ [f i]) ++ a.drop (i + 1) by simp]
      have hB : (a.take i ++ [f i]).length = i + 1 := by simp; omega
      rw [List.take_left' hB, List.drop_append, List.drop_eq_nil_of_le (by omega), hB, List.drop_drop]
      have : i + 1 + (cnt - (i + 1)) = cnt := by omega
      simp [this]
    · have : i = cnt := by omega
      subst this
      simp

theorem fillDown_eq {f : Slots α → Nat → Option α}
    (hloc : ∀ (a b : Slots α) (j : Nat), a.take (j + 1) = b.take (j + 1) → f a j = f b j) :
    ∀ (m : Nat) (a : Slots α), m ≤ a.length →
      fillDown f m a = some ((List.range m).map (f a) ++ a.drop m) := by
  intro m
  induction m with
  | zero => intro a _; simp [fillDown]
  | succ m ih =>
    intro a hm
    unfold fillDown
    rw [setSlot_eq (by omega), Option.bind_some, ih _ (by simp; omega)]
    have hA : (a.take m).length = m := by simp; omega
    congr 1
    rw [List.range_succ, List.map_append, List.drop_left' hA]
    have : (List.range m).map (f (a.take m ++ f a m :: a.drop (m + 1))) = (List.range m).map (f a) := by
      apply List.map_congr_left
      intro j hj
      have hj : j < m := by simpa using hj
      apply hloc
      rw [List.take_append, List.take_take]
      have e1 : min (j + 1) m = j + 1 := by omega
      have e2 : j + 1 - min m a.length = 0 := by omega
      simp [e1, e2]
    rw [this]; simp

/-- reading a window of a list through `[·]?` -/
theorem map_getElem?_range (l : List α) (s n : Nat) (h : s + n ≤ l.length) :
    (List.range n).map (fun i => l[s + i]?) = ((l.drop s).take n).map some := by
  apply List.ext_getElem?
  intro j
  simp only [List.getElem?_map, List.getElem?_take, List.getElem?_drop]
  by_cases hj : j < n
  · have : s + j < l.length := by omega
    simp [hj, this]
  · simp [hj]

/-! ## the amalgam view -/

theorem amalgamGet_eq {isExtra shifts : Int → Int → Bool} {a : Slots α} {l : List α} {x : α} {e p i : Nat}
    (hx : ∀ i : Nat, isExtra i e = decide (i = p)) (hs : ∀ i : Nat, shifts i e = decide (i > p))
    (h : a.take l.length = l.map some) (hp : p ≤ l.length) (hi : i ≤ l.length) :
    amalgamGet isExtra shifts true a (some x) e i = (l.take p ++ x :: l.drop p)[i]? := by
  have hget : ∀ j, j < l.length → a.getD j none = l[j]? := by
    intro j hj
    have : (a.take l.length)[j]? = some l[j]? := by rw [h]; simp [hj]
    rw [List.getElem?_take] at this
    simp [hj] at this
    simp [List.getD_eq_getElem?_getD, this]
  have hlen : (l.take p).length = p := by simp; omega
  unfold amalgamGet
  rw [hx, hs]
  by_cases h1 : i = p
  · subst h1
    simp [hlen]
  · by_cases h2 : i > p
    · simp only [h1, decide_false, h2, decide_true, if_true, bumpIf]
      have : ((i : Int) + -1).toNat = i - 1 := by omega
      simp only [Bool.false_eq_true, if_false, this]
      rw [hget _ (by omega), List.getElem?_append_right (by omega), hlen]
      have : i - p = (i - p - 1) + 1 := by omega
      rw [this, List.getElem?_cons_succ, List.getElem?_drop]
      have : p + (i - p - 1) = i - 1 := by omega
      rw [this]
    · have h3 : i < p := by omega
      simp only [h1, decide_false, h2, Bool.false_eq_true, if_false, Int.toNat_natCast]
      rw [hget _ (by omega), List.getElem?_append_left (by omega), List.getElem?_take]
      simp [h3]

/-- `amalgamGet` at position `i` only looks at `a[0..i]` -/
theorem amalgamGet_local {isExtra shifts : Int → Int → Bool} {dec : Bool} {extra : Option α} {e : Nat}
    (a b : Slots α) (i : Nat) (h : a.take (i + 1) = b.take (i + 1)) :
    amalgamGet isExtra shifts dec a extra e i = amalgamGet isExtra shifts dec b extra e i := by
  have key : ∀ j, j ≤ i → a.getD j none = b.getD j none := by
    intro j hj
    have : (a.take (i + 1))[j]? = (b.take (i + 1))[j]? := by rw [h]
    rw [List.getElem?_take, List.getElem?_take] at this
    have hj' : j < i + 1 := by omega
    simp [hj'] at this
    simp [List.getD_eq_getElem?_getD, this]
  unfold amalgamGet
  split
  · rfl
  · apply key
    split
    · unfold bumpIf; split <;> omega
    · simp

end Juniper.Proofs.TreeSlotsOps
