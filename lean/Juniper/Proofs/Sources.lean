import Juniper.Proofs.IterDen
import Juniper.Proofs.StreamComb
/-!
# Constructors and thin wrappers of `iterator` / `stream` (C07: every name of the property)

`Chan` (both packages, a closed channel holding a list: the sequential reading — the concurrent one is
`Props/C10Chan`), `stream.Empty`, `stream.Error`, `stream.FromIterator`, the `Compact` wrappers.
-/
namespace Juniper.Proofs.Sources
open Juniper.Model Juniper.Gen.Comb
open Juniper.Proofs.IterDen Juniper.Proofs.StreamDen
universe u v
variable {σ : Type u} {α : Type v}

/-! ## iterator.Chan -/

theorem ichan_step_cons (a : α) (r : List α) (cl : Bool) :
    (Iter.chan (α := α)).step ⟨a :: r, cl⟩ = (.item a, ⟨r, cl⟩) := by
  simp [Iter.chan, itChanBody]

theorem ichan_step_nil : (Iter.chan (α := α)).step ⟨[], true⟩ = (.done, ⟨[], true⟩) := by
  simp [Iter.chan, itChanBody]

/-- `iterator.Chan(c)` on a closed channel holding `l`: yields `l`, then the end for ever -/
theorem ichan_den (l : List α) :
    Den (Iter.chan (α := α)) (fun _ => 0) ⟨l, true⟩ (l.map fun a => (a, 0)) 0 := by
  have _tie := Skeleton.Tie.itChan
  induction l with
  | nil =>
    have he : Ended (Iter.chan (α := α)) ⟨[], true⟩ :=
      ended_of_inv (fun s => s = ⟨[], true⟩) (by intro s hs; subst hs; rw [ichan_step_nil]; exact ⟨rfl, rfl⟩) rfl
    exact den_of_ended (cost := fun _ => 0) he (fun _ => rfl)
  | cons a l ih => exact .item (cost := fun _ => 0) (ichan_step_cons a l true) ih

/-! ## stream sources -/

variable {soft : Stream.Err → Bool}

theorem schan_ctxOk (st : Stream.ChanSt α) : CtxOk (Stream.chan (α := α)) st := Or.inl (chan_step_expired st)

/-- `stream.Chan(c)` on a closed channel holding `l`, any contexts: yields `l`, then the end for ever; a
call whose context has expired costs nothing -/
theorem schan_sden (l : List α) :
    SDen soft (Stream.chan (α := α)) (fun _ => 0) ⟨l, true⟩ (l.map fun a => (a, 0)) (.end_ 0) := by
  have _tie := Skeleton.Tie.stChan
  induction l with
  | nil =>
    have he : SEnded (Stream.chan (α := α)) ⟨[], true⟩ :=
      sended_of_inv (fun s => s = ⟨[], true⟩) (by
        intro s hs
        subst hs
        refine ⟨schan_ctxOk _, by rw [chan_step_live]; rfl, fun c => ?_⟩
        cases c
        · rw [chan_step_expired]
        · rw [chan_step_live]; rfl) rfl
    have hfix : ∀ cs, afterS (Stream.chan (α := α)) cs ⟨[], true⟩ = ⟨[], true⟩ := by
      intro cs
      induction cs with
      | nil => rfl
      | cons c cs ih =>
        cases c
        · simp only [afterS, chan_step_expired]; exact ih
        · have : (Stream.chan (α := α)).step ⟨[], true⟩ true = (.end_, ⟨[], true⟩) := by rw [chan_step_live]; rfl
          simp only [afterS, this]; exact ih
    exact sden_of_ended (soft := soft) (cost := fun _ => 0) he (fun _ => rfl)
  | cons a l ih =>
    exact .item (cost := fun _ => 0) (s' := (⟨l, true⟩ : Stream.ChanSt α)) (schan_ctxOk _) (by rw [chan_step_live]) ih

/-- `stream.Empty()` yields nothing: the end at once, and again and again, whatever the context -/
theorem empty_sden : SDen soft (Stream.empty (α := α)) (fun _ => 0) () [] (.end_ 0) := by
  have _tie := Skeleton.Tie.stEmpty
  exact sden_of_ended (soft := soft) (cost := fun _ => 0) (sended_fixed (fun c => empty_step () c)) (fun _ => rfl)

/-- `stream.Error(e)` fails with `e` itself at once -/
theorem error_sden (e : Stream.Err) (he : soft e = false) :
    SDen soft (Stream.error (α := α) e) (fun _ => 0) () [] (.fail e) := by
  have _tie := Skeleton.Tie.stError
  exact .fail (s' := ()) (Or.inr (by rw [error_step, error_step])) (error_step e () true) he

/-! ## stream.FromIterator -/

theorem fromIterator_ctxOk (m : Iter.IM σ α) (s : σ) : CtxOk (Stream.fromIterator m) s := by
  left; rw [fromIterator_step]; rfl

theorem fromIterator_live (m : Iter.IM σ α) (s : σ) :
    (Stream.fromIterator m).step s true = match m.step s with
      | (.item a, s') => (.item a, s')
      | (.skip, s') => (.skip, s')
      | (.done, s') => (.end_, s') := by
  rw [fromIterator_step]; rfl

theorem fromIterator_afterS (m : Iter.IM σ α) (cs : List Bool) (s : σ) :
    ∃ n, afterS (Stream.fromIterator m) cs s = after m n s := by
  induction cs generalizing s with
  | nil => exact ⟨0, rfl⟩
  | cons c cs ih =>
    cases c with
    | false =>
      have : ((Stream.fromIterator m).step s false).2 = s := by rw [fromIterator_step]; rfl
      obtain ⟨n, hn⟩ := ih s
      exact ⟨n, by simp only [afterS, this]; exact hn⟩
    | true =>
      have : ((Stream.fromIterator m).step s true).2 = (m.step s).2 := by
        rw [fromIterator_live]
        rcases m.step s with ⟨r, s'⟩
        cases r <;> rfl
      obtain ⟨n, hn⟩ := ih (m.step s).2
      exact ⟨n + 1, by simp only [afterS, this, after]; exact hn⟩

theorem fromIterator_sended {m : Iter.IM σ α} {s : σ} (he : Ended m s) : SEnded (Stream.fromIterator m) s := by
  intro cs
  obtain ⟨n, hn⟩ := fromIterator_afterS m cs s
  rw [hn]
  refine ⟨fromIterator_ctxOk m _, ?_⟩
  have := he n
  rw [fromIterator_live]
  rcases hx : m.step (after m n s) with ⟨r, s'⟩
  rw [hx] at this
  simp only at this
  subst this
  rfl

/-- `stream.FromIterator(iter)` yields what `iter` yields (same pull counts), then the end for ever; a
call whose context has expired is answered with the context error before the iterator is touched -/
theorem fromIterator_sden {m : Iter.IM σ α} {cost : σ → Nat} {s : σ} {L : List (α × Nat)} {e : Nat}
    (h : Den m cost s L e) : SDen soft (Stream.fromIterator m) cost s L (.end_ e) := by
  have _tie := Skeleton.Tie.stFromIter
  induction h with
  | @skip s s' L e hs _ ih =>
    exact .skip (fromIterator_ctxOk m s) (by rw [fromIterator_live, hs]) ih
  | @item s s' a L e hs _ ih =>
    exact .item (fromIterator_ctxOk m s) (by rw [fromIterator_live, hs]) ih
  | @done s s' hs he hc =>
    refine .done (fromIterator_ctxOk m s) (by rw [fromIterator_live, hs]) (fromIterator_sended he) ?_
    intro cs
    obtain ⟨n, hn⟩ := fromIterator_afterS m cs s'
    rw [hn]
    exact hc n

/-! ## the `Compact` wrappers -/

/-- `iterator.Compact(iter)` is `CompactFunc(iter, ==)`: the regenerated body applied to the model of `CompactFunc` -/
theorem icompactEq_eq [DecidableEq α] (m : Iter.IM σ α) :
    Iter.compactEq m = Iter.compact (fun a b => decide (a = b)) m := by
  unfold Iter.compactEq itCompactW
  rfl

/-- `stream.Compact(s)` is `CompactFunc(s, ==)` -/
theorem scompactEq_eq [DecidableEq α] (m : Stream.SM σ α) :
    Stream.compactEq m = Stream.compact (fun a b => decide (a = b)) m := by
  unfold Stream.compactEq stCompactW
  rfl

end Juniper.Proofs.Sources
