import Juniper.Model.BTreeSlots
import Juniper.Model.BTree
/-!
# Slot level of the B-tree: cleared slots stay cleared (C03, "no retained garbage")

Property clause: *"Keys and values that were deleted or moved elsewhere are no longer referenced from
the live structure, so they can be garbage collected."*

`Clean cap live arr` says that the fixed array `arr` (length `cap`) consists of the live prefix
`live` followed by zero values only. For every array primitive of `btree.go` (`removeOne`,
`insertOne`, slot assignment, `xslices.Clear`, `copy`) and every node-level use of them
(`Juniper.Model.BTreeSlots`, written as the Go text is) a lemma

    Clean cap live arr → side conditions → Clean cap (list-level result) (slot-level operation arr)

is proved: (1) clean arrays stay clean, (2) the effect on the live prefix is exactly the append-style
list operation of the tree-level model `Juniper/Model/BTree.lean` (`insertAt`, `removeAt`,
`replaceAt`, `dropLast`, `sep :: _`, `drop 1`, `_ ++ [sep]`, `_ ++ sep :: _`, `take m`). The summary
`tail_cleared` reads `Clean` as "no slot beyond the live prefix references anything".

Each zeroing statement of the source enters the model only through its generated presence fact; the
proofs discharge `fact = true` by `decide`, so dropping a zeroing statement from `btree.go` breaks
the build of this file (and the slot dump comparison of the harness).

Side conditions are the ones under which the Go code does not panic / the node is in the state in
which the code calls the operation (`idx` in range, room for one more entry, merged node fits).
`n` of the node is always `live.length` (keys/values) resp. `live.length - 1` (children of an inner
node, stated as `live.length = n + 1`); leaves have `live = []` for the children array and get
their own `_leaf` lemmas.

Not done here (left to the tree-level development): lifting `Clean` to whole trees / histories
(`no_retained_slots`), i.e. the induction over `Put`/`Delete` that composes these per-array lemmas
along the model's `ins`/`del`; the per-array lemmas are stated so that their list-level results are
syntactically the right-hand sides used in `Model/BTree.lean`.
-/
namespace Juniper.Proofs.Tree
open Juniper.Model.BTreeSlots Juniper.Gen.Tree
variable {α : Type}

/-- `arr` (a node array of length `cap`) holds the live prefix `live` and then only zero values. -/
def Clean (cap : Nat) (live : List α) (arr : List (Option α)) : Prop :=
  arr = live.map some ++ List.replicate (cap - live.length) none ∧ live.length ≤ cap

theorem Clean.length_eq {cap : Nat} {live : List α} {arr : List (Option α)}
    (h : Clean cap live arr) : arr.length = cap := by
  obtain ⟨rfl, hle⟩ := h
  simp; omega

theorem clean_of_eq {cap : Nat} {arr : List (Option α)} (live : List α) (k : Nat)
    (heq : arr = live.map some ++ List.replicate k none) (h : live.length + k = cap) :
    Clean cap live arr := by
  subst heq
  refine ⟨?_, by omega⟩
  congr 2; omega

theorem clean_fresh (cap : Nat) : Clean cap ([] : List α) (fresh cap) := by
  simp [Clean, fresh]

theorem clean_map_some (live : List α) : Clean live.length live (live.map some) := by
  simp [Clean]

theorem Clean.take {cap m : Nat} {live : List α} {arr : List (Option α)}
    (h : Clean cap live arr) (h1 : live.length ≤ m) (h2 : m ≤ cap) : Clean m live (arr.take m) := by
  obtain ⟨rfl, hle⟩ := h
  apply clean_of_eq live (m - live.length)
  · have e : min (m - live.length) (cap - live.length) = m - live.length := by omega
    simp [List.take_append, List.take_of_length_le, h1, e]
  · omega

theorem Clean.drop {cap m : Nat} {live : List α} {arr : List (Option α)}
    (h : Clean cap live arr) (h1 : live.length ≤ m) :
    arr.drop m = List.replicate (cap - m) none := by
  obtain ⟨rfl, hle⟩ := h
  simp [List.drop_append, List.drop_of_length_le, h1]
  omega

theorem Clean.append {m k : Nat} {live : List α} {a : List (Option α)}
    (h : Clean m live a) : Clean (m + k) live (a ++ List.replicate k none) := by
  obtain ⟨rfl, hle⟩ := h
  apply clean_of_eq live (m - live.length + k)
  · simp
  · omega

/-- transfer along `onPrefix`. -/
theorem clean_onPrefix {cap m : Nat} {live live' : List α} {arr : List (Option α)}
    {f : List (Option α) → List (Option α)}
    (h : Clean cap live arr) (h1 : live.length ≤ m) (h2 : m ≤ cap)
    (hf : Clean m live (arr.take m) → Clean m live' (f (arr.take m))) :
    Clean cap live' (onPrefix m f arr) := by
  have := (hf (h.take h1 h2)).append (k := cap - m)
  rw [onPrefix, h.drop h1]
  have e : m + (cap - m) = cap := by omega
  rwa [e] at this


theorem removeOne_eq (a : List (Option α)) (idx : Nat) (h : idx < a.length) :
    removeOne a idx = a.take idx ++ a.drop (idx + 1) ++ [none] := by
  have hz : removeOneZeroesLast = true := by decide
  simp only [removeOne, zeroSlot, hz, if_true, setSlot, copyInto]
  apply List.ext_getElem?
  intro i
  grind

theorem insertOne_eq (a : List (Option α)) (idx : Nat) (x : Option α) (h : idx < a.length) :
    insertOne a idx x = a.take idx ++ x :: (a.drop idx).take (a.length - idx - 1) := by
  simp only [insertOne, setSlot, copyInto]
  apply List.ext_getElem?
  intro i
  grind

theorem slots_refine_removeOne {cap : Nat} {live : List α} {a : List (Option α)} {idx : Nat}
    (hc : Clean cap live a) (hidx : idx < cap) :
    Clean cap (live.take idx ++ live.drop (idx + 1)) (removeOne a idx) := by
  have hl := hc.length_eq
  obtain ⟨rfl, hle⟩ := hc
  rw [removeOne_eq _ _ (by omega)]
  by_cases h : idx < live.length
  · apply clean_of_eq _ (cap - live.length + 1)
    · have e1 : idx - live.length = 0 := by omega
      have e2 : idx + 1 - live.length = 0 := by omega
      simp [List.take_append, List.drop_append, List.map_take, List.map_drop, e1, e2,
        ← List.replicate_succ']
    · simp; omega
  · apply clean_of_eq _ (cap - live.length)
    · have e1 : live.length ≤ idx + 1 := by omega
      simp [List.take_append, List.drop_append, List.map_take,
        List.drop_of_length_le, e1, ← List.replicate_succ']
      omega
    · simp; omega

theorem slots_refine_insertOne {cap : Nat} {live : List α} {a : List (Option α)} {idx : Nat}
    (x : α) (hc : Clean cap live a) (hidx : idx ≤ live.length) (hroom : live.length < cap) :
    Clean cap (live.take idx ++ x :: live.drop idx) (insertOne a idx (some x)) := by
  have hl := hc.length_eq
  obtain ⟨rfl, hle⟩ := hc
  rw [insertOne_eq _ _ _ (by omega)]
  apply clean_of_eq _ (cap - live.length - 1)
  · have e1 : idx - live.length = 0 := by omega
    simp [List.take_append, List.drop_append, List.map_take, List.map_drop, e1]
    rw [List.take_of_length_le (by simp; omega)]
    congr 2; omega
  · simp; omega


/-- overwriting a live slot = `replaceAt`. -/
theorem slots_refine_setLive {cap : Nat} {live : List α} {a : List (Option α)} {idx : Nat}
    (x : α) (hc : Clean cap live a) (hidx : idx < live.length) :
    Clean cap (live.take idx ++ x :: live.drop (idx + 1)) (setSlot a idx (some x)) := by
  obtain ⟨rfl, hle⟩ := hc
  apply clean_of_eq _ (cap - live.length)
  · rw [setSlot, List.set_append_left _ _ (by simpa using hidx)]
    congr 1
    rw [List.set_eq_take_append_cons_drop]
    simp [hidx, List.map_take, List.map_drop]
  · simp; omega

/-- writing the first free slot = append. -/
theorem slots_refine_setNext {cap : Nat} {live : List α} {a : List (Option α)}
    (x : α) (hc : Clean cap live a) (hroom : live.length < cap) :
    Clean cap (live ++ [x]) (setSlot a live.length (some x)) := by
  obtain ⟨rfl, hle⟩ := hc
  apply clean_of_eq _ (cap - live.length - 1)
  · rw [setSlot, List.set_append_right _ _ (by simp)]
    obtain ⟨k, hk⟩ : ∃ k, cap - live.length = k + 1 := ⟨cap - live.length - 1, by omega⟩
    simp [hk, List.replicate_succ]
  · simp; omega

/-- zeroing slot `i` where at most the last live slot is affected (`live.length ≤ i + 1`). -/
theorem clean_zeroAt {cap : Nat} {live : List α} {a : List (Option α)} {i : Nat}
    (hc : Clean cap live a) (hi : live.length ≤ i + 1) :
    Clean cap (live.take i) (setSlot a i none) := by
  obtain ⟨rfl, hle⟩ := hc
  apply clean_of_eq _ (cap - (live.take i).length)
  · apply List.ext_getElem?
    intro j
    grind [setSlot]
  · simp; omega

theorem clean_clearFrom {cap : Nat} {live : List α} {a : List (Option α)} {i : Nat}
    (hc : Clean cap live a) (hi : i ≤ cap) :
    Clean cap (live.take i) (clearFrom a i) := by
  have hl := hc.length_eq
  obtain ⟨rfl, hle⟩ := hc
  apply clean_of_eq _ (cap - (live.take i).length)
  · rw [clearFrom, hl]
    apply List.ext_getElem?
    intro j
    grind
  · simp; omega


/-! ## node-level operations -/

theorem slots_refine_leafInsert {cap : Nat} {live : List α} {arr : List (Option α)} {idx : Nat}
    (x : α) (hc : Clean cap live arr) (hidx : idx ≤ live.length) (hroom : live.length < cap) :
    Clean cap (live.take idx ++ x :: live.drop idx) (leafInsert arr live.length idx (some x)) := by
  apply clean_onPrefix hc (by omega) (by omega)
  intro h
  exact slots_refine_insertOne x h hidx (by omega)

theorem slots_refine_remove {cap : Nat} {live : List α} {arr : List (Option α)} {idx : Nat}
    (hc : Clean cap live arr) (hidx : idx < live.length) :
    Clean cap (live.take idx ++ live.drop (idx + 1)) (remove arr live.length idx) := by
  apply clean_onPrefix hc (Nat.le_refl _) hc.2
  intro h
  exact slots_refine_removeOne h hidx

theorem slots_refine_replace {cap : Nat} {live : List α} {arr : List (Option α)} {idx : Nat}
    (x : α) (hc : Clean cap live arr) (hidx : idx < live.length) :
    Clean cap (live.take idx ++ x :: live.drop (idx + 1)) (replace arr idx (some x)) :=
  slots_refine_setLive x hc hidx

theorem slots_refine_removeRightmost {cap : Nat} {live : List α} {arr : List (Option α)}
    (hc : Clean cap live arr) (hn : 0 < live.length) :
    Clean cap live.dropLast (removeRightmostKeys arr live.length) := by
  have hz : removeRightmostZeroesKey = true := by decide
  rw [removeRightmostKeys, zeroSlot, hz, if_pos rfl, List.dropLast_eq_take]
  exact clean_zeroAt hc (by omega)

theorem slots_refine_removeRightmost_values {cap : Nat} {live : List α} {arr : List (Option α)}
    (hc : Clean cap live arr) (hn : 0 < live.length) :
    Clean cap live.dropLast (removeRightmostValues arr live.length) := by
  have hz : removeRightmostZeroesValue = true := by decide
  rw [removeRightmostValues, zeroSlot, hz, if_pos rfl, List.dropLast_eq_take]
  exact clean_zeroAt hc (by omega)

theorem slots_refine_rotateRight_donor {cap : Nat} {live : List α} {arr : List (Option α)}
    (hc : Clean cap live arr) (hn : 0 < live.length) :
    Clean cap live.dropLast (rotateRightDonorKeys arr live.length) := by
  have hz : rotateRightZeroesKey = true := by decide
  rw [rotateRightDonorKeys, zeroSlot, hz, if_pos rfl, List.dropLast_eq_take]
  exact clean_zeroAt hc (by omega)

theorem slots_refine_rotateRight_donor_values {cap : Nat} {live : List α} {arr : List (Option α)}
    (hc : Clean cap live arr) (hn : 0 < live.length) :
    Clean cap live.dropLast (rotateRightDonorValues arr live.length) := by
  have hz : rotateRightZeroesValue = true := by decide
  rw [rotateRightDonorValues, zeroSlot, hz, if_pos rfl, List.dropLast_eq_take]
  exact clean_zeroAt hc (by omega)

/-- inner donor: `live` are the `n + 1` children. -/
theorem slots_refine_rotateRight_donor_children {cap n : Nat} {live : List α}
    {arr : List (Option α)} (hc : Clean cap live arr) (hn : live.length = n + 1) :
    Clean cap live.dropLast (rotateRightDonorChildren arr n) := by
  have hz : rotateRightZeroesChild = true := by decide
  rw [rotateRightDonorChildren, zeroSlot, hz, if_pos rfl, List.dropLast_eq_take]
  have := clean_zeroAt (i := n) hc (by omega)
  have e : live.length - 1 = n := by omega
  rwa [e]

/-- leaf donor: no children, `children[n] = nil` changes nothing. -/
theorem slots_refine_rotateRight_donor_children_leaf {cap n : Nat} {arr : List (Option α)}
    (hc : Clean cap ([] : List α) arr) :
    Clean cap ([] : List α) (rotateRightDonorChildren arr n) := by
  have hz : rotateRightZeroesChild = true := by decide
  rw [rotateRightDonorChildren, zeroSlot, hz, if_pos rfl]
  simpa using clean_zeroAt (i := n) hc (by simp)

theorem slots_refine_rotateRight_receiver {cap : Nat} {live : List α} {arr : List (Option α)}
    (sep : α) (hc : Clean cap live arr) (hroom : live.length < cap) :
    Clean cap (sep :: live) (rotateRightReceiver arr (some sep)) := by
  rw [rotateRightReceiver, hc.length_eq]
  apply clean_onPrefix hc hc.2 (Nat.le_refl _)
  intro h
  simpa using slots_refine_insertOne (idx := 0) sep h (by omega) hroom

/-- leaf receiver, children array: `insertOne(right.children[:], 0, nil)`. -/
theorem slots_refine_rotateRight_receiver_children_leaf {cap : Nat} {arr : List (Option α)}
    (hc : Clean cap ([] : List α) arr) :
    Clean cap ([] : List α) (rotateRightReceiver arr none) := by
  obtain ⟨rfl, -⟩ := hc
  by_cases h : cap = 0
  · subst h; simp [Clean, rotateRightReceiver, onPrefix, insertOne, copyInto, setSlot]
  · apply clean_of_eq [] cap _ (by simp)
    simp only [rotateRightReceiver, onPrefix, List.map_nil, List.nil_append, List.length_nil,
      Nat.sub_zero, List.length_replicate, List.take_replicate, Nat.min_self, List.drop_replicate,
      Nat.sub_self, List.replicate_zero, List.append_nil]
    rw [insertOne_eq _ _ _ (by simp; omega)]
    obtain ⟨k, rfl⟩ : ∃ k, cap = k + 1 := ⟨cap - 1, by omega⟩
    simp [← List.replicate_succ]

theorem slots_refine_rotateLeft_donor {cap : Nat} {live : List α} {arr : List (Option α)}
    (hc : Clean cap live arr) (hcap : 0 < cap) :
    Clean cap (live.drop 1) (rotateLeftDonor arr) := by
  rw [rotateLeftDonor, hc.length_eq]
  apply clean_onPrefix hc hc.2 (Nat.le_refl _)
  intro h
  simpa using slots_refine_removeOne (idx := 0) h hcap

theorem slots_refine_rotateLeft_receiver {cap : Nat} {live : List α} {arr : List (Option α)}
    (sep : α) (hc : Clean cap live arr) (hroom : live.length < cap) :
    Clean cap (live ++ [sep]) (rotateLeftReceiver arr live.length (some sep)) :=
  slots_refine_setNext sep hc hroom

/-- leaf receiver, children array: `left.children[left.n+1] = nil`. -/
theorem slots_refine_rotateLeft_receiver_children_leaf {cap i : Nat} {arr : List (Option α)}
    (hc : Clean cap ([] : List α) arr) :
    Clean cap ([] : List α) (rotateLeftReceiver arr i none) := by
  simpa [rotateLeftReceiver] using clean_zeroAt (i := i) hc (by simp)


/-- `copy(arr[n:], right[:rn])` directly behind the live prefix appends the live prefix of `right`. -/
theorem clean_copyInto {cap rcap : Nat} {live rlive : List α} {arr right : List (Option α)}
    (hc : Clean cap live arr) (hr : Clean rcap rlive right)
    (hfit : live.length + rlive.length ≤ cap) :
    Clean cap (live ++ rlive) (copyInto arr live.length (right.take rlive.length)) := by
  have hl := hc.length_eq
  have hrt := (hr.take (Nat.le_refl _) hr.2).1
  obtain ⟨rfl, hle⟩ := hc
  apply clean_of_eq _ (cap - live.length - rlive.length)
  · rw [hrt, copyInto, hl]
    simp [List.drop_append, List.drop_of_length_le]
    exact List.take_of_length_le (by simp; omega)
  · simp; omega


theorem slots_refine_merge_left {cap rcap : Nat} {live rlive : List α}
    {arr right : List (Option α)} (sep : α)
    (hc : Clean cap live arr) (hr : Clean rcap rlive right)
    (hfit : live.length + 1 + rlive.length ≤ cap) :
    Clean cap (live ++ sep :: rlive)
      (mergeLeft arr live.length (some sep) right rlive.length) := by
  have h1 := slots_refine_setNext sep hc (by omega)
  have h2 := clean_copyInto h1 hr (by simp; omega)
  simpa [mergeLeft] using h2

/-- inner nodes: `live` are the `n + 1` children of `left`, `rlive` the `rn + 1` children of
`right`. -/
theorem slots_refine_merge_left_children {cap rcap n rn : Nat} {live rlive : List α}
    {arr right : List (Option α)}
    (hc : Clean cap live arr) (hr : Clean rcap rlive right)
    (hn : live.length = n + 1) (hrn : rlive.length = rn + 1)
    (hfit : live.length + rlive.length ≤ cap) :
    Clean cap (live ++ rlive) (mergeLeftChildren arr n right rn) := by
  have h2 := clean_copyInto hc hr hfit
  rwa [hn, hrn] at h2

/-- leaves: both children arrays are all `nil` and stay so. -/
theorem slots_refine_merge_left_children_leaf {cap rcap n rn : Nat}
    {arr right : List (Option α)}
    (hc : Clean cap ([] : List α) arr) (hr : Clean rcap ([] : List α) right)
    (hfit : n + 1 + (rn + 1) ≤ cap) (hrfit : rn + 1 ≤ rcap) :
    Clean cap ([] : List α) (mergeLeftChildren arr n right rn) := by
  obtain ⟨rfl, -⟩ := hc
  obtain ⟨rfl, -⟩ := hr
  apply clean_of_eq [] cap _ (by simp)
  simp [mergeLeftChildren, copyInto]
  omega

theorem slots_refine_merge_parent {cap : Nat} {live : List α} {arr : List (Option α)} {idx : Nat}
    (hc : Clean cap live arr) (hidx : idx < live.length) :
    Clean cap (live.take idx ++ live.drop (idx + 1)) (mergeParent arr live.length idx) :=
  slots_refine_remove hc hidx

/-- children of the parent: `live` are its `n + 1` children, the retired `right` sits at
`idx + 1`. -/
theorem slots_refine_merge_parent_children {cap n : Nat} {live : List α} {arr : List (Option α)}
    {idx : Nat} (hc : Clean cap live arr) (hn : live.length = n + 1) (hidx : idx < n) :
    Clean cap (live.take (idx + 1) ++ live.drop (idx + 2)) (mergeParent arr (n + 1) (idx + 1)) := by
  rw [← hn]
  exact slots_refine_remove hc (by omega)

theorem slots_refine_parentInsert {cap : Nat} {live : List α} {arr : List (Option α)} {idx : Nat}
    (sep : α) (hc : Clean cap live arr) (hidx : idx ≤ live.length) (hroom : live.length < cap) :
    Clean cap (live.take idx ++ sep :: live.drop idx) (parentInsert arr live.length idx (some sep)) :=
  slots_refine_leafInsert sep hc hidx hroom

theorem slots_refine_parentInsert_children {cap n : Nat} {live : List α} {arr : List (Option α)}
    {idx : Nat} (right : α) (hc : Clean cap live arr) (hn : live.length = n + 1) (hidx : idx ≤ n)
    (hroom : live.length < cap) :
    Clean cap (live.take (idx + 1) ++ right :: live.drop (idx + 1))
      (parentInsert arr (n + 1) (idx + 1) (some right)) := by
  rw [← hn]
  exact slots_refine_leafInsert right hc (by omega) hroom


/-! ## `overfill`: the two halves of a split -/

/-- the descending write loop writes `all[:m]` over the first `m` slots. -/
theorem writeDesc_eq (all : List α) (m : Nat) (arr : List (Option α))
    (h1 : m ≤ arr.length) (h2 : m ≤ all.length) :
    writeDesc arr all m = (all.take m).map some ++ arr.drop m := by
  induction m generalizing arr with
  | zero => simp [writeDesc]
  | succ m ih =>
    have ih' := ih (setSlot arr m all[m]?) (by simp [setSlot]; omega) (by omega)
    simp only [writeDesc] at ih' ⊢
    rw [List.range_succ, List.foldr_append, List.foldr_cons, List.foldr_nil, ih']
    have hm : all[m]? = some all[m] := List.getElem?_eq_getElem (by omega)
    rw [hm, setSlot, List.set_eq_take_append_cons_drop, if_pos (by omega),
      List.drop_left' (by simp; omega), List.take_succ_eq_append_getElem (by omega)]
    simp only [List.map_append, List.map_cons, List.map_nil, List.append_assoc, List.cons_append,
      List.nil_append]


/-- generic split-left: write loop, then the `xslices.Clear` (present). -/
theorem clean_splitLeft {cap m : Nat} {live all : List α} {arr : List (Option α)}
    (hc : Clean cap live arr) (hm : m ≤ cap) (hall : m ≤ all.length) :
    Clean cap (all.take m) (splitLeft true arr all m) := by
  have hl := hc.length_eq
  simp only [splitLeft, if_true]
  rw [writeDesc_eq all m arr (by omega) hall, clearFrom]
  apply clean_of_eq _ (cap - m)
  · simp [hall, hl]
  · simp; omega

theorem slots_refine_splitRight {cap : Nat} (all : List α) (frm cnt : Nat)
    (hcnt : cnt ≤ cap) (hall : frm + cnt ≤ all.length) :
    Clean cap ((all.drop frm).take cnt) (splitRight cap all frm cnt) := by
  induction cnt with
  | zero => simpa [splitRight] using clean_fresh cap
  | succ cnt ih =>
    have ih' := ih (by omega) (by omega)
    simp only [splitRight] at ih' ⊢
    rw [List.range_succ, List.foldl_append, List.foldl_cons, List.foldl_nil]
    have hx : all[frm + cnt]? = some all[frm + cnt] := List.getElem?_eq_getElem (by omega)
    have hlen : ((all.drop frm).take cnt).length = cnt := by simp; omega
    have := slots_refine_setNext all[frm + cnt] ih' (by omega)
    rw [hlen] at this
    rw [hx, List.take_succ_eq_append_getElem (by simp; omega)]
    simpa using this

theorem tail_cleared {cap : Nat} {live : List α} {arr : List (Option α)}
    (hc : Clean cap live arr) : ∀ i, live.length ≤ i → i < cap → arr[i]? = some none := by
  intro i h1 h2
  obtain ⟨rfl, hle⟩ := hc
  rw [List.getElem?_append_right (by simpa using h1), List.getElem?_replicate]
  simp; omega

/-- and the live prefix is exactly `live`. -/
theorem live_slots {cap : Nat} {live : List α} {arr : List (Option α)}
    (hc : Clean cap live arr) : ∀ i, i < live.length → arr[i]? = (live[i]?).map some := by
  intro i h1
  obtain ⟨rfl, hle⟩ := hc
  rw [List.getElem?_append_left (by simpa using h1)]
  simp


theorem clean_getD {cap : Nat} {live : List α} {arr : List (Option α)}
    (hc : Clean cap live arr) (i : Nat) : (arr[i]?).getD none = live[i]? := by
  by_cases h : i < live.length
  · rw [live_slots hc i h]; simp [h]
  · by_cases h2 : i < cap
    · rw [tail_cleared hc i (by omega) h2]; simp; omega
    · have : arr.length ≤ i := by rw [hc.length_eq]; omega
      simp [this]; omega

theorem amalgamGet_clean {cap : Nat} {live : List α} {arr : List (Option α)} {e : Nat} (x : α)
    (hc : Clean cap live arr) (he : e ≤ live.length) (i : Nat) :
    amalgamGet arr e (some x) i = (live.take e ++ x :: live.drop e)[i]? := by
  unfold amalgamGet
  rw [clean_getD hc, clean_getD hc]
  grind

theorem writeAmalgamDesc_congr (arr : List (Option α)) (all : List α) (e : Nat) (x : Option α) :
    ∀ (m : Nat) (arr' : List (Option α)), (∀ i, i < m → arr'[i]? = arr[i]?) →
      (∀ i, i < m → amalgamGet arr e x i = all[i]?) →
      writeAmalgamDesc arr' e x m = writeDesc arr' all m := by
  intro m
  induction m with
  | zero => intros; simp [writeAmalgamDesc, writeDesc]
  | succ m ih =>
    intro arr' h1 h2
    have hget : amalgamGet arr' e x m = all[m]? := by
      rw [← h2 m (by omega)]
      unfold amalgamGet
      rw [h1 m (by omega)]
      by_cases hm : m > e
      · rw [h1 (m - 1) (by omega)]
      · simp [hm]
    have ih' := ih (setSlot arr' m all[m]?)
      (fun i hi => by rw [setSlot, List.getElem?_set_ne (by omega)]; exact h1 i (by omega))
      (fun i hi => h2 i (by omega))
    simp only [writeAmalgamDesc, writeDesc] at ih' ⊢
    rw [List.range_succ, List.foldr_append, List.foldr_append]
    simp only [List.foldr_cons, List.foldr_nil]
    rw [hget]
    exact ih'

/-- the aliased write loop of the source (`all` is a view of the very array being overwritten)
behaves as the loop over the pure list `insertAt live e x`. -/
theorem writeAmalgamDesc_eq {cap : Nat} {live : List α} {arr : List (Option α)} {e : Nat} (x : α)
    (hc : Clean cap live arr) (he : e ≤ live.length) (m : Nat) :
    writeAmalgamDesc arr e (some x) m = writeDesc arr (live.take e ++ x :: live.drop e) m :=
  writeAmalgamDesc_congr arr _ e (some x) m arr (fun _ _ => rfl)
    (fun i _ => amalgamGet_clean x hc he i)


/-! ## `overfill`, left half, with the generated presence facts -/

theorem slots_refine_split_left {cap m : Nat} {live all : List α} {arr : List (Option α)}
    (hc : Clean cap live arr) (hm : m ≤ cap) (hall : m ≤ all.length) :
    Clean cap (all.take m) (splitLeft overfillClearsKeys arr all m) := by
  have hz : overfillClearsKeys = true := by decide
  rw [hz]; exact clean_splitLeft hc hm hall

theorem slots_refine_split_left_values {cap m : Nat} {live all : List α} {arr : List (Option α)}
    (hc : Clean cap live arr) (hm : m ≤ cap) (hall : m ≤ all.length) :
    Clean cap (all.take m) (splitLeft overfillClearsValues arr all m) := by
  have hz : overfillClearsValues = true := by decide
  rw [hz]; exact clean_splitLeft hc hm hall

theorem slots_refine_split_left_children {cap m : Nat} {live all : List α} {arr : List (Option α)}
    (hc : Clean cap live arr) (hm : m ≤ cap) (hall : m ≤ all.length) :
    Clean cap (all.take m) (splitLeft overfillClearsChildren arr all m) := by
  have hz : overfillClearsChildren = true := by decide
  rw [hz]; exact clean_splitLeft hc hm hall

theorem slots_refine_split_left_children_leaf {arr : List (Option α)}
    (hc : Clean childrenCap ([] : List α) arr) :
    Clean childrenCap ([] : List α) (splitLeftChildrenLeaf arr) := by
  have hz : overfillClearsChildren = true := by decide
  rw [splitLeftChildrenLeaf, hz, if_pos rfl]
  simpa using clean_clearFrom (i := leftN.toNat + 1) hc (by decide)

/-- the source's aliased loop: the node is clean with live prefix `live`, the amalgam is
`insertAt live e x` (`Model/BTree.lean`, `overfillNode`). -/
theorem slots_refine_split_left_aliased {cap m e : Nat} {live : List α} {arr : List (Option α)}
    (x : α) (hc : Clean cap live arr) (he : e ≤ live.length) (hm : m ≤ cap)
    (hall : m ≤ live.length + 1) :
    Clean cap ((live.take e ++ x :: live.drop e).take m)
      (splitLeftAliased overfillClearsKeys arr e (some x) m) := by
  have := slots_refine_split_left (all := live.take e ++ x :: live.drop e) hc hm (by simp; omega)
  simpa [splitLeftAliased, splitLeft, writeAmalgamDesc_eq x hc he] using this

theorem slots_refine_split_left_aliased_values {cap m e : Nat} {live : List α}
    {arr : List (Option α)} (x : α) (hc : Clean cap live arr) (he : e ≤ live.length) (hm : m ≤ cap)
    (hall : m ≤ live.length + 1) :
    Clean cap ((live.take e ++ x :: live.drop e).take m)
      (splitLeftAliased overfillClearsValues arr e (some x) m) := by
  have := slots_refine_split_left_values (all := live.take e ++ x :: live.drop e) hc hm
    (by simp; omega)
  simpa [splitLeftAliased, splitLeft, writeAmalgamDesc_eq x hc he] using this

theorem slots_refine_split_left_aliased_children {cap m e : Nat} {live : List α}
    {arr : List (Option α)} (x : α) (hc : Clean cap live arr) (he : e ≤ live.length) (hm : m ≤ cap)
    (hall : m ≤ live.length + 1) :
    Clean cap ((live.take e ++ x :: live.drop e).take m)
      (splitLeftAliased overfillClearsChildren arr e (some x) m) := by
  have := slots_refine_split_left_children (all := live.take e ++ x :: live.drop e) hc hm
    (by simp; omega)
  simpa [splitLeftAliased, splitLeft, writeAmalgamDesc_eq x hc he] using this

/-! ## instances at the generated array lengths and split point -/

/-- a full node's `keys` after `overfill`: `all` is the amalgam (`keysCap + 1` entries). -/
theorem slots_refine_split_left_keys_full {live all : List α} {arr : List (Option α)}
    (hc : Clean keysCap live arr) (hall : all.length = keysCap + 1) :
    Clean keysCap (all.take leftN.toNat) (splitLeftKeys arr all) :=
  slots_refine_split_left hc (by decide) (by rw [hall]; decide)

theorem slots_refine_split_left_values_full {live all : List α} {arr : List (Option α)}
    (hc : Clean valuesCap live arr) (hall : all.length = valuesCap + 1) :
    Clean valuesCap (all.take leftN.toNat) (splitLeftValues arr all) :=
  slots_refine_split_left_values hc (by decide) (by rw [hall]; decide)

theorem slots_refine_split_left_children_full {live all : List α} {arr : List (Option α)}
    (hc : Clean childrenCap live arr) (hall : all.length = childrenCap + 1) :
    Clean childrenCap (all.take (leftN.toNat + 1)) (splitLeftChildren arr all) :=
  slots_refine_split_left_children hc (by decide) (by rw [hall]; decide)

/-- the right half of the split is a fresh node filled exactly as `overfillNode` says. -/
theorem slots_refine_split_right_keys {all : List α} (hall : all.length = keysCap + 1) :
    Clean keysCap ((all.drop (rightFirstIdx 0).toNat).take rightN.toNat)
      (splitRight keysCap all (rightFirstIdx 0).toNat rightN.toNat) :=
  slots_refine_splitRight all _ _ (by decide) (by rw [hall]; decide)

theorem slots_refine_split_right_children {all : List α} (hall : all.length = childrenCap + 1) :
    Clean childrenCap ((all.drop (rightFirstChildIdx 0).toNat).take (rightN.toNat + 1))
      (splitRight childrenCap all (rightFirstChildIdx 0).toNat (rightN.toNat + 1)) :=
  slots_refine_splitRight all _ _ (by decide) (by rw [hall]; decide)

/-! ## the same statements in the vocabulary of `Model/BTree.lean` -/

open Juniper.Model.BTree in
theorem slots_refine_leafInsert_insertAt {cap : Nat} {live : List α} {arr : List (Option α)}
    {idx : Nat} (x : α) (hc : Clean cap live arr) (hidx : idx ≤ live.length)
    (hroom : live.length < cap) :
    Clean cap (insertAt live idx x) (leafInsert arr live.length idx (some x)) :=
  slots_refine_leafInsert x hc hidx hroom

open Juniper.Model.BTree in
theorem slots_refine_remove_removeAt {cap : Nat} {live : List α} {arr : List (Option α)}
    {idx : Nat} (hc : Clean cap live arr) (hidx : idx < live.length) :
    Clean cap (removeAt live idx) (remove arr live.length idx) :=
  slots_refine_remove hc hidx

open Juniper.Model.BTree in
theorem slots_refine_replace_replaceAt {cap : Nat} {live : List α} {arr : List (Option α)}
    {idx : Nat} (x : α) (hc : Clean cap live arr) (hidx : idx < live.length) :
    Clean cap (replaceAt live idx x) (replace arr idx (some x)) :=
  slots_refine_replace x hc hidx

end Juniper.Proofs.Tree
