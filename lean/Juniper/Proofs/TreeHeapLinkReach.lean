import Juniper.Proofs.TreeHeapLinkDelete
/-!
# Linking the two B-tree models (C03): reachability

`Reach h j`: the node object `j` is reachable from `h.root` through non-nil child slots (all slots of
the fixed child arrays are followed, like the hook's walk). On related states the reachable objects are
exactly the nodes of the functional tree; hence an unlinked object (a tombstone of the heap model) is
not reachable, and every reachable object represents its node (live prefixes, everything else zero).
-/
namespace Juniper.Proofs.TreeHeapLink
open Juniper Juniper.Model.BTree Juniper.Model.BTreeSlotsOps Juniper.Proofs.Tree Juniper.Proofs.TreeSlotsOps

variable {K V : Type}

/-- reachable from the root through non-nil child slots -/
inductive Reach (h : Heap K V) : Nat → Prop
  | root : Reach h h.root
  | child {id c i : Nat} {x : SNode K V Nat} : Reach h id → h.get id = some x → x.kids[i]? = some (some c) → Reach h c

/-- a non-nil child slot of a represented node holds one of its children -/
theorem slot_mem {a : Slots Nat} {cap : Nat} {l : List Nat} (hr : Rep a cap l) {i c : Nat} (h : a[i]? = some (some c)) :
    c ∈ l := by
  rcases Nat.lt_or_ge i l.length with hlt | hge
  · rw [hr.get_live hlt] at h
    simp only [Option.some.injEq] at h
    rw [← h]; exact List.getElem_mem hlt
  · rcases Nat.lt_or_ge i cap with hc | hc
    · rw [hr.get_tail hge hc] at h; simp at h
    · rw [List.getElem?_eq_none (by rw [hr.length]; exact hc)] at h; cases h

/-- the object of any node of a subtree that is in the store -/
theorem Sub.at {g : Store K V} : ∀ (x : Node K V) {p : Option Nat}, Sub g p x → ∀ j, 0 < cnt j x →
    ∃ (sy : SNode K V Nat) (ykvs : List (K × V)) (ykids : List (Node K V)), g j = some sy ∧ NodeRep sy ykvs (ykids.map Node.id) ∧ (ykids = [] ∨ ykids.length = ykvs.length + 1) ∧
      ∀ c ∈ ykids, 0 < cnt c.id x := by
  intro x
  induction x using node_induct with
  | h id kvs kids ih =>
    intro p hs j hj
    obtain ⟨sx, h1, h2, h3, h4⟩ := sub_mk.mp hs
    by_cases hid : id = j
    · subst hid
      refine ⟨sx, kvs, kids, h1, h3, ?_, ?_⟩
      · rcases h3.hshape with e | e
        · left; simpa using e
        · right; simpa using e
      · intro c hc
        have := cnt_self c
        have := cnt_child_le (id := id) (kvs := kvs) hc c.id
        omega
    · rw [cnt_mk] at hj
      simp only [hid, if_false, Nat.zero_add] at hj
      have : ∃ c ∈ kids, 0 < cnt j c := by
        clear h3 h4 ih hs
        induction kids with
        | nil => simp at hj
        | cons c cs ihc =>
          rw [cntK_cons] at hj
          by_cases hc : 0 < cnt j c
          · exact ⟨c, List.mem_cons_self, hc⟩
          · obtain ⟨d, hd, hdj⟩ := ihc (by omega)
            exact ⟨d, List.mem_cons_of_mem _ hd, hdj⟩
      obtain ⟨c, hc, hcj⟩ := this
      obtain ⟨sy, ykvs, ykids, e1, e2, e3, e4⟩ := ih c hc (h4 c hc) j hcj
      refine ⟨sy, ykvs, ykids, e1, e2, e3, ?_⟩
      intro d hd
      have := e4 d hd
      have := cnt_child_le (id := id) (kvs := kvs) hc d.id
      omega

theorem exists_child_index {kids : List (Node K V)} {j : Nat} (hj : 0 < cntK j kids) :
    ∃ (i : Nat) (c : Node K V), kids[i]? = some c ∧ 0 < cnt j c := by
  induction kids with
  | nil => simp at hj
  | cons c cs ihc =>
    rw [cntK_cons] at hj
    by_cases hc : 0 < cnt j c
    · exact ⟨0, c, rfl, hc⟩
    · obtain ⟨i, d, hd, hdj⟩ := ihc (by omega)
      exact ⟨i + 1, d, by simpa using hd, hdj⟩

/-- every node of the functional tree is reachable in the heap -/
theorem reach_of_cnt {h : Heap K V} : ∀ (x : Node K V) {p : Option Nat}, Sub h.get p x → Reach h x.id →
    ∀ j, 0 < cnt j x → Reach h j := by
  intro x
  induction x using node_induct with
  | h id kvs kids ih =>
    intro p hs hroot j hj
    obtain ⟨sx, h1, h2, h3, h4⟩ := sub_mk.mp hs
    by_cases hid : id = j
    · subst hid; exact hroot
    · rw [cnt_mk] at hj
      simp only [hid, if_false, Nat.zero_add] at hj
      -- `j` lies below child number `i`
      have := exists_child_index hj
      obtain ⟨i, c, hc, hcj⟩ := this
      have hcm := List.mem_of_getElem? hc
      have hil : i < (kids.map Node.id).length := by simpa using (List.getElem?_eq_some_iff.mp hc).1
      have hslot : sx.kids[i]? = some (some c.id) := by
        rw [h3.hkids.get_live hil]
        simp [(List.getElem?_eq_some_iff.mp hc).2]
      exact ih c hcm (h4 c hcm) (Reach.child hroot h1 hslot) j hcj

/-- on related states: reachable in the heap = node of the functional tree -/
theorem reach_iff {h : Heap K V} {t : Tree K V} (hrel : Rel h t) (j : Nat) : Reach h j ↔ 0 < cnt j t.root := by
  constructor
  · intro hr
    induction hr with
    | root => rw [hrel.root]; exact cnt_self t.root
    | child _ hx hslot ih =>
      obtain ⟨sy, ykvs, ykids, e1, e2, _, e4⟩ := Sub.at t.root hrel.sub _ ih
      rw [e1] at hx
      cases hx
      obtain ⟨d, hd, hde⟩ := List.mem_map.mp (slot_mem e2.hkids hslot)
      rw [← hde]; exact e4 d hd
  · intro hj
    exact reach_of_cnt t.root hrel.sub (by rw [← hrel.root]; exact Reach.root) j hj

/-- an unlinked / never allocated object is not reachable -/
theorem unreachable_of_none {h : Heap K V} {t : Tree K V} (hrel : Rel h t) {j : Nat} (hn : h.get j = none) : ¬ Reach h j := by
  intro hr
  have := Sub.present t.root hrel.sub j ((reach_iff hrel j).mp hr)
  rw [hn] at this
  cases this

/-- every reachable object represents a node of the functional tree: cleared tails in particular -/
theorem reachable_rep {h : Heap K V} {t : Tree K V} (hrel : Rel h t) {j : Nat} (hr : Reach h j) :
    ∃ x kvs kids, h.get j = some x ∧ NodeRep x kvs kids ∧ TailOK x := by
  obtain ⟨sy, ykvs, ykids, e1, e2, _, _⟩ := Sub.at t.root hrel.sub j ((reach_iff hrel j).mp hr)
  exact ⟨sy, ykvs, _, e1, e2, e2.tailOK⟩

end Juniper.Proofs.TreeHeapLink
