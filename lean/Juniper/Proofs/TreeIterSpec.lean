import Juniper.Proofs.TreeIterRev
set_option linter.unusedSimpArgs false
/-!
# The resume-key iterator specification and the refinement of `Next` under modification (C02)
-/
namespace Juniper.Proofs.Tree
open Juniper.Model.BTree Juniper.Gen.Tree

variable {K V : Type} {α : Type} {cmp : K → K → Int}

/-! ## the specification: a resume-key iterator over a map that changes between calls -/

/-- `resume = none`: exhausted; otherwise the key to resume from -/
structure SIter (K : Type) where
  resume : Option K
  fwd : Bool
  stop : Option (CmpOp × K)
  done : Bool

/-- the entries still ahead of resume key `k` in the current map -/
def ahead (cmp : K → K → Int) (L : List (K × V)) (fwd : Bool) (k : K) : List (K × V) :=
  if fwd then geS cmp k L else leS cmp k L

/-- one step of the bare resume-key iterator on the current map `L`: yield the first entry at or beyond
the resume key, resume from its successor in `L` -/
def sraw (cmp : K → K → Int) (L : List (K × V)) (fwd : Bool) : Option K → Option K × Option (K × V)
  | none => (none, none)
  | some k =>
    match ahead cmp L fwd k with
    | [] => (none, none)
    | e :: S' => (S'.head?.map (·.1), some e)

/-- `iterator.While` around it -/
def snext (cmp : K → K → Int) (L : List (K × V)) (it : SIter K) : SIter K × Option (K × V) :=
  match it.stop with
  | none =>
    let r := sraw cmp L it.fwd it.resume
    ({ it with resume := r.1 }, r.2)
  | some (op, key) =>
    if it.done then (it, none)
    else
      let r := sraw cmp L it.fwd it.resume
      match r.2 with
      | none => ({ it with resume := r.1 }, none)
      | some e =>
        if evalOp op (cmp e.1 key) then ({ it with resume := r.1 }, some e)
        else ({ it with resume := r.1, done := true }, none)

/-- the abstraction of a model iterator: its cursor is reduced to the remembered key -/
def absIter (it : Iter K) : SIter K :=
  { resume := it.c.pos.map (·.k), fwd := it.fwd, stop := it.stop, done := it.done }

/-- a yielded item agrees with the specification's: equivalent key (the model yields the remembered key
object), exactly the current value -/
def OutRel (cmp : K → K → Int) : Option (K × Option V) → Option (K × V) → Prop
  | none, none => True
  | some (k', v), some e => cmp k' e.1 = 0 ∧ v = some e.2
  | _, _ => False

theorem evalOp_congr (hs : StrictWeak cmp) (op : CmpOp) {a b c : K} (h : cmp a b = 0) :
    evalOp op (cmp a c) = evalOp op (cmp b c) := by
  have hba := hs.eq_symm h
  have h1 : cmp a c < 0 ↔ cmp b c < 0 :=
    ⟨fun x => hs.lt_of_eq_of_lt hba x, fun x => hs.lt_of_eq_of_lt h x⟩
  have h2 : 0 < cmp a c ↔ 0 < cmp b c :=
    ⟨fun x => hs.gt_of_eq_of_gt hba x, fun x => hs.gt_of_eq_of_gt h x⟩
  cases op <;> simp only [evalOp, decide_eq_decide] <;> omega

theorem resume_of_parked {t : Tree K V} {c : Cursor K} {S : List (K × V)} (h : Parked t c S) :
    c.pos.map (·.k) = S.head?.map (·.1) := by
  rcases h with ⟨rfl, h⟩ | ⟨p, _, _, e, h, _, hk, rfl⟩
  · simp [h]
  · simp [h, hk]

theorem resume_of_parkedB {t : Tree K V} {c : Cursor K} {S : List (K × V)} (h : ParkedB t c S) :
    c.pos.map (·.k) = S.head?.map (·.1) := by
  rcases h with ⟨rfl, h⟩ | ⟨p, _, _, e, h, _, hk, rfl⟩
  · simp [h]
  · simp [h, hk]

/-- both directions of `rawNext` against `sraw` -/
theorem rawNext_refines (hs : StrictWeak cmp) {t : Tree K V} (hi : Inv cmp t) (fwd : Bool) {c : Cursor K} (hc : CInv t c) :
    (rawNext cmp t fwd c).1.pos.map (·.k) = (sraw cmp (toList t.root) fwd (c.pos.map (·.k))).1 ∧
    OutRel cmp (rawNext cmp t fwd c).2 (sraw cmp (toList t.root) fwd (c.pos.map (·.k))).2 ∧
    CInv t (rawNext cmp t fwd c).1 := by
  cases fwd with
  | true =>
    have := rawNext_refines_fwd hs hi hc
    cases hp : c.pos with
    | none => rw [hp] at this; simp only at this; simp [this, sraw, OutRel, hp, hc]
    | some p =>
      rw [hp] at this
      simp only at this
      simp only [Option.map_some, sraw, ahead, if_true]
      cases hS : geS cmp p.k (toList t.root) with
      | nil =>
        rw [hS] at this
        obtain ⟨c', h1, h2, h3⟩ := this
        simp [h1, h2, OutRel, h3]
      | cons e S' =>
        rw [hS] at this
        obtain ⟨c', k', h1, h2, h3, h4⟩ := this
        simp only [h1]
        exact ⟨resume_of_parked h3, ⟨h2, rfl⟩, h4⟩
  | false =>
    have := rawNext_refines_bwd hs hi hc
    cases hp : c.pos with
    | none => rw [hp] at this; simp only at this; simp [this, sraw, OutRel, hp, hc]
    | some p =>
      rw [hp] at this
      simp only at this
      simp only [Option.map_some, sraw, ahead, Bool.false_eq_true, if_false]
      cases hS : leS cmp p.k (toList t.root) with
      | nil =>
        rw [hS] at this
        obtain ⟨c', h1, h2, h3⟩ := this
        simp [h1, h2, OutRel, h3]
      | cons e S' =>
        rw [hS] at this
        obtain ⟨c', k', h1, h2, h3, h4⟩ := this
        simp only [h1]
        exact ⟨resume_of_parkedB h3, ⟨h2, rfl⟩, h4⟩

/-- **`Next` of a `Range`/`RangeReverse` iterator (in the `While` formulation `iterNextW`, equivalent to the model's
`iterNext` by `iterNext_eq_while`) on the current tree is the specification's `snext` on the current contents**,
whatever `Put`s and `Delete`s happened since the previous call. -/
theorem iterNextW_refines (hs : StrictWeak cmp) {t : Tree K V} (hi : Inv cmp t) (it : Iter K) (hc : CInv t it.c) :
    absIter (iterNextW cmp t it).1 = (snext cmp (toList t.root) (absIter it)).1 ∧
    OutRel cmp (iterNextW cmp t it).2 (snext cmp (toList t.root) (absIter it)).2 ∧
    CInv t (iterNextW cmp t it).1.c := by
  obtain ⟨r1, r2, r3⟩ := rawNext_refines hs hi it.fwd hc
  unfold iterNextW snext
  cases hst : it.stop with
  | none =>
    simp only [absIter, hst]
    exact ⟨by simp [r1], r2, r3⟩
  | some s =>
    obtain ⟨op, key⟩ := s
    simp only [absIter, hst]
    cases hd : it.done with
    | true => simp [whileChecksDone, absIter, hst, hd, OutRel, hc]
    | false =>
      simp only [whileChecksDone, Bool.false_eq_true, if_false]
      cases ho : (rawNext cmp t it.fwd it.c).2 with
      | none =>
        rw [ho] at r2
        cases hso : (sraw cmp (toList t.root) it.fwd (Option.map (fun x => x.k) it.c.pos)).2 with
        | none => simp [absIter, r1, hst, hd, OutRel, r3]
        | some e => rw [hso] at r2; exact r2.elim
      | some kv =>
        obtain ⟨k', v⟩ := kv
        rw [ho] at r2
        cases hso : (sraw cmp (toList t.root) it.fwd (Option.map (fun x => x.k) it.c.pos)).2 with
        | none => rw [hso] at r2; exact r2.elim
        | some e =>
          rw [hso] at r2
          obtain ⟨hk, hv⟩ := r2
          have hev := evalOp_congr hs op (c := key) hk
          simp only [whileStops]
          cases hb : evalOp op (cmp e.1 key) with
          | true =>
            rw [hb] at hev
            simp [hev, absIter, r1, hst, hd, OutRel, hk, hv, r3]
          | false =>
            rw [hb] at hev
            have hsticky : whileSticky = true := by decide
            simp [hev, absIter, r1, hst, hd, OutRel, r3, hsticky]

end Juniper.Proofs.Tree
