import Juniper.Model.Iter
import Juniper.Proofs.ValueFacts
/-!
# `iterator.One` and `iterator.Equal` spelled out (C07, tie 1)

The models of `One` and `Equal` are written with the regenerated tests (`if !ok`, `if ok`; the loop
header `for i := 1; i < len(iters); i++`, `ok != iterIOk`, `ok && item != iterIItem`, `if !ok`). These
lemmas evaluate them into the plain case analyses the proofs work with; a changed test in the Go source
breaks the lemma.
-/
namespace Juniper.Proofs.IterDen
open Juniper.Model.Iter Juniper.Gen.Comb Juniper.Proofs.ValueFacts
universe u v
variable {σ : Type u} {α : Type v}

/-- `One`: nothing or more than one item → `(zero, false)`; exactly one → that item -/
theorem one_eq (m : IM σ α) (fuel : Nat) (s : σ) :
    one m fuel s =
      match drive m fuel s with
      | (none, s') => (none, s')
      | (some none, s') => (some none, s')
      | (some (some x), s') =>
        match drive m fuel s' with
        | (none, s'') => (none, s'')
        | (some (some _), s'') => (some none, s'')
        | (some none, s'') => (some (some x), s'') := by
  unfold one
  rcases drive m fuel s with ⟨r, s1⟩
  cases r with
  | none => rfl
  | some r1 =>
    cases r1 with
    | none => simp
    | some x =>
      simp only [itOneEmpty_eq, Option.isSome_some, Bool.not_true, Bool.false_eq_true, if_false]
      rcases drive m fuel s1 with ⟨r2, s2⟩
      cases r2 with
      | none => rfl
      | some r2 => cases r2 <;> simp

/-- the inner loop of `Equal` visits `iters[1], iters[2], …` in order -/
theorem equalLoopOk_true : equalLoopOk = true := by decide

end Juniper.Proofs.IterDen
