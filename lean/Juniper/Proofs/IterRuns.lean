import Juniper.Proofs.IterComb
/-!
# `iterator.Runs` (C07): the two-port machine driven by the documented protocol yields the runs
-/
namespace Juniper.Proofs.IterDen
open Juniper.Model.Iter Juniper.Spec Juniper.Gen.Comb
universe u v w
variable {σ : Type u} {σ' : Type w} {α β : Type v}

/-! ## Runs (outer port + inner ports over a shared peekable), driven by the documented protocol -/

abbrev reached := @takeReached

/-- What the protocol machine yields, on annotated items. Mode `some acc`: a run is being collected
(`take` not yet reached); mode `none`: the rest of a run is being skipped. Items are compared with
their predecessor `prev`. -/
def runsGoA (same : α → α → Bool) (take : Option Nat) :
    Option (List α) → α → List (α × Nat) → Nat → List (List α × Nat)
  | some acc, _, [], e => [(acc, e)]
  | none, _, [], _ => []
  | mode, prev, (b, c) :: L, e =>
    if same prev b then
      match mode with
      | some acc =>
        if reached take (acc ++ [b]).length then (acc ++ [b], c) :: runsGoA same take none b L e
        else runsGoA same take (some (acc ++ [b])) b L e
      | none => runsGoA same take none b L e
    else
      (match mode with | some acc => [(acc, c)] | none => []) ++
        (if reached take 0 then ([], c) :: runsGoA same take none b L e
         else if reached take 1 then ([b], c) :: runsGoA same take none b L e
         else runsGoA same take (some [b]) b L e)

/-- a fresh `Runs` iterator -/
def runsStartA (same : α → α → Bool) (take : Option Nat) : List (α × Nat) → Nat → List (List α × Nat)
  | [], _ => []
  | (b, c) :: L, e =>
    if reached take 0 then ([], c) :: runsGoA same take none b L e
    else if reached take 1 then ([b], c) :: runsGoA same take none b L e
    else runsGoA same take (some [b]) b L e

section steps
variable (same : α → α → Bool) (take : Option Nat) (m : IM σ α)

abbrev RC (s : σ) (pkc : Option α) (gen g : Nat) (prev : α) (acc : List α) : RunsProtoSt σ α :=
  ⟨⟨⟨s, pkc⟩, gen, some (g, prev, false)⟩, some (g, acc, acc.length)⟩
abbrev RD (s : σ) (pkc : Option α) (gen g : Nat) (prev : α) (ended : Bool) : RunsProtoSt σ α :=
  ⟨⟨⟨s, pkc⟩, gen, some (g, prev, ended)⟩, none⟩
abbrev RS (s : σ) (pkc : Option α) (gen : Nat) : RunsProtoSt σ α := ⟨⟨⟨s, pkc⟩, gen, none⟩, none⟩

theorem c_reached {s : σ} {pkc : Option α} {gen g : Nat} {prev : α} {acc : List α} (h : reached take acc.length = true) :
    (runsProto same take m).step (RC s pkc gen g prev acc) = (.item acc, RD s pkc gen g prev false) := by
  simp [runsProto, h]

theorem c_skip {s s' : σ} {gen g : Nat} {prev : α} {acc : List α} (h : reached take acc.length = false)
    (hs : m.step s = (.skip, s')) :
    (runsProto same take m).step (RC s none gen g prev acc) = (.skip, RC s' none gen g prev acc) := by
  simp [runsProto, h, runsInner, peekPeek, itPeekPulls, hs]

theorem c_item_same {s s' : σ} {gen g : Nat} {prev b : α} {acc : List α} (h : reached take acc.length = false)
    (hs : m.step s = (.item b, s')) (hb : same prev b = true) :
    (runsProto same take m).step (RC s none gen g prev acc) = (.skip, RC s' none gen g b (acc ++ [b])) := by
  simp [runsProto, h, runsInner, peekPeek, itPeekPulls, hs, hb, peekNext, itPeekNextHas,
    itPeekNextClearsHas, itRunsInnerTracksPrev]

theorem c_item_diff {s s' : σ} {gen g : Nat} {prev b : α} {acc : List α} (h : reached take acc.length = false)
    (hs : m.step s = (.item b, s')) (hb : same prev b = false) :
    (runsProto same take m).step (RC s none gen g prev acc) = (.item acc, RD s' (some b) gen g prev true) := by
  simp [runsProto, h, runsInner, peekPeek, itPeekPulls, hs, hb, itRunsInnerDetaches]

theorem c_done {s s' : σ} {gen g : Nat} {prev : α} {acc : List α} (h : reached take acc.length = false)
    (hs : m.step s = (.done, s')) :
    (runsProto same take m).step (RC s none gen g prev acc) = (.item acc, RD s' none gen g prev true) := by
  simp [runsProto, h, runsInner, peekPeek, itPeekPulls, hs, itRunsInnerDetaches]

theorem c_buf_same {s : σ} {gen g : Nat} {prev b : α} {acc : List α} (h : reached take acc.length = false)
    (hb : same prev b = true) :
    (runsProto same take m).step (RC s (some b) gen g prev acc) = (.skip, RC s none gen g b (acc ++ [b])) := by
  simp [runsProto, h, runsInner, peekPeek, itPeekPulls, hb, peekNext, itPeekNextHas,
    itPeekNextClearsHas, itRunsInnerTracksPrev]

theorem d_ended {s : σ} {pkc : Option α} {gen g : Nat} {prev : α} :
    (runsProto same take m).step (RD s pkc gen g prev true) = (.skip, RS s pkc gen) := by
  simp [runsProto, runsOuter, runsInner, itRunsClearsCurr]

theorem d_skip {s s' : σ} {gen g : Nat} {prev : α} (hs : m.step s = (.skip, s')) :
    (runsProto same take m).step (RD s none gen g prev false) = (.skip, RD s' none gen g prev false) := by
  simp [runsProto, runsOuter, runsInner, peekPeek, itPeekPulls, hs]

theorem d_item_same {s s' : σ} {gen g : Nat} {prev b : α} (hs : m.step s = (.item b, s')) (hb : same prev b = true) :
    (runsProto same take m).step (RD s none gen g prev false) = (.skip, RD s' none gen g b false) := by
  simp [runsProto, runsOuter, runsInner, peekPeek, itPeekPulls, hs, hb, peekNext, itPeekNextHas,
    itPeekNextClearsHas, itRunsInnerTracksPrev]

theorem d_item_diff {s s' : σ} {gen g : Nat} {prev b : α} (hs : m.step s = (.item b, s')) (hb : same prev b = false) :
    (runsProto same take m).step (RD s none gen g prev false) = (.skip, RS s' (some b) gen) := by
  simp [runsProto, runsOuter, runsInner, peekPeek, itPeekPulls, hs, hb, itRunsInnerDetaches, itRunsClearsCurr]

theorem d_done {s s' : σ} {gen g : Nat} {prev : α} (hs : m.step s = (.done, s')) :
    (runsProto same take m).step (RD s none gen g prev false) = (.skip, RS s' none gen) := by
  simp [runsProto, runsOuter, runsInner, peekPeek, itPeekPulls, hs, itRunsInnerDetaches, itRunsClearsCurr]

theorem d_buf_same {s : σ} {gen g : Nat} {prev b : α} (hb : same prev b = true) :
    (runsProto same take m).step (RD s (some b) gen g prev false) = (.skip, RD s none gen g b false) := by
  simp [runsProto, runsOuter, runsInner, peekPeek, itPeekPulls, hb, peekNext, itPeekNextHas,
    itPeekNextClearsHas, itRunsInnerTracksPrev]

theorem s_skip {s s' : σ} {gen : Nat} (hs : m.step s = (.skip, s')) :
    (runsProto same take m).step (RS s none gen) = (.skip, RS s' none gen) := by
  simp [runsProto, runsOuter, peekPeek, itPeekPulls, hs]

theorem s_item {s s' : σ} {gen : Nat} {b : α} (hs : m.step s = (.item b, s')) :
    (runsProto same take m).step (RS s none gen) = (.skip, RC s' (some b) (gen + 1) (gen + 1) b []) := by
  simp [runsProto, runsOuter, peekPeek, itPeekPulls, hs]

theorem s_buf {s : σ} {gen : Nat} {b : α} :
    (runsProto same take m).step (RS s (some b) gen) = (.skip, RC s (some b) (gen + 1) (gen + 1) b []) := by
  simp [runsProto, runsOuter, peekPeek, itPeekPulls]

theorem s_done {s s' : σ} {gen : Nat} (hs : m.step s = (.done, s')) :
    (runsProto same take m).step (RS s none gen) = (.done, RS s' none gen) := by
  simp [runsProto, runsOuter, peekPeek, itPeekPulls, hs]

end steps


/-- what a run starting with the (already pulled) item `b` contributes, and everything after it -/
def runsNewA (same : α → α → Bool) (take : Option Nat) (b : α) (c : Nat) (L : List (α × Nat)) (e : Nat) :
    List (List α × Nat) :=
  if reached take 0 then ([], c) :: runsGoA same take none b L e
  else if reached take 1 then ([b], c) :: runsGoA same take none b L e
  else runsGoA same take (some [b]) b L e

theorem runsGoA_cons_same (same : α → α → Bool) (take : Option Nat) (acc : List α) (prev b : α) (c : Nat)
    (L : List (α × Nat)) (e : Nat) (hb : same prev b = true) :
    runsGoA same take (some acc) prev ((b, c) :: L) e =
      if reached take (acc ++ [b]).length then (acc ++ [b], c) :: runsGoA same take none b L e
      else runsGoA same take (some (acc ++ [b])) b L e := by
  simp [runsGoA, hb]

theorem runsGoA_cons_diff (same : α → α → Bool) (take : Option Nat) (acc : List α) (prev b : α) (c : Nat)
    (L : List (α × Nat)) (e : Nat) (hb : same prev b = false) :
    runsGoA same take (some acc) prev ((b, c) :: L) e = (acc, c) :: runsNewA same take b c L e := by
  simp [runsGoA, hb, runsNewA]

theorem runsGoA_none_same (same : α → α → Bool) (take : Option Nat) (prev b : α) (c : Nat)
    (L : List (α × Nat)) (e : Nat) (hb : same prev b = true) :
    runsGoA same take none prev ((b, c) :: L) e = runsGoA same take none b L e := by
  simp [runsGoA, hb]

theorem runsGoA_none_diff (same : α → α → Bool) (take : Option Nat) (prev b : α) (c : Nat)
    (L : List (α × Nat)) (e : Nat) (hb : same prev b = false) :
    runsGoA same take none prev ((b, c) :: L) e = runsNewA same take b c L e := by
  simp [runsGoA, hb, runsNewA]

section main
variable (same : α → α → Bool) (hrefl : ∀ a, same a a = true) (take : Option Nat) {m : IM σ α} {cost : σ → Nat}

/-- cost of the protocol machine = cost of the underlying iterator -/
abbrev rcost (cost : σ → Nat) : RunsProtoSt σ α → Nat := fun st => cost st.rs.pk.inner

include hrefl in
/-- from the state in which the first item `b` of a new run sits in the peek buffer and the new
inner iterator has just been handed out -/
theorem runs_buffered {s' : σ} {b : α} {L : List (α × Nat)} {e : Nat}
    (ihc : ∀ gen g prev acc, reached take acc.length = false →
      Den (runsProto same take m) (rcost cost) (RC s' none gen g prev acc) (runsGoA same take (some acc) prev L e) e)
    (ihd : ∀ gen g prev, Den (runsProto same take m) (rcost cost) (RD s' none gen g prev false) (runsGoA same take none prev L e) e)
    (gen g : Nat) :
    Den (runsProto same take m) (rcost cost) (RC s' (some b) gen g b []) (runsNewA same take b (cost s') L e) e := by
  unfold runsNewA
  by_cases h0 : reached take 0 = true
  · rw [if_pos h0]
    have h1 := c_reached same take m (s := s') (pkc := some b) (gen := gen) (g := g) (prev := b) (acc := []) h0
    refine .item (cost := rcost cost) h1 ?_
    exact .skip (d_buf_same same take m (hrefl b)) (ihd gen g b)
  · have h0' : reached take ([] : List α).length = false := by simpa using h0
    rw [if_neg h0]
    refine .skip (c_buf_same same take m h0' (hrefl b)) ?_
    by_cases h1 : reached take 1 = true
    · rw [if_pos h1]
      have := c_reached same take m (s := s') (pkc := none) (gen := gen) (g := g) (prev := b) (acc := [] ++ [b])
        (by simpa using h1)
      exact .item (cost := rcost cost) this (ihd gen g b)
    · rw [if_neg h1]
      exact ihc gen g b ([] ++ [b]) (by simpa using h1)

theorem runs_ended {s' : σ} (he : Ended m s') (hc : ∀ n, cost (after m n s') = cost s') (gen : Nat) :
    Den (runsProto same take m) (rcost cost) (RS s' none gen) [] (cost s') := by
  have hw := ended_wrapper (m := m) (m' := runsProto same take m) (cost := cost) (fun st => st.rs.pk.inner)
    (fun st => st.cur = none ∧ st.rs.live = none ∧ st.rs.pk.curr = none) (by
      intro t hq het
      obtain ⟨t', hx, _⟩ := Ended.step' het
      obtain ⟨⟨⟨ti, tc⟩, tg, tl⟩, tcur⟩ := t
      simp only at hq hx
      obtain ⟨rfl, rfl, rfl⟩ := hq
      have := s_done same take m (gen := tg) hx
      simp only [RS] at this
      rw [this]
      exact ⟨rfl, ⟨rfl, rfl, rfl⟩, Or.inl (by simp [hx])⟩) (t := RS s' none gen) ⟨rfl, rfl, rfl⟩ he hc
  exact den_of_ended (cost := rcost cost) hw.1 hw.2

include hrefl in
theorem runs_den {s : σ} {L : List (α × Nat)} {e : Nat} (h : Den m cost s L e) :
    (∀ gen g prev acc, reached take acc.length = false →
      Den (runsProto same take m) (rcost cost) (RC s none gen g prev acc) (runsGoA same take (some acc) prev L e) e) ∧
    (∀ gen g prev, Den (runsProto same take m) (rcost cost) (RD s none gen g prev false) (runsGoA same take none prev L e) e) ∧
    (∀ gen, Den (runsProto same take m) (rcost cost) (RS s none gen) (runsStartA same take L e) e) := by
  have _tie := Skeleton.Tie.itRuns
  induction h with
  | @skip s s' L e hs _ ih =>
    obtain ⟨ihc, ihd, ihs⟩ := ih
    exact ⟨fun gen g prev acc hr => .skip (c_skip same take m hr hs) (ihc gen g prev acc hr),
      fun gen g prev => .skip (d_skip same take m hs) (ihd gen g prev),
      fun gen => .skip (s_skip same take m hs) (ihs gen)⟩
  | @item s s' b L e hs _ ih =>
    obtain ⟨ihc, ihd, _⟩ := ih
    have hbuf := fun gen g => runs_buffered same hrefl take (b := b) ihc ihd gen g
    refine ⟨fun gen g prev acc hr => ?_, fun gen g prev => ?_, fun gen => ?_⟩
    · by_cases hb : same prev b = true
      · rw [runsGoA_cons_same same take acc prev b _ L e hb]
        refine .skip (c_item_same same take m hr hs hb) ?_
        by_cases hr' : reached take (acc ++ [b]).length = true
        · rw [if_pos hr']
          exact .item (cost := rcost cost) (c_reached same take m hr') (ihd gen g b)
        · rw [if_neg hr']
          exact ihc gen g b (acc ++ [b]) (by simpa using hr')
      · have hb' : same prev b = false := by simpa using hb
        rw [runsGoA_cons_diff same take acc prev b _ L e hb']
        refine .item (cost := rcost cost) (c_item_diff same take m hr hs hb') ?_
        refine .skip (d_ended same take m) ?_
        exact .skip (s_buf same take m) (hbuf (gen + 1) (gen + 1))
    · by_cases hb : same prev b = true
      · rw [runsGoA_none_same same take prev b _ L e hb]
        exact .skip (d_item_same same take m hs hb) (ihd gen g b)
      · have hb' : same prev b = false := by simpa using hb
        rw [runsGoA_none_diff same take prev b _ L e hb']
        refine .skip (d_item_diff same take m hs hb') ?_
        exact .skip (s_buf same take m) (hbuf (gen + 1) (gen + 1))
    · have : runsStartA same take ((b, cost s') :: L) e = runsNewA same take b (cost s') L e := rfl
      rw [this]
      exact .skip (s_item same take m hs) (hbuf (gen + 1) (gen + 1))
  | @done s s' hs he hc =>
    have hend := fun gen => runs_ended same take (cost := cost) he hc gen
    refine ⟨fun gen g prev acc hr => ?_, fun gen g prev => ?_, fun gen => ?_⟩
    · have : runsGoA same take (some acc) prev [] (cost s') = [(acc, cost s')] := rfl
      rw [this]
      refine .item (cost := rcost cost) (c_done same take m hr hs) ?_
      exact .skip (d_ended same take m) (hend gen)
    · have : runsGoA same take none prev [] (cost s') = [] := rfl
      rw [this]
      exact .skip (d_done same take m hs) (hend gen)
    · have : runsStartA same take ([] : List (α × Nat)) (cost s') = [] := rfl
      rw [this]
      have hw := ended_wrapper (m := m) (m' := runsProto same take m) (cost := cost) (fun st => st.rs.pk.inner)
        (fun st => st.cur = none ∧ st.rs.live = none ∧ st.rs.pk.curr = none) (by
          intro t hq het
          obtain ⟨t', hx, _⟩ := Ended.step' het
          obtain ⟨⟨⟨ti, tc⟩, tg, tl⟩, tcur⟩ := t
          simp only at hq hx
          obtain ⟨rfl, rfl, rfl⟩ := hq
          have := s_done same take m (gen := tg) hx
          simp only [RS] at this
          rw [this]
          exact ⟨rfl, ⟨rfl, rfl, rfl⟩, Or.inl (by simp [hx])⟩) (t := RS s' none gen) ⟨rfl, rfl, rfl⟩ he hc
      exact .done (cost := rcost cost) (s_done same take m hs) hw.1 hw.2

end main


/-! the protocol machine with `take = none` yields exactly the runs of the documentation -/

theorem runsGoA_all_fst (same : α → α → Bool) (acc : List α) (prev : α) (L : List (α × Nat)) (e : Nat) :
    (runsGoA same none (some acc) prev L e).map Prod.fst = Seq.runsGo same acc prev (L.map Prod.fst) := by
  induction L generalizing acc prev with
  | nil => rfl
  | cons p L ih =>
    obtain ⟨b, c⟩ := p
    by_cases hb : same prev b = true
    · rw [runsGoA_cons_same same none acc prev b c L e hb]
      simp only [reached, takeReached, Bool.false_eq_true, if_false, List.map_cons, Seq.runsGo, hb, if_true]
      exact ih _ _
    · have hb' : same prev b = false := by simpa using hb
      rw [runsGoA_cons_diff same none acc prev b c L e hb']
      simp only [runsNewA, reached, takeReached, Bool.false_eq_true, if_false, List.map_cons, Seq.runsGo, hb']
      rw [ih]

theorem runsStartA_all_fst (same : α → α → Bool) (L : List (α × Nat)) (e : Nat) :
    (runsStartA same none L e).map Prod.fst = Seq.runs same (L.map Prod.fst) := by
  cases L with
  | nil => rfl
  | cons p L =>
    obtain ⟨b, c⟩ := p
    simp only [runsStartA, reached, takeReached, Bool.false_eq_true, if_false, List.map_cons, Seq.runs]
    exact runsGoA_all_fst same [b] b L e

end Juniper.Proofs.IterDen
