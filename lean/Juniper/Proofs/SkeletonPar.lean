import Juniper.Generated.SkeletonPar
import Juniper.Proofs.SkeletonParDo
/-!
# Control-skeleton ties for `parallel.Do` / `DoContext` / `Map` / `MapContext`

The LTSs `Juniper.Model.ParDo` and `Juniper.Model.ParMap` take guards, counter expressions, channel
capacities and `select` tables from the regenerated facts (`Juniper.Gen.Par`), but the *order of the
statements* of the worker loops, the dispatcher, `Next` and `Close` is hard-wired in their `step`
functions. The lemmas below pin that order to the Go source: `Juniper.Gen.SkeletonPar.pskel…` is the
sequence of statement kinds of a body as it is in the source now (identifiers and expressions
normalised away, see `tools/gofacts/sites_skeleton_par.go`), the right-hand sides are the skeletons
the models were written against. Renaming a variable or rewriting a condition leaves them alone; an
added, removed or reordered statement, an added early return or fast path, a loop gaining a
condition, a statement moving into or out of a goroutine makes the lemma of that body fail.

The C13 soundness tactics `pardo_sound`, `wrapper_sound` (`Proofs/ParDoBasic.lean`, `Proofs/ParWrap.lean`;
ties of `Do` / `DoContext` / `Map` / `MapContext` in `Proofs/SkeletonParDo.lean`) go `under` their ties, so
every property theorem of C13 depends on them. The skeletons of `MapIterator` / `MapStream` /
`mapIterator.Next` / `mapStream.Next` / `mapStream.Close` (C14, MapStream clauses of C08/C09) are pinned in
`Proofs/ParMapTies.lean` (`IterSkeletons`, `StreamSkeletons`) and discharged by `decide` *inside* every
property theorem of `Props/C14.lean` / `Props/C14Progress.lean` (`iter_ties` / `stream_ties`).
-/
namespace Juniper.Proofs.SkeletonPar
open Juniper.Gen.SkeletonPar

-- `under` and the ties of `Do` / `DoContext` / `Map` / `MapContext` (C13) live in `Proofs/SkeletonParDo.lean`
-- (same namespace), so that a change confined to MapIterator / MapStream does not stop the C13 build.

end Juniper.Proofs.SkeletonPar
