import Juniper.Generated.SkeletonPar
import Juniper.Proofs.SkeletonParDo
/-!
# Control-skeleton ties for `parallel.Do` / `DoContext` / `Map` / `MapContext` / `MapIterator` / `MapStream`

The LTSs `Juniper.Model.ParDo` and `Juniper.Model.ParMap` take guards, counter expressions, channel
capacities and `select` tables from the regenerated facts (`Juniper.Gen.Par`), but the *order of the
statements* of the worker loops, the dispatcher, `Next` and `Close` is hard-wired in their `step`
functions. The lemmas below pin that order to the Go source: `Juniper.Gen.SkeletonPar.pskel…` is the
sequence of statement kinds of a body as it is in the source now (identifiers and expressions
normalised away, see `tools/gofacts/sites_skeleton_par.go`), the right-hand sides are the skeletons
the models were written against. Renaming a variable or rewriting a condition leaves them alone; an
added, removed or reordered statement, an added early return or fast path, a loop gaining a
condition, a statement moving into or out of a goroutine makes the lemma of that body fail.

The C13 soundness tactics `pardo_sound`, `wrapper_sound` (`Proofs/ParDoBasic.lean`, `Proofs/ParWrap.lean`;
ties in `Proofs/SkeletonParDo.lean`) and `stream_code_sound`, `iter_code_sound` (C14, MapStream clauses of
C08/C09) go `under` these ties, so every property theorem of these components depends on them.
-/
namespace Juniper.Proofs.SkeletonPar
open Juniper.Gen.SkeletonPar

-- `under` and the ties of `Do` / `DoContext` / `Map` / `MapContext` (C13) live in `Proofs/SkeletonParDo.lean`
-- (same namespace), so that a change confined to MapIterator / MapStream does not stop the C13 build.

/-! ### parallel.MapIterator -/

/-- `MapIterator`: two clamps, `in`, the iterator value (with the heap comparison), the condition
variable, the dispatcher goroutine, `nDone`, the spawn loop, `return`. -/
theorem pskelMapIterator_tie : pskelMapIterator =
    ["if{assign}", "if{assign}", "define", "define{return}", "assign", "go{define;forever{..};call}",
     "define", "for{go{..}}", "return"] := by decide

/-- dispatcher of `MapIterator`: `i := 0`; forever: pull, `if !ok { break }`, Lock, `for full { Wait }`,
`inFlight++`, Unlock, send, `i++`; `close(in)`. -/
theorem pskelMapIteratorDispatcher_tie : pskelMapIteratorDispatcher =
    ["define", "forever{define;if{break};mcall;for{mcall};assign;mcall;send;assign}", "call"] := by decide

/-- worker of `MapIterator`: `for item := range in { u := f(…); ch <- … }`, then the last one closes `ch`. -/
theorem pskelMapIteratorWorker_tie : pskelMapIteratorWorker =
    ["range{define;send}", "if{call}"] := by decide

/-- `mapIterator.Next`: forever: `if ready { pop; i++; Lock; inFlight--; if … { Signal }; Unlock; return }`,
receive, `if !ok { var zero; return }`, push. -/
theorem pskelMapIteratorNext_tie : pskelMapIteratorNext =
    ["forever{if{define;assign;mcall;assign;if{mcall};mcall;return};define;if{decl;return};mcall}"] := by decide

theorem pskelMapIterator_ties :
    pskelMapIterator =
    ["if{assign}", "if{assign}", "define", "define{return}", "assign", "go{define;forever{..};call}",
     "define", "for{go{..}}", "return"]
    ∧ pskelMapIteratorDispatcher =
    ["define", "forever{define;if{break};mcall;for{mcall};assign;mcall;send;assign}", "call"]
    ∧ pskelMapIteratorWorker =
    ["range{define;send}", "if{call}"]
    ∧ pskelMapIteratorNext =
    ["forever{if{define;assign;mcall;assign;if{mcall};mcall;return};define;if{decl;return};mcall}"] :=
  ⟨pskelMapIterator_tie, pskelMapIteratorDispatcher_tie, pskelMapIteratorWorker_tie, pskelMapIteratorNext_tie⟩

/-! ### parallel.MapStream -/

/-- `MapStream`: two clamps, `in`, `ready`, the token loop, `WithCancel`, `errgroup.WithContext`, the
dispatcher `eg.Go(func …)`, `c`, `nDone`, the spawn loop of `eg.Go(func …)`, `return &mapStream{…}`. -/
theorem pskelMapStream_tie : pskelMapStream =
    ["if{assign}", "if{assign}", "define", "define", "for{send}", "define", "define",
     "mcall{defer;defer;define;forever{..};return}", "define", "define", "for{mcall{..}}", "return{return}"] := by
  decide

/-- dispatcher of `MapStream`: `defer s.Close()`, `defer close(in)`, `i := 0`; forever: pull,
`if End { break } else if err { return }`, `select { ctx.Done: return; ready }`,
`select { ctx.Done: return; in <- … }`, `i++`; `return nil`. -/
theorem pskelMapStreamDispatcher_tie : pskelMapStreamDispatcher =
    ["defer", "defer", "define",
     "forever{define;if{break}else{if{return}};select{recv{return};recv{}};select{recv{return};send{}};assign}",
     "return"] := by decide

/-- worker of `MapStream`: `defer func() { if last { close(c) } }()`; `for item := range in { u, err := f(…);
if err != nil { return err }; select { c <- …; ctx.Done: return } }`; `return nil`. -/
theorem pskelMapStreamWorker_tie : pskelMapStreamWorker =
    ["defer{if{call}}", "range{define;if{return};select{recv{return};send{}}}", "return"] := by decide

/-- `mapStream.Next`: `var zero`; forever: `if ready { pop; i++; release; return }`,
`select { item, ok := <-s.c: if !ok { err := Wait(); if err != nil { return }; return }; push  |  ctx.Done: return }`. -/
theorem pskelMapStreamNext_tie : pskelMapStreamNext =
    ["decl",
     "forever{if{define;assign;send;return};select{recv{if{define;if{return};return};mcall};recv{return}}}"] := by
  decide

/-- `mapStream.Close`: `s.cancel()`, `_ = s.eg.Wait()` and nothing else. -/
theorem pskelMapStreamClose_tie : pskelMapStreamClose =
    ["mcall", "assign"] := by decide

theorem pskelMapStream_ties :
    pskelMapStream =
    ["if{assign}", "if{assign}", "define", "define", "for{send}", "define", "define",
     "mcall{defer;defer;define;forever{..};return}", "define", "define", "for{mcall{..}}", "return{return}"]
    ∧ pskelMapStreamDispatcher =
    ["defer", "defer", "define",
     "forever{define;if{break}else{if{return}};select{recv{return};recv{}};select{recv{return};send{}};assign}",
     "return"]
    ∧ pskelMapStreamWorker =
    ["defer{if{call}}", "range{define;if{return};select{recv{return};send{}}}", "return"]
    ∧ pskelMapStreamNext =
    ["decl",
     "forever{if{define;assign;send;return};select{recv{if{define;if{return};return};mcall};recv{return}}}"]
    ∧ pskelMapStreamClose =
    ["mcall", "assign"] :=
  ⟨pskelMapStream_tie, pskelMapStreamDispatcher_tie, pskelMapStreamWorker_tie, pskelMapStreamNext_tie,
   pskelMapStreamClose_tie⟩

end Juniper.Proofs.SkeletonPar
