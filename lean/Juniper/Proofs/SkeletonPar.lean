import Juniper.Generated.SkeletonPar
/-!
# Control-skeleton ties of the `parallel` package: where they live

The LTSs `Juniper.Model.ParDo` and `Juniper.Model.ParMap` take guards, counter expressions, channel
capacities and `select` tables from the regenerated facts (`Juniper.Gen.Par`), but the *order of the
statements* of the worker loops, the dispatcher, `Next` and `Close` is hard-wired in their `step`
functions. The lemmas below pin that order to the Go source: `Juniper.Gen.SkeletonPar.pskel…` is the
sequence of statement kinds of a body as it is in the source now (identifiers and expressions
normalised away, see `tools/gofacts/sites_skeleton_par.go`), the right-hand sides are the skeletons
the models were written against. Renaming a variable or rewriting a condition leaves them alone; an
added, removed or reordered statement, an added early return or fast path, a loop gaining a
condition, a statement moving into or out of a goroutine makes the lemma of that body fail.

No tie of the `parallel` package is a closed lemma any more. The skeletons of `Do` / `DoContext` / `Map` /
`MapContext` (C13) are the fields `Code.skeleton` / `Wrapper.skeleton` of `Model/ParDo.lean` / `Model/ParWrap.lean`,
hypotheses of `Code.Sound` / `Wrapper.Sound`, discharged by `decide` inside every property theorem of
`Props/C13.lean` / `Props/C13Progress.lean` (`pardo_sound`, `wrapper_sound`). The skeletons of `MapIterator` /
`MapStream` / `mapIterator.Next` / `mapStream.Next` / `mapStream.Close` (C14, MapStream clauses of C08/C09) are
pinned in `Proofs/ParMapTies.lean` (`IterSkeletons`, `StreamSkeletons`) and discharged by `decide` *inside* every
property theorem of `Props/C14.lean` / `Props/C14Progress.lean` (`iter_ties` / `stream_ties`). What is left here is
`under`, used by `Proofs/SkeletonGroup.lean` (C17).
-/
namespace Juniper.Proofs.SkeletonPar
open Juniper.Gen.SkeletonPar

/-- `p`, claimed only for a source whose control skeleton is as the tie `k` says. Conclusions about
the code "as it is in the source now" go through this lemma so that they depend on the tie. -/
theorem under {k p : Prop} (_tie : k) (h : p) : p := h

end Juniper.Proofs.SkeletonPar
