import Juniper.Proofs.CondCount
/-!
# C16: the Signal clause with contexts ending at any moment (audit C16 F3)

`RunInvC` generalises `RunInv` (`Proofs/Cond.lean`): the run may contain `cancel` labels, entered waiters
may have an ended context from the start; the potential is
`nWoken s0 + min (k − newly returned errors) j ≤ nWoken t + buf`.
-/
namespace Juniper.Proofs.Cond
open Juniper.Model.Cond Juniper.Proofs.CondFine

def isErr (w : Waiter) : Bool := match w.pc with | .doneErr => true | _ => false
def nErr (s : State) : Nat := s.ws.countP isErr

/-- Signals, the progress of waiters that are past the lock release, and contexts ending -/
def progressOrCancel : Label → Bool
  | .cancel _ => true
  | l => progressOnly l

theorem counts4_setPc {s : State} {i : Nat} {w : Waiter} (p : Pc) (hw : s.ws[i]? = some w) :
    nUnparked (setPc s i p) + (if isUnparked w then 1 else 0) = nUnparked s + (if isUnparked { w with pc := p } then 1 else 0) ∧
    nParked (setPc s i p) + (if isParked w then 1 else 0) = nParked s + (if isParked { w with pc := p } then 1 else 0) ∧
    nWoken (setPc s i p) + (if isWoken w then 1 else 0) = nWoken s + (if isWoken { w with pc := p } then 1 else 0) ∧
    nErr (setPc s i p) + (if isErr w then 1 else 0) = nErr s + (if isErr { w with pc := p } then 1 else 0) :=
  ⟨countP_setPc _ p hw, countP_setPc _ p hw, countP_setPc _ p hw, countP_setPc _ p hw⟩

structure RunInvC (s0 t : State) (j : Nat) : Prop where
  inv : Inv t
  conserve : nUnparked t + nParked t + nWoken t + nErr t = nUnparked s0 + nParked s0 + nWoken s0 + nErr s0
  unp_le : nUnparked t ≤ nUnparked s0
  woken_ge : nWoken s0 ≤ nWoken t
  err_ge : nErr s0 ≤ nErr t
  pot : nWoken s0 + min (nUnparked s0 + nParked s0 - (nErr t - nErr s0)) j ≤ nWoken t + (chanAt t t.cur).buf

theorem runinvc_init {s : State} (hi : Inv s) : RunInvC s s 0 :=
  ⟨hi, rfl, Nat.le_refl _, Nat.le_refl _, Nat.le_refl _, by simp⟩

theorem runinvc_step {s0 t t' : State} {j : Nat} {l : Label} (hR : RunInvC s0 t j) (h : step Cfg.std t l = some t')
    (hl : progressOrCancel l = true) (hyp : nUnparked s0 ≤ 1 ∨ j + (if isSignal l then 1 else 0) ≤ 1) :
    RunInvC s0 t' (j + (if isSignal l then 1 else 0)) := by
  have hI' := inv_step hR.inv h
  have hle := hR.inv.buf_le
  have hc := hR.conserve
  have hu := hR.unp_le
  have hwg := hR.woken_ge
  have heg := hR.err_ge
  have hp := hR.pot
  cases l with
  | start i => simp [progressOrCancel, progressOnly] at hl
  | release i => simp [progressOrCancel, progressOnly] at hl
  | broadcast => simp [progressOrCancel, progressOnly] at hl
  | hunlock =>
    obtain ⟨_, _, _, rfl⟩ := step_hunlock h
    simpa [isSignal] using (⟨hI', hR.conserve, hR.unp_le, hR.woken_ge, hR.err_ge, hR.pot⟩ : RunInvC s0 _ j)
  | cancel i =>
    obtain ⟨w, hw, _, ht'⟩ := step_cancel h
    simp only [isSignal, Bool.false_eq_true, if_false, Nat.add_zero]
    have c1 : nUnparked t' + (if isUnparked w then 1 else 0)
        = nUnparked t + (if isUnparked { pc := cancelPc Cfg.std w.pc, cancelled := true } then 1 else 0) := by
      rw [ht']; exact countP_modify isUnparked _ t.ws i w hw
    have c2 : nParked t' + (if isParked w then 1 else 0)
        = nParked t + (if isParked { pc := cancelPc Cfg.std w.pc, cancelled := true } then 1 else 0) := by
      rw [ht']; exact countP_modify isParked _ t.ws i w hw
    have c3 : nWoken t' + (if isWoken w then 1 else 0)
        = nWoken t + (if isWoken { pc := cancelPc Cfg.std w.pc, cancelled := true } then 1 else 0) := by
      rw [ht']; exact countP_modify isWoken _ t.ws i w hw
    have c4 : nErr t' + (if isErr w then 1 else 0)
        = nErr t + (if isErr { pc := cancelPc Cfg.std w.pc, cancelled := true } then 1 else 0) := by
      rw [ht']; exact countP_modify isErr _ t.ws i w hw
    have hbuf : (chanAt t' t'.cur).buf = (chanAt t t.cur).buf := by rw [ht']; rfl
    have key : (nUnparked t' = nUnparked t ∧ nParked t' = nParked t ∧ nWoken t' = nWoken t ∧ nErr t' = nErr t) ∨
        (nUnparked t' = nUnparked t ∧ nParked t' + 1 = nParked t ∧ nWoken t' = nWoken t ∧ nErr t' = nErr t + 1) := by
      cases hpc : w.pc <;> simp [isUnparked, isParked, isWoken, isErr, cancelPc, Cfg.std, afterCtx, hpc] at c1 c2 c3 c4
      all_goals first
        | (left; omega)
        | (right; omega)
    rcases key with ⟨k1, k2, k3, k4⟩ | ⟨k1, k2, k3, k4⟩
    · exact ⟨hI', by omega, by omega, by omega, by omega, by rw [hbuf]; omega⟩
    · exact ⟨hI', by omega, by omega, by omega, by omega, by rw [hbuf]; omega⟩
  | relock i =>
    obtain ⟨e, hpc, _, rfl⟩ := step_relock h
    obtain ⟨w, hw, hwpc⟩ := pcOf_some.mp hpc
    have h0 := hR.inv.wait i w hw
    unfold WInv at h0
    simp only [hwpc] at h0
    obtain ⟨_, rfl⟩ := h0
    obtain ⟨c1, c2, c3, c4⟩ := counts4_setPc (s := t) (Pc.doneNil) hw
    simp only [isUnparked, isParked, isWoken, isErr, hwpc, Bool.false_eq_true, if_false, if_true] at c1 c2 c3 c4
    simp only [isSignal, Bool.false_eq_true, if_false, Nat.add_zero]
    refine ⟨hI', ?_, ?_, ?_, ?_, ?_⟩
    · show nUnparked (setPc t i _) + nParked (setPc t i _) + nWoken (setPc t i _) + nErr (setPc t i _) = _; omega
    · show nUnparked (setPc t i _) ≤ _; omega
    · show _ ≤ nWoken (setPc t i _); omega
    · show _ ≤ nErr (setPc t i _); omega
    · show nWoken s0 + min (nUnparked s0 + nParked s0 - (nErr (setPc t i _) - nErr s0)) _ ≤ nWoken (setPc t i _) + (chanAt t t.cur).buf
      omega
  | arrive i c =>
    obtain ⟨w, ch0, hw, hwpc, hcase⟩ := step_arrive h
    have h0 := hR.inv.wait i w hw
    unfold WInv at h0
    simp only [hwpc] at h0
    obtain ⟨_, ch, rfl, hch⟩ := h0
    simp only [Option.getD_some] at hcase
    simp only [isSignal, Bool.false_eq_true, if_false, Nat.add_zero]
    rcases hcase with ⟨_, hready, rfl⟩ | ⟨_, hcan, rfl⟩ | ⟨_, hopen, hbuf, _, rfl⟩
    · -- recv
      obtain ⟨c1, c2, c3, c4⟩ := counts4_setPc (s := t) (Pc.woken false) hw
      simp only [isUnparked, isParked, isWoken, isErr, hwpc, Bool.false_eq_true, if_false, if_true] at c1 c2 c3 c4
      have hws : (recvState t i ch).ws = (setPc t i (.woken false)).ws := by unfold recvState; split <;> rfl
      have e1 : nUnparked (recvState t i ch) = nUnparked (setPc t i (.woken false)) := by unfold nUnparked; rw [hws]
      have e2 : nParked (recvState t i ch) = nParked (setPc t i (.woken false)) := by unfold nParked; rw [hws]
      have e3 : nWoken (recvState t i ch) = nWoken (setPc t i (.woken false)) := by unfold nWoken; rw [hws]
      have e4 : nErr (recvState t i ch) = nErr (setPc t i (.woken false)) := by unfold nErr; rw [hws]
      have hbufs : (chanAt (recvState t i ch) (recvState t i ch).cur).buf + 1 ≥ (chanAt t t.cur).buf := by
        unfold recvState
        cases hcl : (chanAt t ch).closed
        · have hcur : ch = t.cur := by
            by_cases hne : ch = t.cur
            · exact hne
            · have := hR.inv.old_closed ch hch hne
              simp [hcl] at this
          subst hcur
          simp only [Bool.false_eq_true, if_false, chanAt_setPc, setPc_cur]
          rw [chanAt_set_same t t.cur _ hR.inv.cur_lt]
          simp; omega
        · simp
      refine ⟨hI', ?_, ?_, ?_, ?_, ?_⟩
      · rw [e1, e2, e3, e4]; omega
      · rw [e1]; omega
      · rw [e3]; omega
      · rw [e4]; omega
      · show nWoken s0 + min (nUnparked s0 + nParked s0 - (nErr (recvState t i ch) - nErr s0)) _ ≤ nWoken (recvState t i ch) + _
        rw [e3, e4]; omega
    · -- the ctx arm: the waiter returns its context's error
      obtain ⟨c1, c2, c3, c4⟩ := counts4_setPc (s := t) (Pc.doneErr) hw
      simp only [isUnparked, isParked, isWoken, isErr, hwpc, Bool.false_eq_true, if_false, if_true] at c1 c2 c3 c4
      refine ⟨hI', ?_, ?_, ?_, ?_, ?_⟩
      · show nUnparked (setPc t i _) + nParked (setPc t i _) + nWoken (setPc t i _) + nErr (setPc t i _) = _; omega
      · show nUnparked (setPc t i _) ≤ _; omega
      · show _ ≤ nWoken (setPc t i _); omega
      · show _ ≤ nErr (setPc t i _); omega
      · show _ ≤ nWoken (setPc t i _) + (chanAt t t.cur).buf
        have : nErr (setPc t i Pc.doneErr) = nErr t + 1 := by omega
        rw [this]; omega
    · -- park
      obtain ⟨c1, c2, c3, c4⟩ := counts4_setPc (s := t) (Pc.parked ch) hw
      simp only [isUnparked, isParked, isWoken, isErr, hwpc, Bool.false_eq_true, if_false, if_true] at c1 c2 c3 c4
      refine ⟨hI', ?_, ?_, ?_, ?_, ?_⟩
      · show nUnparked (setPc t i _) + nParked (setPc t i _) + nWoken (setPc t i _) + nErr (setPc t i _) = _; omega
      · show nUnparked (setPc t i _) ≤ _; omega
      · show _ ≤ nWoken (setPc t i _); omega
      · show _ ≤ nErr (setPc t i _); omega
      · show _ ≤ nWoken (setPc t i _) + (chanAt t t.cur).buf
        have : nErr (setPc t i (Pc.parked ch)) = nErr t := by omega
        rw [this]; omega
  | signal to =>
    simp only [isSignal, if_true] at hyp ⊢
    cases to with
    | some i =>
      obtain ⟨_, hpc, rfl⟩ := step_signal_some h
      obtain ⟨w, hw, hwpc⟩ := pcOf_some.mp hpc
      obtain ⟨c1, c2, c3, c4⟩ := counts4_setPc (s := t) (Pc.woken false) hw
      simp only [isUnparked, isParked, isWoken, isErr, hwpc, Bool.false_eq_true, if_false, if_true] at c1 c2 c3 c4
      refine ⟨hI', ?_, ?_, ?_, ?_, ?_⟩
      · show nUnparked (setPc t i _) + nParked (setPc t i _) + nWoken (setPc t i _) + nErr (setPc t i _) = _; omega
      · show nUnparked (setPc t i _) ≤ _; omega
      · show _ ≤ nWoken (setPc t i _); omega
      · show _ ≤ nErr (setPc t i _); omega
      · show _ ≤ nWoken (setPc t i _) + (chanAt t t.cur).buf
        have : nErr (setPc t i (Pc.woken false)) = nErr t := by omega
        rw [this]; omega
    | none =>
      obtain ⟨hcl, hnp, hcase⟩ := step_signal_none h
      rcases hcase with ⟨hlt, rfl⟩ | ⟨hge, rfl⟩
      · refine ⟨hI', hR.conserve, hR.unp_le, hR.woken_ge, hR.err_ge, ?_⟩
        show _ ≤ nWoken t + (chanAt { t with chans := _ } t.cur).buf
        rw [chanAt_set_same t t.cur _ hR.inv.cur_lt]
        show nWoken s0 + min (nUnparked s0 + nParked s0 - (nErr t - nErr s0)) (j + 1) ≤ _
        simp; omega
      · -- the Signal is dropped: the buffer is full and nobody is parked
        have hcap := hR.inv.cur_cap
        have hP : nParked t' = 0 := nParked_zero_of_noParked hR.inv ((any_parked_false_iff t' t'.cur).mp hnp)
        refine ⟨hI', hR.conserve, hR.unp_le, hR.woken_ge, hR.err_ge, ?_⟩
        rcases hyp with h1 | h1 <;> omega

theorem runinvc_run {s0 : State} {ls : List Label} : ∀ {t s' : State} {j : Nat}, RunInvC s0 t j → run Cfg.std t ls = some s' →
    (∀ l ∈ ls, progressOrCancel l = true) → (nUnparked s0 ≤ 1 ∨ j + nSignals ls ≤ 1) → RunInvC s0 s' (j + nSignals ls) := by
  induction ls with
  | nil =>
    intro t s' j hR h _ _
    simp only [run, Option.some.injEq] at h
    subst h
    simpa [nSignals] using hR
  | cons l ls ih =>
    intro t s' j hR h hl hyp
    simp only [run] at h
    split at h
    · rename_i t1 h1
      have hns : nSignals (l :: ls) = (if isSignal l then 1 else 0) + nSignals ls := by
        simp only [nSignals, List.countP_cons]; omega
      rw [hns] at hyp ⊢
      have hR1 := runinvc_step hR h1 (hl l (by simp)) (by rcases hyp with h | h; exact .inl h; right; omega)
      have := ih hR1 h (fun l' hl' => hl l' (by simp [hl'])) (by rcases hyp with h | h; exact .inl h; right; omega)
      rw [Nat.add_assoc] at this
      exact this
    · cases h

/-- the counting conclusion once every waiter has reached the `select` -/
theorem runinvc_final {s0 s' : State} {m : Nat} (hR : RunInvC s0 s' m) (hu : nUnparked s' = 0) :
    min (nUnparked s0 + nParked s0 - (nErr s' - nErr s0)) m ≤ nWoken s' - nWoken s0 := by
  have hc := hR.conserve
  have hp := hR.pot
  have hle := hR.inv.buf_le
  have heg := hR.err_ge
  have hwg := hR.woken_ge
  by_cases hb : (chanAt s' s'.cur).buf = 0
  · omega
  · have hP : nParked s' = 0 := nParked_zero_of_noParked hR.inv (hR.inv.buf_parked (by omega))
    omega

/-! ## attribution in runs with expiries -/

/-- where the pc of a waiter that started at `p0` can be after Signals, waiter progress and expiries (but no
`start` / `release`): an entered waiter anywhere; a woken one still waiting for the lock or returned; everybody
else where it was -/
def okAfter (p0 p : Pc) : Bool :=
  match p0 with
  | .unlocked _ => true
  | .parked _ => true
  | .woken e => p == .woken e || p == (if e then .doneErr else .doneNil)
  | _ => p == p0

theorem okAfter_refl (p : Pc) : okAfter p p = true := by cases p <;> simp [okAfter]

theorem quietc_step_pc {s s' : State} {l : Label} {i : Nat} {w : Waiter} (h : step Cfg.std s l = some s')
    (hl : progressOrCancel l = true) (hw : s.ws[i]? = some w) :
    ∃ w', s'.ws[i]? = some w' ∧
      (w'.pc = w.pc ∨ isEntered w = true ∨ ∃ e, w.pc = .woken e ∧ w'.pc = (if e then .doneErr else .doneNil)) := by
  have viaSet : ∀ (t : State) (j : Nat) (p : Pc), t.ws = s.ws →
      (∀ wj, s.ws[j]? = some wj → isEntered wj = true ∨ ∃ e, wj.pc = .woken e ∧ p = (if e then .doneErr else .doneNil)) →
      ∃ w', (setPc t j p).ws[i]? = some w' ∧
        (w'.pc = w.pc ∨ isEntered w = true ∨ ∃ e, w.pc = .woken e ∧ w'.pc = (if e then .doneErr else .doneNil)) := by
    intro t j p hws hj
    by_cases hji : i = j
    · subst hji
      refine ⟨{ w with pc := p }, by rw [setPc_get, hws, hw]; simp, ?_⟩
      rcases hj w hw with h1 | ⟨e, h1, h2⟩
      · exact Or.inr (Or.inl h1)
      · exact Or.inr (Or.inr ⟨e, h1, h2⟩)
    · exact ⟨w, by rw [setPc_frame _ _ _ _ hji, hws]; exact hw, Or.inl rfl⟩
  cases l with
  | start j => simp [progressOrCancel, progressOnly] at hl
  | release j => simp [progressOrCancel, progressOnly] at hl
  | broadcast => simp [progressOrCancel, progressOnly] at hl
  | hunlock => obtain ⟨_, _, _, rfl⟩ := step_hunlock h; exact ⟨w, hw, Or.inl rfl⟩
  | cancel j =>
    obtain ⟨wj, hwj, _, rfl⟩ := step_cancel h
    have hget : (s.ws.modify j (fun w => { pc := cancelPc Cfg.std w.pc, cancelled := true }))[i]? = _ := List.getElem?_modify _ j s.ws i
    rw [hw] at hget
    refine ⟨_, hget, ?_⟩
    by_cases hji : j = i
    · simp only [hji, if_true, Option.map_some]
      cases hp : w.pc <;> simp [cancelPc, Cfg.std, afterCtx, isEntered, isUnparked, isParked, hp]
    · simp [hji]
  | relock j =>
    obtain ⟨e, hpc, _, rfl⟩ := step_relock h
    obtain ⟨wj, hwj, hp⟩ := pcOf_some.mp hpc
    exact viaSet s j _ rfl (fun x hx => by rw [hwj] at hx; cases hx; exact Or.inr ⟨e, hp, rfl⟩)
  | arrive j c =>
    obtain ⟨wj, ch0, hwj, hp, hcase⟩ := step_arrive h
    have hj : ∀ (p : Pc) x, s.ws[j]? = some x → isEntered x = true ∨ ∃ e, x.pc = .woken e ∧ p = (if e then .doneErr else .doneNil) :=
      fun p x hx => by rw [hwj] at hx; cases hx; left; simp [isEntered, isUnparked, hp]
    rcases hcase with ⟨_, _, rfl⟩ | ⟨_, _, rfl⟩ | ⟨_, _, _, _, rfl⟩
    · unfold recvState
      exact viaSet _ j _ (by split <;> rfl) (hj _)
    · exact viaSet s j _ rfl (hj _)
    · exact viaSet s j _ rfl (hj _)
  | signal to =>
    cases to with
    | some j =>
      obtain ⟨_, hpc, rfl⟩ := step_signal_some h
      obtain ⟨wj, hwj, hp⟩ := pcOf_some.mp hpc
      exact viaSet s j _ rfl (fun x hx => by rw [hwj] at hx; cases hx; left; simp [isEntered, isParked, hp])
    | none =>
      obtain ⟨_, _, hcase⟩ := step_signal_none h
      rcases hcase with ⟨_, rfl⟩ | ⟨_, rfl⟩ <;> exact ⟨w, hw, Or.inl rfl⟩

def pcEntered : Pc → Bool
  | .unlocked _ => true
  | .parked _ => true
  | _ => false

theorem isEntered_eq (w : Waiter) : isEntered w = pcEntered w.pc := by
  unfold isEntered isUnparked isParked pcEntered; cases w.pc <;> rfl

theorem okAfter_step {p0 p p' : Pc} (h0 : okAfter p0 p = true)
    (h : p' = p ∨ pcEntered p = true ∨ ∃ e, p = .woken e ∧ p' = (if e then .doneErr else .doneNil)) :
    okAfter p0 p' = true := by
  rcases h with rfl | h | ⟨e, rfl, rfl⟩
  · exact h0
  · cases p <;> simp [pcEntered] at h
    all_goals (cases p0 <;> simp [okAfter] at h0 ⊢)
    all_goals (rename_i e0; cases e0 <;> simp at h0)
  · cases p0 <;> simp [okAfter] at h0 ⊢
    rename_i e0
    cases e <;> cases e0 <;> simp at h0 ⊢

theorem quietc_run_pc {ls : List Label} : ∀ {s s' : State} {i : Nat} {w : Waiter}, run Cfg.std s ls = some s' →
    (∀ l ∈ ls, progressOrCancel l = true) → s.ws[i]? = some w → ∃ w', s'.ws[i]? = some w' ∧ okAfter w.pc w'.pc = true := by
  suffices H : ∀ {s s' : State} {i : Nat} {p0 : Pc} {w : Waiter}, run Cfg.std s ls = some s' →
      (∀ l ∈ ls, progressOrCancel l = true) → s.ws[i]? = some w → okAfter p0 w.pc = true →
      ∃ w', s'.ws[i]? = some w' ∧ okAfter p0 w'.pc = true by
    intro s s' i w h hl hw
    exact H h hl hw (okAfter_refl _)
  induction ls with
  | nil => intro s s' i p0 w h _ hw h0; simp only [run, Option.some.injEq] at h; subst h; exact ⟨w, hw, h0⟩
  | cons l ls ih =>
    intro s s' i p0 w h hl hw h0
    simp only [run] at h
    split at h
    · rename_i s1 h1
      obtain ⟨w1, hw1, hc⟩ := quietc_step_pc h1 (hl l (by simp)) hw
      refine ih h (fun l' hl' => hl l' (by simp [hl'])) hw1 (okAfter_step h0 ?_)
      rcases hc with hc | hc | hc
      · exact Or.inl hc
      · right; left
        rw [← isEntered_eq]; exact hc
      · exact Or.inr (Or.inr hc)
    · cases h

/-- **With expiries too, every newly woken waiter and every waiter that newly returned an error is one of
those that had entered** (runs without `start` / `release` / `broadcast`, from a reachable state). -/
theorem quietc_of_them {s s' : State} {ls : List Label} (hi : Inv s) (h : run Cfg.std s ls = some s')
    (hl : ∀ l ∈ ls, progressOrCancel l = true) :
    nWoken s' ≤ nWoken s + nWokenOfThem s s' ∧ nErr s' ≤ nErr s + nErrOfThem s s' := by
  have hlen : s.ws.length = s'.ws.length := by
    clear hi
    induction ls generalizing s with
    | nil => simp only [run, Option.some.injEq] at h; subst h; rfl
    | cons l ls ih =>
      simp only [run] at h
      split at h
      · rename_i s1 h1; rw [← ih h (fun l' hl' => hl l' (by simp [hl'])), step_ws_length h1]
      · cases h
  have point : ∀ x ∈ s.ws.zip s'.ws, okAfter x.1.pc x.2.pc = true ∧ x.1.pc ≠ .woken true := by
    intro x hx
    obtain ⟨i, hix⟩ := List.mem_iff_getElem?.mp hx
    rw [List.getElem?_zip_eq_some] at hix
    obtain ⟨h1, h2⟩ := hix
    obtain ⟨w', hw', hok⟩ := quietc_run_pc h hl h1
    rw [h2] at hw'; cases hw'
    refine ⟨hok, ?_⟩
    intro hp
    have := hi.wait i x.1 h1
    unfold WInv at this
    simp [hp] at this
  constructor
  · unfold nWoken nWokenOfThem
    apply countP_zip_le isWoken isWoken _ s.ws s'.ws hlen
    intro x hx hq
    obtain ⟨hok, _⟩ := point x hx
    obtain ⟨a, b⟩ := x
    simp only at hok hq ⊢
    revert hok hq
    unfold okAfter isEntered isUnparked isParked isWoken
    cases a.pc <;> cases hb : b.pc <;> simp
    all_goals (try (intro h1; split at h1 <;> simp_all))
  · unfold nErr nErrOfThem
    apply countP_zip_le isErr isErr _ s.ws s'.ws hlen
    intro x hx hq
    obtain ⟨hok, hnt⟩ := point x hx
    obtain ⟨a, b⟩ := x
    simp only at hok hq hnt ⊢
    revert hok hq hnt
    unfold okAfter isEntered isUnparked isParked isErr
    cases a.pc <;> cases hb : b.pc <;> simp
    all_goals (try (intro h1; split at h1 <;> simp_all))

end Juniper.Proofs.Cond
