import Juniper.Proofs.PipeLive
/-!
Wait-queue discipline of the unbuffered data channel: a `Send` and a `Next` are never parked at the
same time. (The one that arrives second finds the first in the wait queue when it polls — `handoff` —
instead of parking; the poll-and-park of the Go runtime is atomic, and so is the `park` label.) With
`canHandoff` requiring *exactly one* parked side, this is what rules out a lost rendez-vous: a pending
`Send` and a pending `Next` on an unbuffered pipe always have an enabled step
(`Props/C10Progress.lean`).
-/
namespace Juniper.Proofs.Pipe
open Juniper.Facts Juniper.Gen.Pipe Juniper.Model.Pipe

/-- The facts about the regenerated tables this needs: `Send` offers on the data channel, `Next`
accepts from it. -/
structure QueueFacts : Prop where
  sendData : sendArms.contains (.send chData) = true
  nextData : nextArms.contains (.recv chData) = true

/-- On an unbuffered pipe, while `Next` is parked no `Send` is parked. -/
def QInv (st : State) : Prop :=
  st.cap = 0 → st.rpc.parked = true → ∀ sd ∈ st.senders, sd.pc.parked = false

theorem parked_send {pc : SPc} (h : pc.parked = true) : ∃ m, pc = .send m true := by
  cases pc with
  | send m p => simp [SPc.parked] at h; subst h; exact ⟨m, rfl⟩
  | _ => simp [SPc.parked] at h

theorem parked_next {pc : RPc} (h : pc.parked = true) : pc = .next true := by
  cases pc with
  | next p => simp [RPc.parked] at h; subst h; rfl
  | _ => simp [RPc.parked] at h

theorem qinv_setSender {st : State} {i : Nat} {sd' : Sender} (h : QInv st) (hp : sd'.pc.parked = false) :
    QInv (st.setSender i sd') := by
  intro hc hr sd hmem
  rcases List.mem_or_eq_of_mem_set hmem with h1 | h1
  · exact h hc hr sd h1
  · subst h1; exact hp

theorem qinv_step {st st' : State} {l : Label} (hF : QueueFacts) (h : QInv st) (hs : step st l = some st') :
    QInv st' := by
  cases l with
  | startSend i v c =>
    obtain ⟨sd, _, _, rfl⟩ := step_startCall (by simpa [step] using hs)
    exact qinv_setSender h (by simp [SPc.parked])
  | startTry i v c =>
    obtain ⟨sd, _, _, rfl⟩ := step_startCall (by simpa [step] using hs)
    exact qinv_setSender h (by simp [SPc.parked])
  | startNext c =>
    simp only [step] at hs; split at hs
    · simp at hs; subst hs
      intro _ hr; simp [RPc.parked] at hr
    · simp at hs
  | cancelSender i =>
    obtain ⟨sd, hsd, rfl⟩ := step_cancelSender hs
    intro hc hr sd' hmem
    rcases List.mem_or_eq_of_mem_set hmem with h1 | h1
    · exact h hc hr sd' h1
    · subst h1; exact h hc hr sd (List.mem_of_getElem? hsd)
  | cancelNext =>
    simp only [step] at hs; split at hs
    · simp at hs
    · simp at hs; subst hs; exact h
  | closeSender e =>
    simp only [step] at hs; split at hs
    · simp at hs
    · simp at hs; subst hs; exact h
  | closeRecv =>
    simp only [step] at hs; split at hs
    · simp at hs; subst hs; exact h
    · simp at hs
  | sender i a =>
    obtain ⟨sd, m, _, _, _, hcase⟩ := step_sender hs
    rcases hcase with ⟨rfl, _⟩ | ⟨ch, rfl, _, rfl⟩
    · exact qinv_setSender h (after_parked _ _)
    · exact qinv_setSender (st := st) h (after_parked _ _)
  | handoff i =>
    obtain ⟨sd, m, _, _, _, rfl⟩ := step_handoff hs
    intro _ hr; simp [RPc.parked] at hr
  | park i =>
    obtain ⟨sd, m, hsd, hpc, hready, rfl⟩ := step_park hs
    intro hc hr
    exfalso
    have hr' : st.rpc = .next true := parked_next hr
    have : canHandoff st sd = true := by
      simp [canHandoff, offers, accepts, hpc, hr', tableOf, rtableOf, SPc.parked, RPc.parked]
      exact ⟨⟨hc, by simpa using hF.sendData⟩, by simpa using hF.nextData⟩
    simp [sDefaultReady, this] at hready
  | parkRecv =>
    obtain ⟨hpc, hready, rfl⟩ := step_parkRecv hs
    intro hc _ sd hmem
    cases hp : sd.pc.parked with
    | false => rfl
    | true =>
      exfalso
      obtain ⟨m, hm⟩ := parked_send hp
      have : canHandoff st sd = true := by
        simp [canHandoff, offers, accepts, hpc, hm, tableOf, rtableOf, SPc.parked, RPc.parked]
        exact ⟨⟨hc, by simpa using hF.sendData⟩, by simpa using hF.nextData⟩
      have hany : st.senders.any (canHandoff st) = true := List.any_eq_true.mpr ⟨sd, hmem, this⟩
      simp [rDefaultReady, hany] at hready
  | recv a =>
    obtain ⟨_, hcase⟩ := step_recv hs
    rcases hcase with ⟨m, rest, _, _, rfl⟩ | ⟨_, _, _, _, rfl⟩ | ⟨_, _, _, rfl⟩ | ⟨ch, _, _, _, rfl⟩ | ⟨_, _, _, rfl⟩ <;>
      (intro _ hr; simp [RPc.parked, reportEnd] at hr)

theorem qinv_reach {n b : Nat} {st : State} (hF : QueueFacts) (hr : Reach (init n b) st) : QInv st := by
  induction hr with
  | refl => intro _ hr; simp [init, RPc.parked] at hr
  | step _ hs ih => exact qinv_step hF ih hs

end Juniper.Proofs.Pipe
