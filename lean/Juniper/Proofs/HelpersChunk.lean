import Juniper.Proofs.HelpersBasic
/-! `xslices.Chunk` (C19, group C): panics exactly for a non-positive chunk size; otherwise the chunks
concatenate to the input, there are `ceil(len/size)` of them, all of size `size` except possibly the last. -/
namespace Juniper.Proofs.Helpers
open Juniper.Model.Helpers Juniper.Spec.Helpers Juniper.Gen.Helpers
variable {α : Type}

open Juniper.Facts in
/-- the number of chunks, for every length and chunk size that fit in an `int`: no intermediate value
of `(len(s)-1)/chunkSize + 1` leaves the `int64` range -/
theorem chunkN_nat (n m : Nat) (hm : 0 < m) (hn : n ≤ 9223372036854775807) (hm' : m ≤ 9223372036854775807) :
    chunkN (n : Int) (m : Int) = (((n + m - 1) / m : Nat) : Int) := by
  unfold chunkN chunkMake chunkNonEmpty chunkCountNonEmpty chunkCountEmpty
  by_cases h0 : n = 0
  · subst h0
    have : (0 + m - 1) / m = 0 := Nat.div_eq_of_lt (by omega)
    rw [this]; simp
  · have hpos : ((n : Int) > 0) := by omega
    simp only [hpos, decide_true, if_true]
    have e1 : wrap64 ((n : Int) - 1) = ((n - 1 : Nat) : Int) := by
      rw [wrap64_of_range (by omega) (by omega)]; omega
    rw [e1, ← Int.ofNat_tdiv]
    have hq : (n - 1) / m ≤ n - 1 := Nat.div_le_self _ _
    rw [wrap64_nat (n := (n - 1) / m) (by omega)]
    have e2 : (((n - 1) / m : Nat) : Int) + 1 = (((n - 1) / m + 1 : Nat) : Int) := by omega
    rw [e2, wrap64_nat (n := (n - 1) / m + 1) (by omega)]
    have : (n + m - 1) / m = (n - 1) / m + 1 := by
      have : n + m - 1 = (n - 1) + m := by omega
      rw [this, Nat.add_div_right _ hm]
    rw [this]

theorem chunk_idx_lt (n m i : Nat) (hm : 0 < m) (hi : i < (n + m - 1) / m) : i * m < n := by
  have h1 : i + 1 ≤ (n + m - 1) / m := hi
  rw [Nat.le_div_iff_mul_le hm] at h1
  have : (i + 1) * m = i * m + m := Nat.succ_mul i m
  omega

theorem chunk_count_ge (n m : Nat) (hm : 0 < m) : n ≤ ((n + m - 1) / m) * m := by
  have := Nat.lt_mul_div_succ (n + m - 1) hm
  have h2 : m * ((n + m - 1) / m + 1) = ((n + m - 1) / m) * m + m := by
    rw [Nat.mul_succ, Nat.mul_comm]
  omega

seal Juniper.Facts.wrap64
open Juniper.Facts in
/-- one iteration of `Chunk`'s loop, `i * chunkSize < len(s) ≤ MaxInt64`: `i * chunkSize`,
`len(s) - start` and `start + chunkSize` all stay inside `[0, len(s)]`, so the 64-bit arithmetic is exact -/
theorem chunkRange_nat (n m i : Nat) (hn : n ≤ 9223372036854775807) (hlt : i * m < n) :
    (chunkLo (chunkStart i m) (if chunkFull n (chunkStart i m) m then chunkEndFull (chunkStart i m) m else chunkEndLast n),
     chunkHi (chunkStart i m) (if chunkFull n (chunkStart i m) m then chunkEndFull (chunkStart i m) m else chunkEndLast n)) =
    (((i * m : Nat) : Int), ((min ((i + 1) * m) n : Nat) : Int)) := by
  have h2 : (i + 1) * m = i * m + m := Nat.succ_mul i m
  have h0 : chunkStart (i : Int) (m : Int) = ((i * m : Nat) : Int) := by
    have h : i * m ≤ 9223372036854775807 := by omega
    have := wrap64_nat h
    rw [Int.natCast_mul] at this
    exact this
  rw [h0]
  simp only [chunkEndFull, chunkEndLast, chunkFull, chunkLo, chunkHi]
  have e1 : wrap64 ((n : Int) - ((i * m : Nat) : Int)) = ((n - i * m : Nat) : Int) := by
    have h : n - i * m ≤ 9223372036854775807 := by omega
    have := wrap64_nat h
    rw [← this]; congr 1; omega
  simp only [e1]
  by_cases hfull : n - i * m > m
  · have hd : (((n - i * m : Nat) : Int) > (m : Int)) := by omega
    simp only [hd, decide_true, if_true]
    have e2 : wrap64 (((i * m : Nat) : Int) + (m : Int)) = (((i + 1) * m : Nat) : Int) := by
      have h : (i + 1) * m ≤ 9223372036854775807 := by omega
      have := wrap64_nat h
      rw [← this]; congr 1; omega
    simp only [e2]
    congr 2; omega
  · have hd : ¬ (((n - i * m : Nat) : Int) > (m : Int)) := by omega
    simp only [hd, decide_false, Bool.false_eq_true, if_false]
    congr 2; omega

/-- the ranges of `Chunk` over `Nat`: chunk `i` is `[i*m, min ((i+1)*m) n)` -/
theorem chunkRanges_nat (n m : Nat) (hm : 0 < m) (hn : n ≤ 9223372036854775807) (hm' : m ≤ 9223372036854775807) :
    chunkRanges (n : Int) (m : Int) =
      (List.range ((n + m - 1) / m)).map
        (fun i => (((i * m : Nat) : Int), ((min ((i + 1) * m) n : Nat) : Int))) := by
  unfold chunkRanges
  rw [chunkN_nat n m hm hn hm']
  simp only [Int.toNat_natCast]
  apply List.map_congr_left
  intro i hi
  rw [List.mem_range] at hi
  exact chunkRange_nat n m i hn (chunk_idx_lt n m i hm hi)

/-- the first `c` chunks concatenate to the first `c*m` elements -/
theorem chunk_flatten_nat (s : List α) (m c : Nat) :
    (((List.range c).map
        (fun i => (((i * m : Nat) : Int), ((min ((i + 1) * m) s.length : Nat) : Int)))).map
      (fun r => slice s r.1 r.2)).flatten = s.take (c * m) := by
  induction c with
  | zero => simp
  | succ c ih =>
    rw [List.range_succ, List.map_append, List.map_append, List.flatten_append, ih]
    simp only [List.map_cons, List.map_nil, List.flatten_cons, List.flatten_nil, List.append_nil]
    rw [slice_nat, Nat.succ_mul c m, List.take_add]
    congr 1
    rw [List.take_eq_take_iff]
    simp only [List.length_drop]
    omega

theorem chunk_some_nat (n m : Nat) (hm : 0 < m) (hn : n ≤ 9223372036854775807) (hm' : m ≤ 9223372036854775807) :
    chunk (n : Int) (m : Int) = some (chunkRanges (n : Int) (m : Int)) := by
  unfold chunk
  have hp : chunkPanics (m : Int) = false := by simp [chunkPanics]; omega
  have hc : ¬ (chunkN (n : Int) (m : Int) < 0) := by
    rw [chunkN_nat n m hm hn hm']; exact Int.not_lt.mpr (Int.natCast_nonneg _)
  have hall : (chunkRanges (n : Int) (m : Int)).all (fun r => sliceOk r.1 r.2 n) = true := by
    rw [chunkRanges_nat n m hm hn hm', List.all_eq_true]
    intro r hr
    rw [List.mem_map] at hr
    obtain ⟨i, hi, rfl⟩ := hr
    rw [List.mem_range] at hi
    have := chunk_idx_lt n m i hm hi
    have h2 : (i + 1) * m = i * m + m := Nat.succ_mul i m
    rw [sliceOk_iff]
    simp only
    omega
  have h0' : ¬ (m = 0) := by omega
  simp [hp, h0', hc, hall]

/-- `Chunk` panics exactly for a non-positive chunk size — for EVERY `int` chunk size and every slice
length an `int` can hold (`0 ≤ len ≤ MaxInt64`), in 64-bit arithmetic. -/
theorem chunk_panics_iff_nonpositive (len size : Int) (h : 0 ≤ len) (hl : len ≤ 9223372036854775807)
    (hs' : size ≤ 9223372036854775807) : chunk len size = none ↔ size ≤ 0 := by
  constructor
  · intro hn
    by_cases hs : size ≤ 0
    · exact hs
    · exfalso
      have h1 : len = ((len.toNat : Nat) : Int) := by omega
      have h2 : size = ((size.toNat : Nat) : Int) := by omega
      rw [h1, h2, chunk_some_nat _ _ (by omega) (by omega) (by omega)] at hn
      simp at hn
  · intro hs
    unfold chunk
    simp [chunkPanics, chunkGuardPanics, hs]

theorem chunk_concat_sizes (s : List α) (size : Int) (h : 0 < size) (hs : size ≤ 9223372036854775807)
    (hl : s.length ≤ 9223372036854775807) :
    ∃ rs, chunk (s.length : Int) size = some rs ∧
      (rs.map (fun r => slice s r.1 r.2)).flatten = s ∧
      (rs.length : Int) = ((s.length : Int) + size - 1) / size ∧
      (∀ r ∈ rs, 0 ≤ r.1 ∧ 0 < r.2 - r.1 ∧ r.2 - r.1 ≤ size ∧ r.2 ≤ s.length) ∧
      (∀ r ∈ rs.dropLast, r.2 - r.1 = size) := by
  obtain ⟨m, rfl⟩ : ∃ m : Nat, size = (m : Int) := ⟨size.toNat, by omega⟩
  have hm : 0 < m := by omega
  have hm' : m ≤ 9223372036854775807 := by omega
  refine ⟨_, chunk_some_nat s.length m hm hl hm', ?_, ?_, ?_, ?_⟩
  · rw [chunkRanges_nat _ _ hm hl hm', chunk_flatten_nat]
    exact List.take_of_length_le (chunk_count_ge _ _ hm)
  · rw [chunkRanges_nat _ _ hm hl hm']
    simp only [List.length_map, List.length_range]
    have : ((s.length : Int) + (m : Int) - 1) = ((s.length + m - 1 : Nat) : Int) := by omega
    rw [this, Int.natCast_ediv]
  · rw [chunkRanges_nat _ _ hm hl hm']
    intro r hr
    rw [List.mem_map] at hr
    obtain ⟨i, hi, rfl⟩ := hr
    rw [List.mem_range] at hi
    have := chunk_idx_lt s.length m i hm hi
    have h2 : (i + 1) * m = i * m + m := Nat.succ_mul i m
    simp only
    omega
  · rw [chunkRanges_nat _ _ hm hl hm']
    intro r hr
    rw [← List.map_dropLast, List.mem_map] at hr
    obtain ⟨i, hi, rfl⟩ := hr
    rw [List.dropLast_eq_take, List.take_range, List.mem_range, List.length_range] at hi
    have h3 : (i + 1) * m < s.length := chunk_idx_lt s.length m (i + 1) hm (by omega)
    have h2 : (i + 1) * m = i * m + m := Nat.succ_mul i m
    simp only
    omega

end Juniper.Proofs.Helpers
