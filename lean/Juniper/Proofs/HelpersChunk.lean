import Juniper.Proofs.HelpersBasic
/-! `xslices.Chunk` (C19, group C): panics exactly for a non-positive chunk size; otherwise the chunks
concatenate to the input, there are `ceil(len/size)` of them, all of size `size` except possibly the last. -/
namespace Juniper.Proofs.Helpers
open Juniper.Model.Helpers Juniper.Spec.Helpers Juniper.Gen.Helpers
variable {α : Type}

theorem chunkCount_nat (n m : Nat) (hm : 0 < m) :
    chunkCount (n : Int) (m : Int) = (((n + m - 1) / m : Nat) : Int) := by
  unfold chunkCount
  rw [Int.tdiv_eq_ediv_of_nonneg (by omega)]
  have : ((n : Int) + (m : Int) - 1) = ((n + m - 1 : Nat) : Int) := by omega
  rw [this, Int.natCast_ediv]

theorem chunk_idx_lt (n m i : Nat) (hm : 0 < m) (hi : i < (n + m - 1) / m) : i * m < n := by
  have h1 : i + 1 ≤ (n + m - 1) / m := hi
  rw [Nat.le_div_iff_mul_le hm] at h1
  have : (i + 1) * m = i * m + m := Nat.succ_mul i m
  omega

theorem chunk_count_ge (n m : Nat) (hm : 0 < m) : n ≤ ((n + m - 1) / m) * m := by
  have := Nat.lt_mul_div_succ (n + m - 1) hm
  have h2 : m * ((n + m - 1) / m + 1) = ((n + m - 1) / m) * m + m := by
    rw [Nat.mul_succ, Nat.mul_comm]
  omega

/-- the ranges of `Chunk` over `Nat`: chunk `i` is `[i*m, min ((i+1)*m) n)` -/
theorem chunkRanges_nat (n m : Nat) (hm : 0 < m) :
    chunkRanges (n : Int) (m : Int) =
      (List.range ((n + m - 1) / m)).map
        (fun i => (((i * m : Nat) : Int), ((min ((i + 1) * m) n : Nat) : Int))) := by
  unfold chunkRanges
  rw [chunkCount_nat n m hm]
  simp only [Int.toNat_natCast]
  apply List.map_congr_left
  intro i _
  simp only [chunkStart, chunkEnd, chunkClip, chunkClipVal, chunkLo, chunkHi]
  have h1 : ((i : Int) + 1) * (m : Int) = (((i + 1) * m : Nat) : Int) := by simp
  have h0 : (i : Int) * (m : Int) = ((i * m : Nat) : Int) := by simp
  simp only [h1, h0, decide_eq_true_eq]
  generalize (i + 1) * m = e
  split
  · congr 2; omega
  · congr 2; omega

/-- the first `c` chunks concatenate to the first `c*m` elements -/
theorem chunk_flatten_nat (s : List α) (m c : Nat) :
    (((List.range c).map
        (fun i => (((i * m : Nat) : Int), ((min ((i + 1) * m) s.length : Nat) : Int)))).map
      (fun r => slice s r.1 r.2)).flatten = s.take (c * m) := by
  induction c with
  | zero => simp
  | succ c ih =>
    rw [List.range_succ, List.map_append, List.map_append, List.flatten_append, ih]
    simp only [List.map_cons, List.map_nil, List.flatten_cons, List.flatten_nil, List.append_nil]
    rw [slice_nat, Nat.succ_mul c m, List.take_add]
    congr 1
    rw [List.take_eq_take_iff]
    simp only [List.length_drop]
    omega

theorem chunk_some_nat (n m : Nat) (hm : 0 < m) :
    chunk (n : Int) (m : Int) = some (chunkRanges (n : Int) (m : Int)) := by
  unfold chunk
  have hp : chunkPanics (m : Int) = false := by simp [chunkPanics]; omega
  have hc : ¬ (chunkCount (n : Int) (m : Int) < 0) := by
    rw [chunkCount_nat n m hm]; exact Int.not_lt.mpr (Int.natCast_nonneg _)
  have hall : (chunkRanges (n : Int) (m : Int)).all (fun r => sliceOk r.1 r.2 n) = true := by
    rw [chunkRanges_nat n m hm, List.all_eq_true]
    intro r hr
    rw [List.mem_map] at hr
    obtain ⟨i, hi, rfl⟩ := hr
    rw [List.mem_range] at hi
    have := chunk_idx_lt n m i hm hi
    have h2 : (i + 1) * m = i * m + m := Nat.succ_mul i m
    rw [sliceOk_iff]
    simp only
    omega
  have h0' : ¬ (m = 0) := by omega
  simp [hp, h0', hc, hall]

theorem chunk_panics_iff_nonpositive (len size : Int) (h : 0 ≤ len) : chunk len size = none ↔ size ≤ 0 := by
  constructor
  · intro hn
    by_cases hs : size ≤ 0
    · exact hs
    · exfalso
      have h1 : len = ((len.toNat : Nat) : Int) := by omega
      have h2 : size = ((size.toNat : Nat) : Int) := by omega
      rw [h1, h2, chunk_some_nat _ _ (by omega)] at hn
      simp at hn
  · intro hs
    unfold chunk
    simp [chunkPanics, chunkGuardPanics, hs]

theorem chunk_concat_sizes (s : List α) (size : Int) (h : 0 < size) :
    ∃ rs, chunk (s.length : Int) size = some rs ∧
      (rs.map (fun r => slice s r.1 r.2)).flatten = s ∧
      (rs.length : Int) = ((s.length : Int) + size - 1) / size ∧
      (∀ r ∈ rs, 0 ≤ r.1 ∧ 0 < r.2 - r.1 ∧ r.2 - r.1 ≤ size ∧ r.2 ≤ s.length) ∧
      (∀ r ∈ rs.dropLast, r.2 - r.1 = size) := by
  obtain ⟨m, rfl⟩ : ∃ m : Nat, size = (m : Int) := ⟨size.toNat, by omega⟩
  have hm : 0 < m := by omega
  refine ⟨_, chunk_some_nat s.length m hm, ?_, ?_, ?_, ?_⟩
  · rw [chunkRanges_nat _ _ hm, chunk_flatten_nat]
    exact List.take_of_length_le (chunk_count_ge _ _ hm)
  · rw [chunkRanges_nat _ _ hm]
    simp only [List.length_map, List.length_range]
    have : ((s.length : Int) + (m : Int) - 1) = ((s.length + m - 1 : Nat) : Int) := by omega
    rw [this, Int.natCast_ediv]
  · rw [chunkRanges_nat _ _ hm]
    intro r hr
    rw [List.mem_map] at hr
    obtain ⟨i, hi, rfl⟩ := hr
    rw [List.mem_range] at hi
    have := chunk_idx_lt s.length m i hm hi
    have h2 : (i + 1) * m = i * m + m := Nat.succ_mul i m
    simp only
    omega
  · rw [chunkRanges_nat _ _ hm]
    intro r hr
    rw [← List.map_dropLast, List.mem_map] at hr
    obtain ⟨i, hi, rfl⟩ := hr
    rw [List.dropLast_eq_take, List.take_range, List.mem_range, List.length_range] at hi
    have h3 : (i + 1) * m < s.length := chunk_idx_lt s.length m (i + 1) hm (by omega)
    have h2 : (i + 1) * m = i * m + m := Nat.succ_mul i m
    simp only
    omega

end Juniper.Proofs.Helpers
