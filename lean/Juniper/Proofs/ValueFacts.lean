import Juniper.Generated.Comb
/-!
# Value-level expressions of the combinators, evaluated (C07, tie 1)

The machines of `Model/Iter.lean` / `Model/Stream.lean` call the *regenerated* expressions where the Go
methods test a callback's answer, compare items, bound a loop or a slice: which callback is called on
which arguments in which order and with which polarity (`!iter.eq(iter.prev, item)`, `iter.keep(item)`,
`!iter.f(item)`, `!ok || !iter.parent.same(iter.prev, item)`), the two tests of `One`, the loop header and
the three tests of `Equal`, the loop conditions of `Join`, the slice bounds of `Last` and
`FlattenSlices`. The lemmas below state what each evaluates to (all by `rfl` / `decide`); they are `simp`
lemmas, so the denotation proofs see the familiar `!eq p a`, `keep a`, …. Swapping the arguments of a
callback, dropping a negation, `for i := 2`, `buf[idx+1:]` in the Go source changes the generated
definition and breaks the lemma of that name (and the theorems of that combinator).
-/
namespace Juniper.Proofs.ValueFacts
open Juniper.Gen.Comb
universe u
variable {α : Type u}

@[simp] theorem itCompactKeeps_eq (eq : α → α → Bool) (p a : α) : itCompactKeeps eq p a = !eq p a := rfl
@[simp] theorem stCompactKeeps_eq (eq : α → α → Bool) (p a : α) : stCompactKeeps eq p a = !eq p a := rfl
@[simp] theorem itFilterKeeps_eq (keep : α → Bool) (a : α) : itFilterKeeps keep a = keep a := rfl
@[simp] theorem stFilterKeeps_eq (b : Bool) : stFilterKeeps b = b := rfl
@[simp] theorem itWhileStops_eq (f : α → Bool) (a : α) : itWhileStops f a = !f a := rfl
@[simp] theorem stWhileStops_eq (b : Bool) : stWhileStops b = !b := rfl
@[simp] theorem itRunsInnerStops_item (same : α → α → Bool) (p a : α) : itRunsInnerStops same p a true = !same p a := by
  simp [itRunsInnerStops]
@[simp] theorem itRunsInnerStops_end (same : α → α → Bool) (p a : α) : itRunsInnerStops same p a false = true := by
  simp [itRunsInnerStops]
@[simp] theorem stRunsInnerStops_eq (same : α → α → Bool) (p a : α) : stRunsInnerStops same p a = !same p a := rfl
@[simp] theorem itOneEmpty_eq (ok : Bool) : itOneEmpty ok = !ok := rfl
@[simp] theorem itOneMore_eq (ok : Bool) : itOneMore ok = ok := rfl
@[simp] theorem itEqualNone_zero : itEqualNone 0 = true := by decide
@[simp] theorem itEqualLenDiff_eq (a b : Bool) : itEqualLenDiff a b = (a != b) := rfl
@[simp] theorem itEqualItemDiff_eq [DecidableEq α] (ok : Bool) (a b : α) : itEqualItemDiff ok a b = (ok && a != b) := rfl
@[simp] theorem itEqualDone_eq (ok : Bool) : itEqualDone ok = !ok := rfl
@[simp] theorem itJoinLoops_eq (n : Nat) : itJoinLoops (n : Int) = decide (0 < n) := by
  simp [itJoinLoops]
@[simp] theorem stJoinLoops_eq (n : Nat) : stJoinLoops (n : Int) = decide (0 < n) := by
  simp [stJoinLoops]
@[simp] theorem stFlattenSlicesHas_eq (n : Nat) : stFlattenSlicesHas (n : Int) = decide (0 < n) := by
  simp [stFlattenSlicesHas]
@[simp] theorem stFlattenSlicesHead_eq : stFlattenSlicesHead.toNat = 0 := by decide
@[simp] theorem stFlattenSlicesRest_eq : stFlattenSlicesRest.toNat = 1 := by decide
@[simp] theorem itLastTake_eq (i n idx : Int) : itLastTake i n idx = i := rfl
@[simp] theorem itLastFrom_eq (i n idx : Int) : itLastFrom i n idx = idx := rfl
@[simp] theorem itLastUpto_eq (i n idx : Int) : itLastUpto i n idx = idx := rfl
@[simp] theorem stLastTake_eq (i n idx : Int) : stLastTake i n idx = i := rfl
@[simp] theorem stLastFrom_eq (i n idx : Int) : stLastFrom i n idx = idx := rfl
@[simp] theorem stLastUpto_eq (i n idx : Int) : stLastUpto i n idx = idx := rfl

end Juniper.Proofs.ValueFacts
