import Juniper.Proofs.HeapOps
import Juniper.Model.PQ
/-!
# The key → index map of the priority queue stays exact

`Idx m a`: every element of the array is recorded in `m` under its current index. Each primitive
step of the heap (`swap`, `notifyIndexChanged`) re-establishes it by the notifications it emits, so
every operation's ordered notification list, applied to any exact map, yields an exact map again
(`notifications_cover_moves`). Stale entries (the popped / removed key) are handled by `delete`.
-/
set_option linter.unusedSimpArgs false
set_option linter.unusedVariables false
set_option linter.unusedSectionVars false
namespace Juniper.Proofs.PQ
open Juniper.Gen.Heap Juniper.Model.Heap Juniper.Model.PQ Juniper.Spec.Heap Juniper.Proofs.Heap

variable {K P : Type} [DecidableEq K]

def keysOf (a : List (KP K P)) : List K := a.map (·.1)

/-! ## the association list as a finite map -/

theorem mGet_mDel (m : IdxMap K) (k k' : K) : mGet (mDel m k) k' = if k = k' then none else mGet m k' := by
  induction m with
  | nil => simp [mDel, mGet]
  | cons e t ih =>
    obtain ⟨k0, v0⟩ := e
    simp only [mDel, List.filter_cons] at ih ⊢
    by_cases h0 : k0 = k
    · subst h0
      simp only [decide_true, Bool.not_true, Bool.false_eq_true, if_false]
      rw [ih]
      by_cases h1 : k0 = k'
      · simp [h1]
      · simp [h1, mGet]
    · simp only [h0, decide_false, Bool.not_false, if_true, mGet]
      rw [ih]
      by_cases h1 : k0 = k'
      · subst h1; simp [Ne.symm h0]
      · simp [h1]

theorem mGet_mSet (m : IdxMap K) (k : K) (v : Int) (k' : K) :
    mGet (mSet m k v) k' = if k = k' then some v else mGet m k' := by
  simp only [mSet, mGet, mGet_mDel]
  by_cases h : k = k' <;> simp [h]

theorem applyNote_eq (m : IdxMap K) (n : Note (KP K P)) : applyNote m n = mSet m n.1.1 (n.2 : Int) := by
  simp [applyNote, pqRecordsIndex]

theorem applyNotes_nil (m : IdxMap K) : applyNotes (P := P) m [] = m := rfl

theorem applyNotes_cons (m : IdxMap K) (n : Note (KP K P)) (t : List (Note (KP K P))) :
    applyNotes m (n :: t) = applyNotes (mSet m n.1.1 (n.2 : Int)) t := by
  simp [applyNotes, List.foldl_cons, applyNote_eq]

theorem applyNotes_append (m : IdxMap K) (s t : List (Note (KP K P))) :
    applyNotes m (s ++ t) = applyNotes (applyNotes m s) t := by
  simp [applyNotes, List.foldl_append]

/-- keys outside the notes keep their entry -/
theorem mGet_applyNotes_of_not_mem (m : IdxMap K) (notes : List (Note (KP K P))) (k : K)
    (h : ∀ n ∈ notes, n.1.1 ≠ k) : mGet (applyNotes m notes) k = mGet m k := by
  induction notes generalizing m with
  | nil => rfl
  | cons n t ih =>
    rw [applyNotes_cons, ih _ (fun n' hn' => h n' (List.mem_cons_of_mem _ hn')), mGet_mSet]
    simp [h n (List.mem_cons_self)]

/-- notifications never invent keys: every key with an entry had one before or was notified -/
theorem dom_applyNotes (m : IdxMap K) (notes : List (Note (KP K P))) (k : K)
    (h : (mGet (applyNotes m notes) k).isSome) : (mGet m k).isSome ∨ ∃ n ∈ notes, n.1.1 = k := by
  induction notes generalizing m with
  | nil => exact Or.inl h
  | cons n t ih =>
    rw [applyNotes_cons] at h
    rcases ih _ h with h1 | ⟨n', hn', hk⟩
    · rw [mGet_mSet] at h1
      by_cases hk : n.1.1 = k
      · exact Or.inr ⟨n, List.mem_cons_self, hk⟩
      · simp [hk] at h1; exact Or.inl h1
    · exact Or.inr ⟨n', List.mem_cons_of_mem _ hn', hk⟩

/-! ## `Idx` -/

/-- every element of the array is recorded under its current index -/
def Idx (m : IdxMap K) (a : List (KP K P)) : Prop :=
  ∀ (i : Nat) (k : K) (p : P), a[i]? = some (k, p) → mGet m k = some (i : Int)

theorem keys_inj {a : List (KP K P)} (nd : (keysOf a).Nodup) {i j : Nat} {k : K} {p p' : P}
    (hi : a[i]? = some (k, p)) (hj : a[j]? = some (k, p')) : i = j := by
  have hil : i < (keysOf a).length := by
    simp [keysOf]
    rcases Nat.lt_or_ge i a.length with h | h
    · exact h
    · rw [List.getElem?_eq_none h] at hi; cases hi
  apply (List.getElem?_inj hil nd).mp
  simp [keysOf, List.getElem?_map, hi, hj]

theorem keysOf_perm {a b : List (KP K P)} (h : a.Perm b) : (keysOf a).Perm (keysOf b) := h.map _

theorem idx_swapN {m : IdxMap K} {a : List (KP K P)} (nd : (keysOf a).Nodup) (h : Idx m a) {i j : Nat}
    (hi : i < a.length) (hj : j < a.length) :
    Idx (applyNotes m (swapN a i j).2) (swapAt a i j) := by
  obtain ⟨⟨ki, pi⟩, hxi⟩ : ∃ x, a[i]? = some x := ⟨a[i], by simp [hi]⟩
  obtain ⟨⟨kj, pj⟩, hxj⟩ : ∃ x, a[j]? = some x := ⟨a[j], by simp [hj]⟩
  have e1 : (swapAt a i j)[i]? = if i = j then a[i]? else a[j]? := by
    rw [getElem?_swapAt hi hj]; by_cases hij : i = j <;> simp [hij]
  have e2 : (swapAt a i j)[j]? = a[i]? := by rw [getElem?_swapAt hi hj]; simp
  rw [swapN_eq]
  simp only [notifyAt_eq, e1, e2, hxi, hxj]
  intro l k p hl
  rw [getElem?_swapAt hi hj] at hl
  by_cases hij : i = j
  · subst hij
    rw [hxi] at hxj; cases hxj
    simp only [if_true, hxi, List.cons_append, List.nil_append, applyNotes_cons, applyNotes_nil, mGet_mSet]
    by_cases hli : l = i
    · subst hli; simp only [if_true, hxi] at hl; cases hl; simp
    · simp only [hli, if_false] at hl
      have : ki ≠ k := fun e => hli (by subst e; exact keys_inj nd hl hxi)
      simp [this]; exact h l k p hl
  · simp only [hij, if_false, hxi, hxj, List.cons_append, List.nil_append, applyNotes_cons, applyNotes_nil,
      mGet_mSet]
    by_cases hlj : l = j
    · subst hlj; simp only [if_true, hxi] at hl; cases hl; simp
    · by_cases hli : l = i
      · subst hli; simp only [hlj, if_false, if_true, hxj] at hl; cases hl
        have : ki ≠ kj := fun e => hij (by subst e; exact keys_inj nd hxi hxj)
        simp [this]
      · simp only [hlj, hli, if_false] at hl
        have n1 : ki ≠ k := fun e => hli (by subst e; exact keys_inj nd hl hxi)
        have n2 : kj ≠ k := fun e => hlj (by subst e; exact keys_inj nd hl hxj)
        simp [n1, n2]; exact h l k p hl

theorem nodup_swapAt {a : List (KP K P)} (nd : (keysOf a).Nodup) (i j : Nat) :
    (keysOf (swapAt a i j)).Nodup := (keysOf_perm (swapAt_perm a i j)).nodup_iff.mpr nd

theorem upLoop_idx (less : KP K P → KP K P → Bool) (f : Nat) {m : IdxMap K} {a : List (KP K P)} {i : Nat}
    (nd : (keysOf a).Nodup) (h : Idx m a) (hi : i < a.length) :
    Idx (applyNotes m (upLoop less f a i).2) (upLoop less f a i).1 := by
  induction f generalizing m a i with
  | zero => exact h
  | succ f ih =>
    rw [upLoop_succ]
    split
    · split
      · simp only [applyNotes_append]
        exact ih (nodup_swapAt nd _ _) (idx_swapN nd h hi (by omega)) (by simp; omega)
      · exact ih nd h (by omega)
    · exact h

theorem downLoop_idx (less : KP K P → KP K P → Bool) (f : Nat) {m : IdxMap K} {a : List (KP K P)} {i : Nat}
    (nd : (keysOf a).Nodup) (h : Idx m a) (hi : i < a.length) :
    Idx (applyNotes m (downLoop less f a i).2) (downLoop less f a i).1 := by
  induction f generalizing m a i with
  | zero => exact h
  | succ f ih =>
    rw [downLoop_succ]
    split
    · exact h
    · rename_i hlen
      have hc : leastChild less a i < a.length := by
        unfold leastChild; split
        · omega
        · split <;> omega
      split
      · simp only [applyNotes_append]
        exact ih (nodup_swapAt nd _ _) (idx_swapN nd h hc hi) (by simp; exact hc)
      · exact h

/-- notes only mention items of the array -/
theorem swapN_notes_mem {a : List (KP K P)} {i j : Nat} {n : Note (KP K P)} (hn : n ∈ (swapN a i j).2) :
    n.1 ∈ a := by
  rw [swapN_eq] at hn
  simp only [notifyAt_eq, List.mem_append] at hn
  have hp := swapAt_perm a i j
  rcases hn with hn | hn
  · split at hn
    · rename_i x hx; simp at hn; subst hn; exact hp.subset (List.mem_of_getElem? hx)
    · cases hn
  · split at hn
    · rename_i x hx; simp at hn; subst hn; exact hp.subset (List.mem_of_getElem? hx)
    · cases hn

theorem upLoop_notes_mem (less : KP K P → KP K P → Bool) (f : Nat) {a : List (KP K P)} {i : Nat}
    {n : Note (KP K P)} (hn : n ∈ (upLoop less f a i).2) : n.1 ∈ a := by
  induction f generalizing a i with
  | zero => cases hn
  | succ f ih =>
    rw [upLoop_succ] at hn
    split at hn
    · split at hn
      · simp only [List.mem_append] at hn
        rcases hn with hn | hn
        · exact swapN_notes_mem hn
        · exact (swapAt_perm _ _ _).subset (ih hn)
      · exact ih hn
    · cases hn

theorem downLoop_notes_mem (less : KP K P → KP K P → Bool) (f : Nat) {a : List (KP K P)} {i : Nat}
    {n : Note (KP K P)} (hn : n ∈ (downLoop less f a i).2) : n.1 ∈ a := by
  induction f generalizing a i with
  | zero => cases hn
  | succ f ih =>
    rw [downLoop_succ] at hn
    split at hn
    · cases hn
    · split at hn
      · simp only [List.mem_append] at hn
        rcases hn with hn | hn
        · exact swapN_notes_mem hn
        · exact (swapAt_perm _ _ _).subset (ih hn)
      · cases hn

theorem notifyAt_mem {a : List (KP K P)} {i : Nat} {n : Note (KP K P)} (hn : n ∈ notifyAt a i) : n.1 ∈ a := by
  rw [notifyAt_eq] at hn
  split at hn
  · rename_i x hx; simp at hn; subst hn; exact List.mem_of_getElem? hx
  · cases hn

/-- `notifyIndexChanged(i)` records the element now at `i` -/
theorem idx_notifyAt {m : IdxMap K} {a : List (KP K P)} {i : Nat} (nd : (keysOf a).Nodup)
    (h : ∀ l k p, l ≠ i → a[l]? = some (k, p) → mGet m k = some (l : Int)) :
    Idx (applyNotes m (notifyAt a i)) a := by
  rw [notifyAt_eq]
  intro l k p hl
  split
  · rename_i x hx
    obtain ⟨kx, px⟩ := x
    simp only [applyNotes_cons, applyNotes_nil, mGet_mSet]
    by_cases hli : l = i
    · subst hli; rw [hx] at hl; cases hl; simp
    · have : kx ≠ k := fun e => hli (by subst e; exact keys_inj nd hl hx)
      simp [this]; exact h l k p hli hl
  · rename_i hx
    simp only [applyNotes_nil]
    by_cases hli : l = i
    · subst hli; rw [hx] at hl; cases hl
    · exact h l k p hli hl

/-- the second loop of `New` records every element, whatever the map held before -/
theorem idx_notifyAll_aux (t : List (KP K P)) (k0 : Nat) (m : IdxMap K) (nd : (keysOf t).Nodup) :
    (∀ i k p, t[i]? = some (k, p) → mGet (applyNotes m (t.zipIdx k0)) k = some ((k0 + i : Nat) : Int)) ∧
    (∀ k, k ∉ keysOf t → mGet (applyNotes m (t.zipIdx k0)) k = mGet m k) := by
  induction t generalizing k0 m with
  | nil => simp [applyNotes_nil]
  | cons x t ih =>
    obtain ⟨kx, px⟩ := x
    simp only [keysOf, List.map_cons, List.nodup_cons] at nd
    obtain ⟨hx, ndt⟩ := nd
    obtain ⟨ih1, ih2⟩ := ih (k0 + 1) (mSet m kx (k0 : Int)) ndt
    simp only [List.zipIdx_cons, applyNotes_cons]
    constructor
    · intro i k p hi
      cases i with
      | zero =>
        simp at hi; obtain ⟨rfl, rfl⟩ := hi
        rw [ih2 _ hx, mGet_mSet]; simp
      | succ i =>
        simp at hi
        rw [ih1 i k p hi]; congr 2; omega
    · intro k hk
      simp only [keysOf, List.map_cons, List.mem_cons, not_or] at hk
      rw [ih2 k hk.2, mGet_mSet]; simp [Ne.symm hk.1]

theorem idx_notifyAll (m : IdxMap K) {a : List (KP K P)} (nd : (keysOf a).Nodup) :
    Idx (applyNotes m (notifyAll a)) a := by
  intro i k p hi
  have := (idx_notifyAll_aux a 0 m nd).1 i k p hi
  simpa [notifyAll, notifyReportsItemAndIndex] using this

end Juniper.Proofs.PQ
