import Juniper.Model.HelpersSlices
import Juniper.Spec.Helpers
/-! Shared lemmas about the slice primitives of the helper models (C19). -/
namespace Juniper.Proofs.Helpers
open Juniper.Model.Helpers

variable {α : Type}

/-! ## 64-bit arithmetic: `wrap64` is the identity exactly on the `int64` range -/

open Juniper.Facts in
theorem wrap64_of_range {x : Int} (h1 : -9223372036854775808 ≤ x) (h2 : x ≤ 9223372036854775807) :
    wrap64 x = x := by
  unfold wrap64; omega

open Juniper.Facts in
/-- `wrap64` of a natural number that fits in an `int` -/
theorem wrap64_nat {n : Nat} (h : n ≤ 9223372036854775807) : wrap64 (n : Int) = (n : Int) :=
  wrap64_of_range (by omega) (by omega)

open Juniper.Facts in
theorem wrap64_range (x : Int) : -9223372036854775808 ≤ wrap64 x ∧ wrap64 x ≤ 9223372036854775807 := by
  unfold wrap64; omega

open Juniper.Facts in
/-- a sum that overflows upwards wraps to the negative side -/
theorem wrap64_overflow_pos {x : Int} (h1 : 9223372036854775808 ≤ x) (h2 : x < 18446744073709551616) :
    wrap64 x = x - 18446744073709551616 := by
  unfold wrap64; omega

open Juniper.Facts in
/-- a difference that overflows downwards wraps to the positive side -/
theorem wrap64_overflow_neg {x : Int} (h1 : -18446744073709551616 ≤ x) (h2 : x < -9223372036854775808) :
    wrap64 x = x + 18446744073709551616 := by
  unfold wrap64; omega

theorem getI_nat (s : List α) (n : Nat) : getI s (n : Int) = s[n]? := by
  unfold getI
  have : ¬ ((n : Int) < 0) := by omega
  simp [this]

theorem getI_of_lt (s : List α) (n : Nat) (h : n < s.length) : getI s (n : Int) = some s[n] := by
  rw [getI_nat]; exact List.getElem?_eq_getElem h

theorem getI_neg (s : List α) (i : Int) (h : i < 0) : getI s i = none := by
  unfold getI; simp [h]

theorem getI_eq_some {s : List α} {i : Int} {x : α} (h : getI s i = some x) :
    ∃ n : Nat, i = n ∧ n < s.length ∧ s[n]? = some x := by
  unfold getI at h
  by_cases hi : i < 0
  · simp [hi] at h
  · simp [hi] at h
    refine ⟨i.toNat, by omega, ?_, h⟩
    exact (List.getElem?_eq_some_iff.mp h).1

theorem setI_nat (s : List α) (n : Nat) (v : α) (h : n < s.length) :
    setI s (n : Int) v = some (s.set n v) := by
  unfold setI
  have : ¬ ((n : Int) < 0) := by omega
  simp [this, h]

theorem setI_eq_some {s s' : List α} {i : Int} {v : α} (h : setI s i v = some s') :
    ∃ n : Nat, i = n ∧ n < s.length ∧ s' = s.set n v := by
  unfold setI at h
  by_cases hi : i < 0
  · simp [hi] at h
  · by_cases hl : i.toNat < s.length
    · simp [hi, hl] at h
      exact ⟨i.toNat, by omega, hl, h.symm⟩
    · simp [hi, hl] at h

/-- the list with positions `i` and `j` exchanged -/
def swapNat (s : List α) (i j : Nat) (hi : i < s.length) (hj : j < s.length) : List α :=
  (s.set i s[j]).set j s[i]

theorem swapI_nat (s : List α) (i j : Nat) (hi : i < s.length) (hj : j < s.length) :
    swapI s (i : Int) (j : Int) = some (swapNat s i j hi hj) := by
  unfold swapI swapNat
  rw [getI_of_lt s i hi, getI_of_lt s j hj]
  simp only
  rw [setI_nat s i _ hi]
  simp only
  rw [setI_nat _ j _ (by simp [hj])]

theorem length_swapNat (s : List α) (i j : Nat) (hi : i < s.length) (hj : j < s.length) :
    (swapNat s i j hi hj).length = s.length := by
  simp [swapNat]

theorem getElem?_swapNat (s : List α) (i j : Nat) (hi : i < s.length) (hj : j < s.length) (p : Nat) :
    (swapNat s i j hi hj)[p]? = if p = j then some s[i] else if p = i then some s[j] else s[p]? := by
  unfold swapNat
  rw [List.getElem?_set, List.getElem?_set]
  by_cases h1 : j = p
  · subst h1; simp [hj]
  · by_cases h2 : i = p
    · subst h2; simp [h1, hi, Ne.symm h1]
    · simp [h1, h2, Ne.symm h1, Ne.symm h2]

theorem swapNat_perm (s : List α) (i j : Nat) (hi : i < s.length) (hj : j < s.length) :
    (swapNat s i j hi hj).Perm s := by
  have h := Array.swap_perm (xs := s.toArray) (i := i) (j := j) (by simpa using hi) (by simpa using hj)
  have h2 : (s.toArray.swap i j (by simpa using hi) (by simpa using hj)).toList = swapNat s i j hi hj := by
    simp [swapNat, Array.swap]
  rw [← h2]
  exact Array.perm_iff_toList_perm.mp h |>.trans (by simp)

theorem swapI_eq_some {s s' : List α} {i j : Int} (h : swapI s i j = some s') :
    ∃ (a b : Nat) (ha : a < s.length) (hb : b < s.length), i = a ∧ j = b ∧ s' = swapNat s a b ha hb := by
  unfold swapI at h
  cases hgi : getI s i with
  | none => simp [hgi] at h
  | some x =>
    cases hgj : getI s j with
    | none => simp [hgi, hgj] at h
    | some y =>
      obtain ⟨a, rfl, ha, hxa⟩ := getI_eq_some hgi
      obtain ⟨b, rfl, hb, hyb⟩ := getI_eq_some hgj
      refine ⟨a, b, ha, hb, rfl, rfl, ?_⟩
      have := swapI_nat s a b ha hb
      unfold swapI at this
      rw [this] at h
      exact (Option.some.inj h).symm

theorem sliceOk_iff (lo hi len : Int) : sliceOk lo hi len = true ↔ 0 ≤ lo ∧ lo ≤ hi ∧ hi ≤ len := by
  simp [sliceOk, and_assoc]

theorem slice_nat (s : List α) (lo hi : Nat) : slice s (lo : Int) (hi : Int) = (s.drop lo).take (hi - lo) := by
  unfold slice
  congr 1
  omega

end Juniper.Proofs.Helpers
