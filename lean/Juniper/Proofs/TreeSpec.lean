import Juniper.Proofs.TreeBasic
/-!
# The ideal sorted map (C01): a strictly sorted association list

`sput` replaces the value of the equivalent key *keeping the stored key* (what the code does, and
what the property leaves open), else inserts in order; `serase` removes the equivalent key; `sget`
looks it up. Each is a single left-to-right scan — readable in a minute.
-/
namespace Juniper.Proofs.Tree
open Juniper.Model.BTree Juniper.Gen.Tree

variable {K V : Type}

def Sorted (cmp : K → K → Int) (l : List (K × V)) : Prop := l.Pairwise (fun a b => cmp a.1 b.1 < 0)

def sput (cmp : K → K → Int) (k : K) (v : V) : List (K × V) → List (K × V)
  | [] => [(k, v)]
  | (k', v') :: rest =>
    if cmp k k' < 0 then (k, v) :: (k', v') :: rest
    else if cmp k k' = 0 then (k', v) :: rest
    else (k', v') :: sput cmp k v rest

def serase (cmp : K → K → Int) (k : K) : List (K × V) → List (K × V)
  | [] => []
  | (k', v') :: rest =>
    if cmp k k' < 0 then (k', v') :: rest
    else if cmp k k' = 0 then rest
    else (k', v') :: serase cmp k rest

def sget (cmp : K → K → Int) (k : K) : List (K × V) → Option (K × V)
  | [] => none
  | (k', v') :: rest =>
    if cmp k k' < 0 then none
    else if cmp k k' = 0 then some (k', v')
    else sget cmp k rest

variable {cmp : K → K → Int}

/-! ## scanning past a smaller prefix / stopping before a larger suffix -/

theorem sput_append_left {k : K} {v : V} {A L : List (K × V)} (h : ∀ a ∈ A, 0 < cmp k a.1) :
    sput cmp k v (A ++ L) = A ++ sput cmp k v L := by
  induction A with
  | nil => rfl
  | cons a A ih =>
    obtain ⟨k', v'⟩ := a
    have h1 : 0 < cmp k k' := h (k', v') List.mem_cons_self
    have h2 := ih (fun a ha => h a (List.mem_cons_of_mem _ ha))
    simp only [List.cons_append, sput]
    rw [if_neg (by omega), if_neg (by omega), h2]

/-- the suffix `B` is empty or starts with a key greater than `k` -/
def StartsAbove (cmp : K → K → Int) (k : K) (B : List (K × V)) : Prop :=
  ∀ b ∈ B.head?, cmp k b.1 < 0

theorem sput_append_right {k : K} {v : V} {M B : List (K × V)} (h : StartsAbove cmp k B) :
    sput cmp k v (M ++ B) = sput cmp k v M ++ B := by
  induction M with
  | nil =>
    cases B with
    | nil => rfl
    | cons b B =>
      obtain ⟨k', v'⟩ := b
      have : cmp k k' < 0 := h (k', v') (by simp)
      simp [sput, this]
  | cons m M ih =>
    obtain ⟨k', v'⟩ := m
    simp only [List.cons_append, sput]
    split
    · rfl
    · split
      · rfl
      · rw [ih]; rfl

theorem serase_append_left {k : K} {A L : List (K × V)} (h : ∀ a ∈ A, 0 < cmp k a.1) :
    serase cmp k (A ++ L) = A ++ serase cmp k L := by
  induction A with
  | nil => rfl
  | cons a A ih =>
    obtain ⟨k', v'⟩ := a
    have h1 : 0 < cmp k k' := h (k', v') List.mem_cons_self
    have h2 := ih (fun a ha => h a (List.mem_cons_of_mem _ ha))
    simp only [List.cons_append, serase]
    rw [if_neg (by omega), if_neg (by omega), h2]

theorem serase_append_right {k : K} {M B : List (K × V)} (h : StartsAbove cmp k B) :
    serase cmp k (M ++ B) = serase cmp k M ++ B := by
  induction M with
  | nil =>
    cases B with
    | nil => rfl
    | cons b B =>
      obtain ⟨k', v'⟩ := b
      have : cmp k k' < 0 := h (k', v') (by simp)
      simp [serase, this]
  | cons m M ih =>
    obtain ⟨k', v'⟩ := m
    simp only [List.cons_append, serase]
    split
    · rfl
    · split
      · rfl
      · rw [ih]; rfl

theorem sget_append_left {k : K} {A L : List (K × V)} (h : ∀ a ∈ A, 0 < cmp k a.1) :
    sget cmp k (A ++ L) = sget cmp k L := by
  induction A with
  | nil => rfl
  | cons a A ih =>
    obtain ⟨k', v'⟩ := a
    have h1 : 0 < cmp k k' := h (k', v') List.mem_cons_self
    have h2 := ih (fun a ha => h a (List.mem_cons_of_mem _ ha))
    simp only [List.cons_append, sget]
    rw [if_neg (by omega), if_neg (by omega), h2]

theorem sget_append_right {k : K} {M B : List (K × V)} (h : StartsAbove cmp k B) :
    sget cmp k (M ++ B) = sget cmp k M := by
  induction M with
  | nil =>
    cases B with
    | nil => rfl
    | cons b B =>
      obtain ⟨k', v'⟩ := b
      have : cmp k k' < 0 := h (k', v') (by simp)
      simp [sget, this]
  | cons m M ih =>
    obtain ⟨k', v'⟩ := m
    simp only [List.cons_append, sget]
    split
    · rfl
    · split
      · rfl
      · rw [ih]

/-! ## keys of the results -/

theorem key_mem_sput {k : K} {v : V} {l : List (K × V)} {a : K × V} (h : a ∈ sput cmp k v l) :
    a.1 = k ∨ ∃ b ∈ l, b.1 = a.1 := by
  induction l with
  | nil => simp [sput] at h; left; rw [h]
  | cons x l ih =>
    obtain ⟨k', v'⟩ := x
    simp only [sput] at h
    split at h
    · simp only [List.mem_cons] at h
      rcases h with rfl | rfl | h
      · left; rfl
      · right; exact ⟨_, List.mem_cons_self, rfl⟩
      · right; exact ⟨a, List.mem_cons_of_mem _ h, rfl⟩
    · split at h
      · simp only [List.mem_cons] at h
        rcases h with rfl | h
        · right; exact ⟨(k', v'), List.mem_cons_self, rfl⟩
        · right; exact ⟨a, List.mem_cons_of_mem _ h, rfl⟩
      · simp only [List.mem_cons] at h
        rcases h with rfl | h
        · right; exact ⟨_, List.mem_cons_self, rfl⟩
        · rcases ih h with h | ⟨b, hb, hk⟩
          · left; exact h
          · right; exact ⟨b, List.mem_cons_of_mem _ hb, hk⟩

theorem mem_serase {k : K} {l : List (K × V)} {a : K × V} (h : a ∈ serase cmp k l) : a ∈ l := by
  induction l with
  | nil => simp [serase] at h
  | cons x l ih =>
    obtain ⟨k', v'⟩ := x
    simp only [serase] at h
    split at h
    · exact h
    · split at h
      · exact List.mem_cons_of_mem _ h
      · simp only [List.mem_cons] at h
        rcases h with rfl | h
        · exact List.mem_cons_self
        · exact List.mem_cons_of_mem _ (ih h)

/-! ## sortedness is preserved -/

theorem sorted_sput (hc : StrictWeak cmp) {k : K} {v : V} {l : List (K × V)} (hs : Sorted cmp l) :
    Sorted cmp (sput cmp k v l) := by
  induction l with
  | nil => simp [sput, Sorted]
  | cons x l ih =>
    obtain ⟨k', v'⟩ := x
    have hs' := List.pairwise_cons.mp hs
    simp only [sput]
    split
    · rename_i hlt
      refine List.pairwise_cons.mpr ⟨?_, hs⟩
      intro b hb
      simp only [List.mem_cons] at hb
      rcases hb with rfl | hb
      · exact hlt
      · exact hc.lt_trans hlt (hs'.1 b hb)
    · split
      · exact List.pairwise_cons.mpr ⟨fun b hb => hs'.1 b hb, hs'.2⟩
      · rename_i h1 h2
        refine List.pairwise_cons.mpr ⟨?_, ih hs'.2⟩
        intro b hb
        rcases key_mem_sput hb with hk | ⟨c, hcm, hk⟩
        · rw [hk]; exact hc.gt_iff.mp (show 0 < cmp k k' by omega)
        · rw [← hk]; exact hs'.1 c hcm

theorem sorted_serase {k : K} {l : List (K × V)} (hs : Sorted cmp l) : Sorted cmp (serase cmp k l) := by
  induction l with
  | nil => simp [serase, Sorted]
  | cons x l ih =>
    obtain ⟨k', v'⟩ := x
    have hs' := List.pairwise_cons.mp hs
    simp only [serase]
    split
    · exact hs
    · split
      · exact hs'.2
      · exact List.pairwise_cons.mpr ⟨fun b hb => hs'.1 b (mem_serase hb), ih hs'.2⟩

end Juniper.Proofs.Tree
