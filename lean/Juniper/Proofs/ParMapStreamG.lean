import Juniper.Proofs.ParMapStreamF
/-! Inductive invariants of the MapStream LTS, part 6: completeness — when `Next` reports the normal end,
the source has ended and every item taken from it has been yielded; `closed` means every goroutine of
the errgroup has finished. -/
set_option linter.unusedSimpArgs false
set_option linter.unusedVariables false

namespace Juniper.Proofs.ParMap.S
open Juniper.Gen Juniper.Facts Juniper.Model.ParMap Juniper.Model.ParMap.Stream Juniper.Proofs.ParMap

def cClosedP : CPc → Bool
  | .closed => true
  | _ => false

/-- completeness of a run that reaches the normal end, and what `closed` means -/
structure InvH (cfg : Cfg) (s : St) : Prop where
  NWc : cNextWait s.cons = true → canYield cfg s = false ∧ s.c = []
  DrE : s.dropped ≠ [] → s.egErr ≠ none ∨ 0 < cnt wHeldSome s.ws
  N1 : dExited s.disp = true → dHeldSome s.disp = false → (s.disp ≠ .done ∨ s.egErr = none) →
        s.srcEnded = true ∧ s.srcItems.length = s.dispI
  CLd : cClosedP s.cons = true → s.egLive = 0

theorem invH_init (cfg : Cfg) : InvH cfg (Stream.init cfg) := by
  refine ⟨?_, ?_, ?_, ?_⟩ <;> simp [Stream.init, cNextWait, dExited, cClosedP]

syntax "invH_worker " ident ident : tactic
macro_rules
  | `(tactic| invH_worker $hi:ident $hG:ident) =>
    `(tactic| (
         have hw := ‹_[_]? = some _›
         have g1 := cnt_ge wHeldSome hw
         have ⟨iNW, iDr, iN1, iCL⟩ := $hi
         have hNW := ($hG).NW
         refine ⟨?_, ?_, ?_, ?_⟩
         · first | exact iNW | (simp [egRecord, canYield, cNextWait] at * <;> grind)
         · simp [egRecord, Option.isSome_iff_ne_none, cnt_set hw, wHeldSome] at * <;> grind
         · simp [egRecord, Option.isSome_iff_ne_none, dExited, dHeldSome] at * <;> grind [dExited, dHeldSome]
         · first | exact iCL | (simp [egRecord, cClosedP] at * <;> grind)))

set_option maxHeartbeats 1600000 in
theorem invH_step {cfg : Cfg} (hs : cfg.code.Sound) {s s' : St} {l : Label} (ha : InvA cfg s) (hb : InvB cfg s)
    (hG : InvG cfg s) (hi : InvH cfg s)
    (h : Stream.step cfg s l = some s') : InvH cfg s' := by
  cases l with
  | dSend w => stream_cases h => invH_worker hi hG
  | fRet w r => stream_cases h => invH_worker hi hG
  | wSendC w => stream_cases h => invH_worker hi hG
  | wSendCtx w => stream_cases h => invH_worker hi hG
  | wExitIdle w => stream_cases h => invH_worker hi hG
  | wDefer w => stream_cases h => invH_worker hi hG
  | wEgDone w => stream_cases h => invH_worker hi hG
  | _ =>
    stream_cases h =>
      (have ⟨iNW, iDr, iN1, iCL⟩ := hi
       have hS := ha.S
       have ⟨iND, iCC, iEL, iCLL, iCA⟩ := hb
       refine ⟨?_, ?_, ?_, ?_⟩
       · first | exact iNW | (simp [egRecord, canYield, cNextWait] at * <;> grind [cNextWait])
       · first | exact iDr | (simp [egRecord, Option.isSome_iff_ne_none] at * <;> grind)
       · first
         | exact iN1
         | (simp [egRecord, Option.isSome_iff_ne_none, dExited, dHeldSome, dHolding, b2n] at * <;> grind [dExited, dHeldSome, dHolding])
       · first | exact iCL | (simp [egRecord, cClosedP, b2n] at * <;> grind [cClosedP]))

theorem invH {cfg : Cfg} (hs : cfg.code.Sound) (hg : 1 ≤ cfg.gmp) {s : St} (h : Reach cfg s) : InvH cfg s := by
  induction h with
  | init => exact invH_init cfg
  | step hr hstep ih => exact invH_step hs (invA hs hr) (invB hs hg hr) (invG hs hr) ih hstep


theorem wHolds_le_wNotDone (k : Nat) (ws : List WPc) : cnt (wHolds k) ws ≤ cnt wNotDone ws := by
  apply cnt_mono; intro x hx; cases x <;> simp_all [wHolds, wNotDone]

/-- once the normal end has been reported, everything taken from the source has been yielded -/
structure InvEnd (cfg : Cfg) (s : St) : Prop where
  END : 0 < cnt isEnd s.results →
        s.i = s.dispI ∧ s.srcItems.length = s.dispI ∧ s.srcEnded = true ∧ cReleasing s.cons = false ∧
        s.egLive = 0 ∧ s.c = [] ∧ canYield cfg s = false

theorem invEnd_init (cfg : Cfg) : InvEnd cfg (Stream.init cfg) := ⟨by simp [Stream.init, isEnd]⟩

/-- the facts available when `Next` is about to report the normal end -/
theorem end_facts {cfg : Cfg} (hs : cfg.code.Sound) {s : St} (hB : InvB cfg s) (hP : InvP cfg s)
    (hH : InvH cfg s) (hcons : s.cons = .nextWait) (he : s.egLive = 0) (hee : s.egErr = none) :
    s.i = s.dispI ∧ s.srcItems.length = s.dispI ∧ s.srcEnded = true ∧ s.c = [] ∧ canYield cfg s = false := by
  have ⟨hy, hc⟩ := hH.NWc (by simp [hcons, cNextWait])
  have hEL := hB.EL
  have hdone : s.disp = .done ∧ cnt wNotDone s.ws = 0 := by
    rw [he] at hEL
    cases hd : s.disp <;> simp [hd, dNotDone, b2n] at hEL <;> first | omega | exact ⟨rfl, by omega⟩
  have ⟨hse, hlen⟩ := hH.N1 (by simp [hdone.1, dExited]) (by simp [hdone.1, dHeldSome]) (Or.inr hee)
  have hdr : s.dropped = [] := by
    cases hdd : s.dropped with
    | nil => rfl
    | cons a l =>
      rcases hH.DrE (by simp [hdd]) with h | h
      · exact absurd hee h
      · have := wHeldSome_le_wNotDone s.ws; omega
  have hle : s.i ≤ s.dispI := by
    by_cases hle : s.i ≤ s.dispI
    · exact hle
    · have hPi := hP.P s.dispI
      simp [b2n, (by omega : s.dispI < s.i)] at hPi
  have hi : s.i = s.dispI := by
    by_cases hlt : s.i < s.dispI
    · exfalso
      have hPi := hP.P s.i
      have hh := wHolds_le_wNotDone s.i s.ws
      simp [b2n, hlt, hc, hdr] at hPi
      have hmem : ∃ v, (s.i, v) ∈ s.heap := mem_of_icnt_pos (by omega)
      have hge : ∀ k v, (k, v) ∈ s.heap → s.i ≤ k := by
        intro k v hkv
        by_cases hk : k < s.i
        · have hPk := hP.P k
          have := icnt_pos_of_mem hkv
          have hkd : k < s.dispI := by omega
          simp [b2n, hk, hkd] at hPk
          omega
        · omega
      have := canYield_of hs hmem hge
      simp [hy] at this
    · omega
  exact ⟨hi, hlen, hse, hc, hy⟩


theorem all_done_of_egLive {cfg : Cfg} {s : St} (hB : InvB cfg s) (he : s.egLive = 0) :
    s.disp = .done ∧ cnt wNotDone s.ws = 0 := by
  have hEL := hB.EL
  rw [he] at hEL
  cases hd : s.disp <;> simp [hd, dNotDone, b2n] at hEL <;> first | omega | exact ⟨rfl, by omega⟩

set_option maxHeartbeats 1600000 in
theorem invEnd_step {cfg : Cfg} (hs : cfg.code.Sound) {s s' : St} {l : Label} (hA : InvA cfg s) (hB : InvB cfg s)
    (hP : InvP cfg s) (hH : InvH cfg s) (hi : InvEnd cfg s)
    (h : Stream.step cfg s l = some s') : InvEnd cfg s' := by
  have iE := hi.END
  have hdone := fun he => all_done_of_egLive hB he
  cases l with
  | cWaitDone =>
    stream_cases h =>
      (have hcons := ‹s.cons = CPc.nextWait›
       have he : s.egLive = 0 := by simpa using ‹(s.egLive == 0) = true›
       refine ⟨?_⟩
       intro hpos
       first
       | (have hee := ‹s.egErr = none›
          have ⟨h1, h2, h3, h4, h5⟩ := end_facts hs hB hP hH hcons he hee
          exact ⟨h1, h2, h3, by simp [cReleasing], he, h4, by simpa [canYield] using h5⟩)
       | (simp [isEnd] at hpos
          have ⟨h1, h2, h3, h4, h5, h6, h7⟩ := iE hpos
          exact ⟨h1, h2, h3, by simp [cReleasing], h5, h6, by simpa [canYield] using h7⟩)
       | (have := hs.nextFailed true; simp_all))
  | dSend w => stream_cases h => (have hw := ‹_[_]? = some _›; have g := cnt_ge wNotDone hw; refine ⟨?_⟩; simp [wNotDone, canYield] at * <;> grind [dNotDone])
  | fRet w r => stream_cases h => (have hw := ‹_[_]? = some _›; have g := cnt_ge wNotDone hw; refine ⟨?_⟩; simp [egRecord, wNotDone, canYield] at * <;> grind)
  | wSendC w => stream_cases h => (have hw := ‹_[_]? = some _›; have g := cnt_ge wNotDone hw; refine ⟨?_⟩; simp [egRecord, wNotDone, canYield] at * <;> grind)
  | wSendCtx w => stream_cases h => (have hw := ‹_[_]? = some _›; have g := cnt_ge wNotDone hw; refine ⟨?_⟩; simp [egRecord, wNotDone, canYield] at * <;> grind)
  | wExitIdle w => stream_cases h => (have hw := ‹_[_]? = some _›; have g := cnt_ge wNotDone hw; refine ⟨?_⟩; simp [egRecord, wNotDone, canYield] at * <;> grind)
  | wDefer w => stream_cases h => (have hw := ‹_[_]? = some _›; have g := cnt_ge wNotDone hw; refine ⟨?_⟩; simp [egRecord, wNotDone, canYield] at * <;> grind)
  | wEgDone w => stream_cases h => (have hw := ‹_[_]? = some _›; have g := cnt_ge wNotDone hw; refine ⟨?_⟩; simp [egRecord, wNotDone, canYield] at * <;> grind)
  | _ =>
    stream_cases h =>
      (refine ⟨?_⟩
       first
       | exact iE
       | (simp [egRecord, isEnd, cReleasing, canYield] at * <;> grind [cReleasing]))

theorem invEnd {cfg : Cfg} (hs : cfg.code.Sound) (hg : 1 ≤ cfg.gmp) {s : St} (h : Reach cfg s) : InvEnd cfg s := by
  induction h with
  | init => exact invEnd_init cfg
  | step hr hstep ih => exact invEnd_step hs (invA hs hr) (invB hs hg hr) (invP hs hr) (invH hs hg hr) ih hstep

end Juniper.Proofs.ParMap.S
