import Juniper.Proofs.BatchBase
/-!
C11 helper lemmas, fourth invariant: a consumer that announced itself is never forgotten — either the
batcher knows it must start the timer with the first item (`waitingAtEmpty`) or the timer is running.
-/
namespace Juniper.Proofs.Batch
open Juniper.Model.Batch

structure Inv4 (cfg : Cfg) (s : State) : Prop where
  j1 : s.cons = .inner → s.bpc = .sel → 0 < s.batch.length → s.timer ≠ .idle
  j2 : s.cons = .inner → s.bpc = .sel → s.batch.length = 0 → s.waitingAtEmpty = true
  j3 : s.cons = .inner → s.bpc = .inFull → s.batch.length = 1 → s.waitingAtEmpty = true
  j4 : s.cons = .inner → s.bpc = .inFull → 2 ≤ s.batch.length → s.timer ≠ .idle

theorem inv4_init (cfg : Cfg) : Inv4 cfg init := by
  constructor <;> simp [init]

theorem inv4_srcRet {cfg : Cfg} {s s' : State} (ev : _) (h1 : Inv1 cfg s) (hi : Inv4 cfg s)
    (h : step good cfg s (.srcRet ev) = some s') : Inv4 cfg s' := by
  obtain ⟨c1, t1a, t_set, t_ne, t_len, t_armed, t_fired, n1, n2, u0, u3, u1⟩ := h1
  obtain ⟨j1, j2, j3, j4⟩ := hi
  unfold_step at h <;> (repeat' split at h) <;> cases h <;> close_inv

theorem inv4_srcCancelErr {cfg : Cfg} {s s' : State} (w : _) (h1 : Inv1 cfg s) (hi : Inv4 cfg s)
    (h : step good cfg s (.srcCancelErr w) = some s') : Inv4 cfg s' := by
  obtain ⟨c1, t1a, t_set, t_ne, t_len, t_armed, t_fired, n1, n2, u0, u3, u1⟩ := h1
  obtain ⟨j1, j2, j3, j4⟩ := hi
  unfold_step at h <;> (repeat' split at h) <;> cases h <;> close_inv

theorem inv4_nextCall {cfg : Cfg} {s s' : State} (live : _) (h1 : Inv1 cfg s) (hi : Inv4 cfg s)
    (h : step good cfg s (.nextCall live) = some s') : Inv4 cfg s' := by
  obtain ⟨c1, t1a, t_set, t_ne, t_len, t_armed, t_fired, n1, n2, u0, u3, u1⟩ := h1
  obtain ⟨j1, j2, j3, j4⟩ := hi
  unfold_step at h <;> (repeat' split at h) <;> cases h <;> close_inv

theorem inv4_ctxExpire {cfg : Cfg} {s s' : State} (h1 : Inv1 cfg s) (hi : Inv4 cfg s)
    (h : step good cfg s (.ctxExpire) = some s') : Inv4 cfg s' := by
  obtain ⟨c1, t1a, t_set, t_ne, t_len, t_armed, t_fired, n1, n2, u0, u3, u1⟩ := h1
  obtain ⟨j1, j2, j3, j4⟩ := hi
  unfold_step at h <;> (repeat' split at h) <;> cases h <;> close_inv

theorem inv4_tick {cfg : Cfg} {s s' : State} (d : _) (h1 : Inv1 cfg s) (hi : Inv4 cfg s)
    (h : step good cfg s (.tick d) = some s') : Inv4 cfg s' := by
  obtain ⟨c1, t1a, t_set, t_ne, t_len, t_armed, t_fired, n1, n2, u0, u3, u1⟩ := h1
  obtain ⟨j1, j2, j3, j4⟩ := hi
  unfold_step at h <;> (repeat' split at h) <;> cases h <;> close_inv

theorem inv4_close {cfg : Cfg} {s s' : State} (h1 : Inv1 cfg s) (hi : Inv4 cfg s)
    (h : step good cfg s (.close) = some s') : Inv4 cfg s' := by
  obtain ⟨c1, t1a, t_set, t_ne, t_len, t_armed, t_fired, n1, n2, u0, u3, u1⟩ := h1
  obtain ⟨j1, j2, j3, j4⟩ := hi
  unfold_step at h <;> (repeat' split at h) <;> cases h <;> close_inv

theorem inv4_bgEnds {cfg : Cfg} {s s' : State} (h1 : Inv1 cfg s) (hi : Inv4 cfg s)
    (h : step good cfg s (.bgEnds) = some s') : Inv4 cfg s' := by
  obtain ⟨c1, t1a, t_set, t_ne, t_len, t_armed, t_fired, n1, n2, u0, u3, u1⟩ := h1
  obtain ⟨j1, j2, j3, j4⟩ := hi
  unfold_step at h <;> (repeat' split at h) <;> cases h <;> close_inv

theorem inv4_prodCancelled {cfg : Cfg} {s s' : State} (h1 : Inv1 cfg s) (hi : Inv4 cfg s)
    (h : step good cfg s (.prodCancelled) = some s') : Inv4 cfg s' := by
  obtain ⟨c1, t1a, t_set, t_ne, t_len, t_armed, t_fired, n1, n2, u0, u3, u1⟩ := h1
  obtain ⟨j1, j2, j3, j4⟩ := hi
  unfold_step at h <;> (repeat' split at h) <;> cases h <;> close_inv

theorem inv4_prodSend {cfg : Cfg} {s s' : State} (h1 : Inv1 cfg s) (hi : Inv4 cfg s)
    (h : step good cfg s (.prodSend) = some s') : Inv4 cfg s' := by
  obtain ⟨c1, t1a, t_set, t_ne, t_len, t_armed, t_fired, n1, n2, u0, u3, u1⟩ := h1
  obtain ⟨j1, j2, j3, j4⟩ := hi
  unfold_step at h <;> (repeat' split at h) <;> cases h <;> close_inv

theorem inv4_prodSendCancel {cfg : Cfg} {s s' : State} (h1 : Inv1 cfg s) (hi : Inv4 cfg s)
    (h : step good cfg s (.prodSendCancel) = some s') : Inv4 cfg s' := by
  obtain ⟨c1, t1a, t_set, t_ne, t_len, t_armed, t_fired, n1, n2, u0, u3, u1⟩ := h1
  obtain ⟨j1, j2, j3, j4⟩ := hi
  unfold_step at h <;> (repeat' split at h) <;> cases h <;> close_inv

theorem inv4_prodCloseC {cfg : Cfg} {s s' : State} (h1 : Inv1 cfg s) (hi : Inv4 cfg s)
    (h : step good cfg s (.prodCloseC) = some s') : Inv4 cfg s' := by
  obtain ⟨c1, t1a, t_set, t_ne, t_len, t_armed, t_fired, n1, n2, u0, u3, u1⟩ := h1
  obtain ⟨j1, j2, j3, j4⟩ := hi
  unfold_step at h <;> (repeat' split at h) <;> cases h <;> close_inv

theorem inv4_prodCloseSrc {cfg : Cfg} {s s' : State} (h1 : Inv1 cfg s) (hi : Inv4 cfg s)
    (h : step good cfg s (.prodCloseSrc) = some s') : Inv4 cfg s' := by
  obtain ⟨c1, t1a, t_set, t_ne, t_len, t_armed, t_fired, n1, n2, u0, u3, u1⟩ := h1
  obtain ⟨j1, j2, j3, j4⟩ := hi
  unfold_step at h <;> (repeat' split at h) <;> cases h <;> close_inv

theorem inv4_fullRet {cfg : Cfg} {s s' : State} (b : _) (h1 : Inv1 cfg s) (hi : Inv4 cfg s)
    (h : step good cfg s (.fullRet b) = some s') : Inv4 cfg s' := by
  obtain ⟨c1, t1a, t_set, t_ne, t_len, t_armed, t_fired, n1, n2, u0, u3, u1⟩ := h1
  obtain ⟨j1, j2, j3, j4⟩ := hi
  unfold_step at h <;> (repeat' split at h) <;> cases h <;> close_inv

theorem inv4_recvCClosed {cfg : Cfg} {s s' : State} (h1 : Inv1 cfg s) (hi : Inv4 cfg s)
    (h : step good cfg s (.recvCClosed) = some s') : Inv4 cfg s' := by
  obtain ⟨c1, t1a, t_set, t_ne, t_len, t_armed, t_fired, n1, n2, u0, u3, u1⟩ := h1
  obtain ⟨j1, j2, j3, j4⟩ := hi
  unfold_step at h <;> (repeat' split at h) <;> cases h <;> close_inv

theorem inv4_recvTimer {cfg : Cfg} {s s' : State} (h1 : Inv1 cfg s) (hi : Inv4 cfg s)
    (h : step good cfg s (.recvTimer) = some s') : Inv4 cfg s' := by
  obtain ⟨c1, t1a, t_set, t_ne, t_len, t_armed, t_fired, n1, n2, u0, u3, u1⟩ := h1
  obtain ⟨j1, j2, j3, j4⟩ := hi
  unfold_step at h <;> (repeat' split at h) <;> cases h <;> close_inv

theorem inv4_flushAbort {cfg : Cfg} {s s' : State} (h1 : Inv1 cfg s) (hi : Inv4 cfg s)
    (h : step good cfg s (.flushAbort) = some s') : Inv4 cfg s' := by
  obtain ⟨c1, t1a, t_set, t_ne, t_len, t_armed, t_fired, n1, n2, u0, u3, u1⟩ := h1
  obtain ⟨j1, j2, j3, j4⟩ := hi
  unfold_step at h <;> (repeat' split at h) <;> cases h <;> close_inv

theorem inv4_batchExit {cfg : Cfg} {s s' : State} (h1 : Inv1 cfg s) (hi : Inv4 cfg s)
    (h : step good cfg s (.batchExit) = some s') : Inv4 cfg s' := by
  obtain ⟨c1, t1a, t_set, t_ne, t_len, t_armed, t_fired, n1, n2, u0, u3, u1⟩ := h1
  obtain ⟨j1, j2, j3, j4⟩ := hi
  unfold_step at h <;> (repeat' split at h) <;> cases h <;> close_inv

theorem inv4_announce {cfg : Cfg} {s s' : State} (h1 : Inv1 cfg s) (hi : Inv4 cfg s)
    (h : step good cfg s (.announce) = some s') : Inv4 cfg s' := by
  obtain ⟨c1, t1a, t_set, t_ne, t_len, t_armed, t_fired, n1, n2, u0, u3, u1⟩ := h1
  obtain ⟨j1, j2, j3, j4⟩ := hi
  unfold_step at h <;> (repeat' split at h) <;> cases h <;> close_inv

theorem inv4_deliver {cfg : Cfg} {s s' : State} (h1 : Inv1 cfg s) (hi : Inv4 cfg s)
    (h : step good cfg s (.deliver) = some s') : Inv4 cfg s' := by
  obtain ⟨c1, t1a, t_set, t_ne, t_len, t_armed, t_fired, n1, n2, u0, u3, u1⟩ := h1
  obtain ⟨j1, j2, j3, j4⟩ := hi
  unfold_step at h <;> (repeat' split at h) <;> cases h <;> close_inv

theorem inv4_consClosed {cfg : Cfg} {s s' : State} (h1 : Inv1 cfg s) (hi : Inv4 cfg s)
    (h : step good cfg s (.consClosed) = some s') : Inv4 cfg s' := by
  obtain ⟨c1, t1a, t_set, t_ne, t_len, t_armed, t_fired, n1, n2, u0, u3, u1⟩ := h1
  obtain ⟨j1, j2, j3, j4⟩ := hi
  unfold_step at h <;> (repeat' split at h) <;> cases h <;> close_inv

theorem inv4_consCtx {cfg : Cfg} {s s' : State} (h1 : Inv1 cfg s) (hi : Inv4 cfg s)
    (h : step good cfg s (.consCtx) = some s') : Inv4 cfg s' := by
  obtain ⟨c1, t1a, t_set, t_ne, t_len, t_armed, t_fired, n1, n2, u0, u3, u1⟩ := h1
  obtain ⟨j1, j2, j3, j4⟩ := hi
  unfold_step at h <;> (repeat' split at h) <;> cases h <;> close_inv

theorem inv4_timerExpire {cfg : Cfg} {s s' : State} (h1 : Inv1 cfg s) (hi : Inv4 cfg s)
    (h : step good cfg s (.timerExpire) = some s') : Inv4 cfg s' := by
  obtain ⟨c1, t1a, t_set, t_ne, t_len, t_armed, t_fired, n1, n2, u0, u3, u1⟩ := h1
  obtain ⟨j1, j2, j3, j4⟩ := hi
  unfold_step at h <;> (repeat' split at h) <;> cases h <;> close_inv

theorem inv4_closeReturn {cfg : Cfg} {s s' : State} (h1 : Inv1 cfg s) (hi : Inv4 cfg s)
    (h : step good cfg s (.closeReturn) = some s') : Inv4 cfg s' := by
  obtain ⟨c1, t1a, t_set, t_ne, t_len, t_armed, t_fired, n1, n2, u0, u3, u1⟩ := h1
  obtain ⟨j1, j2, j3, j4⟩ := hi
  unfold_step at h <;> (repeat' split at h) <;> cases h <;> close_inv

theorem inv4_step {cfg : Cfg} {s s' : State} {l : Label} (h1 : Inv1 cfg s) (hi : Inv4 cfg s)
    (h : step good cfg s l = some s') : Inv4 cfg s' := by
  cases l with
  | srcRet ev => exact inv4_srcRet ev h1 hi h
  | srcCancelErr w => exact inv4_srcCancelErr w h1 hi h
  | nextCall live => exact inv4_nextCall live h1 hi h
  | ctxExpire => exact inv4_ctxExpire h1 hi h
  | tick d => exact inv4_tick d h1 hi h
  | close => exact inv4_close h1 hi h
  | bgEnds => exact inv4_bgEnds h1 hi h
  | prodCancelled => exact inv4_prodCancelled h1 hi h
  | prodSend => exact inv4_prodSend h1 hi h
  | prodSendCancel => exact inv4_prodSendCancel h1 hi h
  | prodCloseC => exact inv4_prodCloseC h1 hi h
  | prodCloseSrc => exact inv4_prodCloseSrc h1 hi h
  | fullRet b => exact inv4_fullRet b h1 hi h
  | recvCClosed => exact inv4_recvCClosed h1 hi h
  | recvTimer => exact inv4_recvTimer h1 hi h
  | flushAbort => exact inv4_flushAbort h1 hi h
  | batchExit => exact inv4_batchExit h1 hi h
  | announce => exact inv4_announce h1 hi h
  | deliver => exact inv4_deliver h1 hi h
  | consClosed => exact inv4_consClosed h1 hi h
  | consCtx => exact inv4_consCtx h1 hi h
  | timerExpire => exact inv4_timerExpire h1 hi h
  | closeReturn => exact inv4_closeReturn h1 hi h

theorem inv4_reach {cfg : Cfg} {s : State} (h : Reach good cfg s) : Inv4 cfg s := by
  induction h with
  | init => exact inv4_init cfg
  | step l hr hs ih => exact inv4_step (inv1_reach hr) ih hs

end Juniper.Proofs.Batch
