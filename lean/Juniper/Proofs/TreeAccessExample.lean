import Juniper.Proofs.TreeAccessMain
/-!
# Access-level model (C01, concurrent clause): the concrete example used for non-vacuity and for the
negative witnesses of `Props/C01Race.lean`
-/
namespace Juniper.Proofs.TreeAccess
open Juniper.Gen.Tree Juniper.Model.BTree Juniper.Model.BTreeAccess
open Juniper.Proofs.Tree hiding Op CInv

def exCmp : Int → Int → Int := fun a b => a - b
/-- keys 10 … 70 | 80 | 90 … 150 on two levels (leaves at minimum occupancy), value = 10 · key -/
def exTree : Tree Int Int :=
  { root := .mk 2 [(80, 800)]
      [.mk 0 [(10, 100), (20, 200), (30, 300), (40, 400), (50, 500), (60, 600), (70, 700)] [],
       .mk 1 [(90, 900), (100, 1000), (110, 1100), (120, 1200), (130, 1300), (140, 1400), (150, 1500)] []],
    size := 15, gen := 15, nextId := 3 }
/-- writers: the separator in the root and an entry of the right leaf -/
def exPuts : List (Int × Int) := [(80, 801), (120, 1201)]
/-- readers: a `Get` in the same leaf as a writer's key, a `Contains` of an absent key, an iterator step
parked on `(node 0, slot 1)` = key 20 with a stale cursor generation -/
def exReads : List (Op Int Int) := [.get 90, .contains 85, .iter 0 1 4 20]

theorem exCmp_sw : StrictWeak exCmp := ⟨by intro a b; unfold exCmp; omega, by intro a b c; unfold exCmp; omega⟩

theorem exTree_nodup : (ids exTree.root).Nodup := by simp [exTree, ids]

/-- the example tree is well formed -/
theorem exTree_wf : WF exCmp exTree := by
  refine ⟨⟨1, ?_, by decide, fun _ => by decide⟩, ?_, ?_⟩
  · simp only [exTree, Bal, List.length_cons, List.length_nil, List.mem_cons, List.not_mem_nil, or_false, true_and]
    rintro c (rfl | rfl) <;> exact ⟨by simp [Bal], by unfold Occ Node.n Node.kvs; decide⟩
  · simp only [exTree, toList_mk, List.map_cons, List.map_nil, inorder, rest, List.cons_append, List.nil_append]
    unfold Sorted; decide
  · simp [exTree, toList_mk, inorder, rest]

/-- the hypotheses are satisfiable -/
theorem exHyp : ConcHyp exCmp exTree exPuts exReads := by
  refine ⟨exCmp_sw, exTree_nodup, by decide, ?_, by decide, ?_⟩
  · intro p hp
    simp only [exPuts, List.mem_cons, List.not_mem_nil, or_false] at hp
    rcases hp with rfl | rfl
    · simp only [contains, exTree]
      rw [lookup_found (i := 0) (by decide)]; rfl
    · simp only [contains, exTree]
      rw [lookup_child (i := 1) (c := .mk 1 [(90, 900), (100, 1000), (110, 1100), (120, 1200), (130, 1300), (140, 1400), (150, 1500)] [])
        (by decide) rfl, lookup_found (i := 3) (by decide)]; rfl
  · intro x i g ck hm
    simp only [exReads, List.mem_cons, List.not_mem_nil, or_false] at hm
    rcases hm with hm | hm | hm
    · cases hm
    · cases hm
    · cases hm
      exact ⟨(20, 200), by simp [findNode, pathTo, pathIn, exTree, Node.kvs], by decide⟩

/-- a complete interleaving of the five goroutines (round robin until everybody has returned) -/
def exSched : List Nat :=
  [0, 1, 2, 3, 4, 0, 1, 2, 3, 4, 0, 1, 2, 3, 4, 0, 1, 2, 3, 4, 1, 2, 3, 1, 2, 3, 1, 2, 3, 1, 2, 3, 1, 2, 3, 1, 1, 1, 1, 1,
   1, 1]

/-- what a goroutine has returned -/
def exResult : PC Int Int → Option (Res Int)
  | .done r => some r
  | _ => none


end Juniper.Proofs.TreeAccess
