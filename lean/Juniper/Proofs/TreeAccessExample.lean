import Juniper.Proofs.TreeAccessMain
/-!
# Access-level model (C01, concurrent clause): the concrete example used for non-vacuity and for the
negative witnesses of `Props/C01Race.lean`
-/
namespace Juniper.Proofs.TreeAccess
open Juniper.Gen.Tree Juniper.Model.BTree Juniper.Model.BTreeAccess
open Juniper.Proofs.Tree hiding Op CInv

def exCmp : Int → Int → Int := fun a b => a - b
/-- keys 10 … 70 | 80 | 90 … 150 on two levels (leaves at minimum occupancy), value = 10 · key -/
def exTree : Tree Int Int :=
  { root := .mk 2 [(80, 800)]
      [.mk 0 [(10, 100), (20, 200), (30, 300), (40, 400), (50, 500), (60, 600), (70, 700)] [],
       .mk 1 [(90, 900), (100, 1000), (110, 1100), (120, 1200), (130, 1300), (140, 1400), (150, 1500)] []],
    size := 15, gen := 15, nextId := 3 }
/-- writers: the separator in the root and an entry of the right leaf -/
def exPuts : List (Int × Int) := [(80, 801), (120, 1201)]
/-- `Range(Unbounded, Excluded 80)`: the keys 10 … 70; the first key beyond its far bound is the written key 80 (the
cursor climbs to the root and reads `keys[0]` there, never `values[0]`) -/
def exRange : Op Int Int := .scan true .first 0 (some (.lt, 80)) 100
/-- `RangeReverse(Excluded 120, Unbounded)`: the keys 150, 140, 130; the first key beyond its far bound is the written
key 120 in the same leaf -/
def exRangeRev : Op Int Int := .scan false .last 120 (some (.gt, 120)) 100
/-- `Range(Included 90, Included 110)`: the keys 90, 100, 110 *between* the two written keys — 80 lies before its near
bound (the seek descends past it, comparing keys only), 120 is the first key beyond its far bound in the same leaf -/
def exMid : Op Int Int := .scan true .ge 90 (some (.le, 110)) 100
/-- … and that is what the two regenerated `switch` tables of `Range` / `RangeReverse` make of these bounds -/
theorem exRange_eq : scanOf false ⟨some .unb, 0⟩ ⟨some .excl, 80⟩ 100 = some exRange ∧
    scanOf true ⟨some .excl, 120⟩ ⟨some .unb, 0⟩ 100 = some exRangeRev ∧
    scanOf false ⟨some .incl, 90⟩ ⟨some .incl, 110⟩ 100 = some exMid := ⟨rfl, rfl, rfl⟩
/-- readers: a `Get` in the same leaf as a writer's key, a `Contains` of an absent key, and three range readers whose
bounds are adjacent to the written keys -/
def exReads : List (Op Int Int) := [.get 90, .contains 85, exRange, exMid, exRangeRev]

theorem exCmp_sw : StrictWeak exCmp := ⟨by intro a b; unfold exCmp; omega, by intro a b c; unfold exCmp; omega⟩

theorem exTree_nodup : (ids exTree.root).Nodup := by simp [exTree, ids]

/-- the example tree is well formed -/
theorem exTree_wf : WF exCmp exTree := by
  refine ⟨⟨1, ?_, by decide, fun _ => by decide⟩, ?_, ?_⟩
  · simp only [exTree, Bal, List.length_cons, List.length_nil, List.mem_cons, List.not_mem_nil, or_false, true_and]
    rintro c (rfl | rfl) <;> exact ⟨by simp [Bal], by unfold Occ Node.n Node.kvs; decide⟩
  · simp only [exTree, toList_mk, List.map_cons, List.map_nil, inorder, rest, List.cons_append, List.nil_append]
    unfold Sorted; decide
  · simp [exTree, toList_mk, inorder, rest]

theorem exTree_inv : Inv exCmp exTree := ⟨exTree_wf, exTree_nodup, by simp [exTree, ids]⟩

/-- the hypotheses are satisfiable -/
theorem exHyp : ConcHyp exCmp exTree exPuts exReads := by
  refine ⟨exCmp_sw, exTree_nodup, by decide, ?_, by decide, by decide, ?_, ?_, fun _ => exTree_inv⟩
  · intro p hp
    simp only [exPuts, List.mem_cons, List.not_mem_nil, or_false] at hp
    rcases hp with rfl | rfl
    · simp only [contains, exTree]
      rw [lookup_found (i := 0) (by decide)]; rfl
    · simp only [contains, exTree]
      rw [lookup_child (i := 1) (c := .mk 1 [(90, 900), (100, 1000), (110, 1100), (120, 1200), (130, 1300), (140, 1400), (150, 1500)] [])
        (by decide) rfl, lookup_found (i := 3) (by decide)]; rfl
  · -- the keys inside the bounds of the three range readers (`< 80`; `≥ 90` and `≤ 110`; `> 120`) are not the written ones
    intro r hr hns p hp k' _ hin hnear
    simp only [exReads, List.mem_cons, List.not_mem_nil, or_false] at hr
    simp only [exPuts, List.mem_cons, List.not_mem_nil, or_false] at hp
    rcases hr with rfl | rfl | rfl | rfl | rfl
    · simp [Op.isSearch] at hns
    · simp [Op.isSearch] at hns
    · have hin' : k' - 80 < 0 := by
        simp only [exRange, inRangeOf, evalOp, exCmp] at hin
        exact of_decide_eq_true hin
      rcases hp with rfl | rfl <;> (show _ - k' ≠ (0 : Int)) <;> omega
    · have hin' : k' - 110 ≤ 0 := by
        simp only [exMid, inRangeOf, evalOp, exCmp] at hin
        exact of_decide_eq_true hin
      have hnear' : ¬ (90 - k' > 0) := by
        simp only [exMid, nearOp, nearOf, seekFirstGreaterOrEqualStep, exCmp, Bool.not_eq_true'] at hnear
        exact of_decide_eq_false hnear
      rcases hp with rfl | rfl <;> (show _ - k' ≠ (0 : Int)) <;> omega
    · have hin' : k' - 120 > 0 := by
        simp only [exRangeRev, inRangeOf, evalOp, exCmp] at hin
        exact of_decide_eq_true hin
      rcases hp with rfl | rfl <;> (show _ - k' ≠ (0 : Int)) <;> omega
  · intro r hr hns
    simp only [exReads, List.mem_cons, List.not_mem_nil, or_false] at hr
    rcases hr with rfl | rfl | rfl | rfl | rfl <;> first | rfl | trivial

/-- a complete interleaving of the seven goroutines (round robin until everybody has returned) -/
def exSched : List Nat :=
  [0, 1, 2, 3, 4, 5, 6, 0, 1, 2, 3, 4, 5, 6, 0, 1, 2, 3, 4, 5, 6, 0, 1, 2, 3, 4, 5, 6, 1, 2, 3, 4, 5, 6, 1, 2, 3, 4, 5, 6,
   1, 2, 3, 4, 5, 6, 1, 2, 3, 4, 5, 6, 1, 2, 3, 4, 5, 6, 1, 4, 5, 6, 1, 4, 5, 6, 1, 4, 5, 6, 1, 4, 5, 6, 1, 4, 5, 6, 1, 4,
   5, 6, 1, 4, 5, 6, 4, 5, 6, 4, 5, 6, 4, 5, 6, 4, 5, 6, 4, 5, 6, 4, 5, 6, 4, 5, 6, 4, 5, 6, 4, 5, 6, 4, 5, 6, 4, 5, 4, 5,
   4, 5, 4, 5, 4, 5, 4, 5, 4, 4, 4, 4, 4, 4, 4, 4, 4, 4, 4, 4, 4, 4, 4, 4, 4, 4, 4, 4, 4, 4, 4, 4]

/-- what a goroutine has returned (a range reader: the values it was handed) -/
def exResult : PC Int Int → Option (Res Int)
  | .done r => some r
  | .it .fin st => some (.vals (st.out.map (·.2)))
  | _ => none

/-- the value slots a goroutine, run alone on the memory of `exTree`, reads -/
def exValReads (op : Op Int Int) : List Loc :=
  (solo exCmp op 1000 (memOf exTree) (start op)).1.filterMap fun a =>
    match a.loc with
    | .node x (.val i) => some (.node x (.val i))
    | _ => none

end Juniper.Proofs.TreeAccess
