import Juniper.Proofs.TreeHeapLinkMerge
/-!
# Linking the two B-tree models (C03): `steal`, the repair loop of `Delete`

`repair fuel h x` is what `Delete` does with an underfull node `x` after the removal: `steal`, and if
nothing could be stolen and `x` is not the root, `merge` (which cascades). This file evaluates `steal`
and the epilogue `mergeTail` of a merge in the situations that occur.
-/
namespace Juniper.Proofs.TreeHeapLink
open Juniper Juniper.Model.BTree Juniper.Model.BTreeSlotsOps Juniper.Proofs.Tree Juniper.Proofs.TreeSlotsOps

variable {K V : Type}

/-! ## `steal` does not move the root -/

theorem step_root {h h' : Heap K V} {op : NodeOp K V Nat} {w : List Nat} (hs : h.step op w = some h') :
    h'.root = h.root := by
  unfold Heap.step at hs
  obtain ⟨fam, _, rfl⟩ := Option.map_eq_some_iff.mp hs
  rfl

theorem setParents_root (p : Option Nat) : ∀ (cs : List (Option Nat)) {h h' : Heap K V},
    h.setParents cs p = some h' → h'.root = h.root
  | [], h, h', hs => by simp [Heap.setParents] at hs; subst hs; rfl
  | c :: cs, h, h', hs => by
    simp only [Heap.setParents, List.foldlM_cons] at hs
    obtain ⟨h1, hh1, hs⟩ := Option.bind_eq_some_iff.mp hs
    obtain ⟨id, hid, hh1⟩ := Option.bind_eq_some_iff.mp hh1
    exact (setParents_root p cs hs).trans (step_root hh1)

theorem rotateLeft_root {h h' : Heap K V} {lid rid : Nat} (hs : h.rotateLeft lid rid = some h') : h'.root = h.root := by
  unfold Heap.rotateLeft at hs
  simp only [bind, pure] at hs
  obtain ⟨left, h1, hs⟩ := Option.bind_eq_some_iff.mp hs
  obtain ⟨right, h2, hs⟩ := Option.bind_eq_some_iff.mp hs
  obtain ⟨pid, h3, hs⟩ := Option.bind_eq_some_iff.mp hs
  obtain ⟨p, h4, hs⟩ := Option.bind_eq_some_iff.mp hs
  obtain ⟨idx, h5, hs⟩ := Option.bind_eq_some_iff.mp hs
  obtain ⟨child, h6, hs⟩ := Option.bind_eq_some_iff.mp hs
  obtain ⟨ha, h7, hs⟩ := Option.bind_eq_some_iff.mp hs
  have c1 := step_root h7
  obtain ⟨hb, h8, hs⟩ := Option.bind_eq_some_iff.mp hs
  simp at hs; subst hs
  cases child with
  | none => simp at h8; subst h8; exact c1
  | some c => exact (setParents_root _ _ h8).trans c1

theorem rotateRight_root {h h' : Heap K V} {lid rid : Nat} (hs : h.rotateRight lid rid = some h') : h'.root = h.root := by
  unfold Heap.rotateRight at hs
  simp only [bind, pure] at hs
  obtain ⟨left, h1, hs⟩ := Option.bind_eq_some_iff.mp hs
  obtain ⟨pid, h3, hs⟩ := Option.bind_eq_some_iff.mp hs
  obtain ⟨p, h4, hs⟩ := Option.bind_eq_some_iff.mp hs
  obtain ⟨idx, h5, hs⟩ := Option.bind_eq_some_iff.mp hs
  obtain ⟨ci, h5', hs⟩ := Option.bind_eq_some_iff.mp hs
  obtain ⟨child, h6, hs⟩ := Option.bind_eq_some_iff.mp hs
  obtain ⟨ha, h7, hs⟩ := Option.bind_eq_some_iff.mp hs
  have c1 := step_root h7
  obtain ⟨hb, h8, hs⟩ := Option.bind_eq_some_iff.mp hs
  simp at hs; subst hs
  cases child with
  | none => simp at h8; subst h8; exact c1
  | some c => exact (setParents_root _ _ h8).trans c1

theorem rotCall_root {h h' : Heap K V} {call : Option (Gen.Tree.Callee × Gen.Tree.NodeArg × Gen.Tree.NodeArg)}
    {xid : Nat} {left right : Option Nat} (hs : Heap.rotCall h call xid left right = some h') : h'.root = h.root := by
  unfold Heap.rotCall at hs
  split at hs
  · exact rotateLeft_root hs
  · exact rotateRight_root hs
  · cases hs

theorem steal_root {h : Heap K V} {xid : Nat} {r : Heap K V × Bool} (hs : h.steal xid = some r) : r.1.root = h.root := by
  unfold Heap.steal at hs
  simp only [bind, pure] at hs
  obtain ⟨lr, h1, hs⟩ := Option.bind_eq_some_iff.mp hs
  obtain ⟨rn, h2, hs⟩ := Option.bind_eq_some_iff.mp hs
  split at hs
  · obtain ⟨ha, h4, hs⟩ := Option.bind_eq_some_iff.mp hs
    simp at hs; subst hs
    exact rotCall_root h4
  · obtain ⟨ln, h3, hs⟩ := Option.bind_eq_some_iff.mp hs
    split at hs
    · obtain ⟨ha, h5, hs⟩ := Option.bind_eq_some_iff.mp hs
      simp at hs; subst hs
      exact rotCall_root h5
    · simp at hs; subst hs
      rfl

/-! ## `repair` -/

/-- `Delete` on an underfull node after the removal: `steal`, else (unless it is the root) `merge` -/
def repair (fuel : Nat) (h : Heap K V) (xid : Nat) : Option (Heap K V) :=
  (Heap.steal h xid).bind fun hs =>
    if hs.2 then some hs.1
    else if Gen.Tree.deleteMerges xid hs.1.root then Heap.mergeFrom fuel hs.1 xid else some hs.1

theorem nOf_some {h : Heap K V} {r : Nat} {xr : SNode K V Nat} (hr : h.get r = some xr) : Heap.nOf h (some r) = some xr.n := by
  simp [Heap.nOf, hr]

theorem steal_right {h h' : Heap K V} {xid r : Nat} {left : Option Nat} {rn : Int}
    (hsib : Heap.siblings h xid = some (left, some r)) (hn : Heap.nOf h (some r) = some rn)
    (hst : Gen.Tree.stealRight true rn = true) (hrot : Heap.rotateLeft h xid r = some h') :
    Heap.steal h xid = some (h', true) := by
  unfold Heap.steal
  simp only [bind, pure, hsib, hn, Option.bind_some, Option.isSome_some, hst, if_true, rotCall_stealRight, hrot]

theorem steal_left {h h' : Heap K V} {xid l : Nat} {right : Option Nat} {rn ln : Int}
    (hsib : Heap.siblings h xid = some (some l, right)) (hn : Heap.nOf h right = some rn)
    (hst : Gen.Tree.stealRight right.isSome rn = false) (hnl : Heap.nOf h (some l) = some ln)
    (hstl : Gen.Tree.stealLeft true ln = true) (hrot : Heap.rotateRight h l xid = some h') :
    Heap.steal h xid = some (h', true) := by
  unfold Heap.steal
  simp only [bind, pure, hsib, hn, Option.bind_some, hst, hnl, Option.isSome_some, hstl, if_true, rotCall_stealLeft, hrot]
  simp

theorem steal_none {h : Heap K V} {xid : Nat} {left right : Option Nat} {rn ln : Int}
    (hsib : Heap.siblings h xid = some (left, right)) (hn : Heap.nOf h right = some rn)
    (hst : Gen.Tree.stealRight right.isSome rn = false) (hnl : Heap.nOf h left = some ln)
    (hstl : Gen.Tree.stealLeft left.isSome ln = false) :
    Heap.steal h xid = some (h, false) := by
  unfold Heap.steal
  simp only [bind, pure, hsib, hn, Option.bind_some, hst, hnl, hstl]
  simp

/-- at the root `steal` finds no siblings and `Delete` does not merge -/
theorem repair_root {h : Heap K V} {sx : SNode K V Nat} (hx : h.get h.root = some sx) (hp : sx.parent = none) (fuel : Nat) :
    repair fuel h h.root = some h := by
  have hsib : Heap.siblings h h.root = some (none, none) := by
    unfold Heap.siblings
    simp only [bind, pure, hx, Option.bind_some, hp]
  have hst : Heap.steal h h.root = some (h, false) :=
    steal_none (rn := 0) (ln := 0) hsib rfl (by simp [Gen.Tree.stealRight]) rfl (by simp [Gen.Tree.stealLeft])
  simp [repair, hst, Gen.Tree.deleteMerges]

/-! ## the epilogue of a merge -/

theorem mergeTail_keep {h1 : Heap K V} {id li : Nat} {sp : SNode K V Nat} {kvs : List (K × V)} {cids : List Nat}
    (hp : h1.get id = some sp) (rp : NodeRep sp kvs cids)
    (hc : (id = h1.root ∧ kvs ≠ []) ∨ (id ≠ h1.root ∧ Gen.Tree.minKVs ≤ (kvs.length : Int))) (fuel : Nat) :
    mergeTail fuel h1 id li = some h1 := by
  unfold mergeTail
  simp only [bind, pure, hp, Option.bind_some, rp.hn]
  rcases hc with ⟨h0, hne⟩ | ⟨h0, hge⟩
  · have : kvs.length ≠ 0 := fun e => hne (List.eq_nil_of_length_eq_zero e)
    simp [Gen.Tree.mergeRootCheck, Gen.Tree.mergeRootEmpty, h0, this]
  · have : ¬ ((id : Int) = (h1.root : Int)) := by omega
    have h2 : ¬ ((kvs.length : Int) < Gen.Tree.minKVs) := by omega
    simp [Gen.Tree.mergeRootCheck, Gen.Tree.mergeCascades, this, h2]

theorem mergeTail_cascade {h1 : Heap K V} {id li : Nat} {sp : SNode K V Nat} {kvs : List (K × V)} {cids : List Nat}
    (hp : h1.get id = some sp) (rp : NodeRep sp kvs cids) (h0 : id ≠ h1.root)
    (hlt : (kvs.length : Int) < Gen.Tree.minKVs) (fuel : Nat) :
    mergeTail fuel h1 id li = repair fuel h1 id := by
  have hne : ¬ ((id : Int) = (h1.root : Int)) := by omega
  unfold mergeTail repair
  simp only [bind, pure, hp, Option.bind_some, rp.hn]
  simp only [Gen.Tree.mergeRootCheck, hne, decide_false, Bool.false_eq_true, if_false, Gen.Tree.mergeCascades, hlt,
    decide_true, Bool.not_false, Bool.and_true, if_true, Bool.true_and]
  cases hst : Heap.steal h1 id with
  | none => rfl
  | some hs =>
    have hr := steal_root hst
    simp only [Option.bind_some, hr, Gen.Tree.deleteMerges, hne, decide_false, Bool.not_false, if_true]
    cases hs.2 <;> simp

theorem mergeTail_collapse {h1 : Heap K V} {id li : Nat} {sp sl : SNode K V Nat} {cids : List Nat}
    (hp : h1.get id = some sp) (rp : NodeRep sp ([] : List (K × V)) cids) (h0 : id = h1.root)
    (hl : h1.get li = some sl) (hne : li ≠ id) :
    ∃ h2, (∀ fuel, mergeTail fuel h1 id li = some h2) ∧ h2.root = li ∧ h2.size = h1.size ∧ h2.gen = h1.gen ∧
      h2.nodes.length = h1.nodes.length ∧
      ∀ j, h2.get j = if j = id then none else if j = li then some (withParent none sl) else h1.get j := by
  obtain ⟨ha, hsa, hsamea, hga⟩ := step_setParent hl none [li]
  have hpa : ha.get id = some sp := by rw [hga, if_neg (fun e => hne e.symm)]; exact hp
  obtain ⟨hb, hsb, hsameb, hgb⟩ := step_drop ha hpa []
  refine ⟨Heap.event { hb with root := li } "collapse", ?_, rfl, ?_, ?_, ?_, ?_⟩
  · intro fuel
    unfold mergeTail
    simp only [bind, pure, hp, Option.bind_some, rp.hn]
    have hsb' := hsb
    rw [h0] at hsb'
    -- `t.root = left; left.parent = nil`: both statements are in the source
    simp [Gen.Tree.mergeRootCheck, Gen.Tree.mergeRootEmpty, Gen.Tree.mergeCollapseClearsParent,
      Gen.Tree.mergeCollapseSetsRoot, h0, hsa, hsb']
  · show hb.size = h1.size
    rw [hsameb.size, hsamea.size]
  · show hb.gen = h1.gen
    rw [hsameb.gen, hsamea.gen]
  · show hb.nodes.length = h1.nodes.length
    rw [hsameb.len, hsamea.len]
  · intro j
    show hb.get j = _
    rw [hgb, hga]

end Juniper.Proofs.TreeHeapLink
