import Juniper.Model.Deque
/-!
# Ring-index arithmetic of `container/deque` (helpers for C04, C15)

Normal forms of the *generated* index expressions (`Juniper.Gen.Deque.*`, re-extracted from
`deque.go` on every run) under the bounds of the representation invariant. Every lemma is proved by
unfolding the generated definition, so a changed operator in the Go source breaks it.
-/
namespace Juniper.Proofs.Deque
open Juniper.Gen.Deque Juniper.Model.Deque

/-- Raw buffer index of ring position `k` (0 = front) in a ring of size `c` whose front is `f`. -/
def ridx (f c k : Int) : Int := if f + k < c then f + k else f + k - c

theorem ridx_cases (f c k : Int) :
    (f + k < c ∧ ridx f c k = f + k) ∨ (c ≤ f + k ∧ ridx f c k = f + k - c) := by
  unfold ridx; split <;> omega

theorem ridx_zero {f c : Int} (h : f < c) : ridx f c 0 = f := by
  have := ridx_cases f c 0; omega

/-- Go's `%` (truncated) on the range that the ring arithmetic uses. -/
theorem tmod_wrap_cases {x c : Int} (h0 : 0 ≤ x) (h1 : x < 2 * c) :
    (x < c ∧ Int.tmod x c = x) ∨ (c ≤ x ∧ Int.tmod x c = x - c) := by
  rw [Int.tmod_eq_emod_of_nonneg h0]
  by_cases h : x < c
  · exact Or.inl ⟨h, Int.emod_eq_of_lt h0 h⟩
  · refine Or.inr ⟨by omega, ?_⟩
    rw [← Int.sub_emod_right]; exact Int.emod_eq_of_lt (by omega) (by omega)

/-- The generated `positiveMod` is the mathematical residue for a positive modulus. -/
theorem positiveMod_emod (l d : Int) (hd : 0 < d) :
    0 ≤ positiveMod l d ∧ positiveMod l d < d ∧ positiveMod l d = l % d := by
  unfold positiveMod
  simp only [Int.tmod_eq_emod]
  have h0 := Int.emod_nonneg l (Int.ne_of_gt hd)
  have h1 := Int.emod_lt_of_pos l hd
  have hab : d.natAbs = d := by omega
  by_cases hdv : d ∣ l
  · have : l % d = 0 := Int.emod_eq_zero_of_dvd hdv
    simp [hdv, this, hd]
  · have : l % d ≠ 0 := fun h => hdv (Int.dvd_of_emod_eq_zero h)
    by_cases hl : 0 ≤ l
    · simp [hl]; omega
    · simp [hl, hdv]; rw [hab]; omega

/-- `positiveMod(x-1, c)` for `0 ≤ x < c`: one step backwards in the ring. -/
theorem positiveMod_pred {x c : Int} (h0 : 0 ≤ x) (h1 : x < c) :
    positiveMod (x - 1) c = if x = 0 then c - 1 else x - 1 := by
  have hc : 0 < c := by omega
  obtain ⟨_, _, h⟩ := positiveMod_emod (x - 1) c hc
  rw [h]
  split
  · subst x
    rw [← Int.add_emod_right]
    have : (0 : Int) - 1 + c = c - 1 := by omega
    rw [this]; exact Int.emod_eq_of_lt (by omega) (by omega)
  · exact Int.emod_eq_of_lt (by omega) (by omega)

theorem positiveMod_pred_cases {x c : Int} (h0 : 0 ≤ x) (h1 : x < c) :
    (x = 0 ∧ positiveMod (x - 1) c = c - 1) ∨ (0 < x ∧ positiveMod (x - 1) c = x - 1) := by
  rw [positiveMod_pred h0 h1]; split <;> omega

end Juniper.Proofs.Deque
