import Juniper.Proofs.Pulls
import Juniper.Proofs.StreamReduce
import Juniper.Proofs.StreamLast
/-!
# Iterator and stream versions agree (C07), remaining combinators and the reducers; pull counts of
the stream reducers

Helper lemmas for `iter_stream_agree_flatten/join/flattenSlices/last/one/collect/reduce`: the spec
functions of the stream side (`flattenS`, `joinS`, `foldRes`, `oneRes`, `outOf`) specialise, on
streams that end, to the list functions of the iterator side.
-/
namespace Juniper.Proofs.StreamDen
open Juniper.Model Juniper.Model.Stream Juniper.Spec Juniper.Gen.Comb
open Juniper.Proofs.IterDen
universe u v w x
variable {σ : Type u} {σ' : Type w} {τ : Type w} {α β : Type v} {γ : Type x} {soft : Err → Bool}

/-! ## fault-free scripts -/

theorem scriptItems_map_item (er : Bool) (p : Nat) (l : List α) :
    scriptItems er p (l.map Ev.item) = annot p l := by
  induction l generalizing p with
  | nil => rfl
  | cons a l ih => simp [scriptItems, annot, ih]

theorem scriptTerm_map_item (er : Bool) (p : Nat) (l : List α) :
    scriptTerm er p (l.map Ev.item) = .end_ (p + l.length) := by
  induction l generalizing p with
  | nil => rfl
  | cons a l ih => simp [scriptTerm, ih]; omega

/-- a fresh fault-free scripted source -/
def ofList (l : List α) : Stream.Src α := Stream.Src.of (l.map Ev.item)

theorem ofList_sden (er : Bool) (hT : ∀ n, soft (.transient n) = er) (hF : ∀ n, soft (.fatal n) = false)
    (l : List α) :
    SDen soft Stream.src (fun s : Stream.Src α => s.pulled) (ofList l) (annot 0 l) (.end_ l.length) := by
  have := src_sden (soft := soft) er hT hF (l.map Ev.item) 0 0 0
  rw [scriptItems_map_item, scriptTerm_map_item, Nat.zero_add] at this
  exact this

theorem annot_map {β : Type v} (g : α → β) (p : Nat) (l : List α) :
    annot p (l.map g) = (annot p l).map fun q => (g q.1, q.2) := by
  induction l generalizing p with
  | nil => rfl
  | cons a l ih => simp [annot, ih]

/-! ## Flatten / Join / FlattenSlices on streams that end -/

/-- what an inner fault-free source denotes -/
def srcD (x : Stream.Src α) : List α × Term :=
  ((scriptItems true x.pulled x.script).map Prod.fst, scriptTerm true x.pulled x.script)

theorem srcD_ofList (l : List α) : srcD (ofList l) = (l, .end_ l.length) := by
  simp [srcD, ofList, Stream.Src.of, scriptItems_map_item, scriptTerm_map_item, annot_fst]

theorem flattenS_ended (p : Nat) (ls : List (List α)) (e : Nat) :
    flattenS srcD (annot p (ls.map ofList)) (.end_ e) =
      ((annot p ls).flatMap fun q => q.1.map fun a => (a, q.2), .end_ e) := by
  induction ls generalizing p with
  | nil => rfl
  | cons l ls ih => simp [annot, flattenS, srcD_ofList, innerOut, innerTerm, ih]

theorem joinS_ended (ls : List (List α)) :
    joinS srcD (ls.map ofList) = (ls.flatten.map fun a => (a, 0), .end_ 0) := by
  induction ls with
  | nil => rfl
  | cons l ls ih => simp [joinS, srcD_ofList, innerOut, innerTerm, ih]

/-- the iterator side of `Flatten` over slices, in the same normal form -/
theorem flatten_annot (p : Nat) (ls : List (List α)) :
    ((annot p (ls.map Iter.Src.of)).flatMap fun q => (q.1.rest).map fun a => (a, q.2)) =
      (annot p ls).flatMap fun q => q.1.map fun a => (a, q.2) := by
  rw [annot_map, List.flatMap_map]
  rfl

theorem srcD_hyp (soft : Err → Bool) (hT : ∀ n, soft (.transient n) = true) (hF : ∀ n, soft (.fatal n) = false)
    (l : List α) :
    ∃ (ci : Stream.Src α → Nat) (Li : List (α × Nat)),
      SDen soft Stream.src ci (ofList l) Li (srcD (ofList l)).2 ∧ Li.map Prod.fst = (srcD (ofList l)).1 := by
  refine ⟨fun s => s.pulled, annot 0 l, ?_, ?_⟩
  · rw [srcD_ofList]; exact ofList_sden true hT hF l
  · rw [srcD_ofList, annot_fst]

/-! ## reducers: results on streams that end -/

theorem foldRes_ok (f : γ → α → γ) (acc : γ) (l : List α) (e : Nat) :
    foldRes (fun acc a => Except.ok (f acc a)) acc l (.end_ e) = .ok (l.foldl f acc) := by
  induction l generalizing acc with
  | nil => rfl
  | cons a l ih => simp [foldRes, ih]

/-- the iterator's `(value, ok)` reading of the stream's `One` result -/
def oneOpt : ROut α → Option α
  | .ok a => some a
  | _ => none

theorem oneRes_opt (l : List α) (e : Nat) :
    oneOpt (oneRes l (.end_ e)) = (match l with | [a] => some a | _ => none) := by
  match l with
  | [] => rfl
  | [_] => rfl
  | _ :: _ :: _ => rfl

/-! ## pull counts of the stream reducers (fault-free run, live context) -/

theorem reduceLoop_cost {g : RGuards} {cf : Bool} (hg : g.Canon cf) {m : SM σ α} {cost : σ → Nat} {s : σ}
    {L : List (α × Nat)} {e : Nat}
    (f : γ → α → Except Err γ) (hok : ∀ acc a, ∃ acc', f acc a = .ok acc')
    (h : SDen strict m cost s L (.end_ e)) :
    ∃ F, ∀ fuel, F ≤ fuel → ∀ acc, cost (reduceLoop g m f true fuel acc s).2 = e := by
  have _tie := Skeleton.Tie.stReduce
  generalize ht : Term.end_ e = t at h
  induction h with
  | skip _ hs _ ih =>
    obtain ⟨F, hF⟩ := ih ht
    refine ⟨F + 1, fun fuel hf acc => ?_⟩
    obtain ⟨k, rfl⟩ : ∃ k, fuel = k + 1 := ⟨fuel - 1, by omega⟩
    rw [reduceLoop_succ hg m f (fun _ => hok), hs]
    exact hF k (by omega) acc
  | soft _ _ he _ _ => simp [strict] at he
  | @item s s' a L t _ hs _ ih =>
    obtain ⟨F, hF⟩ := ih ht
    refine ⟨F + 1, fun fuel hf acc => ?_⟩
    obtain ⟨k, rfl⟩ : ∃ k, fuel = k + 1 := ⟨fuel - 1, by omega⟩
    rw [reduceLoop_succ hg m f (fun _ => hok), hs]
    obtain ⟨acc', h'⟩ := hok acc a
    simp only [h']
    exact hF k (by omega) acc'
  | fail _ _ _ => cases ht
  | done _ hs _ _ =>
    refine ⟨1, fun fuel hf acc => ?_⟩
    obtain ⟨k, rfl⟩ : ∃ k, fuel = k + 1 := ⟨fuel - 1, by omega⟩
    rw [reduceLoop_succ hg m f (fun _ => hok), hs]
    cases ht
    rfl

theorem lastLoop_cost {m : SM σ α} {cost : σ → Nat} {s : σ} {L : List (α × Nat)} {e : Nat} (n : Nat)
    (h : SDen strict m cost s L (.end_ e)) :
    ∃ F, ∀ fuel, F ≤ fuel → ∀ (buf : List (Option α)) (i : Nat),
      cost (Stream.lastLoop m (n : Int) true fuel buf (i : Int) s).2 = e := by
  have _tie := Skeleton.Tie.stLast
  generalize ht : Term.end_ e = t at h
  induction h with
  | skip _ hs _ ih =>
    obtain ⟨F, hF⟩ := ih ht
    refine ⟨F + 1, fun fuel hf buf i => ?_⟩
    obtain ⟨g, rfl⟩ : ∃ g, fuel = g + 1 := ⟨fuel - 1, by omega⟩
    rw [lastLoop_succ, hs]
    exact hF g (by omega) buf i
  | soft _ _ he _ _ => simp [strict] at he
  | @item s s' a L t _ hs _ ih =>
    obtain ⟨F, hF⟩ := ih ht
    refine ⟨F + 1, fun fuel hf buf i => ?_⟩
    obtain ⟨g, rfl⟩ : ∃ g, fuel = g + 1 := ⟨fuel - 1, by omega⟩
    rw [lastLoop_succ, hs]
    simp only [st_lastStore, stLastCounts, if_true]
    have e1 : ((i : Int) + 1) = ((i + 1 : Nat) : Int) := by omega
    rw [e1]
    exact hF g (by omega) _ (i + 1)
  | fail _ _ _ => cases ht
  | done _ hs _ _ =>
    refine ⟨1, fun fuel hf buf i => ?_⟩
    obtain ⟨g, rfl⟩ : ∃ g, fuel = g + 1 := ⟨fuel - 1, by omega⟩
    rw [lastLoop_succ, hs]
    cases ht
    rfl

/-- consumer-level `Next` (live context) with the cost afterwards -/
theorem drive_sden_cost {m : SM σ α} {cost : σ → Nat} {s : σ} {L : List (α × Nat)} {e : Nat}
    (h : SDen strict m cost s L (.end_ e)) :
    ∃ F, ∀ fuel, F ≤ fuel →
      match L with
      | [] => (drive m true fuel s).1 = some .end_ ∧ cost (drive m true fuel s).2 = e
      | p :: L' => (drive m true fuel s).1 = some (.item p.1) ∧
          SDen strict m cost (drive m true fuel s).2 L' (.end_ e) ∧ cost (drive m true fuel s).2 = p.2 := by
  generalize ht : Term.end_ e = t at h
  induction h with
  | @skip s s' L t _ hs _ ih =>
    obtain ⟨F, hF⟩ := ih ht
    refine ⟨F + 1, fun fuel hf => ?_⟩
    obtain ⟨g, rfl⟩ : ∃ g, fuel = g + 1 := ⟨fuel - 1, by omega⟩
    rw [drive_succ, hs]
    exact hF g (by omega)
  | soft _ _ he _ _ => simp [strict] at he
  | @item s s' a L t _ hs h' _ =>
    refine ⟨1, fun fuel hf => ?_⟩
    obtain ⟨g, rfl⟩ : ∃ g, fuel = g + 1 := ⟨fuel - 1, by omega⟩
    rw [drive_succ, hs]
    subst ht
    exact ⟨rfl, h', rfl⟩
  | fail _ _ _ => cases ht
  | done _ hs _ _ =>
    refine ⟨1, fun fuel hf => ?_⟩
    obtain ⟨g, rfl⟩ : ∃ g, fuel = g + 1 := ⟨fuel - 1, by omega⟩
    rw [drive_succ, hs]
    cases ht
    exact ⟨rfl, rfl⟩

/-- `stream.One` makes at most two `Next` calls (then closes). -/
theorem one_cost {m : SM σ α} {cost : σ → Nat} {s : σ} {L : List (α × Nat)} {e : Nat}
    (hclose : ∀ s, cost (m.close s) = cost s) (h : SDen strict m cost s L (.end_ e)) :
    ∃ F, ∀ fuel, F ≤ fuel → cost (Stream.one m true fuel s).2 = oneCost L e := by
  have _tie := Skeleton.Tie.stOne
  have hdc : ∀ b s, cost (deferClose b m s) = cost s := by
    intro b s; cases b <;> simp [deferClose, hclose]
  obtain ⟨F1, h1⟩ := drive_sden_cost h
  cases L with
  | nil =>
    refine ⟨F1, fun fuel hf => ?_⟩
    have := h1 fuel hf
    simp only at this
    simp only [Stream.one, oneCost]
    rcases hd : drive m true fuel s with ⟨r, s1⟩
    rw [hd] at this
    simp only at this
    rw [this.1]
    simp only [hdc]
    exact this.2
  | cons p L' =>
    have hF1 := h1 F1 (Nat.le_refl _)
    simp only at hF1
    obtain ⟨F2, h2⟩ := drive_sden_cost hF1.2.1
    refine ⟨max F1 F2, fun fuel hf => ?_⟩
    have hmono : drive m true fuel s = drive m true F1 s := by
      have e1 : drive m true F1 s = (some (.item p.1), (drive m true F1 s).2) := by rw [← hF1.1]
      rw [e1]
      exact sdrive_mono e1 fuel (by omega)
    have h3 := h2 fuel (by omega)
    simp only [Stream.one, hmono]
    rcases hd : drive m true F1 s with ⟨r, s1⟩
    rw [hd] at hF1 h3
    simp only at hF1 h3
    rw [hF1.1]
    simp only
    cases L' with
    | nil =>
      simp only at h3
      rcases hd2 : drive m true fuel s1 with ⟨r2, s2⟩
      rw [hd2] at h3
      simp only at h3
      rw [h3.1]
      simp only [hdc, oneCost]
      exact h3.2
    | cons q L'' =>
      simp only at h3
      rcases hd2 : drive m true fuel s1 with ⟨r2, s2⟩
      rw [hd2] at h3
      simp only at h3
      rw [h3.1]
      simp only [hdc, oneCost]
      exact h3.2.2

/-- `stream.Reduce` / `Collect` read the stream to its end (callback never failing), then close. -/
theorem reduce_cost {m : SM σ α} {cost : σ → Nat} {s : σ} {L : List (α × Nat)} {e : Nat}
    (hclose : ∀ s, cost (m.close s) = cost s)
    (f : γ → α → Except Err γ) (hok : ∀ acc a, ∃ acc', f acc a = .ok acc')
    (h : SDen strict m cost s L (.end_ e)) :
    ∃ F, ∀ fuel, F ≤ fuel → ∀ init, cost (Stream.reduce m f true fuel init s).2 = e := by
  obtain ⟨F, hF⟩ := reduceLoop_cost reduceG_canon f hok h
  refine ⟨F, fun fuel hf init => ?_⟩
  have := hF fuel hf init
  simp only [Stream.reduce]
  cases stReduceDefersClose <;> simp [deferClose, hclose, this]

theorem collect_cost {m : SM σ α} {cost : σ → Nat} {s : σ} {L : List (α × Nat)} {e : Nat}
    (hclose : ∀ s, cost (m.close s) = cost s) (h : SDen strict m cost s L (.end_ e)) :
    ∃ F, ∀ fuel, F ≤ fuel → cost (Stream.collect m true fuel s).2 = e := by
  have _tie := Skeleton.Tie.stCollect
  obtain ⟨F, hF⟩ := reduceLoop_cost collectG_canon (fun (acc : List α) a => Except.ok (acc ++ [a])) (fun _ _ => ⟨_, rfl⟩) h
  refine ⟨F, fun fuel hf => ?_⟩
  have := hF fuel hf []
  simp only [Stream.collect]
  cases stCollectDefersClose <;> simp [deferClose, hclose, this]

theorem last_cost {m : SM σ α} {cost : σ → Nat} {s : σ} {L : List (α × Nat)} {e : Nat} (n : Nat)
    (hclose : ∀ s, cost (m.close s) = cost s) (h : SDen strict m cost s L (.end_ e)) :
    ∃ F, ∀ fuel, F ≤ fuel → cost (Stream.last m (n : Int) true fuel s).2 = e := by
  obtain ⟨F, hF⟩ := lastLoop_cost n h
  refine ⟨F, fun fuel hf => ?_⟩
  have h1 := hF fuel hf (List.replicate n none) 0
  have hn : ¬ ((n : Int) < 0) := by omega
  have e0 : ((0 : Nat) : Int) = 0 := rfl
  rw [e0] at h1
  simp only [Stream.last, hn, if_false, Int.toNat_natCast]
  cases stLastDefersClose <;> simp [deferClose, hclose, h1]

end Juniper.Proofs.StreamDen
