import Juniper.Proofs.HelpersBasic
/-! `xslices.Partition` (C19, theorem A): the result is a permutation split at the returned index. -/
namespace Juniper.Proofs.Helpers
open Juniper.Model.Helpers Juniper.Spec.Helpers Juniper.Gen.Helpers

variable {α : Type}

/-- every existing position strictly below `i` fails `f` -/
def FalseBelow (f : α → Bool) (s : List α) (i : Int) : Prop :=
  ∀ (p : Nat) (x : α), s[p]? = some x → (p : Int) < i → f x = false

/-- every existing position strictly above `j` satisfies `f` -/
def TrueAbove (f : α → Bool) (s : List α) (j : Int) : Prop :=
  ∀ (p : Nat) (x : α), s[p]? = some x → j < (p : Int) → f x = true

theorem advI_spec (hinc : partIncI = 3) (hbr : partBreaks = 3) (f : α → Bool) (s : List α) (j : Int) (hj : j < s.length) :
    ∀ (fuel : Nat) (i : Int), 0 ≤ i → j - i ≤ (fuel : Int) → FalseBelow f s i →
      ∃ i', advI f s fuel i j = some i' ∧ i ≤ i' ∧ (i' ≤ j ∨ i' = i) ∧ FalseBelow f s i' ∧
        (i' < j → ∃ x, s[i'.toNat]? = some x ∧ f x = true) := by
  intro fuel
  induction fuel with
  | zero =>
    intro i hi hf hfb
    refine ⟨i, rfl, Int.le_refl _, Or.inr rfl, hfb, ?_⟩
    intro h; omega
  | succ fuel ih =>
    intro i hi hf hfb
    unfold advI
    simp only [partLoopI, partAdvI, hinc, hbr, decide_eq_true_eq]
    by_cases hij : i < j
    · rw [if_pos hij]
      obtain ⟨n, rfl⟩ := Int.eq_ofNat_of_zero_le hi
      have hn : n < s.length := by omega
      rw [getI_of_lt s n hn]
      simp only
      cases hfx : f s[n] with
      | false =>
        simp only [Bool.not_false, if_true]
        have hfb' : FalseBelow f s ((n : Int) + 1) := by
          intro p x hp hlt
          by_cases hpn : p = n
          · subst hpn
            rw [List.getElem?_eq_getElem hn] at hp
            cases hp; exact hfx
          · exact hfb p x hp (by omega)
        obtain ⟨i', h1, h2, h3, h4, h5⟩ := ih ((n : Int) + 1) (by omega) (by omega) hfb'
        exact ⟨i', h1, by omega, by omega, h4, h5⟩
      | true =>
        simp only [Bool.not_true, Bool.false_eq_true, if_false]
        refine ⟨(n : Int), rfl, Int.le_refl _, Or.inr rfl, hfb, ?_⟩
        intro _
        refine ⟨s[n], ?_, hfx⟩
        simp [List.getElem?_eq_getElem hn]
    · rw [if_neg hij]
      refine ⟨i, rfl, Int.le_refl _, Or.inr rfl, hfb, ?_⟩
      intro h; omega

theorem advJ_spec (hdec : partDecJ = 2) (hbr : partBreaks = 3) (f : α → Bool) (s : List α) (i : Int) (hi : 0 ≤ i) :
    ∀ (fuel : Nat) (j : Int), j < s.length → j - i ≤ (fuel : Int) → TrueAbove f s j →
      ∃ j', advJ f s fuel i j = some j' ∧ j' ≤ j ∧ (i ≤ j' ∨ j' = j) ∧ TrueAbove f s j' ∧
        (i < j' → ∃ x, s[j'.toNat]? = some x ∧ f x = false) := by
  intro fuel
  induction fuel with
  | zero =>
    intro j hj hf hta
    refine ⟨j, rfl, Int.le_refl _, Or.inr rfl, hta, ?_⟩
    intro h; omega
  | succ fuel ih =>
    intro j hj hf hta
    unfold advJ
    simp only [partLoopJ, partAdvJ, hdec, hbr, gt_iff_lt, decide_eq_true_eq]
    by_cases hij : i < j
    · rw [if_pos hij]
      obtain ⟨n, rfl⟩ := Int.eq_ofNat_of_zero_le (show 0 ≤ j by omega)
      have hn : n < s.length := by omega
      rw [getI_of_lt s n hn]
      simp only
      cases hfx : f s[n] with
      | true =>
        simp only [if_true]
        have hta' : TrueAbove f s ((n : Int) - 1) := by
          intro p x hp hlt
          by_cases hpn : p = n
          · subst hpn
            rw [List.getElem?_eq_getElem hn] at hp
            cases hp; exact hfx
          · exact hta p x hp (by omega)
        obtain ⟨j', h1, h2, h3, h4, h5⟩ := ih ((n : Int) - 1) (by omega) (by omega) hta'
        exact ⟨j', h1, by omega, by omega, h4, h5⟩
      | false =>
        simp only [Bool.false_eq_true, if_false]
        refine ⟨(n : Int), rfl, Int.le_refl _, Or.inr rfl, hta, ?_⟩
        intro _
        refine ⟨s[n], ?_, hfx⟩
        simp [List.getElem?_eq_getElem hn]
    · rw [if_neg hij]
      refine ⟨j, rfl, Int.le_refl _, Or.inr rfl, hta, ?_⟩
      intro h; omega

theorem partOuter_spec (hinc : partIncI = 3) (hdec : partDecJ = 2) (hsw : partSwaps = 1) (hbr : partBreaks = 3) (f : α → Bool) :
    ∀ (fuel : Nat) (s : List α) (i j : Int), 0 ≤ i → j < s.length → i ≤ j + 1 →
      j - i + 2 ≤ (fuel : Int) * 2 → FalseBelow f s i → TrueAbove f s j →
      ∃ s' i', partOuter f fuel s i j = some (s', i') ∧ s'.Perm s ∧ 0 ≤ i' ∧ i' ≤ s.length ∧
        FalseBelow f s' i' ∧ TrueAbove f s' i' := by
  intro fuel
  induction fuel with
  | zero => intro s i j hi hj hij hf; omega
  | succ fuel ih =>
    intro s i j hi hj hij hf hfb hta
    unfold partOuter
    obtain ⟨i', e1, a1, a2, a3, a4⟩ := advI_spec hinc hbr f s j hj s.length i hi (by omega) hfb
    rw [e1]
    simp only
    obtain ⟨j', e2, b1, b2, b3, b4⟩ := advJ_spec hdec hbr f s i' (by omega) s.length j hj (by omega) hta
    rw [e2]
    simp only [partDone, hbr, hsw, hinc, hdec, and_self, ge_iff_le, decide_eq_true_eq, if_true]
    by_cases hd : j' ≤ i'
    · rw [if_pos hd]
      refine ⟨s, i', rfl, List.Perm.refl _, by omega, by omega, a3, ?_⟩
      intro p x hp hlt
      exact b3 p x hp (by omega)
    · rw [if_neg hd]
      have hlt : i' < j' := by omega
      obtain ⟨x, hx, hfx⟩ := a4 (by omega)
      obtain ⟨y, hy, hfy⟩ := b4 hlt
      obtain ⟨a, rfl⟩ := Int.eq_ofNat_of_zero_le (show 0 ≤ i' by omega)
      obtain ⟨b, rfl⟩ := Int.eq_ofNat_of_zero_le (show 0 ≤ j' by omega)
      have ha : a < s.length := by omega
      have hb : b < s.length := by omega
      simp only [Int.toNat_natCast] at hx hy
      rw [List.getElem?_eq_getElem ha] at hx
      rw [List.getElem?_eq_getElem hb] at hy
      cases hx; cases hy
      rw [swapI_nat s a b ha hb]
      simp only
      have hlen := length_swapNat s a b ha hb
      have hfb' : FalseBelow f (swapNat s a b ha hb) ((a : Int) + 1) := by
        intro p z hp hpl
        rw [getElem?_swapNat] at hp
        by_cases hpb : p = b
        · omega
        · rw [if_neg hpb] at hp
          by_cases hpa : p = a
          · rw [if_pos hpa] at hp
            cases hp; exact hfy
          · rw [if_neg hpa] at hp
            exact a3 p z hp (by omega)
      have hta' : TrueAbove f (swapNat s a b ha hb) ((b : Int) - 1) := by
        intro p z hp hpl
        rw [getElem?_swapNat] at hp
        by_cases hpb : p = b
        · rw [if_pos hpb] at hp
          cases hp; exact hfx
        · rw [if_neg hpb] at hp
          by_cases hpa : p = a
          · omega
          · rw [if_neg hpa] at hp
            exact b3 p z hp (by omega)
      obtain ⟨s', r, e3, c1, c2, c3, c4, c5⟩ :=
        ih (swapNat s a b ha hb) ((a : Int) + 1) ((b : Int) - 1) (by omega) (by omega) (by omega)
          (by omega) hfb' hta'
      exact ⟨s', r, e3, c1.trans (swapNat_perm s a b ha hb), c2, by omega, c4, c5⟩

theorem partition_perm_and_split (f : α → Bool) (s : List α) (hl64 : s.length ≤ 9223372036854775807) :
    ∃ (s' : List α) (r : Nat), partition f s = some (s', (r : Int)) ∧ s'.Perm s ∧ r ≤ s.length ∧
      (∀ x ∈ s'.take r, f x = false) ∧ (∀ x ∈ s'.drop r, f x = true) := by
  have hfb0 : FalseBelow f s 0 := by
    intro p x _ hlt; omega
  have hta0 : TrueAbove f s ((s.length : Int) - 1) := by
    intro p x hp hlt
    have := (List.getElem?_eq_some_iff.mp hp).1
    omega
  obtain ⟨s', i', e, hperm, h0, hle, hfb, hta⟩ :=
    -- the step statements of the loops: three `i++`, two `j--`, one swap, three `break`s
    partOuter_spec rfl rfl rfl rfl f (s.length + 1) s 0 ((s.length : Int) - 1) (by omega) (by omega) (by omega)
      (by omega) hfb0 hta0
  obtain ⟨n, rfl⟩ := Int.eq_ofNat_of_zero_le h0
  have hlen : s'.length = s.length := hperm.length_eq
  have key : ∀ r : Nat, r ≤ s.length → FalseBelow f s' r → TrueAbove f s' ((r : Int) - 1) →
      (∀ x ∈ s'.take r, f x = false) ∧ (∀ x ∈ s'.drop r, f x = true) := by
    intro r _ h1 h2
    constructor
    · intro x hx
      obtain ⟨p, hp⟩ := List.mem_iff_getElem?.mp hx
      rw [List.getElem?_take] at hp
      by_cases hpr : p < r
      · rw [if_pos hpr] at hp
        exact h1 p x hp (by omega)
      · rw [if_neg hpr] at hp
        cases hp
    · intro x hx
      obtain ⟨p, hp⟩ := List.mem_iff_getElem?.mp hx
      rw [List.getElem?_drop] at hp
      exact h2 (r + p) x hp (by omega)
  unfold partition
  have hj0 : partJ0 (s.length : Int) = (s.length : Int) - 1 := by
    unfold partJ0; exact wrap64_of_range (by omega) (by omega)   -- `len(s) - 1` is exact
  simp only [partI0, hj0]
  rw [e]
  simp only [getI_nat, partFinal, partIncI, ne_eq, not_true_eq_false, if_false]
  by_cases hn : n < s.length
  · have hn' : n < s'.length := by omega
    rw [List.getElem?_eq_getElem hn']
    simp only
    cases hfx : f s'[n] with
    | false =>
      refine ⟨s', n + 1, ?_, hperm, by omega, ?_⟩
      · simp; omega
      · apply key (n + 1) (by omega)
        · intro p x hp hlt
          by_cases hpn : p = n
          · subst hpn
            rw [List.getElem?_eq_getElem hn'] at hp
            cases hp; exact hfx
          · exact hfb p x hp (by omega)
        · intro p x hp hlt
          exact hta p x hp (by omega)
    | true =>
      refine ⟨s', n, ?_, hperm, by omega, ?_⟩
      · simp
      · apply key n (by omega) hfb
        intro p x hp hlt
        by_cases hpn : p = n
        · subst hpn
          rw [List.getElem?_eq_getElem hn'] at hp
          cases hp; exact hfx
        · exact hta p x hp (by omega)
  · have hnl : n = s.length := by omega
    have hnone : s'[n]? = none := by
      rw [List.getElem?_eq_none_iff]; omega
    rw [hnone]
    have hd : decide ((n : Int) < (s.length : Int)) = false := by simp; omega
    simp only [hd, Bool.false_and, if_true, Bool.false_eq_true, if_false]
    refine ⟨s', n, rfl, hperm, by omega, ?_⟩
    apply key n (by omega) hfb
    intro p x hp hlt
    have := (List.getElem?_eq_some_iff.mp hp).1
    omega

end Juniper.Proofs.Helpers
