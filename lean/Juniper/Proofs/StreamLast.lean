import Juniper.Proofs.StreamReduce
import Juniper.Proofs.Ring
/-! # `stream.Last` (C07, C08, D3) -/
namespace Juniper.Proofs.StreamDen
open Juniper.Model.Stream Juniper.Spec Juniper.Gen.Comb Juniper.Proofs
universe u v
variable {σ : Type u} {α : Type v}

theorem tmod_cast' (i n : Nat) : (Int.tmod (i : Int) (n : Int)).toNat = i % n := by
  rw [← Int.ofNat_tmod]; exact Int.toNat_natCast _

theorem st_lastStore (buf : List (Option α)) (i n : Nat) (a : α) :
    lastStore buf (i : Int) (n : Int) a = some (Ring.store n buf i a) := by
  unfold lastStore Ring.store
  by_cases hn : n > 0
  · have h1 : stLastStoreGuard (n : Int) = true := by simp [stLastStoreGuard]; omega
    have h2 : ¬ ((n : Int) = 0) := by omega
    simp only [h1, if_true, h2, if_false, hn, stLastSlot, tmod_cast']
  · have h1 : stLastStoreGuard (n : Int) = false := by simp [stLastStoreGuard]; omega
    simp [h1, hn]

theorem st_lastFinish (buf : List (Option α)) (i n : Nat) (hb : buf.length = n) :
    lastFinish buf (i : Int) (n : Int) = .ok (Ring.finish n buf i) := by
  unfold lastFinish Ring.finish
  by_cases hlt : i < n
  · have h1 : stLastShort (i : Int) (n : Int) = true := by simp [stLastShort]; omega
    simp [h1, hlt]
  · have h1 : stLastShort (i : Int) (n : Int) = false := by simp [stLastShort]; omega
    simp only [h1, Bool.false_eq_true, if_false, hlt]
    by_cases hn : n > 0
    · have h2 : stLastRotGuard (n : Int) = true := by simp [stLastRotGuard]; omega
      have h3 : ¬ ((n : Int) = 0) := by omega
      have hr := Nat.mod_lt i hn
      have hidx : (stLastIdx (i : Int) (n : Int)).toNat = i % n := by simp [stLastIdx, tmod_cast']
      have hidx' : stLastIdx (i : Int) (n : Int) = ((i % n : Nat) : Int) := by
        simp only [stLastIdx]; rw [Int.ofNat_tmod]
      have hsplit : stLastSplit (n : Int) (stLastIdx (i : Int) (n : Int)) = ((n - i % n : Nat) : Int) := by
        rw [hidx']; simp only [stLastSplit]; omega
      simp only [h2, if_true, h3, if_false, hn, ValueFacts.stLastFrom_eq, ValueFacts.stLastUpto_eq, hidx, hsplit, Int.toNat_natCast]
      have hc : ¬ ((((n - i % n : Nat) : Int) < 0) ∨ (((n - i % n : Nat) : Int) > (n : Int))) := by omega
      have hc' : (decide (((n - i % n : Nat) : Int) < 0) || decide (((n - i % n : Nat) : Int) > (n : Int))) = false := by
        simp <;> omega
      simp only [hc', Bool.false_eq_true, if_false, rret_last]
      congr 1
      generalize i % n = r at hr
      have hla : (buf.drop r).length = n - r := by simp [hb]
      have hlb : (buf.take r).length = r := by simp [hb] <;> omega
      have h4 : (List.replicate n (none : Option α)).drop (buf.drop r).length = List.replicate r none := by
        rw [hla]; simp <;> omega
      rw [h4]
      have h5 : (buf.drop r ++ List.replicate r none).take (n - r) = buf.drop r := by
        rw [List.take_left' hla]
      have h6 : (buf.drop r ++ List.replicate r (none : Option α)).drop (n - r + (buf.take r).length) = [] := by
        apply List.drop_eq_nil_of_le; simp [hla, hlb] <;> omega
      rw [h5, h6, List.append_nil, List.take_of_length_le (by simp [hla, hlb] <;> omega)]
    · have hn0 : n = 0 := by omega
      subst hn0
      simp [stLastRotGuard]

theorem lastLoop_sden {m : SM σ α} {cost : σ → Nat} {s : σ} {L : List (α × Nat)} {t : Term} (n : Nat)
    (h : SDen strict m cost s L t) :
    ∃ F, ∀ fuel, F ≤ fuel → ∀ (buf : List (Option α)) (i : Nat),
      (lastLoop m (n : Int) true fuel buf (i : Int) s).1 =
        outOf t (Ring.run n buf i (L.map Prod.fst), ((i + L.length : Nat) : Int)) := by
  induction h with
  | skip _ hs _ ih =>
    obtain ⟨F, hF⟩ := ih
    refine ⟨F + 1, fun fuel hf buf i => ?_⟩
    obtain ⟨g, rfl⟩ : ∃ g, fuel = g + 1 := ⟨fuel - 1, by omega⟩
    rw [lastLoop_succ, hs]
    exact hF g (by omega) buf i
  | soft _ _ he _ _ => simp [strict] at he
  | @item s s' a L t _ hs _ ih =>
    obtain ⟨F, hF⟩ := ih
    refine ⟨F + 1, fun fuel hf buf i => ?_⟩
    obtain ⟨g, rfl⟩ : ∃ g, fuel = g + 1 := ⟨fuel - 1, by omega⟩
    rw [lastLoop_succ, hs]
    simp only [st_lastStore, stLastCounts, if_true]
    have e1 : ((i : Int) + 1) = ((i + 1 : Nat) : Int) := by omega
    rw [e1, hF g (by omega) _ (i + 1)]
    simp only [List.map_cons, Ring.run, List.length_cons]
    congr 3
    omega
  | fail _ hs _ =>
    refine ⟨1, fun fuel hf buf i => ?_⟩
    obtain ⟨g, rfl⟩ : ∃ g, fuel = g + 1 := ⟨fuel - 1, by omega⟩
    rw [lastLoop_succ, hs]
    rfl
  | done _ hs _ _ =>
    refine ⟨1, fun fuel hf buf i => ?_⟩
    obtain ⟨g, rfl⟩ : ∃ g, fuel = g + 1 := ⟨fuel - 1, by omega⟩
    rw [lastLoop_succ, hs]
    simp [Ring.run, outOf]

theorem run_length' (n : Nat) (buf : List (Option α)) (i : Nat) (l : List α) : (Ring.run n buf i l).length = buf.length := by
  induction l generalizing buf i with
  | nil => rfl
  | cons a l ih => rw [Ring.run, ih, Ring.store_length]

/-- **`stream.Last(ctx, s, n)`** (live context): the last `n` items, or the first failure itself. -/
theorem last_sden {m : SM σ α} {cost : σ → Nat} {s : σ} {L : List (α × Nat)} {t : Term} (n : Nat)
    (h : SDen strict m cost s L t) :
    ∃ F, ∀ fuel, F ≤ fuel →
      (last m (n : Int) true fuel s).1 = outOf t ((Seq.lastN n (L.map Prod.fst)).map some) := by
  have _tie := Skeleton.Tie.stLast
  obtain ⟨F, hF⟩ := lastLoop_sden n h
  refine ⟨F, fun fuel hf => ?_⟩
  have h1 := hF fuel hf (List.replicate n none) 0
  have hn : ¬ ((n : Int) < 0) := by omega
  simp only [last, hn, if_false, Int.toNat_natCast]
  have e0 : ((0 : Nat) : Int) = 0 := rfl
  rw [e0] at h1
  rcases hl : lastLoop m (n : Int) true fuel (List.replicate n none) 0 s with ⟨r, s'⟩
  rw [hl] at h1
  simp only at h1
  subst h1
  cases t with
  | fail e => simp [outOf]
  | end_ e =>
    simp only [outOf, Nat.zero_add]
    rw [st_lastFinish _ _ _ (by rw [run_length']; simp)]
    have := Ring.run_finish n (L.map Prod.fst)
    rw [List.length_map] at this
    rw [this]

end Juniper.Proofs.StreamDen
