import Juniper.Model.StreamMerge
/-! Helper lemmas for C12 (stream.Merge LTS), part 1: the generated facts and inversion of `step`. -/
set_option linter.unusedSectionVars false
set_option linter.unusedSimpArgs false
set_option linter.unusedVariables false
namespace Juniper.Proofs.StreamMerge
open Juniper.Model.StreamMerge
variable {V : Type}

/-! ### the generated facts, as the proofs need them (each closed by `decide` on the regenerated value) -/
theorem exitSeq_eq : exitSeq = [.markDone, .closeInput, .wgDone] := by decide
theorem winSeq_eq : winSeq = [.cancel, .closeErr] := by decide
theorem closeSeq_eq : closeSeq = [.closeInner, .cancel, .wait] := by decide
theorem nextUsesCtx_eq : nextUsesCtx = true := by decide
theorem sendUsesCtx_eq : sendUsesCtx = true := by decide
theorem sendArmCtx_eq : sendArmCtx = true := by decide
theorem sendArmStreamDone_eq : sendArmStreamDone = true := by decide
theorem sendArmSenderDone_eq : sendArmSenderDone = true := by decide
theorem sendArmC_eq : sendArmC = true := by decide
theorem nextArmCtx_eq : nextArmCtx = true := by decide
theorem nextArmC_eq : nextArmC = true := by decide
theorem nextArmSenderDone_eq : nextArmSenderDone = true := by decide
theorem consumerNextIsPipeNext_eq : consumerNextIsPipeNext = true := by decide
theorem senderCloseCloses_eq : senderCloseCloses = true := by decide
theorem casGuards_eq : casGuards = true := by decide
theorem wgInit_eq (k : Nat) : wgInit k = k := by
  have : (Juniper.Gen.Merge.smWgAdd == "len(in)") = true := by decide
  simp [wgInit, this]
theorem pipeBuf_eq : Juniper.Gen.Merge.smPipeBuf = 0 := by decide
theorem endReturns_eq : Juniper.Gen.Merge.smEndReturns = true := by decide
theorem errReturns_eq : Juniper.Gen.Merge.smErrReturns = true := by decide
theorem sendErrReturns_eq : Juniper.Gen.Merge.smSendErrReturns = true := by decide
theorem lastCloses_eq : Juniper.Gen.Merge.smLastCloses = true := by decide
theorem zeroCloses_eq : Juniper.Gen.Merge.smZeroCloses = true := by decide
theorem lastCond_eq (d k : Nat) (c : Bool) :
    Juniper.Gen.Merge.smLastCond d k (if c then 1 else 0) = (decide (d = k) && !c) := by
  unfold Juniper.Gen.Merge.smLastCond
  have e : ((d : Int) = (k : Int)) ↔ d = k := by omega
  cases c <;> simp [e]
theorem zeroCond_eq (k : Nat) : Juniper.Gen.Merge.smZeroCond k = decide (k = 0) := by
  unfold Juniper.Gen.Merge.smZeroCond
  have e : ((k : Int) = 0) ↔ k = 0 := by omega
  simp [e]
theorem spawn_eq (i k : Nat) : Juniper.Gen.Merge.smSpawnCond i k = decide (i < k) := by
  unfold Juniper.Gen.Merge.smSpawnCond
  have e : ((i : Int) < (k : Int)) ↔ i < k := by omega
  simp [e]

/-- Facts of `stream.Merge` that the model does not interpret (the conditions of the loop's branches,
the order of `*s.senderErr = err` and `close(s.senderDone)`, the spawn loop): a change makes this
obligation fail. -/
theorem loop_facts :
    Juniper.Gen.Merge.smEndCond = "err==End" ∧ Juniper.Gen.Merge.smErrCond = "err!=nil" ∧
    Juniper.Gen.Merge.smSendErrCond = "err!=nil" ∧
    Juniper.Gen.Merge.pipeSenderCloseStmts = ["*s.senderErr = err", "close(s.senderDone)"] ∧
    Juniper.Facts.sameArms Juniper.Gen.Merge.pipeSendArms
      [.recv "ctx.Done()", .recv "s.streamDone", .recv "s.senderDone", .send "s.c"] = true ∧
    Juniper.Facts.sameArms Juniper.Gen.Merge.pipeNextArms
      [.recv "ctx.Done()", .recv "s.c", .recv "s.senderDone"] = true ∧
    (∀ i k : Nat, Juniper.Gen.Merge.smSpawnCond i k = decide (i < k)) :=
  ⟨by decide, by decide, by decide, by decide, by decide, by decide, spawn_eq⟩

theorem senderClose_eq (s : St V) (e : Option Err) :
    senderClose s e = { s with senderCloses := s.senderCloses + 1, senderErr := e } := by
  simp [senderClose, senderCloseCloses_eq]

/-! ### inversion of `step`, with the facts substituted -/

theorem step_inItem {s s' : St V} {i : Nat} {v : V} (h : step s (.inItem i v) = some s') :
    ∃ g, s.gs[i]? = some g ∧ g.pc = .next ∧
      s' = { s with gs := s.gs.set i { g with pc := .send v, items := g.items ++ [v] } } := by
  simp only [step] at h
  split at h
  · rename_i g hg
    split at h
    · rename_i hp; simp at h; exact ⟨g, hg, hp, h.symm⟩
    · simp at h
  · simp at h

theorem step_inEnd {s s' : St V} {i : Nat} (h : step s (.inEnd i) = some s') :
    ∃ g, s.gs[i]? = some g ∧ g.pc = .next ∧
      s' = { s with gs := s.gs.set i { g with pc := .exiting [.markDone, .closeInput, .wgDone], why := some .ended } } := by
  simp only [step, endReturns_eq, leave, exitSeq_eq] at h
  split at h
  · rename_i g hg
    split at h
    · rename_i hp; simp at h; exact ⟨g, hg, hp, h.symm⟩
    · simp at h
  · simp at h

theorem step_inErr {s s' : St V} {i e : Nat} (h : step s (.inErr i e) = some s') :
    ∃ g, s.gs[i]? = some g ∧ g.pc = .next ∧
      s' = { s with gs := s.gs.set i { g with pc := .gotErr (.inj e) }, errLog := s.errLog ++ [(i, e)] } := by
  simp only [step, setPc] at h
  split at h
  · rename_i g hg
    split at h
    · rename_i hp; simp at h; exact ⟨g, hg, hp, h.symm⟩
    · simp at h
  · simp at h

theorem step_inCtx {s s' : St V} {i : Nat} (h : step s (.inCtx i) = some s') :
    ∃ g, s.gs[i]? = some g ∧ g.pc = .next ∧ s.cancelled = true ∧
      s' = { s with gs := s.gs.set i { g with pc := .gotErr .ctx } } := by
  simp only [step, setPc, nextUsesCtx_eq, Bool.and_true] at h
  split at h
  · rename_i g hg
    split at h
    · rename_i hp
      split at h
      · rename_i hc; simp at h; exact ⟨g, hg, hp, hc, h.symm⟩
      · simp at h
    · simp at h
  · simp at h

/-- `ctxEnds` needs an origin of the context other than `plainCancel` (no generated fact is used here:
the lemmas below take "the origin is `plainCancel`" as a hypothesis, which the property theorems of
`Props/C12*.lean` discharge from the regenerated facts inside their own proofs). -/
theorem step_ctxEnds {s s' : St V} (h : step s .ctxEnds = some s') :
    s.origin ≠ .plainCancel ∧ s.cancelled = false ∧ s' = { s with cancelled := true } := by
  simp only [step] at h
  split at h
  · rename_i hc; simp at hc; simp at h; exact ⟨hc.1, hc.2, h.symm⟩
  · simp at h

theorem no_ctxEnds {s s' : St V} (ho : s.origin = .plainCancel) (h : step s .ctxEnds = some s') : False :=
  (step_ctxEnds h).1 ho

theorem step_cas {s s' : St V} {i : Nat} (h : step s (.cas i) = some s') :
    ∃ g e, s.gs[i]? = some g ∧ g.pc = .gotErr e ∧
      ((s.closeOnce = false ∧
        s' = { s with gs := s.gs.set i { g with pc := .won e [.cancel, .closeErr] }, closeOnce := true,
                      winner := some (i, e) }) ∨
       (s.closeOnce = true ∧
        s' = { s with gs := s.gs.set i { g with pc := .exiting [.markDone, .closeInput, .wgDone], why := some .lostCas } })) := by
  simp only [step, setPc, leave, casGuards_eq, exitSeq_eq, winSeq_eq, Bool.true_and, if_true] at h
  split at h
  · rename_i g hg
    split at h
    · rename_i e hp
      refine ⟨g, e, hg, hp, ?_⟩
      cases hc : s.closeOnce
      · left; simp [hc] at h; exact ⟨rfl, h.symm⟩
      · right; simp [hc] at h; exact ⟨rfl, h.symm⟩
    · simp at h
  · simp at h

theorem step_win {s s' : St V} {i : Nat} (h : step s (.win i) = some s') :
    ∃ g e, s.gs[i]? = some g ∧
      ((∃ rest, g.pc = .won e (.cancel :: rest) ∧
          s' = { s with gs := s.gs.set i { g with pc := .won e rest }, cancelled := true }) ∨
       (∃ rest, g.pc = .won e (.closeErr :: rest) ∧
          s' = { s with gs := s.gs.set i { g with pc := .won e rest }, senderCloses := s.senderCloses + 1,
                        senderErr := some e }) ∨
       (g.pc = .won e [] ∧
          s' = { s with gs := s.gs.set i { g with pc := .exiting [.markDone, .closeInput, .wgDone], why := some .wonCas } })) := by
  simp only [step, setPc, leave, errReturns_eq, exitSeq_eq, senderClose_eq, if_true] at h
  split at h
  · rename_i g hg
    split at h
    · rename_i e rest hp; simp at h; exact ⟨g, e, hg, .inl ⟨rest, hp, h.symm⟩⟩
    · rename_i e rest hp; simp at h; exact ⟨g, e, hg, .inr (.inl ⟨rest, hp, h.symm⟩)⟩
    · rename_i e hp; simp at h; exact ⟨g, e, hg, .inr (.inr ⟨hp, h.symm⟩)⟩
    · simp at h
  · simp at h

theorem step_sendOk {s s' : St V} {i : Nat} (h : step s (.sendOk i) = some s') :
    ∃ g v live, s.gs[i]? = some g ∧ g.pc = .send v ∧ s.cpc = .inNext live ∧
      s' = { s with gs := s.gs.set i (again g), cpc := .idle, out := s.out ++ [(i, v)],
                    results := s.results ++ [.item i v] } := by
  simp only [step, sendArmC_eq, nextArmC_eq, consumerNextIsPipeNext_eq, pipeBuf_eq] at h
  split at h
  · rename_i g hg
    split at h
    · rename_i v live hp hc; simp at h; exact ⟨g, v, live, hg, hp, hc, h.symm⟩
    · simp at h
  · simp at h

theorem step_sendFail {s s' : St V} {i : Nat} (h : step s (.sendFail i) = some s') :
    ∃ g v, s.gs[i]? = some g ∧ g.pc = .send v ∧
      (s.cancelled = true ∨ s.streamDone = true ∨ 0 < s.senderCloses) ∧
      s' = { s with gs := s.gs.set i { g with pc := .exiting [.markDone, .closeInput, .wgDone],
                                              dropped := g.dropped ++ [v], why := some .sendFailed } } := by
  simp only [step, leave, sendUsesCtx_eq, sendArmCtx_eq, sendArmStreamDone_eq, sendArmSenderDone_eq,
    sendErrReturns_eq, exitSeq_eq, Bool.and_true] at h
  split at h
  · rename_i g hg
    split at h
    · rename_i v hp
      split at h
      · rename_i hc
        simp at hc
        simp at h
        refine ⟨g, v, hg, hp, ?_, h.symm⟩
        rcases hc with (hc | hc) | hc
        · exact .inl hc
        · exact .inr (.inl hc)
        · exact .inr (.inr hc)
      · simp at h
    · simp at h
  · simp at h

theorem step_exitStep {s s' : St V} {i : Nat} (h : step s (.exitStep i) = some s') :
    ∃ g, s.gs[i]? = some g ∧
      ((∃ rest, g.pc = .exiting (.markDone :: rest) ∧
          s' = { s with gs := s.gs.set i { g with pc := .exiting (.checkLast (s.nDone + 1) :: rest) },
                        nDone := s.nDone + 1 }) ∨
       (∃ d rest, g.pc = .exiting (.checkLast d :: rest) ∧ d = s.k ∧ s.closeOnce = false ∧
          s' = { s with gs := s.gs.set i { g with pc := .exiting rest }, senderCloses := s.senderCloses + 1,
                        senderErr := none }) ∨
       (∃ d rest, g.pc = .exiting (.checkLast d :: rest) ∧ ¬ (d = s.k ∧ s.closeOnce = false) ∧
          s' = { s with gs := s.gs.set i { g with pc := .exiting rest } }) ∨
       (∃ rest, g.pc = .exiting (.closeInput :: rest) ∧
          s' = { s with gs := s.gs.set i { g with pc := .exiting rest, closes := g.closes + 1 } }) ∨
       (∃ rest, g.pc = .exiting (.wgDone :: rest) ∧
          s' = { s with gs := s.gs.set i { g with pc := .exiting rest }, wg := s.wg - 1 }) ∨
       (g.pc = .exiting [] ∧ s' = { s with gs := s.gs.set i { g with pc := .finished } })) := by
  simp only [step, setPc, lastCond_eq, lastCloses_eq, senderClose_eq, Bool.and_true] at h
  split at h
  · rename_i g hg
    refine ⟨g, hg, ?_⟩
    split at h
    · rename_i rest hp; simp at h; exact .inl ⟨rest, hp, h.symm⟩
    · rename_i d rest hp
      split at h
      · rename_i hc
        simp at hc; simp at h
        exact .inr (.inl ⟨d, rest, hp, hc.1, hc.2, h.symm⟩)
      · rename_i hc
        simp at hc; simp at h
        refine .inr (.inr (.inl ⟨d, rest, hp, ?_, h.symm⟩))
        intro ⟨h1, h2⟩
        have := hc h1
        rw [h2] at this; cases this
    · rename_i rest hp; simp at h; exact .inr (.inr (.inr (.inl ⟨rest, hp, h.symm⟩)))
    · rename_i rest hp; simp at h; exact .inr (.inr (.inr (.inr (.inl ⟨rest, hp, h.symm⟩))))
    · rename_i hp; simp at h; exact .inr (.inr (.inr (.inr (.inr ⟨hp, h.symm⟩))))
    · simp at h
  · simp at h

theorem step_cCall {s s' : St V} {live : Bool} (h : step s (.cCall live) = some s') :
    s.cpc = .idle ∧ s' = { s with cpc := .inNext live } := by
  simp only [step] at h
  split at h
  · rename_i hp; simp at h; exact ⟨hp, h.symm⟩
  · simp at h

theorem step_cEnd {s s' : St V} (h : step s .cEnd = some s') :
    ∃ live, s.cpc = .inNext live ∧ 0 < s.senderCloses ∧
      s' = { s with cpc := .idle,
                    results := s.results ++ [match s.senderErr with | none => .endd | some e => .err e] } := by
  simp only [step, nextArmSenderDone_eq, consumerNextIsPipeNext_eq, Bool.and_true] at h
  split at h
  · rename_i live hp
    split at h
    · rename_i hc; simp at hc; simp at h; exact ⟨live, hp, hc, h.symm⟩
    · simp at h
  · simp at h

theorem step_cCtx {s s' : St V} (h : step s .cCtx = some s') :
    s.cpc = .inNext false ∧ s' = { s with cpc := .idle, results := s.results ++ [.ctx] } := by
  simp only [step, nextArmCtx_eq, if_true] at h
  split at h
  · rename_i hp; simp at h; exact ⟨hp, h.symm⟩
  · simp at h

theorem step_cExpire {s s' : St V} (h : step s .cExpire = some s') :
    s.cpc = .inNext true ∧ s' = { s with cpc := .inNext false } := by
  simp only [step] at h
  split at h
  · rename_i hp; simp at h; exact ⟨hp, h.symm⟩
  · simp at h

theorem step_cClose {s s' : St V} (h : step s .cClose = some s') :
    s.cpc = .idle ∧ s' = { s with cpc := .closing [.closeInner, .cancel, .wait] } := by
  simp only [step, closeSeq_eq] at h
  split at h
  · rename_i hp; simp at h; exact ⟨hp, h.symm⟩
  · simp at h

theorem step_cCloseStep {s s' : St V} (h : step s .cCloseStep = some s') :
    (∃ rest, s.cpc = .closing (.closeInner :: rest) ∧ s' = { s with cpc := .closing rest, streamDone := true }) ∨
    (∃ rest, s.cpc = .closing (.cancel :: rest) ∧ s' = { s with cpc := .closing rest, cancelled := true }) ∨
    (∃ rest, s.cpc = .closing (.wait :: rest) ∧ s.wg = 0 ∧ s' = { s with cpc := .closing rest }) := by
  simp only [step] at h
  split at h
  · rename_i rest hp; simp at h; exact .inl ⟨rest, hp, h.symm⟩
  · rename_i rest hp; simp at h; exact .inr (.inl ⟨rest, hp, h.symm⟩)
  · rename_i rest hp
    split at h
    · rename_i hw; simp at h; exact .inr (.inr ⟨rest, hp, hw, h.symm⟩)
    · simp at h
  · simp at h

end Juniper.Proofs.StreamMerge
