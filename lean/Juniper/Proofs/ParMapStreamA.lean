import Juniper.Proofs.ParMapCount
/-! Inductive invariants of the MapStream LTS (`Model/ParMap.lean`, namespace `Stream`), part 1: token
conservation, source-item counting, yield counting, and the counters of the shutdown protocol. -/
set_option linter.unusedSimpArgs false
set_option linter.unusedVariables false

namespace Juniper.Proofs.ParMap.S
open Juniper.Gen Juniper.Facts Juniper.Model.ParMap Juniper.Model.ParMap.Stream Juniper.Proofs.ParMap

syntax "stream_cases " ident " => " tacticSeq : tactic
macro_rules
  | `(tactic| stream_cases $h:ident => $t:tacticSeq) =>
    `(tactic| (
      (simp only [Stream.step] at $h:ident)
      (repeat' split at $h:ident)
      all_goals (try (simp at $h:ident; done))
      -- branches of the model that exist only for code violating a discipline tie (`Close` not cancelling /
      -- not waiting, a context that ends by itself): impossible under `Code.Sound`
      all_goals (try (exfalso; first
        | (refine absurd (Stream.Code.Sound.closeCancels (c := ?_) ?_) ?_ <;> (first | assumption | skip); done)
        | (refine absurd (Stream.Code.Sound.closeWaits (c := ?_) ?_) ?_ <;> (first | assumption | skip); done)
        | (refine absurd (Stream.Code.Sound.ctxPlain (c := ?_) ?_) ?_ <;> (first | assumption | skip); done)))
      all_goals (simp only [Option.some.injEq] at $h:ident; subst $h:ident)
      all_goals ($t)))

def isVal : NextRes → Bool
  | .val _ _ => true
  | _ => false
def dSendIn : DPc → Bool
  | .sendIn _ => true
  | _ => false
def dHolding : DPc → Bool
  | .waitReady _ => true
  | .sendIn _ => true
  | _ => false
def dFetching : DPc → Bool
  | .pull => true
  | .inNext => true
  | _ => false
def dExited : DPc → Bool
  | .exiting _ => true
  | .srcClosing _ => true
  | .egRet _ => true
  | .done => true
  | _ => false
def dClosedIn : DPc → Bool
  | .srcClosing _ => true
  | .egRet _ => true
  | .done => true
  | _ => false
def cReleasing : CPc → Bool
  | .releasing _ _ => true
  | _ => false

def b2n (b : Bool) : Nat := if b then 1 else 0

/-- tokens, source items and yield counting -/
structure InvA (cfg : Cfg) (s : St) : Prop where
  len : s.ws.length = numWorkers cfg
  T : s.ready + b2n (dSendIn s.disp) + s.dispI + s.lost = numTokens cfg + cnt isVal s.results
  S : s.srcItems.length = s.dispI + b2n (dHolding s.disp) ∨ (dExited s.disp = true ∧ s.srcItems.length ≤ s.dispI + 1)
  Y : s.i = cnt isVal s.results + b2n (cReleasing s.cons)
  L : s.lost ≤ b2n (dExited s.disp)
  IC : s.inClosed = true → dClosedIn s.disp = true

theorem invA_init (cfg : Cfg) : InvA cfg (Stream.init cfg) := by
  refine ⟨?_, ?_, ?_, ?_, ?_, ?_⟩ <;> simp [Stream.init, b2n, dSendIn, dHolding, cReleasing, dExited]

theorem invA_step {cfg : Cfg} (hs : cfg.code.Sound) {s s' : St} {l : Label} (hi : InvA cfg s)
    (h : Stream.step cfg s l = some s') : InvA cfg s' := by
  have ⟨ilen, iT, iS, iY, iL, iIC⟩ := hi
  cases l
  all_goals
    stream_cases h =>
      (refine ⟨?_, ?_, ?_, ?_, ?_, ?_⟩ <;>
        simp [egRecord, b2n, dSendIn, dHolding, dExited, dClosedIn, cReleasing, isVal, hs.releases, hs.closesIn, hs.closesSource, *] at * <;> grind)


def wPastDefer : WPc → Bool
  | .egRet _ => true
  | .done => true
  | _ => false
def wDone : WPc → Bool
  | .done => true
  | _ => false
def wNotDone : WPc → Bool
  | .done => false
  | _ => true
def wExited : WPc → Bool
  | .exiting _ => true
  | .egRet _ => true
  | .done => true
  | _ => false
def wExitNone : WPc → Bool
  | .exiting none => true
  | .egRet none => true
  | _ => false
def dNotDone : DPc → Bool
  | .done => false
  | _ => true
def cClosing : CPc → Bool
  | .closeWait => true
  | .closed => true
  | _ => false

theorem par_eq {cfg : Cfg} (hs : cfg.code.Sound) : par cfg = if cfg.P ≤ 0 then (cfg.gmp : Int) else cfg.P := by
  simp [par, hs.clampLow]

theorem buf_eq {cfg : Cfg} (hs : cfg.code.Sound) : buf cfg = max cfg.B (par cfg) := by
  simp only [buf, hs.bufClamp]; split <;> simp_all <;> omega

theorem numWorkers_eq {cfg : Cfg} (hs : cfg.code.Sound) : numWorkers cfg = (par cfg).toNat := by
  unfold numWorkers
  rw [loopCount_lt _ (par cfg) (fun j => hs.spawnLoop j _) _ 0 (by omega) (by omega)]; simp

theorem numTokens_eq {cfg : Cfg} (hs : cfg.code.Sound) : numTokens cfg = (buf cfg).toNat := by
  unfold numTokens
  rw [loopCount_lt _ (buf cfg) (fun j => hs.tokenLoop j _) _ 0 (by omega) (by omega)]; simp

theorem par_pos {cfg : Cfg} (hs : cfg.code.Sound) (hg : 1 ≤ cfg.gmp) : 1 ≤ par cfg := by
  rw [par_eq hs]; split <;> omega

theorem numWorkers_cast {cfg : Cfg} (hs : cfg.code.Sound) (hg : 1 ≤ cfg.gmp) :
    (numWorkers cfg : Int) = par cfg ∧ 1 ≤ numWorkers cfg := by
  have := par_pos hs hg
  rw [numWorkers_eq hs]; omega

theorem cnt_le_length_of {α} (p : α → Bool) {l : List α} {w : Nat} {b : α} (_h : l[w]? = some b) :
    cnt p l ≤ l.length := cnt_le_length p l

/-- counters of the shutdown protocol -/
structure InvB (cfg : Cfg) (s : St) : Prop where
  ND : s.nDone = cnt wPastDefer s.ws
  CC : s.cClosed = true ↔ s.nDone = numWorkers cfg
  EL : s.egLive = b2n (dNotDone s.disp) + cnt wNotDone s.ws
  CL : (s.closeCalled = true ↔ cClosing s.cons = true) ∧ (s.closeCalled = true → s.ctxCause ≠ none)
  CA : (s.ctxCause = some .lib → s.egErr ≠ none) ∧ (s.ctxCause = some .parent → s.parentCancelled = true) ∧
       (s.ctxCause = some .close → s.closeCalled = true)

theorem invB_init (cfg : Cfg) (hs : cfg.code.Sound) (hg : 1 ≤ cfg.gmp) : InvB cfg (Stream.init cfg) := by
  have := numWorkers_cast hs hg
  refine ⟨?_, ?_, ?_, ?_, ?_⟩ <;> simp [Stream.init, b2n, wPastDefer, wNotDone, dNotDone, cClosing] <;> omega

syntax "invB_worker " ident ident ident ident : tactic
macro_rules
  | `(tactic| invB_worker $hi:ident $ha:ident $hs:ident $hn:ident) =>
    `(tactic| (
         have hw := ‹_[_]? = some _›
         have g1 := cnt_ge wPastDefer hw
         have g2 := cnt_ge wNotDone hw
         have g3 := fun hb => cnt_add_one_le (p := wPastDefer) hw hb
         have l1 := cnt_le_length_of wPastDefer hw
         have hn' := $hn
         have ⟨iND, iCC, iEL, iCL, iCA⟩ := $hi
         have hlen := ($ha).len
         refine ⟨?_, ?_, ?_, ?_, ?_⟩ <;>
           simp [Option.isSome_iff_ne_none, egRecord, cnt_set hw, b2n, wPastDefer, wNotDone, dNotDone, cClosing, ($hs).lastWorker, ($hs).lastCloses] at * <;> grind))

theorem invB_step {cfg : Cfg} (hs : cfg.code.Sound) (hg : 1 ≤ cfg.gmp) {s s' : St} {l : Label} (ha : InvA cfg s) (hi : InvB cfg s)
    (h : Stream.step cfg s l = some s') : InvB cfg s' := by
  have hn := numWorkers_cast hs hg
  cases l with
  | dSend w => stream_cases h => invB_worker hi ha hs hn
  | fRet w r => stream_cases h => invB_worker hi ha hs hn
  | wSendC w => stream_cases h => invB_worker hi ha hs hn
  | wSendCtx w => stream_cases h => invB_worker hi ha hs hn
  | wExitIdle w => stream_cases h => invB_worker hi ha hs hn
  | wDefer w => stream_cases h => invB_worker hi ha hs hn
  | wEgDone w => stream_cases h => invB_worker hi ha hs hn
  | _ =>
    stream_cases h =>
      (have ⟨iND, iCC, iEL, iCL, iCA⟩ := hi
       refine ⟨?_, ?_, ?_, ?_, ?_⟩ <;>
         simp [Option.isSome_iff_ne_none, egRecord, b2n, dNotDone, cClosing] at * <;> grind)

theorem invA {cfg : Cfg} (hs : cfg.code.Sound) {s : St} (h : Reach cfg s) : InvA cfg s := by
  induction h with
  | init => exact invA_init cfg
  | step _ hstep ih => exact invA_step hs ih hstep

theorem invB {cfg : Cfg} (hs : cfg.code.Sound) (hg : 1 ≤ cfg.gmp) {s : St} (h : Reach cfg s) : InvB cfg s := by
  induction h with
  | init => exact invB_init cfg hs hg
  | step hr hstep ih => exact invB_step hs hg (invA hs hr) ih hstep

end Juniper.Proofs.ParMap.S
