import Juniper.Proofs.BatchEnd
import Juniper.Proofs.BatchWaiter
import Juniper.Proofs.BatchBg
/-!
C11 helper lemmas for "…and then handed to a waiting consumer rather than held back" as stability +
rank (audit C11 F1).

`Overdue`: a consumer has announced itself (it is in the inner `select` of `Next`), the batch is
non-empty and `maxWait` has passed since `batchStart` on the batcher's own clock. Then
* (stability) every step of anybody leads to an `Overdue` state again, or the consumer has been
  *served* — its `Next` has returned this very batch, logged as a hand-over to a waiter — or has left
  on its own expired context;
* (rank) every step of a goroutine or of the runtime other than the hand-off `prodSend` serves the
  consumer or strictly decreases `waitRank` (≤ 9); one such step is always enabled; `prodSend` — the
  batcher's `select` taking its `<-c` arm although the timer arm / the waiter is due — raises it by at
  most 3 and needs a fresh item from the source. That the `select` does not prefer `<-c` for ever while
  the producer keeps offering items is Go's (randomised) select fairness: assumed, not proved.
-/
namespace Juniper.Proofs.Batch
open Juniper.Model.Batch

/-- A consumer is waiting in the inner `select`, the batch is non-empty and `maxWait` has elapsed
since `batchStart`; the batcher is not inside the `full` call for the batch's *first* item (there
`batchStart` is still the previous batch's; the code sets it right after that call). -/
def Overdue (cfg : Cfg) (s : State) : Prop :=
  s.cons = .inner ∧ s.batch ≠ [] ∧ s.batchStart + cfg.maxWait ≤ s.now ∧ (s.bpc = .inFull → 2 ≤ s.batch.length)

instance (cfg : Cfg) (s : State) : Decidable (Overdue cfg s) := by unfold Overdue; infer_instance

/-- The waiting consumer's `Next` has returned: with the batch `s.batch` (logged as a hand-over to an
announced waiter), or with its own context's error. -/
def Served (s s' : State) : Prop :=
  s'.cons = .idle ∧
  ((s'.results = s.results ++ [.batch s.batch] ∧
      ∃ d, s'.delivered = s.delivered ++ [d] ∧ d.items = s.batch ∧ d.toWaiter = true) ∨
    s'.results = s.results ++ [.ctxErr])

def rankTW : Timer → Nat
  | .fired => 0
  | .armed _ => 1
  | .idle => 2

/-- Steps the batcher / the timer still need before the hand-over is the enabled step. -/
def rankW (s : State) : Nat :=
  match s.bpc with
  | .flush _ => (match s.timer with | .armed _ => 1 | _ => 0)
  | .sel => 2 + rankTW s.timer
  | .inFull => 5 + rankTW s.timer
  | _ => 0

/-- The producer's deferred calls once the source has ended (they run while the consumer waits). -/
def rankPW : PPc → Nat
  | .closeC => 2
  | .closeSrc => 1
  | _ => 0

def waitRank (s : State) : Nat := rankW s + rankPW s.ppc

/-- What a step that is not an internal non-`prodSend` step may add to `waitRank`. -/
def waitCost : Label → Nat
  | .prodSend => 3
  | .srcRet .eof => 2
  | .srcRet .err => 2
  | .srcCancelErr _ => 2
  | _ => 0

theorem waitRank_le (s : State) : waitRank s ≤ 9 := by
  cases hb : s.bpc <;> cases ht : s.timer <;> cases hp : s.ppc <;> simp [waitRank, rankW, rankPW, rankTW, hb, ht, hp]

macro "close_w" : tactic => `(tactic| (
  first
  | (simp_all [Overdue, Served, waitRank, rankW, rankPW, rankTW, waitCost]; done)
  | (simp_all [Overdue, Served, waitRank, rankW, rankPW, rankTW, waitCost] <;> (try split) <;> (try omega) <;> grind)
  | grind [Overdue, Served, waitRank, rankW, rankPW, rankTW, waitCost]))

/-- facts about an `Overdue` state that the per-label proofs use -/
theorem overdue_facts {cfg : Cfg} {s : State} (h1 : Inv1 cfg s) (h3 : Inv3 cfg s) (hO : Overdue cfg s) :
    s.bgCancelled = false ∧ s.bpc ≠ .exit ∧ s.bpc ≠ .done ∧ s.batchCClosed = false ∧ 0 < s.batch.length := by
  obtain ⟨hc, hne, _, _⟩ := hO
  have hbg : s.bgCancelled = false := by
    cases hb : s.bgCancelled with
    | false => rfl
    | true => have := h1.c1 hb; rw [this] at hc; cases hc
  have hlen : 0 < s.batch.length := List.length_pos_iff.2 hne
  have hex : s.bpc ≠ .exit := fun hb => hne (h3.e4 (Or.inl hb) hbg).1
  have hdn : s.bpc ≠ .done := fun hb => hne (h3.e4 (Or.inr hb) hbg).1
  refine ⟨hbg, hex, hdn, ?_, hlen⟩
  cases hcc : s.batchCClosed with
  | false => rfl
  | true => exact absurd (h3.e1 hcc) hdn

theorem waiter_stable {cfg : Cfg} {s s' : State} {l : Label} (h1 : Inv1 cfg s) (h3 : Inv3 cfg s)
    (hO : Overdue cfg s) (h : step good cfg s l = some s') : Overdue cfg s' ∨ Served s s' := by
  obtain ⟨hbg, hex, hdn, hcc, hlen⟩ := overdue_facts h1 h3 hO
  obtain ⟨hc, hne, hel, hfl⟩ := hO
  cases l <;> unfold_step at h <;> (repeat' split at h) <;> cases h <;>
    first
    | (left; refine ⟨?_, ?_, ?_, ?_⟩ <;> (try dsimp only) <;> first | assumption | (simp_all; done) | grind)
    | (right; simp_all [Served]; done)
    | (simp_all; done)
    | grind [Served]


theorem waiter_rank {cfg : Cfg} {s s' : State} {l : Label} (h1 : Inv1 cfg s) (h3 : Inv3 cfg s)
    (hO : Overdue cfg s) (hl : l.internal = true) (hps : l ≠ .prodSend)
    (h : step good cfg s l = some s') : Served s s' ∨ waitRank s' < waitRank s := by
  obtain ⟨hbg, hex, hdn, hcc, hlen⟩ := overdue_facts h1 h3 hO
  obtain ⟨hc, hne, hel, hfl⟩ := hO
  obtain ⟨c1, t1a, t_set, t_ne, t_len, t_armed, t_fired, n1, n2, u0, u3, u1⟩ := h1
  cases l with
  | srcRet ev => cases hl
  | srcCancelErr w => cases hl
  | nextCall live => cases hl
  | ctxExpire => cases hl
  | tick d => cases hl
  | close => cases hl
  | bgEnds => cases hl
  | prodSend => exact absurd rfl hps
  | prodCancelled => unfold_step at h <;> (repeat' split at h) <;> cases h <;> close_w
  | prodSendCancel => unfold_step at h <;> (repeat' split at h) <;> cases h <;> close_w
  | prodCloseC => unfold_step at h <;> (repeat' split at h) <;> cases h <;> close_w
  | prodCloseSrc => unfold_step at h <;> (repeat' split at h) <;> cases h <;> close_w
  | fullRet b => unfold_step at h <;> (repeat' split at h) <;> cases h <;> close_w
  | recvCClosed => unfold_step at h <;> (repeat' split at h) <;> cases h <;> close_w
  | recvTimer => unfold_step at h <;> (repeat' split at h) <;> cases h <;> close_w
  | flushAbort => unfold_step at h <;> (repeat' split at h) <;> cases h <;> close_w
  | batchExit => unfold_step at h <;> (repeat' split at h) <;> cases h <;> close_w
  | announce => unfold_step at h <;> (repeat' split at h) <;> cases h <;> close_w
  | deliver => unfold_step at h <;> (repeat' split at h) <;> cases h <;> close_w
  | consClosed => unfold_step at h <;> (repeat' split at h) <;> cases h <;> close_w
  | consCtx => unfold_step at h <;> (repeat' split at h) <;> cases h <;> close_w
  | timerExpire =>
    unfold_step at h
    split at h
    · rename_i t ht
      split at h
      · cases h
        right
        cases hb : s.bpc <;> simp_all [waitRank, rankW, rankTW]
      · cases h
    · cases h
  | closeReturn => unfold_step at h <;> (repeat' split at h) <;> cases h <;> close_w


/-- No step whatsoever raises the rank by more than its `waitCost`: 3 for the hand-off `prodSend`, 2
for the source's end / failure (environment; the producer's two deferred calls then run while the
consumer waits), 0 for everything else. -/
theorem waiter_cost {cfg : Cfg} {s s' : State} {l : Label} (h1 : Inv1 cfg s) (h3 : Inv3 cfg s)
    (hO : Overdue cfg s) (h : step good cfg s l = some s') :
    Served s s' ∨ waitRank s' ≤ waitRank s + waitCost l := by
  obtain ⟨hbg, hex, hdn, hcc, hlen⟩ := overdue_facts h1 h3 hO
  obtain ⟨hc, hne, hel, hfl⟩ := hO
  obtain ⟨c1, t1a, t_set, t_ne, t_len, t_armed, t_fired, n1, n2, u0, u3, u1⟩ := h1
  cases l with
  | srcRet ev => cases ev <;> unfold_step at h <;> (repeat' split at h) <;> cases h <;> close_w
  | srcCancelErr w => unfold_step at h <;> (repeat' split at h) <;> cases h <;> close_w
  | nextCall live => unfold_step at h <;> (repeat' split at h) <;> cases h <;> close_w
  | ctxExpire => unfold_step at h <;> (repeat' split at h) <;> cases h <;> close_w
  | tick d => unfold_step at h <;> (repeat' split at h) <;> cases h <;> close_w
  | close => unfold_step at h <;> (repeat' split at h) <;> cases h <;> close_w
  | bgEnds => unfold_step at h <;> (repeat' split at h) <;> cases h
  | prodSend => unfold_step at h <;> (repeat' split at h) <;> cases h <;> close_w
  | prodCancelled => unfold_step at h <;> (repeat' split at h) <;> cases h <;> close_w
  | prodSendCancel => unfold_step at h <;> (repeat' split at h) <;> cases h <;> close_w
  | prodCloseC => unfold_step at h <;> (repeat' split at h) <;> cases h <;> close_w
  | prodCloseSrc => unfold_step at h <;> (repeat' split at h) <;> cases h <;> close_w
  | fullRet b => unfold_step at h <;> (repeat' split at h) <;> cases h <;> close_w
  | recvCClosed => unfold_step at h <;> (repeat' split at h) <;> cases h <;> close_w
  | recvTimer => unfold_step at h <;> (repeat' split at h) <;> cases h <;> close_w
  | flushAbort => unfold_step at h <;> (repeat' split at h) <;> cases h <;> close_w
  | batchExit => unfold_step at h <;> (repeat' split at h) <;> cases h <;> close_w
  | announce => unfold_step at h <;> (repeat' split at h) <;> cases h <;> close_w
  | deliver => unfold_step at h <;> (repeat' split at h) <;> cases h <;> close_w
  | consClosed => unfold_step at h <;> (repeat' split at h) <;> cases h <;> close_w
  | consCtx => unfold_step at h <;> (repeat' split at h) <;> cases h <;> close_w
  | timerExpire =>
    unfold_step at h
    split at h
    · rename_i t ht
      split at h
      · cases h
        right
        cases hb : s.bpc <;> simp_all [waitRank, rankW, rankTW, waitCost]
      · cases h
    · cases h
  | closeReturn => unfold_step at h <;> (repeat' split at h) <;> cases h <;> close_w

/-- In an `Overdue` state a step other than `prodSend` of a goroutine / the runtime is enabled: the
hand-over itself (from `flush`), the timer arm, the timer's expiry (its deadline has passed), or the
return of the user's `full`. -/
theorem waiter_enabled {cfg : Cfg} {s : State} (h1 : Inv1 cfg s) (h3 : Inv3 cfg s) (h4 : Inv4 cfg s)
    (hfull : ∃ b, cfg.fullOK s.batch b = true) (hO : Overdue cfg s) :
    ∃ l, l.internal = true ∧ l ≠ .prodSend ∧ (step good cfg s l).isSome = true := by
  obtain ⟨hbg, hex, hdn, hcc, hlen⟩ := overdue_facts h1 h3 hO
  obtain ⟨hc, hne, hel, hfl⟩ := hO
  cases hb : s.bpc with
  | exit => exact absurd hb hex
  | done => exact absurd hb hdn
  | flush r =>
    refine ⟨.deliver, rfl, by simp, ?_⟩
    cases r <;> simp [step, hb, hc, good, afterFull]
  | inFull =>
    obtain ⟨b, hb'⟩ := hfull
    refine ⟨.fullRet b, rfl, by simp, ?_⟩
    cases b <;> simp [step, hb, hb']
  | sel =>
    have ht := h4.j1 hc hb hlen
    have hset := h1.t_set (Or.inl hb) ht
    cases htm : s.timer with
    | idle => exact absurd htm ht
    | fired => exact ⟨.recvTimer, rfl, by simp, by simp [step, hb, htm, hset, good]⟩
    | armed t =>
      have := h1.t_armed (Or.inl hb) t htm
      have hle : t ≤ s.now := by omega
      exact ⟨.timerExpire, rfl, by simp, by simp [step, htm, hle]⟩


/-- Once the batcher is gone (`exit`: its deferred cleanup is the enabled step; `done`: `batchC` is
closed) a pending `Next` — in the outer or the inner `select` — gets the closed-channel arm: its step is
enabled and makes the call return `End`, or the source's error if there was one. -/
theorem waiter_sees_end {cfg : Cfg} {s : State} (h0 : Inv0 s) (hc : s.cons ≠ .idle) :
    (s.bpc = .exit → (step good cfg s .batchExit).isSome = true) ∧
    (s.bpc = .done → ∃ s', step good cfg s .consClosed = some s' ∧ s'.cons = .idle ∧
      (s'.results = s.results ++ [.endOK] ∨ s'.results = s.results ++ [.srcErr])) := by
  refine ⟨fun hb => by simp [step, hb], fun hb => ?_⟩
  have hcc := h0.x4 hb
  cases he : s.err <;> simp [step, hc, hcc, good, he, Code.bgMayEnd]

end Juniper.Proofs.Batch
