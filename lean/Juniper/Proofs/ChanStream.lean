import Juniper.Model.ChanStream
/-! Invariant of the `stream.Chan` LTS: what was delivered plus what is buffered is exactly what the
channel accepted, in order; the end is reported only for a closed, empty channel. -/
namespace Juniper.Proofs.ChanStream
open Juniper.Facts Juniper.Gen.Pipe Juniper.Model.ChanStream

structure Inv (st : State) : Prop where
  capOK : st.buf.length ≤ st.cap
  fifo : st.delivered ++ st.buf = st.puts
  fin : st.endReported = true → st.closed = true ∧ st.buf = []

/-- What a step does, label by label. -/
theorem step_cases {st st' : State} {l : Label} (h : step st l = some st') :
    (∃ v, l = .put v ∧ st.closed = false ∧ st.buf.length < st.cap ∧
        st' = { st with buf := st.buf ++ [v], puts := st.puts ++ [v] }) ∨
    (∃ v, l = .put v ∧ st.closed = false ∧ ¬ st.buf.length < st.cap ∧ st.cap = 0 ∧ st.parked = true ∧
        st' = { st with parked := false, puts := st.puts ++ [v], delivered := st.delivered ++ [v] }) ∨
    (l = .close ∧ st.closed = false ∧ st' = { st with closed := true }) ∨
    (∃ c, l = .startNext c ∧ st.parked = false ∧ st' = { st with parked := true, rctx := c }) ∨
    (l = .cancelNext ∧ st.parked = true ∧ st' = { st with rctx := true }) ∨
    (∃ v rest, l = .arm (.recv chData) ∧ st.parked = true ∧ st.buf = v :: rest ∧
        st' = { st with buf := rest, delivered := st.delivered ++ [v], parked := false }) ∨
    (l = .arm (.recv chData) ∧ st.parked = true ∧ st.buf = [] ∧ st.closed = true ∧
        st' = { st with parked := false, endReported := true }) ∨
    (l = .arm (.recv chCtx) ∧ st.parked = true ∧ st.rctx = true ∧ st' = { st with parked := false }) := by
  cases l with
  | put v =>
    simp only [step] at h
    split at h
    · simp at h
    · rename_i hc
      split at h
      · rename_i hlt
        simp at h
        exact Or.inl ⟨v, rfl, by simpa using hc, hlt, h.symm⟩
      · rename_i hlt
        split at h
        · rename_i hh
          simp at h
          have hp : st.parked = true := by
            have := hh.2; simp [accepts] at this; exact this.1
          exact Or.inr (Or.inl ⟨v, rfl, by simpa using hc, hlt, hh.1, hp, h.symm⟩)
        · simp at h
  | close =>
    simp only [step] at h
    split at h
    · simp at h
    · rename_i hc
      simp at h
      exact Or.inr (Or.inr (Or.inl ⟨rfl, by simpa using hc, h.symm⟩))
  | startNext c =>
    simp only [step] at h
    split at h
    · simp at h
    · rename_i hp
      simp at h
      exact Or.inr (Or.inr (Or.inr (Or.inl ⟨c, rfl, by simpa using hp, h.symm⟩)))
  | cancelNext =>
    simp only [step] at h
    split at h
    · rename_i hp
      simp at h
      exact Or.inr (Or.inr (Or.inr (Or.inr (Or.inl ⟨rfl, hp, h.symm⟩))))
    · simp at h
  | arm a =>
    simp only [step] at h
    split at h
    · rename_i hpa
      split at h
      · rename_i ch
        split at h
        · rename_i hch
          have : ch = chData := by simpa using hch
          subst this
          split at h
          · rename_i v rest hb
            simp at h
            exact Or.inr (Or.inr (Or.inr (Or.inr (Or.inr (Or.inl ⟨v, rest, rfl, hpa.1, hb, h.symm⟩)))))
          · rename_i hb
            split at h
            · rename_i hcl
              simp at h
              exact Or.inr (Or.inr (Or.inr (Or.inr (Or.inr (Or.inr (Or.inl ⟨rfl, hpa.1, hb, hcl, h.symm⟩))))))
            · simp at h
        · split at h
          · rename_i hch
            have : ch = chCtx := by simpa using hch
            subst this
            split at h
            · rename_i hr
              simp at h
              exact Or.inr (Or.inr (Or.inr (Or.inr (Or.inr (Or.inr (Or.inr ⟨rfl, hpa.1, hr, h.symm⟩))))))
            · simp at h
          · simp at h
      · simp at h
    · simp at h

theorem inv_step {st st' : State} {l : Label} (h : Inv st) (hs : step st l = some st') : Inv st' := by
  rcases step_cases hs with ⟨v, _, hcl, _, rfl⟩ | ⟨v, _, hcl, hlt, hcap, _, rfl⟩ | ⟨_, _, rfl⟩ | ⟨c, _, _, rfl⟩ |
      ⟨_, _, rfl⟩ | ⟨v, rest, _, _, hb, rfl⟩ | ⟨_, _, hb, hcl, rfl⟩ | ⟨_, _, _, rfl⟩
  · refine ⟨by simp; omega, by simp [← h.fifo], fun he => ?_⟩
    have := (h.fin he).1
    rw [hcl] at this; cases this
  · have hb : st.buf = [] := List.eq_nil_of_length_eq_zero (by have := h.capOK; omega)
    refine ⟨h.capOK, ?_, fun he => ?_⟩
    · have := h.fifo; rw [hb] at this ⊢; simp at this ⊢; exact this
    · have := (h.fin he).1
      rw [hcl] at this; cases this
  · exact ⟨h.capOK, h.fifo, fun he => ⟨rfl, (h.fin he).2⟩⟩
  · exact ⟨h.capOK, h.fifo, h.fin⟩
  · exact ⟨h.capOK, h.fifo, h.fin⟩
  · refine ⟨?_, ?_, fun he => ?_⟩
    · have := h.capOK; rw [hb] at this; simp at this ⊢; omega
    · have := h.fifo; rw [hb] at this; simpa using this
    · have := (h.fin he).2
      rw [hb] at this; cases this
  · exact ⟨h.capOK, h.fifo, fun _ => ⟨hcl, hb⟩⟩
  · exact ⟨h.capOK, h.fifo, h.fin⟩

theorem inv_reach {c : Nat} {st : State} (hr : Reach (init c) st) : Inv st := by
  induction hr with
  | refl => exact ⟨by simp [init], by simp [init], by simp [init]⟩
  | step _ hs ih => exact inv_step ih hs

theorem reach_of_run {s0 st : State} {ls : List Label} (h : run s0 ls = some st) : Reach s0 st := by
  have key : ∀ (ls : List Label) (s : State), Reach s0 s → run s ls = some st → Reach s0 st := by
    intro ls
    induction ls with
    | nil => intro s hr h; simp [run] at h; subst h; exact hr
    | cons l ls ih =>
      intro s hr h
      simp only [run] at h
      split at h
      · simp at h
      · rename_i s1 hs1
        exact ih s1 (Reach.step hr hs1) h
  exact key ls s0 .refl h

end Juniper.Proofs.ChanStream
