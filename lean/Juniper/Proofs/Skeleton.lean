import Juniper.Generated.Comb
import Juniper.Model.CombSkel
import Juniper.Proofs.ValueFacts
/-!
# Tie lemmas: the regenerated control skeleton of every combinator method is the one its hand-written
machine was written for (C07–C09, tie 1)

`Tie.<combinator>`: conjunction of `Gen.Comb.sk… = Model.CombSkel.…` over the methods of that combinator
(`Next`, `Close`, `Peek`, and for `Runs` also the inner stream and the shared peekable). Proved by
`decide`; a change of the Go method's control structure makes the lemma — and every theorem of
`Props/C07–C09` that is stated `under` it — fail.
-/
namespace Juniper.Proofs.Skeleton
open Juniper.Gen.Comb Juniper.Model

/-- a result about a hand-written machine, used under the tie of that machine to the code -/
theorem under {T P : Prop} (_tie : T) (p : P) : P := p

theorem Tie.itCounter :
    skItCounterNext = CombSkel.itCounterNext := by decide

theorem Tie.itRepeat :
    skItRepeatNext = CombSkel.itRepeatNext := by decide

theorem Tie.itSlice :
    skItSliceNext = CombSkel.itSliceNext := by decide

theorem Tie.itPeek :
    skItPeekNext = CombSkel.itPeekNext ∧
    skItPeekPeek = CombSkel.itPeekPeek := by decide

theorem Tie.itChunk :
    skItChunkNext = CombSkel.itChunkNext := by decide

theorem Tie.itCompact :
    skItCompactNext = CombSkel.itCompactNext := by decide

theorem Tie.itFilter :
    skItFilterNext = CombSkel.itFilterNext := by decide

theorem Tie.itFirst :
    skItFirstNext = CombSkel.itFirstNext := by decide

theorem Tie.itFlatten :
    skItFlattenNext = CombSkel.itFlattenNext := by decide

theorem Tie.itJoin :
    skItJoinNext = CombSkel.itJoinNext := by decide

theorem Tie.itMap :
    skItMapNext = CombSkel.itMapNext := by decide

theorem Tie.itRuns :
    skItRunsNext = CombSkel.itRunsNext ∧
    skItRunsInnerNext = CombSkel.itRunsInnerNext ∧
    skItPeekNext = CombSkel.itPeekNext ∧
    skItPeekPeek = CombSkel.itPeekPeek := by decide

theorem Tie.itWhile :
    skItWhileNext = CombSkel.itWhileNext := by decide

theorem Tie.itCollect :
    skItCollect = CombSkel.itCollect ∧
    skItReduce = CombSkel.itReduce := by decide

theorem Tie.itEqual :
    skItEqual = CombSkel.itEqual := by decide

theorem Tie.itLast :
    skItLast = CombSkel.itLast := by decide

theorem Tie.itOne :
    skItOne = CombSkel.itOne := by decide

theorem Tie.itReduce :
    skItReduce = CombSkel.itReduce := by decide

theorem Tie.stFromIter :
    skStFromIterNext = CombSkel.stFromIterNext ∧
    skStFromIterClose = CombSkel.stFromIterClose := by decide

theorem Tie.stPeek :
    skStPeekNext = CombSkel.stPeekNext ∧
    skStPeekPeek = CombSkel.stPeekPeek ∧
    skStPeekClose = CombSkel.stPeekClose := by decide

theorem Tie.stChunk :
    skStChunkNext = CombSkel.stChunkNext ∧
    skStChunkClose = CombSkel.stChunkClose := by decide

theorem Tie.stCompact :
    skStCompactNext = CombSkel.stCompactNext ∧
    skStCompactClose = CombSkel.stCompactClose := by decide

theorem Tie.stFilter :
    skStFilterNext = CombSkel.stFilterNext ∧
    skStFilterClose = CombSkel.stFilterClose := by decide

theorem Tie.stFirst :
    skStFirstNext = CombSkel.stFirstNext ∧
    skStFirstClose = CombSkel.stFirstClose := by decide

theorem Tie.stFlatten :
    skStFlattenNext = CombSkel.stFlattenNext ∧
    skStFlattenClose = CombSkel.stFlattenClose := by decide

theorem Tie.stFlattenSlices :
    skStFlattenSlicesNext = CombSkel.stFlattenSlicesNext ∧
    skStFlattenSlicesClose = CombSkel.stFlattenSlicesClose := by decide

theorem Tie.stJoin :
    skStJoinNext = CombSkel.stJoinNext ∧
    skStJoinClose = CombSkel.stJoinClose := by decide

theorem Tie.stMap :
    skStMapNext = CombSkel.stMapNext ∧
    skStMapClose = CombSkel.stMapClose := by decide

theorem Tie.stRuns :
    skStRunsNext = CombSkel.stRunsNext ∧
    skStRunsClose = CombSkel.stRunsClose ∧
    skStRunsInnerNext = CombSkel.stRunsInnerNext ∧
    skStRunsInnerClose = CombSkel.stRunsInnerClose ∧
    skStPeekNext = CombSkel.stPeekNext ∧
    skStPeekPeek = CombSkel.stPeekPeek ∧
    skStPeekClose = CombSkel.stPeekClose := by decide

theorem Tie.stWhile :
    skStWhileNext = CombSkel.stWhileNext ∧
    skStWhileClose = CombSkel.stWhileClose := by decide

theorem Tie.stCollect :
    skStCollect = CombSkel.stCollect := by decide

theorem Tie.stLast :
    skStLast = CombSkel.stLast := by decide

theorem Tie.stOne :
    skStOne = CombSkel.stOne := by decide

theorem Tie.stReduce :
    skStReduce = CombSkel.stReduce := by decide

theorem Tie.itChan :
    skItChanNext = CombSkel.itChanNext := by decide

theorem Tie.itEmpty :
    skItEmptyNext = CombSkel.itEmptyNext := by decide

theorem Tie.stChan :
    skStChanNext = CombSkel.stChanNext ∧
    skStChanClose = CombSkel.stChanClose := by decide

theorem Tie.stEmpty :
    skStEmptyNext = CombSkel.stEmptyNext ∧
    skStEmptyClose = CombSkel.stEmptyClose := by decide

theorem Tie.stError :
    skStErrorNext = CombSkel.stErrorNext ∧
    skStErrorClose = CombSkel.stErrorClose := by decide

set_option maxRecDepth 4000 in
/-- `xrand.rSampleStream` (C09: the deferred `Close`; C08: returns the error itself) -/
theorem Tie.sample :
    skSampleStream = CombSkel.sampleStream := by decide

set_option maxRecDepth 4000 in
/-- the exported API of the three packages is the one the models and the harness generator cover; a
function added to `iterator` / `stream`, or an `xslices` function that gets (or has) a namesake there,
breaks this lemma until model, driver, harness and theorems cover it -/
theorem Tie.api :
    itApi = CombSkel.itApi ∧ stApi = CombSkel.stApi ∧
    xsApi.filter (fun n => CombSkel.itApi.contains n || CombSkel.stApi.contains n) = CombSkel.xsCounterparts := by decide

/-- the caller's-goroutine combinators and reducers start no goroutine and touch no channel -/
theorem Tie.sequential : combConcurrencyOps = 0 := by decide

end Juniper.Proofs.Skeleton
