import Juniper.Proofs.StreamPipe
/-!
# The ghost call log of a source behind a pipeline of arbitrary depth (C09)

`lsrc` is the scripted source of `Model/Stream.lean` with an explicit log of the calls it receives
(`Call.next live` / `Call.close`), in order. Any machine that `Forwards` to it — in particular every
`SPipe` pipeline, whatever its depth — makes it see, for a consumer that calls `Next` any number of
times (any contexts, stopping wherever it likes) and then `Close` once: some `Next` calls and then exactly
one `Close` — no `Next` after `Close`, no second `Close`; and every step of the pipeline adds at most one
complete call to the log (calls are made, and finished, inside the consumer's own call: the combinators
start no goroutine — regenerated fact `combConcurrencyOps = 0`).
-/
namespace Juniper.Proofs.StreamDen
open Juniper.Model Juniper.Model.Stream Juniper.Gen.Comb
variable {α : Type}

inductive Call where
  | next (live : Bool)
  | close
  deriving DecidableEq, Repr

/-- the scripted source together with the log of the calls it has received -/
structure LSrc (α : Type) where
  s : Src α
  log : List Call := []

/-- the logged source: behaves exactly like `src` on its `s` component -/
def lsrc : SM (LSrc α) α :=
  ⟨fun st c => ((srcStep st.s c).1, ⟨(srcStep st.s c).2, st.log ++ [.next c]⟩),
   fun st => ⟨srcClose st.s, st.log ++ [.close]⟩⟩

theorem lsrc_simulates (st : LSrc α) (c : Bool) :
    (lsrc.step st c).1 = (src.step st.s c).1 ∧ (lsrc.step st c).2.s = (src.step st.s c).2 ∧
      (lsrc.close st).s = src.close st.s := ⟨rfl, rfl, rfl⟩

theorem lsrc_afterS_log (ds : List Bool) (st : LSrc α) :
    (afterS lsrc ds st).log = st.log ++ ds.map Call.next := by
  induction ds generalizing st with
  | nil => simp [afterS]
  | cons d ds ih =>
    simp only [afterS, List.map_cons]
    rw [ih]
    simp [lsrc]

/-- the shape the property demands of a source's log: `Next` calls, then one `Close`, nothing after -/
def NextsThenClose (log : List Call) : Prop := ∃ ds : List Bool, log = ds.map Call.next ++ [.close]

/-- number of `Close` calls -/
def closeCount (log : List Call) : Nat := log.count .close

/-- some `Next` arrives after a `Close` -/
def nextAfterClose : List Call → Bool
  | [] => false
  | .close :: r => r.any (fun c => c != .close) || nextAfterClose r
  | .next _ :: r => nextAfterClose r

theorem nextsThenClose_spec {log : List Call} (h : NextsThenClose log) :
    closeCount log = 1 ∧ nextAfterClose log = false ∧ log.getLast? = some .close := by
  obtain ⟨ds, rfl⟩ := h
  refine ⟨?_, ?_, by simp⟩
  · induction ds with
    | nil => rfl
    | cons d ds ih => simpa [closeCount, List.count_cons] using ih
  · induction ds with
    | nil => rfl
    | cons d ds ih => simpa [nextAfterClose] using ih

/-- **any wrapper that forwards to the logged source**: `Next` calls under any contexts, then `Close`:
the source's log is its earlier log followed by `Next`s and exactly one `Close`, at the very end. -/
theorem forwards_call_log {σ' : Type} {γ : Type} {m' : SM σ' γ} {proj : σ' → LSrc α} (h : Forwards lsrc m' proj)
    (t : σ') (cs : List Bool) :
    ∃ ds : List Bool, (proj (m'.close (afterS m' cs t))).log = (proj t).log ++ ds.map Call.next ++ [.close] := by
  obtain ⟨ds, hds⟩ := h.afterS cs t
  refine ⟨ds, ?_⟩
  rw [h.close, hds]
  show (afterS lsrc ds (proj t)).log ++ [Call.close] = _
  rw [lsrc_afterS_log]

/-- every step of a forwarding wrapper adds at most one call to the source's log — a complete `Next`
under the step's own context — and its `Close` adds exactly the one `Close` -/
def AtomicCalls {σ' : Type} {γ : Type} (m' : SM σ' γ) (proj : σ' → LSrc α) : Prop :=
  (∀ t c, (proj (m'.step t c).2).log = (proj t).log ∨ (proj (m'.step t c).2).log = (proj t).log ++ [.next c]) ∧
  (∀ t, (proj (m'.close t)).log = (proj t).log ++ [.close])

theorem forwards_atomic {σ' : Type} {γ : Type} {m' : SM σ' γ} {proj : σ' → LSrc α} (h : Forwards lsrc m' proj) :
    AtomicCalls m' proj := by
  refine ⟨fun t c => ?_, fun t => ?_⟩
  · rcases h.step t c with hh | hh
    · left; rw [hh]
    · right; rw [hh]; rfl
  · rw [h.close]; rfl

/-- the log of a whole consumer run is the concatenation, in the order of the consumer's calls, of
what each of them adds: calls on the source are serialised by the consumer's own calls -/
theorem forwards_log_append {σ' : Type} {γ : Type} {m' : SM σ' γ} {proj : σ' → LSrc α} (h : Forwards lsrc m' proj)
    (t : σ') (cs1 cs2 : List Bool) :
    ∃ ds1 ds2 : List Bool, (proj (afterS m' cs1 t)).log = (proj t).log ++ ds1.map Call.next ∧
      (proj (afterS m' (cs1 ++ cs2) t)).log = (proj t).log ++ ds1.map Call.next ++ ds2.map Call.next := by
  obtain ⟨ds1, h1⟩ := h.afterS cs1 t
  obtain ⟨ds2, h2⟩ := h.afterS cs2 (afterS m' cs1 t)
  refine ⟨ds1, ds2, by rw [h1, lsrc_afterS_log], ?_⟩
  rw [afterS_append, h2, lsrc_afterS_log, h1, lsrc_afterS_log]

end Juniper.Proofs.StreamDen
