import Juniper.Proofs.TreeHeapLinkRepair
/-!
# Linking the two B-tree models (C03): `finish` = `steal` / `merge` / epilogue

`finish_sim`: for a node whose child `j` has become underfull, `repair` started at that child does to
the store what `finish` (= `fixChild` + the epilogue of `mergeTwo`) does to the functional node: a
steal from the right or left sibling, or a merge followed by root collapse / nothing / the next round
of `repair` one level up.
-/
namespace Juniper.Proofs.TreeHeapLink
open Juniper Juniper.Model.BTree Juniper.Model.BTreeSlotsOps Juniper.Proofs.Tree Juniper.Proofs.TreeSlotsOps

variable {K V : Type}

/-- what the heap model does, by outcome of `finish` -/
def FinSim (h : Heap K V) (p : Option Nat) (id : Nat) (P : Node K V) (xid : Nat) : DelRes K V → Prop
  | .done x' false => ∃ h', (∀ fuel, repair (fuel + 1) h xid = some h') ∧ Sub h'.get p x' ∧
      (∀ i, cnt i P = 0 → h'.get i = h.get i) ∧ h'.nodes.length = h.nodes.length ∧ h'.size = h.size ∧
      h'.gen = h.gen ∧ h'.root = (if id = h.root then x'.id else h.root) ∧ (id ≠ h.root → x'.id = id)
  | .done x' true => ∃ h1, (∀ fuel, repair (fuel + 1) h xid = repair fuel h1 id) ∧ Sub h1.get p x' ∧ x'.id = id ∧
      (∀ i, cnt i P = 0 → h1.get i = h.get i) ∧ Same h h1
  | _ => False

theorem kind_of_bal {ht li ri : Nat} {lkvs rkvs : List (K × V)} {lkids rkids : List (Node K V)}
    (hl : Bal ht (.mk li lkvs lkids)) (hr : Bal ht (.mk ri rkvs rkids)) : lkids = [] ↔ rkids = [] := by
  rcases bal_cases.mp hl with ⟨h0, e1⟩ | ⟨h', h0, l1, _⟩
  · subst h0
    have := bal_zero.mp hr
    simp [e1, this]
  · subst h0
    obtain ⟨l2, _⟩ := bal_succ.mp hr
    constructor
    · intro e; subst e; simp at l1
    · intro e; subst e; simp at l2

theorem shape_of_bal {ht li : Nat} {lkvs : List (K × V)} {lkids : List (Node K V)}
    (hl : Bal ht (.mk li lkvs lkids)) : lkids = [] ∨ lkids.length = lkvs.length + 1 := by
  rcases bal_cases.mp hl with ⟨_, e1⟩ | ⟨h', _, l1, _⟩
  · exact Or.inl e1
  · exact Or.inr l1

/-- the root has been emptied by a merge: its only child becomes the root -/
theorem collapse_sim {h1 : Heap K V} {id : Nat} {kids' : List (Node K V)} {L : Node K V}
    (hsub : Sub h1.get none (.mk id ([] : List (K × V)) kids')) (hL : L ∈ kids')
    (hcnt : ∀ i, cnt i (Node.mk id ([] : List (K × V)) kids') ≤ 1) (hroot : id = h1.root) :
    ∃ h2, (∀ fuel, mergeTail fuel h1 id L.id = some h2) ∧ Sub h2.get none L ∧
      (∀ i, cnt i (Node.mk id ([] : List (K × V)) kids') = 0 → h2.get i = h1.get i) ∧ h2.root = L.id ∧
      h2.size = h1.size ∧ h2.gen = h1.gen ∧ h2.nodes.length = h1.nodes.length := by
  obtain ⟨sp, hp, hpp, rp, hkids⟩ := sub_mk.mp hsub
  have hsl := hkids L hL
  obtain ⟨sl, hl, _, _⟩ := hsl.root
  have hidL : cnt id L = 0 := cnt_id_child hcnt hL
  have hne : L.id ≠ id := by
    intro e; have := cnt_self L; rw [e] at this; omega
  obtain ⟨h2, hmt, hr2, hs2, hg2, hl2, hget⟩ := mergeTail_collapse hp rp hroot hl hne
  refine ⟨h2, hmt, ?_, ?_, hr2, hs2, hg2, hl2⟩
  · refine Sub.reparent hsl (by have := cnt_child_le (id := id) (kvs := ([] : List (K × V))) hL L.id; have := hcnt L.id; omega) ?_ ?_
    · rw [hget, if_neg hne, if_pos rfl, hl]; rfl
    · intro j hj hjl
      have : j ≠ id := by intro e; subst e; omega
      rw [hget, if_neg this, if_neg hjl]
  · intro i hi
    have h1' : i ≠ id := by intro e; subst e; rw [cnt_mk] at hi; simp at hi
    have h2' : i ≠ L.id := by
      intro e; subst e
      have := cnt_self L
      have := cnt_child_le (id := id) (kvs := ([] : List (K × V))) hL L.id
      omega
    rw [hget, if_neg h1', if_neg h2']

theorem root_if {id r : Nat} : r = (if id = r then id else r) := by
  split
  · next e => exact e.symm
  · rfl

theorem finish_sim {h : Heap K V} {p : Option Nat} {ht id j : Nat} {kvs : List (K × V)} {kids : List (Node K V)}
    {X : Node K V}
    (hsub : Sub h.get p (.mk id kvs kids)) (hcnt : ∀ i, cnt i (Node.mk id kvs kids) ≤ 1)
    (hf : NeedsFix ht kvs kids j) (hX : kids[j]? = some X) (hXn : X.n + 1 = Gen.Tree.minKVs)
    (hkv : 1 ≤ kvs.length) (hrootp : id = h.root → p = none) (hnroot : ∀ c ∈ kids, cnt h.root c = 0) :
    FinSim h p id (.mk id kvs kids) X.id (finish h.root id kvs kids j) := by
  obtain ⟨c1, c2, c3, c4, c5, c6, c7, c8, c9, c10⟩ := consts
  have hcap := capInt.1
  have hlen := hf.len
  have hj : j < kids.length := (List.getElem?_eq_some_iff.mp hX).1
  obtain ⟨sp, hp, hpp, rp, hkids⟩ := sub_mk.mp hsub
  have hXm := List.mem_of_getElem? hX
  obtain ⟨xi, xkvs, xkids⟩ := X
  obtain ⟨xX, hxX, hxXp, rX, hXk⟩ := sub_mk.mp (hkids _ hXm)
  have hck := cntK_le_one hcnt
  have hnd := kids_ids_nodup hck
  have hXi : (kids.map Node.id)[j]? = some xi := by simp [hX, Node.id]
  have hsib := siblings_spec hxX hxXp hp rp (by simpa using hlen) hnd hXi
  simp only [List.getElem?_map] at hsib
  have hxroot : xi ≠ h.root := by
    intro e
    have h1 := hnroot _ hXm
    have h2 := cnt_self (Node.mk xi xkvs xkids)
    simp only [Node.id] at h2
    rw [← e] at h1; omega
  have hbX := hf.bal _ hXm
  have hXn' : (xkvs.length : Int) + 1 = Gen.Tree.minKVs := by simpa [node_n] using hXn
  have hXroom : xkvs.length < keysCap := by omega
  simp only [Node.id]
  -- a merge of children `a`, `a+1` (one of them is `X`), then the epilogue
  have merge_leaf : ∀ {a li ri : Nat} {lkvs rkvs : List (K × V)} {lkids rkids : List (Node K V)} {left right : Option Nat}
      {ln : Int} (ha : a < kvs.length), kids[a]? = some (.mk li lkvs lkids) → kids[a + 1]? = some (.mk ri rkvs rkids) →
      lkvs.length + 1 + rkvs.length ≤ keysCap →
      Heap.siblings h xi = some (left, right) → Heap.nOf h left = some ln →
      (if Gen.Tree.mergeIntoLeft left.isSome ln then left.map (·, xi) else right.map (xi, ·)) = some (li, ri) →
      Heap.steal h xi = some (h, false) →
      fixChild kvs kids j = some (kvs.take a ++ kvs.drop (a + 1),
        kids.take a ++ .mk li (lkvs ++ kvs[a] :: rkvs) (lkids ++ rkids) :: kids.drop (a + 2), some a) →
      FinSim h p id (.mk id kvs kids) xi (finish h.root id kvs kids j) := by
    intro a li ri lkvs rkvs lkids rkids left right ln ha hL hR hfit hsib' hnl hch hst hfc
    have hLm := List.mem_of_getElem? hL
    have hRm := List.mem_of_getElem? hR
    obtain ⟨h1, hmf, hsame1, hsub1, hri1, hfr1⟩ :=
      mergeFrom_step hsub hcnt hlen ha hL hR (kind_of_bal (hf.bal _ hLm) (hf.bal _ hRm)) hfit hsib' hnl hch
    have hrep : ∀ fuel, repair (fuel + 1) h xi = mergeTail fuel h1 id li := by
      intro fuel
      have hd : Gen.Tree.deleteMerges (xi : Int) (h.root : Int) = true := by
        have : ¬ ((xi : Int) = (h.root : Int)) := by omega
        simp [Gen.Tree.deleteMerges, this]
      simp only [repair, hst, Option.bind_some, Bool.false_eq_true, if_false, hd, if_true]
      exact hmf fuel
    have hcle : ∀ i, cnt i (Node.mk id (kvs.take a ++ kvs.drop (a + 1))
        (kids.take a ++ .mk li (lkvs ++ kvs[a] :: rkvs) (lkids ++ rkids) :: kids.drop (a + 2))) ≤
        cnt i (Node.mk id kvs kids) := by
      intro i
      have := mergeAt_cnt (mergeAt_eq ha hL hR) i
      rw [cnt_mk, cnt_mk]; omega
    obtain ⟨sp1, hp1, _, rp1, _⟩ := sub_mk.mp hsub1
    have hklen : (kvs.take a ++ kvs.drop (a + 1)).length = kvs.length - 1 := by simp; omega
    simp only [finish, hfc]
    by_cases hroot : id = h.root
    · have hrc : Gen.Tree.mergeRootCheck (id : Int) (h.root : Int) = true := by simp [Gen.Tree.mergeRootCheck, hroot]
      simp only [hrc, if_true]
      by_cases hemp : kvs.take a ++ kvs.drop (a + 1) = []
      · -- root collapse
        have hre : Gen.Tree.mergeRootEmpty ((kvs.take a ++ kvs.drop (a + 1)).length : Int) = true := by
          simp [Gen.Tree.mergeRootEmpty, hemp]
        have hka : (kids.take a ++ Node.mk li (lkvs ++ kvs[a] :: rkvs) (lkids ++ rkids) :: kids.drop (a + 2))[a]? =
            some (Node.mk li (lkvs ++ kvs[a] :: rkvs) (lkids ++ rkids)) := by
          have : (kids.take a).length = a := by simp; omega
          rw [List.getElem?_append_right (by omega), this]; simp
        simp only [hre, if_true, hka, FinSim]
        have hpn : p = none := hrootp hroot
        subst hpn
        rw [hemp] at hsub1 hcle
        obtain ⟨h2, hmt, hsub2, hfr2, hr2, hs2, hg2, hl2⟩ :=
          collapse_sim (L := Node.mk li (lkvs ++ kvs[a] :: rkvs) (lkids ++ rkids)) hsub1 (by simp)
            (fun i => by have := hcle i; have := hcnt i; omega) (by rw [hsame1.root]; exact hroot)
        refine ⟨h2, fun fuel => by rw [hrep]; exact hmt fuel, hsub2, ?_, by rw [hl2, hsame1.len],
          by rw [hs2, hsame1.size], by rw [hg2, hsame1.gen], by rw [hr2, if_pos hroot], fun hn => absurd hroot hn⟩
        intro i hi
        rw [hfr2 i (by have := hcle i; omega), hfr1 i hi]
      · have hre : Gen.Tree.mergeRootEmpty ((kvs.take a ++ kvs.drop (a + 1)).length : Int) = false := by
          have : (kvs.take a ++ kvs.drop (a + 1)).length ≠ 0 := fun e => hemp (List.eq_nil_of_length_eq_zero e)
          simp only [Gen.Tree.mergeRootEmpty, decide_eq_false_iff_not]; omega
        simp only [hre, Bool.false_eq_true, if_false, FinSim]
        refine ⟨h1, fun fuel => by
            rw [hrep]; exact mergeTail_keep hp1 rp1 (Or.inl ⟨by rw [hsame1.root]; exact hroot, hemp⟩) fuel,
          hsub1, hfr1, hsame1.len, hsame1.size, hsame1.gen, ?_, fun _ => rfl⟩
        rw [hsame1.root, if_pos hroot]; exact hroot.symm
    · have hrc : Gen.Tree.mergeRootCheck (id : Int) (h.root : Int) = false := by
        have : ¬ ((id : Int) = (h.root : Int)) := by omega
        simp [Gen.Tree.mergeRootCheck, this]
      simp only [hrc, Bool.false_eq_true, if_false]
      by_cases hlt : ((kvs.take a ++ kvs.drop (a + 1)).length : Int) < Gen.Tree.minKVs
      · have hmc : Gen.Tree.mergeCascades ((kvs.take a ++ kvs.drop (a + 1)).length : Int) false = true := by
          unfold Gen.Tree.mergeCascades; rw [decide_eq_true hlt]; rfl
        simp only [hmc, FinSim]
        exact ⟨h1, fun fuel => by
            rw [hrep]; exact mergeTail_cascade hp1 rp1 (by rw [hsame1.root]; exact hroot) hlt fuel,
          hsub1, rfl, hfr1, hsame1⟩
      · have hmc : Gen.Tree.mergeCascades ((kvs.take a ++ kvs.drop (a + 1)).length : Int) false = false := by
          unfold Gen.Tree.mergeCascades; rw [decide_eq_false hlt]; rfl
        simp only [hmc, FinSim]
        refine ⟨h1, fun fuel => by
            rw [hrep]
            exact mergeTail_keep hp1 rp1 (Or.inr ⟨by rw [hsame1.root]; exact hroot, by omega⟩) fuel,
          hsub1, hfr1, hsame1.len, hsame1.size, hsame1.gen, ?_, fun _ => rfl⟩
        rw [hsame1.root, if_neg hroot]
  -- what happens with a left sibling
  have left_leaf : ∀ {L : Node K V} {right : Option Nat} {rn : Int}, 0 < j → kids[j - 1]? = some L →
      Heap.siblings h xi = some (some L.id, right) → Heap.nOf h right = some rn →
      Gen.Tree.stealRight right.isSome rn = false →
      (L.n > Gen.Tree.minKVs → fixChild kvs kids j = (rotateRightAt kvs kids (j - 1)).map fun r => (r.1, r.2, none)) →
      (¬ L.n > Gen.Tree.minKVs →
        fixChild kvs kids j = (mergeAt kvs kids (j - 1)).map fun r => (r.1, r.2, some (j - 1))) →
      FinSim h p id (.mk id kvs kids) xi (finish h.root id kvs kids j) := by
    intro L right rn hl hL hsib' hnR hstR hev1 hev2
    obtain ⟨li, lkvs, lkids⟩ := L
    have hLm := List.mem_of_getElem? hL
    obtain ⟨xL, hxL, hxLp, rL, _⟩ := sub_mk.mp (hkids _ hLm)
    have hX' : kids[j - 1 + 1]? = some (Node.mk xi xkvs xkids) := by rw [Nat.sub_add_cancel hl]; exact hX
    have hbL := hf.bal _ hLm
    have hnL : Heap.nOf h (some li) = some (lkvs.length : Int) := by rw [nOf_some hxL, rL.hn]
    have ha : j - 1 < kvs.length := by omega
    simp only [Node.id] at hsib'
    by_cases hln : (lkvs.length : Int) > Gen.Tree.minKVs
    · -- steal from the left sibling
      have hlne : lkvs ≠ [] := by intro e; subst e; simp at hln; omega
      have hshape := shape_of_bal hbL
      have hpos : 0 < lkvs.length := List.length_pos_iff.mpr hlne
      have hsplit : lkids = lkids.take (lkvs.length - 1 + 1) ++ (lkids.drop (lkvs.length - 1 + 1)).take 1 := by
        have : (lkids.drop (lkvs.length - 1 + 1)).take 1 = lkids.drop (lkvs.length - 1 + 1) := by
          apply List.take_of_length_le
          rcases hshape with e | e
          · subst e; simp
          · simp only [List.length_drop]; omega
        rw [this, List.take_append_drop]
      obtain ⟨h', hrot, hsame, hsub', hfr⟩ := rotR_sim hsub hcnt hlen ha hlne hL hX' (kind_of_bal hbL hbX) hXroom hsplit
        (by simp only [List.length_take, List.length_drop]; omega)
        (by
          intro e
          rcases hshape with e' | e'
          · exact e'
          · exfalso
            have := congrArg List.length e
            simp only [List.length_take, List.length_drop, List.length_nil] at this
            omega)
      have hfc := hev1 (by simpa [node_n] using hln)
      rw [rotateRightAt_eq ha hlne hL hX'] at hfc
      simp only [Option.map_some] at hfc
      have hst : Heap.steal h xi = some (h', true) :=
        steal_left hsib' hnR hstR hnL (by simp [Gen.Tree.stealLeft, hln]) hrot
      simp only [finish, hfc, FinSim]
      exact ⟨h', fun fuel => by simp [repair, hst], hsub', hfr, hsame.len, hsame.size, hsame.gen,
        by rw [hsame.root]; exact root_if, fun _ => rfl⟩
    · -- merge into the left sibling
      have hfc := hev2 (by simpa [node_n] using hln)
      rw [mergeAt_eq ha hL hX'] at hfc
      simp only [Option.map_some] at hfc
      have hst : Heap.steal h xi = some (h, false) :=
        steal_none hsib' hnR hstR hnL (by simp [Gen.Tree.stealLeft, hln])
      have hmil : Gen.Tree.mergeIntoLeft true (lkvs.length : Int) = true := by
        simp only [Gen.Tree.mergeIntoLeft, Bool.true_and, decide_eq_true_eq]; omega
      exact merge_leaf ha hL hX' (by omega) hsib' hnL (by simp [hmil]) hst hfc
  -- the right sibling, if any
  by_cases hr : j < kvs.length
  · obtain ⟨R, hR⟩ : ∃ R, kids[j + 1]? = some R := ⟨kids[j + 1], List.getElem?_eq_getElem (by omega)⟩
    obtain ⟨ri, rkvs, rkids⟩ := R
    have hRm := List.mem_of_getElem? hR
    obtain ⟨xR, hxR, hxRp, rR, _⟩ := sub_mk.mp (hkids _ hRm)
    have hbR := hf.bal _ hRm
    have hnR : Heap.nOf h (some ri) = some (rkvs.length : Int) := by rw [nOf_some hxR, rR.hn]
    simp only [hr, if_true, hR, Option.map_some, Node.id] at hsib
    by_cases hrn : (rkvs.length : Int) > Gen.Tree.minKVs
    · -- steal from the right sibling
      cases rkvs with
      | nil => simp at hrn; omega
      | cons rk rkvs =>
        have hrn' : (rkvs.length : Int) + 1 > Gen.Tree.minKVs := by simpa using hrn
        obtain ⟨h', hrot, hsame, hsub', hfr⟩ := rotL_sim hsub hcnt hlen hr hX hR (kind_of_bal hbX hbR) hXroom
        have hfc : fixChild kvs kids j = some (kvs.take j ++ rk :: kvs.drop (j + 1),
            kids.take j ++ .mk xi (xkvs ++ [kvs[j]]) (xkids ++ rkids.take 1) :: .mk ri rkvs (rkids.drop 1) ::
              kids.drop (j + 2), none) := by
          rw [fixChild_eq]
          simp [hr, hR, node_n, rotateLeftAt_eq hr hX hR]
          omega
        have hst : Heap.steal h xi = some (h', true) :=
          steal_right hsib hnR (by simp [Gen.Tree.stealRight]; omega) hrot
        simp only [finish, hfc, FinSim]
        exact ⟨h', fun fuel => by simp [repair, hst], hsub', hfr, hsame.len, hsame.size, hsame.gen,
          by rw [hsame.root]; exact root_if, fun _ => rfl⟩
    · have hstR : Gen.Tree.stealRight (some ri).isSome (rkvs.length : Int) = false := by
        simp [Gen.Tree.stealRight, hrn]
      by_cases hl : 0 < j
      · obtain ⟨L, hL⟩ : ∃ L, kids[j - 1]? = some L := ⟨kids[j - 1], List.getElem?_eq_getElem (by omega)⟩
        simp only [hl, if_true, hL, Option.map_some] at hsib
        refine left_leaf hl hL hsib hnR hstR ?_ ?_
        · intro hln; rw [fixChild_eq]; simp [hr, hR, node_n, hrn, hl, hL, hln]
        · intro hln; rw [fixChild_eq]; simp [hr, hR, node_n, hrn, hl, hL, hln]
      · -- leftmost child: merge with the right sibling
        have hj0 : j = 0 := by omega
        subst hj0
        simp only [Nat.lt_irrefl, if_false] at hsib
        have hst : Heap.steal h xi = some (h, false) :=
          steal_none (ln := 0) hsib hnR hstR rfl (by simp [Gen.Tree.stealLeft])
        refine merge_leaf (left := none) (ln := 0) hr hX hR (by omega) hsib rfl
          (by simp [Gen.Tree.mergeIntoLeft]) hst ?_
        rw [fixChild_eq]
        simp [hr, hR, node_n, hrn, mergeAt_eq hr hX hR]
  · -- rightmost child: there is a left sibling
    have hl : 0 < j := by omega
    obtain ⟨L, hL⟩ : ∃ L, kids[j - 1]? = some L := ⟨kids[j - 1], List.getElem?_eq_getElem (by omega)⟩
    simp only [hl, if_true, hL, Option.map_some, hr, if_false] at hsib
    refine left_leaf (rn := 0) hl hL hsib rfl (by simp [Gen.Tree.stealRight]) ?_ ?_
    · intro hln; rw [fixChild_eq]; simp [hr, hl, hL, hln]
    · intro hln; rw [fixChild_eq]; simp [hr, hl, hL, hln]

end Juniper.Proofs.TreeHeapLink
