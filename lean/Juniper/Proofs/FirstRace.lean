/-!
# The first-race argument, machine-checked (C01 concurrent clause, audit C01R-F7)

An abstract interleaving system in which every step of a goroutine is ONE access to ONE location, determined by the
goroutine's private state (`acc`), reads at most the value at that location and changes at most that value (`step`) —
no synchronisation, so "happens before" between goroutines is empty. `no_conflicting_accesses_of_race_free`: if no
reachable configuration has two different goroutines whose *next* accesses conflict (`Race`), then no run contains two
conflicting accesses of different goroutines at all, however far apart. Hence the configuration-local `Race` of
`Model/BTreeAccess.lean` excludes every data race in the sense of the Go memory model. (`Model/BTreeAccess.next` /
`accessOf` are of this form clause by clause; that instantiation is by inspection, see the comment at `Race`.)
-/
namespace Juniper.Proofs.FirstRace

variable {Loc Val P : Type} [DecidableEq Loc]

/-- an access: the location and whether it writes -/
abbrev Acc (Loc : Type) := Loc × Bool

/-- same location, at least one write -/
def conflict (a b : Acc Loc) : Prop := a.1 = b.1 ∧ (a.2 = true ∨ b.2 = true)

structure Sys (Loc Val P : Type) where
  /-- the next access of a goroutine, a function of its private state alone; `none`: it has returned -/
  acc : P → Option (Acc Loc)
  /-- performing it: the new private state and (for a write) the value stored, from the value found there -/
  step : P → Val → P × Val

structure Config (Loc Val P : Type) where
  mem : Loc → Val
  pcs : Nat → P

variable (S : Sys Loc Val P)

def stepAt (c : Config Loc Val P) (i : Nat) : Option (Config Loc Val P) :=
  match S.acc (c.pcs i) with
  | none => none
  | some a =>
    some { mem := fun l => if a.2 = true ∧ l = a.1 then (S.step (c.pcs i) (c.mem a.1)).2 else c.mem l,
           pcs := fun k => if k = i then (S.step (c.pcs i) (c.mem a.1)).1 else c.pcs k }

/-- run a schedule; `none`: it schedules a goroutine that has returned -/
def run : Config Loc Val P → List Nat → Option (Config Loc Val P)
  | c, [] => some c
  | c, i :: σ => (stepAt S c i).bind (run · σ)

/-- the accesses performed by a run, in order: (goroutine, access) -/
def events : Config Loc Val P → List Nat → List (Nat × Acc Loc)
  | _, [] => []
  | c, i :: σ =>
    match S.acc (c.pcs i), stepAt S c i with
    | some a, some c' => (i, a) :: events c' σ
    | _, _ => []

/-- two different goroutines whose NEXT accesses conflict -/
def Race (c : Config Loc Val P) : Prop :=
  ∃ i j a b, i ≠ j ∧ S.acc (c.pcs i) = some a ∧ S.acc (c.pcs j) = some b ∧ conflict a b

/-- two events that are no data race: same goroutine, or not conflicting -/
def Indep (e1 e2 : Nat × Acc Loc) : Prop := e1.1 = e2.1 ∨ ¬ conflict e1.2 e2.2

variable {S}

theorem stepAt_some {c c' : Config Loc Val P} {i : Nat} (h : stepAt S c i = some c') :
    ∃ a, S.acc (c.pcs i) = some a ∧
      c' = { mem := fun l => if a.2 = true ∧ l = a.1 then (S.step (c.pcs i) (c.mem a.1)).2 else c.mem l,
             pcs := fun k => if k = i then (S.step (c.pcs i) (c.mem a.1)).1 else c.pcs k } := by
  unfold stepAt at h
  cases ha : S.acc (c.pcs i) with
  | none => rw [ha] at h; cases h
  | some a => rw [ha] at h; simp only [Option.some.injEq] at h; exact ⟨a, rfl, h.symm⟩

theorem run_cons {c cend : Config Loc Val P} {i : Nat} {σ : List Nat} (h : run S c (i :: σ) = some cend) :
    ∃ d, stepAt S c i = some d ∧ run S d σ = some cend := by
  simp only [run] at h
  cases hs : stepAt S c i with
  | none => rw [hs] at h; cases h
  | some d => rw [hs] at h; exact ⟨d, rfl, h⟩

theorem run_append (c : Config Loc Val P) (σ τ : List Nat) :
    run S c (σ ++ τ) = (run S c σ).bind (run S · τ) := by
  induction σ generalizing c with
  | nil => rfl
  | cons i σ ih =>
    simp only [List.cons_append, run]
    cases stepAt S c i with
    | none => rfl
    | some d => exact ih d

theorem events_cons {c d : Config Loc Val P} {i : Nat} {a : Acc Loc} (σ : List Nat)
    (ha : S.acc (c.pcs i) = some a) (hs : stepAt S c i = some d) :
    events S c (i :: σ) = (i, a) :: events S d σ := by
  simp only [events, ha, hs]

theorem events_append {c c' : Config Loc Val P} {σ : List Nat} (τ : List Nat) (h : run S c σ = some c') :
    events S c (σ ++ τ) = events S c σ ++ events S c' τ := by
  induction σ generalizing c with
  | nil => simp only [run, Option.some.injEq] at h; subst h; rfl
  | cons i σ ih =>
    obtain ⟨d, hs, hr⟩ := run_cons h
    obtain ⟨a, ha, _⟩ := stepAt_some hs
    rw [List.cons_append, events_cons _ ha hs, events_cons _ ha hs, ih hr, List.cons_append]

/-- an event of a run splits the run at the step that performed it -/
theorem mem_events_split {i : Nat} {a : Acc Loc} : ∀ (σ : List Nat) (c cend : Config Loc Val P),
    run S c σ = some cend → (i, a) ∈ events S c σ →
    ∃ A B cA cA', σ = A ++ i :: B ∧ run S c A = some cA ∧ S.acc (cA.pcs i) = some a ∧ stepAt S cA i = some cA' ∧
      run S cA' B = some cend ∧ events S c σ = events S c A ++ (i, a) :: events S cA' B := by
  intro σ
  induction σ with
  | nil => intro c cend _ hm; simp [events] at hm
  | cons k σ ih =>
    intro c cend h hm
    obtain ⟨d, hs, hr⟩ := run_cons h
    obtain ⟨a0, ha0, _⟩ := stepAt_some hs
    rw [events_cons _ ha0 hs] at hm ⊢
    rcases List.mem_cons.mp hm with heq | hm
    · simp only [Prod.mk.injEq] at heq
      obtain ⟨rfl, rfl⟩ := heq
      exact ⟨[], σ, c, d, rfl, rfl, ha0, hs, hr, by simp [events]⟩
    · obtain ⟨A, B, cA, cA', h1, h2, h3, h4, h5, h6⟩ := ih d cend hr hm
      refine ⟨k :: A, B, cA, cA', by rw [h1]; rfl, by simp only [run, hs, Option.bind_some]; exact h2, h3, h4, h5, ?_⟩
      rw [events_cons _ ha0 hs, h6, List.cons_append]

/-- `c1`, `c2` agree on every goroutine but `i` and on all memory outside `W` -/
def Rel (i : Nat) (W : Loc → Prop) (c1 c2 : Config Loc Val P) : Prop :=
  (∀ k, k ≠ i → c1.pcs k = c2.pcs k) ∧ (∀ l, ¬ W l → c1.mem l = c2.mem l)

/-- **dropping the steps of goroutine `i`** from a run in which the other goroutines never touch what `i` wrote (`W`:
written before; later writes: no conflicting pair among the events) leaves a run in which every other goroutine does
what it did, and `i` stays where it was -/
theorem frame (i : Nat) : ∀ (B : List Nat) (c1 c2 c1' : Config Loc Val P) (W : Loc → Prop),
    Rel i W c1 c2 → run S c1 B = some c1' →
    (∀ e ∈ events S c1 B, e.1 ≠ i → ¬ W e.2.1) → (events S c1 B).Pairwise Indep →
    ∃ c2', run S c2 (B.filter (· != i)) = some c2' ∧ (∀ k, k ≠ i → c1'.pcs k = c2'.pcs k) ∧ c2'.pcs i = c2.pcs i := by
  intro B
  induction B with
  | nil =>
    intro c1 c2 c1' W hrel h _ _
    simp only [run, Option.some.injEq] at h; subst h
    exact ⟨c2, rfl, hrel.1, rfl⟩
  | cons k B ih =>
    intro c1 c2 c1' W hrel h hW hP
    obtain ⟨d1, hs, hr⟩ := run_cons h
    obtain ⟨a, ha, hd1⟩ := stepAt_some hs
    rw [events_cons _ ha hs] at hW hP
    have hP' := List.pairwise_cons.mp hP
    by_cases hk : k = i
    · -- a step of `i`: dropped; what it wrote joins `W`
      subst hk
      have hf : (k :: B).filter (· != k) = B.filter (· != k) := by simp
      rw [hf]
      refine ih d1 c2 c1' (fun l => W l ∨ (a.2 = true ∧ l = a.1)) ⟨?_, ?_⟩ hr ?_ hP'.2
      · intro k' hk'; rw [hd1]; simp only [hk', if_false]; exact hrel.1 k' hk'
      · intro l hl
        have h1 : ¬ W l := fun h => hl (Or.inl h)
        have h2 : ¬ (a.2 = true ∧ l = a.1) := fun h => hl (Or.inr h)
        rw [hd1]; simp only [h2, if_false]; exact hrel.2 l h1
      · intro e he hne hw
        rcases hw with hw | ⟨hw1, hw2⟩
        · exact hW e (List.mem_cons_of_mem _ he) hne hw
        · rcases hP'.1 e he with h | h
          · exact hne h.symm
          · exact h ⟨hw2.symm, Or.inl hw1⟩
    · -- a step of another goroutine: it finds the same private state and the same value
      have hf : (k :: B).filter (· != i) = k :: B.filter (· != i) := by simp [hk]
      rw [hf]
      have hnW : ¬ W a.1 := hW (k, a) (by simp) hk
      have hpc : c1.pcs k = c2.pcs k := hrel.1 k hk
      have hmem : c1.mem a.1 = c2.mem a.1 := hrel.2 a.1 hnW
      have ha2 : S.acc (c2.pcs k) = some a := by rw [← hpc]; exact ha
      let d2 : Config Loc Val P :=
        { mem := fun l => if a.2 = true ∧ l = a.1 then (S.step (c2.pcs k) (c2.mem a.1)).2 else c2.mem l,
          pcs := fun k' => if k' = k then (S.step (c2.pcs k) (c2.mem a.1)).1 else c2.pcs k' }
      have hs2 : stepAt S c2 k = some d2 := by simp only [stepAt, ha2, d2]
      have hrel' : Rel i W d1 d2 := by
        constructor
        · intro k' hk'
          rw [hd1]; simp only [d2]
          by_cases hkk : k' = k
          · simp only [hkk, if_true, hpc, hmem]
          · simp only [hkk, if_false]; exact hrel.1 k' hk'
        · intro l hl
          rw [hd1]; simp only [d2]
          by_cases hla : a.2 = true ∧ l = a.1
          · simp only [hla, and_self, if_true, hpc, hmem]
          · simp only [hla, if_false]; exact hrel.2 l hl
      obtain ⟨c2', g1, g2, g3⟩ := ih d1 d2 c1' W hrel' hr (fun e he => hW e (List.mem_cons_of_mem _ he)) hP'.2
      refine ⟨c2', by simp only [run, hs2, Option.bind_some]; exact g1, g2, ?_⟩
      rw [g3]; simp only [d2, Ne.symm hk, if_false]

/-- **The first-race theorem.** If no reachable configuration has two goroutines about to perform conflicting
accesses, then no run contains two conflicting accesses of different goroutines — at any distance. -/
theorem no_conflicting_accesses_of_race_free (c0 : Config Loc Val P)
    (hfree : ∀ σ c, run S c0 σ = some c → ¬ Race S c) :
    ∀ (σ : List Nat) (c : Config Loc Val P), run S c0 σ = some c → (events S c0 σ).Pairwise Indep := by
  intro σ
  generalize hn : σ.length = n
  induction n generalizing σ with
  | zero =>
    intro c _
    have : σ = [] := List.eq_nil_of_length_eq_zero hn
    subst this; simp [events]
  | succ n ih =>
    intro c h
    rcases List.eq_nil_or_concat σ with rfl | ⟨σ', j, rfl⟩
    · simp at hn
    · rw [List.concat_eq_append] at h hn ⊢
      have hlen : σ'.length = n := by simpa using hn
      rw [run_append] at h
      cases hσ : run S c0 σ' with
      | none => rw [hσ] at h; cases h
      | some cσ =>
        rw [hσ] at h
        simp only [Option.bind_some] at h
        obtain ⟨d, hs, hr⟩ := run_cons h
        obtain ⟨b, hb, _⟩ := stepAt_some hs
        have hIH := ih σ' hlen cσ hσ
        rw [events_append _ hσ, events_cons _ hb hs]
        simp only [events]
        refine List.pairwise_append.mpr ⟨hIH, by simp, ?_⟩
        intro e he e' he'
        simp only [List.mem_singleton] at he'
        subst he'
        obtain ⟨i, a⟩ := e
        by_cases hij : i = j
        · exact Or.inl hij
        · refine Or.inr (fun hc => ?_)
          -- the earlier access `a` of goroutine `i` conflicts with `b`: drop `i`'s steps from there on
          obtain ⟨A, B, cA, cA', h1, h2, h3, h4, h5, h6⟩ := mem_events_split σ' c0 cσ hσ he
          obtain ⟨a', ha', hcA'⟩ := stepAt_some h4
          rw [h3] at ha'; cases ha'
          rw [h6] at hIH
          have hP := (List.pairwise_append.mp hIH).2.1
          have hP' := List.pairwise_cons.mp hP
          have hrel : Rel i (fun l => a.2 = true ∧ l = a.1) cA' cA := by
            constructor
            · intro k hk; rw [hcA']; simp only [hk, if_false]
            · intro l hl; rw [hcA']; simp only [hl, if_false]
          obtain ⟨c2', g1, g2, g3⟩ := frame i B cA' cA cσ _ hrel h5
            (by
              intro e he hne hw
              rcases hP'.1 e he with h | h
              · exact hne h.symm
              · exact h ⟨hw.2.symm, Or.inl hw.1⟩)
            hP'.2
          have hreach : run S c0 (A ++ B.filter (· != i)) = some c2' := by
            rw [run_append, h2]; exact g1
          refine hfree _ c2' hreach ⟨i, j, a, b, hij, by rw [g3]; exact h3, ?_, hc⟩
          rw [← g2 j (Ne.symm hij)]; exact hb

end Juniper.Proofs.FirstRace
