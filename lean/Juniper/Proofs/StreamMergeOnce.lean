import Juniper.Proofs.StreamMergeClose
/-! Helper lemmas for C12 (stream.Merge LTS), part 4: the `nDone` / `closeOnce` protocol — the pipe's
sender is closed at most once, with the error of the CAS winner or with nil by the last goroutine. -/
set_option linter.unusedSectionVars false
set_option linter.unusedSimpArgs false
set_option linter.unusedVariables false
namespace Juniper.Proofs.StreamMerge
open Juniper.Model.StreamMerge
variable {V : Type}

/-- The goroutine has executed `atomic.AddUint32(&nDone, 1)`. -/
def marked : GPc V → Bool
  | .exiting (.markDone :: _) => false
  | .exiting _ => true
  | .finished => true
  | _ => false

/-- The value of `nDone` the goroutine is about to compare with `len(in)`. -/
def pendingD : GPc V → Option Nat
  | .exiting (.checkLast d :: _) => some d
  | _ => none

def markedInd (g : G V) : Nat := if marked g.pc then 1 else 0
def pendKInd (k : Nat) (g : G V) : Nat := if pendingD g.pc = some k then 1 else 0
/-- The goroutine may still execute `sender.Close(nil)` (should `closeOnce` stay 0). -/
def mayNilInd (k : Nat) (g : G V) : Nat := if marked g.pc = false ∨ pendingD g.pc = some k then 1 else 0
/-- The CAS winner has not yet executed `sender.Close(err)`. -/
def wonPendInd (g : G V) : Nat :=
  match g.pc with
  | .won _ rest => if rest.contains .closeErr then 1 else 0
  | _ => 0

def isErrPc (x : Nat) : GPc V → Prop
  | .gotErr e => e = .inj x
  | .won e _ => e = .inj x
  | _ => False

structure InvC (k : Nat) (s : St V) : Prop where
  c1 : s.nDone = sumBy markedInd s.gs
  c2 : ∀ g, g ∈ s.gs → ∀ d, pendingD g.pc = some d → d ≤ s.nDone
  c3 : sumBy (pendKInd k) s.gs ≤ 1
  w1 : s.closeOnce = false → (∀ g, g ∈ s.gs → (∀ e r, g.pc ≠ .won e r) ∧ g.why ≠ some .wonCas ∧ g.why ≠ some .lostCas) ∧
        s.winner = none ∧ s.senderErr = none
  w2 : ∀ i g e r, s.gs[i]? = some g → g.pc = .won e r → s.winner = some (i, e)
  w3 : ∀ i g x, s.gs[i]? = some g → isErrPc x g.pc → (i, x) ∈ s.errLog
  w4 : ∀ i x, s.winner = some (i, .inj x) → (i, x) ∈ s.errLog
  sc : 0 < k → s.senderCloses + (if s.closeOnce = false ∧ 0 < sumBy (mayNilInd k) s.gs then 1 else 0) +
        sumBy wonPendInd s.gs ≤ 1
  z : k = 0 → s.senderCloses = 1 ∧ s.senderErr = none
  f1 : ∀ e, s.senderErr = some e → ∃ i, s.winner = some (i, e)
  f2 : s.closeOnce = true → 0 < s.senderCloses → s.senderErr ≠ none

theorem invC_init (k : Nat) : InvC k (init V k) := by
  refine ⟨?_, ?_, ?_, ?_, ?_, ?_, ?_, ?_, ?_, ?_, ?_⟩
  · simp [init, sumBy_replicate, markedInd, marked]
  · intro g hg d hd; simp [init] at hg; rw [hg.2] at hd; simp [pendingD] at hd
  · simp [init, sumBy_replicate, pendKInd, pendingD]
  · intro _
    refine ⟨?_, rfl, rfl⟩
    intro g hg; simp [init] at hg; rw [hg.2]; simp
  · intro i g e r hg hp; simp [init, List.getElem?_replicate] at hg; rw [← hg.2] at hp; simp at hp
  · intro i g x hg hp; simp [init, List.getElem?_replicate] at hg; rw [← hg.2] at hp; simp [isErrPc] at hp
  · intro i x h; simp [init] at h
  · intro hk
    have hz : (Juniper.Gen.Merge.smZeroCond k && Juniper.Gen.Merge.smZeroCloses) = false := by
      rw [zeroCond_eq, zeroCloses_eq]; simp; omega
    simp [init, hz, sumBy_replicate, wonPendInd, mayNilInd, marked, hk]
  · intro hk
    subst hk
    have hz : (Juniper.Gen.Merge.smZeroCond ((0 : Nat) : Int) && Juniper.Gen.Merge.smZeroCloses) = true := by
      rw [zeroCond_eq, zeroCloses_eq]; simp
    simp only [init, hz]
    simp
  · intro e h; simp [init] at h
  · intro h; simp [init] at h

theorem sum_same {α : Type} (f : α → Nat) {l : List α} {i : Nat} {x y : α} (h : l[i]? = some y) (hf : f x = f y) :
    sumBy f (l.set i x) = sumBy f l := by
  have := sumBy_set f l i x y h
  omega

theorem mem_set_cases {α : Type} {l : List α} {i : Nat} {x a : α} (h : a ∈ l.set i x) : a ∈ l ∨ a = x :=
  List.mem_or_eq_of_mem_set h

/-- A goroutine step that touches none of `nDone`, `closeOnce`, `winner`, the sender, `errLog` and
does not move the goroutine across `markDone` / `checkLast` / into or inside `won`. -/
theorem invC_neutral {k : Nat} {s s' : St V} (hi : InvC k s) {i : Nat} {g g' : G V}
    (hg : s.gs[i]? = some g) (hgs : s'.gs = s.gs.set i g')
    (h1 : s'.nDone = s.nDone) (h2 : s'.closeOnce = s.closeOnce) (h3 : s'.winner = s.winner)
    (h4 : s'.senderCloses = s.senderCloses) (h5 : s'.senderErr = s.senderErr)
    (h6 : ∀ p, p ∈ s.errLog → p ∈ s'.errLog)
    (hm : marked g'.pc = marked g.pc) (hpd : pendingD g'.pc = pendingD g.pc)
    (hwp : wonPendInd g' = wonPendInd g)
    (hwon : ∀ e r, g'.pc = .won e r → ∃ r0, g.pc = .won e r0)
    (herr : ∀ x, isErrPc x g'.pc → isErrPc x g.pc ∨ (i, x) ∈ s'.errLog)
    (hwhy : s.closeOnce = false → g'.why ≠ some .wonCas ∧ g'.why ≠ some .lostCas) : InvC k s' := by
  have hmem : ∀ a, a ∈ s'.gs → a ∈ s.gs ∨ a = g' := fun a ha => by rw [hgs] at ha; exact mem_set_cases ha
  have hgm : g ∈ s.gs := List.mem_of_getElem? hg
  have hlt := (List.getElem?_eq_some_iff.mp hg).1
  have hget : ∀ j x, s'.gs[j]? = some x → (j = i ∧ x = g') ∨ (j ≠ i ∧ s.gs[j]? = some x) := by
    intro j x hx
    rw [hgs] at hx
    by_cases hji : i = j
    · subst hji; simp [List.getElem?_set, hlt] at hx; exact .inl ⟨rfl, hx.symm⟩
    · simp [List.getElem?_set, hji] at hx; exact .inr ⟨fun h => hji h.symm, hx⟩
  refine ⟨?_, ?_, ?_, ?_, ?_, ?_, ?_, ?_, ?_, ?_, ?_⟩
  · rw [h1, hgs, sum_same markedInd hg (by simp [markedInd, hm])]; exact hi.c1
  · intro a ha d hd
    rw [h1]
    rcases hmem a ha with ha | rfl
    · exact hi.c2 a ha d hd
    · rw [hpd] at hd; exact hi.c2 g hgm d hd
  · rw [hgs, sum_same (pendKInd k) hg (by simp [pendKInd, hpd])]; exact hi.c3
  · intro hc
    rw [h2] at hc
    obtain ⟨ha, hb, hd⟩ := hi.w1 hc
    refine ⟨?_, by rw [h3]; exact hb, by rw [h5]; exact hd⟩
    intro a haa
    rcases hmem a haa with haa | rfl
    · exact ha a haa
    · refine ⟨?_, hwhy hc⟩
      intro e r hp
      obtain ⟨r0, hp0⟩ := hwon e r hp
      exact (ha g hgm).1 e r0 hp0
  · intro j a e r ha hp
    rw [h3]
    rcases hget j a ha with ⟨rfl, rfl⟩ | ⟨_, ha⟩
    · obtain ⟨r0, hp0⟩ := hwon e r hp
      exact hi.w2 j g e r0 hg hp0
    · exact hi.w2 j a e r ha hp
  · intro j a x ha hp
    rcases hget j a ha with ⟨rfl, rfl⟩ | ⟨_, ha⟩
    · rcases herr x hp with h | h
      · exact h6 _ (hi.w3 j g x hg h)
      · exact h
    · exact h6 _ (hi.w3 j a x ha hp)
  · intro j x hw; rw [h3] at hw; exact h6 _ (hi.w4 j x hw)
  · intro hk
    rw [h4, h2, hgs, sum_same (mayNilInd k) hg (by simp [mayNilInd, hm, hpd]), sum_same wonPendInd hg hwp]
    exact hi.sc hk
  · intro hk; rw [h4, h5]; exact hi.z hk
  · intro e he; rw [h5] at he; rw [h3]; exact hi.f1 e he
  · intro hc hp; rw [h2] at hc; rw [h4] at hp; rw [h5]; exact hi.f2 hc hp


theorem sumBy_ge_mem {α : Type} (f : α → Nat) : ∀ (l : List α) (x : α), x ∈ l → f x ≤ sumBy f l
  | a :: l, x, h => by
    simp at h
    rcases h with rfl | h
    · simp [sumBy]
    · have := sumBy_ge_mem f l x h
      simp [sumBy] at this ⊢; omega

theorem sumBy_eq_zero {α : Type} (f : α → Nat) (l : List α) (h : ∀ x, x ∈ l → f x = 0) : sumBy f l = 0 := by
  induction l with
  | nil => rfl
  | cons a l ih =>
    have h1 := h a (by simp)
    have h2 := ih (fun x hx => h x (by simp [hx]))
    simp [sumBy] at h2 ⊢; omega

theorem sumBy_le_length {α : Type} (f : α → Nat) (l : List α) (h : ∀ x, x ∈ l → f x ≤ 1) : sumBy f l ≤ l.length := by
  induction l with
  | nil => simp [sumBy]
  | cons a l ih =>
    have h1 := h a (by simp)
    have h2 := ih (fun x hx => h x (by simp [hx]))
    simp [sumBy] at h2 ⊢; omega

theorem sumBy_full {α : Type} (f : α → Nat) (l : List α) (h : ∀ x, x ∈ l → f x ≤ 1) (hs : sumBy f l = l.length) :
    ∀ x, x ∈ l → f x = 1 := by
  induction l with
  | nil => intro x hx; cases hx
  | cons a l ih =>
    intro x hx
    have h1 := h a (by simp)
    have h2 := sumBy_le_length f l (fun x hx => h x (by simp [hx]))
    have hs' : f a + sumBy f l = l.length + 1 := by simpa [sumBy] using hs
    simp at hx
    rcases hx with rfl | hx
    · omega
    · exact ih (fun x hx => h x (by simp [hx])) (by omega) x hx

theorem set_facts {α : Type} {l : List α} {i : Nat} {g g' : α} (hg : l[i]? = some g) :
    (∀ a, a ∈ l.set i g' → a ∈ l ∨ a = g') ∧
    (∀ j x, (l.set i g')[j]? = some x → (j = i ∧ x = g') ∨ (j ≠ i ∧ l[j]? = some x)) := by
  have hlt := (List.getElem?_eq_some_iff.mp hg).1
  refine ⟨fun a ha => mem_set_cases ha, ?_⟩
  intro j x hx
  by_cases hji : i = j
  · subst hji; simp [List.getElem?_set, hlt] at hx; exact .inl ⟨rfl, hx.symm⟩
  · simp [List.getElem?_set, hji] at hx; exact .inr ⟨fun h => hji h.symm, hx⟩

theorem markedInd_le (g : G V) : markedInd g ≤ 1 := by unfold markedInd; split <;> omega


/-- the CAS on `closeOnce` succeeds -/
theorem invC_casWin {k : Nat} {s s' : St V} (hi : InvC k s) {i : Nat} {g g' : G V} {e : Err} (hk : 0 < k)
    (hg : s.gs[i]? = some g) (hgs : s'.gs = s.gs.set i g')
    (hp : g.pc = .gotErr e) (hp' : g'.pc = .won e [.cancel, .closeErr])
    (hco : s.closeOnce = false)
    (h1 : s'.nDone = s.nDone) (h2 : s'.closeOnce = true) (h3 : s'.winner = some (i, e))
    (h4 : s'.senderCloses = s.senderCloses) (h5 : s'.senderErr = s.senderErr) (h6 : s'.errLog = s.errLog) :
    InvC k s' := by
  have hgm : g ∈ s.gs := List.mem_of_getElem? hg
  obtain ⟨hmem, hget⟩ := set_facts (g' := g') hg
  obtain ⟨hw1a, hw1b, hw1c⟩ := hi.w1 hco
  have hsc := hi.sc hk
  have hmay : 1 ≤ sumBy (mayNilInd k) s.gs := by
    have := sumBy_ge_mem (mayNilInd k) s.gs g hgm
    simp [mayNilInd, hp, marked] at this; exact this
  have hwp := sumBy_set wonPendInd s.gs i g' g hg
  have e1 : wonPendInd g' = 1 := by simp [wonPendInd, hp']
  have e2 : wonPendInd g = 0 := by simp [wonPendInd, hp]
  rw [e1, e2] at hwp
  have hpos : 0 < sumBy (mayNilInd k) s.gs := by omega
  simp only [hco, hpos, and_self, if_true] at hsc
  refine ⟨?_, ?_, ?_, ?_, ?_, ?_, ?_, ?_, ?_, ?_, ?_⟩
  · rw [h1, hgs, sum_same markedInd hg (by simp [markedInd, hp, hp', marked])]; exact hi.c1
  · intro a haa d hd
    rw [h1]
    rw [hgs] at haa
    rcases hmem a haa with haa | rfl
    · exact hi.c2 a haa d hd
    · simp [pendingD, hp'] at hd
  · rw [hgs, sum_same (pendKInd k) hg (by simp [pendKInd, hp, hp', pendingD])]; exact hi.c3
  · intro hc; rw [h2] at hc; cases hc
  · intro j a e' r haj hpj
    rw [hgs] at haj
    rw [h3]
    rcases hget j a haj with ⟨rfl, rfl⟩ | ⟨_, haj⟩
    · rw [hp'] at hpj; simp at hpj; simp [hpj.1]
    · exact absurd hpj ((hw1a a (List.mem_of_getElem? haj)).1 e' r)
  · intro j a x haj hpj
    rw [hgs] at haj
    rw [h6]
    rcases hget j a haj with ⟨rfl, rfl⟩ | ⟨_, haj⟩
    · exact hi.w3 j g x hg (by simpa [isErrPc, hp, hp'] using hpj)
    · exact hi.w3 j a x haj hpj
  · intro j x hw
    rw [h3] at hw; simp at hw
    obtain ⟨rfl, rfl⟩ := hw
    rw [h6]
    exact hi.w3 _ g x hg (by simp [isErrPc, hp])
  · intro _
    rw [h4, h2, hgs]
    simp; omega
  · intro hk0; omega
  · intro e' he
    rw [h5, hw1c] at he; cases he
  · intro _ hpos'
    rw [h4] at hpos'; omega

/-- the CAS winner executes `sender.Close(err)` -/
theorem invC_closeErr {k : Nat} {s s' : St V} (hi : InvC k s) {i : Nat} {g g' : G V} {e : Err} (hk : 0 < k)
    (hg : s.gs[i]? = some g) (hgs : s'.gs = s.gs.set i g')
    (hp : g.pc = .won e [.closeErr]) (hp' : g'.pc = .won e [])
    (h1 : s'.nDone = s.nDone) (h2 : s'.closeOnce = s.closeOnce) (h3 : s'.winner = s.winner)
    (h4 : s'.senderCloses = s.senderCloses + 1) (h5 : s'.senderErr = some e) (h6 : s'.errLog = s.errLog) :
    InvC k s' := by
  have hgm : g ∈ s.gs := List.mem_of_getElem? hg
  obtain ⟨hmem, hget⟩ := set_facts (g' := g') hg
  have hco : s.closeOnce = true := by
    cases hcc : s.closeOnce
    · exact absurd hp (((hi.w1 hcc).1 g hgm).1 e _)
    · rfl
  have hsc := hi.sc hk
  have hwp := sumBy_set wonPendInd s.gs i g' g hg
  have e1 : wonPendInd g' = 0 := by simp [wonPendInd, hp']
  have e2 : wonPendInd g = 1 := by simp [wonPendInd, hp]
  rw [e1, e2] at hwp
  simp [hco] at hsc
  refine ⟨?_, ?_, ?_, ?_, ?_, ?_, ?_, ?_, ?_, ?_, ?_⟩
  · rw [h1, hgs, sum_same markedInd hg (by simp [markedInd, hp, hp', marked])]; exact hi.c1
  · intro a haa d hd
    rw [h1]
    rw [hgs] at haa
    rcases hmem a haa with haa | rfl
    · exact hi.c2 a haa d hd
    · simp [pendingD, hp'] at hd
  · rw [hgs, sum_same (pendKInd k) hg (by simp [pendKInd, hp, hp', pendingD])]; exact hi.c3
  · intro hc; rw [h2, hco] at hc; cases hc
  · intro j a e' r haj hpj
    rw [hgs] at haj
    rw [h3]
    rcases hget j a haj with ⟨rfl, rfl⟩ | ⟨_, haj⟩
    · rw [hp'] at hpj; simp at hpj; rw [← hpj.1]; exact hi.w2 j g e _ hg hp
    · exact hi.w2 j a e' r haj hpj
  · intro j a x haj hpj
    rw [hgs] at haj
    rw [h6]
    rcases hget j a haj with ⟨rfl, rfl⟩ | ⟨_, haj⟩
    · exact hi.w3 j g x hg (by simpa [isErrPc, hp, hp'] using hpj)
    · exact hi.w3 j a x haj hpj
  · intro j x hw; rw [h3] at hw; rw [h6]; exact hi.w4 j x hw
  · intro _
    rw [h4, h2, hgs]
    simp [hco]; omega
  · intro hk0; omega
  · intro e' he
    rw [h5] at he; simp at he; subst he
    rw [h3]
    exact ⟨i, hi.w2 i g e _ hg hp⟩
  · intro _ _; rw [h5]; simp

/-- `atomic.AddUint32(&nDone, 1)` -/
theorem invC_mark {k : Nat} {s s' : St V} (hi : InvC k s) {i : Nat} {g g' : G V}
    (hg : s.gs[i]? = some g) (hgs : s'.gs = s.gs.set i g')
    (hp : g.pc = .exiting [.markDone, .closeInput, .wgDone])
    (hp' : g'.pc = .exiting [.checkLast (s.nDone + 1), .closeInput, .wgDone]) (hwhy : g'.why = g.why)
    (h1 : s'.nDone = s.nDone + 1) (h2 : s'.closeOnce = s.closeOnce) (h3 : s'.winner = s.winner)
    (h4 : s'.senderCloses = s.senderCloses) (h5 : s'.senderErr = s.senderErr) (h6 : s'.errLog = s.errLog) :
    InvC k s' := by
  have hgm : g ∈ s.gs := List.mem_of_getElem? hg
  obtain ⟨hmem, hget⟩ := set_facts (g' := g') hg
  have hm := sumBy_set markedInd s.gs i g' g hg
  have e1 : markedInd g' = 1 := by simp [markedInd, hp', marked]
  have e2 : markedInd g = 0 := by simp [markedInd, hp, marked]
  rw [e1, e2] at hm
  have hpk := sumBy_set (pendKInd k) s.gs i g' g hg
  have e3 : pendKInd k g = 0 := by simp [pendKInd, hp, pendingD]
  have e4 : pendKInd k g' = if s.nDone + 1 = k then 1 else 0 := by simp [pendKInd, hp', pendingD]
  rw [e3, e4] at hpk
  have hmn := sumBy_set (mayNilInd k) s.gs i g' g hg
  have e5 : mayNilInd k g = 1 := by simp [mayNilInd, hp, marked]
  have e6 : mayNilInd k g' = if s.nDone + 1 = k then 1 else 0 := by simp [mayNilInd, hp', marked, pendingD]
  rw [e5, e6] at hmn
  refine ⟨?_, ?_, ?_, ?_, ?_, ?_, ?_, ?_, ?_, ?_, ?_⟩
  · rw [h1, hgs, hi.c1]; omega
  · intro a haa d hd
    rw [h1]
    rw [hgs] at haa
    rcases hmem a haa with haa | rfl
    · have := hi.c2 a haa d hd; omega
    · simp [pendingD, hp'] at hd; omega
  · rw [hgs]
    by_cases hkk : s.nDone + 1 = k
    · have hz : sumBy (pendKInd k) s.gs = 0 := by
        apply sumBy_eq_zero
        intro a haa
        unfold pendKInd
        split
        · rename_i hh
          have := hi.c2 a haa k hh; omega
        · rfl
      simp [hkk] at hpk; omega
    · simp [hkk] at hpk
      have := hi.c3; omega
  · intro hcc
    rw [h2] at hcc
    obtain ⟨ha1, hb1, hc1⟩ := hi.w1 hcc
    refine ⟨?_, by rw [h3]; exact hb1, by rw [h5]; exact hc1⟩
    intro a haa
    rw [hgs] at haa
    rcases hmem a haa with haa | rfl
    · exact ha1 a haa
    · exact ⟨by simp [hp'], by rw [hwhy]; exact (ha1 g hgm).2⟩
  · intro j a e' r haj hpj
    rw [hgs] at haj; rw [h3]
    rcases hget j a haj with ⟨rfl, rfl⟩ | ⟨_, haj⟩
    · rw [hp'] at hpj; cases hpj
    · exact hi.w2 j a e' r haj hpj
  · intro j a x haj hpj
    rw [hgs] at haj; rw [h6]
    rcases hget j a haj with ⟨rfl, rfl⟩ | ⟨_, haj⟩
    · simp [isErrPc, hp'] at hpj
    · exact hi.w3 j a x haj hpj
  · intro j x hw; rw [h3] at hw; rw [h6]; exact hi.w4 j x hw
  · intro hk
    have hsc := hi.sc hk
    rw [h4, h2, hgs, sum_same wonPendInd hg (by simp [wonPendInd, hp, hp'])]
    have hle : sumBy (mayNilInd k) (s.gs.set i g') ≤ sumBy (mayNilInd k) s.gs := by
      split at hmn <;> omega
    split
    · rename_i hh
      have : s.closeOnce = false ∧ 0 < sumBy (mayNilInd k) s.gs := ⟨hh.1, by omega⟩
      simp only [this, and_self, if_true] at hsc
      exact hsc
    · split at hsc <;> omega
  · intro hk; rw [h4, h5]; exact hi.z hk
  · intro e he; rw [h5] at he; rw [h3]; exact hi.f1 e he
  · intro hc hpp; rw [h2] at hc; rw [h4] at hpp; rw [h5]; exact hi.f2 hc hpp

/-- the second half of the deferred closure: `… == len(in) && closeOnce == 0`, either outcome -/
theorem invC_check {k : Nat} {s s' : St V} (ha : InvA k s) (hi : InvC k s) {i : Nat} {g g' : G V} {d : Nat}
    (hg : s.gs[i]? = some g) (hgs : s'.gs = s.gs.set i g')
    (hp : g.pc = .exiting [.checkLast d, .closeInput, .wgDone])
    (hp' : g'.pc = .exiting [.closeInput, .wgDone]) (hwhy : g'.why = g.why)
    (h1 : s'.nDone = s.nDone) (h2 : s'.closeOnce = s.closeOnce) (h3 : s'.winner = s.winner) (h6 : s'.errLog = s.errLog)
    (hfire : (d = k ∧ s.closeOnce = false ∧ s'.senderCloses = s.senderCloses + 1 ∧ s'.senderErr = none) ∨
             (¬ (d = k ∧ s.closeOnce = false) ∧ s'.senderCloses = s.senderCloses ∧ s'.senderErr = s.senderErr)) :
    InvC k s' := by
  have hgm : g ∈ s.gs := List.mem_of_getElem? hg
  have hk : 0 < k := by
    have := (List.getElem?_eq_some_iff.mp hg).1
    rw [ha.len] at this; omega
  obtain ⟨hmem, hget⟩ := set_facts (g' := g') hg
  have hm : sumBy markedInd (s.gs.set i g') = sumBy markedInd s.gs :=
    sum_same markedInd hg (by simp [markedInd, hp, hp', marked])
  have hpk := sumBy_set (pendKInd k) s.gs i g' g hg
  have e3 : pendKInd k g' = 0 := by simp [pendKInd, hp', pendingD]
  have e4 : pendKInd k g = if d = k then 1 else 0 := by simp [pendKInd, hp, pendingD]
  rw [e3, e4] at hpk
  have hmn := sumBy_set (mayNilInd k) s.gs i g' g hg
  have e5 : mayNilInd k g' = 0 := by simp [mayNilInd, hp', marked, pendingD]
  have e6 : mayNilInd k g = if d = k then 1 else 0 := by simp [mayNilInd, hp, marked, pendingD]
  rw [e5, e6] at hmn
  have hwps : sumBy wonPendInd (s.gs.set i g') = sumBy wonPendInd s.gs :=
    sum_same wonPendInd hg (by simp [wonPendInd, hp, hp'])
  have hc3 := hi.c3
  -- the parts that do not depend on the outcome
  have p1 : s'.nDone = sumBy markedInd s'.gs := by rw [h1, hgs, hm]; exact hi.c1
  have p2 : ∀ a, a ∈ s'.gs → ∀ d, pendingD a.pc = some d → d ≤ s'.nDone := by
    intro a haa d' hd
    rw [h1]
    rw [hgs] at haa
    rcases hmem a haa with haa | rfl
    · exact hi.c2 a haa d' hd
    · simp [pendingD, hp'] at hd
  have p3 : sumBy (pendKInd k) s'.gs ≤ 1 := by rw [hgs]; split at hpk <;> omega
  have p5 : ∀ j a e r, s'.gs[j]? = some a → a.pc = .won e r → s'.winner = some (j, e) := by
    intro j a e' r haj hpj
    rw [hgs] at haj; rw [h3]
    rcases hget j a haj with ⟨rfl, rfl⟩ | ⟨_, haj⟩
    · rw [hp'] at hpj; cases hpj
    · exact hi.w2 j a e' r haj hpj
  have p6 : ∀ j a x, s'.gs[j]? = some a → isErrPc x a.pc → (j, x) ∈ s'.errLog := by
    intro j a x haj hpj
    rw [hgs] at haj; rw [h6]
    rcases hget j a haj with ⟨rfl, rfl⟩ | ⟨_, haj⟩
    · simp [isErrPc, hp'] at hpj
    · exact hi.w3 j a x haj hpj
  have p7 : ∀ j x, s'.winner = some (j, .inj x) → (j, x) ∈ s'.errLog := by
    intro j x hw; rw [h3] at hw; rw [h6]; exact hi.w4 j x hw
  have p4a : s.closeOnce = false → ∀ a, a ∈ s'.gs → (∀ e r, a.pc ≠ .won e r) ∧ a.why ≠ some .wonCas ∧ a.why ≠ some .lostCas := by
    intro hcc a haa
    obtain ⟨ha1, _, _⟩ := hi.w1 hcc
    rw [hgs] at haa
    rcases hmem a haa with haa | rfl
    · exact ha1 a haa
    · exact ⟨by simp [hp'], by rw [hwhy]; exact (ha1 g hgm).2⟩
  rcases hfire with ⟨hdk, hco, h4, h5⟩ | ⟨hnf, h4, h5⟩
  · -- sender.Close(nil)
    subst hdk
    have hsc := hi.sc hk
    obtain ⟨_, hw1b, _⟩ := hi.w1 hco
    have hmayg : 1 ≤ sumBy (mayNilInd d) s.gs := by
      have := sumBy_ge_mem (mayNilInd d) s.gs g hgm
      rw [e6] at this; simpa using this
    have hpos : 0 < sumBy (mayNilInd d) s.gs := by omega
    simp only [hco, hpos, and_self, if_true] at hsc
    simp at hpk
    have hnd : s.nDone = d := by
      have h1' := hi.c2 g hgm d (by simp [hp, pendingD])
      have h2' := sumBy_le_length markedInd s.gs (fun x _ => markedInd_le x)
      rw [← hi.c1, ha.len] at h2'
      omega
    have hall : ∀ a, a ∈ s.gs.set i g' → mayNilInd d a = 0 := by
      intro a haa
      have hmk : markedInd a = 1 := by
        apply sumBy_full markedInd _ (fun x _ => markedInd_le x) _ a haa
        rw [hm, ← hi.c1, hnd]; simp [ha.len]
      have hpz : pendKInd d a = 0 := sumBy_zero (pendKInd d) _ (by omega) a haa
      unfold markedInd at hmk
      unfold pendKInd at hpz
      unfold mayNilInd
      split at hmk
      · rename_i hmm
        split at hpz
        · cases hpz
        · rename_i hpp
          simp [hmm, hpp]
      · cases hmk
    have hmay0 := sumBy_eq_zero (mayNilInd d) _ hall
    refine ⟨p1, p2, p3, ?_, p5, p6, p7, ?_, ?_, ?_, ?_⟩
    · intro _
      exact ⟨p4a hco, by rw [h3]; exact hw1b, h5⟩
    · intro _
      rw [h4, h2, hgs, hwps, hmay0]
      simp; omega
    · intro hk0; omega
    · intro e he; rw [h5] at he; cases he
    · intro hcc; rw [h2, hco] at hcc; cases hcc
  · refine ⟨p1, p2, p3, ?_, p5, p6, p7, ?_, ?_, ?_, ?_⟩
    · intro hcc
      rw [h2] at hcc
      obtain ⟨_, hb1, hc1⟩ := hi.w1 hcc
      exact ⟨p4a hcc, by rw [h3]; exact hb1, by rw [h5]; exact hc1⟩
    · intro _
      have hsc := hi.sc hk
      rw [h4, h2, hgs, hwps]
      have hle : sumBy (mayNilInd k) (s.gs.set i g') ≤ sumBy (mayNilInd k) s.gs := by
        split at hmn <;> omega
      split
      · rename_i hh
        have : s.closeOnce = false ∧ 0 < sumBy (mayNilInd k) s.gs := ⟨hh.1, by omega⟩
        simp only [this, and_self, if_true] at hsc
        exact hsc
      · split at hsc <;> omega
    · intro hk0; omega
    · intro e he; rw [h5] at he; rw [h3]; exact hi.f1 e he
    · intro hc hpp; rw [h2] at hc; rw [h4] at hpp; rw [h5]; exact hi.f2 hc hpp

theorem invC_step {k : Nat} {s s' : St V} {l : Label V} (ha : InvA k s) (hi : InvC k s)
    (h : step s l = some s') : InvC k s' := by
  have hkpos : ∀ {i : Nat} {g : G V}, s.gs[i]? = some g → 0 < k := by
    intro i g hg
    have := (List.getElem?_eq_some_iff.mp hg).1
    rw [ha.len] at this; omega
  cases l with
  | inItem i v =>
    obtain ⟨g, hg, hp, rfl⟩ := step_inItem h
    exact invC_neutral hi hg rfl rfl rfl rfl rfl rfl (fun _ h => h) (by simp [hp, marked]) (by simp [hp, pendingD])
      (by simp [hp, wonPendInd]) (by simp) (by simp [isErrPc])
      (fun hc => by have := (hi.w1 hc).1 g (List.mem_of_getElem? hg); exact this.2)
  | inEnd i =>
    obtain ⟨g, hg, hp, rfl⟩ := step_inEnd h
    exact invC_neutral hi hg rfl rfl rfl rfl rfl rfl (fun _ h => h) (by simp [hp, marked]) (by simp [hp, pendingD])
      (by simp [hp, wonPendInd]) (by simp) (by simp [isErrPc]) (fun _ => by simp)
  | inErr i e =>
    obtain ⟨g, hg, hp, rfl⟩ := step_inErr h
    exact invC_neutral hi hg rfl rfl rfl rfl rfl rfl (fun _ h => by simp [h]) (by simp [hp, marked])
      (by simp [hp, pendingD]) (by simp [hp, wonPendInd]) (by simp)
      (fun x hx => by right; simp [isErrPc] at hx; subst hx; simp)
      (fun hc => by have := (hi.w1 hc).1 g (List.mem_of_getElem? hg); exact this.2)
  | inCtx i =>
    obtain ⟨g, hg, hp, _, rfl⟩ := step_inCtx h
    exact invC_neutral hi hg rfl rfl rfl rfl rfl rfl (fun _ h => h) (by simp [hp, marked]) (by simp [hp, pendingD])
      (by simp [hp, wonPendInd]) (by simp) (by simp [isErrPc])
      (fun hc => by have := (hi.w1 hc).1 g (List.mem_of_getElem? hg); exact this.2)
  | cas i =>
    obtain ⟨g, e, hg, hp, hc⟩ := step_cas h
    rcases hc with ⟨hco, rfl⟩ | ⟨hco, rfl⟩
    · exact invC_casWin hi (hkpos hg) hg rfl hp rfl hco rfl rfl rfl rfl rfl rfl
    · exact invC_neutral hi hg rfl rfl rfl rfl rfl rfl (fun _ h => h) (by simp [hp, marked]) (by simp [hp, pendingD])
        (by simp [hp, wonPendInd]) (by simp) (by simp [isErrPc]) (fun hc => by rw [hco] at hc; cases hc)
  | win i =>
    obtain ⟨g, e, hg, hc⟩ := step_win h
    have hgm : g ∈ s.gs := List.mem_of_getElem? hg
    have hshape := (ha.loc g hgm).shape
    rcases hc with ⟨rest, hp, rfl⟩ | ⟨rest, hp, rfl⟩ | ⟨hp, rfl⟩
    · rw [hp] at hshape; simp only [Shape] at hshape
      rcases hshape with hs | hs | hs <;> simp at hs
      subst hs
      exact invC_neutral hi hg rfl rfl rfl rfl rfl rfl (fun _ h => h) (by simp [hp, marked]) (by simp [hp, pendingD])
        (by simp [hp, wonPendInd]) (by simp [hp]) (fun x hx => by left; simpa [isErrPc, hp] using hx)
        (fun hc => by have := (hi.w1 hc).1 g hgm; exact this.2)
    · rw [hp] at hshape; simp only [Shape] at hshape
      rcases hshape with hs | hs | hs <;> simp at hs
      subst hs
      exact invC_closeErr hi (hkpos hg) hg rfl hp rfl rfl rfl rfl rfl rfl rfl
    · exact invC_neutral hi hg rfl rfl rfl rfl rfl rfl (fun _ h => h) (by simp [hp, marked]) (by simp [hp, pendingD])
        (by simp [hp, wonPendInd]) (by simp) (by simp [isErrPc])
        (fun hc => absurd hp (((hi.w1 hc).1 g hgm).1 e _))
  | sendOk i =>
    obtain ⟨g, v, live, hg, hp, _, rfl⟩ := step_sendOk h
    exact invC_neutral hi hg rfl rfl rfl rfl rfl rfl (fun _ h => h) (by simp [hp, marked, again]) (by simp [hp, pendingD, again])
      (by simp [hp, wonPendInd, again]) (by simp [again]) (by simp [isErrPc, again])
      (fun hc => by have := (hi.w1 hc).1 g (List.mem_of_getElem? hg); simpa [again] using this.2)
  | sendFail i =>
    obtain ⟨g, v, hg, hp, _, rfl⟩ := step_sendFail h
    exact invC_neutral hi hg rfl rfl rfl rfl rfl rfl (fun _ h => h) (by simp [hp, marked]) (by simp [hp, pendingD])
      (by simp [hp, wonPendInd]) (by simp) (by simp [isErrPc]) (fun _ => by simp)
  | exitStep i =>
    obtain ⟨g, hg, hc⟩ := step_exitStep h
    have hgm : g ∈ s.gs := List.mem_of_getElem? hg
    have hshape := (ha.loc g hgm).shape
    have hwhy : s.closeOnce = false → g.why ≠ some .wonCas ∧ g.why ≠ some .lostCas :=
      fun hc => ((hi.w1 hc).1 g hgm).2
    rcases hc with ⟨rest, hp, rfl⟩ | ⟨d, rest, hp, hdk, hco, rfl⟩ | ⟨d, rest, hp, hnf, rfl⟩ | ⟨rest, hp, rfl⟩ |
      ⟨rest, hp, rfl⟩ | ⟨hp, rfl⟩
    · rw [hp] at hshape; simp only [Shape, E0] at hshape
      rcases hshape with hs | ⟨d', hs⟩ | hs | hs | hs <;> simp at hs
      subst hs
      exact invC_mark hi hg rfl hp rfl rfl rfl rfl rfl rfl rfl rfl
    · rw [hp] at hshape; simp only [Shape, E0] at hshape
      rcases hshape with hs | ⟨d', hs⟩ | hs | hs | hs <;> simp at hs
      obtain ⟨_, rfl⟩ := hs
      exact invC_check ha hi hg rfl hp rfl rfl rfl rfl rfl rfl (.inl ⟨by rw [hdk, ha.hk], hco, rfl, rfl⟩)
    · rw [hp] at hshape; simp only [Shape, E0] at hshape
      rcases hshape with hs | ⟨d', hs⟩ | hs | hs | hs <;> simp at hs
      obtain ⟨_, rfl⟩ := hs
      exact invC_check ha hi hg rfl hp rfl rfl rfl rfl rfl rfl (.inr ⟨by rw [← ha.hk]; exact hnf, rfl, rfl⟩)
    · rw [hp] at hshape; simp only [Shape, E0] at hshape
      rcases hshape with hs | ⟨d', hs⟩ | hs | hs | hs <;> simp at hs
      subst hs
      exact invC_neutral hi hg rfl rfl rfl rfl rfl rfl (fun _ h => h) (by simp [hp, marked]) (by simp [hp, pendingD])
        (by simp [hp, wonPendInd]) (by simp) (by simp [isErrPc]) hwhy
    · rw [hp] at hshape; simp only [Shape, E0] at hshape
      rcases hshape with hs | ⟨d', hs⟩ | hs | hs | hs <;> simp at hs
      subst hs
      exact invC_neutral hi hg rfl rfl rfl rfl rfl rfl (fun _ h => h) (by simp [hp, marked]) (by simp [hp, pendingD])
        (by simp [hp, wonPendInd]) (by simp) (by simp [isErrPc]) hwhy
    · exact invC_neutral hi hg rfl rfl rfl rfl rfl rfl (fun _ h => h) (by simp [hp, marked]) (by simp [hp, pendingD])
        (by simp [hp, wonPendInd]) (by simp) (by simp [isErrPc]) hwhy
  | cCall live => obtain ⟨_, rfl⟩ := step_cCall h; exact ⟨hi.c1, hi.c2, hi.c3, hi.w1, hi.w2, hi.w3, hi.w4, hi.sc, hi.z, hi.f1, hi.f2⟩
  | cEnd => obtain ⟨_, _, _, rfl⟩ := step_cEnd h; exact ⟨hi.c1, hi.c2, hi.c3, hi.w1, hi.w2, hi.w3, hi.w4, hi.sc, hi.z, hi.f1, hi.f2⟩
  | cCtx => obtain ⟨_, rfl⟩ := step_cCtx h; exact ⟨hi.c1, hi.c2, hi.c3, hi.w1, hi.w2, hi.w3, hi.w4, hi.sc, hi.z, hi.f1, hi.f2⟩
  | cExpire => obtain ⟨_, rfl⟩ := step_cExpire h; exact ⟨hi.c1, hi.c2, hi.c3, hi.w1, hi.w2, hi.w3, hi.w4, hi.sc, hi.z, hi.f1, hi.f2⟩
  | cClose => obtain ⟨_, rfl⟩ := step_cClose h; exact ⟨hi.c1, hi.c2, hi.c3, hi.w1, hi.w2, hi.w3, hi.w4, hi.sc, hi.z, hi.f1, hi.f2⟩
  | cCloseStep =>
    rcases step_cCloseStep h with ⟨_, _, rfl⟩ | ⟨_, _, rfl⟩ | ⟨_, _, _, rfl⟩ <;>
      exact ⟨hi.c1, hi.c2, hi.c3, hi.w1, hi.w2, hi.w3, hi.w4, hi.sc, hi.z, hi.f1, hi.f2⟩
  | ctxEnds =>
    obtain ⟨_, _, rfl⟩ := step_ctxEnds h
    exact ⟨hi.c1, hi.c2, hi.c3, hi.w1, hi.w2, hi.w3, hi.w4, hi.sc, hi.z, hi.f1, hi.f2⟩

theorem reach_invC {k : Nat} {s : St V} (h : Reach (init V k) s) : InvC k s := by
  induction h with
  | refl => exact invC_init k
  | step l hr hs ih => exact invC_step (reach_invA hr) ih hs

end Juniper.Proofs.StreamMerge
