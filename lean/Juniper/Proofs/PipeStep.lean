import Juniper.Model.Pipe
/-!
Inversion lemmas for `Model.Pipe.step`: what each label does to the state, in a form the invariant
proofs can consume without unfolding `step` again.
-/
namespace Juniper.Proofs.Pipe
open Juniper.Facts Juniper.Gen.Pipe Juniper.Model.Pipe

/-- The derived `BEq` of `Arm` agrees with equality (so `List.contains` is membership). -/
instance : LawfulBEq Arm where
  eq_of_beq := by
    intro a b h
    cases a <;> cases b <;> first | rfl | (simp [BEq.beq, instBEqArm.beq] at h; try simp [h])
  rfl := by
    intro a
    cases a <;> simp [BEq.beq, instBEqArm.beq]

theorem after_msg (pc : SPc) (a : Arm) :
    (pc.after a).msg? = none ∨ (pc.after a).msg? = pc.msg? := by
  unfold SPc.after
  split
  · cases pc <;> simp [SPc.fallThrough, SPc.msg?]
  · simp [SPc.msg?]

theorem step_startCall {st st' : State} {i : Nat} {v : Int} {c : Bool} {mk : Msg → SPc}
    (h : startCall st i v c mk = some st') :
    ∃ sd, st.senders[i]? = some sd ∧ sd.pc = .idle ∧
      st' = st.setSender i { pc := mk ⟨i, sd.sent.length, v⟩, ctx := c, sent := sd.sent ++ [⟨i, sd.sent.length, v⟩] } := by
  unfold startCall at h
  split at h
  · simp at h
  · rename_i sd hsd
    split at h
    · rename_i hpc
      simp at h
      exact ⟨sd, hsd, hpc, h.symm⟩
    · simp at h

theorem step_cancelSender {st st' : State} {i : Nat} (h : step st (.cancelSender i) = some st') :
    ∃ sd, st.senders[i]? = some sd ∧ st' = st.setSender i { sd with ctx := true } := by
  simp only [step] at h
  split at h
  · simp at h
  · rename_i sd hsd
    split at h
    · simp at h
    · simp at h; exact ⟨sd, hsd, h.symm⟩

/-- A sender arm: either only the program counter of sender `i` changes (a `recv` arm or `default`),
or (`send` arm) the message in flight is appended to the buffer and acknowledged. -/
theorem step_sender {st st' : State} {i : Nat} {a : Arm} (h : step st (.sender i a) = some st') :
    ∃ sd m, st.senders[i]? = some sd ∧ sd.pc.msg? = some m ∧ (tableOf sd.pc).contains a = true ∧
      ((st' = st.setSender i { sd with pc := sd.pc.after a } ∧
          ((∃ ch, a = .recv ch ∧ sReady st sd a = true) ∨ (a = .dflt ∧ sDefaultReady st sd = true))) ∨
       (∃ ch, a = .send ch ∧ sReady st sd a = true ∧
          st' = { commit (st.setSender i { sd with pc := sd.pc.after a }) m with buf := st.buf ++ [m] })) := by
  simp only [step] at h
  split at h
  · simp at h
  · rename_i sd hsd
    split at h
    · simp at h
    · rename_i m hm
      split at h
      · rename_i htab
        refine ⟨sd, m, hsd, hm, htab, ?_⟩
        split at h
        · rename_i ch
          split at h
          · rename_i hr
            simp at h
            exact Or.inl ⟨h.symm, Or.inl ⟨ch, rfl, hr⟩⟩
          · simp at h
        · rename_i ch
          split at h
          · rename_i hr
            simp at h
            exact Or.inr ⟨ch, rfl, hr, h.symm⟩
          · simp at h
        · split at h
          · rename_i hr
            simp at h
            exact Or.inl ⟨h.symm, Or.inr ⟨rfl, hr⟩⟩
          · simp at h
      · simp at h

theorem step_handoff {st st' : State} {i : Nat} (h : step st (.handoff i) = some st') :
    ∃ sd m, st.senders[i]? = some sd ∧ sd.pc.msg? = some m ∧ canHandoff st sd = true ∧
      st' = { commit (st.setSender i { sd with pc := sd.pc.after (.send chData) }) m with
              rpc := .idle, delivered := st.delivered ++ [m] } := by
  simp only [step] at h
  split at h
  · simp at h
  · rename_i sd hsd
    split at h
    · simp at h
    · rename_i m hm
      split at h
      · rename_i hc
        simp at h
        exact ⟨sd, m, hsd, hm, hc, h.symm⟩
      · simp at h

/-- A receiver arm: a value is popped from the buffer, or the receiver moves on to the drain, or
it reports the end, or (context) it just returns. -/
theorem step_recv {st st' : State} {a : Arm} (h : step st (.recv a) = some st') :
    (rtableOf st.rpc).contains a = true ∧
    ((∃ m rest, a = .recv chData ∧ st.buf = m :: rest ∧
        st' = { st with buf := rest, delivered := st.delivered ++ [m], rpc := .idle }) ∨
     (a = .recv chSenderDone ∧ st.senderDone = true ∧ st.rpc.isNext = true ∧ nextDrains = true ∧
        st' = { st with rpc := .drain }) ∨
     (a = .recv chSenderDone ∧ st.senderDone = true ∧ (st.rpc.isNext && nextDrains) = false ∧
        st' = reportEnd st) ∨
     (∃ ch, a = .recv ch ∧ ch ≠ chData ∧ ch ≠ chSenderDone ∧ st' = { st with rpc := .idle }) ∨
     (a = .dflt ∧ st.rpc = .drain ∧ rDefaultReady st = true ∧ st' = reportEnd st)) := by
  simp only [step] at h
  split at h
  · rename_i htab
    refine ⟨htab, ?_⟩
    split at h
    · rename_i ch
      split at h
      · rename_i hr
        split at h
        · rename_i hch
          have hch' : ch = chData := by simpa using hch
          subst hch'
          split at h
          · simp at h
          · rename_i m rest hbuf
            simp at h
            exact Or.inl ⟨m, rest, rfl, hbuf, h.symm⟩
        · rename_i hch
          have hne : ch ≠ chData := by simpa using hch
          split at h
          · rename_i hch2
            have hch2' : ch = chSenderDone := by simpa using hch2
            subst hch2'
            have hsd : st.senderDone = true := by
              simp [rReady, chCtx, chData, chSenderDone] at hr
              exact hr
            split at h
            · rename_i hc
              simp only [Bool.and_eq_true] at hc
              simp at h
              exact Or.inr (Or.inl ⟨rfl, hsd, hc.1, hc.2, h.symm⟩)
            · rename_i hc
              simp at h
              exact Or.inr (Or.inr (Or.inl ⟨rfl, hsd, by simpa using hc, h.symm⟩))
          · rename_i hch2
            have hne2 : ch ≠ chSenderDone := by simpa using hch2
            simp at h
            exact Or.inr (Or.inr (Or.inr (Or.inl ⟨ch, rfl, hne, hne2, h.symm⟩)))
      · simp at h
    · split at h
      · rename_i hc
        simp at h
        exact Or.inr (Or.inr (Or.inr (Or.inr ⟨rfl, hc.1, hc.2, h.symm⟩)))
      · simp at h
    · simp at h
  · simp at h

/-- Parking of a `Send`: the poll found nothing ready; only the `parked` flag of that call changes. -/
theorem step_park {st st' : State} {i : Nat} (h : step st (.park i) = some st') :
    ∃ sd m, st.senders[i]? = some sd ∧ sd.pc = .send m false ∧ sDefaultReady st sd = true ∧
      st' = st.setSender i { sd with pc := .send m true } := by
  simp only [step] at h
  split at h
  · simp at h
  · rename_i sd hsd
    split at h
    · rename_i m hpc
      split at h
      · rename_i hr
        simp at h
        exact ⟨sd, m, hsd, hpc, hr, h.symm⟩
      · simp at h
    · simp at h

/-- Parking of `Next`: only the `parked` flag of the receiver changes. -/
theorem step_parkRecv {st st' : State} (h : step st .parkRecv = some st') :
    st.rpc = .next false ∧ rDefaultReady st = true ∧ st' = { st with rpc := .next true } := by
  simp only [step] at h
  split at h
  · rename_i hc
    simp at h
    exact ⟨hc.1, hc.2, h.symm⟩
  · simp at h

end Juniper.Proofs.Pipe
