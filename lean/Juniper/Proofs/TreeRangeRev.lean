import Juniper.Proofs.TreeRange
import Juniper.Proofs.TreeCursorPrev
/-!
# `RangeReverse` on an unchanging tree yields exactly the entries inside the bounds, descending (C01)

Mirror image of `TreeSeek.lean` (second half) and `TreeRange.lean`: the backward seeks (`SeekLastLess`,
`SeekLastLessOrEqual`, `SeekLast`), `backwardIterator.Next` and `RangeReverse`.
-/
namespace Juniper.Proofs.Tree
open Juniper.Model.BTree Juniper.Gen.Tree

variable {K V : Type} {α : Type} {cmp : K → K → Int}

/-- iterating backward from cursor `c` on the (unchanging) tree `t` yields exactly `S` (descending) -/
def Bwd (t : Tree K V) (c : Cursor K) (S : List (K × V)) : Prop :=
  (S = [] ∧ c.pos = none) ∨
  (c.gen = t.gen ∧ ∃ p y up e, c.pos = some p ∧ At t.root p y up e ∧ p.k = e.1 ∧ S = e :: (befOf up y p.i).reverse)

/-- moving back from a valid position: the cursor then yields what was before, descending -/
theorem retreat {t : Tree K V} (hi : Inv cmp t) {c : Cursor K} {p : Pos K} {y : Node K V}
    {up : List (Node K V × Nat)} {e : K × V} (hg : c.gen = t.gen) (ha : At t.root p y up e) :
    Bwd t { c with pos := prevCore t p } (befOf up y p.i).reverse := by
  obtain ⟨h, hb, hone, _⟩ := inv_facts hi
  obtain ⟨n1, n2⟩ := prev_step t rfl hb hone ha
  rcases eq_nil_or_snoc (befOf up y p.i) with hB | ⟨B', e', hB⟩
  · left; exact ⟨by rw [hB]; rfl, by simp [n1 hB]⟩
  · obtain ⟨p', y', up', g1, g2, g3, g4, _⟩ := n2 B' e' hB
    right
    exact ⟨hg, p', y', up', e', by simp [g1], g2, g3, by rw [hB, g4]; simp⟩

/-- in a sorted list that starts above `k` everything is above `k` -/
theorem all_above_of_startsAbove (hc : StrictWeak cmp) {k : K} {A : List (K × V)} (hs : Sorted cmp A)
    (h : StartsAbove cmp k A) : ∀ a ∈ A, cmp k a.1 < 0 := by
  cases A with
  | nil => intro a ha; cases ha
  | cons x A =>
    have hx : cmp k x.1 < 0 := h x (by simp)
    have hp := List.pairwise_cons.mp hs
    intro a ha
    rcases List.mem_cons.mp ha with rfl | ha
    · exact hx
    · exact hc.lt_trans hx (hp.1 a ha)

/-- the backward seeks: park on the last entry whose key does not satisfy `step (cmp k ·)` -/
theorem seekBwd_spec (hc : StrictWeak cmp) {t : Tree K V} (hi : Inv cmp t) (step : Int → Bool)
    (hneg : ∀ c, c < 0 → step c = true) (hpos : ∀ c, 0 < c → step c = false) (c0 : Cursor K) (k : K) :
    Bwd t (seekWith (V := V) step false cmp t c0 k)
      ((toList t.root).reverse.dropWhile (fun x => step (cmp k x.1))) := by
  obtain ⟨h, hb, hone, hsort⟩ := inv_facts hi
  have hgen : seekSetsGen = true := by decide
  unfold seekWith seek find
  by_cases h0 : t.root.n = 0
  · have := root_empty_of_n_zero hi.wf h0
    simp [findEmpty, h0, this, Bwd]
  · have hn : 1 ≤ t.root.n := by
      have : 0 ≤ t.root.n := by simp [Node.n]
      omega
    obtain ⟨p, f, hf, ⟨y, up, e, ha, hk, hp, hbef, hft, hff⟩⟩ :=
      findIn_spec hc k t.root h hb hn hsort t.root [] rfl trivial (by simp [ctxBefore]) (by intro b hb'; simp [ctxAfter] at hb')
    have hL := at_toList hb ha
    simp only [findEmpty, h0, decide_false, Bool.false_eq_true, if_false, hf, hgen, if_true]
    -- everything after the cursor is above `k`
    have hsort' := hsort
    rw [hL] at hsort'
    have hsA : Sorted cmp (e :: aftOf up y p.i) := (List.pairwise_append.mp hsort').2.1
    have heA : ∀ a ∈ aftOf up y p.i, cmp e.1 a.1 < 0 := (List.pairwise_cons.mp hsA).1
    have habove : ∀ a ∈ aftOf up y p.i, cmp k a.1 < 0 := by
      cases f with
      | true =>
        have he := hft rfl
        intro a ha'
        exact hc.lt_of_eq_of_lt he (heA a ha')
      | false =>
        rcases hff rfl with h1 | ⟨_, h2⟩
        · intro a ha'
          exact hc.lt_trans h1 (heA a ha')
        · exact all_above_of_startsAbove hc (List.pairwise_cons.mp hsA).2 h2
    have hdrop : (toList t.root).reverse.dropWhile (fun x => step (cmp k x.1)) =
        (e :: (befOf up y p.i).reverse).dropWhile (fun x => step (cmp k x.1)) := by
      rw [hL, List.reverse_append, List.reverse_cons, List.append_assoc]
      exact dropWhile_append_all (fun b hb' => hneg _ (habove b (List.mem_reverse.mp hb')))
    rw [hdrop, hk]
    by_cases hst : step (cmp k e.1) = true
    · -- step back past `e`
      have hlost : lostAt cmp t { pos := some p, gen := t.gen } = false := lostAt_of_gen_eq cmp t _ rfl
      simp only [hst, if_true, stepBwd, hlost, Bool.false_eq_true, if_false, List.dropWhile_cons]
      rw [dropWhile_of_head_false (fun a ha' => hpos _ (hbef a (List.mem_reverse.mp (List.mem_of_mem_head? ha'))))]
      exact retreat (c := { pos := some p, gen := t.gen }) hi rfl ha
    · have hst' : step (cmp k e.1) = false := by simpa using hst
      simp only [hst', Bool.false_eq_true, if_false, List.dropWhile_cons]
      right
      exact ⟨rfl, p, y, up, e, rfl, ha, hk, rfl⟩

theorem seekLast_spec {t : Tree K V} (hi : Inv cmp t) (c0 : Cursor K) :
    Bwd t (seekLast t c0) (toList t.root).reverse := by
  obtain ⟨h, hb, hone, hsort⟩ := inv_facts hi
  have hgen : seekLastSetsGen = true := by decide
  unfold seekLast
  by_cases h0 : t.root.n = 0
  · have := root_empty_of_n_zero hi.wf h0
    simp [seekLastEmpty, h0, this, Bwd]
  · have hn : 1 ≤ t.root.n := by
      have : 0 ≤ t.root.n := by simp [Node.n]
      omega
    obtain ⟨sp, e, n, g1, g2, g3, g3', _, _, g5⟩ := rightmost_spec t.root h hb hn [] rfl trivial
    have hidx : (seekLastIdx (rightmostLeaf t.root).n).toNat = n := by
      simp only [seekLastIdx, Node.n, g3]; omega
    simp only [seekLastEmpty, h0, decide_false, Bool.false_eq_true, if_false, hgen, if_true, hidx, posAt_eq g3']
    right
    refine ⟨rfl, _, rightmostLeaf t.root, sp ++ [], e, rfl, ⟨g1, rfl, g3'⟩, rfl, ?_⟩
    have : toList t.root = befOf (sp ++ []) (rightmostLeaf t.root) n ++ [e] := by
      simp only [befOf]; rw [g5]; simp [ctxBefore]
    rw [this]; simp

/-- one `backwardIterator.Next` on an unchanging tree -/
theorem rawNext_bwd {t : Tree K V} (hi : Inv cmp t) {c : Cursor K} {S : List (K × V)} (hf : Bwd t c S) :
    match S with
    | [] => rawNext cmp t false c = (c, none)
    | e :: S' => ∃ c', rawNext cmp t false c = (c', some (e.1, some e.2)) ∧ Bwd t c' S' := by
  rcases hf with ⟨rfl, hp⟩ | ⟨hg, p, y, up, e, hp, ha, hk, rfl⟩
  · simp [rawNext, hp]
  · have hlost := lostAt_of_gen_eq cmp t c hg
    refine ⟨{ c with pos := prevCore t p }, ?_, retreat hi hg ha⟩
    simp [rawNext, hp, hlost, cursorPrev, valueAt_of_at hi ha, hk]

theorem drain_bwd {t : Tree K V} (hi : Inv cmp t) (stop : Option (CmpOp × K)) :
    ∀ (S : List (K × V)) (fuel : Nat) (c : Cursor K), Bwd t c S → S.length < fuel →
      drainW cmp t fuel { c := c, fwd := false, stop := stop, done := false } =
        (S.takeWhile (keepOf cmp stop)).map outOf := by
  intro S
  induction S with
  | nil =>
    intro fuel c hf hl
    cases fuel with
    | zero => simp at hl
    | succ fuel =>
      have := rawNext_bwd hi hf
      simp only at this
      cases stop with
      | none => simp [drainW, iterNextW, this]
      | some s => obtain ⟨op, key⟩ := s; simp [drainW, iterNextW, this, whileChecksDone]
  | cons e S ih =>
    intro fuel c hf hl
    cases fuel with
    | zero => simp at hl
    | succ fuel =>
      obtain ⟨c', hr, hf'⟩ := rawNext_bwd hi hf
      simp only [List.length_cons] at hl
      cases stop with
      | none =>
        simp only [drainW, iterNextW, hr, List.takeWhile_cons, keepOf, if_true, List.map_cons, outOf]
        rw [ih fuel c' hf' (by omega)]
      | some s =>
        obtain ⟨op, key⟩ := s
        by_cases hk : evalOp op (cmp e.1 key) = true
        · simp only [drainW, iterNextW, whileChecksDone, Bool.false_eq_true, if_false, hr, whileStops, hk, Bool.not_true,
            List.takeWhile_cons, keepOf, if_true, List.map_cons, outOf]
          rw [ih fuel c' hf' (by omega)]
        · have hk' : evalOp op (cmp e.1 key) = false := by simpa using hk
          simp [drainW, iterNextW, whileChecksDone, hr, whileStops, hk', keepOf]

/-! ## the ideal reverse range -/

/-- the entries inside the bounds, in descending order -/
def srangeRev (cmp : K → K → Int) (lo hi : Bound K) (L : List (K × V)) : List (K × V) :=
  (srange cmp lo hi L).reverse

/-- the cursor produced by the upper-bound switch of `RangeReverse` -/
theorem rrange_seek_bwd (hc : StrictWeak cmp) {t : Tree K V} (hi : Inv cmp t) (hi' : Bound K) (hk : BoundKind)
    (hhk : hi'.kind = some hk) :
    ∃ sk arg, rrangeSeek.2.find? (fun r => r.1 == hk) = some (hk, sk, arg) ∧ rrangeSeek.1 = Side.upper ∧
      (∀ lo : Bound K, Bwd t (doSeek cmp t sk (argKey arg lo hi'))
        ((toList t.root).reverse.dropWhile (fun x => !belowHi cmp hi' x.1))) := by
  have hfun : ∀ (step : Int → Bool) (q : K × V → Bool), (∀ x, step (cmp hi'.key x.1) = q x) →
      (toList t.root).reverse.dropWhile (fun x => step (cmp hi'.key x.1)) = (toList t.root).reverse.dropWhile q := by
    intro step q h; congr 1; funext x; exact h x
  cases hk with
  | incl =>
    refine ⟨.le, some Side.upper, by decide, rfl, fun lo => ?_⟩
    have := seekBwd_spec hc hi seekLastLessOrEqualStep (by intro c h; simp [seekLastLessOrEqualStep, h])
      (by intro c h; simp [seekLastLessOrEqualStep]; omega) { pos := none, gen := 0 } hi'.key
    rw [hfun _ (fun x => !belowHi cmp hi' x.1)] at this
    · exact this
    · intro x
      have := hc.anti hi'.key x.1
      simp only [seekLastLessOrEqualStep, belowHi, hhk]
      by_cases h1 : cmp hi'.key x.1 < 0 <;> simp [h1] <;> omega
  | excl =>
    refine ⟨.lt, some Side.upper, by decide, rfl, fun lo => ?_⟩
    have := seekBwd_spec hc hi seekLastLessStep (by intro c h; simp [seekLastLessStep]; omega)
      (by intro c h; simp [seekLastLessStep]; omega) { pos := none, gen := 0 } hi'.key
    rw [hfun _ (fun x => !belowHi cmp hi' x.1)] at this
    · exact this
    · intro x
      have h2 := hc.anti x.1 hi'.key
      simp only [seekLastLessStep, belowHi, hhk]
      by_cases h1 : cmp hi'.key x.1 ≤ 0 <;> simp [h1] <;> omega
  | unb =>
    refine ⟨.last, none, by decide, rfl, fun lo => ?_⟩
    have := seekLast_spec hi { pos := none, gen := 0 }
    have hd : (toList t.root).reverse.dropWhile (fun x => !belowHi cmp hi' x.1) = (toList t.root).reverse := by
      apply dropWhile_of_head_false; intro a _; simp [belowHi, hhk]
    rw [hd]; exact this

theorem rangeRev_refines (hc : StrictWeak cmp) {t : Tree K V} (hi : Inv cmp t) (lo hi' : Bound K)
    (hlk : lo.kind ≠ none) (hhk : hi'.kind ≠ none) :
    ∃ it, rangeReverse cmp t lo hi' = some it ∧ ∀ fuel, (toList t.root).length < fuel →
      drain cmp t fuel it = (srangeRev cmp lo hi' (toList t.root)).map outOf := by
  obtain ⟨lk, hlk'⟩ := Option.ne_none_iff_exists'.mp hlk
  obtain ⟨hk, hhk'⟩ := Option.ne_none_iff_exists'.mp hhk
  obtain ⟨sk, arg, hfind, hside, hbwd⟩ := rrange_seek_bwd hc hi hi' hk hhk'
  obtain ⟨_, _, _, hsort⟩ := inv_facts hi
  have hrsort : (toList t.root).reverse.Pairwise (fun a b : K × V => cmp b.1 a.1 < 0) :=
    List.pairwise_reverse.mpr hsort
  have hrange : srangeRev cmp lo hi' (toList t.root) =
      ((toList t.root).reverse.dropWhile (fun x => !belowHi cmp hi' x.1)).takeWhile (fun e => aboveLo cmp lo e.1) := by
    unfold srangeRev srange
    rw [← List.filter_reverse]
    have hcomm : (fun e : K × V => aboveLo cmp lo e.1 && belowHi cmp hi' e.1) =
        (fun e : K × V => belowHi cmp hi' e.1 && aboveLo cmp lo e.1) := by
      funext e; exact Bool.and_comm _ _
    rw [hcomm]
    exact filter_range_sorted (lo := fun e : K × V => belowHi cmp hi' e.1) (hi := fun e : K × V => aboveLo cmp lo e.1) hrsort
      (fun a b h ha => belowHi_mono hc hi' h ha) (fun a b h hb => aboveLo_mono hc lo h hb)
  have hlen : ∀ fuel, (toList t.root).length < fuel →
      ((toList t.root).reverse.dropWhile (fun x => !belowHi cmp hi' x.1)).length < fuel := by
    intro fuel h
    have := length_dropWhile_le' (fun x : K × V => !belowHi cmp hi' x.1) (toList t.root).reverse
    simp only [List.length_reverse] at this
    omega
  -- the lower-bound switch
  have hstop : ∃ stop, rrangeStop.2.find? (fun r => r.1 == lk) = some (lk, match stop with
        | none => StopKind.all false
        | some (op, s) => StopKind.while false op s) ∧ rrangeStop.1 = Side.lower ∧
      (∀ e : K × V, keepOf cmp (stop.map fun os => (os.1, (pickSide os.2 lo hi').key)) e = aboveLo cmp lo e.1) := by
    cases lk with
    | incl => exact ⟨some (.ge, Side.lower), by decide, rfl, fun e => by simp [keepOf, evalOp, aboveLo, hlk', pickSide_lower, ge_iff_le]⟩
    | excl => exact ⟨some (.gt, Side.lower), by decide, rfl, fun e => by simp [keepOf, evalOp, aboveLo, hlk', pickSide_lower, gt_iff_lt]⟩
    | unb => exact ⟨none, by decide, rfl, fun e => by simp [keepOf, aboveLo, hlk']⟩
  obtain ⟨stop, hsf, hss, hkeep⟩ := hstop
  have htw : ∀ S : List (K × V), S.takeWhile (keepOf cmp (stop.map fun os => (os.1, (pickSide os.2 lo hi').key))) =
      S.takeWhile (fun e => aboveLo cmp lo e.1) := by
    intro S; congr 1; funext e; exact hkeep e
  cases stop with
  | none =>
    refine ⟨{ c := doSeek cmp t sk (argKey arg lo hi'), fwd := false, stop := none, done := false },
      by simp only [rangeReverse, mkIter, hside, pickSide_lower, pickSide_upper, hlk', hfind, hss, hhk', hsf]; cases arg <;> rfl, ?_⟩
    intro fuel hf
    rw [← drain_eq_while cmp t fuel (IterEq.refl _ (fun _ => rfl)), drain_bwd hi none _ fuel _ (hbwd lo) (hlen fuel hf), hrange]
    have := htw ((toList t.root).reverse.dropWhile (fun x => !belowHi cmp hi' x.1))
    simp only [Option.map_none] at this
    rw [this]
  | some os =>
    obtain ⟨op, s⟩ := os
    refine ⟨{ c := doSeek cmp t sk (argKey arg lo hi'), fwd := false, stop := some (op, (pickSide s lo hi').key), done := false },
      by simp only [rangeReverse, mkIter, hside, pickSide_lower, pickSide_upper, hlk', hfind, hss, hhk', hsf]; cases arg <;> rfl, ?_⟩
    intro fuel hf
    rw [← drain_eq_while cmp t fuel (IterEq.refl _ (fun _ => rfl)), drain_bwd hi (some (op, (pickSide s lo hi').key)) _ fuel _ (hbwd lo) (hlen fuel hf), hrange]
    have := htw ((toList t.root).reverse.dropWhile (fun x => !belowHi cmp hi' x.1))
    simp only [Option.map_some] at this
    rw [this]

end Juniper.Proofs.Tree
