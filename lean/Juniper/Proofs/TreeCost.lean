import Juniper.Model.BTreeCost
import Juniper.Proofs.TreeGet
/-!
# Comparison counting (C03, audit C03-F2 / C03-F5)

`cost_skeleton` is the tie to `btree.go`: one loop in each of `searchNode`, `Get`, `Contains`; one
comparator call per iteration of `searchNode`'s loop and none outside it; one `searchNode` call per level of
`Get` / `Contains`, none outside the descent loop, no direct comparison. The bounds below use it.
-/
namespace Juniper.Proofs.Tree
open Juniper.Model.BTree Juniper.Gen.Tree Juniper.Gen.TreeAccess

variable {K V : Type} {cmp : K → K → Int}

/-- **tie lemma**: the regenerated call / loop counts of `searchNode`, `Get`, `Contains` are the ones the cost
model is entitled to (a comparison or a `searchNode` call outside the loops, a second loop, a second call per
iteration all change one of these numbers). -/
theorem cost_skeleton :
    (searchLoops = 1 ∧ searchCompares = searchLoopCompares ∧ searchLoopCompares = 1) ∧
    (getLoops = 1 ∧ getSearches = getLoopSearches ∧ getLoopSearches = 1 ∧ getCompares = 0) ∧
    (containsLoops = 1 ∧ containsSearches = containsLoopSearches ∧ containsLoopSearches = 1 ∧
      containsCompares = 0) := by decide

/-- the closed form `searchIters = min (idx + 1) n` is the loop of `btree.searchNode` unrolled: no iteration on
an empty node; the iteration on the first key returns (`c < 0`: not found here; `c == 0`: found) or goes on
with the rest — the comparison operators being the regenerated `searchLess` / `searchEq`. -/
theorem searchIters_loop (cmp : K → K → Int) (k : K) :
    searchIters cmp k ([] : List (K × V)) = 0 ∧
    ∀ (k' : K) (v' : V) (rest : List (K × V)),
      searchIters cmp k ((k', v') :: rest) =
        if searchLess (cmp k k') then 1 else if searchEq (cmp k k') then 1 else searchIters cmp k rest + 1 := by
  refine ⟨by simp [searchIters], fun k' v' rest => ?_⟩
  simp only [searchIters, searchNode, List.length_cons]
  split
  · simp
  · split
    · simp
    · simp only []; omega

/-- the linear in-node search makes at most one comparison per stored key. -/
theorem searchCost_le (cmp : K → K → Int) (k : K) (kvs : List (K × V)) :
    searchCost cmp k kvs ≤ kvs.length := by
  have h := cost_skeleton.1.2.2
  simp only [searchCost, searchIters, h, Nat.one_mul]
  exact Nat.min_le_right _ _

/-- the number of nodes a lookup visits is at most the number of levels -/
theorem levelCosts_length_le (calls : Nat) (cmp : K → K → Int) (k : K) (x : Node K V) :
    ∀ h, Bal h x → (levelCosts calls cmp k x).length ≤ h + 1 := by
  fun_induction levelCosts calls cmp k x with
  | case1 id kvs kids i hs => intro h _; simp
  | case2 id kvs kids i hs hnone => intro h _; simp
  | case3 id kvs kids i hs c hcc ih =>
    intro h hb
    have hne : kids ≠ [] := by intro h0; subst h0; simp at hcc
    obtain ⟨h', rfl, _, hall⟩ := bal_inner hne hb
    have := ih h' (hall c (List.mem_of_getElem? hcc)).1
    simp only [List.length_cons]; omega

/-- in every visited node the lookup makes at most `calls · n ≤ calls · maxKVs` comparisons -/
theorem levelCosts_le (calls : Nat) (cmp : K → K → Int) (k : K) (x : Node K V) :
    ∀ h, Bal h x → x.n ≤ maxKVs → ∀ c ∈ levelCosts calls cmp k x, (c : Int) ≤ calls * maxKVs := by
  have one : ∀ kvs : List (K × V), ((kvs.length : Int) ≤ maxKVs) →
      ((calls * searchCost cmp k kvs : Nat) : Int) ≤ calls * maxKVs := by
    intro kvs hn
    have := searchCost_le cmp k kvs
    push_cast
    exact Int.mul_le_mul_of_nonneg_left (by omega) (by omega)
  fun_induction levelCosts calls cmp k x with
  | case1 id kvs kids i hs =>
    intro h _ hn c hc
    simp only [node_n] at hn
    simp only [List.mem_singleton] at hc; subst hc; exact one kvs hn
  | case2 id kvs kids i hs hnone =>
    intro h _ hn c hc
    simp only [node_n] at hn
    simp only [List.mem_singleton] at hc; subst hc; exact one kvs hn
  | case3 id kvs kids i hs c hcc ih =>
    intro h hb hn d hd
    simp only [node_n] at hn
    have hne : kids ≠ [] := by intro h0; subst h0; simp at hcc
    obtain ⟨h', rfl, _, hall⟩ := bal_inner hne hb
    have hcm := List.mem_of_getElem? hcc
    rcases List.mem_cons.mp hd with hd | hd
    · subst hd; exact one kvs hn
    · exact ih h' (hall c hcm).1 (hall c hcm).2.2 d hd

theorem sum_le_of_all_le (l : List Nat) (b : Nat) (h : ∀ c ∈ l, c ≤ b) : l.sum ≤ b * l.length := by
  induction l with
  | nil => simp
  | cons a r ih =>
    have h1 := h a (by simp)
    have h2 := ih (fun c hc => h c (by simp [hc]))
    simp only [List.sum_cons, List.length_cons, Nat.mul_succ]; omega

/-- total over the search path: at most `calls · maxKVs` per level -/
theorem levelCosts_sum_le (calls : Nat) (cmp : K → K → Int) (k : K) (x : Node K V) (h : Nat)
    (hb : Bal h x) (hn : x.n ≤ maxKVs) :
    ((levelCosts calls cmp k x).sum : Int) ≤ calls * maxKVs * (h + 1) := by
  have hmax : (0 : Int) ≤ maxKVs := by decide
  have h1 := levelCosts_le calls cmp k x h hb hn
  have h2 := levelCosts_length_le calls cmp k x h hb
  have h3 := sum_le_of_all_le (levelCosts calls cmp k x) (calls * maxKVs.toNat) (by
    intro c hc
    have := h1 c hc
    have e : ((calls * maxKVs.toNat : Nat) : Int) = calls * maxKVs := by
      push_cast; rw [Int.toNat_of_nonneg hmax]
    omega)
  have e : ((calls * maxKVs.toNat : Nat) : Int) = calls * maxKVs := by
    push_cast; rw [Int.toNat_of_nonneg hmax]
  have h4 : (((calls * maxKVs.toNat) * (levelCosts calls cmp k x).length : Nat) : Int) ≤ calls * maxKVs * (h + 1) := by
    rw [Int.natCast_mul, e]
    exact Int.mul_le_mul_of_nonneg_left (by omega) (Int.mul_nonneg (by omega) hmax)
  omega

end Juniper.Proofs.Tree
