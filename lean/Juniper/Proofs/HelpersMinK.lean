import Juniper.Proofs.HelpersBasic
import Juniper.Model.HelpersSort
namespace Juniper.Proofs.Helpers
open Juniper.Model.Helpers Juniper.Spec.Helpers Juniper.Gen.Helpers
variable {α : Type}

/-- asymmetry of a strict weak order -/
theorem minK_asymm {less : α → α → Bool} (hw : StrictWeak less) (a b : α)
    (h : less a b = true) : less b a = false := by
  cases hba : less b a with
  | false => rfl
  | true =>
    have := hw.trans a b a h hba
    rw [hw.irrefl a] at this
    exact absurd this (by decide)

/-- the reversed order of a strict weak order is a strict weak order -/
theorem minK_strictWeak_rev {less : α → α → Bool} (hw : StrictWeak less) :
    StrictWeak (fun a b => less b a) :=
  ⟨fun a => hw.irrefl a, fun a b c h1 h2 => hw.trans c b a h2 h1,
   fun a b c h1 h2 => hw.negTrans c b a h2 h1⟩

theorem popFirstMin_none_iff {ε : Type} (lt : ε → ε → Bool) (l : List ε) :
    popFirstMin lt l = none ↔ l = [] := by
  cases l with
  | nil => simp [popFirstMin]
  | cons x xs =>
    simp only [popFirstMin]
    cases h : popFirstMin lt xs with
    | none => simp
    | some p =>
      obtain ⟨m, rest⟩ := p
      simp only
      split <;> simp

theorem popFirstMin_perm {ε : Type} (lt : ε → ε → Bool) :
    ∀ (l : List ε) (m : ε) (r : List ε), popFirstMin lt l = some (m, r) → l.Perm (m :: r) := by
  intro l
  induction l with
  | nil => intro m r h; simp [popFirstMin] at h
  | cons x xs ih =>
    intro m r h
    simp only [popFirstMin] at h
    cases hx : popFirstMin lt xs with
    | none =>
      rw [hx] at h
      simp only [Option.some.injEq, Prod.mk.injEq] at h
      obtain ⟨rfl, rfl⟩ := h
      have : xs = [] := (popFirstMin_none_iff lt xs).mp hx
      subst this
      exact List.Perm.refl _
    | some p =>
      obtain ⟨m', rest'⟩ := p
      rw [hx] at h
      simp only at h
      have hperm := ih m' rest' hx
      by_cases hlt : lt m' x = true
      · simp only [hlt, if_true, Option.some.injEq, Prod.mk.injEq] at h
        obtain ⟨rfl, rfl⟩ := h
        exact (List.Perm.cons x hperm).trans (List.Perm.swap _ _ _)
      · simp only [hlt] at h
        obtain ⟨rfl, rfl⟩ := h
        exact List.Perm.refl _

theorem popFirstMin_min {ε : Type} (lt : ε → ε → Bool) (hw : StrictWeak lt) :
    ∀ (l : List ε) (m : ε) (r : List ε), popFirstMin lt l = some (m, r) → ∀ y ∈ r, lt y m = false := by
  intro l
  induction l with
  | nil => intro m r h; simp [popFirstMin] at h
  | cons x xs ih =>
    intro m r h
    simp only [popFirstMin] at h
    cases hx : popFirstMin lt xs with
    | none =>
      rw [hx] at h
      simp only [Option.some.injEq, Prod.mk.injEq] at h
      obtain ⟨rfl, rfl⟩ := h
      intro y hy
      cases hy
    | some p =>
      obtain ⟨m', rest'⟩ := p
      rw [hx] at h
      simp only at h
      have hperm := popFirstMin_perm lt xs m' rest' hx
      have hmin := ih m' rest' hx
      by_cases hlt : lt m' x = true
      · simp only [hlt, if_true, Option.some.injEq, Prod.mk.injEq] at h
        obtain ⟨rfl, rfl⟩ := h
        intro y hy
        rcases List.mem_cons.mp hy with rfl | hy
        · exact minK_asymm hw _ _ hlt
        · exact hmin y hy
      · simp only [hlt] at h
        obtain ⟨rfl, rfl⟩ := h
        have hlt' : lt m' x = false := by simpa using hlt
        intro y hy
        have hy' : y ∈ m' :: rest' := hperm.mem_iff.mp hy
        rcases List.mem_cons.mp hy' with rfl | hy'
        · exact hlt'
        · exact hw.negTrans _ _ _ (hmin y hy') hlt'

theorem popFirstMin_spec {ε : Type} : PopSpec (popFirstMin (α := ε)) :=
  ⟨popFirstMin_none_iff, fun lt l m r h => popFirstMin_perm lt l m r h,
   fun lt hw l m r h => popFirstMin_min lt hw l m r h⟩

/-- pops until the heap is empty: what the output loop of `MinK` writes, in the order it pops -/
def drain (lt : α → α → Bool) (pop : (α → α → Bool) → List α → Option (α × List α)) : Nat → List α → List α
  | 0, _ => []
  | fuel + 1, h =>
    match pop lt h with
    | none => []
    | some (m, h') => m :: drain lt pop fuel h'

/-- draining a heap yields a permutation of it in ascending order of `lt` -/
theorem drain_spec (lt : α → α → Bool) (pop : (α → α → Bool) → List α → Option (α × List α))
    (hp : PopSpec pop) (hw : StrictWeak lt) :
    ∀ (fuel : Nat) (h : List α), h.length ≤ fuel →
      (drain lt pop fuel h).Perm h ∧ (drain lt pop fuel h).Pairwise (fun a b => lt b a = false) := by
  intro fuel
  induction fuel with
  | zero =>
    intro h hl
    have : h = [] := List.length_eq_zero_iff.mp (by omega)
    subst this
    simp [drain]
  | succ fuel ih =>
    intro h hl
    simp only [drain]
    cases hpop : pop lt h with
    | none =>
      have : h = [] := (hp.none_iff lt h).mp hpop
      subst this
      simp
    | some p =>
      obtain ⟨m, h'⟩ := p
      simp only
      have hperm := hp.perm lt h m h' hpop
      have hlen : h'.length ≤ fuel := by
        have := hperm.length_eq
        simp only [List.length_cons] at this
        omega
      obtain ⟨ih1, ih2⟩ := ih h' hlen
      refine ⟨(List.Perm.cons m ih1).trans hperm.symm, ?_⟩
      rw [List.pairwise_cons]
      refine ⟨?_, ih2⟩
      intro b hb
      exact hp.min lt hw h m h' hpop b (ih1.mem_iff.mp hb)

/-- invariant of the push/pop loop with the ghost list `dropped` of popped elements -/
theorem minKLoop_spec (less : α → α → Bool) (pop : (α → α → Bool) → List α → Option (α × List α))
    (hp : PopSpec pop) (hw : StrictWeak less) (k : Int) :
    ∀ (xs h dropped : List α), h.length ≤ k.toNat → (dropped = [] ∨ k ≤ (h.length : Int)) →
      (∀ a ∈ h, ∀ b ∈ dropped, less b a = false) →
      ∃ dropped', (xs ++ (h ++ dropped)).Perm (minKLoop less pop k xs h ++ dropped') ∧
        (minKLoop less pop k xs h).length = min k.toNat (h.length + xs.length) ∧
        ∀ a ∈ minKLoop less pop k xs h, ∀ b ∈ dropped', less b a = false := by
  intro xs
  induction xs with
  | nil =>
    intro h dropped hl hfull hd
    refine ⟨dropped, ?_, ?_, ?_⟩
    · simp [minKLoop]
    · simp only [minKLoop, List.length_nil, Nat.add_zero]; omega
    · simpa [minKLoop] using hd
  | cons x xs ih =>
    intro h dropped hl hfull hd
    simp only [minKLoop, minKPop, minKPops, minKReversed, Bool.and_true, if_true,
      decide_eq_true_eq, List.length_cons]
    by_cases hk : ((h.length + 1 : Nat) : Int) > k
    · simp only [hk, if_true]
      cases hpop : pop (fun a b => less b a) (x :: h) with
      | none =>
        have := (hp.none_iff _ _).mp hpop
        cases this
      | some p =>
        obtain ⟨m, h'⟩ := p
        simp only
        have hperm := hp.perm _ _ m h' hpop
        have hmin := hp.min _ (minK_strictWeak_rev hw) _ m h' hpop
        have hlen : h'.length = h.length := by
          have := hperm.length_eq
          simp only [List.length_cons] at this
          omega
        have hd' : ∀ a ∈ h', ∀ b ∈ m :: dropped, less b a = false := by
          intro a ha b hb
          rcases List.mem_cons.mp hb with rfl | hb
          · exact hmin a ha
          · have hm : m ∈ x :: h := hperm.mem_iff.mpr (List.mem_cons_self)
            rcases List.mem_cons.mp hm with rfl | hm
            · have : h.Perm h' := List.Perm.cons_inv hperm
              exact hd a (this.mem_iff.mpr ha) b hb
            · exact hw.negTrans _ _ _ (hd m hm b hb) (hmin a ha)
        obtain ⟨dropped', h1, h2, h3⟩ := ih h' (m :: dropped) (by omega) (Or.inr (by omega)) hd'
        refine ⟨dropped', ?_, ?_, h3⟩
        · refine List.Perm.trans ?_ h1
          have e1 : (x :: xs ++ (h ++ dropped)).Perm (xs ++ (x :: h ++ dropped)) := by
            simpa using (List.perm_middle (a := x) (l₁ := xs) (l₂ := h ++ dropped)).symm
          refine e1.trans (List.Perm.append_left xs ?_)
          have e2 : (x :: h ++ dropped).Perm (m :: h' ++ dropped) := List.Perm.append_right dropped hperm
          refine e2.trans ?_
          simpa using (List.perm_middle (a := m) (l₁ := h') (l₂ := dropped)).symm
        · rw [h2, hlen]; omega
    · simp only [hk, if_false]
      have hdn : dropped = [] := by
        rcases hfull with h0 | h0
        · exact h0
        · omega
      subst hdn
      obtain ⟨dropped', h1, h2, h3⟩ := ih (x :: h) [] (by simp only [List.length_cons]; omega)
        (Or.inl rfl) (by intro a _ b hb; cases hb)
      refine ⟨dropped', ?_, ?_, h3⟩
      · refine List.Perm.trans ?_ h1
        simpa using (List.perm_middle (a := x) (l₁ := xs) (l₂ := h)).symm
      · rw [h2]; simp only [List.length_cons]; omega

/-- the output loop started at `len(h) - 1` pops the whole heap and writes it back to front -/
theorem minKFill_spec (cond : Int → Bool) (hcond : ∀ i, cond i = decide (i ≥ 0))
    (lt : α → α → Bool) (pop : (α → α → Bool) → List α → Option (α × List α)) (hp : PopSpec pop) :
    ∀ (t fuel : Nat) (h out : List α), h.length = t → t ≤ out.length → t < fuel →
      minKFill cond lt pop fuel ((t : Int) - 1) h out = some ((drain lt pop t h).reverse ++ out.drop t) := by
  intro t
  induction t with
  | zero =>
    intro fuel h out _ _ hf
    obtain ⟨f, rfl⟩ : ∃ f, fuel = f + 1 := ⟨fuel - 1, by omega⟩
    simp [minKFill, hcond, drain]
  | succ t ih =>
    intro fuel h out hl ho hf
    obtain ⟨f, rfl⟩ : ∃ f, fuel = f + 1 := ⟨fuel - 1, by omega⟩
    have hc : cond (((t + 1 : Nat) : Int) - 1) = true := by
      simp only [hcond, decide_eq_true_eq]; omega
    simp only [minKFill, hc, if_true, drain]
    cases hpop : pop lt h with
    | none =>
      have := (hp.none_iff lt h).mp hpop
      subst this
      simp at hl
    | some p =>
      obtain ⟨m, h'⟩ := p
      have hperm := hp.perm lt h m h' hpop
      have hlen : h'.length = t := by
        have := hperm.length_eq
        simp only [List.length_cons] at this
        omega
      have hi : ((t + 1 : Nat) : Int) - 1 = (t : Int) := by omega
      simp only [hi, setI_nat out t m (by omega)]
      rw [ih f h' (out.set t m) hlen (by simp only [List.length_set]; omega) (by omega)]
      congr 1
      rw [List.reverse_cons, List.append_assoc]
      congr 1
      rw [List.drop_eq_getElem_cons (show t < (out.set t m).length by simp only [List.length_set]; omega),
        List.getElem_set_self, List.drop_set_of_lt (by omega)]
      rfl

theorem minK_spec (zero : α) (less : α → α → Bool) (pop : (α → α → Bool) → List α → Option (α × List α))
    (hp : PopSpec pop) (hw : StrictWeak less) (xs : List α) (k : Int) (hk64 : k ≤ 9223372036854775807) :
    ∃ out, minK zero less pop xs k = some out ∧
    out.length = min k.toNat xs.length ∧ SortedBy less out ∧
    ∃ rest, xs.Perm (out ++ rest) ∧ ∀ a ∈ out, ∀ b ∈ rest, less b a = false := by
  obtain ⟨rest, h1, h2, h3⟩ := minKLoop_spec less pop hp hw k xs [] [] (by simp) (Or.inl rfl)
    (by intro a ha; cases ha)
  have hrev : (fun a b => if minKReversed = true then less b a else less a b) = fun a b => less b a := by
    simp [minKReversed]
  obtain ⟨d1, d2⟩ := drain_spec (fun a b => less b a) pop hp (minK_strictWeak_rev hw)
    (minKLoop less pop k xs []).length (minKLoop less pop k xs []) (Nat.le_refl _)
  -- `make([]T, h.Len())`, `i := len(out) - 1` (exact: `h.Len() ≤ k ≤ MaxInt64`)
  have hlen64 : ((minKLoop less pop k xs []).length : Int) ≤ 9223372036854775807 := by
    rw [h2]; omega
  have hfrom : minKFillFrom ((minKLoop less pop k xs []).length : Int) = ((minKLoop less pop k xs []).length : Int) - 1 := by
    unfold minKFillFrom; exact wrap64_of_range (by omega) (by omega)
  have hmk : minK zero less pop xs k =
      some (drain (fun a b => less b a) pop (minKLoop less pop k xs []).length (minKLoop less pop k xs [])).reverse := by
    simp only [minK, hrev, minKOutLen, hfrom, Int.toNat_natCast]
    rw [if_neg (by omega), minKFill_spec minKFillCond (fun _ => rfl) _ pop hp _ _ _ _ rfl (by simp) (by omega)]
    simp
  refine ⟨_, hmk, ?_⟩
  have hpm : (drain (fun a b => less b a) pop (minKLoop less pop k xs []).length (minKLoop less pop k xs [])).reverse.Perm
      (minKLoop less pop k xs []) := (List.reverse_perm _).trans d1
  refine ⟨?_, ?_, rest, ?_, ?_⟩
  · rw [hpm.length_eq, h2]; simp
  · unfold SortedBy
    rw [List.pairwise_reverse]
    exact d2
  · have : xs.Perm (minKLoop less pop k xs [] ++ rest) := by simpa using h1
    exact this.trans (List.Perm.append_right rest hpm.symm)
  · intro a ha b hb
    exact h3 a (hpm.mem_iff.mp ha) b hb

end Juniper.Proofs.Helpers
