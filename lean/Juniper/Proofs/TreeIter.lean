import Juniper.Proofs.TreeRange
/-!
# Iterators while the tree is modified between `Next` calls (C02)

`CInv t c` is what survives arbitrary `Put`/`Delete`s between two `Next` calls of a cursor;
`rawNext_refines_fwd` says that `forwardIterator.Next` on the *current* tree yields the first entry
whose key is `≥` the remembered key (with its current value) and parks on that entry's successor —
the resume-key iterator of the specification.
-/
namespace Juniper.Proofs.Tree
open Juniper.Model.BTree Juniper.Gen.Tree

variable {K V : Type} {α : Type} {cmp : K → K → Int}

/-- the tree with all values erased: identities, keys and structure -/
def skel : Node K V → Node K Unit
  | .mk id kvs kids => .mk id (kvs.map fun kv => (kv.1, ())) (kids.map skel)

theorem skel_mk (id : Nat) (kvs : List (K × V)) (kids : List (Node K V)) :
    skel (.mk id kvs kids) = .mk id (kvs.map fun kv => (kv.1, ())) (kids.map skel) := skel.eq_1 id kvs kids

def skelFr (fr : List (Node K V × Nat)) : List (Node K Unit × Nat) := fr.map fun f => (skel f.1, f.2)

theorem pathTo_skel (id : Nat) (x : Node K V) :
    pathTo id (skel x) = (pathTo id x).map fun r => (skelFr r.1, skel r.2) := by
  apply pathTo.induct id
    (motive_1 := fun x => pathTo id (skel x) = (pathTo id x).map fun r => (skelFr r.1, skel r.2))
    (motive_2 := fun kids j0 => pathIn id (kids.map skel) j0 =
      (pathIn id kids j0).map fun r => (r.1, skelFr r.2.1, skel r.2.2))
  · intro kvs kids
    simp [skel_mk, pathTo, skelFr]
  · intro i kvs kids hne j fr y hin ih
    simp only [skel_mk, pathTo, hne, if_false, ih, hin, Option.map_some, skelFr, List.map_cons]
  · intro i kvs kids hne hin ih
    simp only [skel_mk, pathTo, hne, if_false, ih, hin, Option.map_none]
  · intro j0; simp [pathIn]
  · intro c cs j0 fr y hp ih
    simp only [List.map_cons, pathIn, ih, hp, Option.map_some]
  · intro c cs j0 hp ih1 ih2
    simp only [List.map_cons, pathIn, ih1, hp, Option.map_none, ih2]

/-- positions survive a change of values only -/
theorem at_of_skel {root root' : Node K V} (hs : skel root = skel root') (hone : ∀ i, cnt i root ≤ 1)
    {p : Pos K} {y : Node K V} {up : List (Node K V × Nat)} {e : K × V} (ha : At root p y up e) :
    ∃ y' up' e', At root' p y' up' e' ∧ e'.1 = e.1 := by
  have h1 := pathTo_unique p.id root up y ha.zip hone ha.idEq
  have h2 := pathTo_skel p.id root
  have h3 := pathTo_skel p.id root'
  rw [hs, h3, h1] at h2
  cases hp : pathTo p.id root' with
  | none => rw [hp] at h2; simp at h2
  | some r =>
    obtain ⟨fr', y'⟩ := r
    rw [hp] at h2
    simp only [Option.map_some, Option.some.injEq, Prod.mk.injEq] at h2
    obtain ⟨_, hy⟩ := h2
    obtain ⟨hz, hid⟩ := pathTo_spec p.id root' fr' y' hp
    obtain ⟨yid, ykvs, ykids⟩ := y
    obtain ⟨yid', ykvs', ykids'⟩ := y'
    simp only [skel_mk, Node.mk.injEq] at hy
    obtain ⟨_, hk, _⟩ := hy
    have hent := ha.entry
    simp only [Node.kvs] at hent
    have hlen : ykvs'.length = ykvs.length := by
      have := congrArg List.length hk; simpa using this
    have hi : p.i < ykvs'.length := by rw [hlen]; exact (List.getElem?_eq_some_iff.mp hent).1
    refine ⟨_, fr'.reverse, ykvs'[p.i], ⟨hz, hid, List.getElem?_eq_getElem hi⟩, ?_⟩
    have h4 := congrArg (fun l => l[p.i]?) hk
    simp only [List.getElem?_map, hent, List.getElem?_eq_getElem hi, Option.map_some, Option.some.injEq, Prod.mk.injEq,
      and_true] at h4
    exact h4

theorem ins_found_skel (cmp : K → K → Int) (k : K) (v : V) (x : Node K V) (fresh : Nat) :
    ∀ x', (ins cmp k v x fresh).1 = .found x' → skel x' = skel x := by
  fun_induction ins cmp k v x fresh with
  | case1 id kvs kids i hs =>
    intro x' h
    simp only [InsRes.found.injEq] at h
    subst h
    simp only [skel_mk, Node.mk.injEq, true_and, and_true]
    unfold setVal
    split
    · rename_i k0 v0 rest heq
      conv => rhs; rw [← List.take_append_drop i kvs, heq]
      simp
    · rfl
  | case2 => intro x' h; cases h
  | case3 => intro x' h; cases h
  | case4 => intro x' h; cases h
  | case5 => intro x' h; cases h
  | case6 id kvs kids i hs hinner c hcc c' f hres ih =>
    intro x' h
    simp only [InsRes.found.injEq] at h
    subst h
    have := ih c' (by rw [hres])
    simp only [skel_mk, Node.mk.injEq, true_and]
    conv => rhs; rw [(split_at_getElem? hcc).1]
    simp [replaceAt, this]
  | case7 => intro x' h; cases h
  | case8 => intro x' h; cases h
  | case9 => intro x' h; cases h


/-- what holds between a tree and a cursor parked in it, however the tree was modified since: the
cursor's generation is not from the future, and while it is current the remembered position is exact -/
structure CInv (t : Tree K V) (c : Cursor K) : Prop where
  genLe : c.gen ≤ t.gen
  cur : c.gen = t.gen → ∀ p, c.pos = some p → ∃ y up e, At t.root p y up e ∧ p.k = e.1

theorem cinv_put (cmp : K → K → Int) {t t' : Tree K V} (hi : Inv cmp t) {c : Cursor K} (hc : CInv t c) {k : K} {v : V}
    (hp : put cmp t k v = some t') : CInv t' c := by
  obtain ⟨_, _, hone, _⟩ := inv_facts hi
  have hbg : putBumpsGen = true := by decide
  have hsk := ins_found_skel cmp k v t.root t.nextId
  unfold put at hp
  rcases hres : ins cmp k v t.root t.nextId with ⟨res, f⟩
  rw [hres] at hp hsk
  cases res with
  | crash => cases hp
  | found r =>
    simp only [Option.some.injEq] at hp; subst hp
    refine ⟨hc.genLe, fun hg p hpos => ?_⟩
    obtain ⟨y, up, e, ha, hk⟩ := hc.cur hg p hpos
    obtain ⟨y', up', e', ha', he'⟩ := at_of_skel (root' := r) (hsk r rfl).symm hone ha
    exact ⟨y', up', e', ha', by rw [he', hk]⟩
  | one r =>
    simp only [Option.some.injEq] at hp; subst hp
    have := hc.genLe
    refine ⟨by simp only [bump, hbg, if_true]; omega, fun hg => ?_⟩
    simp only [bump, hbg, if_true] at hg; omega
  | split l sep r =>
    simp only [Option.some.injEq] at hp; subst hp
    have := hc.genLe
    refine ⟨by simp only [bump, hbg, if_true]; omega, fun hg => ?_⟩
    simp only [bump, hbg, if_true] at hg; omega

theorem cinv_delete (cmp : K → K → Int) {t t' : Tree K V} {c : Cursor K} (hc : CInv t c) {k : K}
    (hp : delete cmp t k = some t') : CInv t' c := by
  have hbg : deleteBumpsGen = true := by decide
  unfold delete at hp
  cases hres : del cmp k t.root.id t.root with
  | absent => rw [hres] at hp; simp only [deleteMissReturnsFirst, if_true, Option.some.injEq] at hp; subst hp; exact hc
  | crash => rw [hres] at hp; cases hp
  | done r u =>
    rw [hres] at hp; simp only [Option.some.injEq] at hp; subst hp
    have := hc.genLe
    refine ⟨by simp only [bump, hbg, if_true]; omega, fun hg => ?_⟩
    simp only [bump, hbg, if_true] at hg; omega

/-- a cursor that does not consider itself lost is parked on an entry equivalent to the key it remembers -/
theorem parked_of_not_lost (hs : StrictWeak cmp) {t : Tree K V} {c : Cursor K} (hc : CInv t c) {p : Pos K}
    (hp : c.pos = some p) (hl : lostAt cmp t c = false) :
    ∃ y up e, At t.root p y up e ∧ cmp p.k e.1 = 0 := by
  by_cases hg : c.gen = t.gen
  · obtain ⟨y, up, e, ha, hk⟩ := hc.cur hg p hp
    exact ⟨y, up, e, ha, by rw [hk]; exact hs.refl _⟩
  · have hg' : ¬ ((c.gen : Int) = (t.gen : Int)) := by omega
    unfold lostAt at hl
    rw [hp] at hl
    simp only at hl
    cases hf : findNode p.id t.root with
    | none =>
      rw [hf] at hl
      simp [lost, hg'] at hl
    | some x =>
      rw [hf] at hl
      simp only at hl
      have hpt : ∃ fr, pathTo p.id t.root = some (fr, x) := by
        unfold findNode at hf
        cases hpp : pathTo p.id t.root with
        | none => rw [hpp] at hf; cases hf
        | some r => rw [hpp] at hf; simp at hf; exact ⟨r.1, by rw [← hf]⟩
      obtain ⟨fr, hpt⟩ := hpt
      obtain ⟨hz, hid⟩ := pathTo_spec p.id t.root fr x hpt
      cases hkv : x.kvs[p.i]? with
      | none =>
        rw [hkv] at hl
        have : x.n ≤ (p.i : Int) := by
          have := List.getElem?_eq_none_iff.mp hkv; simp [Node.n]; omega
        simp [lost, hg'] at hl
        omega
      | some kv =>
        rw [hkv] at hl
        simp only [lost, hg', decide_false, Bool.not_false, Bool.true_and] at hl
        have h2 : cmp p.k kv.1 = 0 := by
          by_cases h0 : cmp p.k kv.1 = 0
          · exact h0
          · have := hl; simp [h0] at this
        exact ⟨x, fr.reverse, kv, ⟨hz, hid, hkv⟩, h2⟩


/-- the cursor is parked on the head of `S` (no claim about generations) -/
def Parked (t : Tree K V) (c : Cursor K) (S : List (K × V)) : Prop :=
  (S = [] ∧ c.pos = none) ∨
  (∃ p y up e, c.pos = some p ∧ At t.root p y up e ∧ p.k = e.1 ∧ S = e :: aftOf up y p.i)

theorem parked_of_fwd {t : Tree K V} {c : Cursor K} {S : List (K × V)} (h : Fwd t c S) : Parked t c S := by
  rcases h with h | ⟨_, h⟩
  · exact Or.inl h
  · exact Or.inr h

theorem cinv_of_fwd {t : Tree K V} {c : Cursor K} {S : List (K × V)} (h : Fwd t c S) (hle : c.gen ≤ t.gen) : CInv t c := by
  refine ⟨hle, fun hg p hp => ?_⟩
  rcases h with ⟨_, h⟩ | ⟨_, p', y, up, e, hp', ha, hk, _⟩
  · rw [h] at hp; cases hp
  · rw [hp'] at hp; cases hp; exact ⟨y, up, e, ha, hk⟩

theorem seekWith_gen (step : Int → Bool) (fwd : Bool) (cmp : K → K → Int) (t : Tree K V) (c : Cursor K) (k : K) :
    (seekWith step fwd cmp t c k).gen = c.gen ∨ (seekWith step fwd cmp t c k).gen = t.gen := by
  have hg : seekSetsGen = true := by decide
  unfold seekWith seek
  cases hf : find cmp t k with
  | none => left; rfl
  | some r =>
    right
    obtain ⟨p, f⟩ := r
    simp only [hg, if_true]
    by_cases hst : step (cmp k p.k) = true
    · simp only [hst, seekStepCalls_true, Bool.and_true, if_true]
      cases fwd with
      | true => simp only [if_true, stepFwd]; split <;> rfl
      | false => simp only [Bool.false_eq_true, if_false, stepBwd]; split <;> rfl
    · simp [hst]

/-- the entries with key `≥ k`, ascending -/
def geS (cmp : K → K → Int) (k : K) (L : List (K × V)) : List (K × V) :=
  L.dropWhile fun x => seekFirstGreaterOrEqualStep (cmp k x.1)

/-- one `forwardIterator.Next` on the current tree, whatever happened to the tree since the cursor was parked:
it re-finds the first entry `≥` the remembered key, yields it with its current value and parks on its successor -/
theorem rawNext_refines_fwd (hs : StrictWeak cmp) {t : Tree K V} (hi : Inv cmp t) {c : Cursor K} (hc : CInv t c) :
    match c.pos with
    | none => rawNext cmp t true c = (c, none)
    | some p =>
      match geS cmp p.k (toList t.root) with
      | [] => ∃ c', rawNext cmp t true c = (c', none) ∧ c'.pos = none ∧ CInv t c'
      | e :: S' => ∃ c' k', rawNext cmp t true c = (c', some (k', some e.2)) ∧ cmp k' e.1 = 0 ∧
          Parked t c' S' ∧ CInv t c' := by
  obtain ⟨h, hb, hone, hsort⟩ := inv_facts hi
  cases hp : c.pos with
  | none => simp [rawNext, hp]
  | some p =>
    simp only
    by_cases hl : lostAt cmp t c = true
    · -- lost: re-seek by key
      have hseek := seekFwd_spec hs hi seekFirstGreaterOrEqualStep (by intro c h; simp [seekFirstGreaterOrEqualStep, h])
        (by intro c h; simp [seekFirstGreaterOrEqualStep]; omega) c p.k
      have hseek' : Fwd t (seekFirstGreaterOrEqual cmp t c p.k) (geS cmp p.k (toList t.root)) := hseek
      have hgle : (seekFirstGreaterOrEqual (V := V) cmp t c p.k).gen ≤ t.gen := by
        have := hc.genLe
        rcases seekWith_gen seekFirstGreaterOrEqualStep true cmp t c p.k with h | h
        · unfold seekFirstGreaterOrEqual; omega
        · unfold seekFirstGreaterOrEqual; omega
      cases hS : geS cmp p.k (toList t.root) with
      | nil =>
        rw [hS] at hseek'
        refine ⟨seekFirstGreaterOrEqual cmp t c p.k, ?_, ?_, cinv_of_fwd hseek' hgle⟩
        · have hpn : (seekFirstGreaterOrEqual (V := V) cmp t c p.k).pos = none := by
            rcases hseek' with ⟨_, h⟩ | ⟨_, _, _, _, _, _, _, _, h⟩
            · exact h
            · cases h
          simp [rawNext, hp, hl, hpn]
        · rcases hseek' with ⟨_, h⟩ | ⟨_, _, _, _, _, _, _, _, h⟩
          · exact h
          · cases h
      | cons e S' =>
        rw [hS] at hseek'
        obtain ⟨c', hr', hf'⟩ := rawNext_fwd hi hseek'
        have hg1 : (seekFirstGreaterOrEqual (V := V) cmp t c p.k).gen = t.gen := by
          rcases hseek' with ⟨h, _⟩ | ⟨hg, _⟩
          · cases h
          · exact hg
        -- the model's `rawNext` first re-seeks, then behaves like `rawNext` on the re-seeked cursor
        have hpos1 : ∃ p1, (seekFirstGreaterOrEqual (V := V) cmp t c p.k).pos = some p1 := by
          rcases hseek' with ⟨h, _⟩ | ⟨_, p1, _, _, _, h, _⟩
          · cases h
          · exact ⟨p1, h⟩
        obtain ⟨p1, hp1⟩ := hpos1
        have hl1 := lostAt_of_gen_eq cmp t (seekFirstGreaterOrEqual (V := V) cmp t c p.k) hg1
        have hsame : rawNext cmp t true c = rawNext cmp t true (seekFirstGreaterOrEqual cmp t c p.k) := by
          simp only [rawNext, hp, hl, if_true, hp1, hl1, Bool.false_eq_true, if_false]
        have hcg : c'.gen ≤ t.gen := by
          rcases hf' with ⟨_, _⟩ | ⟨hg, _⟩
          · -- c' = cursorNext of the re-seeked cursor keeps its generation
            have : c'.gen = (seekFirstGreaterOrEqual (V := V) cmp t c p.k).gen := by
              have := congrArg (fun r => r.1.gen) hr'
              simp only [rawNext, hp1, hl1, Bool.false_eq_true, if_false, cursorNext] at this
              exact this.symm
            omega
          · omega
        exact ⟨c', e.1, by rw [hsame, hr'], hs.refl _, parked_of_fwd hf', cinv_of_fwd hf' hcg⟩
    · -- not lost: the remembered position is still right
      have hl' : lostAt cmp t c = false := by simpa using hl
      obtain ⟨y, up, e, ha, hke⟩ := parked_of_not_lost hs hc hp hl'
      have hL := at_toList hb ha
      have hbef : ∀ b ∈ befOf up y p.i, 0 < cmp p.k b.1 := by
        intro b hb'
        rw [hL] at hsort
        have : cmp b.1 e.1 < 0 := (List.pairwise_append.mp hsort).2.2 b hb' e List.mem_cons_self
        exact hs.gt_of_eq_of_gt hke (hs.gt_iff.mpr this)
      have hS : geS cmp p.k (toList t.root) = e :: aftOf up y p.i := by
        unfold geS
        rw [hL, dropWhile_append_all (fun b hb' => by simp [seekFirstGreaterOrEqualStep, hbef b hb'])]
        simp [seekFirstGreaterOrEqualStep, hke]
      rw [hS]
      obtain ⟨n1, n2⟩ := next_step t rfl hb hone ha
      refine ⟨{ c with pos := nextCore t p }, p.k, ?_, hke, ?_, ⟨hc.genLe, fun hg p' hp' => ?_⟩⟩
      · simp [rawNext, hp, hl', cursorNext, valueAt_of_at hi ha]
      · cases hA : aftOf up y p.i with
        | nil => left; exact ⟨rfl, by simp [n1 hA]⟩
        | cons e' A' =>
          obtain ⟨p2, y2, up2, g1, g2, g3, _, g5⟩ := n2 e' A' hA
          right; exact ⟨p2, y2, up2, e', by simp [g1], g2, g3, by rw [g5]⟩
      · cases hA : aftOf up y p.i with
        | nil => simp [n1 hA] at hp'
        | cons e' A' =>
          obtain ⟨p2, y2, up2, g1, g2, g3, _, _⟩ := n2 e' A' hA
          simp only [g1, Option.some.injEq] at hp'
          subst hp'
          exact ⟨y2, up2, e', g2, g3⟩

end Juniper.Proofs.Tree
